#!/usr/bin/env python3
"""Regenerates MANIFEST.json from the table below (claimed checks) and properties.jsonl."""
import json, os, subprocess
VERIF = os.path.dirname(os.path.dirname(os.path.abspath(__file__)))
NOTE = ("Trusted: Coq 8.16.1 kernel (vm_compute, no native_compute), no axioms declared; the hand-written model is tied to the "
        "source only by the correspondence check on generated/enumerated inputs; Go harness and toolchain. ")
CLAIMED = {
 "C16": ("PMap.v transliterates pmap.go/diff.go/reduce.go/bridge.go (cached height/size, Go branch structure, nil dereferences as faults). "
         "30 theorems: set/delete refine sorted-list insert/delete and keep bst+avl+caches; the lookup family agrees with the sorted list; "
         "logarithmic height; balance total on everything split feeds it; diff = merge-diff exactly (each differing key once, in order, "
         "right kind/old/new; nil equality; early exit; sharing irrelevant); reducer = in-order fold for any sequence of maps. Persistence "
         "of Go values is decided by the correspondence: after every operation all earlier versions are re-read and compared.",
         "AVL refinement proof + exact diff + memo soundness; exhaustive small-scope and random trace replay"),
 "C18": ("Heap.v is a transliteration of recompute_heap.go; C18.v proves for every operation sequence issued under the engine's "
         "preconditions that the queue is a multiset keyed by height: invariant preserved, remove-min returns a minimum, add/remove/fix/"
         "take-min-block/clear lose and duplicate nothing, len exact, lazy cursor sound; tied to the Go code by replaying exhaustive "
         "(length<=3 quick, <=5 thorough) and random traces on the model inside coqc, plus a Go-side multiset oracle. The height-repair "
         "half (adjustHeights) is modelled inside the engine model and exercised by the engine correspondence.",
         "refinement proof (invariant + abstraction to multiset keyed by height) + trace replay"),
 "C19": ("The status protocol is REGENERATED from the Go source on every run (go/ast symbolic extraction) and checked against the boolean "
         "hypotheses of C19_mutex, which is proved for every such program, any number of threads and every schedule; the real code is "
         "exercised by expert-API interleavings, re-entrancy cases and a stress loop. Partial: the Go scheduler/memory model are outside the model.",
         "mutual-exclusion invariant over all schedules; model regenerated from source"),
 "C20": ("Batch.v models parallelBatch as a transition system; C20_bound proves running <= p for all w, p and schedules (Semaphore "
         "discipline), tightness, p=1 seriality, progress; a gated ParallelStabilize on the real library measures the in-flight high-water "
         "mark for many (w,p) and must equal the model's prediction. Partial: the Go scheduler is outside the model.",
         "invariant of a transition system over all schedules + gated adversary on the implementation"),
}
EXTRA = os.path.join(VERIF, "bin", "manifest_extra.json")
if os.path.exists(EXTRA):
    for k, v in json.load(open(EXTRA)).items():
        CLAIMED[k] = tuple(v)
props = [json.loads(l) for l in open(os.path.join(VERIF, "properties.jsonl"))]
hooks = subprocess.run(["git", "-C", "/repo", "log", "--format=%h %s"], capture_output=True, text=True).stdout.split("\n")
hook_commits = [l.split()[0] for l in hooks if l and "verif hooks" in l]
checks = []
for pid in sorted(CLAIMED):
    text, tech = CLAIMED[pid]
    checks.append(dict(property_id=pid, quick_cmd="bin/check %s --tier quick" % pid, thorough_cmd="bin/check %s --tier thorough" % pid,
        evidence_file="/verif/evidence/%s.json" % pid, replay_cmd_template="bin/check %s --replay {path}" % pid, engine="coq+go-harness",
        level_claimed=dict(category="proof", text=text, design_ref="DESIGN.md section 5, " + pid),
        level_note=NOTE, technique=tech))
m = dict(version=1, setup_cmd="bin/setup",
  hooks=dict(guard="verif", enable="go build -tags verif (harness module replaces github.com/wcharczuk/go-incr with /repo)",
             baseline_off_cmd="cd /repo && GOFLAGS=-mod=mod GOPROXY=off go test -vet=off -count=1 ./...",
             source_commits=hook_commits, add_only=True),
  engines=[dict(name="coq+go-harness", path="/verif/bin/check", serves_properties=sorted(CLAIMED),
                kind_free_text="Coq 8.16.1 proofs over Gallina models + Go correspondence harness")],
  checks=checks,
  not_applicable=[dict(property_id=p["id"], reason="check under construction in this session: model and correspondence exist or are being built; not yet claimed")
                  for p in props if p["id"] not in CLAIMED],
  notes="See DESIGN.md (section 10: as built, findings 10.3, false alarms 10.4, seeded changes 10.5, trusted base 10.6, per-property status 10.7). All 20 properties are claimed; partial claims say so in level_claimed.text.")
json.dump(m, open(os.path.join(VERIF, "MANIFEST.json"), "w"), indent=1)
print("claimed:", sorted(CLAIMED))
