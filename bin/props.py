"""Per-property plans for bin/check: which harness streams run, which traces are replayed
on the Coq model, and what the evidence says about assumptions and the trusted base."""
import json, os

TB_COMMON = [
    "Coq 8.16.1 kernel (coqc); vm_compute for trace replay and witnesses; no native_compute",
    "no axioms declared by the development (grep gate + Print Assumptions under every property theorem)",
    "hand-written Gallina model tied to /repo by replaying traces recorded from the implementation (Go harness, verif build tag)",
    "Go harness: generators, recording wrappers, Gallina printer; Go 1.26 toolchain",
]


def tier_n(ctx, quick, thorough):
    return quick if ctx.quick() else thorough


# ------------------------------------------------------------------ C18

def run_C18(ctx, K):
    b = K.go_build(ctx, "heaptrace")
    if not b:
        return
    ex_len = tier_n(ctx, 3, 5)
    cases = os.path.join(ctx.rundir, "cases_C18_exh.v")
    rep = K.run_tool(ctx, b, ["-mode", "exhaustive", "-len", str(ex_len), "-coq", cases, "-coqmax", str(tier_n(ctx, 300, 3000)),
                              "-seed", str(ctx.seed)], "heap-exhaustive")
    if rep:
        ctx.coq_cases += rep.get("coq_cases", 0)
        K.run_cases(ctx, cases, "Heap.v~recompute_heap.go (exhaustive sample)")
    cases = os.path.join(ctx.rundir, "cases_C18_rnd.v")
    rep = K.run_tool(ctx, b, ["-mode", "random", "-len", "40", "-n", str(tier_n(ctx, 200, 4000)), "-coq", cases,
                              "-coqmax", str(tier_n(ctx, 200, 4000)), "-seed", str(ctx.seed)], "heap-random")
    if rep:
        ctx.coq_cases += rep.get("coq_cases", 0)
        K.run_cases(ctx, cases, "Heap.v~recompute_heap.go (random)")


PLANS = {
    "C18": dict(
        run=run_C18,
        assumptions=[
            "theorems are about the Gallina models Heap.v / Adjust.v; the Go code is tied to them by trace replay on generated and exhaustively enumerated operation sequences",
            "operations are issued under the preconditions the engine guarantees (add only when absent, remove/fix only when queued)",
        ],
        trusted_base=TB_COMMON + ["verif hook /repo/verif_hooks.go (thin wrappers over the private heaps)"],
        checker_cmd="make -C coq (coq_makefile, full .vo build) && coqc theories/Properties/C18.v",
    ),
}


def replay(ctx, K, plan, path):
    data = json.load(open(path))
    print(json.dumps(data, indent=1)[:4000])
    return 0
