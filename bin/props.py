"""Per-property plans for bin/check: which harness streams run, which traces are replayed
on the Coq model, and what the evidence says about assumptions and the trusted base."""
import json, os

TB_COMMON = [
    "Coq 8.16.1 kernel (coqc); vm_compute for trace replay and witnesses; no native_compute",
    "no axioms declared by the development (grep gate + Print Assumptions under every property theorem)",
    "hand-written Gallina model tied to /repo by replaying traces recorded from the implementation (Go harness, verif build tag)",
    "Go harness: generators, recording wrappers, Gallina printer; Go 1.26 toolchain",
]


def tier_n(ctx, quick, thorough):
    return quick if ctx.quick() else thorough


# ------------------------------------------------------------------ C18

def run_C18(ctx, K):
    b = K.go_build(ctx, "heaptrace")
    if not b:
        return
    ex_len = tier_n(ctx, 3, 5)
    cases = os.path.join(ctx.rundir, "cases_C18_exh.v")
    rep = K.run_tool(ctx, b, ["-mode", "exhaustive", "-len", str(ex_len), "-coq", cases, "-coqmax", str(tier_n(ctx, 300, 3000)),
                              "-seed", str(ctx.seed)], "heap-exhaustive")
    if rep:
        ctx.coq_cases += rep.get("coq_cases", 0)
        K.run_cases(ctx, cases, "Heap.v~recompute_heap.go (exhaustive sample)")
    cases = os.path.join(ctx.rundir, "cases_C18_rnd.v")
    rep = K.run_tool(ctx, b, ["-mode", "random", "-len", "40", "-n", str(tier_n(ctx, 200, 4000)), "-coq", cases,
                              "-coqmax", str(tier_n(ctx, 200, 4000)), "-seed", str(ctx.seed)], "heap-random")
    if rep:
        ctx.coq_cases += rep.get("coq_cases", 0)
        K.run_cases(ctx, cases, "Heap.v~recompute_heap.go (random)")


# ------------------------------------------------------------------ engine properties (C01..C13)

ENGINE_TB = TB_COMMON + [
    "engine model coq/theories/Engine.v (hand transliteration of graph.go, node.go, bind.go, stabilize.go, var.go, observe.go, "
    "map*.go, cutoff.go, always.go, adjust_heights_heap.go); NOT modelled: Sentinel, Timer, Watch, Func, Freeze, Expert setters, "
    "tracing, Dot, node slabs, the >64-edge index, Map3..Map8/MapIf (same shape as Map2/MapN), the Go runtime",
    "property oracles evaluated on the implementation by the harness (internal/eng/oracle.go), independent of the model",
]

ENGINE_STREAMS = {
    # property: list of (profile, histories quick, histories thorough, ops)
    "C01": [("C01", 60, 1500, 40), ("static", 40, 1000, 40)],
    "C02": [("C01", 60, 1500, 40), ("midset", 40, 1000, 40)],
    "C03": [("C01", 60, 1500, 40), ("faults", 40, 1000, 40)],
    "C05": [("C01", 50, 1500, 40), ("faults", 50, 1500, 40)],
    "C06": [("C01", 60, 1500, 40), ("churn", 40, 1000, 60)],
    "C07": [("faults", 60, 2000, 40), ("binds", 40, 1000, 40)],
    "C08": [("binds", 100, 3000, 40)],
    "C10": [("C01", 50, 1500, 40), ("faults", 50, 1500, 40)],
    "C11": [("cutoffs", 100, 3000, 40)],
    "C12": [("midset", 60, 1500, 40), ("unobs", 40, 1500, 40)],
    "C13": [("C01", 50, 1500, 40), ("midset", 50, 1500, 40)],
}


def run_engine(ctx, K):
    b = K.go_build(ctx, "incrtrace")
    if not b:
        return
    for (profile, nq, nt, ops) in ENGINE_STREAMS[ctx.pid]:
        n = tier_n(ctx, nq, nt)
        cases = os.path.join(ctx.rundir, "cases_%s_%s.v" % (ctx.pid, profile))
        rep = K.run_tool(ctx, b, ["-prop", profile, "-claim", ctx.pid, "-n", str(n), "-ops", str(ops), "-coq", cases,
                                  "-coqmax", str(tier_n(ctx, nq, 400)), "-seed", str(ctx.seed)], "engine-" + profile)
        if rep:
            ctx.coq_cases += rep.get("coq_cases", 0)
            K.run_cases(ctx, cases, "Engine.v~go-incr engine (%s stream)" % profile)


def engine_plan(pid):
    return dict(
        run=run_engine,
        assumptions=[
            "theorems are about the Gallina engine model; the Go code is tied to it by replaying recorded histories (result class, "
            "event sequence, node count, queued set, registered set, observer and node values after every operation)",
            "node functions are pure and come from small finite families; histories are generated, not exhaustive",
        ],
        trusted_base=ENGINE_TB,
        checker_cmd="make -C coq (coq_makefile, full .vo build) && coqc theories/Properties/%s.v" % pid,
    )


PLANS = {
    "C18": dict(
        run=run_C18,
        assumptions=[
            "theorems are about the Gallina models Heap.v / Adjust.v; the Go code is tied to them by trace replay on generated and exhaustively enumerated operation sequences",
            "operations are issued under the preconditions the engine guarantees (add only when absent, remove/fix only when queued)",
        ],
        trusted_base=TB_COMMON + ["verif hook /repo/verif_hooks.go (thin wrappers over the private heaps)"],
        checker_cmd="make -C coq (coq_makefile, full .vo build) && coqc theories/Properties/C18.v",
    ),
}


for _pid in ENGINE_STREAMS:
    PLANS[_pid] = engine_plan(_pid)


def replay(ctx, K, plan, path):
    data = json.load(open(path))
    print(json.dumps(data, indent=1)[:4000])
    return 0
