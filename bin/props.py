"""Per-property plans for bin/check: which harness streams run, which traces are replayed
on the Coq model, and what the evidence says about assumptions and the trusted base."""
import json, os
VERIF_DIR = os.path.dirname(os.path.dirname(os.path.abspath(__file__)))

TB_COMMON = [
    "Coq 8.16.1 kernel (coqc); vm_compute for trace replay and witnesses; no native_compute",
    "no axioms declared by the development (grep gate + Print Assumptions under every property theorem)",
    "hand-written Gallina model tied to /repo by replaying traces recorded from the implementation (Go harness, verif build tag)",
    "Go harness: generators, recording wrappers, Gallina printer; Go 1.26 toolchain",
]


def tier_n(ctx, quick, thorough):
    return quick if ctx.quick() else thorough


# ------------------------------------------------------------------ C18

def run_C18(ctx, K):
    b = K.go_build(ctx, "heaptrace")
    if not b:
        return
    ex_len = tier_n(ctx, 3, 5)
    cases = os.path.join(ctx.rundir, "cases_C18_exh.v")
    rep = K.run_tool(ctx, b, ["-mode", "exhaustive", "-len", str(ex_len), "-coq", cases, "-coqmax", str(tier_n(ctx, 300, 3000)),
                              "-seed", str(ctx.seed)], "heap-exhaustive")
    if rep:
        ctx.coq_cases += rep.get("coq_cases", 0)
        K.run_cases(ctx, cases, "Heap.v~recompute_heap.go (exhaustive sample)")
    cases = os.path.join(ctx.rundir, "cases_C18_rnd.v")
    rep = K.run_tool(ctx, b, ["-mode", "random", "-len", "40", "-n", str(tier_n(ctx, 200, 4000)), "-coq", cases,
                              "-coqmax", str(tier_n(ctx, 200, 4000)), "-seed", str(ctx.seed)], "heap-random")
    if rep:
        ctx.coq_cases += rep.get("coq_cases", 0)
        K.run_cases(ctx, cases, "Heap.v~recompute_heap.go (random)")


# ------------------------------------------------------------------ engine properties (C01..C13)

ENGINE_TB = TB_COMMON + [
    "engine model coq/theories/Engine.v (hand transliteration of graph.go, node.go, bind.go, stabilize.go, var.go, observe.go, "
    "map*.go, cutoff.go, always.go, adjust_heights_heap.go); NOT modelled: Sentinel, Timer, Watch, Func, Freeze, Expert setters, "
    "tracing, Dot, node slabs, the >64-edge index, Map3..Map8/MapIf (same shape as Map2/MapN), the Go runtime",
    "property oracles evaluated on the implementation by the harness (internal/eng/oracle.go), independent of the model",
]

ENGINE_STREAMS = {
    # property: list of (profile, histories quick, histories thorough, ops)
    "C01": [("C01", 50, 1500, 40), ("static", 30, 1000, 40), ("wide", 30, 600, 30), ("widekids", 30, 600, 90), ("readd", 30, 1000, 30), ("mix", 40, 2000, 40)],
    "C02": [("C01", 40, 1500, 40), ("midset", 30, 1000, 40), ("binds", 30, 1500, 40), ("raise", 40, 1000, 30), ("chain", 30, 1000, 30), ("mix", 40, 2000, 40), ("wide", 20, 400, 30), ("widekids", 20, 400, 90)],
    "C03": [("C01", 40, 1500, 40), ("faults", 30, 1000, 40), ("alwaysfaults", 40, 1000, 40), ("sentinel", 80, 2000, 40), ("sentinelfaults", 60, 1500, 40), ("mix", 40, 2000, 40), ("wide", 20, 400, 30), ("widekids", 20, 400, 90)],
    "C05": [("C01", 30, 1500, 40), ("faults", 30, 1500, 40), ("reject", 30, 1000, 40), ("wide", 20, 400, 30), ("sentinel", 60, 1500, 40), ("fanout", 30, 1000, 46), ("sentinelfaults", 40, 1500, 40), ("mix", 40, 2000, 40)],
    "C06": [("C01", 40, 1500, 40), ("churn", 40, 1000, 60), ("wide", 20, 400, 30), ("widekids", 20, 400, 90), ("sentinel", 60, 1500, 40), ("inner", 30, 1000, 40), ("reject", 30, 1000, 40), ("mix", 40, 2000, 40)],
    "C07": [("faults", 50, 2000, 40), ("alwaysfaults", 50, 2000, 40), ("binds", 20, 1000, 40), ("reject", 30, 1000, 40), ("pardropfaults", 30, 1000, 30), ("mix", 40, 2000, 40)],
    "C08": [("binds", 60, 3000, 40), ("inner", 30, 1000, 40), ("bind2", 60, 2000, 40), ("deadobs", 40, 1500, 40), ("chain", 40, 1500, 30), ("mix", 40, 2000, 40)],
    "C10": [("C01", 30, 1500, 40), ("faults", 30, 1500, 40), ("inner", 40, 1500, 40), ("deadobs", 30, 1000, 40), ("reject", 30, 1000, 40), ("limit", 30, 1000, 40), ("mix", 40, 2000, 40)],
    "C11": [("cutoffs", 60, 3000, 40), ("midset", 50, 1500, 40), ("readd", 40, 1500, 30), ("cutfaults", 40, 1500, 40), ("mix", 40, 2000, 40)],
    "C12": [("midset", 40, 1500, 40), ("unobs", 30, 1500, 40), ("relink", 50, 1500, 34), ("mix", 40, 2000, 40)],
    "C13": [("C01", 40, 1500, 40), ("midset", 30, 1500, 40), ("inner", 30, 1500, 40), ("faults", 30, 1500, 40), ("mix", 40, 2000, 40), ("widekids", 20, 400, 90)],
}


# oracle families that are part of a property's own statement although another property's oracle
# implements them (e.g. C07 demands a consistent graph = C05's oracle, converging values = C01's,
# nothing lost = C03's; C03's "only necessary nodes run" is the lifecycle oracle of C10)
ENGINE_INCLUDES = {
    "C02": "C05",
    "C03": "C10",
    "C06": "C05",
    "C07": "C01,C03,C05",
    "C08": "C10",
    "C10": "C05",
    "C11": "C01,C12",
    "C12": "C01",
}


# the engine properties hold "under serial and parallel stabilization": the same oracles on histories generated
# online on a graph driven by ParallelStabilize. Parallelism 1 is deterministic and is replayed on the model
# (Engine.parStabilize); parallelism 4 runs in a child process (a deadlock or a dying worker is an outcome).
ENGINE_PAR_STREAMS = {
    "C01": ["binds", "pardrop", "pardropfaults", "mix"],
    "C02": ["binds", "raise", "pardrop", "mix"],
    "C03": ["binds", "pardrop", "mix"],
    "C05": ["binds", "churn", "mix"],
    "C06": ["binds", "churn", "mix"],
    "C08": ["binds", "inner", "mix"],
    "C10": ["pardrop", "inner", "mix"],
    "C12": ["midset", "relink", "mix"],
    "C13": ["binds", "midset", "faults", "mix"],
}


def run_engine_parallel(ctx, K):
    b0 = K.go_build(ctx, "incrtrace")
    if not b0:
        return
    inc = ENGINE_INCLUDES.get(ctx.pid, "")
    for profile in ENGINE_PAR_STREAMS.get(ctx.pid, []):
        rep, cases = run_par_stream(ctx, K, b0, profile, 1, tier_n(ctx, 40, 600), "par1_" + profile, False, claim=ctx.pid, include=inc, online=True)
        if rep:
            ctx.coq_cases += rep.get("coq_cases", 0)
            K.run_cases(ctx, cases, "Engine.parStabilize~ParallelStabilize(parallelism 1), %s stream" % profile)
        run_par_stream(ctx, K, b0, profile, 4, tier_n(ctx, 150, 3000), "par4_" + profile, False, claim=ctx.pid, include=inc, online=True)


def run_kindtrace(ctx, K, structural=False, faults=False):
    """differential tester for the node kinds outside the generated alphabet (Map3..8, MapIf, BindIf, Bind3/4, Cutoff2, Freeze,
    Func, Watch, Timer, clock kinds inside programs, folds, incrutil helpers, slicei): implementation only.
    structural: only CheckInvariants / membership / drain / panics / spurious errors count (C05, C06, C10)."""
    b = K.go_build(ctx, "kindtrace")
    if b:
        K.run_tool(ctx, b, ["-n", str(tier_n(ctx, 150, 3000)), "-seed", str(ctx.seed), "-claim", ctx.pid] + (["-structural"] if structural else []) + (["-faults"] if faults else []), "kinds-faults" if faults else "kinds")


def run_sentinel(ctx, K):
    """Sentinel mini-engine (Sentinel.v): histories of Var/Map/Sentinel operations on the library under both stabilizers,
    replayed on the model after every operation (values, registration, queued flags, watch-edge halves, which functions ran)"""
    b = K.go_build(ctx, "sentineltrace")
    if not b:
        return
    cases = os.path.join(ctx.rundir, "cases_%s_sentinel.v" % ctx.pid)
    rep = K.run_tool(ctx, b, ["-n", str(tier_n(ctx, 150, 3000)), "-len", "30", "-coq", cases, "-coqmax", str(tier_n(ctx, 150, 1500)),
                              "-seed", str(ctx.seed), "-claim", ctx.pid], "sentinel")
    if rep:
        ctx.coq_cases += rep.get("coq_cases", 0)
        K.run_cases(ctx, cases, "Sentinel.v~sentinel.go, graph.go (watchNode/unwatchNode, sentinel loops of becameNecessaryRecursive and zeroNode, always requeue)")


def run_corpus(ctx, K):
    """minimised failures found earlier (corpus/<ID>/*.json with a replayable history) run first"""
    d = os.path.join(VERIF_DIR, "corpus", ctx.pid)
    if not os.path.isdir(d):
        return
    b = K.go_build(ctx, "incrtrace")
    if b:
        inc = ENGINE_INCLUDES.get(ctx.pid, "")
        K.run_tool(ctx, b, ["-replay", d, "-claim", ctx.pid] + (["-include", inc] if inc else []), "corpus")


def run_engine(ctx, K):
    run_corpus(ctx, K)
    if ctx.pid in ("C01", "C11"):
        run_kindtrace(ctx, K)
    if ctx.pid in ("C05", "C06", "C10"):
        # every remaining node kind is built, observed, torn down and rebuilt under binds there: the graph's own
        # invariants, membership against the reference and the drain after the last Unobserve are these properties' business
        run_kindtrace(ctx, K, structural=True)
    if ctx.pid in ("C01", "C02", "C03", "C05", "C06", "C13"):
        # the >64-entry edge index sits under every wide node's dependents, inputs and observers: values (C01),
        # ordering (C02), missed runs (C03) and leaks (C06) all go through it
        run_C05_edgeindex(ctx, K)
    if ctx.pid == "C11":
        # replacing Var by VarEqual changes no observer value: the handler scenario runs half of its graphs with an
        # equality var (written mid-pass and written back to the held value by an update handler) against plain-Var expectations
        run_parscen(ctx, K, only="writes-from-update-handlers")
    if ctx.pid == "C07":
        # every remaining node kind interrupted by a failing or panicking user function and retried: a twin world of the same
        # program takes the pass with the fault and retries it; afterwards it must equal the fault-free world
        run_kindtrace(ctx, K, faults=True)
    if ctx.pid == "C13":
        run_parscen(ctx, K, only="unobserve-from-a-node-function")  # a handler filed in the pass is withdrawn when its observer is released mid-pass
    if ctx.pid in ("C03", "C05"):
        run_sentinel(ctx, K)
    if ctx.pid in ("C12", "C03"):
        run_parscen(ctx, K)  # vars created inside bind scopes (queued above height 0) written from node functions
    run_engine_parallel(ctx, K)
    if ctx.pid == "C07":
        # aggregates under faults (failing siblings, the fold's own update function panicking): implementation only here,
        # the fold state machine is C14's model
        bf = K.go_build(ctx, "foldtrace")
        if bf:
            K.run_tool(ctx, bf, ["-n", str(tier_n(ctx, 300, 6000)), "-len", "30", "-reduce", "40", "-rounds", "2", "-seed", str(ctx.seed)], "fold-faults")
        # faults under ParallelStabilize: at parallelism 1 the run is deterministic and replayed on the
        # model; at parallelism 4 (child process: a deadlock or a dying worker is an outcome) oracles only
        b0 = K.go_build(ctx, "incrtrace")
        if b0:
            rep, cases = run_par_stream(ctx, K, b0, "faults", 1, tier_n(ctx, 40, 800), "parfaults_p1", False, claim="C07", include="C01,C03,C05")
            if rep:
                ctx.coq_cases += rep.get("coq_cases", 0)
                K.run_cases(ctx, cases, "Engine.parStabilize~ParallelStabilize(parallelism 1), faults stream")
            run_par_stream(ctx, K, b0, "faults", 4, tier_n(ctx, 100, 2000), "parfaults_p4", False, claim="C07", include="C01,C03,C05")
            # a failing bind next to stale nodes of its own height block
            rep, cases = run_par_stream(ctx, K, b0, "pardropfaults", 1, tier_n(ctx, 40, 800), "pardropfaults_p1", False, claim="C07", include="C01,C03,C05")
            if rep:
                ctx.coq_cases += rep.get("coq_cases", 0)
                K.run_cases(ctx, cases, "Engine.parStabilize~ParallelStabilize(parallelism 1), pardropfaults stream")
            run_par_stream(ctx, K, b0, "pardropfaults", 4, tier_n(ctx, 300, 3000), "pardropfaults_p4", False, claim="C07", include="C01,C03,C05")
    b = K.go_build(ctx, "incrtrace")
    if not b:
        return
    for (profile, nq, nt, ops) in ENGINE_STREAMS[ctx.pid]:
        # the implementation side is cheap: ten times more histories go through the Go oracles than are replayed on the model
        n = tier_n(ctx, nq * 10, nt * 3)
        cases = os.path.join(ctx.rundir, "cases_%s_%s.v" % (ctx.pid, profile))
        extra = ["-include", ENGINE_INCLUDES[ctx.pid]] if ctx.pid in ENGINE_INCLUDES else []
        if profile in ("reject", "limit") and ctx.pid == "C10":
            # past a rejection only C10's own oracle speaks (registered iff the last notification said necessary): what the
            # rejected operation leaves half-linked is K03, a finding about C05, and is not charged to C10
            extra = []
        if profile in ("wide", "widekids"):
            # a corrupted edge list of a wide node (lost or misplaced edge) is what makes values stale, runs missed
            # and nodes leak there: the edge oracles count for every property on these streams
            extra = ["-include", ",".join(x for x in ("C05", ENGINE_INCLUDES.get(ctx.pid, "")) if x)]
        rep = K.run_tool(ctx, b, ["-prop", profile, "-claim", ctx.pid] + extra + ["-n", str(n), "-ops", str(ops), "-coq", cases,
                                  "-coqmax", str(tier_n(ctx, 1, 5) if profile == "widekids" else tier_n(ctx, nq, 1500)),
                                  "-seed", str(ctx.seed)], "engine-" + profile)
        if profile in ("bind2", "sentinel", "sentinelfaults"):
            continue  # Bind2/3/4 (sugar over Map2 + Bind) and Sentinel are exercised on the implementation only, not in the Coq model
        if rep:
            ctx.coq_cases += rep.get("coq_cases", 0)
            K.run_cases(ctx, cases, "Engine.v~go-incr engine (%s stream)" % profile)


def engine_plan(pid):
    return dict(
        run=run_engine,
        assumptions=[
            "theorems are about the Gallina engine model; the Go code is tied to it by replaying recorded histories (result class, "
            "event sequence, node count, queued set, registered set, observer and node values after every operation)",
            "node functions are pure and come from small finite families; histories are generated, not exhaustive",
        ],
        trusted_base=ENGINE_TB,
        checker_cmd="make -C coq (coq_makefile, full .vo build) && coqc theories/Properties/%s.v" % pid,
    )


def run_C18_full(ctx, K):
    run_C18(ctx, K)
    # second half of the property: edge insertions into all small DAGs, through the engine pipeline
    b = K.go_build(ctx, "incrtrace")
    if not b:
        return
    for (name, nodes, length, maxh) in (("dag3", 3, tier_n(ctx, 4, 5), 256), ("dag4", 4, tier_n(ctx, 3, 4), 256), ("dag3lim", 3, tier_n(ctx, 4, 5), 3)):
        cases = os.path.join(ctx.rundir, "cases_C18_%s.v" % name)
        rep = K.run_tool(ctx, b, ["-mode", "dags", "-dagnodes", str(nodes), "-len", str(length), "-dagmaxh", str(maxh), "-claim", "C18",
                                  "-coq", cases, "-coqmax", str(tier_n(ctx, 60, 600)), "-seed", str(ctx.seed)], "engine-" + name)
        if rep:
            ctx.coq_cases += rep.get("coq_cases", 0)
            K.run_cases(ctx, cases, "Engine.v (addChild/adjustHeights)~graph.go, adjust_heights_heap.go (%s)" % name)
    # wide raises: one link lifts a hub and all its dependents of one height (the adjust-heights buckets grow and wrap)
    cases = os.path.join(ctx.rundir, "cases_C18_fanout.v")
    rep = K.run_tool(ctx, b, ["-prop", "fanout", "-claim", "C18", "-include", "C05,C02,C01", "-n", str(tier_n(ctx, 400, 4000)), "-ops", "46",
                              "-coq", cases, "-coqmax", str(tier_n(ctx, 40, 800)), "-seed", str(ctx.seed)], "engine-fanout")
    if rep:
        ctx.coq_cases += rep.get("coq_cases", 0)
        K.run_cases(ctx, cases, "Engine.v (addChild/adjustHeights)~graph.go, adjust_heights_heap.go (fanout stream)")
    # always nodes whose own function fails (sentinels): the error path and the end-of-pass re-queue meet in the heap (implementation only)
    K.run_tool(ctx, b, ["-prop", "sentinelfaults", "-claim", "C18", "-include", "C03,C05", "-n", str(tier_n(ctx, 600, 6000)),
                        "-seed", str(ctx.seed)], "engine-sentinelfaults")
    run_par_stream(ctx, K, b, "sentinelfaults", 4, tier_n(ctx, 400, 4000), "par4_sentinelfaults", False, claim="C18", include="C03,C05", online=True)


def run_C05_edgeindex(ctx, K):
    b = K.go_build(ctx, "edgetrace")
    if not b:
        return
    cases = os.path.join(ctx.rundir, "cases_C05_edge_exh.v")
    rep = K.run_tool(ctx, b, ["-mode", "exhaustive", "-len", str(tier_n(ctx, 3, 5)), "-coq", cases,
                              "-coqmax", str(tier_n(ctx, 100, 1500)), "-seed", str(ctx.seed)], "edge-exhaustive")
    if rep:
        ctx.coq_cases += rep.get("coq_cases", 0)
        K.run_cases(ctx, cases, "EdgeIndex.v~edge_index.go (exhaustive suffixes, sample)")
    cases = os.path.join(ctx.rundir, "cases_C05_edge_rnd.v")
    rep = K.run_tool(ctx, b, ["-mode", "random", "-len", "300", "-n", str(tier_n(ctx, 6, 400)), "-coq", cases,
                              "-coqmax", str(tier_n(ctx, 12, 240)), "-seed", str(ctx.seed)], "edge-random")
    if rep:
        ctx.coq_cases += rep.get("coq_cases", 0)
        K.run_cases(ctx, cases, "EdgeIndex.v~edge_index.go (random, 3 lists per owner)")


PLANS = {
    "C18": dict(
        run=run_C18_full,
        assumptions=[
            "theorems are about the Gallina models Heap.v / Adjust.v; the Go code is tied to them by trace replay on generated and exhaustively enumerated operation sequences",
            "operations are issued under the preconditions the engine guarantees (add only when absent, remove/fix only when queued)",
        ],
        trusted_base=TB_COMMON + ["verif hook /repo/verif_hooks.go (thin wrappers over the private heaps)"],
        checker_cmd="make -C coq (coq_makefile, full .vo build) && coqc theories/Properties/C18.v",
    ),
}


# ------------------------------------------------------------------ C19

def run_C19(ctx, K):
    import re
    # 1. regenerate the protocol program from the Go source; evaluate the hypotheses of C19_mutex on it
    b = K.go_build(ctx, "statusextract")
    if b:
        prog = os.path.join(ctx.rundir, "status_prog.v")
        rep = K.run_tool(ctx, b, ["-repo", K.REPO, "-coq", prog, "-seed", str(ctx.seed)], "status-extract", timeout=300)
        if rep:
            ctx.coq_cases += rep.get("coq_cases", 0)
            rc, out = K.sh(["coqc", "-Q", "theories", "incr", prog], 600, cwd=K.COQ)
            open(os.path.join(ctx.workdir, "status_prog.log"), "w").write(out)
            m = re.search(r"\bOK\s*=\s*(true|false)", out)
            progs = ["%s = %s" % (s.get("func"), s.get("text")) for s in (rep.get("samples") or [])
                     if isinstance(s, dict) and s.get("text")]
            if rc != 0 or not m:
                ctx.coq_mismatch += 1
                ctx.violation("the regenerated status protocol (status_prog.v) does not compile against Status.v: %s" % out.strip()[-500:],
                              "corr:status-protocol", dict(kind="correspondence", correspondence="status_prog.v", coqc_output=out[-3000:]),
                              no_input=True)
            elif m.group(1) != "true":
                ctx.coq_mismatch += 1
                ctx.violation("the status protocol regenerated from the Go source does not satisfy the hypotheses of C19_mutex "
                              "(acquires_atomically && releases_last = false): %s" % "; ".join(progs),
                              "proto:hypotheses", dict(kind="extracted-protocol", programs=progs, coqc_output=out[-1500:]), no_input=True)
    # 2. the real library: expert-API replay of the refutation schedule, all interleavings of 2 and 3 callers,
    #    re-entrant calls, stress loop (child process)
    b = K.go_build(ctx, "statusrace")
    if b:
        K.run_tool(ctx, b, ["-seed", str(ctx.seed), "-rounds", str(tier_n(ctx, 300, 30000))], "status-race", timeout=1500)


# ------------------------------------------------------------------ C20

def run_C20(ctx, K):
    b = K.go_build(ctx, "batchgate")
    if not b:
        return
    cases = os.path.join(ctx.rundir, "cases_C20.v")
    rep = K.run_tool(ctx, b, ["-seed", str(ctx.seed), "-extra", str(tier_n(ctx, 6, 200)), "-reps", str(tier_n(ctx, 1, 5)),
                              "-coq", cases, "-coqmax", "400"], "batch-gate", timeout=1500)
    if rep:
        ctx.coq_cases += rep.get("coq_cases", 0)
        K.run_cases(ctx, cases, "Batch.v (Semaphore: min w p in flight)~parallel_batch.go (gated ParallelStabilize)")


PLANS_C19_C20 = {
    "C19": dict(
        run=run_C19,
        assumptions=[
            "partial: the Go scheduler and memory model are outside the model; sync/atomic operations on graph.status are taken to be sequentially consistent",
            "the protocol program is regenerated from graph.go/stabilize.go/parallel_stabilize.go by cmd/statusextract on every run (symbolic execution over go/ast; "
            "any plain access to the status field, any atomic write of it outside Stabilize/ParallelStabilize, or any shape it cannot fold into a straight-line program is a failure)",
            "what node functions and handlers do to the graph is abstracted to the marker actions Work / Handlers; panics are not modelled "
            "(the deferred stabilizeEnd releases on every exit)",
        ],
        trusted_base=TB_COMMON + ["cmd/statusextract (Go AST -> action list), in place of a hand-written model",
                                  "no verif hook: the replay uses the public ExpertGraph API by reflection"],
        checker_cmd="make -C coq && coqc theories/Properties/C19.v && statusextract -coq run/status_prog.v && coqc run/status_prog.v (OK = true)",
    ),
    "C20": dict(
        run=run_C20,
        assumptions=[
            "partial: the Go scheduler is outside the model; a schedule is any list of step labels of the parallelBatch transition system",
            "Batch.v is hand-written from the 20 lines of parallel_batch.go (Current variant) next to the discipline the option promises (Semaphore variant); "
            "which one the library implements is decided on every run by the gated ParallelStabilize (AsIs / M in run/cases_C20.v)",
            "the bound is about one parallelBatch call = one height block; ParallelStabilize runs blocks one after another (wg.Wait between them)",
        ],
        trusted_base=TB_COMMON + ["public API only (no verif hook); timing can only lower the reading of the gate harness"],
        checker_cmd="make -C coq && coqc theories/Properties/C20.v && batchgate -coq run/cases_C20.v && coqc run/cases_C20.v (M = [])",
    ),
}

# ------------------------------------------------------------------ C16 (pmap-builder)

def run_C16(ctx, K):
    b = K.go_build(ctx, "pmaptrace")
    if not b:
        return
    q = ctx.quick()
    def stream(name, args, coqmax, what):
        cases = os.path.join(ctx.rundir, "cases_C16_%s.v" % name)
        rep = K.run_tool(ctx, b, args + ["-coq", cases, "-coqmax", str(coqmax), "-seed", str(ctx.seed)],
                         "pmap-" + name, timeout=3000)
        if rep:
            ctx.coq_cases += rep.get("coq_cases", 0)
            K.run_cases(ctx, cases, "PMap.v~incrutil/pmap (%s)" % what, timeout=3000)
    stream("exh", ["-mode", "exhaustive", "-len", "5" if q else "7", "-vals", "2" if q else "1"],
           150 if q else 400, "exhaustive, 4 keys")
    if not q:
        stream("exh6", ["-mode", "exhaustive", "-len", "6", "-vals", "2"], 300, "exhaustive, 4 keys, 2 values")
    stream("exh5", ["-mode", "exhaustive", "-nkeys", "5", "-len", "4" if q else "6", "-vals", "1"],
           80 if q else 300, "exhaustive, 5 keys")
    stream("br", ["-mode", "branching", "-len", "4" if q else "5", "-vals", "2" if q else "1"],
           100 if q else 300, "operations on any earlier version")
    stream("rnd", ["-mode", "random", "-n", str(tier_n(ctx, 200, 3000))], tier_n(ctx, 80, 600), "random")
    # adversarial shapes for the delete path: every pair of sibling subtrees in which size and height can disagree
    K.run_tool(ctx, b, ["-mode", "shapes", "-len", str(tier_n(ctx, 9, 11)), "-seed", str(ctx.seed)], "pmap-shapes")
    # the map is generic in V: values that are not comparable, or whose == differs from identity (implementation only)
    K.run_tool(ctx, b, ["-mode", "valuetypes", "-n", str(tier_n(ctx, 100, 2000)), "-ops", "40", "-seed", str(ctx.seed)], "pmap-valuetypes")


PLANS_C16 = {"C16": dict(run=run_C16,
   assumptions=["theorems are about the Gallina model PMap.v; pointer identity is a parameter `same` assumed only to imply equality, executed as structural equality and as never-equal; the Go code is tied to the model by replaying exhaustive and random histories (tree shape included)",
                "Reducer theorems assume an associative combine (as the package documents)",
                "persistence of Go values is decided by the harness (re-read of all earlier versions after every operation), not by a theorem"],
   trusted_base=TB_COMMON + ["verif hook /repo/incrutil/pmap/verif_hooks.go (read-only invariant check, preorder dump, sharing count)"],
   checker_cmd="make -C coq && coqc theories/Properties/C16.v")}

# ------------------------------------------------------------------ C14, C15 (foldclock-builder), C17 (mapi-builder)

def run_C14(ctx, K):
    be = K.go_build(ctx, "incrtrace")
    if be:
        # MapN with inputs added and removed (also inputs that were computed before they were added): engine streams
        for prof, ops in (("readd", "30"), ("fanout", "46")):
            cases = os.path.join(ctx.rundir, "cases_C14_%s.v" % prof)
            rep = K.run_tool(ctx, be, ["-prop", prof, "-claim", "C14", "-include", "C01,C05", "-n", str(tier_n(ctx, 300, 3000)), "-ops", ops,
                                       "-coq", cases, "-coqmax", str(tier_n(ctx, 30, 600)), "-seed", str(ctx.seed)], "engine-" + prof)
            if rep:
                ctx.coq_cases += rep.get("coq_cases", 0)
                K.run_cases(ctx, cases, "Engine.v~go-incr engine (%s stream)" % prof)
    run_kindtrace(ctx, K)  # ArrayFold / All / ForAll / Exists / MapN inside larger programs, under binds, both stabilizers
    run_C05_edgeindex(ctx, K)  # aggregates are the typical wide nodes: their input lists sit on the >64-entry edge index
    b = K.go_build(ctx, "foldtrace")
    if not b:
        return
    cases = os.path.join(ctx.rundir, "cases_C14.v")
    rep = K.run_tool(ctx, b, ["-n", str(tier_n(ctx, 300, 20000)), "-len", str(tier_n(ctx, 30, 40)), "-reduce", "70",
                              "-rounds", str(tier_n(ctx, 4, 8)), "-coq", cases, "-coqmax", str(tier_n(ctx, 400, 12000)),
                              "-seed", str(ctx.seed)], "fold")
    if rep:
        ctx.coq_cases += rep.get("coq_cases", 0)
        K.run_cases(ctx, cases, "Fold.v~unordered_array_fold.go,reduce_balanced.go,fold.go,all.go,map_n.go")


def run_C15(ctx, K):
    run_kindtrace(ctx, K)  # At / AtIntervals / StepFunction / Snapshot inside larger programs, under binds, both stabilizers
    run_parscen(ctx, K)  # time-driven nodes inside the engine: woken in a block with a failing bind, both stabilizers
    b = K.go_build(ctx, "clocktrace")
    if not b:
        return
    cases = os.path.join(ctx.rundir, "cases_C15.v")
    rep = K.run_tool(ctx, b, ["-n", str(tier_n(ctx, 400, 20000)), "-len", str(tier_n(ctx, 30, 40)), "-coq", cases,
                              "-coqmax", str(tier_n(ctx, 300, 10000)), "-seed", str(ctx.seed)], "clock")
    if rep:
        ctx.coq_cases += rep.get("coq_cases", 0)
        K.run_cases(ctx, cases, "Clock.v~clock.go,step_function.go,graph.go(SetStale/observe/unobserve/recompute)")


def run_C17(ctx, K):
    b = K.go_build(ctx, "mapitrace")
    if not b:
        return
    cases = os.path.join(ctx.rundir, "cases_C17.v")
    rep = K.run_tool(ctx, b, ["-n", str(tier_n(ctx, 20, 1500)), "-len", str(tier_n(ctx, 8, 10)), "-coq", cases,
                              "-coqmax", str(tier_n(ctx, 300, 12000)), "-seed", str(ctx.seed)], "mapi-random")
    if rep:
        ctx.coq_cases += rep.get("coq_cases", 0)
        K.run_cases(ctx, cases, "Mapi.v~incrutil/mapi (random edit histories, all operators)")


PLANS_C14_15_17 = {
    "C14": dict(run=run_C14,
        assumptions=["theorems are about Fold.v (UnorderedArrayFold as a state machine over write/notify/recompute/unlink/relink events; "
                     "ReduceBalanced's construction loop); the fold's `update` must satisfy its documented contract (update_contract); "
                     "the engine's notification discipline is the predicate `admissible`, checked on every replayed history",
                     "MapN/ArrayFold/All/ForAll/Exists as graph nodes fall under C01's engine model"],
        trusted_base=TB_COMMON, checker_cmd="make -C coq && coqc theories/Properties/C14.v"),
    "C15": dict(run=run_C15,
        assumptions=["theorems are about Clock.v: time nodes inside a mini-engine mirroring SetStale/observe/unobserve/recompute of graph.go; "
                     "the heap is abstracted to the per-node queued flag (order is C18's business); no binds, cutoffs, errors",
                     "configurations satisfy cfg_ok (positive intervals starting no later than the clock; a snapshot's input is a var); "
                     "time.Time/Duration overflow and the zero time are outside the model"],
        trusted_base=TB_COMMON, checker_cmd="make -C coq && coqc theories/Properties/C15.v"),
    "C17": dict(run=run_C17,
        assumptions=["theorems are about Mapi.v; pmap is abstracted to its contents and SymmetricDiff/Range/Reducer to their C16 contracts (merge_diff, in-order entries, in-order fold)",
                     "histories are the inputs at a node's recomputes; Selector/Join include the engine's necessity/notification discipline as modelled in Mapi.v",
                     "equal must be respected by the per-entry computation (respects/eq_exact/merge_respects), as the Go docs require"],
        trusted_base=TB_COMMON, checker_cmd="make -C coq && coqc theories/Properties/C17.v"),
}

# ------------------------------------------------------------------ C04 (parallel) and C09 (memoized binds)

ORACLES_ALL = "C01,C02,C03,C05,C06,C07,C10,C13"
TEARDOWN_FRAMES = ("zeroNode", "removeNode", "becameUnnecessary", "invalidateNode", "removeParents", "removeParent",
                   "checkIfUnnecessary", "changeParent", "unlink", "bindLeftChangeIncr", "propagateInvalidity", "removeNodeUnsafe")


def race_sites(log):
    """parse Go race detector output: one (siteA, siteB) pair of library frames per report"""
    import re
    out = []
    for rep in log.split("WARNING: DATA RACE")[1:]:
        rep = rep.split("==================")[0]
        stacks = re.split(r"\n(?=Previous |Goroutine )", rep)
        sites = []
        for st in stacks[:2]:
            frames = re.findall(r"go-incr\.(?:\(\*?([\w\[\],. ]+?)\)\.)?(\w+)(?:\[[^\]]*\])?\(\)\n\s+(/\S+\.go:\d+)", st)
            names = [f[1] for f in frames]
            lines = ["/repo/" + f[2].split("/go-incr/")[-1].split("/")[-1] if "/incrutil/" not in f[2] else "/repo/incrutil/" + f[2].split("/incrutil/")[-1] for f in frames]
            sites.append((names, lines))
        if len(sites) == 2:
            out.append(sites)
    return out


def report_races(ctx, out, where, known_prefix, replay):
    """one violation per distinct pair of library sites in the race detector's reports"""
    seen = set()
    for sites in race_sites(out):
        names = sites[0][0] + sites[1][0]
        a = sites[0][1][0] if sites[0][1] else "?"
        b = sites[1][1][0] if sites[1][1] else "?"
        kind = "bind-teardown-vs-recompute" if any(f in TEARDOWN_FRAMES or f.startswith("bindLeftChange") for f in names) else "other"
        key = "%srace:%s:%s|%s" % (known_prefix, kind, min(a, b), max(a, b))
        if key in seen:
            continue
        seen.add(key)
        ctx.violation("data race during ParallelStabilize on %s: %s (%s) vs %s (%s)"
                      % (where, sites[0][0][:1], a, sites[1][0][:1], b), key,
                      dict(replay, kind="race", stacks=[sites[0][1][:6], sites[1][1][:6]]))
    return len(seen)


def run_parscen(ctx, K, only=None):
    """hand-written ParallelStabilize scenarios under the race detector"""
    import json as _json
    b = K.go_build(ctx, "parscen", race=True)
    if not b:
        return
    report = os.path.join(ctx.workdir, "parscen.json")
    args = [b, "-seed", str(ctx.seed), "-rounds", str(tier_n(ctx, 40, 600)), "-json", report, "-claim", ctx.pid] + (["-only", only] if only else [])
    rc, out = K.sh(args, 3000, cwd=ctx.workdir, env=dict(K.GOENV, GORACE="halt_on_error=0 exitcode=66"))
    open(os.path.join(ctx.workdir, "parscen.log"), "w").write(out)
    rep = None
    if os.path.exists(report):
        rep = _json.load(open(report))
        rep["name"] = "parscen-race"
        ctx.reports.append(rep)
        for v in rep.get("violations") or []:
            ctx.violation(v["what"], v["key"], v["replay"])
    report_races(ctx, out, "hand-written scenarios (harness/cmd/parscen)", "parscen:", dict(seed=ctx.seed, cmd=" ".join(args)))
    if rc not in (0, 66) or rep is None:
        ctx.violation("the process running the ParallelStabilize scenarios died (rc=%s): %s" % (rc, out.strip()[-400:]), "parscen:crash",
                      dict(kind="crash", seed=ctx.seed, cmd=" ".join(args), tail=out[-2000:]))


def run_par_stream(ctx, K, binary, profile, par, n, name, race, known_prefix="", claim="C04", include=ORACLES_ALL, online=False):
    """run incrtrace with -par in a child process; returns the report or None; parses race reports"""
    import json as _json
    report = os.path.join(ctx.workdir, name + ".json")
    cases = os.path.join(ctx.rundir, "cases_%s_%s.v" % (ctx.pid, name.replace("-", "_")))
    args = [binary, "-prop", profile, "-par", str(par), "-claim", claim, "-include", include, "-n", str(n), "-seed", str(ctx.seed),
            "-coq", cases, "-coqmax", str(tier_n(ctx, 40, 600)), "-json", report] + (["-online"] if online else [])
    env = dict(K.GOENV, GORACE="halt_on_error=0 exitcode=66")
    rc, out = K.sh(args, 3000, cwd=ctx.workdir, env=env)
    open(os.path.join(ctx.workdir, name + ".log"), "w").write(out)
    rep = None
    if os.path.exists(report):
        rep = _json.load(open(report))
        rep["name"] = name
        ctx.reports.append(rep)
        for v in rep.get("violations") or []:
            ctx.violation(v["what"], known_prefix + v["key"], v["replay"])
    report_races(ctx, out, "generated %s histories at parallelism %d" % (profile, par), known_prefix,
                 dict(profile=profile, parallelism=par, seed=ctx.seed, cmd=" ".join(args)))
    if rc not in (0, 66) or rep is None:
        ctx.violation("the process running ParallelStabilize(parallelism %d) on generated %s histories died (rc=%s): %s"
                      % (par, profile, rc, out.strip()[-400:]), known_prefix + "crash:parallel-pass",
                      dict(kind="crash", profile=profile, parallelism=par, seed=ctx.seed, cmd=" ".join(args), tail=out[-2000:]))
    return rep, cases


def run_C04(ctx, K):
    b = K.go_build(ctx, "incrtrace")
    br = K.go_build(ctx, "incrtrace", race=True)
    if not b or not br:
        return
    # 1. ParallelStabilize at parallelism 1 is deterministic: replay on the model (binds included)
    for profile in ("static", "C01"):
        rep, cases = run_par_stream(ctx, K, b, profile, 1, tier_n(ctx, 40, 600), "par1-" + profile, False)
        if rep:
            ctx.coq_cases += rep.get("coq_cases", 0)
            K.run_cases(ctx, cases, "Engine.parStabilize~ParallelStabilize(parallelism 1), %s stream" % profile)
    # 2. bind-free graphs, real overlap, race detector on: twin comparison with Stabilize
    for par in ((4,) if ctx.quick() else (2, 4, 16)):
        run_par_stream(ctx, K, br, "static", par, tier_n(ctx, 150, 1500), "race-static-p%d" % par, True)
    # 3. graphs with binds, real overlap, race detector on, in a child process (a known finding lives here)
    for par in ((4,) if ctx.quick() else (4, 16)):
        run_par_stream(ctx, K, br, "binds", par, tier_n(ctx, 300, 2000), "race-binds-p%d" % par, True)
    run_par_stream(ctx, K, br, "pardrop", 4, tier_n(ctx, 300, 2000), "race-pardrop-p4", True)
    # 4. failing and panicking node functions (generated online on the parallel graph), race detector on
    for profile in ("faults", "alwaysfaults", "sentinelfaults", "mix"):
        run_par_stream(ctx, K, br, profile, 4, tier_n(ctx, 150, 1500), "race-%s-p4" % profile, True)
    # Sentinels (always-kind nodes with a user function; implementation only): twin comparison with Stabilize
    run_par_stream(ctx, K, br, "sentinel", 4, tier_n(ctx, 150, 1500), "race-sentinel-p4", True)
    # 5. shapes outside the generated alphabet
    run_parscen(ctx, K)


def run_C09(ctx, K):
    b = K.go_build(ctx, "incrtrace")
    if not b:
        return
    run_parscen(ctx, K)  # memoized binds created inside bind functions (not expressible as a template of the model)
    cases = os.path.join(ctx.rundir, "cases_C09_memo.v")
    rep = K.run_tool(ctx, b, ["-prop", "memo", "-claim", "C09", "-include", "C01,C05,C06,C07,C10", "-n", str(tier_n(ctx, 150, 3000)),
                              "-coq", cases, "-coqmax", str(tier_n(ctx, 60, 400)), "-seed", str(ctx.seed)], "engine-memo")
    if rep:
        ctx.coq_cases += rep.get("coq_cases", 0)
        K.run_cases(ctx, cases, "Engine.v (memoized binds)~incrutil.BindMemoized (memo stream)")
    # the same programs under ParallelStabilize: deterministic replay at parallelism 1, twin comparison
    rep2, cases2 = run_par_stream(ctx, K, b, "memo", 1, tier_n(ctx, 60, 1000), "par1_memo", False, claim="C09", include="C01,C04,C05,C06,C07,C10")
    if rep2:
        ctx.coq_cases += rep2.get("coq_cases", 0)
        K.run_cases(ctx, cases2, "Engine.parStabilize (memoized binds)~ParallelStabilize(parallelism 1), memo stream")
    # a memoized bind that drops stale outer nodes of its own height block and later returns to the cached
    # right-hand side that reads them (the pardrop shape with BindMemoized): serial, parallelism 1 on the model, parallelism 4 twin
    cases3 = os.path.join(ctx.rundir, "cases_C09_pardropmemo.v")
    rep3 = K.run_tool(ctx, b, ["-prop", "pardropmemo", "-claim", "C09", "-include", "C01,C05,C06,C07,C10", "-n", str(tier_n(ctx, 150, 2000)),
                               "-coq", cases3, "-coqmax", str(tier_n(ctx, 30, 300)), "-seed", str(ctx.seed)], "engine-pardropmemo")
    if rep3:
        ctx.coq_cases += rep3.get("coq_cases", 0)
        K.run_cases(ctx, cases3, "Engine.v (memoized binds)~incrutil.BindMemoized (pardropmemo stream)")
    rep4, cases4 = run_par_stream(ctx, K, b, "pardropmemo", 1, tier_n(ctx, 60, 800), "par1_pardropmemo", False, claim="C09", include="C01,C04,C05,C06,C07,C10")
    if rep4:
        ctx.coq_cases += rep4.get("coq_cases", 0)
        K.run_cases(ctx, cases4, "Engine.parStabilize (memoized binds)~ParallelStabilize(parallelism 1), pardropmemo stream")
    run_par_stream(ctx, K, b, "pardropmemo", 4, tier_n(ctx, 200, 2000), "par4_pardropmemo", False, claim="C09", include="C01,C04,C05,C06,C07,C10")
    # nodes wider than the edge-index threshold read through memoized right-hand sides (parked and taken back)
    cases5 = os.path.join(ctx.rundir, "cases_C09_widememo.v")
    rep5 = K.run_tool(ctx, b, ["-prop", "widememo", "-claim", "C09", "-include", "C01,C05,C06,C07,C10", "-n", str(tier_n(ctx, 150, 1500)), "-ops", "36",
                               "-coq", cases5, "-coqmax", str(tier_n(ctx, 6, 60)), "-seed", str(ctx.seed)], "engine-widememo")
    if rep5:
        ctx.coq_cases += rep5.get("coq_cases", 0)
        K.run_cases(ctx, cases5, "Engine.v (memoized binds)~incrutil.BindMemoized (widememo stream)")
    run_par_stream(ctx, K, b, "widememo", 4, tier_n(ctx, 100, 1000), "par4_widememo", False, claim="C09", include="C01,C04,C05,C06,C07,C10")
    cases = os.path.join(ctx.rundir, "cases_C09_keys.v")
    rep = K.run_tool(ctx, b, ["-mode", "memokeys", "-len", str(tier_n(ctx, 5, 7)), "-claim", "C09", "-include", "C01,C05,C06,C07,C10",
                              "-coq", cases, "-coqmax", str(tier_n(ctx, 60, 400)), "-seed", str(ctx.seed)], "memo-keys")
    if rep:
        ctx.coq_cases += rep.get("coq_cases", 0)
        K.run_cases(ctx, cases, "Engine.v (memoized binds)~incrutil.BindMemoized (exhaustive key sequences)")


PLANS_C04_C09 = {
    "C04": dict(run=run_C04,
        assumptions=["partial: the Go memory model and scheduler are outside the model; the model runs ParallelStabilize as one sequential schedule "
                     "(each height block in queue order) and the theorems show the order inside a block is immaterial for blocks without bind lhs-change nodes",
                     "race freedom of the real code is examined only dynamically: race detector on generated programs, twin comparison with Stabilize"],
        trusted_base=ENGINE_TB + ["Go race detector"], checker_cmd="make -C coq && coqc theories/Properties/C04.v"),
    "C09": dict(run=run_C09,
        assumptions=["a memoized bind has the same from-scratch meaning as a plain bind (Spec.eval ignores the cache); the engine model runs the cache as "
                     "incrutil.BindMemoized does (hit: cached root reused, function not run; subgraphs built in the enclosing scope)",
                     "caches shared between several binds are exercised by the harness only"],
        trusted_base=ENGINE_TB, checker_cmd="make -C coq && coqc theories/Properties/C09.v"),
}

PLANS.update(PLANS_C19_C20)
PLANS.update(PLANS_C04_C09)
PLANS.update(PLANS_C14_15_17)
PLANS.update(PLANS_C16)

for _pid in ENGINE_STREAMS:
    PLANS[_pid] = engine_plan(_pid)


def replay(ctx, K, plan, path):
    """re-run a stored replay on the current tree; engine histories are executed with all oracles on"""
    data = json.load(open(path))
    rp = data.get("replay") or {}
    if isinstance(rp, dict) and rp.get("ops_json"):
        b = K.go_build(ctx, "incrtrace")
        if not b:
            return 2
        rc, out = K.sh([b, "-replay", path, "-claim", ctx.pid], 600, cwd=ctx.workdir, env=K.GOENV)
        print(out)
        print("replay of %s on the current tree: %s" % (path, "the oracles still complain" if rc else "no complaint"))
        return rc
    print(json.dumps(data, indent=1)[:6000])
    print("(this replay names a proof obligation / correspondence, or belongs to a component harness: re-run `bin/check %s`)" % ctx.pid)
    return 0
