(** C08, the ordering half, for serial passes with plans: no node of the generation a bind is about
    to replace has run before the swap -- also when node, bind or cutoff functions fail or panic
    (the pass stops at the first fault that is reached; every recompute up to and including the
    faulting one satisfies the statement). *)
From incr Require Import Base Heap HeapSpec HeapProofs EngineDefs Engine EngineRun EngineWf Spec EngineLemmas EngineLocal
     EngineInv EngineInvProofs PassInv PassProofs PassPlanProofs PassBind PassBindProofs PassBindSwap PassBindSwapProofs
     PassBindSwapStep PassBindOps PassBindSwapLog PassBindFault PassBindWrites PassBindTotal PassBindMixed PassBindFaultGen
     PassBindMultiFault PassBindOrder.
From incr Require Import SpecProofs.

Local Arguments valueOf : simpl never.

(* the monitored chain and loop under a plan: [Q s n] at every call [recomputeNodeSerial _ q s n] *)
Fixpoint chainQp (Q : state -> nid -> Prop) (q : plan) (fuel : nat) (s : state) (n : nid) : Prop :=
  match fuel with
  | O => True
  | S fuel =>
    Q s n /\
    match recomputeNodeSerial fuel q s n with
    | Ok (s1, None, Some c) => chainQp Q q fuel s1 c
    | _ => True
    end
  end.

Fixpoint loopQp (Q : state -> nid -> Prop) (q : plan) (fuel : nat) (s : state) : Prop :=
  match fuel with
  | O => True
  | S fuel =>
    if Heap.cnt (heap s) <=? 0 then True else
    match Heap.removeMin (heap s) with
    | None => True
    | Some (n, w) =>
      let s2 := s <| heap := w |> in
      chainQp Q q fuel s2 n /\
      match recomputeChain fuel q s2 n with
      | Ok (s3, None, _) => loopQp Q q fuel s3
      | _ => True
      end
    end
  end.

Lemma chainOp q (Hq : nowrites q) fuel : forall s0 base s n,
  Tplain s -> PInv s -> LInvC s (Some n) -> inGraph (nd s n) = true -> OD s (Some n) -> LGx s0 base s ->
  chainQp (QOrd base) q fuel s n /\
  (forall s' at_, recomputeChain fuel q s n = Ok (s', None, at_) ->
     Tplain s' /\ PInv s' /\ LInvC s' None /\ OD s' None /\ LGx s0 base s').
Proof.
  induction fuel as [|fuel IH]; intros s0 base s n TP P L Hg K G; [split; [exact Logic.I|discriminate]|].
  cbn [chainQp recomputeChain].
  destruct (recomputeNodeSerial fuel q s n) as [[[s1 e1] imm]| |] eqn:E1; cbn [rbind];
    try (split; [split; [exact (QOrd_of s0 base s n K G)|exact Logic.I]|discriminate]).
  destruct e1 as [e1|].
  { split; [split; [exact (QOrd_of s0 base s n K G)|exact Logic.I]|].
    intros s' at_ H. destruct imm; injection H as _ ? _; discriminate. }
  pose proof (rnsM fuel q s n s1 None imm Hq TP P L Hg E1) as R.
  destruct (fireK q (nkind (nd s n)) n) as [[w f]|] eqn:Ef.
  { exfalso. destruct f; destruct R as (R & _); discriminate R. }
  clear E1. rename R into E1.
  destruct (rnsT fuel s n s1 imm TP P L Hg E1) as (TP1 & P1 & L1 & Hk1 & Himm & _).
  assert (K1 : OD s1 imm).
  { destruct (isLhs (nkind (nd s n))) eqn:El.
    - destruct (nkind (nd s n)) eqn:Kn; try discriminate El.
      pose proof (p_kinds _ P n (has_inGraph _ _ Hg)) as Hkk. rewrite Kn in Hkk. destruct Hkk as [-> _].
      destruct (OD_bind fuel s b s1 imm TP P L Hg Kn E1 P1 K) as [-> K1]. exact K1.
    - exact (OD_step fuel s n s1 imm TP P L Hg El E1 P1 K). }
  destruct G as (evs & Elg & G).
  destruct (rnsL fuel s0 s n s1 imm evs TP P L Hg E1 G) as (new & El1 & G1).
  assert (G1x : LGx s0 base s1) by (exists (new ++ evs); split; [rewrite El1, Elg, app_assoc; reflexivity|exact G1]).
  assert (Gx : LGx s0 base s) by (exists evs; auto).
  destruct imm as [c|].
  - destruct (IH s0 base s1 c TP1 P1 L1 (Himm c eq_refl) K1 G1x) as [Q1 F1].
    split; [split; [exact (QOrd_of s0 base s n K Gx)|exact Q1]|exact F1].
  - split; [split; [exact (QOrd_of s0 base s n K Gx)|exact Logic.I]|].
    intros s' at_ H. injection H as <- _. auto.
Qed.

Lemma loopOp q (Hq : nowrites q) fuel : forall s0 base s,
  Tplain s -> PInv s -> LInvC s None -> OD s None -> LGx s0 base s -> loopQp (QOrd base) q fuel s.
Proof.
  induction fuel as [|fuel IH]; intros s0 base s TP P L K G; [exact Logic.I|].
  cbn [loopQp]. destruct (Z.leb_spec (Heap.cnt (heap s)) 0) as [Hc|Hc]; [exact Logic.I|].
  destruct (Heap.removeMin (heap s)) as [[n w]|] eqn:Erm; [|exact Logic.I]. cbv zeta.
  set (s2 := s <| heap := w |>).
  destruct (pop_LInvC s n w P L Erm) as (L2 & P2 & Hgn). fold s2 in L2, P2.
  pose proof (Tplain_binds s s2 eq_refl TP) as TP2.
  pose proof (OD_pop s n w P L Erm K) as K2. fold s2 in K2.
  assert (G2 : LGx s0 base s2).
  { destruct G as (evs & El & G). exists evs. split; [exact El|]. apply (LG_ext s0 s s2 evs); auto. }
  destruct (chainOp q Hq fuel s0 base s2 n TP2 P2 L2 Hgn K2 G2) as [Q2 F2].
  split; [exact Q2|].
  destruct (recomputeChain fuel q s2 n) as [[[s3 e3] at3]| |] eqn:E3; try exact Logic.I.
  destruct e3 as [e3|]; [exact Logic.I|].
  destruct (F2 s3 at3 eq_refl) as (TP3 & P3 & L3 & K3 & G3).
  exact (IH s0 base s3 TP3 P3 L3 K3 G3).
Qed.

Theorem pass_order_faults s q :
  nowrites q -> Inv s -> ValInvB s -> Tplain s ->
  let s1 := EngineLocal.passStart s in
  loopQp (QOrd (log s1)) q (passFuel s1) s1.
Proof.
  intros Hq IV V TP s1.
  pose proof (LInvC_start s IV V) as L1. change (PassProofs.passStart s) with s1 in L1.
  pose proof (Inv_PInv_start s IV) as P1. change (PInv s1) in P1.
  pose proof (Tplain_binds s s1 eq_refl TP) as TP1.
  assert (Hnd0 : forall y, isDone s1 y = false).
  { intros y. unfold isDone. apply Z.eqb_neq. pose proof (stamps_node_true _ _ (vb_stamps _ V y)).
    change (recomputedAt (nd s y) <> stabNum s). lia. }
  apply (loopOp q Hq _ s1 (log s1) s1 TP1 P1 L1 (OD_start s1 Hnd0)).
  exists []. split; [reflexivity|apply LG_start].
Qed.

(** * Var writes as well: the monitors are insensitive to the erasure of deferred writes *)
Section Erase.
  Variable Q : state -> nid -> Prop.
  Hypothesis HQ : forall s n, Q (cl s) n <-> Q s n.

  Lemma chainQp_cl q (Hq : nowrites q) fuel : forall s n, chainQp Q q fuel (cl s) n <-> chainQp Q q fuel s n.
  Proof.
    induction fuel as [|fuel IH]; intros s n; [reflexivity|]. cbn [chainQp].
    rewrite (rns_clG fuel q s n Hq), HQ.
    destruct (recomputeNodeSerial fuel q s n) as [[[s1 e1] imm]| |]; cbn [rmap rbind clR fst snd]; try reflexivity.
    destruct e1; [reflexivity|]. destruct imm; [|reflexivity]. rewrite IH. reflexivity.
  Qed.

  Lemma chainQp_sim p fuel : forall s n, status s = 1 -> chainQp Q (fo p) fuel (cl s) n -> chainQp Q p fuel s n.
  Proof.
    induction fuel as [|fuel IH]; intros s n Hst H; [exact Logic.I|]. cbn [chainQp] in *. destruct H as [H1 H2].
    split; [apply HQ, H1|].
    destruct (recomputeNodeSerial fuel p s n) as [[[s1 e1] imm]| |] eqn:E1; try exact Logic.I.
    rewrite (rns_simG fuel p s n s1 e1 imm Hst E1) in H2.
    destruct e1; [exact Logic.I|]. destruct imm as [c|]; [|exact Logic.I].
    destruct (pf_recomputeNodeSerial _ _ _ _ _ _ _ E1) as (_ & _ & Hst1 & _).
    apply IH; [rewrite Hst1; exact Hst|exact H2].
  Qed.

  Lemma loopQp_cl q (Hq : nowrites q) fuel : forall s, loopQp Q q fuel (cl s) <-> loopQp Q q fuel s.
  Proof.
    induction fuel as [|fuel IH]; intros s; [reflexivity|]. cbn [loopQp]. rewrite heap_cl.
    destruct (Heap.cnt (heap s) <=? 0); [reflexivity|].
    destruct (Heap.removeMin (heap s)) as [[n w]|]; [|reflexivity]. cbv zeta.
    rewrite cl_set_heap, (chainQp_cl q Hq fuel), (chain_clG fuel q Hq).
    destruct (recomputeChain fuel q (s <| heap := w |>) n) as [[[s3 e3] at3]| |]; cbn [rmap rbind clC fst snd]; try reflexivity.
    destruct e3; [reflexivity|]. rewrite IH. reflexivity.
  Qed.

  Lemma loopQp_sim p fuel : forall s, status s = 1 -> loopQp Q (fo p) fuel (cl s) -> loopQp Q p fuel s.
  Proof.
    induction fuel as [|fuel IH]; intros s Hst H; [exact Logic.I|]. cbn [loopQp] in *. rewrite heap_cl in H.
    destruct (Heap.cnt (heap s) <=? 0); [exact Logic.I|].
    destruct (Heap.removeMin (heap s)) as [[n w]|]; [|exact Logic.I]. cbv zeta in *.
    rewrite cl_set_heap in H. set (s2 := s <| heap := w |>) in *. destruct H as [H1 H2].
    assert (Hst2 : status s2 = 1) by exact Hst.
    split; [apply (chainQp_sim p fuel s2 n Hst2 H1)|].
    destruct (recomputeChain fuel p s2 n) as [[[s3 e3] at3]| |] eqn:E3; try exact Logic.I.
    rewrite (chain_simG fuel p s2 n s3 e3 at3 Hst2 E3) in H2.
    destruct e3; [exact Logic.I|].
    destruct (pf_recomputeChain _ _ _ _ _ _ _ E3) as (_ & _ & Hst3 & _).
    apply IH; [rewrite Hst3; exact Hst2|exact H2].
  Qed.
End Erase.

Lemma sub_cl s n a : sub (cl s) n a <-> sub s n a.
Proof.
  split; intros H.
  - apply (sub_ext s (cl s)); [intros x; apply scope_cl|exact H].
  - apply (sub_ext (cl s) s); [intros x; symmetry; apply scope_cl|exact H].
Qed.

Lemma QOrd_cl base s a : QOrd base (cl s) a <-> QOrd base s a.
Proof.
  assert (Hg : forall n, inGraph (nd (cl s) n) = inGraph (nd s n)) by (intros n; rewrite nd_cl; destruct (nd s n); reflexivity).
  assert (Hd : forall n, isDone (cl s) n = isDone s n) by (intros n; unfold isDone; rewrite nd_cl; destruct (nd s n); reflexivity).
  unfold QOrd. rewrite nkind_cl. change (log (cl s)) with (log s).
  split; intros H Hk; destruct (H Hk) as [A B]; split.
  - intros n Hs Hgn. rewrite <- Hd. apply A; [apply sub_cl, Hs|rewrite Hg; exact Hgn].
  - intros evs pre e post n El E Hn Hs Hgn. apply (B evs pre e post n El E Hn); [apply sub_cl, Hs|rewrite Hg; exact Hgn].
  - intros n Hs Hgn. rewrite Hd. apply A; [apply sub_cl, Hs|rewrite <- Hg; exact Hgn].
  - intros evs pre e post n El E Hn Hs Hgn. apply (B evs pre e post n El E Hn); [apply sub_cl, Hs|rewrite <- Hg; exact Hgn].
Qed.

(** ANY plan: var writes and any number of faults *)
Theorem pass_order_any s p :
  Inv s -> ValInvB s -> Tplain s ->
  let s1 := EngineLocal.passStart s in
  loopQp (QOrd (log s1)) p (passFuel s1) s1.
Proof.
  intros IV V TP s1.
  apply (loopQp_sim (QOrd (log s1)) (QOrd_cl (log s1)) p _ s1 eq_refl).
  apply (loopQp_cl (QOrd (log s1)) (QOrd_cl (log s1)) (fo p) (nowrites_fo p)).
  exact (pass_order_faults s (fo p) (nowrites_fo p) IV V TP).
Qed.

(* the plan-free monitors are the monitors under the empty plan *)
Lemma chainQp_nil Q fuel : forall s n, chainQp Q [] fuel s n <-> chainQ Q fuel s n.
Proof.
  induction fuel as [|fuel IH]; intros s n; [reflexivity|]. cbn [chainQp chainQ].
  destruct (recomputeNodeSerial fuel [] s n) as [[[s1 e1] imm]| |]; try reflexivity.
  destruct e1; [reflexivity|]. destruct imm; [|reflexivity]. rewrite IH. reflexivity.
Qed.

(** Non-vacuity: the F25 shape of [exO_ops] under a plan in which node 2's function writes var 1 and
    the bind function of 3 panics: node 2 runs, the direct recompute of node 6 is refused, the bind
    function is reached and panics ([EPanic 3]); node 6 has no event; var 1 holds the write *)
Definition exOP_plan : plan := [(2%nat, WFn, ASet 1%nat 30); (3%nat, WFn, AFail FPanic)].
Lemma exOP_results :
  match histB_run (init 64) exO_ops with
  | Some s =>
    plan_ok s exOP_plan &&
    match stabilize exOP_plan false s with
    | Ok (s', Some (EPanic 3%nat)) =>
      let evs := take (length (log s') - length (log s)) (log s') in
      bool_decide (log s' = evs ++ log s) && bool_decide (EvInvoked 2 [9] 10 ∈ evs) &&
      bool_decide (EvFault 3 WFn FPanic ∈ evs) && (value (nd s' 1%nat) =? 30) &&
      forallb (fun e => negb (bool_decide (ev_node e = Some 6%nat))) evs
    | _ => false
    end
  | None => false
  end = true.
Proof. vm_compute. reflexivity. Qed.
