(** The events of a serial pass without a plan in which binds MAY swap (C02 / C03 / C11 for
    swapping passes).

    With swaps the stamps no longer tell who ran: a node that ran and is then dropped by a swapping
    bind has its stamps reset to 0; if a later bind of the same pass links it again it starts a new
    PERIOD OF NECESSITY (event [EvNec n]), is stale, and runs again.  The statements are therefore
    about the events of a node's CURRENT period of necessity: the events after the last [EvNec n].

    [LG s0 s evs] ([evs]: the events of the pass so far, most recent first):
      lg_ok    an invocation / cutoff event of [n] that no [EvNec n] follows, [n] registered:
               the event is right for the current state ([PassInv.ev_ok]: [n] has run in this pass,
               the arguments are the values its inputs hold now, the result is its value now);
      lg_once  between two such events of one node there is an [EvNec] of that node:
               no node runs twice in one period of necessity;
      lg_keep  a registered node that was never re-registered in the pass and has not run keeps
               the value and stamps it had when the pass began. *)
From incr Require Import Base Heap HeapSpec EngineDefs Engine EngineRun EngineWf Spec EngineLemmas
     EngineInv EngineInvProofs PassInv PassProofs PassBind PassBindProofs PassBindSwap PassBindSwapProofs
     PassBindSwapStep PassBindOps.

Local Arguments valueOf : simpl never.

(** * Lists of events *)
Lemma split_quiet_l l1 : forall l2 pre e post,
  l1 ++ l2 = pre ++ e :: post -> Forall quiet l1 -> ev_node e <> None ->
  exists pre2, pre = l1 ++ pre2 /\ l2 = pre2 ++ e :: post.
Proof.
  induction l1 as [|a l1 IH]; intros l2 pre e post E F Hne.
  - exists pre. auto.
  - inversion F as [|? ? Qa F']; subst. destruct pre as [|p pre]; simpl in E.
    + injection E as -> _. contradiction.
    + injection E as -> E. destruct (IH _ _ _ _ E F' Hne) as (pre2 & -> & ->). exists pre2. auto.
Qed.

Lemma split_quiet_r l2 : forall l3 pre e post,
  l2 ++ l3 = pre ++ e :: post -> Forall quiet l3 -> ev_node e <> None ->
  exists post2, post = post2 ++ l3 /\ l2 = pre ++ e :: post2.
Proof.
  induction l2 as [|a l2 IH]; intros l3 pre e post E F Hne.
  - simpl in E. exfalso. rewrite Forall_forall in F. apply Hne, (F e). rewrite E. apply in_elt.
  - destruct pre as [|p pre]; simpl in E.
    + injection E as -> <-. exists l2. auto.
    + injection E as -> E. destruct (IH _ _ _ _ E F Hne) as (post2 & -> & ->). exists post2. auto.
Qed.

Lemma lastNU_app l l' n :
  lastNU (l ++ l') n = match lastNU l n with Some x => Some x | None => lastNU l' n end.
Proof.
  induction l as [|e l IH]; [reflexivity|]. destruct e; simpl; try exact IH; destruct (decide (n0 = n)); auto.
Qed.

Lemma lastNU_true_in l n : lastNU l n = Some true -> EvNec n ∈ l.
Proof.
  induction l as [|e l IH]; [discriminate|]. intros H.
  destruct e; simpl in H; try (right; apply IH, H); destruct (decide (n0 = n)) as [->|?];
    try discriminate; try (right; apply IH, H). left.
Qed.

(* a node registered after a step that logged no [EvNec] of it was registered before *)
Lemma reg_back s s' new n :
  PInv s -> PInv s' -> log s' = new ++ log s -> inGraph (nd s' n) = true -> EvNec n ∉ new ->
  inGraph (nd s n) = true.
Proof.
  intros P P' El Hg Hn.
  apply (t_life _ _ _ (p_t _ P') n (not_elem_of_nil n)) in Hg. rewrite El, lastNU_app in Hg.
  apply (t_life _ _ _ (p_t _ P) n (not_elem_of_nil n)).
  destruct (lastNU new n) as [x|] eqn:E; [|exact Hg]. injection Hg as ->. exfalso. apply Hn, lastNU_true_in, E.
Qed.

Lemma ev_ok_done s e n : ev_node e = Some n -> PassInv.ev_ok s e = true -> isDone s n = true.
Proof.
  destruct e; try discriminate; intros [= ->]; unfold PassInv.ev_ok; rewrite !andb_true_iff; tauto.
Qed.

(** * The invariant *)
Record LG (s0 s : state) (evs : list event) : Prop := {
  lg_ok : forall pre e post n, evs = pre ++ e :: post -> ev_node e = Some n -> EvNec n ∉ pre ->
            inGraph (nd s n) = true -> PassInv.ev_ok s e = true;
  lg_once : forall pre e mid e' post n, evs = pre ++ e :: mid ++ e' :: post ->
            ev_node e = Some n -> ev_node e' = Some n -> EvNec n ∈ mid;
  lg_keep : forall n, inGraph (nd s n) = true -> EvNec n ∉ evs -> isDone s n = false ->
            value (nd s n) = value (nd s0 n) /\ recomputedAt (nd s n) = recomputedAt (nd s0 n) /\
            changedAt (nd s n) = changedAt (nd s0 n);
  lg_val : forall n, inGraph (nd s n) = true -> EvNec n ∉ evs -> changedAt (nd s n) <> stabNum s ->
            value (nd s n) = value (nd s0 n)
}.

Definition LGx (s0 : state) (base : list event) (s : state) : Prop :=
  exists evs, log s = evs ++ base /\ LG s0 s evs.

Lemma LG_start s0 : LG s0 s0 [].
Proof.
  constructor.
  - intros pre e post n E. destruct pre; discriminate E.
  - intros pre e mid e' post n E. destruct pre; discriminate E.
  - auto.
  - auto.
Qed.

Lemma ev_ok_ext s s' e :
  (forall n, nd s' n = nd s n) -> stabNum s' = stabNum s -> PassInv.ev_ok s' e = PassInv.ev_ok s e.
Proof.
  intros Hnd Hk.
  assert (Hv : forall p, valueOf s' p = valueOf s p).
  { intros p. apply valueOf_ext. intros n. rewrite Hnd. auto. }
  destruct e; try reflexivity; unfold PassInv.ev_ok, isDone; rewrite !Hnd, Hk; [|reflexivity].
  rewrite (map_ext _ _ Hv). reflexivity.
Qed.

Lemma LG_ext s0 s s' evs :
  (forall n, nd s' n = nd s n) -> stabNum s' = stabNum s -> LG s0 s evs -> LG s0 s' evs.
Proof.
  intros Hnd Hk [A B C D]. constructor.
  - intros pre e post n E1 E2 E3 Hg. rewrite (ev_ok_ext s s' e Hnd Hk). rewrite Hnd in Hg. eauto.
  - exact B.
  - intros n Hg Hn Hd. unfold isDone in Hd. rewrite Hnd, Hk in *. apply (C n Hg Hn Hd).
  - intros n Hg Hn Hc. rewrite Hnd, Hk in *. apply (D n Hg Hn Hc).
Qed.

(** * The recompute of a lhs-change node *)
Lemma LG_bind s0 s b s' evs new :
  PInv s -> PInv s' -> LInvC s (Some b) -> bfr s b s' -> log s' = new ++ log s -> Forall quiet new ->
  LG s0 s evs -> LG s0 s' (new ++ evs).
Proof.
  intros P P' L F El Hq [A B C D].
  assert (HWb : inW s (Some b) b = true).
  { unfold inW. rewrite (bool_decide_eq_true_2 _ eq_refl). apply orb_true_r. }
  assert (Hb_nd : isDone s b = false) by (apply (lc_B _ _ L b b HWb), rtc_refl).
  assert (Hm_nd : isDone s (S b) = false) by (apply (lc_B _ _ L b (S b) HWb), rtc_once, (bx_edge _ _ _ F)).
  (* a node that had run, and is registered before and after the step, keeps its stamps *)
  assert (Hkeep : forall n, inGraph (nd s' n) = true -> n <> b ->
            recomputedAt (nd s' n) = recomputedAt (nd s n) /\ changedAt (nd s' n) = changedAt (nd s n)).
  { intros n Hg' Hne. destruct (bx_stamps _ _ _ F n Hne) as [(E1 & E2 & _)|[(E1 & _)|(E1 & _)]]; [auto|congruence|].
    rewrite (t_valid _ _ _ (p_t _ P') n Hg') in E1. discriminate. }
  assert (Hdone : forall n, inGraph (nd s' n) = true -> inGraph (nd s n) = true -> isDone s n = true ->
            n <> b /\ n <> S b /\ isDone s' n = true /\ changedAt (nd s' n) = changedAt (nd s n)).
  { intros n Hg' Hg Hd. assert (Hne : n <> b) by (intros ->; congruence).
    split; [exact Hne|]. split; [intros ->; congruence|].
    destruct (Hkeep n Hg' Hne) as [E1 E2]. split; [|exact E2].
    apply isDone_iff. apply isDone_iff in Hd. rewrite (bx_k _ _ _ F). congruence. }
  constructor.
  - intros pre' e post n E Hn Hnec Hg'.
    destruct (split_quiet_l new evs pre' e post E Hq ltac:(congruence)) as (pre & -> & Ee).
    assert (Hg : inGraph (nd s n) = true).
    { apply (reg_back s s' new n P P' El Hg'). intros Hin. apply Hnec, elem_of_app. auto. }
    assert (Hok : PassInv.ev_ok s e = true).
    { apply (A pre e post n Ee Hn); [|exact Hg]. intros Hin. apply Hnec, elem_of_app. auto. }
    pose proof (ev_ok_done s e n Hn Hok) as Hd.
    destruct (Hdone n Hg' Hg Hd) as (Hnb & Hnm & Hd' & Hc').
    pose proof (has_inGraph _ _ Hg) as Hhas. destruct (bx_old _ _ _ F n Hhas) as (_ & Ev & Ed).
    destruct e; try discriminate Hn; injection Hn as ->; unfold PassInv.ev_ok in *; rewrite Hd'; simpl.
    + rewrite !andb_true_iff in Hok. destruct Hok as [[_ Ha] Hr]. apply andb_true_iff. split.
      * apply bool_decide_eq_true in Ha. apply bool_decide_eq_true. rewrite Ha, (Ed Hnm).
        apply map_ext_in. intros p Hp. symmetry. apply (bx_valueOf _ _ _ F).
        apply (io_decl _ (p_ids _ P) n). apply elem_of_list_In, Hp.
      * rewrite Ev. exact Hr.
    + rewrite andb_true_iff in Hok. destruct Hok as [_ Hv]. rewrite Hc', Ev, (bx_k _ _ _ F). exact Hv.
  - intros pre' e mid e' post n E Hn Hn'.
    destruct (split_quiet_l new evs pre' e _ E Hq ltac:(congruence)) as (pre & -> & Ee).
    apply (B pre e mid e' post n Ee Hn Hn').
  - intros n Hg' Hnec Hd'.
    assert (Hg : inGraph (nd s n) = true).
    { apply (reg_back s s' new n P P' El Hg'). intros Hin. apply Hnec, elem_of_app. auto. }
    assert (Hne : n <> b).
    { intros ->. destruct (bx_self _ _ _ F) as [E _]. unfold isDone in Hd'. rewrite (bx_k _ _ _ F), E, Z.eqb_refl in Hd'. discriminate. }
    destruct (Hkeep n Hg' Hne) as [E1 E2].
    assert (Hd : isDone s n = false).
    { unfold isDone in *. rewrite (bx_k _ _ _ F), E1 in Hd'. exact Hd'. }
    destruct (C n Hg ltac:(intros Hin; apply Hnec, elem_of_app; auto) Hd) as (C1 & C2 & C3).
    destruct (bx_old _ _ _ F n (has_inGraph _ _ Hg)) as (_ & Ev & _). repeat split; congruence.
  - intros n Hg' Hnec Hc'.
    assert (Hg : inGraph (nd s n) = true).
    { apply (reg_back s s' new n P P' El Hg'). intros Hin. apply Hnec, elem_of_app. auto. }
    assert (Hne : n <> b) by (intros ->; apply Hc'; rewrite (bx_changed _ _ _ F), (bx_k _ _ _ F); reflexivity).
    destruct (Hkeep n Hg' Hne) as [E1 E2].
    destruct (bx_old _ _ _ F n (has_inGraph _ _ Hg)) as (_ & Ev & _). rewrite Ev.
    apply (D n Hg); [intros Hin; apply Hnec, elem_of_app; auto|]. rewrite <- E2, <- (bx_k _ _ _ F). exact Hc'.
Qed.

(** * The recompute of any other node *)
Section StepL.
  Context (s0 s : state) (m : nid) (s' : state) (imm : option nid) (evs : list event).
  Context (HS : Struct s) (HBF : BFB s) (I : HeapSpec.inv (heap s))
          (L : LInvC s (Some m)) (Hmreg : inGraph (nd s m) = true)
          (PP : stepPostB s m s' imm) (G : LG s0 s evs).

  Let k := stabNum s.
  Let F : sframe s s' := stepPostB_sframe _ _ _ _ PP.

  Local Lemma HmW : inW s (Some m) m = true.
  Proof. apply inW_iff; [exact I|]. right; reflexivity. Qed.
  Local Lemma Hmnd : isDone s m = false.
  Proof. apply (lc_B _ _ L m m HmW). apply rtc_refl. Qed.
  Local Lemma Hk' : stabNum s' = k. Proof. apply (sf_stabNum _ _ F). Qed.
  Local Lemma Hnd_ne n : n <> m -> nd s' n = nd s n. Proof. apply (sq_other _ _ _ _ PP). Qed.
  Local Lemma Hrec_m : recomputedAt (nd s' m) = k. Proof. rewrite (sq_self _ _ _ _ PP). reflexivity. Qed.
  Local Lemma Hdm : isDone s' m = true. Proof. apply isDone_iff. rewrite Hk'. exact Hrec_m. Qed.
  Local Lemma Hkd n : nkind (nd s' n) = nkind (nd s n) /\ decl (nd s' n) = decl (nd s n).
  Proof. split; [apply (sf_nkind _ _ F)|apply (sf_decl _ _ F)]. Qed.
  Local Lemma Hvalue_ne n : n <> m -> value (nd s' n) = value (nd s n).
  Proof. intros Hn. rewrite (Hnd_ne n Hn). reflexivity. Qed.

  Local Lemma Hst n : 0 <= changedAt (nd s n) <= k /\ 0 <= recomputedAt (nd s n) <= k /\
                      (changedAt (nd s n) = k -> recomputedAt (nd s n) = k).
  Proof. apply stamps_node_false, (lc_stamps _ _ L). Qed.

  Local Lemma Hval p : inGraph (nd s p) = true -> p <> m ->
    ~ (nkind (nd s p) = KAlways /\ reach s m p) -> valueOf s' p = valueOf s p.
  Proof. intros. apply (valueOf_changed s s' m p HS Hkd Hvalue_ne); assumption. Qed.

  Local Lemma Hval_cut p : cutPost s m s' imm -> valueOf s' p = valueOf s p.
  Proof.
    intros C. apply valueOf_ext. intros n. destruct (Hkd n) as [-> ->]. split; [reflexivity|]. split; [reflexivity|].
    destruct (decide (n = m)) as [->|Hn]; [apply C|apply Hvalue_ne, Hn].
  Qed.

  Local Lemma Hval_decl_m p : p ∈ decl (nd s m) -> valueOf s' p = valueOf s p.
  Proof.
    intros Hp. assert (Hpar : p ∈ parents (nd s m)) by (apply (st_par _ HS); [exact Hmreg|exact Hp]).
    pose proof (parent_edge s HS _ _ Hpar) as He.
    apply Hval.
    - apply (edge_reg s HS _ _ He).
    - intros ->. pose proof (edge_height s HS _ _ He). lia.
    - intros [_ Hr]. exact (parent_not_reach s HS _ _ Hpar Hr).
  Qed.

  Local Lemma Hval_done n p : inGraph (nd s n) = true -> isDone s n = true -> p ∈ decl (nd s n) ->
    valueOf s' p = valueOf s p.
  Proof.
    intros Hg Hd Hp. destruct (sq_case _ _ _ _ PP) as [C|R]; [apply Hval_cut, C|].
    pose proof (decl_parent s HS n p Hg Hp) as He.
    assert (Hnr : ~ reach s m p).
    { intros Hr. assert (reach s m n) as Hrn by (eapply rtc_r; eauto).
      pose proof (lc_B _ _ L m n HmW Hrn). congruence. }
    apply Hval.
    - apply (edge_reg s HS _ _ He).
    - intros ->. apply Hnr, rtc_refl.
    - tauto.
  Qed.

  Local Lemma ev_ok_keep e n : ev_node e = Some n -> inGraph (nd s n) = true ->
    PassInv.ev_ok s e = true -> PassInv.ev_ok s' e = true.
  Proof.
    intros Hn Hg Hok. pose proof (ev_ok_done s e n Hn Hok) as Hd.
    assert (Hne : n <> m) by (intros ->; rewrite Hmnd in Hd; discriminate).
    assert (Hd' : isDone s' n = true).
    { apply isDone_iff. apply isDone_iff in Hd. rewrite Hk', (Hnd_ne n Hne). exact Hd. }
    destruct e; try discriminate Hn; injection Hn as ->; unfold PassInv.ev_ok in *; rewrite Hd'; simpl.
    - rewrite !andb_true_iff in Hok. destruct Hok as [[_ Ha] Hr]. apply andb_true_iff. split.
      + apply bool_decide_eq_true in Ha. apply bool_decide_eq_true. rewrite Ha, (sf_decl _ _ F).
        apply map_ext_in. intros p Hp. symmetry. apply (Hval_done n p Hg Hd). apply elem_of_list_In, Hp.
      + rewrite (Hnd_ne n Hne). exact Hr.
    - rewrite andb_true_iff in Hok. destruct Hok as [_ Hv]. rewrite (Hnd_ne n Hne), Hk'. exact Hv.
  Qed.

  (* the events of the step: none, or one event of [m] that is right for [s'] *)
  Local Lemma step_events : exists new, log s' = new ++ log s /\
    (new = [] \/ exists e, new = [e] /\ ev_node e = Some m /\ PassInv.ev_ok s' e = true).
  Proof.
    destruct (sq_case _ _ _ _ PP) as [C|R].
    - destruct (cp_kind _ _ _ _ C) as (c0 & K & Hcut & Hl).
      exists [EvCutoff m (value (nd s m)) (valueOf s (hd 0%nat (decl (nd s m)))) true].
      split; [exact Hl|]. right. eexists. split; [reflexivity|]. split; [reflexivity|].
      unfold PassInv.ev_ok. rewrite Hdm. simpl.
      rewrite (cp_changed _ _ _ _ C), (cp_value _ _ _ _ C), Hk', Z.eqb_refl, andb_true_r.
      apply Z.ltb_lt. pose proof (Hst m) as (H1 & H2 & H3). pose proof Hmnd as Hd. unfold isDone in Hd.
      apply Z.eqb_neq in Hd. fold k in Hd.
      destruct (Z.eq_dec (changedAt (nd s m)) k) as [E|E]; [exfalso; apply Hd, H3, E|lia].
    - destruct (rq_log _ _ _ _ R) as (nev & Hl & Hnev). exists nev. split; [exact Hl|].
      destruct Hnev as [->|[->|(o & ->)]]; [auto|right|right].
      + eexists. split; [reflexivity|]. split; [reflexivity|]. unfold PassInv.ev_ok. rewrite Hdm. simpl.
        apply andb_true_iff. split; [|apply Z.eqb_refl].
        apply bool_decide_eq_true. rewrite (sf_decl _ _ F). apply map_ext_in. intros p Hp.
        symmetry. apply Hval_decl_m. apply elem_of_list_In, Hp.
      + eexists. split; [reflexivity|]. split; [reflexivity|]. unfold PassInv.ev_ok. rewrite Hdm. simpl. apply Z.eqb_refl.
  Qed.

  Lemma step_LG : exists new, log s' = new ++ log s /\ LG s0 s' (new ++ evs).
  Proof.
    destruct G as [A B C D].
    assert (Hvalk : forall n, inGraph (nd s' n) = true -> EvNec n ∉ evs -> changedAt (nd s' n) <> stabNum s' ->
              value (nd s' n) = value (nd s0 n)).
    { intros n Hg' Hnec Hc'. rewrite (sf_inGraph _ _ F) in Hg'. destruct (decide (n = m)) as [->|Hne].
      - destruct (sq_case _ _ _ _ PP) as [Cc|R].
        + rewrite (cp_value _ _ _ _ Cc). apply (C m Hg' Hnec Hmnd).
        + exfalso. apply Hc'. rewrite Hk'. apply (rq_changed _ _ _ _ R).
      - rewrite (Hnd_ne n Hne), Hk' in *. apply (D n Hg' Hnec Hc'). }
    assert (Hkeep : forall n, inGraph (nd s' n) = true -> EvNec n ∉ evs -> isDone s' n = false ->
              value (nd s' n) = value (nd s0 n) /\ recomputedAt (nd s' n) = recomputedAt (nd s0 n) /\
              changedAt (nd s' n) = changedAt (nd s0 n)).
    { intros n Hg' Hnec Hd'. assert (Hne : n <> m) by (intros ->; rewrite Hdm in Hd'; discriminate).
      unfold isDone in Hd'. rewrite (Hnd_ne n Hne), Hk' in *. apply (C n Hg' Hnec Hd'). }
    assert (Hold : forall pre e post n, evs = pre ++ e :: post -> ev_node e = Some n -> EvNec n ∉ pre ->
              inGraph (nd s' n) = true -> PassInv.ev_ok s' e = true).
    { intros pre e post n E Hn Hnec Hg'. rewrite (sf_inGraph _ _ F) in Hg'.
      apply (ev_ok_keep e n Hn Hg'). apply (A pre e post n E Hn Hnec Hg'). }
    destruct step_events as (new & Hl & [->|(e0 & -> & Hn0 & Hok0)]).
    - exists []. split; [exact Hl|]. constructor; [exact Hold|exact B|exact Hkeep|exact Hvalk].
    - exists [e0]. split; [exact Hl|]. constructor.
      + intros pre e post n E Hn Hnec Hg'. destruct pre as [|p pre]; simpl in E.
        * injection E as <- _. exact Hok0.
        * injection E as <- E. apply (Hold pre e post n E Hn); [|exact Hg'].
          intros Hin. apply Hnec. right. exact Hin.
      + intros pre e mid e' post n E Hn Hn'. destruct pre as [|p pre]; simpl in E.
        * injection E as <- E. assert (n = m) as -> by congruence.
          destruct (decide (EvNec m ∈ mid)) as [Hin|Hnin]; [exact Hin|exfalso].
          pose proof (A mid e' post m E Hn' Hnin Hmreg) as Hok.
          pose proof (ev_ok_done s e' m Hn' Hok) as Hd. rewrite Hmnd in Hd. discriminate.
        * injection E as <- E. apply (B pre e mid e' post n E Hn Hn').
      + intros n Hg' Hnec Hd'. apply (Hkeep n Hg'); [|exact Hd']. intros Hin. apply Hnec. right. exact Hin.
      + intros n Hg' Hnec Hc'. apply (Hvalk n Hg'); [|exact Hc']. intros Hin. apply Hnec. right. exact Hin.
  Qed.
End StepL.

(** * The loop *)
Lemma rnsL fuel s0 s m s' imm evs :
  Tplain s -> PInv s -> LInvC s (Some m) -> inGraph (nd s m) = true ->
  recomputeNodeSerial fuel [] s m = Ok (s', None, imm) -> LG s0 s evs ->
  exists new, log s' = new ++ log s /\ LG s0 s' (new ++ evs).
Proof.
  intros TP P L Hg H G.
  destruct (recomputeNodeSerial_spec PT PT_struct bind_spec_holds fuel [] s m s' None imm Logic.I P eq_refl Hg H)
    as [[Hr|Hr]|[(P' & _ & Hk & _) Himm]]; try discriminate.
  destruct (isLhs (nkind (nd s m))) eqn:El.
  - destruct (nkind (nd s m)) eqn:K; try discriminate El.
    pose proof (p_kinds _ P m (has_inGraph _ _ Hg)) as Hkk. rewrite K in Hkk. destruct Hkk as [-> _].
    pose proof (bind_step_frame fuel s b s' imm TP P L Hg K H P') as BF.
    destruct (bx_log _ _ _ BF) as (new & El' & Hq). exists new. split; [exact El'|].
    exact (LG_bind s0 s b s' evs new P P' L BF El' Hq G).
  - pose proof (PInv_BFB s P (lc_shape _ _ L)) as HB.
    destruct (rns_stepB fuel s m s' None imm HB (has_inGraph _ _ Hg) (proj1 (PInv_heap s P)) El H) as [_ PP].
    exact (step_LG s0 s m s' imm evs (PInv_Struct s P) (proj1 (PInv_heap s P)) L Hg PP G).
Qed.

Lemma chainL fuel : forall s0 base s n s' at_,
  Tplain s -> PInv s -> LInvC s (Some n) -> inGraph (nd s n) = true ->
  recomputeChain fuel [] s n = Ok (s', None, at_) -> LGx s0 base s -> LGx s0 base s'.
Proof.
  induction fuel as [|fuel IH]; intros s0 base s n s' at_ TP P L Hg H G; [discriminate|].
  cbn [recomputeChain] in H.
  destruct (recomputeNodeSerial fuel [] s n) as [[[s1 e1] imm]| |] eqn:E1; simpl in H; try discriminate.
  destruct e1 as [e1|]; [destruct imm; injection H as _ ? _; discriminate|].
  destruct (rnsT fuel s n s1 imm TP P L Hg E1) as (TP1 & P1 & L1 & Hk1 & Himm & _).
  destruct G as (evs & El & G).
  destruct (rnsL fuel s0 s n s1 imm evs TP P L Hg E1 G) as (new & El1 & G1).
  assert (G1x : LGx s0 base s1).
  { exists (new ++ evs). split; [rewrite El1, El, app_assoc; reflexivity|exact G1]. }
  destruct imm as [c|].
  - exact (IH s0 base s1 c s' at_ TP1 P1 L1 (Himm c eq_refl) H G1x).
  - injection H as <- _. exact G1x.
Qed.

Lemma loopL fuel : forall s0 base s always s' at_ always',
  Tplain s -> PInv s -> LInvC s None ->
  passLoop fuel [] s always = Ok (s', None, at_, always') -> LGx s0 base s -> LGx s0 base s'.
Proof.
  induction fuel as [|fuel IH]; intros s0 base s always s' at_ always' TP P L H G; [discriminate|].
  cbn [passLoop] in H.
  destruct (Z.leb_spec (Heap.cnt (heap s)) 0) as [Hc|Hc]; [injection H as <- _ _; exact G|].
  destruct (Heap.removeMin (heap s)) as [[n w]|] eqn:Erm; [|discriminate].
  set (s2 := s <| heap := w |>) in *.
  destruct (recomputeChain fuel [] s2 n) as [[[s3 e3] at3]| |] eqn:E3; simpl in H; try discriminate.
  destruct e3 as [e3|]; [injection H as _ ? _ _; discriminate|].
  destruct (pop_LInvC s n w P L Erm) as (L2 & P2 & Hgn). fold s2 in L2, P2.
  pose proof (Tplain_binds s s2 eq_refl TP) as TP2.
  destruct (chainT fuel s2 n s3 at3 TP2 P2 L2 Hgn E3) as (TP3 & P3 & L3 & Hk3 & _).
  assert (G2 : LGx s0 base s2).
  { destruct G as (evs & El & G). exists evs. split; [exact El|]. apply (LG_ext s0 s s2 evs); auto. }
  pose proof (chainL fuel s0 base s2 n s3 at3 TP2 P2 L2 Hgn E3 G2) as G3.
  exact (IH s0 base s3 _ s' at_ always' TP3 P3 L3 H G3).
Qed.

(** * The pass *)
Record PassLog (s s' : state) : Prop := {
  (* C02 / C11: the events of the current period of necessity of a node that is registered when the
     pass returns describe the state the pass returns *)
  pl_events : forall evs pre e post n, log s' = evs ++ log s -> evs = pre ++ e :: post ->
      ev_node e = Some n -> EvNec n ∉ pre -> inGraph (nd s' n) = true ->
      recomputedAt (nd s' n) = stabNum s /\
      match e with
      | EvInvoked _ args r => args = map (valueOf s') (decl (nd s' n)) /\ r = value (nd s' n)
      | EvCutoff _ old new true => changedAt (nd s' n) < stabNum s /\ value (nd s' n) = old
      | EvCutoff _ old new false => value (nd s' n) = new
      | _ => True
      end;
  (* C03: no node runs twice in one period of necessity *)
  pl_once : forall evs pre e mid e' post n, log s' = evs ++ log s -> evs = pre ++ e :: mid ++ e' :: post ->
      ev_node e = Some n -> ev_node e' = Some n -> EvNec n ∈ mid;
  (* C03: a node that stayed registered and did not run keeps its value and stamps *)
  pl_keep : forall evs n, log s' = evs ++ log s -> inGraph (nd s' n) = true -> EvNec n ∉ evs ->
      recomputedAt (nd s' n) <> stabNum s ->
      value (nd s' n) = value (nd s n) /\ recomputedAt (nd s' n) = recomputedAt (nd s n) /\
      changedAt (nd s' n) = changedAt (nd s n);
  (* C03: whoever is owed a recompute when the pass returns is an Always node; a registered node
     one of whose inputs changed in the pass has run in it *)
  (* C13: a node that stayed registered and whose value differs from the one it had when the pass
     began is stamped as changed in this pass *)
  pl_changed : forall evs n, log s' = evs ++ log s -> inGraph (nd s' n) = true -> EvNec n ∉ evs ->
      value (nd s' n) <> value (nd s n) -> changedAt (nd s' n) = stabNum s;
  pl_stale : forall n, inGraph (nd s' n) = true -> isStale s' n = true -> nkind (nd s' n) = KAlways;
  pl_owed : forall n p, inGraph (nd s' n) = true -> p ∈ parents (nd s' n) ->
      changedAt (nd s' p) = stabNum s -> recomputedAt (nd s' n) = stabNum s
}.

Lemma handler_quiet e : isHandlerEv e -> quiet e.
Proof. destruct e; simpl; try tauto; reflexivity. Qed.

Lemma handler_not_nec e n : isHandlerEv e -> e <> EvNec n.
Proof. destruct e; simpl; try tauto; discriminate. Qed.

Theorem passS_log s s' :
  Inv s -> ValInvB s -> Tplain s -> stabilize [] false s = Ok (s', None) -> PassLog s s'.
Proof.
  intros IV V TP H. pose proof (Inv_wfb s IV) as Hwf.
  destruct (wfb_transients _ Hwf) as (Hst & Hsd & Hsr & Hh).
  destruct (stabilize_nil_inv s s' Hst Hsd Hsr H) as (sL & at_ & always & sR & hev & EL & ER & Es & Hhev).
  fold (passStart s) in EL. set (s1 := passStart s) in *.
  pose proof (LInvC_start s IV V) as L1. fold s1 in L1.
  pose proof (Inv_PInv_start s IV) as P1. fold (passStart s) in P1. fold s1 in P1.
  pose proof (Tplain_binds s s1 eq_refl TP) as TP1.
  destruct (loopT _ s1 [] sL at_ always TP1 P1 L1 EL) as (TPL & PL & LL & Hemp & HkL & CL).
  assert (G1 : LGx s1 (log s1) s1) by (exists []; split; [reflexivity|apply LG_start]).
  destruct (loopL _ s1 (log s1) s1 [] sL at_ always TP1 P1 L1 EL G1) as (evsL & ElL & GL).
  specialize (Es (proj1 (lc_quiet _ _ LL)) (proj2 (lc_quiet _ _ LL))).
  pose proof (requeue_only_heap _ _ _ ER) as OR.
  assert (Hn : nodes s' = nodes sL) by (rewrite Es; cbn; apply (oh_nodes _ _ OR)).
  pose proof (nodes_eq_nd _ _ Hn) as Hnd.
  assert (HkLs : stabNum sL = stabNum s) by exact HkL.
  assert (Hlog : log s' = (hev ++ [EvPassEnd XOk]) ++ evsL ++ [EvPassStart] ++ log s).
  { rewrite Es. cbn. rewrite (oh_log _ _ OR), ElL. rewrite <- !app_assoc. reflexivity. }
  assert (Hnd1 : forall n, nd s1 n = nd s n) by reflexivity.
  assert (HQ : Forall quiet (hev ++ [EvPassEnd XOk])).
  { apply Forall_app. split; [|constructor; [reflexivity|constructor]].
    eapply List.Forall_impl; [|exact Hhev]. exact handler_quiet. }
  assert (Hevs : forall evs, log s' = evs ++ log s -> evs = (hev ++ [EvPassEnd XOk]) ++ evsL ++ [EvPassStart]).
  { intros evs E. apply (app_inv_tail (log s)). rewrite <- E, Hlog, <- !app_assoc. reflexivity. }
  assert (Hvo : forall p, valueOf s' p = valueOf sL p) by (intros p; apply valueOf_nodes, Hn).
  pose proof (PInv_Struct sL PL) as HSL.
  destruct GL as [A B C D].
  constructor.
  - intros evs pre e post n E1 E2 Hn' Hnec Hg. rewrite (Hevs evs E1) in E2.
    destruct (split_quiet_l _ _ pre e post E2 HQ ltac:(congruence)) as (pre2 & -> & E3).
    destruct (split_quiet_r evsL [EvPassStart] pre2 e post E3 ltac:(constructor; [reflexivity|constructor]) ltac:(congruence))
      as (post2 & -> & E4).
    rewrite Hnd in Hg.
    assert (Hok : PassInv.ev_ok sL e = true).
    { apply (A pre2 e post2 n E4 Hn'); [|exact Hg]. intros Hin. apply Hnec, elem_of_app. auto. }
    pose proof (ev_ok_done sL e n Hn' Hok) as Hd. apply isDone_iff in Hd. rewrite HkLs in Hd.
    rewrite Hnd. split; [exact Hd|].
    destruct e; try exact Logic.I; injection Hn' as ->; unfold PassInv.ev_ok in Hok; rewrite !andb_true_iff in Hok.
    + destruct Hok as [[_ Ha] Hr]. apply bool_decide_eq_true in Ha. apply Z.eqb_eq in Hr.
      split; [|exact Hr]. rewrite Ha. apply map_ext. intros p. symmetry. apply Hvo.
    + destruct Hok as [_ Hv]. destruct verdict.
      * apply andb_true_iff in Hv as [Hc Hv]. apply Z.ltb_lt in Hc. apply Z.eqb_eq in Hv. rewrite HkLs in Hc. auto.
      * apply Z.eqb_eq in Hv. exact Hv.
  - intros evs pre e mid e' post n E1 E2 Hn1 Hn2. rewrite (Hevs evs E1) in E2.
    destruct (split_quiet_l _ _ pre e _ E2 HQ ltac:(congruence)) as (pre2 & -> & E3).
    assert (E3' : evsL ++ [EvPassStart] = (pre2 ++ e :: mid) ++ e' :: post) by (rewrite <- app_assoc; exact E3).
    destruct (split_quiet_r evsL [EvPassStart] _ e' post E3' ltac:(constructor; [reflexivity|constructor]) ltac:(congruence))
      as (post2 & -> & E4).
    rewrite <- app_assoc in E4. apply (B pre2 e mid e' post2 n E4 Hn1 Hn2).
  - intros evs n E1 Hg Hnec Hr. rewrite (Hevs evs E1) in Hnec. rewrite Hnd in *.
    assert (Hd : isDone sL n = false).
    { unfold isDone. apply Z.eqb_neq. rewrite HkLs. exact Hr. }
    apply (C n Hg); [|exact Hd]. intros Hin. apply Hnec. apply elem_of_app. right. apply elem_of_app. left. exact Hin.
  - intros evs n E1 Hg Hnec Hv. rewrite (Hevs evs E1) in Hnec. rewrite Hnd in *.
    destruct (Z.eq_dec (changedAt (nd sL n)) (stabNum s)) as [Ec|Ec]; [exact Ec|exfalso].
    apply Hv. apply (D n Hg); [|rewrite HkLs; exact Ec].
    intros Hin. apply Hnec. apply elem_of_app. right. apply elem_of_app. left. exact Hin.
  - intros n Hg Hs. rewrite Hnd in *. rewrite (isStale_nodes sL s' n Hn) in Hs.
    exact (proj1 (endC_stale_always sL PL LL Hemp n Hg Hs)).
  - intros n p Hg Hp Hc. rewrite !Hnd in *.
    destruct (isDone sL n) eqn:Ed; [apply isDone_iff in Ed; congruence|exfalso].
    pose proof (PassBindSwapProofs.fresh sL PL LL Hemp n p Hg Hp) as Hf.
    pose proof (stamps_node_false _ _ (lc_stamps _ _ LL n)) as Hsn.
    unfold isDone in Ed. apply Z.eqb_neq in Ed. lia.
Qed.

(** * The statements, one by one *)
(* C02 *)
Theorem passS_args_final s s' :
  Inv s -> ValInvB s -> Tplain s -> stabilize [] false s = Ok (s', None) ->
  forall evs pre n args r post, log s' = evs ++ log s -> evs = pre ++ EvInvoked n args r :: post ->
    EvNec n ∉ pre -> inGraph (nd s' n) = true ->
    args = map (valueOf s') (decl (nd s' n)) /\ r = value (nd s' n) /\ recomputedAt (nd s' n) = stabNum s.
Proof.
  intros IV V TP H evs pre n args r post E1 E2 Hnec Hg.
  destruct (pl_events _ _ (passS_log s s' IV V TP H) evs pre _ post n E1 E2 eq_refl Hnec Hg) as (A & B & C). auto.
Qed.

(* C11, pass half *)
Theorem passS_cut_kept s s' :
  Inv s -> ValInvB s -> Tplain s -> stabilize [] false s = Ok (s', None) ->
  forall evs pre n old new post, log s' = evs ++ log s -> evs = pre ++ EvCutoff n old new true :: post ->
    EvNec n ∉ pre -> inGraph (nd s' n) = true ->
    changedAt (nd s' n) < stabNum s /\ value (nd s' n) = old /\ recomputedAt (nd s' n) = stabNum s.
Proof.
  intros IV V TP H evs pre n old new post E1 E2 Hnec Hg.
  destruct (pl_events _ _ (passS_log s s' IV V TP H) evs pre _ post n E1 E2 eq_refl Hnec Hg) as (A & B & C). auto.
Qed.

(* C03 *)
Theorem passS_once s s' :
  Inv s -> ValInvB s -> Tplain s -> stabilize [] false s = Ok (s', None) ->
  forall evs pre e mid e' post n, log s' = evs ++ log s -> evs = pre ++ e :: mid ++ e' :: post ->
    ev_node e = Some n -> ev_node e' = Some n -> EvNec n ∈ mid.
Proof. intros IV V TP H. exact (pl_once _ _ (passS_log s s' IV V TP H)). Qed.

Theorem passS_runs s s' :
  Inv s -> ValInvB s -> Tplain s -> stabilize [] false s = Ok (s', None) ->
  let k := stabNum s in
  forall evs, log s' = evs ++ log s ->
  (* (a) an event of the current period of necessity of a node registered at the end: it ran *)
  (forall pre e post n, evs = pre ++ e :: post -> ev_node e = Some n -> EvNec n ∉ pre ->
     inGraph (nd s' n) = true -> recomputedAt (nd s' n) = k) /\
  (* (c) a registered node one of whose inputs changed in this pass ran; nothing but Always nodes
         is left stale *)
  (forall n p, inGraph (nd s' n) = true -> p ∈ parents (nd s' n) -> changedAt (nd s' p) = k ->
     recomputedAt (nd s' n) = k) /\
  (forall n, inGraph (nd s' n) = true -> isStale s' n = true -> nkind (nd s' n) = KAlways) /\
  (* (d) a node that stayed registered throughout and did not run keeps its value and stamps *)
  (forall n, inGraph (nd s' n) = true -> EvNec n ∉ evs -> recomputedAt (nd s' n) <> k ->
     value (nd s' n) = value (nd s n) /\ recomputedAt (nd s' n) = recomputedAt (nd s n) /\
     changedAt (nd s' n) = changedAt (nd s n)).
Proof.
  intros IV V TP H k evs E. pose proof (passS_log s s' IV V TP H) as PL.
  split; [|split; [exact (pl_owed _ _ PL)|split; [exact (pl_stale _ _ PL)|]]].
  - intros pre e post n E2 Hn Hnec Hg. exact (proj1 (pl_events _ _ PL evs pre e post n E E2 Hn Hnec Hg)).
  - intros n Hg Hnec Hr. exact (pl_keep _ _ PL evs n E Hg Hnec Hr).
Qed.

(** * Example: a node that runs twice in one pass.
    Var 0, [Map 1] over it; binds 4/5 over var 2 with cases [1; Return 0] and 6/7 over var 3 with
    cases [Return 0; 1], both observed.  After the first pass node 1 is the right-hand side of
    bind 4.  Then all three vars are set: in the next pass node 1 runs (its input changed), bind 4
    swaps away from it (node 1 becomes unnecessary), bind 6 swaps to it (necessary again, stamps
    reset, stale): it runs a second time. *)
Definition exD_ops : list op :=
  [ NewVar 1 false; NewMap (Aff 1 1) 0%nat; NewVar 0 false; NewVar 0 false;
    NewBind [TOuter 1%nat; TRet 0] 2%nat; NewBind [TRet 0; TOuter 1%nat] 3%nat;
    Observe 5%nat; Observe 7%nat; Stabilize []; SetVar 0%nat 5; SetVar 2%nat 1; SetVar 3%nat 1 ].
Definition exD_mid : list event :=
  [EvInval 10; EvUnnec 10; EvNec 0; EvNec 1; EvBindFn 6 1 (Some 1%nat); EvUnnec 0; EvUnnec 1;
   EvNec 11; EvBindFn 4 1 (Some 11%nat)].

Lemma exD_run : exists s s', histB_run (init 64) exD_ops = Some s /\ stabilize [] false s = Ok (s', None) /\
  Inv s /\ ValInvB s /\ Tplain s /\
  log s' = (take 11 (log s') ++ EvInvoked 1 [5] 6 :: exD_mid ++ EvInvoked 1 [5] 6 :: [EvPassStart]) ++ log s /\
  EvNec 1%nat ∉ take 11 (log s') /\ inGraph (nd s' 1%nat) = true.
Proof.
  assert (Hc : match histB_run (init 64) exD_ops with
               | Some s => match stabilize [] false s with
                           | Ok (s', None) =>
                             bool_decide (log s' = (take 11 (log s') ++ EvInvoked 1 [5] 6 :: exD_mid ++
                                                    EvInvoked 1 [5] 6 :: [EvPassStart]) ++ log s) &&
                             bool_decide (EvNec 1%nat ∉ take 11 (log s')) && inGraph (nd s' 1%nat)
                           | _ => false
                           end
               | None => false
               end = true) by (vm_compute; reflexivity).
  destruct (histB_run (init 64) exD_ops) as [s|] eqn:E; [|discriminate Hc].
  destruct (stabilize [] false s) as [[s' [e|]]| |] eqn:E2; try discriminate Hc.
  apply andb_true_iff in Hc as [Hc Hc3]. apply andb_true_iff in Hc as [Hc Hc2].
  apply bool_decide_eq_true in Hc. apply bool_decide_eq_true in Hc2. exists s, s'. split; [reflexivity|]. split; [exact E2|].
  assert (TP0 : Tplain (init 64)) by (intros b r Hr; inversion Hr).
  destruct (histB_inv exD_ops (init 64) s (Inv_init 64 ltac:(lia)) (ValInvB_init 64) TP0 eq_refl E) as (I1 & V1 & T1 & _).
  auto 10.
Qed.
