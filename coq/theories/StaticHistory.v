(** Histories of the bind-free fragment from [init]: wf-prover's structural invariant
    ([EngineInv.Inv], clean histories) and pass-prover's value invariant ([PassInv.ValInv],
    [static_run]) combined, so that the per-pass theorems C01, C02, C03 (serial) and C04
    (serial = parallel) hold along whole histories with NO [wfb] hypothesis. *)
From stdpp Require Import sorting.
From incr Require Import Base Heap HeapSpec HeapProofs EngineDefs Engine EngineRun EngineWf Spec Par ParProofs.
From incr Require Import EngineLemmas EngineLocal EngineInv EngineInvProofs PassInv PassProofs PassPlanProofs ParSerial.
From incr Require Import StructCongruence.

Local Ltac inv H := inversion H; subst; clear H.

(** * The history predicate: the common alphabet, every operation well-formed ([op_ok]), clean in
    wf-prover's sense ([op_clean]: top-level operands, [AddInput n a] with [a < n]) and successful
    with no error result *)
Definition hist_op (s : state) (o : op) : bool := static_op o && op_ok s o && op_clean s o.

Fixpoint hist_run (s : state) (os : list op) : option state :=
  match os with
  | [] => Some s
  | o :: os =>
    if hist_op s o then
      match step s o with
      | Ok (s1, None) => hist_run s1 os
      | _ => None
      end
    else None
  end.

Lemma hist_run_app os1 : forall s os2,
  hist_run s (os1 ++ os2) = match hist_run s os1 with Some s1 => hist_run s1 os2 | None => None end.
Proof.
  induction os1 as [|o os1 IH]; intros s os2; [reflexivity|]. cbn [app hist_run].
  destruct (hist_op s o); [|reflexivity]. destruct (step s o) as [[s1 [e|]]| |]; try reflexivity. apply IH.
Qed.

Lemma static_nobind o : static_op o = true -> op_nobind o = true.
Proof. destruct o; try reflexivity; discriminate. Qed.

(** one operation of such a history keeps both invariants *)
Lemma hist_step s o s1 :
  Inv s -> ValInv s -> hist_op s o = true -> step s o = Ok (s1, None) ->
  Inv s1 /\ ValInv s1 /\ wfb s1 = true.
Proof.
  intros HI V Ho Hs. unfold hist_op in Ho. rewrite !andb_true_iff in Ho. destruct Ho as [[Hst Hok] Hcl].
  assert (Hrc : run_clean s [o] = Some s1).
  { cbn [run_clean]. rewrite Hok, Hcl, Hs. reflexivity. }
  destruct (Inv_run_clean_bindfree_from s [o] s1 HI (proj1 (vi_bf _ V))) as [HI1 _]; [|exact Hrc|].
  { cbn. rewrite (static_nobind o Hst). reflexivity. }
  pose proof (Inv_wfb _ HI1) as Hwf1. split; [exact HI1|]. split; [|exact Hwf1].
  exact (step_ValInv s o s1 (Inv_wfb _ HI) V Hst Hok Hs Hwf1).
Qed.

Lemma hist_inv os : forall s s', Inv s -> ValInv s -> hist_run s os = Some s' ->
  Inv s' /\ ValInv s' /\ static_run s os s'.
Proof.
  induction os as [|o os IH]; intros s s' HI V H; cbn [hist_run] in H.
  - injection H as <-. split; [exact HI|]. split; [exact V|constructor].
  - destruct (hist_op s o) eqn:Ho; [|discriminate].
    destruct (step s o) as [[s1 [e|]]| |] eqn:Es; try discriminate.
    destruct (hist_step s o s1 HI V Ho Es) as (HI1 & V1 & Hwf1).
    destruct (IH s1 s' HI1 V1 H) as (HI' & V' & R). split; [exact HI'|]. split; [exact V'|].
    unfold hist_op in Ho. rewrite !andb_true_iff in Ho. destruct Ho as [[Hst Hok] _].
    econstructor; eauto.
Qed.

Lemma init_inv mh : (0 < mh)%nat -> Inv (init mh) /\ ValInv (init mh).
Proof. intros H. split; [apply Inv_init, H|apply ValInv_init]. Qed.

(** the pass at a boundary of the history, as a serial pass without a plan *)
Lemma hist_pass s o s2 : hist_op s o = true -> is_pass o = true -> step s o = Ok (s2, None) ->
  stabilize [] false s = Ok (s2, None).
Proof.
  intros Ho Hp Hs. unfold hist_op in Ho. rewrite !andb_true_iff in Ho. destruct Ho as [[Hst _] _].
  destruct o; try discriminate Hp; try discriminate Hst; cbn [step] in Hs.
  - apply bool_decide_eq_true in Hst. subst p. exact Hs.
  - apply stabilize_cancelled_ok, Hs.
Qed.

(** the state before and after the pass at position [os1] of the history *)
Lemma hist_boundary mh os1 o os2 sf :
  (0 < mh)%nat -> hist_run (init mh) (os1 ++ o :: os2) = Some sf -> is_pass o = true ->
  exists s1 s2, hist_run (init mh) os1 = Some s1 /\ step s1 o = Ok (s2, None) /\ hist_run s2 os2 = Some sf /\
                Inv s1 /\ ValInv s1 /\ stabilize [] false s1 = Ok (s2, None).
Proof.
  intros Hmh H Hp. rewrite hist_run_app in H. destruct (hist_run (init mh) os1) as [s1|] eqn:E1; [|discriminate].
  cbn [hist_run] in H. destruct (hist_op s1 o) eqn:Ho; [|discriminate].
  destruct (step s1 o) as [[s2 [e|]]| |] eqn:Es; try discriminate.
  destruct (init_inv mh Hmh) as [HI0 V0]. destruct (hist_inv os1 _ _ HI0 V0 E1) as (HI1 & V1 & _).
  exists s1, s2. split; [reflexivity|]. split; [exact Es|]. split; [exact H|]. split; [exact HI1|]. split; [exact V1|].
  exact (hist_pass s1 o s2 Ho Hp Es).
Qed.

(** * The per-pass theorems along a history *)

(** C01: after every pass of the history every registered node is locally consistent, every
    observer reads [Spec.eval] of its node, and both invariants hold *)
Theorem C01_history mh os1 o os2 sf :
  (0 < mh)%nat -> hist_run (init mh) (os1 ++ o :: os2) = Some sf -> is_pass o = true ->
  exists s1 s2, hist_run (init mh) os1 = Some s1 /\ step s1 o = Ok (s2, None) /\
    consistent s2 = true /\ observers_agree s2 = true /\ wfb s2 = true /\ ValInv s2.
Proof.
  intros Hmh H Hp. destruct (hist_boundary mh os1 o os2 sf Hmh H Hp) as (s1 & s2 & E1 & Es & _ & HI1 & V1 & Hpass).
  exists s1, s2. split; [exact E1|]. split; [exact Es|].
  destruct (pass_all s1 s2 (Inv_wfb _ HI1) V1 Hpass) as (A & B & C & D). auto.
Qed.

(** every boundary (not only after passes): the structural and the value invariant *)
Theorem history_invariants mh os s :
  (0 < mh)%nat -> hist_run (init mh) os = Some s -> wfb s = true /\ ValInv s /\ Inv s.
Proof.
  intros Hmh H. destruct (init_inv mh Hmh) as [HI0 V0]. destruct (hist_inv os _ _ HI0 V0 H) as (HI & V & _).
  split; [apply Inv_wfb, HI|auto].
Qed.

(** C02: every invocation of a node function in any pass of the history saw the values its inputs
    hold when that pass returns *)
Theorem C02_history mh os1 o os2 sf :
  (0 < mh)%nat -> hist_run (init mh) (os1 ++ o :: os2) = Some sf -> is_pass o = true ->
  exists s1 s2, hist_run (init mh) os1 = Some s1 /\ step s1 o = Ok (s2, None) /\
    forall evs n args r, log s2 = evs ++ log s1 -> EvInvoked n args r ∈ evs ->
      args = map (valueOf s2) (decl (nd s2 n)) /\ r = value (nd s2 n) /\ recomputedAt (nd s2 n) = stabNum s1.
Proof.
  intros Hmh H Hp. destruct (hist_boundary mh os1 o os2 sf Hmh H Hp) as (s1 & s2 & E1 & Es & _ & HI1 & V1 & Hpass).
  exists s1, s2. split; [exact E1|]. split; [exact Es|]. exact (pass_args_final s1 s2 (Inv_wfb _ HI1) V1 Hpass).
Qed.

(** C03: in every pass of the history exactly the owed nodes ran, each once *)
Theorem C03_history mh os1 o os2 sf :
  (0 < mh)%nat -> hist_run (init mh) (os1 ++ o :: os2) = Some sf -> is_pass o = true ->
  exists s1 s2, hist_run (init mh) os1 = Some s1 /\ step s1 o = Ok (s2, None) /\
    let k := stabNum s1 in
    forall evs, log s2 = evs ++ log s1 ->
    (forall e n, e ∈ evs -> ev_node e = Some n -> recomputedAt (nd s2 n) = k) /\
    (forall n, recomputedAt (nd s2 n) = k ->
       inGraph (nd s1 n) = true /\
       (n ∈ Heap.ids (heap s1) \/ exists p, p ∈ parents (nd s1 n) /\ changedAt (nd s2 p) = k)) /\
    NoDup (invoked_of evs) /\
    (forall n, inGraph (nd s1 n) = true ->
       (isStale s1 n = true \/ n ∈ Heap.ids (heap s1) \/
        exists p, p ∈ parents (nd s1 n) /\ changedAt (nd s2 p) = k) ->
       recomputedAt (nd s2 n) = k) /\
    (forall n, recomputedAt (nd s2 n) <> k ->
       value (nd s2 n) = value (nd s1 n) /\ recomputedAt (nd s2 n) = recomputedAt (nd s1 n)
       /\ changedAt (nd s2 n) = changedAt (nd s1 n)).
Proof.
  intros Hmh H Hp. destruct (hist_boundary mh os1 o os2 sf Hmh H Hp) as (s1 & s2 & E1 & Es & _ & HI1 & V1 & Hpass).
  exists s1, s2. split; [exact E1|]. split; [exact Es|]. exact (pass_runs_owed s1 s2 (Inv_wfb _ HI1) V1 Hpass).
Qed.

(** C04: at every pass boundary of the history, running that pass with ParallelStabilize (any
    fair schedule of the blocks) instead succeeds and gives the same node records, observers,
    registry, counters and update events *)
Theorem C04_history mh os1 o os2 sf sched :
  (0 < mh)%nat -> hist_run (init mh) (os1 ++ o :: os2) = Some sf -> is_pass o = true -> fair sched ->
  exists s1 s2 s2', hist_run (init mh) os1 = Some s1 /\ step s1 o = Ok (s2, None) /\
    parStabilizeS sched [] s1 = Ok (s2', None) /\
    nodes s2 = nodes s2' /\ obs s2 = obs s2' /\ reg s2 = reg s2' /\ numNodes s2 = numNodes s2' /\
    binds s2 = binds s2' /\ next s2 = next s2' /\ stabNum s2 = stabNum s2' /\ status s2 = status s2' /\
    handlers s2 = handlers s2' /\ updEvents s2 ≡ₚ updEvents s2'.
Proof.
  intros Hmh H Hp F. destruct (hist_boundary mh os1 o os2 sf Hmh H Hp) as (s1 & s2 & E1 & Es & _ & HI1 & V1 & Hpass).
  destruct (serial_parallel_any_schedule sched s1 s2 F (Inv_wfb _ HI1) V1 Hpass) as (s2' & H2 & R).
  exists s1, s2, s2'. auto.
Qed.

(** * Histories in which some passes are run by ParallelStabilize *)

(** the heap of the second run: well-formed, with a tight cursor, holding registered nodes at
    their heights *)
Definition QB (s : state) : Prop :=
  HeapSpec.inv (heap s) /\ cursor_ok (heap s) /\
  forall x, x ∈ Heap.ids (heap s) -> inGraph (nd s x) = true /\ Heap.hinOf (heap s) x = height (nd s x).

Lemma PassRes_QB s e : PassRes s e -> QB e.
Proof.
  intros [(sL & X & _ & _ & _ & OX & -> & I & Hids & Hhin & Hc)].
  assert (Hnd : forall x, nd (finish X) x = nd sL x) by (intros x; apply ParProofs.nd_ext; cbn; apply (oh_nodes _ _ OX)).
  split; [exact I|]. split; [exact Hc|]. intros x Hx. change (heap (finish X)) with (heap X) in *.
  rewrite Hnd. split; [apply (Hids x), Hx|apply (Hhin x Hx)].
Qed.

Lemma ObsEq_state sA sB : ObsEq sA sB -> sB = sA <| heap := heap sB |> <| log := log sB |>.
Proof. intros []. apply state_ext; cbn; congruence. Qed.

Lemma ObsEq_inHeap sA sB x : HeapSpec.inv (heap sA) -> HeapSpec.inv (heap sB) -> ObsEq sA sB -> inHeap sB x = inHeap sA x.
Proof.
  intros IA IB Q. apply eq_true_iff_eq. rewrite (inHeap_iff0 sB x IB), (inHeap_iff0 sA x IA). symmetry. apply (oe_queued _ _ Q).
Qed.

Lemma transfer sA sB : wfb sA = true -> ValInv sA -> ObsEq sA sB -> QB sB -> wfb sB = true /\ ValInv sB.
Proof.
  intros Hwf V Q (IB & CB & HqB).
  destruct (wfb_queued sA Hwf) as [IA HqA].
  pose proof (ObsEq_state sA sB Q) as Es.
  assert (Hn : nodes sB = nodes sA) by (symmetry; apply (oe_nodes _ _ Q)).
  assert (Hnd : forall x, nd sB x = nd sA x) by (intros x; apply ParProofs.nd_ext, Hn).
  assert (Hih : forall x, inHeap sB x = inHeap sA x) by (intros x; apply (ObsEq_inHeap sA sB x IA IB Q)).
  destruct (wfb_all _ Hwf) as (W1 & W2 & W3 & W4 & W5 & W6 & W7 & W8 & W9 & W10).
  assert (Hwf' : wfb sB = true).
  { apply wfb_intro.
    - rewrite Es. exact W1.
    - apply (wt_unreg sA sB); [intros n; rewrite Hnd; reflexivity|intros n; unfold has; rewrite Hn; reflexivity|
        symmetry; apply (oe_next _ _ Q)|exact W2|].
      intros n Hq. apply (inHeap_iff0 sB n IB) in Hq. apply (HqB n Hq).
    - rewrite Es. exact W3.
    - rewrite Es. exact W4.
    - rewrite Es. exact W5.
    - unfold queued_ok. apply andb_true_iff. split; [apply heap_inv_b_complete; assumption|].
      apply forallb_intro. intros x Hx. destruct (HqB x Hx) as [-> ->]. cbn. apply Z.eqb_refl.
    - rewrite Es. exact W7.
    - rewrite Es. exact W8.
    - rewrite Es. exact W9.
    - rewrite Es. exact W10. }
  split; [exact Hwf'|].
  destruct V as [VB VS VU VO VC]. constructor.
  - destruct VB as [B1 B2]. split; [rewrite <- (oe_binds _ _ Q); exact B1|].
    intros n x Hx. rewrite Hn in Hx. pose proof (B2 n x Hx) as Hb. unfold bf_node in *. rewrite <- (oe_next _ _ Q). exact Hb.
  - intros n. unfold stamps_node. rewrite Hnd, <- (oe_stabNum _ _ Q). apply VS.
  - intros n. rewrite Hnd. apply VU.
  - intros n. rewrite Hnd, Hih, (isStale_nodes sA sB n Hn). apply VO.
  - intros n. rewrite Hnd, Hih.
    rewrite (guarded_ext sA sB None None n Hn (eq_sym (oe_stabNum _ _ Q))) by (intros x; unfold inW; rewrite Hih; reflexivity).
    rewrite (node_consistent_nodes sA sB n Hn (bf_kind sA VB n)). apply VC.
Qed.

Definition Rel (sA sB : state) : Prop := ObsEq sA sB /\ QB sB.

Lemma hist_op_ext sA sB o : nodes sB = nodes sA -> obs sB = obs sA -> binds sB = binds sA -> hist_op sB o = hist_op sA o.
Proof.
  intros Hn Ho Hb. unfold hist_op. destruct (static_op o) eqn:Es; [|reflexivity]. cbn [andb].
  destruct o; try discriminate Es; cbn [op_ok op_clean];
    unfold isUserNode, isVar, isMapN, isTop, plan_ok; rewrite ?Hn, ?Ho; try reflexivity.
  all: try (cbn in Es; apply bool_decide_eq_true in Es; subst p; reflexivity).
  all: try (f_equal; [apply forallb_ext; intros x _; unfold isUserNode; rewrite Hn; reflexivity|
                      apply forallb_ext; intros x _; unfold isTop; rewrite Hn; reflexivity]).
Qed.

(** ** the steady-state operations respect the relation *)
Lemma Rel_newNode sA sB k d v : wfb sA = true -> ValInv sA -> Rel sA sB ->
  Rel (newNode sA k d None v).1 (newNode sB k d None v).1.
Proof.
  intros Hwf V [Q (IB & CB & HqB)]. unfold newNode. cbn [fst].
  pose proof (oe_nodes _ _ Q) as Hn. pose proof (oe_next _ _ Q) as Hx. split.
  - destruct Q. constructor; cbn; try assumption; try congruence.
  - split; [exact IB|]. split; [exact CB|]. intros x Hq. destruct (HqB x Hq) as [Hg Hh].
    assert (Hlt : (x < next sB)%nat).
    { rewrite <- Hx. apply (bf_has_lt sA (vi_bf _ V)). apply has_inGraph.
      rewrite (ParProofs.nd_ext sA sB x Hn). exact Hg. }
    assert (Hnd : nd (sB <| nodes := <[next sB:=fresh_node k d None v]> (nodes sB) |> <| next := S (next sB) |>) x = nd sB x).
    { unfold nd; cbn. rewrite lookup_insert_ne by lia. reflexivity. }
    cbn [heap set] in *. rewrite Hnd. auto.
Qed.

Lemma Rel_upd sA sB v f : (forall y, inGraph (f y) = inGraph y /\ height (f y) = height y) ->
  Rel sA sB -> Rel (upd sA v f) (upd sB v f).
Proof.
  intros Hf [Q (IB & CB & HqB)]. split.
  - destruct Q. constructor; cbn; try assumption. congruence.
  - split; [exact IB|]. split; [exact CB|]. intros x Hq. destruct (HqB x Hq) as [Hg Hh].
    rewrite (ParProofs.nd_upd_proj inGraph), (ParProofs.nd_upd_proj height) by (intros; apply Hf). auto.
Qed.

Lemma Rel_nd sA sB x : Rel sA sB -> nd sB x = nd sA x.
Proof. intros [Q _]. symmetry. apply ParProofs.nd_ext, (oe_nodes _ _ Q). Qed.

Lemma Rel_setStale sA sB v sA1 : HeapSpec.inv (heap sA) -> Rel sA sB -> inGraph (nd sA v) = true ->
  setStale sA v = Ok sA1 -> exists sB1, setStale sB v = Ok sB1 /\ Rel sA1 sB1.
Proof.
  intros IA R Hnec H. unfold setStale in *. rewrite (Rel_nd sA sB v R).
  destruct (height (nd sA v) =? unset); [injection H as <-; eauto|].
  destruct R as [Q QB0]. rewrite <- (oe_stabNum _ _ Q).
  assert (R3 : Rel (upd sA v (set setAt (fun _ => stabNum sA))) (upd sB v (set setAt (fun _ => stabNum sA)))).
  { apply Rel_upd; [intros y; split; reflexivity|split; assumption]. }
  set (sA3 := upd sA v (set setAt (fun _ => stabNum sA))) in *. set (sB3 := upd sB v (set setAt (fun _ => stabNum sA))) in *.
  destruct R3 as [Q3 (IB & CB & HqB)].
  assert (Hih : inHeap sB3 v = inHeap sA3 v) by (apply (ObsEq_inHeap sA3 sB3 v IA IB Q3)).
  rewrite Hih. destruct (inHeap sA3 v) eqn:Em.
  - injection H as <-. exists sB3. split; [reflexivity|]. split; [exact Q3|]. split; [exact IB|split; assumption].
  - apply heapAdd_inv in H as (wA & EA & ->).
    destruct (add_shape _ _ _ _ EA) as (Hh & _).
    assert (HhB : height (nd sB3 v) = height (nd sA3 v)) by (rewrite (Rel_nd sA3 sB3 v (conj Q3 (conj IB (conj CB HqB)))); reflexivity).
    assert (EmB : Heap.mem (heap sB3) v = false) by exact Hih.
    destruct (heap_add_spec (heap sB3) v (height (nd sB3 v)) IB EmB ltac:(rewrite HhB; exact Hh)) as (wB & EB & IwB & PB & HinB).
    destruct (heap_add_spec (heap sA3) v (height (nd sA3 v)) IA Em Hh) as (wA' & EA' & IwA & PA & _).
    assert (wA' = wA) as -> by congruence.
    exists (sB3 <| heap := wB |>). split; [unfold heapAdd; rewrite EB; reflexivity|]. split.
    + pose proof (oe_queued _ _ Q3) as Hqq. destruct Q3. constructor; cbn; try assumption. intros x. rewrite PA, PB, !elem_of_cons, (Hqq x). reflexivity.
    + split; [exact IwB|]. split; [apply (cursor_add _ _ _ _ IB CB EB)|].
      intros x Hx. cbn [heap set] in *. change (nd (sB3 <| heap := wB |>) x) with (nd sB3 x).
      rewrite PB in Hx. rewrite HinB. apply elem_of_cons in Hx as [->|Hx].
      * rewrite decide_True by reflexivity. split; [|reflexivity].
        rewrite (Rel_nd sA3 sB3 v (conj Q3 (conj IB (conj CB HqB)))).
        unfold sA3. rewrite (ParProofs.nd_upd_proj inGraph) by reflexivity. exact Hnec.
      * destruct (decide (x = v)) as [->|]; [|apply HqB, Hx].
        split; [apply HqB, Hx|reflexivity].
Qed.

Lemma Rel_varSet sA sB v x sA1 : wfb sA = true -> BF sA -> Rel sA sB ->
  varSet sA v x = Ok sA1 -> exists sB1, varSet sB v x = Ok sB1 /\ Rel sA1 sB1.
Proof.
  intros Hwf HBF R H. destruct (wfb_transients sA Hwf) as (Hst & _).
  unfold varSet in *. rewrite (Rel_nd sA sB v R). rewrite <- (oe_status _ _ (proj1 R)), Hst in *.
  destruct (_ && _ && _); [injection H as <-; eauto|]. cbn [Z.eqb] in *.
  assert (R2 : Rel (upd sA v (set value (fun _ => x))) (upd sB v (set value (fun _ => x)))).
  { apply Rel_upd; [intros y; split; reflexivity|exact R]. }
  rewrite (Rel_nd _ _ v R2).
  destruct (isNecessary (nd (upd sA v (set value (fun _ => x))) v)) eqn:En; [|injection H as <-; eauto].
  apply (Rel_setStale (upd sA v (set value (fun _ => x))) (upd sB v (set value (fun _ => x))) v sA1 (proj1 (wfb_queued sA Hwf)) R2); [|exact H].
  rewrite (ParProofs.nd_upd_proj inGraph) by reflexivity. rewrite (st_nec _ (wfb_Struct sA Hwf HBF) v).
  rewrite <- En. symmetry. apply isNecessary_ext; apply (ParProofs.nd_upd_proj _); reflexivity.
Qed.

Lemma Rel_varUpdate sA sB v d sA1 : wfb sA = true -> BF sA -> Rel sA sB ->
  varUpdate sA v d = Ok sA1 -> exists sB1, varUpdate sB v d = Ok sB1 /\ Rel sA1 sB1.
Proof. intros Hwf HBF R H. unfold varUpdate in *. rewrite (Rel_nd sA sB v R). apply (Rel_varSet sA sB v _ sA1); assumption. Qed.

(** ** mixed histories *)
Definition steady_op (o : op) : bool :=
  match o with
  | NewVar _ _ | NewReturn _ | NewMap _ _ | NewMap2 _ _ _ | NewMapN _ _ | NewCutoff _ _ | NewAlways _
  | SetVar _ _ | UpdateVar _ _ => true
  | Stabilize p => bool_decide (p = [])
  | _ => false
  end.

(** [os'] is [os] with some of its [Stabilize []] replaced by [ParStabilize []] *)
Inductive par_variant : list op -> list op -> Prop :=
| pv_nil : par_variant [] []
| pv_same o os os' : par_variant os os' -> par_variant (o :: os) (o :: os')
| pv_par os os' : par_variant os os' -> par_variant (Stabilize [] :: os) (ParStabilize [] :: os').

(** the histories covered: any common prefix, then a first replaced pass, then only
    steady-state operations (node creation, Set / Update, passes of either kind) *)
Inductive mixed : list op -> list op -> Prop :=
| mx_nil : mixed [] []
| mx_same o os os' : mixed os os' -> mixed (o :: os) (o :: os')
| mx_par os os' : forallb steady_op os = true -> par_variant os os' ->
                  mixed (Stabilize [] :: os) (ParStabilize [] :: os').

Definition mixed_op (s : state) (o : op) : bool :=
  match o with ParStabilize p => bool_decide (p = []) | _ => hist_op s o end.

Fixpoint mixed_run (s : state) (os : list op) : option state :=
  match os with
  | [] => Some s
  | o :: os =>
    if mixed_op s o then
      match step s o with
      | Ok (s1, None) => mixed_run s1 os
      | _ => None
      end
    else None
  end.

Definition parify (o : op) : op := match o with Stabilize [] => ParStabilize [] | _ => o end.

Lemma step_agree sA sB o o' sA1 sB1 :
  wfb sA = true -> ValInv sA -> Rel sA sB -> steady_op o = true ->
  (o' = o \/ (o = Stabilize [] /\ o' = ParStabilize [])) ->
  step sA o = Ok (sA1, None) -> step sB o' = Ok (sB1, None) -> Rel sA1 sB1.
Proof.
  intros Hwf V R Hs Ho HA HB. pose proof (vi_bf _ V) as HBF.
  assert (Hpass : forall eA eB, PassRes sA eA -> PassRes sB eB -> Rel eA eB).
  { intros eA eB PA PB. split; [apply (PassRes_agree sA sB eA eB Hwf V (proj1 R) PA PB)|apply (PassRes_QB sB eB PB)]. }
  destruct (transfer sA sB Hwf V (proj1 R) (proj2 R)) as [HwfB VB].
  destruct Ho as [->|[-> ->]].
  - destruct o; try discriminate Hs; cbn [step] in HA, HB.
    1-7: apply ok_inv in HA as [-> _]; apply ok_inv in HB as [-> _]; apply Rel_newNode; assumption.
    + apply lift_inv in HA as [HA _]. apply lift_inv in HB as [HB _].
      destruct (Rel_varSet sA sB v x sA1 Hwf HBF R HA) as (sB1' & HB' & R'). congruence.
    + apply lift_inv in HA as [HA _]. apply lift_inv in HB as [HB _].
      destruct (Rel_varUpdate sA sB v d sA1 Hwf HBF R HA) as (sB1' & HB' & R'). congruence.
    + apply bool_decide_eq_true in Hs. subst p.
      apply Hpass; [apply (serial_PassRes sA sA1 Hwf V HA)|apply (serial_PassRes sB sB1 HwfB VB HB)].
  - cbn [step] in HA, HB. destruct (parallel_PassRes sB HwfB VB) as (s2 & H2 & P2).
    assert (s2 = sB1) as -> by congruence.
    apply Hpass; [apply (serial_PassRes sA sA1 Hwf V HA)|exact P2].
Qed.

Lemma mixed_op_hist s o : (forall p, o <> ParStabilize p) -> mixed_op s o = hist_op s o.
Proof. intros H. destruct o; try reflexivity. exfalso. eapply H. reflexivity. Qed.

Lemma steady_agree os os' : par_variant os os' -> forall sA sB sA' sB',
  forallb steady_op os = true -> Inv sA -> ValInv sA -> Rel sA sB ->
  hist_run sA os = Some sA' -> mixed_run sB os' = Some sB' -> Rel sA' sB'.
Proof.
  induction 1 as [|o os os' Hp IH|os os' Hp IH]; intros sA sB sA' sB' Hst HI V R HA HB.
  - injection HA as <-. injection HB as <-. exact R.
  - cbn [forallb] in Hst. apply andb_true_iff in Hst as [Hso Hst].
    cbn [hist_run mixed_run] in HA, HB.
    destruct (hist_op sA o) eqn:EoA; [|discriminate]. destruct (step sA o) as [[sA1 [e|]]| |] eqn:EsA; try discriminate.
    destruct (mixed_op sB o) eqn:EoB; [|discriminate]. destruct (step sB o) as [[sB1 [e|]]| |] eqn:EsB; try discriminate.
    destruct (hist_step sA o sA1 HI V EoA EsA) as (HI1 & V1 & _).
    apply (IH sA1 sB1 sA' sB' Hst HI1 V1); [|exact HA|exact HB].
    apply (step_agree sA sB o o sA1 sB1 (Inv_wfb _ HI) V R Hso (or_introl eq_refl) EsA EsB).
  - cbn [forallb] in Hst. apply andb_true_iff in Hst as [Hso Hst].
    cbn [hist_run mixed_run] in HA, HB.
    destruct (hist_op sA (Stabilize [])) eqn:EoA; [|discriminate].
    destruct (step sA (Stabilize [])) as [[sA1 [e|]]| |] eqn:EsA; try discriminate.
    destruct (mixed_op sB (ParStabilize [])) eqn:EoB; [|discriminate].
    destruct (step sB (ParStabilize [])) as [[sB1 [e|]]| |] eqn:EsB; try discriminate.
    destruct (hist_step sA _ sA1 HI V EoA EsA) as (HI1 & V1 & _).
    apply (IH sA1 sB1 sA' sB' Hst HI1 V1); [|exact HA|exact HB].
    apply (step_agree sA sB (Stabilize []) (ParStabilize []) sA1 sB1 (Inv_wfb _ HI) V R eq_refl (or_intror (conj eq_refl eq_refl)) EsA EsB).
Qed.

Lemma Rel_refl s : wfb s = true -> Rel s s.
Proof.
  intros Hwf. split; [apply ObsEq_refl|]. destruct (wfb_queued s Hwf) as [I Hq]. split; [exact I|]. split; [|exact Hq].
  destruct (wfb_all _ Hwf) as (_ & _ & _ & _ & _ & Hqo & _). unfold queued_ok in Hqo.
  apply andb_true_iff in Hqo as [Hqo _]. exact (heap_inv_b_cursor _ Hqo).
Qed.

(** C04 along histories: the all-serial history and a mixed one agree whenever both run *)
Theorem mixed_agree os os' : mixed os os' -> forall s sA sB, Inv s -> ValInv s ->
  hist_run s os = Some sA -> mixed_run s os' = Some sB -> ObsEq sA sB.
Proof.
  induction 1 as [|o os os' Hm IH|os os' Hst Hp]; intros s sA sB HI V HA HB.
  - injection HA as <-. injection HB as <-. apply ObsEq_refl.
  - cbn [hist_run mixed_run] in HA, HB.
    destruct (hist_op s o) eqn:Eo; [|discriminate].
    assert (EoB : mixed_op s o = true).
    { destruct o; try exact Eo. unfold hist_op in Eo. cbn in Eo. discriminate Eo. }
    rewrite EoB in HB. destruct (step s o) as [[s1 [e|]]| |] eqn:Es; try discriminate.
    destruct (hist_step s o s1 HI V Eo Es) as (HI1 & V1 & _). apply (IH s1 sA sB HI1 V1 HA HB).
  - apply (steady_agree (Stabilize [] :: os) (ParStabilize [] :: os') (pv_par _ _ Hp) s s sA sB);
      [cbn [forallb steady_op]; rewrite Hst; reflexivity|exact HI|exact V|apply Rel_refl, Inv_wfb, HI|exact HA|exact HB].
Qed.

Lemma hist_mixed_run os : forall s s', hist_run s os = Some s' -> mixed_run s os = Some s'.
Proof.
  induction os as [|o os IH]; intros s s' H; [exact H|]. cbn [hist_run mixed_run] in *.
  destruct (hist_op s o) eqn:Eo; [|discriminate].
  assert (EoB : mixed_op s o = true).
  { destruct o; try exact Eo. unfold hist_op in Eo. cbn in Eo. discriminate Eo. }
  rewrite EoB. destruct (step s o) as [[s1 [e|]]| |]; try discriminate. apply IH, H.
Qed.

Lemma mixed_run_app os1 : forall s os2,
  mixed_run s (os1 ++ os2) = match mixed_run s os1 with Some s1 => mixed_run s1 os2 | None => None end.
Proof.
  induction os1 as [|o os1 IH]; intros s os2; [reflexivity|]. cbn [app mixed_run].
  destruct (mixed_op s o); [|reflexivity]. destruct (step s o) as [[s1 [e|]]| |]; try reflexivity. apply IH.
Qed.

(** switching to ParallelStabilize for every pass from some pass on always works *)
Lemma steady_exists os : forall sA sB sA', forallb steady_op os = true -> Inv sA -> ValInv sA -> Rel sA sB ->
  hist_run sA os = Some sA' -> exists sB', mixed_run sB (map parify os) = Some sB' /\ Rel sA' sB'.
Proof.
  induction os as [|o os IH]; intros sA sB sA' Hst HI V R HA.
  - injection HA as <-. exists sB. split; [reflexivity|exact R].
  - cbn [forallb] in Hst. apply andb_true_iff in Hst as [Hso Hst]. cbn [hist_run] in HA.
    destruct (hist_op sA o) eqn:EoA; [|discriminate]. destruct (step sA o) as [[sA1 [e|]]| |] eqn:EsA; try discriminate.
    destruct (hist_step sA o sA1 HI V EoA EsA) as (HI1 & V1 & _).
    pose proof (Inv_wfb _ HI) as Hwf. pose proof (vi_bf _ V) as HBF.
    destruct (transfer sA sB Hwf V (proj1 R) (proj2 R)) as [HwfB VB].
    assert (HopB : hist_op sB o = true).
    { rewrite (hist_op_ext sA sB o); [exact EoA|symmetry; apply (oe_nodes _ _ (proj1 R))|symmetry; apply (oe_obs _ _ (proj1 R))|symmetry; apply (oe_binds _ _ (proj1 R))]. }
    assert (Hstep : exists o' sB1, parify o = o' /\ (o' = o \/ (o = Stabilize [] /\ o' = ParStabilize [])) /\
                      mixed_op sB o' = true /\ step sB o' = Ok (sB1, None)).
    { destruct o; try discriminate Hso; cbn [parify].
      1-7: eexists _, _; split; [reflexivity|]; split; [left; reflexivity|]; split; [exact HopB|reflexivity].
      - apply lift_inv in EsA as [EsA _]. destruct (Rel_varSet sA sB v x sA1 Hwf HBF R EsA) as (sB1 & HB & _).
        exists (SetVar v x), sB1. split; [reflexivity|]. split; [left; reflexivity|]. split; [exact HopB|].
        cbn [step]. unfold lift. rewrite HB. reflexivity.
      - apply lift_inv in EsA as [EsA _]. destruct (Rel_varUpdate sA sB v d sA1 Hwf HBF R EsA) as (sB1 & HB & _).
        exists (UpdateVar v d), sB1. split; [reflexivity|]. split; [left; reflexivity|]. split; [exact HopB|].
        cbn [step]. unfold lift. rewrite HB. reflexivity.
      - apply bool_decide_eq_true in Hso. subst p. destruct (parallel_PassRes sB HwfB VB) as (s2 & H2 & _).
        exists (ParStabilize []), s2. split; [reflexivity|]. split; [right; auto|]. split; [reflexivity|exact H2]. }
    destruct Hstep as (o' & sB1 & Ep & Ho' & HmB & HsB). cbn [map mixed_run]. rewrite Ep, HmB, HsB.
    apply (IH sA1 sB1 sA' Hst HI1 V1); [|exact HA].
    apply (step_agree sA sB o o' sA1 sB1 Hwf V R Hso Ho' EsA HsB).
Qed.

Theorem switch_to_parallel pre suf : forall s sA, Inv s -> ValInv s -> forallb steady_op suf = true ->
  hist_run s (pre ++ suf) = Some sA ->
  exists sB, mixed_run s (pre ++ map parify suf) = Some sB /\ ObsEq sA sB.
Proof.
  intros s sA HI V Hst HA. rewrite hist_run_app in HA. destruct (hist_run s pre) as [s1|] eqn:E1; [|discriminate].
  destruct (hist_inv pre _ _ HI V E1) as (HI1 & V1 & _).
  destruct (steady_exists suf s1 s1 sA Hst HI1 V1 (Rel_refl s1 (Inv_wfb _ HI1)) HA) as (sB & HB & R).
  exists sB. rewrite mixed_run_app, (hist_mixed_run pre s s1 E1). split; [exact HB|apply R].
Qed.

(** every boundary: prefixes of a mixed pair are a mixed pair *)
Lemma par_variant_take os os' : par_variant os os' -> forall k, par_variant (take k os) (take k os').
Proof. induction 1; intros [|k]; cbn; constructor; auto. Qed.

Lemma forallb_take {A} (f : A -> bool) l k : forallb f l = true -> forallb f (take k l) = true.
Proof.
  revert k. induction l as [|a l IH]; intros [|k] H; cbn in *; auto.
  apply andb_true_iff in H as [-> H]. cbn. apply IH, H.
Qed.

Lemma mixed_take os os' : mixed os os' -> forall k, mixed (take k os) (take k os').
Proof.
  induction 1 as [|o os os' Hm IH|os os' Hst Hp]; intros [|k]; cbn; try constructor; auto.
  - apply forallb_take, Hst.
  - apply par_variant_take, Hp.
Qed.

Theorem mixed_agree_boundaries mh os os' k sA sB : (0 < mh)%nat -> mixed os os' ->
  hist_run (init mh) (take k os) = Some sA -> mixed_run (init mh) (take k os') = Some sB -> ObsEq sA sB.
Proof.
  intros Hmh Hm HA HB. destruct (init_inv mh Hmh) as [HI V].
  apply (mixed_agree _ _ (mixed_take os os' Hm k) (init mh) sA sB HI V HA HB).
Qed.

(** * Histories in which ANY subset of the passes is run by ParallelStabilize

    The structural congruence of the operations outside the passes ([StructCongruence.sim_step],
    with equal node records and the same queued SET) carries [ObsEq] across Observe, Unobserve,
    AddInput and RemoveInput as well; [PassPlanProofs.pass_total] and [parallel_pass_total] make
    the second run's passes succeed.  So the mixed history RUNS, and agrees at every boundary. *)

(** ** the operations outside the passes add no update events *)
Definition lframe (s s' : state) : Prop := exists L, log s' = L ++ log s /\ Forall passEv L.

Lemma lframe_same s s' : log s' = log s -> lframe s s'.
Proof. intros E. exists []. split; [exact E|constructor]. Qed.

Lemma lframe_hyps : frame_hyps lframe (fun _ _ => True) (fun _ => True).
Proof.
  split; try (intros; exact I); try (intros; apply lframe_same; reflexivity).
  - intros s1 s2 s3 (L1 & E1 & F1) (L2 & E2 & F2). exists (L2 ++ L1). split; [rewrite E2, E1, app_assoc; reflexivity|].
    apply Forall_app; auto.
  - intros s e He. exists [e]. split; [reflexivity|]. constructor; [exact He|constructor].
Qed.

Lemma lframe_trans s1 s2 s3 : lframe s1 s2 -> lframe s2 s3 -> lframe s1 s3.
Proof. apply (fh_trans _ _ _ lframe_hyps). Qed.

Lemma lframe_updEvents s s' : lframe s s' -> updEvents s' = updEvents s.
Proof.
  intros (L & E & F). unfold updEvents. rewrite E, list.filter_app.
  assert (filter (fun e => isUpdEv e = true) L = []) as ->; [|reflexivity].
  clear E. induction F as [|e L He F IH]; [reflexivity|]. rewrite filter_cons. destruct (decide (isUpdEv e = true)) as [Hu|_]; [|exact IH].
  destruct e; try discriminate Hu; destruct He.
Qed.

Lemma nonpass_lframe s o s' e : static_op o = true -> is_stab o = false -> step s o = Ok (s', e) -> lframe s s'.
Proof.
  intros Hso Hns H. destruct o; try discriminate Hso; try discriminate Hns; cbn [step] in H.
  1-7: apply ok_inv in H as [-> _]; apply (fr_newNode _ _ _ lframe_hyps).
  - unfold observe in H. match type of H with (if ?c then _ else _) = _ => destruct c end.
    + apply ok_inv in H as [-> _]. apply lframe_same. reflexivity.
    + apply ebind_inv in H as (s3 & e3 & E3 & [[-> H]|(Hne & -> & ->)]).
      * eapply lframe_trans; [|eapply lframe_trans].
        2: eapply (fr_becameNecessaryRecursive _ _ _ lframe_hyps); exact E3.
        -- apply lframe_same. reflexivity.
        -- apply lift_inv in H as [H _]. eapply (fr_propagateInvalidity _ _ _ lframe_hyps); exact H.
      * eapply lframe_trans; [|eapply (fr_becameNecessaryRecursive _ _ _ lframe_hyps); exact E3]. apply lframe_same. reflexivity.
  - apply lift_inv in H as [H _]. unfold unobserve in H. destruct (obs s !! o); [|injection H as <-; apply lframe_same; reflexivity].
    eapply lframe_trans; [|eapply (fr_checkIfUnnecessary _ _ _ lframe_hyps); exact H]. apply lframe_same. reflexivity.
  - apply lift_inv in H as [H _]. apply (fr_varSet _ _ _ lframe_hyps _ _ _ _ I H).
  - apply lift_inv in H as [H _]. apply (fr_varUpdate _ _ _ lframe_hyps _ _ _ _ I H).
  - unfold addInput in H. match type of H with (if ?c then _ else _) = _ => destruct c end.
    + apply ok_inv in H as [-> _]. apply lframe_same. reflexivity.
    + apply ebind_inv in H as (s3 & e3 & E3 & [[-> H]|(Hne & -> & ->)]).
      * eapply lframe_trans; [|eapply lframe_trans].
        2: eapply (fr_addChild _ _ _ lframe_hyps); exact E3.
        -- apply lframe_same. reflexivity.
        -- apply lift_inv in H as [H _]. eapply (fr_setStale _ _ _ lframe_hyps); exact H.
      * eapply lframe_trans; [|eapply (fr_addChild _ _ _ lframe_hyps); exact E3]. apply lframe_same. reflexivity.
  - apply lift_inv in H as [H _]. unfold removeInput in H. destruct (negb _); [injection H as <-; apply lframe_same; reflexivity|].
    apply rbind_ok in H as (s4 & H4 & H).
    eapply lframe_trans; [|eapply lframe_trans].
    2: eapply (fr_setStale _ _ _ lframe_hyps); exact H4.
    + apply lframe_same. reflexivity.
    + eapply (fr_checkIfUnnecessary _ _ _ lframe_hyps); exact H.
Qed.

(** ** [ObsEq] and the structural relation with equal records *)
Lemma ObsEq_SR sA sB : HeapSpec.inv (heap sA) -> HeapSpec.inv (heap sB) -> ObsEq sA sB -> SR true sA sB.
Proof.
  intros IA IB Q. pose proof (oe_nodes _ _ Q) as Hn. destruct Q. constructor; try assumption.
  - intros m. cbn. apply ParProofs.nd_ext. exact Hn.
  - intros m. unfold has. rewrite Hn. reflexivity.
  - intros _ m. symmetry. apply (ObsEq_inHeap sA sB m IA IB). constructor; assumption.
Qed.

Lemma SR_ObsEq sA sB : HeapSpec.inv (heap sA) -> HeapSpec.inv (heap sB) -> SR true sA sB ->
  updEvents sA = updEvents sB -> ObsEq sA sB.
Proof.
  intros IA IB R Hu. pose proof (sr_nd_true _ _ _ R eq_refl) as Hnd. pose proof (sr_has _ _ _ R) as Hh.
  pose proof (sr_heap _ _ _ R eq_refl) as Hq. destruct R. constructor; try assumption.
  - apply map_eq. intros m. specialize (Hnd m). specialize (Hh m). unfold nd, has in *.
    destruct (nodes sA !! m) as [x|], (nodes sB !! m) as [y|]; cbn in *.
    + congruence.
    + exfalso. destruct (proj1 Hh) as [? ?]; [eauto|discriminate].
    + exfalso. destruct (proj2 Hh) as [? ?]; [eauto|discriminate].
    + reflexivity.
  - intros x. rewrite <- (inHeap_iff0 sA x IA), <- (inHeap_iff0 sB x IB), Hq. reflexivity.
Qed.

Lemma wfb_QB s : wfb s = true -> QB s.
Proof. intros Hwf. apply (Rel_refl s Hwf). Qed.

(** ** a cancelled pass that returns no error found nothing queued *)
Lemma cancelled_inv p s s' : status s = 0 -> stabilize p true s = Ok (s', None) -> (0 <? Heap.cnt (heap s)) = false.
Proof.
  intros Hst H. unfold stabilize in H. rewrite Hst in H. cbn [Z.eqb negb] in H. cbv zeta in H.
  change (heap (emit EvPassStart (s <| status := 1 |>))) with (heap s) in H.
  destruct (0 <? Heap.cnt (heap s)); [|reflexivity]. exfalso. simpl in H.
  destruct (stabilizeEnd _ (Some ECancelled)) as [s2| |]; simpl in H; discriminate.
Qed.

Lemma cancelled_eq p s : (0 <? Heap.cnt (heap s)) = false -> stabilize p true s = stabilize p false s.
Proof.
  intros Hc. unfold stabilize. destruct (negb (status s =? 0)); [reflexivity|]. cbv zeta.
  change (heap (emit EvPassStart (s <| status := 1 |>))) with (heap s). rewrite Hc. reflexivity.
Qed.

Lemma ObsEq_cnt sA sB : HeapSpec.inv (heap sA) -> HeapSpec.inv (heap sB) -> ObsEq sA sB ->
  (0 <? Heap.cnt (heap sA)) = false -> (0 <? Heap.cnt (heap sB)) = false.
Proof.
  intros IA IB Q H. apply Z.ltb_ge in H. apply Z.ltb_ge.
  pose proof (cnt_zero_ids _ IA H) as E. rewrite (inv_cnt _ IB).
  destruct (Heap.ids (heap sB)) as [|x l] eqn:El; [cbn; lia|]. exfalso.
  assert (Hx : x ∈ Heap.ids (heap sA)) by (apply (oe_queued _ _ Q); rewrite El; left). rewrite E in Hx. inversion Hx.
Qed.

(** ** one operation of the two runs *)
Lemma full_step sA sB o o' sA1 :
  Inv sA -> ValInv sA -> Inv sB -> ObsEq sA sB -> hist_op sA o = true ->
  (o' = o \/ (o = Stabilize [] /\ o' = ParStabilize [])) ->
  step sA o = Ok (sA1, None) ->
  exists sB1, mixed_op sB o' = true /\ step sB o' = Ok (sB1, None) /\ ObsEq sA1 sB1 /\ Inv sB1.
Proof.
  intros HIA VA HIB Q Ho Hv HA.
  pose proof (Inv_wfb _ HIA) as HwfA. pose proof (Inv_wfb _ HIB) as HwfB.
  destruct (transfer sA sB HwfA VA Q (wfb_QB sB HwfB)) as [_ VB].
  pose proof (vi_bf _ VA) as BA. pose proof (vi_bf _ VB) as BB.
  destruct (wfb_queued sA HwfA) as [IA _]. destruct (wfb_queued sB HwfB) as [IB _].
  destruct (hist_step sA o sA1 HIA VA Ho HA) as (HIA1 & VA1 & HwfA1).
  assert (HoB : hist_op sB o = true).
  { rewrite (hist_op_ext sA sB o); [exact Ho|symmetry; apply (oe_nodes _ _ Q)|symmetry; apply (oe_obs _ _ Q)|symmetry; apply (oe_binds _ _ Q)]. }
  assert (Hpass : forall eB, PassRes sB eB -> stabilize [] false sA = Ok (sA1, None) -> ObsEq sA1 eB).
  { intros eB PB HA'. apply (PassRes_agree sA sB sA1 eB HwfA VA Q (serial_PassRes sA sA1 HwfA VA HA') PB). }
  pose proof Ho as Ho'. unfold hist_op in Ho'. rewrite !andb_true_iff in Ho'. destruct Ho' as [[Hst Hok] Hcl].
  destruct Hv as [->|[-> ->]].
  - destruct (is_stab o) eqn:Est.
    + (* a serial pass in both runs *)
      assert (HAs : stabilize [] false sA = Ok (sA1, None)) by (apply (hist_pass sA o sA1 Ho); [destruct o; try discriminate Est; reflexivity|exact HA]).
      destruct (pass_total sB HwfB VB) as [sB1 HBs].
      assert (HB : step sB o = Ok (sB1, None)).
      { destruct o; try discriminate Est; try discriminate Hst; cbn [step] in *.
        - apply bool_decide_eq_true in Hst. subst p. exact HBs.
        - destruct (wfb_transients sA HwfA) as (HstA & _).
          pose proof (cancelled_inv [] sA sA1 HstA HA) as Hc.
          rewrite (cancelled_eq [] sB (ObsEq_cnt sA sB IA IB Q Hc)). exact HBs. }
      exists sB1. split; [rewrite mixed_op_hist; [exact HoB|intros p ->; discriminate Hst]|]. split; [exact HB|].
      split; [apply (Hpass sB1 (serial_PassRes sB sB1 HwfB VB HBs) HAs)|].
      apply (hist_step sB o sB1 HIB VB HoB HB).
    + (* an operation outside the passes: the structural congruence *)
      assert (G : Good true sA sB) by (apply wfb_Good; try assumption; apply ObsEq_SR; assumption).
      destruct (sim_step true sA sB o o sA1 G (wfb_Quiet sA HwfA BA) (qt_fresh _ (wfb_Quiet sB HwfB BB)) eq_refl Hst Est HA)
        as (sB1 & HB & G1).
      destruct (hist_step sB o sB1 HIB VB HoB HB) as (HIB1 & VB1 & HwfB1).
      exists sB1. split; [rewrite mixed_op_hist; [exact HoB|intros p ->; discriminate Hst]|]. split; [exact HB|]. split; [|exact HIB1].
      apply SR_ObsEq; [apply (wfb_queued sA1 HwfA1)|apply (wfb_queued sB1 HwfB1)|apply (g_sr _ _ _ G1)|].
      rewrite (lframe_updEvents sA sA1 (nonpass_lframe sA o sA1 None Hst Est HA)),
              (lframe_updEvents sB sB1 (nonpass_lframe sB o sB1 None Hst Est HB)). apply (oe_upd _ _ Q).
  - (* the serial pass of the first run, ParallelStabilize in the second *)
    cbn [step] in HA. destruct (parallel_PassRes sB HwfB VB) as (sB1 & HB & PB).
    exists sB1. split; [reflexivity|]. split; [exact HB|]. split; [apply (Hpass sB1 PB HA)|].
    apply (Inv_step_parstabilize_bindfree sB (ParStabilize []) sB1 None HIB (proj1 BB) eq_refl eq_refl HB).
Qed.

(** ** C04 along histories, in full: replace ANY subset of the passes by ParallelStabilize; the
    new history runs, and the two runs agree at the end *)
Theorem mixed_full os os' : par_variant os os' -> forall sA sB sA',
  Inv sA -> ValInv sA -> Inv sB -> ObsEq sA sB -> hist_run sA os = Some sA' ->
  exists sB', mixed_run sB os' = Some sB' /\ ObsEq sA' sB' /\ Inv sB'.
Proof.
  induction 1 as [|o os os' Hp IH|os os' Hp IH]; intros sA sB sA' HIA VA HIB Q HA.
  - injection HA as <-. exists sB. auto.
  - cbn [hist_run] in HA. destruct (hist_op sA o) eqn:Eo; [|discriminate].
    destruct (step sA o) as [[sA1 [e|]]| |] eqn:EsA; try discriminate.
    destruct (full_step sA sB o o sA1 HIA VA HIB Q Eo (or_introl eq_refl) EsA) as (sB1 & Hm & HB & Q1 & HIB1).
    destruct (hist_step sA o sA1 HIA VA Eo EsA) as (HIA1 & VA1 & _).
    destruct (IH sA1 sB1 sA' HIA1 VA1 HIB1 Q1 HA) as (sB' & HB' & Q' & HI').
    exists sB'. cbn [mixed_run]. rewrite Hm, HB. auto.
  - cbn [hist_run] in HA. destruct (hist_op sA (Stabilize [])) eqn:Eo; [|discriminate].
    destruct (step sA (Stabilize [])) as [[sA1 [e|]]| |] eqn:EsA; try discriminate.
    destruct (full_step sA sB _ (ParStabilize []) sA1 HIA VA HIB Q Eo (or_intror (conj eq_refl eq_refl)) EsA) as (sB1 & Hm & HB & Q1 & HIB1).
    destruct (hist_step sA _ sA1 HIA VA Eo EsA) as (HIA1 & VA1 & _).
    destruct (IH sA1 sB1 sA' HIA1 VA1 HIB1 Q1 HA) as (sB' & HB' & Q' & HI').
    exists sB'. cbn [mixed_run]. rewrite Hm, HB. auto.
Qed.

(** from [init], at every boundary *)
Theorem mixed_history_full mh os os' k sA : (0 < mh)%nat -> par_variant os os' ->
  hist_run (init mh) (take k os) = Some sA ->
  exists sB, mixed_run (init mh) (take k os') = Some sB /\ ObsEq sA sB.
Proof.
  intros Hmh Hp HA. destruct (init_inv mh Hmh) as [HI V].
  destruct (mixed_full _ _ (par_variant_take os os' Hp k) (init mh) (init mh) sA HI V HI (ObsEq_refl _) HA) as (sB & HB & Q & _).
  exists sB. auto.
Qed.

(** the earlier, partial statement ([mixed]: a common prefix, then steady-state operations only;
    agreement whenever both histories run) is a special case *)
Lemma mixed_par_variant os os' : mixed os os' -> par_variant os os'.
Proof. induction 1; constructor; assumption. Qed.

Corollary mixed_agree_boundaries_full mh os os' k sA sB : (0 < mh)%nat -> mixed os os' ->
  hist_run (init mh) (take k os) = Some sA -> mixed_run (init mh) (take k os') = Some sB -> ObsEq sA sB.
Proof.
  intros Hmh Hm HA HB.
  destruct (mixed_history_full mh os os' k sA Hmh (mixed_par_variant _ _ Hm) HA) as (sB' & HB' & Q).
  rewrite HB in HB'. injection HB' as <-. exact Q.
Qed.

(** * The boolean checker and an example history *)
Definition hist_ok (mh : nat) (os : list op) : bool :=
  match hist_run (init mh) os with Some _ => true | None => false end.

Lemma hist_ok_run mh os : hist_ok mh os = true -> exists s, hist_run (init mh) os = Some s.
Proof. unfold hist_ok. destruct (hist_run (init mh) os) as [s|]; [eauto|discriminate]. Qed.

(** a diamond (0 -> 2, 3 -> 4), a parity cutoff (5) that cuts twice and then lets a change through,
    a MapN (7) with AddInput / RemoveInput, unobserve and re-observe, six passes *)
Definition hx : list op :=
  [NewVar 1 false; NewVar 2 false; NewMap (Aff 1 1) 0%nat; NewMap (Aff 2 0) 0%nat;
   NewMap2 (Lin2 1 1 0) 2%nat 3%nat; NewCutoff CParity 4%nat; NewMap (Aff 1 0) 5%nat; NewMapN Sum [1%nat];
   Observe 6%nat; Observe 7%nat; Stabilize [];
   AddInput 7%nat 4%nat; Stabilize [];
   SetVar 0%nat 3; Stabilize [];
   RemoveInput 7%nat 4%nat; Unobserve 9%nat; Stabilize [];
   Observe 7%nat; SetVar 1%nat 5; Stabilize [];
   SetVar 0%nat 2; Stabilize []].
Definition hx_final : state := match hist_run (init 16) hx with Some s => s | None => init 0 end.
Definition cut_verdicts (s : state) : list (nid * bool) :=
  omap (fun e => match e with EvCutoff n _ _ v => Some (n, v) | _ => None end) (log s).

(** the same history with its last two passes run differently: the first by ParallelStabilize, the
    second serially again *)
Definition hx_mixed : list op := take 20 hx ++ [ParStabilize []; SetVar 0%nat 2; Stabilize []].
Definition hx_switched : list op := take 20 hx ++ [ParStabilize []; SetVar 0%nat 2; ParStabilize []].
Definition mixed_ok (mh : nat) (os : list op) : bool :=
  match mixed_run (init mh) os with Some _ => true | None => false end.

Lemma hx_mixed_pair : mixed hx hx_mixed.
Proof. unfold hx, hx_mixed. cbn [take app]. repeat first [apply mx_same | apply mx_par; [reflexivity|repeat constructor]]. Qed.

(** passes 1, 3 and 5 of [hx] run by ParallelStabilize: each is followed by operations outside the
    steady-state alphabet (AddInput; RemoveInput and Unobserve; a SetVar and the last pass) *)
Definition hx_alt : list op :=
  [NewVar 1 false; NewVar 2 false; NewMap (Aff 1 1) 0%nat; NewMap (Aff 2 0) 0%nat;
   NewMap2 (Lin2 1 1 0) 2%nat 3%nat; NewCutoff CParity 4%nat; NewMap (Aff 1 0) 5%nat; NewMapN Sum [1%nat];
   Observe 6%nat; Observe 7%nat; ParStabilize [];
   AddInput 7%nat 4%nat; Stabilize [];
   SetVar 0%nat 3; ParStabilize [];
   RemoveInput 7%nat 4%nat; Unobserve 9%nat; Stabilize [];
   Observe 7%nat; SetVar 1%nat 5; ParStabilize [];
   SetVar 0%nat 2; Stabilize []].
Definition mixed_final (os : list op) : state := match mixed_run (init 16) os with Some s => s | None => init 0 end.

Lemma hx_alt_variant : par_variant hx hx_alt.
Proof. unfold hx, hx_alt. repeat first [apply pv_nil | apply pv_same | apply pv_par]. Qed.
