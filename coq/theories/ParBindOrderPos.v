(** C08, the ordering half, under ParallelStabilize: what IS true.  A node of the generation a bind is
    about to replace can have run before the swap within the swapping pass only in a period of
    necessity that BEGAN IN THIS PASS (the K10 situation: dropped and linked again while its height
    block was running).  In the log of a plan-free parallel pass: between a function / cutoff event of
    a node [n] created by bind [a] and a later run of [a]'s bind function there is an [EvNec n] or
    [EvUnnec n], OR an [EvNec n] precedes the event within the pass. *)
From stdpp Require Import sorting.
From incr Require Import Base Heap HeapSpec HeapProofs EngineDefs Engine EngineRun EngineWf Spec EngineLemmas EngineLocal
     EngineInv EngineInvProofs PassInv PassProofs PassPlanProofs PassBind PassBindProofs PassBindSwap PassBindSwapProofs
     PassBindSwapStep PassBindOps PassBindSwapLog PassBindOrder PassBindOrderLog ParBind ParBindStep ParBindHistory ParBindLog.
From incr Require Import SpecProofs.

Local Arguments valueOf : simpl never.

(** * 1. The pass-order invariant of the parallel pass *)
Definition settledP (s : state) (R : list nid) (b : nid) : Prop :=
  forall w, inP s R w = true -> ~ reach s w b.

(* a registered node created under bind [b] that has run, or waits in the running block, and has NOT
   been registered anew in this pass: no owed node reaches [b]'s lhs-change node *)
Definition ODP (evs : list event) (s : state) (R : list nid) : Prop :=
  forall b n, sub s n b -> inGraph (nd s n) = true -> (isDone s n = true \/ n ∈ R) -> EvNec n ∉ evs ->
    settledP s R b.

Lemma inP_reg s R w : PInv s -> inP s R w = true -> inGraph (nd s w) = true.
Proof.
  intros P H. destruct (PInv_heap s P) as [I Hq]. unfold inP in H. apply orb_true_iff in H as [H|H].
  - apply (inHeap_iff0 s w I) in H. apply (Hq w H).
  - apply andb_true_iff in H. apply H.
Qed.

Lemma settledP_unreg s R b : PInv s -> inGraph (nd s b) = false -> settledP s R b.
Proof.
  intros P Hb w Hw Hr. pose proof (reach_reg s (PInv_Struct s P) w b Hr (inP_reg s R w P Hw)). congruence.
Qed.

Lemma ODP_point evs s a R :
  PInv s -> ODP evs s (a :: R) -> inGraph (nd s a) = true ->
  forall n, sub s n a -> inGraph (nd s n) = true -> isDone s n = true -> EvNec n ∈ evs.
Proof.
  intros P K Hga n Hs Hg Hd. destruct (decide (EvNec n ∈ evs)) as [Hin|Hnin]; [exact Hin|exfalso].
  apply (K a n Hs Hg (or_introl Hd) Hnin a); [|apply rtc_refl].
  unfold inP. rewrite (bool_decide_eq_true_2 (a ∈ a :: R)) by left. rewrite Hga. apply orb_true_r.
Qed.

(** * 2. The start of a block *)
Lemma ODP_block_start evs s block w order :
  PInv s -> Heap.takeMinBlock (heap s) = (block, w) -> (forall x, x ∈ order <-> x ∈ block) ->
  ODP evs s [] -> ODP evs (s <| heap := w |>) order.
Proof.
  intros P Etb Hord K. set (sb := s <| heap := w |>).
  destruct (PInv_heap s P) as [I Hq]. pose proof (PInv_Struct s P) as HS.
  destruct (heap_takeMinBlock_spec (heap s) block w I Etb) as (Iw & Pm & Hmin & _).
  assert (Iw' : HeapSpec.inv (heap sb)) by exact Iw.
  assert (Hr : forall a b, reach sb a b <-> reach s a b) by (apply sf_reach, sframe_set_heap).
  assert (Hown : forall x, inP sb order x = true -> x ∈ Heap.ids (heap s)).
  { intros x Hx. unfold inP in Hx. rewrite Pm. apply elem_of_app. apply orb_true_iff in Hx as [Hx|Hx].
    - right. apply (inHeap_iff0 sb x Iw'), Hx.
    - left. apply andb_true_iff in Hx as [Hx _]. apply bool_decide_eq_true in Hx. apply Hord, Hx. }
  intros b n Hs Hg Hd Hnec. change (nd sb n) with (nd s n) in Hg.
  assert (Hs0 : sub s n b) by (apply (sub_ext s sb); [reflexivity|exact Hs]).
  destruct Hd as [Hd|Hd].
  - change (isDone s n = true) in Hd. pose proof (K b n Hs0 Hg (or_introl Hd) Hnec) as Hb.
    intros x Hx Hrx. apply Hr in Hrx. apply (Hb x); [|exact Hrx].
    rewrite inP_nil. apply (inHeap_iff0 s x I), Hown, Hx.
  - (* a member of the block: a minimum of the queue, above its scopes' lhs-change nodes *)
    destruct (sub_height s P n b Hs0 Hg) as [_ Hlt]. apply Hord in Hd.
    assert (Hnq : n ∈ Heap.ids (heap s)) by (rewrite Pm; apply elem_of_app; left; exact Hd).
    intros x Hx Hrx. apply Hr in Hrx. pose proof (Hown x Hx) as Hxq.
    pose proof (Hmin n x Hd Hxq) as Hle. rewrite (proj2 (Hq n Hnq)), (proj2 (Hq x Hxq)) in Hle.
    destruct (reach_height s HS x b Hrx) as [->|Hh]; lia.
Qed.

(** * 3. A skipped member, a member that is not a lhs-change node *)
Lemma ODP_skip evs s m R : ODP evs s (m :: R) -> ODP evs s R.
Proof.
  intros K b n Hs Hg Hd Hnec x Hx.
  apply (K b n Hs Hg); [destruct Hd as [Hd|Hd]; [left; exact Hd|right; right; exact Hd]|exact Hnec|].
  unfold inP in *. apply orb_true_iff in Hx as [Hx|Hx]; [rewrite Hx; reflexivity|].
  apply andb_true_iff in Hx as [Hx Hgx]. apply bool_decide_eq_true in Hx.
  rewrite (bool_decide_eq_true_2 (x ∈ m :: R)) by (right; exact Hx). rewrite Hgx. apply orb_true_r.
Qed.

Lemma ODP_step fuel evs new st m R st' :
  Tplain st -> PInv st -> LInvP st (m :: R) -> inGraph (nd st m) = true -> isLhs (nkind (nd st m)) = false ->
  recomputeNodeParallel fuel [] st m = Ok (st', None) -> PInv st' ->
  ODP evs st (m :: R) -> ODP (new ++ evs) st' R.
Proof.
  intros TP P L Hg Hnl H P' K.
  destruct (rnp_rns fuel st m st' H) as (s1 & imm & Hs & Hadd).
  pose proof (PInv_BFB st P (lp_shape _ _ L)) as HB. destruct (PInv_heap st P) as [I Hq]. destruct (PInv_heap st' P') as [I' Hq'].
  destruct (rns_stepB fuel st m s1 None imm HB (has_inGraph _ _ Hg) I Hnl Hs) as [_ PP1].
  pose proof (stepPostB_par st m s1 imm st' I PP1 Hadd) as PP.
  pose proof (stepPostB_sframe _ _ _ _ PP) as F.
  assert (Hsk : forall (A : Type) (g : node -> A) n, (forall z, g (skel z) = g z) -> g (nd st' n) = g (nd st n)).
  { intros A g n Hgg. rewrite <- (Hgg (nd st' n)), <- (Hgg (nd st n)), (sf_nd _ _ F n). reflexivity. }
  assert (HinPm : inP st (m :: R) m = true).
  { unfold inP. rewrite (bool_decide_eq_true_2 (m ∈ m :: R)) by left. rewrite Hg. apply orb_true_r. }
  assert (Hmem : forall x, inP st' R x = true -> inP st (m :: R) x = true \/ edge st m x).
  { intros x Hx. unfold inP in Hx. apply orb_true_iff in Hx as [Hx|Hx].
    - destruct (sq_case _ _ _ _ PP) as [C|Rn].
      + left. unfold inP, inHeap in *. rewrite (cp_heap _ _ _ _ C) in Hx. rewrite Hx. reflexivity.
      + apply (inHeap_iff0 st' x I') in Hx.
        destruct (proj1 (rq_mem _ _ _ _ Rn x) (or_introl Hx)) as [Hx'|[Hx' _]].
        * left. unfold inP. rewrite (proj2 (inHeap_iff0 st x I) Hx'). reflexivity.
        * right. exact Hx'.
    - left. apply andb_true_iff in Hx as [Hx Hgx]. apply bool_decide_eq_true in Hx.
      rewrite (Hsk _ inGraph x) in Hgx by reflexivity. unfold inP.
      rewrite (bool_decide_eq_true_2 (x ∈ m :: R)) by (right; exact Hx). rewrite Hgx. apply orb_true_r. }
  assert (Hst : forall b, settledP st (m :: R) b -> settledP st' R b).
  { intros b Hb x Hx Hr. apply (sf_reach st st' F) in Hr. destruct (Hmem x Hx) as [Hx'|He].
    - exact (Hb x Hx' Hr).
    - apply (Hb m HinPm). eapply rtc_l; [exact He|exact Hr]. }
  intros b n Hs' Hgn Hd Hnec.
  assert (Hs0 : sub st n b) by (apply (sub_ext st st'); [intros x; apply (Hsk _ scope x); reflexivity|exact Hs']).
  rewrite (Hsk _ inGraph n) in Hgn by reflexivity.
  assert (Hnec0 : EvNec n ∉ evs) by (intros X; apply Hnec, elem_of_app; right; exact X).
  apply Hst. apply (K b n Hs0 Hgn); [|exact Hnec0].
  destruct Hd as [Hd|Hd]; [|right; right; exact Hd].
  destruct (decide (n = m)) as [->|Hne]; [right; left|left].
  unfold isDone in *. rewrite (sq_other _ _ _ _ PP n Hne), (sf_stabNum _ _ F) in Hd. exact Hd.
Qed.

(** * 4. A lhs-change node of the block: the swap *)
Lemma lastNU_became n new : forall l, EvNec n ∉ new -> lastNU (new ++ l) n = Some true -> lastNU l n = Some true.
Proof.
  induction new as [|e new IH]; intros l H1 H; [exact H|].
  assert (H1' : EvNec n ∉ new) by (intros X; apply H1; right; exact X).
  cbn [app] in H. destruct e; cbn [lastNU] in H; try (apply (IH l H1' H)).
  - destruct (decide (n0 = n)) as [->|]; [exfalso; apply H1; left|apply (IH l H1' H)].
  - destruct (decide (n0 = n)) as [->|]; [discriminate H|apply (IH l H1' H)].
Qed.

Lemma rnp_frame fuel st m st' e : PInv st ->
  recomputeNodeParallel fuel [] st m = Ok (st', e) ->
  forall n, has st n -> has st' n /\ scope (nd st' n) = scope (nd st n).
Proof.
  intros P H n Hn. assert (Hids : ids_below st) by (intros x Hx; apply (io_lt _ (p_ids _ P)); exact Hx).
  destruct (pf_recomputeNodeParallel fuel [] st m st' e H) as (_ & _ & _ & _ & _ & Hhas & Hst & _).
  destruct (Hst Hids) as [_ Hstat]. split; [apply Hhas, Hn|apply (Hstat n Hn)].
Qed.

Lemma ODP_bind fuel evs new st a R st' :
  Tplain st -> PInv st -> LInvP st (a :: R) -> inGraph (nd st a) = true -> nkind (nd st a) = KBindLhs a ->
  recomputeNodeParallel fuel [] st a = Ok (st', None) -> PInv st' -> log st' = new ++ log st ->
  ODP evs st (a :: R) -> ODP (new ++ evs) st' R.
Proof.
  intros TP P L Hg Hk H P' El K.
  destruct (bind_step_frameP fuel st a R st' TP P L Hg Hk H P') as [F _].
  pose proof (PInv_Struct st P) as HS. pose proof (PInv_Struct st' P') as HS'.
  destruct (PInv_heap st P) as [I Hq]. destruct (PInv_heap st' P') as [I' Hq'].
  pose proof (rnp_frame fuel st a st' None P H) as Hfr.
  assert (HinPa : inP st (a :: R) a = true).
  { unfold inP. rewrite (bool_decide_eq_true_2 (a ∈ a :: R)) by left. rewrite Hg. apply orb_true_r. }
  assert (Hstab : forall b, inGraph (nd st b) = true -> settledP st (a :: R) b -> settledP st' R b).
  { intros b Hgb Hb. destruct (inGraph (nd st' b)) eqn:Hgb'; [|apply (settledP_unreg st' R b P' Hgb')].
    intros w Hw Hr.
    destruct (reach_back st a st' F HS HS' w b Hr Hgb Hgb') as [[Hr0 Hgw]|Hr0]; [|exact (Hb a HinPa Hr0)].
    unfold inP in Hw. apply orb_true_iff in Hw as [Hw|Hw].
    - destruct (bx_queued _ _ _ F w Hw) as [Hw0|[->|Hw0]].
      + apply (Hb w); [unfold inP; rewrite Hw0; reflexivity|exact Hr0].
      + apply (Hb a HinPa). eapply rtc_l; [exact (bx_edge _ _ _ F)|exact Hr0].
      + congruence.
    - apply andb_true_iff in Hw as [Hw _]. apply bool_decide_eq_true in Hw.
      apply (Hb w); [|exact Hr0]. unfold inP. rewrite (bool_decide_eq_true_2 (w ∈ a :: R)) by (right; exact Hw).
      rewrite Hgw. apply orb_true_r. }
  intros b n Hs' Hgn' Hd Hnec.
  assert (Hnec0 : EvNec n ∉ evs) by (intros X; apply Hnec, elem_of_app; right; exact X).
  assert (Hnecn : EvNec n ∉ new) by (intros X; apply Hnec, elem_of_app; left; exact X).
  (* not registered anew in this step: registered before it *)
  assert (Hgn : inGraph (nd st n) = true).
  { apply (t_life _ _ _ (p_t _ P) n ltac:(apply not_elem_of_nil)).
    apply (lastNU_became n new (log st) Hnecn). rewrite <- El.
    apply (t_life _ _ _ (p_t _ P') n ltac:(apply not_elem_of_nil)). exact Hgn'. }
  assert (Hs0 : sub st n b) by (apply (sub_back st st' P (fun x Hx => proj2 (Hfr x Hx)) n b Hs' Hgn)).
  apply Hstab; [exact (proj1 (sub_height st P n b Hs0 Hgn))|].
  apply (K b n Hs0 Hgn); [|exact Hnec0].
  destruct Hd as [Hd|Hd]; [|right; right; exact Hd].
  destruct (decide (n = a)) as [->|Hne]; [right; left|left].
  destruct (bx_done _ _ _ F n Hne Hd) as [Hc|[_ B]]; [congruence|exact B].
Qed.

(** * 5. What holds when a lhs-change node of a block is recomputed, in log form *)
Definition QOrdP (base : list event) (s : state) (a : nid) : Prop :=
  nkind (nd s a) = KBindLhs a ->
  forall evs pre e post n, log s = evs ++ base -> evs = pre ++ e :: post -> ev_node e = Some n ->
    sub s n a -> EvNec n ∈ pre \/ EvUnnec n ∈ pre \/ EvNec n ∈ post.

Lemma QOrdP_of s0 base s a R evs0 :
  PInv s -> inGraph (nd s a) = true -> log s = evs0 ++ base -> ODP evs0 s (a :: R) -> LGP s0 s (a :: R) evs0 ->
  QOrdP base s a.
Proof.
  intros P Hga El0 K G Hk evs pre e post n El E Hn Hs.
  assert (evs = evs0) by (apply (app_inv_tail base); rewrite <- El, <- El0; reflexivity). subst evs0.
  destruct (inGraph (nd s n)) eqn:Hg.
  - destruct (decide (EvNec n ∈ pre)) as [H1|H1]; [left; exact H1|]. right. right.
    assert (Hd : isDone s n = true).
    { apply (gp_done _ _ _ _ G n Hg). rewrite E. apply (latest_cnt n pre e post Hn H1). }
    pose proof (ODP_point evs s a R P K Hga n Hs Hg Hd) as Hin. rewrite E in Hin.
    apply elem_of_app in Hin as [Hin|Hin]; [contradiction|].
    apply elem_of_cons in Hin as [Hin|Hin]; [subst e; discriminate Hn|exact Hin].
  - destruct (run_then_gone s pre e (post ++ base) n P) as [X|X]; auto.
    rewrite El, E, <- app_assoc. reflexivity.
Qed.

(** * 6. The log invariant *)
Definition LO3 (s : state) (evs : list event) : Prop :=
  (forall e n, e ∈ evs -> ev_node e = Some n -> has s n) /\
  forall pre x root a mid e post n, evs = pre ++ EvBindFn a x root :: mid ++ e :: post ->
    ev_node e = Some n -> sub s n a -> EvNec n ∈ mid \/ EvUnnec n ∈ mid \/ EvNec n ∈ post.

Lemma LO3_frame s s' evs new : PInv s ->
  (forall n, has s n -> has s' n /\ scope (nd s' n) = scope (nd s n)) ->
  Forall (fun x => isBindFn x = false) new -> (forall e n, e ∈ new -> ev_node e = Some n -> has s' n) ->
  LO3 s evs -> LO3 s' (new ++ evs).
Proof.
  intros P Hfr Hnb Hnew [EH K]. split.
  - intros e n He Hn. apply elem_of_app in He as [He|He]; [exact (Hnew e n He Hn)|apply (Hfr n), (EH e n He Hn)].
  - intros pre x root a mid e post n E Hn Hs.
    destruct (split_nobind_l new evs pre (EvBindFn a x root) _ E eq_refl Hnb) as (pre2 & -> & E2).
    assert (Hh : has s n).
    { apply (EH e n); [|exact Hn]. rewrite E2. apply elem_of_app. right. right. apply elem_of_app. right. left. }
    apply (K pre2 x root a mid e post n E2 Hn). exact (sub_back_has s s' P Hfr n a Hs Hh).
Qed.

Lemma LO3_step fuel st m R st' evs :
  Tplain st -> PInv st -> LInvP st (m :: R) -> inGraph (nd st m) = true -> isLhs (nkind (nd st m)) = false ->
  recomputeNodeParallel fuel [] st m = Ok (st', None) ->
  LO3 st evs -> exists new, log st' = new ++ log st /\ LO3 st' (new ++ evs).
Proof.
  intros TP P L Hg Hnl H K.
  destruct (rnp_rns fuel st m st' H) as (s1 & imm & Hs & Hadd).
  pose proof (PInv_BFB st P (lp_shape _ _ L)) as HB. destruct (PInv_heap st P) as [I Hq].
  destruct (rns_stepB fuel st m s1 None imm HB (has_inGraph _ _ Hg) I Hnl Hs) as [_ PP1].
  pose proof (stepPostB_par st m s1 imm st' I PP1 Hadd) as PP.
  pose proof (rnp_frame fuel st m st' None P H) as Hfr.
  assert (Hm' : has st' m) by (apply Hfr, has_inGraph, Hg).
  assert (Hnew : exists new, log st' = new ++ log st /\ Forall (fun x => isBindFn x = false) new /\
                              (forall e n, e ∈ new -> ev_node e = Some n -> n = m)).
  { destruct (sq_case _ _ _ _ PP) as [C|Rn].
    - destruct (cp_kind _ _ _ _ C) as (c0 & _ & _ & El). eexists [_]. split; [exact El|].
      split; [repeat constructor|]. intros e n He Hn. apply elem_of_list_singleton in He. subst e. injection Hn as <-. reflexivity.
    - destruct (rq_log _ _ _ _ Rn) as (new & El & [->|[->|[o ->]]]).
      + exists []. split; [exact El|]. split; [constructor|]. intros e n He. inversion He.
      + eexists [_]. split; [exact El|]. split; [repeat constructor|].
        intros e n He Hn. apply elem_of_list_singleton in He. subst e. injection Hn as <-. reflexivity.
      + eexists [_]. split; [exact El|]. split; [repeat constructor|].
        intros e n He Hn. apply elem_of_list_singleton in He. subst e. injection Hn as <-. reflexivity. }
  destruct Hnew as (new & El & Hnb & Hof). exists new. split; [exact El|].
  apply (LO3_frame st st' evs new P Hfr Hnb); [|exact K].
  intros e n He Hn. rewrite (Hof e n He Hn). exact Hm'.
Qed.

Lemma LO3_bind fuel base st a st' evs :
  PInv st -> inGraph (nd st a) = true -> nkind (nd st a) = KBindLhs a ->
  recomputeNodeParallel fuel [] st a = Ok (st', None) ->
  QOrdP base st a -> log st = evs ++ base ->
  LO3 st evs -> exists new, log st' = new ++ log st /\ LO3 st' (new ++ evs).
Proof.
  intros P Hg Hk H Q Elg [EH K].
  destruct (rnp_rns fuel st a st' H) as (s1 & imm & Hs & Hadd).
  assert (Hl1 : log st' = log s1).
  { destruct imm as [c|]; [|subst; reflexivity]. apply heapAdd_inv in Hadd as (w & _ & ->). reflexivity. }
  destruct (lhs_log fuel st a s1 imm P Hg Hk Hs) as (x0 & r0 & l1 & l2 & El & F1 & F2). rewrite <- Hl1 in El.
  destruct (runs_none_nobind l1 F1) as [N1 Q1]. destruct (runs_none_nobind l2 F2) as [N2 Q2].
  pose proof (rnp_frame fuel st a st' None P H) as Hfr.
  exists (l2 ++ EvBindFn a x0 r0 :: l1). split; [rewrite El, <- app_assoc; reflexivity|].
  split.
  - intros e n He Hn. apply elem_of_app in He as [He|He]; [|apply (Hfr n), (EH e n He Hn)].
    exfalso. apply elem_of_app in He as [He|He].
    + pose proof (proj1 (List.Forall_forall _ _) Q2 e (proj1 (elem_of_list_In _ _) He)) as X. unfold quiet in X. congruence.
    + apply elem_of_cons in He as [->|He]; [discriminate Hn|].
      pose proof (proj1 (List.Forall_forall _ _) Q1 e (proj1 (elem_of_list_In _ _) He)) as X. unfold quiet in X. congruence.
  - intros pre x root a' mid e post n E Hn Hs0. rewrite <- app_assoc in E. cbn [app] in E.
    destruct (split_nobind_l l2 _ pre (EvBindFn a' x root) _ E eq_refl N2) as (pre2 & -> & E2).
    destruct pre2 as [|y pre3]; cbn [app] in E2.
    + injection E2 as <- <- <- E2.
      destruct (split_quiet_l l1 evs mid e post E2 Q1 ltac:(congruence)) as (mid2 & -> & E3).
      assert (Hh : has st n) by (apply (EH e n); [rewrite E3; apply elem_of_app; right; left|exact Hn]).
      assert (Hs1 : sub st n a) by exact (sub_back_has st st' P Hfr n a Hs0 Hh).
      destruct (Q Hk evs mid2 e post n Elg E3 Hn Hs1) as [X|[X|X]];
        [left; apply elem_of_app; right; exact X|right; left; apply elem_of_app; right; exact X|right; right; exact X].
    + injection E2 as <- E2.
      destruct (split_nobind_l l1 evs pre3 (EvBindFn a' x root) _ E2 eq_refl N1) as (pre4 & -> & E3).
      assert (Hh : has st n).
      { apply (EH e n); [|exact Hn]. rewrite E3. apply elem_of_app. right. right. apply elem_of_app. right. left. }
      apply (K pre4 x root a' mid e post n E3 Hn). exact (sub_back_has st st' P Hfr n a' Hs0 Hh).
Qed.

(** * 7. The blocks, the loop, the pass *)
Definition INVP (s0 : state) (base : list event) (st : state) (R : list nid) : Prop :=
  exists evs, log st = evs ++ base /\ LGP s0 st R evs /\ ODP evs st R /\ LO3 st evs.

Lemma nodeOP fuel s0 base st m R st' :
  Tplain st -> PInv st -> LInvP st (m :: R) -> inGraph (nd st m) = true ->
  recomputeNodeParallel fuel [] st m = Ok (st', None) -> PInv st' ->
  INVP s0 base st (m :: R) -> INVP s0 base st' R.
Proof.
  intros TP P L Hg H P' (evs & El & G & K & O).
  destruct (nodeLP fuel s0 st m R st' evs TP P L Hg H G) as (new & El1 & G1).
  exists (new ++ evs). split; [rewrite El1, El, app_assoc; reflexivity|]. split; [exact G1|].
  destruct (isLhs (nkind (nd st m))) eqn:Elh.
  - destruct (nkind (nd st m)) eqn:Kn; try discriminate Elh.
    pose proof (p_kinds _ P m (has_inGraph _ _ Hg)) as Hkk. rewrite Kn in Hkk. destruct Hkk as [-> _].
    split; [exact (ODP_bind fuel evs new st b R st' TP P L Hg Kn H P' El1 K)|].
    pose proof (QOrdP_of s0 base st b R evs P Hg El K G) as Q.
    destruct (LO3_bind fuel base st b st' evs P Hg Kn H Q El O) as (new' & El' & O').
    assert (new' = new) by (apply (app_inv_tail (log st)); rewrite <- El', <- El1; reflexivity). subst new'. exact O'.
  - split; [exact (ODP_step fuel evs new st m R st' TP P L Hg Elh H P' K)|].
    destruct (LO3_step fuel st m R st' evs TP P L Hg Elh H O) as (new' & El' & O').
    assert (new' = new) by (apply (app_inv_tail (log st)); rewrite <- El', <- El1; reflexivity). subst new'. exact O'.
Qed.

Lemma blockOP fuel s0 base l : forall st al st2 al2,
  Tplain st -> PInv st -> LInvP st l -> INVP s0 base st l ->
  rfold (blockStep fuel []) l (st, None, al) = Ok (st2, None, al2) -> INVP s0 base st2 [].
Proof.
  induction l as [|m l IH]; intros st al st2 al2 TP P L G H; simpl in H.
  { injection H as <- <-. exact G. }
  apply rbind_ok in H as ([[st1 e1] al1] & H1 & H). unfold blockStep in H1.
  destruct (Z.eqb_spec (height (nd st m)) unset) as [Hu|Hu].
  { injection H1 as <- <- <-. pose proof (PInv_unset st m P Hu) as Hgm.
    apply (IH st al st2 al2 TP P (LInvP_skip st m l Hgm L)); [|exact H].
    destruct G as (evs & El & G & K & O). exists evs. split; [exact El|].
    split; [apply (LGP_skip s0 st m l evs Hgm G)|]. split; [exact (ODP_skip evs st m l K)|exact O]. }
  apply rbind_ok in H1 as ([st' e'] & Hr & [= <- <- <-]).
  destruct e' as [x|]; [pose proof (block_err fuel l _ _ _ _ _ _ H); discriminate|].
  pose proof (PInv_hreg st m P Hu) as Hg.
  destruct (nodeP bind_stepP fuel st m l st' TP P L Hg Hr) as (TP' & P' & L' & _).
  eapply (IH st' _ st2 al2 TP' P' L'); [|exact H].
  exact (nodeOP fuel s0 base st m l st' TP P L Hg Hr P' G).
Qed.

Lemma loopOP fuel s0 base : forall s al s' al',
  Tplain s -> PInv s -> LInvP s [] -> AW s al -> INVP s0 base s [] ->
  parLoop fuel [] s al = Ok (s', None, al') -> INVP s0 base s' [].
Proof.
  induction fuel as [|fuel IH]; intros s al s' al' TP P L HA G H; [discriminate|].
  rewrite parLoop_S in H. destruct (PInv_heap s P) as [I Hq].
  destruct (Z.leb_spec (Heap.cnt (heap s)) 0) as [Hc|Hc]; [injection H as <- <-; exact G|].
  destruct (Heap.takeMinBlock (heap s)) as [block w] eqn:Etb. cbv zeta in H.
  set (sb := s <| heap := w |>) in *.
  set (isL := fun n : nid => match nkind (nd sb n) with KBindLhs _ => true | _ => false end) in *.
  set (order := filter (fun n => isL n = true) block ++ filter (fun n => isL n = false) block) in *.
  apply rbind_ok in H as ([[s2 e2] al2] & H2 & H).
  destruct e2 as [x|]; [discriminate|].
  destruct (heap_takeMinBlock_spec (heap s) block w I Etb) as (_ & Pm & _).
  assert (Hndb : NoDup block).
  { pose proof (inv_nodup _ I) as Hn. rewrite Pm in Hn. apply NoDup_app in Hn as (Hn & _). exact Hn. }
  assert (Hord : forall x, x ∈ order <-> x ∈ block).
  { intros x. unfold order. rewrite elem_of_app, !elem_of_list_filter. destruct (isL x); intuition congruence. }
  assert (Hndo : NoDup order).
  { unfold order. apply NoDup_app. split; [apply stdpp.list.NoDup_filter, Hndb|]. split; [|apply stdpp.list.NoDup_filter, Hndb].
    intros x [A _]%elem_of_list_filter [B _]%elem_of_list_filter. congruence. }
  destruct (block_start s block w order P L Etb Hndo Hord) as [Pb Lb]. fold sb in Pb, Lb.
  pose proof (Tplain_binds s sb eq_refl TP) as TPb.
  assert (Gb : INVP s0 base sb order).
  { destruct G as (evs & El & G & K & O). exists evs. split; [exact El|].
    split; [apply (LGP_block_start s0 s block w order evs P Etb Hord G)|].
    split; [exact (ODP_block_start evs s block w order P Etb Hord K)|].
    destruct O as [EH KK]. split; [exact EH|].
    intros pre x root a mid e post n E Hn Hs. apply (KK pre x root a mid e post n E Hn).
    apply (sub_ext s sb); [reflexivity|exact Hs]. }
  pose proof (blockOP fuel s0 base order sb al s2 al2 TPb Pb Lb Gb H2) as G2.
  destruct (blockP bind_stepP fuel order sb al s2 al2 TPb Pb Lb (AW_heap s w al HA) H2) as (TP2 & P2 & L2 & HA2 & _).
  exact (IH s2 al2 s' al' TP2 P2 L2 HA2 G2 H).
Qed.

Theorem parS_order_pos s s' :
  Inv s -> ValInvB s -> Tplain s -> parStabilize [] s = Ok (s', None) ->
  forall evs pre x root a mid e post n, log s' = evs ++ log s ->
    evs = pre ++ EvBindFn a x root :: mid ++ e :: post ->
    ev_node e = Some n -> sub s' n a -> EvNec n ∈ mid \/ EvUnnec n ∈ mid \/ EvNec n ∈ post.
Proof.
  intros IV V TP H. pose proof (Inv_wfb s IV) as Hwf.
  destruct (wfb_transients _ Hwf) as (Hst & Hsd & Hsr & Hh).
  destruct (parStabilize_nil_inv s s' Hst Hsd Hsr H) as (sL & always & sR & hev & EL & ER & Es & Hhev).
  fold (passStart s) in EL. set (s1 := passStart s) in *.
  pose proof (LInvP_start s IV V) as L1. fold s1 in L1.
  pose proof (Inv_PInv_start s IV) as P1. fold (passStart s) in P1. fold s1 in P1.
  pose proof (Tplain_binds s s1 eq_refl TP) as TP1.
  assert (Hnd0 : forall y, isDone s1 y = false).
  { intros y. unfold isDone. apply Z.eqb_neq. pose proof (stamps_node_true _ _ (vb_stamps _ V y)).
    change (recomputedAt (nd s y) <> stabNum s). lia. }
  assert (HA1 : AW s1 []) by (intros y _ Hd _; rewrite Hnd0 in Hd; discriminate).
  destruct (loopP bind_stepP _ s1 [] sL always TP1 P1 L1 HA1 EL) as (TPL & PL & LPL & HAL & Hemp & HkL & CL).
  assert (G1 : INVP s1 (log s1) s1 []).
  { exists []. split; [reflexivity|]. split; [apply LGP_start|]. split.
    - intros b n _ _ [Hd|Hd]; [rewrite Hnd0 in Hd; discriminate|inversion Hd].
    - split; [intros e0 n He; inversion He|]. intros pre x root a mid e0 post n E. destruct pre; discriminate E. }
  destruct (loopOP _ s1 (log s1) s1 [] sL always TP1 P1 L1 HA1 G1 EL) as (evsL & ElL & _ & _ & [_ KL]).
  destruct (PInv_heap sL PL) as [IL HqL].
  pose proof (LInvC_of_LInvP sL IL Hemp LPL) as LL.
  specialize (Es (proj1 (lc_quiet _ _ LL)) (proj2 (lc_quiet _ _ LL))).
  pose proof (requeue_only_heap _ _ _ ER) as OR.
  assert (Hn : nodes s' = nodes sL) by (rewrite Es; cbn; apply (oh_nodes _ _ OR)).
  pose proof (nodes_eq_nd _ _ Hn) as Hnd.
  assert (Hlog : log s' = (hev ++ [EvPassEnd XOk]) ++ evsL ++ [EvPassStart] ++ log s).
  { rewrite Es. cbn. rewrite (oh_log _ _ OR), ElL. rewrite <- !app_assoc. reflexivity. }
  assert (HNB : Forall (fun x => isBindFn x = false) (hev ++ [EvPassEnd XOk])).
  { apply Forall_app. split; [|constructor; [reflexivity|constructor]].
    eapply List.Forall_impl; [|exact Hhev]. intros e0 He0. destruct e0; try reflexivity; destruct He0. }
  intros evs pre x root a mid e post n E1 E2 Hne Hs.
  assert (Hevs : evs = (hev ++ [EvPassEnd XOk]) ++ evsL ++ [EvPassStart]).
  { apply (app_inv_tail (log s)). rewrite <- E1, Hlog, <- !app_assoc. reflexivity. }
  rewrite Hevs in E2.
  destruct (split_nobind_l _ _ pre (EvBindFn a x root) _ E2 eq_refl HNB) as (pre2 & -> & E3).
  change (pre2 ++ EvBindFn a x root :: mid ++ e :: post) with (pre2 ++ (EvBindFn a x root :: mid) ++ e :: post) in E3.
  rewrite app_assoc in E3.
  destruct (split_quiet_r evsL [EvPassStart] _ e post E3 ltac:(constructor; [reflexivity|constructor]) ltac:(congruence))
    as (post2 & -> & E4).
  rewrite <- app_assoc in E4. cbn [app] in E4.
  destruct (KL pre2 x root a mid e post2 n E4 Hne) as [X|[X|X]]; [|auto|auto|].
  - apply (sub_ext sL s'); [intros y; rewrite Hnd; reflexivity|exact Hs].
  - right. right. apply elem_of_app. left. exact X.
Qed.
