(** Executable correspondence runner for the recompute heap: replays an operation trace
    recorded from the Go implementation (through the verif hooks) on [Heap] and reports
    the index of the first observation that differs. *)
From incr Require Import Base Heap.

Inductive hop :=
| HAdd (n : nid) (h : Z)
| HAddIfNotPresent (n : nid) (h : Z)
| HRemove (n : nid)
| HFix (n : nid) (h : Z)
| HRemoveMin
| HTakeMinBlock
| HClear.

(* what the harness records after every operation *)
Record hobs := HObs {
  o_panicked : bool;
  o_ret : list nid;        (* node(s) handed back by the operation *)
  o_len : Z;
  o_ids : list nid;        (* queued nodes, by height then queue order *)
  o_min : option Z;        (* minHeightUnsafe, None = empty *)
  o_sane : bool            (* sanityCheck() == nil *)
}.

Definition hstep (w : Heap.t) (o : hop) : res (list nid * Heap.t) :=
  match o with
  | HAdd n h => w' <-! Heap.add w n h; Ok ([], w')
  | HAddIfNotPresent n h => w' <-! Heap.addIfNotPresent w n h; Ok ([], w')
  | HRemove n => w' <-! Heap.remove w n; Ok ([], w')
  | HFix n h => w' <-! Heap.fix_ w n h; Ok ([], w')
  | HRemoveMin => match Heap.removeMin w with
                  | Some (n, w') => Ok ([n], w')
                  | None => Ok ([], w)
                  end
  | HTakeMinBlock => Ok (Heap.takeMinBlock w)
  | HClear => Ok (Heap.clear w)
  end.

Definition list_eqb (a b : list nid) : bool := bool_decide (a = b).
Definition optz_eqb (a b : option Z) : bool := bool_decide (a = b).

Definition obs_of (r : list nid) (w : Heap.t) : hobs :=
  HObs false r (Heap.len w) (Heap.ids w) (Heap.minHeight w) (Heap.sanity w).

Definition obs_eqb (a b : hobs) : bool :=
  Bool.eqb (o_panicked a) (o_panicked b) &&
  (o_panicked a ||
   (list_eqb (o_ret a) (o_ret b) && (o_len a =? o_len b) && list_eqb (o_ids a) (o_ids b)
    && optz_eqb (o_min a) (o_min b) && Bool.eqb (o_sane a) (o_sane b))).

(* index of the first disagreement, None if the whole trace agrees *)
Fixpoint replay (w : Heap.t) (tr : list (hop * hobs)) (i : nat) : option nat :=
  match tr with
  | [] => None
  | (o, expected) :: tr =>
    match hstep w o with
    | Ok (r, w') => if obs_eqb (obs_of r w') expected then replay w' tr (S i) else Some i
    | Crash _ => if o_panicked expected then None else Some i
    | OutOfFuel => Some i
    end
  end.

Definition case := (nat * list (hop * hobs))%type.   (* initial capacity, trace *)

Definition mismatches (cs : list case) : list (nat * nat) :=
  omap (fun '(k, (cap0, tr)) => match replay (Heap.empty cap0) tr 0 with
                                | Some i => Some (k, i) | None => None end)
       (imap (fun k c => (k, c)) cs).
