(** Executable correspondence runner for incrutil/mapi (C17): replays histories recorded
    from the real operators (harness/cmd/mapitrace) on the models of Mapi.v and reports the
    first step at which the model's value differs from what the Go node held.

    The function / predicate / equality families below are the ones the Go driver
    instantiates the operators with (same formulas, small non-negative integers, [÷] and
    [rem] are Go's truncating [/] and [%]). *)
From incr Require Import Base MapiSpec Mapi.

(** ** parameter families *)
Definition eq_of (e : Z) : eqfn :=
  if e =? 0 then Some Z.eqb
  else if e =? 1 then None
  else Some (fun a b => (a ÷ 2) =? (b ÷ 2)).

(* f k v = a*k + b*(v/d) + c *)
Definition fparams := (Z * Z * Z * Z)%type.
Definition f_of (p : fparams) (k v : Z) : Z :=
  let '(a, b, c, d) := p in a * k + b * (v ÷ d) + c.

(* pred k v = (pk*k + pv*(v/d)) % pm == pr *)
Definition pparams := (Z * Z * Z * Z * Z)%type.
Definition p_of (p : pparams) (k v : Z) : bool :=
  let '(pk, pv, d, pm, pr) := p in Z.rem (pk * k + pv * (v ÷ d)) pm =? pr.

Definition fm_of (fp : fparams) (pp : pparams) (k v : Z) : option Z :=
  if p_of pp k v then Some (f_of fp k v) else None.

(* merge fn: s = (HasLeft ? la*(Left/d) : lz) + (HasRight ? ra*(Right/d) : rz) + ka*k; drop when s % pm == pr *)
Definition mparams := (Z * Z * Z * Z * Z * Z * Z * Z)%type.
Definition m_of (p : mparams) (k : Z) (e : merge_element) : option Z :=
  let '(la, lz, ra, rz, ka, d, pm, pr) := p in
  let s := (if me_has_left e then la * (me_left e ÷ d) else lz)
         + (if me_has_right e then ra * (me_right e ÷ d) else rz) + ka * k in
  if Z.rem s pm =? pr then None else Some s.

(* combine family for Reduce: 0 sum, 1 max, 2 first, 3 last, 4 min *)
Definition comb_of (c : Z) (x y : Z) : Z :=
  if c =? 0 then x + y else if c =? 1 then Z.max x y else if c =? 2 then x
  else if c =? 3 then y else Z.min x y.

(** ** cases *)
Notation zentries := (list (Z * Z)).
Definition mk (l : zentries) : zmap := list_to_map l.
Definition obs := list zentries.

Inductive opk :=
| KMapValues (e : Z) (fp : fparams)
| KFilterMapValues (e : Z) (fp : fparams) (pp : pparams)
| KMerge (eL eR : Z) (mp : mparams)
| KUnorderedFold (e : Z) (initial : Z) (fp : fparams)
| KSum (e : Z)
| KCardinality
| KCounti (e : Z) (pp : pparams)
| KReduce (empty : Z) (fp : fparams) (comb : Z)
| KMaxValue
| KMinValue
| KSubrange (e : Z)
| KPartition (e : Z) (pp : pparams)
| KKeys
| KChanges (e : Z)
| KAdded
| KRemoved.

(* inputs read by one recompute: the (left) map, the right map (Merge), the bounds (Subrange) *)
Definition inp := (zentries * zentries * (Z * Z))%type.

Inductive sev := SvSelect (k : Z) | SvObserve (k : Z) | SvUnobserve (k : Z) | SvSet (m : zentries) | SvPass.
Inductive jev := JvSetOuter (m : zentries) | JvSetInner (x v : Z) | JvSetBase (i v : Z) | JvUnobserve | JvObserve | JvPass (early : list Z).

Inductive case :=
| CSimple (op : opk) (steps : list (inp * obs))
| CSelector (e : Z) (evs : list (sev * option obs))
| CJoin (fixed : bool) (vals0 bvals0 : zentries) (cdefs : list (Z * Join.cdef)) (evs : list (jev * option obs)).

Definition obs_eqb (a b : obs) : bool := bool_decide (a = b).

Fixpoint replay {St : Type} (stab : St -> inp -> St) (view : St -> obs) (s : St)
    (steps : list (inp * obs)) (i : nat) : option nat :=
  match steps with
  | [] => None
  | (x, expected) :: steps =>
    let s' := stab s x in
    if obs_eqb (view s') expected then replay stab view s' steps (S i) else Some i
  end.

Definition zb (b : bool) : Z := if b then 1 else 0.
Definition in_m (x : inp) : zmap := mk x.1.1.
Definition in_r (x : inp) : zmap := mk x.1.2.
Definition in_b (x : inp) : Z * Z := x.2.

Definition run_simple (op : opk) (steps : list (inp * obs)) : option nat :=
  match op with
  | KMapValues e fp =>
    replay (fun s x => MapValues.Stabilize (eq_of e) (f_of fp) s (in_m x))
           (fun s => [entries (MapValues.value s)]) MapValues.init steps 0
  | KFilterMapValues e fp pp =>
    replay (fun s x => FilterMapValues.Stabilize (eq_of e) (fm_of fp pp) s (in_m x))
           (fun s => [entries (FilterMapValues.value s)]) FilterMapValues.init steps 0
  | KMerge eL eR mp =>
    replay (fun s x => Merge.Stabilize (eq_of eL) (eq_of eR) (m_of mp) s (in_m x) (in_r x))
           (fun s => [entries (Merge.value s)]) Merge.init steps 0
  | KUnorderedFold e initial fp =>
    replay (fun s x => UnorderedFold.Stabilize (eq_of e)
                         (fun acc k v => acc + f_of fp k v) (fun acc k v => acc - f_of fp k v) s (in_m x))
           (fun s => [[(0, UnorderedFold.value s)]]) (UnorderedFold.init initial) steps 0
  | KSum e =>
    replay (fun s x => UnorderedFold.Sum_Stabilize (eq_of e) s (in_m x))
           (fun s => [[(0, UnorderedFold.value s)]]) UnorderedFold.Sum_init steps 0
  | KCardinality =>
    replay (fun s x => UnorderedFold.Cardinality_Stabilize s (in_m x))
           (fun s => [[(0, UnorderedFold.value s)]]) UnorderedFold.Cardinality_init steps 0
  | KCounti e pp =>
    replay (fun s x => UnorderedFold.Counti_Stabilize (eq_of e) (p_of pp) s (in_m x))
           (fun s => [[(0, UnorderedFold.value s)]]) UnorderedFold.Counti_init steps 0
  | KReduce empty fp comb =>
    replay (fun s x => Reduce.Stabilize empty (f_of fp) (comb_of comb) s (in_m x))
           (fun s => [[(0, s)]]) (Reduce.init empty) steps 0
  | KMaxValue =>
    replay (fun s x => Reduce.MaxValue_Stabilize s (in_m x))
           (fun s => [[(s.1, zb s.2)]]) (Reduce.init Reduce.optional_empty) steps 0
  | KMinValue =>
    replay (fun s x => Reduce.MinValue_Stabilize s (in_m x))
           (fun s => [[(s.1, zb s.2)]]) (Reduce.init Reduce.optional_empty) steps 0
  | KSubrange e =>
    replay (fun s x => Subrange.Stabilize (eq_of e) s (in_m x) (in_b x))
           (fun s => [entries (Subrange.value s)]) Subrange.init steps 0
  | KPartition e pp =>
    replay (fun s x => Partition.Stabilize (eq_of e) (p_of pp) s (in_m x))
           (fun s => [entries (Partition.value s).1; entries (Partition.value s).2]) Partition.init steps 0
  | KKeys =>
    replay (fun s x => Keys.Stabilize s (in_m x))
           (fun s => [map (fun k => (k, 0)) s]) Keys.init steps 0
  | KChanges e =>
    replay (fun s x => Changes.Stabilize (eq_of e) s (in_m x))
           (fun s => let v := Changes.value s in
                     [entries (cs_added v); entries (cs_removed v); entries (cs_updated v)])
           Changes.init steps 0
  | KAdded =>
    replay (fun s x => AddedOp.Stabilize s (in_m x)) (fun s => [entries (AddedOp.val s)]) AddedOp.init steps 0
  | KRemoved =>
    replay (fun s x => RemovedOp.Stabilize s (in_m x)) (fun s => [entries (RemovedOp.val s)]) RemovedOp.init steps 0
  end.

(** Selector: after a pass the harness reads every per-key node ever selected. *)
Definition sel_step (eq : eqfn) (s : Selector.t) (e : sev) : Selector.t :=
  Selector.step eq s
    match e with
    | SvSelect k => Selector.Select k
    | SvObserve k => Selector.Observe k
    | SvUnobserve k => Selector.Unobserve k
    | SvSet m => Selector.SetInput (mk m)
    | SvPass => Selector.Pass
    end.

Definition sel_view (s : Selector.t) : obs :=
  [omap (fun k => match Selector.selected s !! k with
                  | Some n => Some (k, Selector.value n) | None => None end)
        (sorted_keys (dom (Selector.selected s)))].

Fixpoint replay_ev {St E : Type} (step : St -> E -> St) (view : St -> obs) (s : St)
    (evs : list (E * option obs)) (i : nat) : option nat :=
  match evs with
  | [] => None
  | (e, expected) :: evs =>
    let s' := step s e in
    match expected with
    | Some o => if obs_eqb (view s') o then replay_ev step view s' evs (S i) else Some i
    | None => replay_ev step view s' evs (S i)
    end
  end.

Definition join_step (fixed : bool) (j : Join.t) (e : jev) : Join.t :=
  Join.step fixed j
    match e with
    | JvSetOuter m => Join.SetOuter (mk m)
    | JvSetInner x v => Join.SetInner x v
    | JvSetBase i v => Join.SetBase i v
    | JvUnobserve => Join.Unobserve
    | JvObserve => Join.Observe
    | JvPass early => Join.Pass early
    end.

Definition run_case (c : case) : option nat :=
  match c with
  | CSimple op steps => run_simple op steps
  | CSelector e evs => replay_ev (sel_step (eq_of e)) sel_view Selector.init evs 0
  | CJoin fixed vals0 bvals0 cdefs evs =>
    replay_ev (join_step fixed) (fun j => [entries (Join.value j)]) (Join.init (mk vals0) (mk bvals0) cdefs) evs 0
  end.

Definition mismatches (cs : list case) : list (nat * nat) :=
  omap (fun '(k, c) => match run_case c with Some i => Some (k, i) | None => None end)
       (imap (fun k c => (k, c)) cs).

(** Smoke tests (also the non-vacuity of the runner: a wrong expectation IS reported). *)
Example run_smoke_ok :
  mismatches [CSimple (KMapValues 0 (1, 2, 3, 1))
                [(([(1, 1); (2, 5)], [], (0, 0)), [[(1, 6); (2, 15)]]);
                 (([(2, 6); (4, 0)], [], (0, 0)), [[(2, 17); (4, 7)]])]] = [].
Proof. vm_compute. reflexivity. Qed.
Example run_smoke_bad :
  mismatches [CSimple (KSum 0) [(([(1, 1); (2, 5)], [], (0, 0)), [[(0, 7)]])]] = [(0%nat, 0%nat)].
Proof. vm_compute. reflexivity. Qed.
