(** Executable correspondence runner for the edge index: replays an append/remove trace
    recorded from a real node's child / parent / observer list (driven through the expert
    API) on [EdgeIndex] at the Go threshold 64 and reports the first step whose resulting
    list differs.  The model is a transliteration, so the ORDER of the list must agree, not
    just its content. *)
From stdpp Require Import sorting.
From incr Require Import Base EdgeIndex.
Import EdgeIndex.

(** executable form of the invariant proved in EdgeIndexProofs.v (used for self-tests and
    for the non-vacuity examples) *)
Definition positions_ofb (id : nat) (l : list nat) : list nat :=
  omap (fun '(i, x) => if (x =? id)%nat then Some i else None) (imap (fun i x => (i, x)) l).

Definition sorted_nat (l : list nat) : list nat := merge_sort le l.

Definition idx_okb (s : t) : bool :=
  match s.2 with
  | None => true
  | Some ix =>
    forallb (fun id => bool_decide (sorted_nat (posOf ix id) = positions_ofb id s.1))
            (s.1 ++ (map_to_list ix).*1)
  end.

Definition ascendingb (l : list nat) : bool := bool_decide (sorted_nat l = l).

(* One recorded step is one API call: a variadic Add<List>(a, b, ...) is several appends.
   The list read back after the call is written losslessly as [(keep, tail)]: it is the first
   [keep] entries of the list read back after the previous call (initially []), followed by
   [tail] (the driver computes the longest common prefix; this only keeps the file small).
   Index of the first disagreement, None if the whole trace agrees. *)
Definition obs := (nat * list nat)%type.
Definition decode (prev : list nat) (o : obs) : list nat := take o.1 prev ++ o.2.

Fixpoint replay (th : nat) (s : t) (prev : list nat) (tr : list (list op * obs)) (i : nat) : option nat :=
  match tr with
  | [] => None
  | (os, o) :: tr =>
    let expected := decode prev o in
    match run th os s with
    | Ok s' => if bool_decide (s'.1 = expected) then replay th s' expected tr (S i) else Some i
    | _ => Some i                    (* the Go code never panicked while recording *)
    end
  end.

Definition case := list (list op * obs).

Definition mismatches_at (th : nat) (cs : list case) : list (nat * nat) :=
  omap (fun '(k, tr) => match replay th empty [] tr 0 with Some i => Some (k, i) | None => None end)
       (imap (fun k c => (k, c)) cs).

Definition mismatches : list case -> list (nat * nat) := mismatches_at edgeIndexThreshold.

(** model self-test at a small threshold: every sequence of [n] operations over the
    alphabet runs without crash, keeps [idx_okb], and agrees with the plain list up to order *)
Fixpoint seqs (alpha : list op) (n : nat) : list (list op) :=
  match n with
  | O => [[]]
  | S n => [] :: (a ← alpha; (fun l => a :: l) <$> seqs alpha n)
  end.

Definition agrees (th : nat) (ops : list op) : bool :=
  match run th ops empty with
  | Ok s => idx_okb s && bool_decide (sorted_nat s.1 = sorted_nat (spec_run ops []))
  | _ => false
  end.

Definition selftest (th n : nat) : bool :=
  forallb (agrees th) (seqs [Append 0%nat; Append 1%nat; Append 2%nat; Remove 0%nat; Remove 1%nat] n).
