(** Proofs that [EngineInv.Inv] is an inductive invariant of [Engine.step]. *)
From incr Require Import Base Heap HeapSpec HeapProofs EngineDefs Engine EngineWf EngineLemmas EngineInv.

(** * Which projections each clause reads (extensionality lemmas) *)

Lemma chain_ext s s' : (forall n, scope (nd s' n) = scope (nd s n)) ->
  forall n t d, chain s n t d -> chain s' n t d.
Proof.
  intros Hs n t d H. induction H as [n E|n b t d E _ IH].
  - apply chain_top. rewrite Hs. exact E.
  - eapply chain_in; [rewrite Hs; exact E|exact IH].
Qed.

Lemma chain_ext_iff s s' : (forall n, scope (nd s' n) = scope (nd s n)) ->
  forall n t d, chain s' n t d <-> chain s n t d.
Proof. intros Hs n t d. split; apply chain_ext; auto. Qed.

Lemma chain_fun s n t d t' d' : chain s n t d -> chain s n t' d' -> t = t' /\ d = d'.
Proof.
  intros H. revert t' d'. induction H as [n E|n b t d E _ IH]; intros t' d' H'.
  - inversion H' as [n' E'|n' b' t'' d'' E' H'']; subst; [auto|congruence].
  - inversion H' as [n' E'|n' b' t'' d'' E' H'']; subst; [congruence|].
    assert (b' = b) as -> by congruence.
    destruct (IH _ _ H'') as [-> ->]. auto.
Qed.

Lemma mu_lt_ext s s' : (forall n, scope (nd s' n) = scope (nd s n)) ->
  forall q n, mu_lt s q n -> mu_lt s' q n.
Proof.
  intros Hs q n H tq dq tn dn Hq Hn.
  apply H; eapply chain_ext; try eassumption; intros; symmetry; apply Hs.
Qed.

Lemma texp_wf_ext s s' T e :
  (forall n, has s n -> has s' n) ->
  (forall n, has s n -> scope (nd s' n) = scope (nd s n)) ->
  (forall n, has s n -> nkind (nd s' n) = nkind (nd s n)) ->
  texp_wf s T e -> texp_wf s' T e.
Proof.
  intros Hh Hs Hk. revert e.
  fix IH 1. intros e. destruct e as [k| |t|f e|f e1 e2|c e|cs e|]; simpl; try tauto.
  - intros (H1 & H2 & H3 & H4). rewrite Hs, Hk by exact H1. auto.
  - apply IH.
  - intros [H1 H2]. split; apply IH; assumption.
  - apply IH.
  - intros [H1 H2]. split; [|apply IH; exact H2].
    clear H2. induction cs as [|c cs IHcs]; [exact I|].
    destruct H1 as [Hc Hcs]. split; [apply IH; exact Hc|apply IHcs; exact Hcs].
Qed.

Section ext.
  Context (s s' : state).

  Lemma ids_ok_ext :
    next s' = next s -> (forall n, has s' n <-> has s n) ->
    (forall n, decl (nd s' n) = decl (nd s n)) ->
    ids_ok s -> ids_ok s'.
  Proof.
    intros Hn Hh Hd [H1 H2]. split.
    - intros n Hn'. rewrite Hn. apply H1, Hh, Hn'.
    - intros n p. rewrite Hd, Hh. apply H2.
  Qed.

  Lemma binds_wf_ext :
    binds s' = binds s -> (forall n, has s' n <-> has s n) ->
    (forall n, nkind (nd s' n) = nkind (nd s n)) ->
    (forall n, decl (nd s' n) = decl (nd s n)) ->
    (forall n, scope (nd s' n) = scope (nd s n)) ->
    binds_wf s -> binds_wf s'.
  Proof.
    intros Hb Hh Hk Hd Hs H b r Hr. rewrite Hb in Hr.
    destruct (H b r Hr) as [? ? ? ? ? ? ? ? ? ? Hrn ? ? Hcases].
    constructor; rewrite ?Hh, ?Hk, ?Hd, ?Hs; try assumption.
    - intros n Hn. rewrite Hh, Hs. auto.
    - intros t d Hc. apply (chain_ext_iff s s' Hs) in Hc.
      eapply List.Forall_impl; [|apply (Hcases t d Hc)].
      intros e. apply texp_wf_ext; intros; [apply Hh; assumption|apply Hs|apply Hk].
  Qed.

  Lemma kinds_ok_ext :
    binds s' = binds s -> (forall n, has s' n <-> has s n) ->
    (forall n, nkind (nd s' n) = nkind (nd s n)) ->
    kinds_ok s -> kinds_ok s'.
  Proof. intros Hb Hh Hk H n Hn. rewrite Hk, Hb. apply H, Hh, Hn. Qed.

  Lemma scopes_ok_ext :
    binds s' = binds s -> (forall n, scope (nd s' n) = scope (nd s n)) ->
    scopes_ok s -> scopes_ok s'.
  Proof. intros Hb Hs H n b. rewrite Hs, Hb. apply H. Qed.

  Lemma scoping_ok_ext :
    binds s' = binds s ->
    (forall n, nkind (nd s' n) = nkind (nd s n)) ->
    (forall n, decl (nd s' n) = decl (nd s n)) ->
    (forall n, scope (nd s' n) = scope (nd s n)) ->
    scoping_ok s -> scoping_ok s'.
  Proof.
    intros Hb Hk Hd Hs [H1 H2 H3 H4].
    assert (Hbd : forall b, bd s' b = bd s b) by (intros; unfold bd; rewrite Hb; reflexivity).
    split.
    - intros n q. rewrite Hd, !Hs, Hk. intros Hq. destruct (H1 n q Hq) as [?|[?|(b & ? & ? & ?)]]; auto.
      right; right. exists b. rewrite Hbd. auto.
    - intros n q b. unfold inGen. rewrite Hd, !Hs, Hbd. apply H2.
    - intros b q. unfold inGen. rewrite Hbd, Hs. apply H3.
    - intros n q. rewrite Hd. intros Hq. apply (mu_lt_ext s s' Hs), H4, Hq.
  Qed.

  Lemma valid_ok_ext :
    binds s' = binds s -> (forall n, has s' n <-> has s n) ->
    (forall n, scope (nd s' n) = scope (nd s n)) ->
    (forall n, valid (nd s' n) = valid (nd s n)) ->
    (forall n, inGraph (nd s' n) = inGraph (nd s n)) ->
    valid_ok s -> valid_ok s'.
  Proof.
    intros Hb Hh Hs Hv Hg [H1 H2 H3 H4].
    assert (Hbd : forall b, bd s' b = bd s b) by (intros; unfold bd; rewrite Hb; reflexivity).
    split.
    - intros n. rewrite Hs, Hv. apply H1.
    - intros n b. unfold inGen. rewrite Hh, Hs, Hbd, Hv, Hg. apply H2.
    - intros n b. unfold inGen. rewrite Hbd, !Hv. apply H3.
    - intros n. rewrite Hg, Hv. apply H4.
  Qed.

  Lemma edges_ok_ext :
    (forall n, parents (nd s' n) = parents (nd s n)) ->
    (forall n, children (nd s' n) = children (nd s n)) ->
    edges_ok s -> edges_ok s'.
  Proof. intros Hp Hc H c p. rewrite Hp, Hc. apply H. Qed.

  Lemma zero_ok_ext :
    (forall n, inGraph (nd s' n) = inGraph (nd s n)) ->
    (forall n, parents (nd s' n) = parents (nd s n)) ->
    (forall n, children (nd s' n) = children (nd s n)) ->
    (forall n, observers (nd s' n) = observers (nd s n)) ->
    (forall n, height (nd s' n) = height (nd s n)) ->
    zero_ok s -> zero_ok s'.
  Proof. intros Hg Hp Hc Ho Hh H n. rewrite Hg, Hp, Hc, Ho, Hh. apply H. Qed.

  Lemma nec_ok_ext :
    (forall n, inGraph (nd s' n) = inGraph (nd s n)) ->
    (forall n, forceNec (nd s' n) = forceNec (nd s n)) ->
    (forall n, children (nd s' n) = children (nd s n)) ->
    (forall n, observers (nd s' n) = observers (nd s n)) ->
    nec_ok s -> nec_ok s'.
  Proof.
    intros Hg Hf Hc Ho H n. rewrite Hg, (isNecessary_ext (nd s' n) (nd s n)) by auto. apply H.
  Qed.

  Lemma par_ok_ext :
    (forall n, inGraph (nd s' n) = inGraph (nd s n)) ->
    (forall n, parents (nd s' n) = parents (nd s n)) ->
    (forall n, inGraph (nd s n) = true -> decl (nd s' n) = decl (nd s n)) ->
    par_ok s -> par_ok s'.
  Proof. intros Hg Hp Hd H n. rewrite Hg, Hp. intros Hn. rewrite Hd by exact Hn. apply H, Hn. Qed.

  Lemma height_ok_ext :
    maxHeight s' = maxHeight s ->
    (forall n, inGraph (nd s' n) = inGraph (nd s n)) ->
    (forall n, height (nd s' n) = height (nd s n)) ->
    (forall n, parents (nd s' n) = parents (nd s n)) ->
    (forall n, scope (nd s' n) = scope (nd s n)) ->
    height_ok s -> height_ok s'.
  Proof.
    intros Hm Hg Hh Hp Hs H n. rewrite Hg, Hm, Hh, Hp, Hs. intros Hn.
    destruct (H n Hn) as (H1 & H2 & H3). split; [exact H1|]. split.
    - intros p Hp'. rewrite Hh. apply H2, Hp'.
    - unfold scopeHeight in *. destruct (scope (nd s n)); [rewrite Hh|]; exact H3.
  Qed.

  Lemma heap_ok_ext :
    heap s' = heap s ->
    (forall n, inGraph (nd s' n) = inGraph (nd s n)) ->
    (forall n, height (nd s' n) = height (nd s n)) ->
    heap_ok s -> heap_ok s'.
  Proof. intros Hw Hg Hh [H1 H2]. unfold heap_ok. rewrite Hw. split; [exact H1|]. intros n. rewrite Hg, Hh. apply H2. Qed.

  Lemma count_ok_ext :
    reg s' = reg s -> obs s' = obs s -> numNodes s' = numNodes s ->
    (forall n, inGraph (nd s' n) = inGraph (nd s n)) ->
    count_ok s -> count_ok s'.
  Proof.
    intros Hr Ho Hn Hg [H1 H2 H3]. split; rewrite ?Hr, ?Ho, ?Hn; try assumption.
    intros n. rewrite Hg. apply H2.
  Qed.

  Lemma obs_ok_ext :
    obs s' = obs s -> next s' = next s -> (forall n, has s' n <-> has s n) ->
    (forall n, observers (nd s' n) = observers (nd s n)) ->
    (forall n, scope (nd s' n) = scope (nd s n)) ->
    obs_ok s -> obs_ok s'.
  Proof.
    intros Ho Hn Hh Hob Hs [H1 H2 H3]. split.
    - intros n o. rewrite Hob, Ho. apply H1.
    - intros n. rewrite Hob. apply H2.
    - intros o n. rewrite Ho, Hn, Hh, Hs. apply H3.
  Qed.

  Lemma quiet_ext :
    adj s' = adj s -> invq s' = invq s -> status s' = status s -> setDuring s' = setDuring s ->
    setRemoved s' = setRemoved s -> handlers s' = handlers s ->
    (forall n, forceNec (nd s' n) = forceNec (nd s n)) ->
    (forall n, hAdj (nd s' n) = hAdj (nd s n)) ->
    quiet s -> quiet s'.
  Proof.
    intros Ha Hi Hst Hsd Hsr Hh Hf Hhj []. split; rewrite ?Ha, ?Hi, ?Hst, ?Hsd, ?Hsr, ?Hh; try assumption.
    - intros n. rewrite Hf. auto.
    - intros n. rewrite Hhj. auto.
  Qed.

  Lemma shape_ok_ext : adj s' = adj s -> maxHeight s' = maxHeight s -> shape_ok s -> shape_ok s'.
  Proof. intros Ha Hm []. split; rewrite ?Ha, ?Hm; assumption. Qed.

  Lemma stamps_ok_ext :
    stabNum s' = stabNum s ->
    (forall n, recomputedAt (nd s' n) = recomputedAt (nd s n)) ->
    (forall n, changedAt (nd s' n) = changedAt (nd s n)) ->
    (forall n, setAt (nd s' n) = setAt (nd s n)) ->
    stamps_ok s -> stamps_ok s'.
  Proof.
    intros Hn Hr Hc Hs [H1 H2]. split; rewrite Hn; [exact H1|].
    intros n. rewrite Hr, Hc, Hs. apply H2.
  Qed.

  Lemma life_ok_ext :
    log s' = log s ->
    (forall n, inGraph (nd s' n) = inGraph (nd s n)) ->
    (forall n, valid (nd s' n) = valid (nd s n)) ->
    life_ok s -> life_ok s'.
  Proof.
    intros Hl Hg Hv [H1 H2 H3]. split; rewrite Hl; [exact H1| |].
    - intros n. rewrite Hg. apply H2.
    - intros n. rewrite Hv. apply H3.
  Qed.
End ext.

(** * Consequences of the invariant used everywhere *)
Lemma edges_parent_child s c p : edges_ok s -> (p ∈ parents (nd s c) <-> c ∈ children (nd s p)).
Proof. intros H. rewrite <- !count_pos_iff, (H c p). reflexivity. Qed.

Lemma parent_has s c p : edges_ok s -> p ∈ parents (nd s c) -> has s p.
Proof. intros H Hp. apply (edges_parent_child s c p H) in Hp. eapply has_children, Hp. Qed.

Lemma child_has s c p : edges_ok s -> c ∈ children (nd s p) -> has s c.
Proof. intros H Hp. apply (edges_parent_child s c p H) in Hp. eapply has_parents, Hp. Qed.

Lemma parent_registered s c p : edges_ok s -> zero_ok s -> p ∈ parents (nd s c) -> inGraph (nd s p) = true.
Proof.
  intros He Hz Hp. apply (edges_parent_child s c p He) in Hp.
  destruct (inGraph (nd s p)) eqn:E; [reflexivity|].
  destruct (Hz p E) as (_ & Hc & _). rewrite Hc in Hp. inversion Hp.
Qed.

Lemma child_registered s c p : edges_ok s -> zero_ok s -> c ∈ children (nd s p) -> inGraph (nd s c) = true.
Proof.
  intros He Hz Hp. apply (edges_parent_child s c p He) in Hp.
  destruct (inGraph (nd s c)) eqn:E; [reflexivity|].
  destruct (Hz c E) as (Hc & _). rewrite Hc in Hp. inversion Hp.
Qed.

Lemma chain_exists s : scopes_ok s -> forall n, exists t d, chain s n t d.
Proof.
  intros Hs n. induction (lt_wf n) as [n _ IH].
  destruct (scope (nd s n)) as [b|] eqn:E.
  - destruct (Hs n b E) as [_ Hlt]. destruct (IH b ltac:(lia)) as (t & d & H).
    exists t, (S d). eapply chain_in; eauto.
  - exists n, 0%nat. apply chain_top, E.
Qed.

Lemma chain_top_le s : scopes_ok s -> forall n t d, chain s n t d -> (t <= n)%nat.
Proof.
  intros Hs n t d H. induction H as [n E|n b t d E _ IH]; [lia|].
  destruct (Hs n b E) as [_ Hlt]. lia.
Qed.

(** * The initial state *)
Lemma nd_init mh n : nd (init mh) n = dummy.
Proof. unfold nd, init. cbn. rewrite lookup_empty. reflexivity. Qed.

Lemma has_init mh n : ~ has (init mh) n.
Proof. unfold has, init. cbn. rewrite lookup_empty. intros [x H]. discriminate. Qed.

Theorem Inv_init : forall mh, (0 < mh)%nat -> Inv (init mh).
Proof.
  intros mh Hmh.
  assert (Hnd : forall n, nd (init mh) n = dummy) by apply nd_init.
  constructor.
  - split; [intros n H; destruct (has_init mh n H)|]. intros n p. rewrite Hnd. cbn. intros H; inversion H.
  - intros b r. unfold init; cbn. rewrite lookup_empty. discriminate.
  - intros n H. destruct (has_init mh n H).
  - intros n b. rewrite Hnd. cbn. discriminate.
  - split.
    + intros n q. rewrite Hnd. cbn. intros H; inversion H.
    + intros n q b. rewrite Hnd. cbn. intros H; inversion H.
    + intros b q. unfold bd, init; cbn. rewrite lookup_empty. cbn. discriminate.
    + intros n q. rewrite Hnd. cbn. intros H; inversion H.
  - split.
    + intros n _. rewrite Hnd. reflexivity.
    + intros n b H. destruct (has_init mh n H).
    + intros n b. unfold inGen, bd, init; cbn. rewrite lookup_empty. cbn. intros H; inversion H.
    + intros n. rewrite Hnd. cbn. discriminate.
  - intros c p. rewrite !Hnd. reflexivity.
  - intros n _. rewrite Hnd. cbn. auto.
  - intros n. rewrite Hnd. reflexivity.
  - intros n. rewrite Hnd. cbn. discriminate.
  - intros n. rewrite Hnd. cbn. discriminate.
  - split; [apply hinv_empty|]. intros n. unfold init; cbn. unfold Heap.ids, Heap.empty; cbn.
    rewrite concat_replicate_nil. intros H; inversion H.
  - split; unfold init; cbn.
    + constructor.
    + intros n. fold (init mh). rewrite Hnd. cbn. split; [intros H; inversion H|discriminate].
    + reflexivity.
  - split.
    + intros n o. rewrite Hnd. unfold init; cbn. rewrite lookup_empty. split; [intros H; inversion H|discriminate].
    + intros n. rewrite Hnd. cbn. constructor.
    + intros o n. unfold init; cbn. rewrite lookup_empty. discriminate.
  - split; try reflexivity; try (intros n; rewrite Hnd; reflexivity).
    unfold init; cbn. apply Forall_replicate. reflexivity.
  - split; unfold init; cbn; [lia|]. rewrite replicate_length. lia.
  - split; [unfold init; cbn; lia|]. intros n. rewrite Hnd. unfold init; cbn. lia.
  - split.
    + exact I.
    + intros n. rewrite Hnd. unfold init; cbn. split; discriminate.
    + intros n. rewrite Hnd. unfold init; cbn. split; [discriminate|intros H; inversion H].
Qed.

(** * Extending the state by fresh, unregistered node records (construction, bind functions) *)
Definition dyn_eq (x y : node) : Prop :=
  height x = height y /\ hAdj x = hAdj y /\ recomputedAt x = recomputedAt y /\
  changedAt x = changedAt y /\ setAt x = setAt y /\ parents x = parents y /\
  children x = children y /\ observers x = observers y /\ valid x = valid y /\
  forceNec x = forceNec y /\ inGraph x = inGraph y.

Lemma dyn_eq_refl x : dyn_eq x x.
Proof. repeat split. Qed.

Lemma dyn_eq_fresh k d sc v : dyn_eq (fresh_node k d sc v) dummy.
Proof. repeat split. Qed.

Section extend.
  Context (s s' : state).
  Hypothesis (Hnext : (next s <= next s')%nat).
  Hypothesis (Hhas1 : forall m, has s m -> has s' m).
  Hypothesis (Hhas2 : forall m, has s' m -> has s m \/ (next s <= m)%nat).
  Hypothesis (Hdyn : forall m, dyn_eq (nd s' m) (nd s m)).
  Hypothesis (Hdecl : forall m, has s m -> decl (nd s' m) = decl (nd s m)).
  Hypothesis (Hscope : forall m, has s m -> scope (nd s' m) = scope (nd s m)).
  Hypothesis (Hreg : reg s' = reg s) (Hobs : obs s' = obs s) (Hheap : heap s' = heap s)
             (Hadj : adj s' = adj s) (Hinvq : invq s' = invq s) (HstabNum : stabNum s' = stabNum s)
             (Hstatus : status s' = status s) (HnumNodes : numNodes s' = numNodes s)
             (HsetDuring : setDuring s' = setDuring s) (HsetRemoved : setRemoved s' = setRemoved s)
             (Hhandlers : handlers s' = handlers s) (HmaxHeight : maxHeight s' = maxHeight s)
             (Hlog : log s' = log s).

  Local Ltac dyn m := destruct (Hdyn m) as (Dh & Dhj & Dr & Dc & Dsa & Dp & Dch & Do & Dv & Df & Dg).

  Lemma extend_edges : edges_ok s -> edges_ok s'.
  Proof. apply edges_ok_ext; intros m; dyn m; assumption. Qed.

  Lemma extend_zero : zero_ok s -> zero_ok s'.
  Proof. apply zero_ok_ext; intros m; dyn m; assumption. Qed.

  Lemma extend_nec : nec_ok s -> nec_ok s'.
  Proof. apply nec_ok_ext; intros m; dyn m; assumption. Qed.

  Lemma extend_par : par_ok s -> par_ok s'.
  Proof.
    apply par_ok_ext; try (intros m; dyn m; assumption).
    intros m Hm. apply Hdecl, has_inGraph, Hm.
  Qed.

  Lemma extend_height : height_ok s -> height_ok s'.
  Proof.
    intros H n. dyn n. rewrite Dg, Dh, Dp, HmaxHeight. intros Hn.
    destruct (H n Hn) as (H1 & H2 & H3). split; [exact H1|]. split.
    - intros p Hp. destruct (Hdyn p) as (Dh' & _). rewrite Dh'. apply H2, Hp.
    - rewrite Hscope by (apply has_inGraph, Hn). unfold scopeHeight in *.
      destruct (scope (nd s n)) as [b|]; [|exact H3].
      destruct (Hdyn b) as (Dh' & _). rewrite Dh'. exact H3.
  Qed.

  Lemma extend_heap : heap_ok s -> heap_ok s'.
  Proof. apply heap_ok_ext; [exact Hheap| |]; intros m; dyn m; assumption. Qed.

  Lemma extend_count : count_ok s -> count_ok s'.
  Proof. apply count_ok_ext; try assumption. intros m; dyn m; assumption. Qed.

  Lemma extend_obs : ids_ok s -> obs_ok s -> obs_ok s'.
  Proof.
    intros [Hlt _] [H1 H2 H3]. split.
    - intros n o. dyn n. rewrite Do, Hobs. apply H1.
    - intros n. dyn n. rewrite Do. apply H2.
    - intros o n. rewrite Hobs. intros Ho. destruct (H3 o n Ho) as (Ha & Hb & Hc).
      split; [lia|]. split.
      + intros Hs'. destruct (Hhas2 o Hs') as [?|?]; [contradiction|lia].
      + rewrite Hscope; [exact Hc|]. apply (has_observers s n o). apply H1, Ho.
  Qed.

  Lemma extend_quiet : quiet s -> quiet s'.
  Proof. apply quiet_ext; try assumption; intros m; dyn m; assumption. Qed.

  Lemma extend_shape : shape_ok s -> shape_ok s'.
  Proof. apply shape_ok_ext; assumption. Qed.

  Lemma extend_stamps : stamps_ok s -> stamps_ok s'.
  Proof. apply stamps_ok_ext; try assumption; intros m; dyn m; assumption. Qed.

  Lemma extend_life : life_ok s -> life_ok s'.
  Proof. apply life_ok_ext; try assumption; intros m; dyn m; assumption. Qed.
End extend.

Lemma bind_wf_mono s s' b r :
  (forall n, has s n -> has s' n) ->
  (forall n, has s n -> nkind (nd s' n) = nkind (nd s n)) ->
  (forall n, has s n -> decl (nd s' n) = decl (nd s n)) ->
  (forall n, scope (nd s' n) = scope (nd s n)) ->
  bind_wf s b r -> bind_wf s' b r.
Proof.
  intros Hh Hk Hd Hs [? ? ? Hl Hm ? ? ? ? ? Hrn ? ? Hcases].
  constructor; rewrite ?Hk, ?Hd, ?Hs by assumption; auto.
  - intros n Hn. destruct (Hrn n Hn). rewrite Hs. auto.
  - intros t d Hc. apply (chain_ext_iff s s' Hs) in Hc.
    eapply List.Forall_impl; [|apply (Hcases t d Hc)].
    intros e. apply texp_wf_ext; intros; [apply Hh; assumption|apply Hs|apply Hk; assumption].
Qed.

Lemma isTop_true s n : isTop s n = true -> has s n /\ scope (nd s n) = None.
Proof.
  unfold isTop, has, nd. destruct (nodes s !! n) as [x|]; [|discriminate].
  simpl. intros H%bool_decide_eq_true. eauto.
Qed.

Lemma chain_top_inv s n t d : scope (nd s n) = None -> chain s n t d -> t = n /\ d = 0%nat.
Proof. intros E H. inversion H; subst; [auto|congruence]. Qed.

(** * Construction of a top-level node *)
Section new_top.
  Context (s : state) (k : kind) (d : list nid) (v : Z).
  Hypothesis (HI : Inv s).
  Hypothesis (Hd : forall p, p ∈ d -> has s p /\ scope (nd s p) = None).
  Hypothesis (Hk : match k with KBindLhs _ | KBindMain _ => False | _ => True end).
  Let s' := (newNode s k d None v).1.
  Let x := next s.

  Local Lemma nt_x : ~ has s x.
  Proof. intros H. apply (io_lt s (inv_ids s HI)) in H. unfold x in H. lia. Qed.

  Local Lemma nt_nd m : nd s' m = if decide (m = x) then fresh_node k d None v else nd s m.
  Proof. apply nd_newNode. Qed.

  Local Lemma nt_nd_ne m : m <> x -> nd s' m = nd s m.
  Proof. intros H. rewrite nt_nd, decide_False by exact H. reflexivity. Qed.

  Local Lemma nt_nd_has m : has s m -> nd s' m = nd s m.
  Proof. intros H. apply nt_nd_ne. intros ->. exact (nt_x H). Qed.

  Local Lemma nt_dyn m : dyn_eq (nd s' m) (nd s m).
  Proof.
    rewrite nt_nd. destruct (decide (m = x)) as [->|]; [|apply dyn_eq_refl].
    rewrite (not_has_nd s x nt_x). apply dyn_eq_fresh.
  Qed.

  Local Lemma nt_scope m : scope (nd s' m) = scope (nd s m).
  Proof.
    rewrite nt_nd. destruct (decide (m = x)) as [->|]; [|reflexivity].
    rewrite (not_has_nd s x nt_x). reflexivity.
  Qed.

  Local Lemma nt_has m : has s' m <-> m = x \/ has s m.
  Proof. apply has_newNode. Qed.

  Local Lemma nt_binds : binds s' = binds s.
  Proof. unfold s'. rewrite binds_newNode. reflexivity. Qed.

  Local Lemma nt_bd b : bd s' b = bd s b.
  Proof. unfold bd. rewrite nt_binds. reflexivity. Qed.

  Lemma Inv_newNode_top : Inv s'.
  Proof.
    destruct HI as [Iids Ibinds Ikinds Iscopes Iscoping Ivalid Iedges Izero Inec Ipar Iheight Iheap
                    Icount Iobs Iquiet Ishape Istamps Ilife].
    assert (Hnext : next s' = S x) by (unfold s'; apply next_newNode).
    assert (Hhas1 : forall m, has s m -> has s' m) by (intros m H; apply nt_has; auto).
    assert (Hhas2 : forall m, has s' m -> has s m \/ (next s <= m)%nat).
    { intros m [->|H]%nt_has; [right; unfold x; lia|auto]. }
    constructor.
    - (* ids *) split.
      + intros n [->|H]%nt_has; [lia|]. apply (io_lt s Iids) in H. unfold x in *. lia.
      + intros n p. rewrite nt_nd. destruct (decide (n = x)) as [->|].
        * cbn. intros Hp. apply Hhas1, Hd, Hp.
        * intros Hp. eapply Hhas1, (io_decl s Iids), Hp.
    - (* binds *) intros b r. rewrite nt_binds. intros Hr.
      apply (bind_wf_mono s s'); auto using nt_scope.
      + intros n Hn. rewrite nt_nd_has by exact Hn. reflexivity.
      + intros n Hn. rewrite nt_nd_has by exact Hn. reflexivity.
    - (* kinds *) intros n. rewrite nt_nd, nt_binds. destruct (decide (n = x)) as [->|Hne].
      + intros _. cbn. destruct k; try exact I; contradiction.
      + intros [?|H]%nt_has; [contradiction|]. apply Ikinds, H.
    - (* scopes *) apply (scopes_ok_ext s s'); auto using nt_binds, nt_scope.
    - (* scoping *) destruct Iscoping as [S1 S2 S3 S4]. split.
      + intros n q. rewrite nt_nd. destruct (decide (n = x)) as [->|Hne].
        * cbn. intros Hq. left. rewrite nt_scope. apply Hd, Hq.
        * rewrite !nt_scope. fold (nd s n). intros Hq.
          destruct (S1 n q Hq) as [?|[?|(b & ? & ? & ?)]]; auto;
          right; right; exists b; rewrite nt_bd; auto.
      + intros n q b. unfold inGen. rewrite nt_bd, !nt_scope.
        rewrite (nt_nd n). destruct (decide (n = x)) as [->|Hne].
        * rewrite (not_has_nd s x nt_x). cbn. discriminate.
        * apply S2.
      + intros b q. unfold inGen. rewrite nt_bd, nt_scope. apply S3.
      + intros n q. rewrite nt_nd. destruct (decide (n = x)) as [->|Hne].
        * cbn. intros Hq tq dq tn dn Cq Cn.
          destruct (Hd q Hq) as [Hhq Hsq].
          apply chain_top_inv in Cq as [-> ->]; [|rewrite nt_scope; exact Hsq].
          apply chain_top_inv in Cn as [-> ->];
            [|rewrite nt_scope, (not_has_nd s x nt_x); reflexivity].
          left. apply (io_lt s Iids) in Hhq. unfold x. lia.
        * intros Hq. apply (mu_lt_ext s s' nt_scope). apply S4, Hq.
    - (* valid *) destruct Ivalid as [V1 V2 V3 V4]. split.
      + intros n. rewrite nt_scope. destruct (nt_dyn n) as (_&_&_&_&_&_&_&_&->&_). apply V1.
      + intros n b [->|Hn]%nt_has.
        * rewrite nt_scope, (not_has_nd s x nt_x). cbn. discriminate.
        * rewrite nt_nd_has by exact Hn. unfold inGen. rewrite nt_bd. apply V2, Hn.
      + intros n b. unfold inGen. rewrite nt_bd.
        destruct (nt_dyn n) as (_&_&_&_&_&_&_&_&->&_).
        destruct (nt_dyn b) as (_&_&_&_&_&_&_&_&->&_). apply V3.
      + intros n. destruct (nt_dyn n) as (_&_&_&_&_&_&_&_&->&_&->). apply V4.
    - apply (extend_edges s s' nt_dyn Iedges).
    - apply (extend_zero s s' nt_dyn Izero).
    - apply (extend_nec s s' nt_dyn Inec).
    - apply (extend_par s s' nt_dyn); [|exact Ipar]. intros m Hm. rewrite nt_nd_has by exact Hm. reflexivity.
    - apply (extend_height s s' nt_dyn); [| |exact Iheight].
      + intros m Hm. apply nt_scope.
      + unfold s'. apply maxHeight_newNode.
    - apply (extend_heap s s' nt_dyn); [|exact Iheap]. unfold s'. apply heap_newNode.
    - apply (extend_count s s' nt_dyn); [| | |exact Icount]; unfold s'.
      + apply reg_newNode. + apply obs_newNode. + apply numNodes_newNode.
    - apply (extend_obs s s'); try assumption.
      + rewrite Hnext. unfold x. lia.
      + apply nt_dyn.
      + intros m Hm. rewrite nt_nd_has by exact Hm. reflexivity.
      + intros m Hm. apply nt_scope.
      + unfold s'. apply obs_newNode.
    - apply (extend_quiet s s' nt_dyn); [| | | | | |exact Iquiet]; unfold s'.
      + apply adj_newNode. + apply invq_newNode. + apply status_newNode.
      + apply setDuring_newNode. + apply setRemoved_newNode. + apply handlers_newNode.
    - apply (extend_shape s s'); [| |exact Ishape]; unfold s'.
      + apply adj_newNode. + apply maxHeight_newNode.
    - apply (extend_stamps s s' nt_dyn); [|exact Istamps]. unfold s'. apply stabNum_newNode.
    - apply (extend_life s s' nt_dyn); [|exact Ilife]. unfold s'. apply log_newNode.
  Qed.
End new_top.

(** templates accepted by [op_ok] and [op_clean] are well-formed for a bind created now *)
Lemma texp_ok_wf s : ids_ok s -> forall e root,
  texp_ok s root e = true -> texp_top s e = true -> texp_wf s (next s) e.
Proof.
  intros Hids. fix IH 1. intros e root. destruct e as [k| |t|f e|f e1 e2|c e|cs e|]; simpl; try tauto.
  - intros [Hh Hk]%isUserNode_true [_ Hs]%isTop_true. split; [exact Hh|]. split; [exact Hs|].
    split; [apply (io_lt s Hids), Hh|exact Hk].
  - apply IH.
  - intros [H1 H2]%andb_true_iff [H3 H4]%andb_true_iff. split; eapply IH; eauto.
  - apply IH.
  - intros [[_ H1]%andb_true_iff H2]%andb_true_iff [H3 H4]%andb_true_iff.
    split; [|eapply IH; eauto]. clear H2 H4.
    induction cs as [|c cs IHcs]; [exact I|]. simpl in H1, H3.
    apply andb_true_iff in H1 as [H1 H1']. apply andb_true_iff in H3 as [H3 H3'].
    split; [eapply IH; eauto|apply IHcs; assumption].
Qed.

Section new_bind.
  Context (s : state) (cases : list texp) (a : nid).
  Hypothesis (HI : Inv s).
  Hypothesis (Ha : has s a) (Has : scope (nd s a) = None).
  Hypothesis (Hcases : Forall (texp_wf s (next s)) cases).
  Let s' := (newBindWith false s cases a None).1.
  Let x := next s.
  Let rec := mkBind a x (S x) None [] cases 0%nat false [].

  Local Lemma nb_x : ~ has s x.
  Proof. intros H. apply (io_lt s (inv_ids s HI)) in H. unfold x in H. lia. Qed.
  Local Lemma nb_Sx : ~ has s (S x).
  Proof. intros H. apply (io_lt s (inv_ids s HI)) in H. unfold x in H. lia. Qed.

  Local Lemma nb_nd m :
    nd s' m = if decide (m = S x) then fresh_node (KBindMain x) [x] None 0
              else if decide (m = x) then fresh_node (KBindLhs x) [a] None 0 else nd s m.
  Proof.
    unfold s'. rewrite newBindWith_eq. set (s1 := s <| binds := _ |>).
    rewrite nd_newNode, next_newNode, nd_newNode.
    change (next s1) with x. change (nd s1 m) with (nd s m). reflexivity.
  Qed.

  Local Lemma nb_nd_has m : has s m -> nd s' m = nd s m.
  Proof.
    intros H. rewrite nb_nd.
    destruct (decide (m = S x)) as [->|]; [destruct (nb_Sx H)|].
    destruct (decide (m = x)) as [->|]; [destruct (nb_x H)|reflexivity].
  Qed.

  Local Lemma nb_dyn m : dyn_eq (nd s' m) (nd s m).
  Proof.
    rewrite nb_nd. destruct (decide (m = S x)) as [->|].
    - rewrite (not_has_nd s _ nb_Sx). apply dyn_eq_fresh.
    - destruct (decide (m = x)) as [->|]; [|apply dyn_eq_refl].
      rewrite (not_has_nd s _ nb_x). apply dyn_eq_fresh.
  Qed.

  Local Lemma nb_scope m : scope (nd s' m) = scope (nd s m).
  Proof.
    rewrite nb_nd. destruct (decide (m = S x)) as [->|].
    - rewrite (not_has_nd s _ nb_Sx). reflexivity.
    - destruct (decide (m = x)) as [->|]; [|reflexivity].
      rewrite (not_has_nd s _ nb_x). reflexivity.
  Qed.

  Local Lemma nb_has m : has s' m <-> m = S x \/ m = x \/ has s m.
  Proof.
    unfold s'. rewrite newBindWith_eq. set (s1 := s <| binds := _ |>).
    rewrite has_newNode, next_newNode, has_newNode.
    change (next s1) with x. change (has s1 m) with (has s m). reflexivity.
  Qed.

  Local Lemma nb_binds : binds s' = <[x := rec]> (binds s).
  Proof. reflexivity. Qed.

  Local Lemma nb_binds_x : binds s !! x = None.
  Proof.
    destruct (binds s !! x) as [r|] eqn:E; [|reflexivity].
    destruct (nb_x (bw_has_lhs s x r (inv_binds s HI x r E))).
  Qed.

  Local Lemma nb_bd b : b <> x -> bd s' b = bd s b.
  Proof. intros H. unfold bd. rewrite nb_binds, lookup_insert_ne by congruence. reflexivity. Qed.

  Local Lemma nb_bd_x : bd s' x = rec.
  Proof. unfold bd. rewrite nb_binds, lookup_insert. reflexivity. Qed.

  Local Lemma nb_bd_some b : is_Some (binds s !! b) -> bd s' b = bd s b.
  Proof. intros H. apply nb_bd. intros ->. rewrite nb_binds_x in H. destruct H; discriminate. Qed.

  Local Lemma nb_state : reg s' = reg s /\ obs s' = obs s /\ heap s' = heap s /\ adj s' = adj s /\
    invq s' = invq s /\ stabNum s' = stabNum s /\ status s' = status s /\ numNodes s' = numNodes s /\
    setDuring s' = setDuring s /\ setRemoved s' = setRemoved s /\ handlers s' = handlers s /\
    maxHeight s' = maxHeight s /\ log s' = log s /\ next s' = S (S x).
  Proof. repeat split. Qed.

  Lemma Inv_newBind_top : Inv s'.
  Proof.
    destruct HI as [Iids Ibinds Ikinds Iscopes Iscoping Ivalid Iedges Izero Inec Ipar Iheight Iheap
                    Icount Iobs Iquiet Ishape Istamps Ilife].
    destruct nb_state as (Sreg & Sobs & Sheap & Sadj & Sinvq & Sstab & Sstatus & Snum & Ssd & Ssr & Sh & Smh & Slog & Snext).
    assert (Hhas1 : forall m, has s m -> has s' m) by (intros m H; apply nb_has; auto).
    assert (Hhas2 : forall m, has s' m -> has s m \/ (next s <= m)%nat).
    { intros m [->|[->|H]]%nb_has; [right; unfold x; lia|right; unfold x; lia|auto]. }
    assert (Hax : (a < x)%nat) by (apply (io_lt s Iids), Ha).
    assert (Hkind : forall n, has s n -> nkind (nd s' n) = nkind (nd s n))
      by (intros n Hn; rewrite nb_nd_has by exact Hn; reflexivity).
    assert (Hdecl : forall n, has s n -> decl (nd s' n) = decl (nd s n))
      by (intros n Hn; rewrite nb_nd_has by exact Hn; reflexivity).
    assert (Hscope_some : forall n b, scope (nd s n) = Some b -> is_Some (binds s !! b))
      by (intros n b E; apply (Iscopes n b E)).
    constructor.
    - (* ids *) split.
      + intros n [->|[->|H]]%nb_has; rewrite Snext; [lia|lia|].
        apply (io_lt s Iids) in H. unfold x. lia.
      + intros n p. rewrite nb_nd. destruct (decide (n = S x)) as [->|].
        { cbn. intros ->%elem_of_list_singleton. apply nb_has. auto. }
        destruct (decide (n = x)) as [->|].
        { cbn. intros ->%elem_of_list_singleton. apply Hhas1, Ha. }
        intros Hp. eapply Hhas1, (io_decl s Iids), Hp.
    - (* binds *) intros b r. rewrite nb_binds. destruct (decide (b = x)) as [->|Hne].
      + rewrite lookup_insert. intros [= <-].
        constructor; try reflexivity; try (rewrite nb_nd; repeat (destruct (decide _); try lia; try congruence); reflexivity).
        * apply nb_has. auto.
        * apply nb_has. auto.
        * rewrite !nb_scope. rewrite (not_has_nd s _ nb_x), (not_has_nd s _ nb_Sx). reflexivity.
        * cbn. intros n Hn. inversion Hn.
        * cbn. constructor.
        * intros t d Hc. apply chain_top_inv in Hc as [-> ->];
            [|rewrite nb_scope, (not_has_nd s _ nb_x); reflexivity].
          eapply List.Forall_impl; [|exact Hcases]. intros e.
          apply texp_wf_ext; intros; [apply Hhas1; assumption|apply nb_scope|apply Hkind; assumption].
      + rewrite lookup_insert_ne by congruence. intros Hr.
        apply (bind_wf_mono s s'); auto using nb_scope.
    - (* kinds *) intros n. rewrite nb_nd, nb_binds. destruct (decide (n = S x)) as [->|].
      { intros _. cbn. rewrite lookup_insert. split; [reflexivity|eauto]. }
      destruct (decide (n = x)) as [->|].
      { intros _. cbn. rewrite lookup_insert. split; [reflexivity|eauto]. }
      intros [?|[?|H]]%nb_has; [contradiction|contradiction|].
      specialize (Ikinds n H). destruct (nkind (nd s n)) as [| | | | | | |b|b]; try exact I.
      * destruct Ikinds as [-> Hb]. split; [reflexivity|].
        rewrite lookup_insert_ne; [exact Hb|]. intros <-. rewrite nb_binds_x in Hb. destruct Hb; discriminate.
      * destruct Ikinds as [-> Hb]. split; [reflexivity|].
        rewrite lookup_insert_ne; [exact Hb|]. intros <-. rewrite nb_binds_x in Hb. destruct Hb; discriminate.
    - (* scopes *) intros n b. rewrite nb_scope, nb_binds. intros E. destruct (Iscopes n b E) as [Hb Hlt].
      split; [|exact Hlt]. rewrite lookup_insert_ne; [exact Hb|].
      intros <-. rewrite nb_binds_x in Hb. destruct Hb; discriminate.
    - (* scoping *) destruct Iscoping as [S1 S2 S3 S4]. split.
      + intros n q. rewrite nb_nd. destruct (decide (n = S x)) as [->|].
        { cbn. intros ->%elem_of_list_singleton. left. rewrite nb_scope, (not_has_nd s _ nb_x). reflexivity. }
        destruct (decide (n = x)) as [->|].
        { cbn. intros ->%elem_of_list_singleton. left. rewrite nb_scope. exact Has. }
        rewrite !nb_scope. fold (nd s n). intros Hq.
        destruct (S1 n q Hq) as [?|[?|(b & Hk1 & Hs1 & Hr1)]]; auto.
        right; right. exists b. rewrite nb_bd_some; [auto|]. eapply Hscope_some, Hs1.
      + intros n q b Hq Hn Hq'. rewrite nb_scope in Hn, Hq'. unfold inGen.
        rewrite nb_bd_some by (eapply Hscope_some, Hn).
        assert (Hn' : has s n).
        { destruct (decide (has s n)) as [|Hno]; [assumption|]. rewrite (not_has_nd s n Hno) in Hn. discriminate. }
        rewrite nb_nd_has in Hq by exact Hn'. apply S2; assumption.
      + intros b q. destruct (decide (b = x)) as [->|Hne].
        * rewrite nb_bd_x. cbn. discriminate.
        * unfold inGen. rewrite nb_bd by exact Hne. rewrite nb_scope. apply S3.
      + intros n q. rewrite nb_nd. destruct (decide (n = S x)) as [->|].
        { cbn. intros ->%elem_of_list_singleton tq dq tn dn Cq Cn.
          apply chain_top_inv in Cq as [-> ->]; [|rewrite nb_scope, (not_has_nd s _ nb_x); reflexivity].
          apply chain_top_inv in Cn as [-> ->]; [|rewrite nb_scope, (not_has_nd s _ nb_Sx); reflexivity].
          left. lia. }
        destruct (decide (n = x)) as [->|].
        { cbn. intros ->%elem_of_list_singleton tq dq tn dn Cq Cn.
          apply chain_top_inv in Cq as [-> ->]; [|rewrite nb_scope; exact Has].
          apply chain_top_inv in Cn as [-> ->]; [|rewrite nb_scope, (not_has_nd s _ nb_x); reflexivity].
          left. exact Hax. }
        intros Hq. apply (mu_lt_ext s s' nb_scope). apply S4, Hq.
    - (* valid *) destruct Ivalid as [V1 V2 V3 V4]. split.
      + intros n. rewrite nb_scope. destruct (nb_dyn n) as (_&_&_&_&_&_&_&_&->&_). apply V1.
      + intros n b Hn. rewrite nb_scope. intros E. unfold inGen.
        rewrite nb_bd_some by (eapply Hscope_some, E).
        assert (Hn' : has s n).
        { destruct (decide (has s n)) as [|Hno]; [assumption|]. rewrite (not_has_nd s n Hno) in E. discriminate. }
        rewrite nb_nd_has by exact Hn'. apply V2; assumption.
      + intros n b. unfold inGen. destruct (decide (b = x)) as [->|Hne].
        * rewrite nb_bd_x. cbn. intros H; inversion H.
        * rewrite nb_bd by exact Hne.
          destruct (nb_dyn n) as (_&_&_&_&_&_&_&_&->&_).
          destruct (nb_dyn b) as (_&_&_&_&_&_&_&_&->&_). apply V3.
      + intros n. destruct (nb_dyn n) as (_&_&_&_&_&_&_&_&->&_&->). apply V4.
    - apply (extend_edges s s' nb_dyn Iedges).
    - apply (extend_zero s s' nb_dyn Izero).
    - apply (extend_nec s s' nb_dyn Inec).
    - apply (extend_par s s' nb_dyn Hdecl Ipar).
    - apply (extend_height s s' nb_dyn); [|exact Smh|exact Iheight]. intros m _. apply nb_scope.
    - apply (extend_heap s s' nb_dyn Sheap Iheap).
    - apply (extend_count s s' nb_dyn Sreg Sobs Snum Icount).
    - apply (extend_obs s s'); try assumption.
      + rewrite Snext. unfold x. lia.
      + apply nb_dyn.
      + intros m _. apply nb_scope.
    - apply (extend_quiet s s' nb_dyn Sadj Sinvq Sstatus Ssd Ssr Sh Iquiet).
    - apply (extend_shape s s' Sadj Smh Ishape).
    - apply (extend_stamps s s' nb_dyn Sstab Istamps).
    - apply (extend_life s s' nb_dyn Slog Ilife).
  Qed.
End new_bind.

(** * Operation groups *)
Definition is_new (o : op) : bool :=
  match o with
  | NewVar _ _ | NewReturn _ | NewMap _ _ | NewMap2 _ _ _ | NewMapN _ _ | NewCutoff _ _
  | NewAlways _ | NewBind _ _ => true
  | _ => false
  end.

Lemma user_top s a : isUserNode s a = true -> isTop s a = true -> has s a /\ scope (nd s a) = None.
Proof. intros _ H. apply isTop_true, H. Qed.

Theorem Inv_step_new s o s' e :
  Inv s -> op_ok s o = true -> op_clean s o = true -> is_new o = true ->
  step s o = Ok (s', e) -> Inv s'.
Proof.
  intros HI Hok Hcl Hnew Hstep.
  destruct o; try discriminate; simpl in Hok, Hcl, Hstep; apply ok_inv in Hstep as [-> _].
  - apply Inv_newNode_top; [exact HI| |exact I]. intros p Hp; inversion Hp.
  - apply Inv_newNode_top; [exact HI| |exact I]. intros p Hp; inversion Hp.
  - apply Inv_newNode_top; [exact HI| |exact I].
    intros p ->%elem_of_list_singleton. apply isTop_true, Hcl.
  - apply andb_true_iff in Hcl as [H1 H2].
    apply Inv_newNode_top; [exact HI| |exact I].
    intros p Hp. apply elem_of_cons in Hp as [->|Hp]; [|apply elem_of_list_singleton in Hp as ->];
      apply isTop_true; assumption.
  - apply Inv_newNode_top; [exact HI| |exact I].
    intros p Hp. apply isTop_true. rewrite forallb_forall in Hcl. apply Hcl. apply elem_of_list_In, Hp.
  - apply Inv_newNode_top; [exact HI| |exact I].
    intros p ->%elem_of_list_singleton. apply isTop_true, Hcl.
  - apply Inv_newNode_top; [exact HI| |exact I].
    intros p ->%elem_of_list_singleton. apply isTop_true, Hcl.
  - apply andb_true_iff in Hcl as [H1 H2]. apply andb_true_iff in Hok as [[_ _]%andb_true_iff H3].
    destruct (isTop_true _ _ H1) as [Ha Hs].
    apply Inv_newBind_top; try assumption.
    rewrite forallb_forall in H2, H3. apply Forall_forall. intros c Hc.
    apply (texp_ok_wf s (inv_ids s HI) c true); [apply H3|apply H2]; exact Hc.
Qed.
