(** The bind-free fragment, continued (properties C12, C13, C07):
    T  totality: a plan-free serial pass from a state satisfying [wfb] and [ValInv] neither crashes
       nor runs out of fuel nor returns an error;
    A  C12: a pass whose plan only writes vars computes what the plan-free pass computes;
    B  C13: which update handlers a plan-free pass runs;
    C  C07: a pass in which one node function returns an error, and the retry. *)
From stdpp Require Import sorting.
From incr Require Import Base Heap HeapSpec HeapProofs EngineDefs Engine EngineRun EngineWf Spec
     EngineLemmas EngineLocal SpecProofs PassInv PassProofs.

Local Ltac inv H := inversion H; subst; clear H.
Local Arguments valueOf : simpl never.

(** * T. Totality of the plan-free pass *)

Lemma stabilizeNode_nil_ok fuel s m :
  isBindKind (nkind (nd s m)) = false ->
  exists s2, stabilizeNode fuel [] s m = ok s2 /\
    (forall c, height (nd s2 c) = height (nd s c)) /\ (forall c, children (nd s2 c) = children (nd s c)) /\
    heap s2 = heap s.
Proof.
  intros Hk. unfold stabilizeNode. cbv zeta.
  assert (Hup : forall f ev, (forall x, height (f x) = height x) -> (forall x, children (f x) = children x) ->
            (forall c, height (nd (emit ev (upd s m f)) c) = height (nd s c)) /\
            (forall c, children (nd (emit ev (upd s m f)) c) = children (nd s c)) /\ heap (emit ev (upd s m f)) = heap s).
  { intros f ev H1 H2. split; [|split; [|reflexivity]]; intros c; rewrite nd_emit.
    - apply (nd_upd_proj height). exact H1.
    - apply (nd_upd_proj children). exact H2. }
  assert (Hup' : forall f, (forall x, height (f x) = height x) -> (forall x, children (f x) = children x) ->
            (forall c, height (nd (upd s m f) c) = height (nd s c)) /\
            (forall c, children (nd (upd s m f) c) = children (nd s c)) /\ heap (upd s m f) = heap s).
  { intros f H1 H2. split; [|split; [|reflexivity]]; intros c.
    - apply (nd_upd_proj height). exact H1.
    - apply (nd_upd_proj children). exact H2. }
  destruct (nkind (nd s m)); try discriminate Hk.
  - destruct (pending (nd s m)); [destruct (_ =? _)|]; eexists; (split; [reflexivity|]); auto.
  - eexists; split; [reflexivity|]; auto.
  - eexists; split; [reflexivity|]. apply Hup; reflexivity.
  - eexists; split; [reflexivity|]. apply Hup; reflexivity.
  - eexists; split; [reflexivity|]. apply Hup; reflexivity.
  - eexists; split; [reflexivity|]. apply Hup'; reflexivity.
  - eexists; split; [reflexivity|]; auto.
Qed.

Lemma heapAdd_ok_of_height s n : 0 <= height (nd s n) -> exists s', heapAdd s n = Ok s'.
Proof.
  intros H. destruct (add_ok (heap s) n (height (nd s n)) H) as [w E]. unfold heapAdd. rewrite E. eauto.
Qed.

Lemma clLoop_total l : forall s held,
  (forall c, c ∈ l -> 0 <= height (nd s c)) -> (forall h, held = Some h -> 0 <= height (nd s h)) ->
  exists s' held', rfold clBody l (s, held) = Ok (s', held') /\ only_heap s s' /\
                   (forall h, held' = Some h -> 0 <= height (nd s h)).
Proof.
  induction l as [|c l IH]; intros s held Hl Hh.
  - exists s, held. split; [reflexivity|]. split; [apply only_heap_refl|exact Hh].
  - rewrite rfold_cons.
    assert (Hstep : exists s1 held1, clBody (s, held) c = Ok (s1, held1) /\ only_heap s s1 /\
                      (forall h, held1 = Some h -> 0 <= height (nd s h))).
    { unfold clBody. destruct (bool_decide _); [exists s, held; auto using only_heap_refl|].
      destruct (negb _); [exists s, held; auto using only_heap_refl|].
      destruct held as [h|].
      - destruct (heapAdd_ok_of_height s h (Hh h eq_refl)) as [s1 E]. rewrite E. simpl.
        exists s1, (Some c). split; [reflexivity|]. split.
        + apply heapAdd_inv in E as (w & _ & ->). apply only_heap_set.
        + intros h' [= <-]. apply Hl. left.
      - simpl. exists s, (Some c). split; [reflexivity|]. split; [apply only_heap_refl|].
        intros h' [= <-]. apply Hl. left. }
    destruct Hstep as (s1 & held1 & E1 & O1 & H1). rewrite E1. simpl.
    destruct (IH s1 held1) as (s' & held' & E' & O' & H').
    + intros c' Hc'. rewrite (oh_nd _ _ O1). apply Hl. right. exact Hc'.
    + intros h Hh1. rewrite (oh_nd _ _ O1). apply H1, Hh1.
    + exists s', held'. split; [exact E'|]. split; [eapply only_heap_trans; eauto|].
      intros h Hh'. rewrite <- (oh_nd _ _ O1). apply H', Hh'.
Qed.

Lemma tailR_total s n :
  (forall c, c ∈ children (nd s n) -> 0 <= height (nd s c)) -> exists r, tailR s n = Ok r.
Proof.
  intros Hc. unfold tailR. cbv zeta.
  set (s4 := insert_handler n (upd s n (set changedAt (fun _ => stabNum s)))).
  assert (Hh4 : forall c, height (nd s4 c) = height (nd s c)).
  { intros c. unfold s4. rewrite nd_insert_handler. apply (nd_upd_proj height). reflexivity. }
  assert (Hc4 : children (nd s4 n) = children (nd s n)).
  { unfold s4. rewrite nd_insert_handler. apply (nd_upd_proj children). reflexivity. }
  rewrite childrenLoop_eq.
  destruct (clLoop_total (children (nd s4 n)) s4 None) as (s5 & held & E5 & O5 & H5).
  - intros c Hcc. rewrite Hh4. apply Hc. rewrite <- Hc4. exact Hcc.
  - discriminate.
  - rewrite E5. simpl. destruct held as [h|]; [|simpl; eauto].
    destruct (canRecomputeImmediately s5 n h); [simpl; eauto|].
    destruct (heapAdd_ok_of_height s5 h) as [s6 E6]; [rewrite (oh_nd _ _ O5); apply H5; reflexivity|].
    rewrite E6. simpl. eauto.
Qed.

Lemma rns_total fuel s m :
  isBindKind (nkind (nd s m)) = false ->
  (forall c, c ∈ children (nd s m) -> 0 <= height (nd s c)) ->
  exists r, recomputeNodeSerial fuel [] s m = Ok r.
Proof.
  intros Hk Hc. rewrite rns_unfold. cbv zeta.
  set (s1 := upd s m (set recomputedAt (fun _ => stabNum s))).
  assert (H1 : (forall c, height (nd s1 c) = height (nd s c)) /\ (forall c, children (nd s1 c) = children (nd s c))
               /\ nkind (nd s1 m) = nkind (nd s m)).
  { split; [|split]; [intros c; apply (nd_upd_proj height)|intros c; apply (nd_upd_proj children)|apply (nd_upd_proj nkind)]; reflexivity. }
  destruct H1 as (Hh1 & Hc1 & Hk1).
  assert (Hafter : forall s2, (forall c, height (nd s2 c) = height (nd s c)) -> (forall c, children (nd s2 c) = children (nd s c)) ->
             nkind (nd s2 m) = nkind (nd s m) ->
             exists r, ('(s3, e) <-! stabilizeNode fuel [] s2 m;
               match e with
               | Some (EPanic m0) => Ok (s3, Some (EPanic m0), None)
               | Some e0 => s0 <-! recomputeFailed s3 m (recomputedAt (nd s m)); Ok (errorHandlers s0 m, Some e0, None)
               | None => tailR s3 m
               end) = Ok r).
  { intros s2 Hh2 Hc2 Hk2. destruct (stabilizeNode_nil_ok fuel s2 m) as (s3 & E3 & Hh3 & Hc3 & _); [rewrite Hk2; exact Hk|].
    rewrite E3. simpl. apply tailR_total. intros c Hcc. rewrite Hh3, Hh2. apply Hc. rewrite <- Hc2, <- Hc3. exact Hcc. }
  destruct (nkind (nd s m)) eqn:K; try (apply Hafter; assumption).
  destruct (apCut _ _ _); [eauto|]. apply Hafter; try assumption; intros c; rewrite nd_emit; auto.
Qed.

(** the number of registered nodes that have not run in the current pass: the fuel a pass needs *)
Definition notDone (s : state) (n : nid) : Prop := inGraph (nd s n) = true /\ isDone s n = false.
Global Instance notDone_dec s n : Decision (notDone s n).
Proof. unfold notDone. apply _. Defined.
Definition todo (s : state) : nat := length (filter (notDone s) (seq 0 (next s))).

Lemma todo_le_next s : (todo s <= next s)%nat.
Proof. unfold todo. etransitivity; [apply filter_length|]. rewrite seq_length. reflexivity. Qed.

Lemma todo_step h0 base s m s' imm :
  Struct s -> LInv h0 base s (Some m) -> stepPost s m s' imm -> (todo s' < todo s)%nat.
Proof.
  intros HS L P. pose proof (stepPost_sframe _ _ _ _ P) as F.
  assert (Hg : inGraph (nd s m) = true).
  { apply (li_orig _ _ _ _ L m). left. apply inW_iff; [apply (li_heap _ _ _ _ L)|]. right; reflexivity. }
  assert (Hd : isDone s m = false).
  { apply (li_B _ _ _ _ L m m); [apply inW_iff; [apply (li_heap _ _ _ _ L)|right; reflexivity]|apply rtc_refl]. }
  unfold todo. rewrite (sf_next _ _ F).
  apply (filter_length_mono_lt _ _ _ m).
  - intros x [H1 H2]. rewrite (sf_inGraph _ _ F) in H1. split; [exact H1|].
    apply (PassProofs.done'_false s m s' imm P x) in H2. tauto.
  - apply elem_of_seq. split; [lia|]. simpl. apply (bf_has_lt s (li_bf _ _ _ _ L)). apply has_inGraph, Hg.
  - split; assumption.
  - intros [_ H2]. apply (PassProofs.done'_false s m s' imm P m) in H2. tauto.
Qed.

Lemma todo_pos h0 base s m : LInv h0 base s (Some m) -> (0 < todo s)%nat.
Proof.
  intros L.
  assert (Hg : inGraph (nd s m) = true).
  { apply (li_orig _ _ _ _ L m). left. apply inW_iff; [apply (li_heap _ _ _ _ L)|]. right; reflexivity. }
  assert (Hd : isDone s m = false).
  { apply (li_B _ _ _ _ L m m); [apply inW_iff; [apply (li_heap _ _ _ _ L)|right; reflexivity]|apply rtc_refl]. }
  unfold todo. assert (Hin : m ∈ filter (notDone s) (seq 0 (next s))).
  { apply elem_of_list_filter. split; [split; assumption|]. apply elem_of_seq. split; [lia|]. simpl.
    apply (bf_has_lt s (li_bf _ _ _ _ L)). apply has_inGraph, Hg. }
  destruct (filter _ _); [inv Hin|simpl; lia].
Qed.

Lemma rns_total_LInv h0 base fuel s m :
  Struct s -> LInv h0 base s (Some m) -> exists s' imm, recomputeNodeSerial fuel [] s m = Ok (s', None, imm).
Proof.
  intros HS L. destruct (rns_total fuel s m) as [[[s' e] imm] E].
  - apply (bf_kind s (li_bf _ _ _ _ L)).
  - intros c Hc. apply (st_hnonneg _ HS). apply (child_reg s HS m c Hc).
  - destruct (rns_preserves_LInv h0 base fuel s m s' e imm HS L E) as [-> _]. eauto.
Qed.

Lemma chain_total h0 base fuel : forall s n,
  Struct s -> LInv h0 base s (Some n) -> (todo s <= fuel)%nat ->
  exists s' at_, recomputeChain fuel [] s n = Ok (s', None, at_) /\ (todo s' < todo s)%nat.
Proof.
  induction fuel as [|fuel IH]; intros s n HS L Hf.
  - pose proof (todo_pos _ _ _ _ L). lia.
  - cbn [recomputeChain]. destruct (rns_total_LInv h0 base fuel s n HS L) as (s1 & imm & E1). rewrite E1. simpl.
    assert (Hg : inGraph (nd s n) = true).
    { apply (li_orig _ _ _ _ L n). left. apply inW_iff; [apply (li_heap _ _ _ _ L)|]. right; reflexivity. }
    destruct (rns_step fuel s n s1 None imm (li_bf _ _ _ _ L) (has_inGraph _ _ Hg) (proj1 (li_heap _ _ _ _ L)) E1) as [_ P].
    pose proof (step_LInv h0 base s n s1 imm HS L P) as L1.
    pose proof (todo_step _ _ _ _ _ _ HS L P) as Ht.
    destruct imm as [c|]; [|eauto].
    destruct (IH s1 c (sf_Struct _ _ (stepPost_sframe _ _ _ _ P) HS) L1 ltac:(lia)) as (s' & at_ & E' & Ht').
    exists s', at_. split; [exact E'|lia].
Qed.

Lemma loop_total h0 base fuel : forall s always,
  Struct s -> LInv h0 base s None -> (todo s < fuel)%nat ->
  exists r, passLoop fuel [] s always = Ok r.
Proof.
  induction fuel as [|fuel IH]; intros s always HS L Hf; [lia|].
  cbn [passLoop]. pose proof (proj1 (li_heap _ _ _ _ L)) as I.
  destruct (Z.leb_spec (Heap.cnt (heap s)) 0) as [Hc|Hc]; [eauto|].
  destruct (Heap.removeMin (heap s)) as [[n w]|] eqn:Erm.
  2:{ apply (heap_removeMin_none _ I) in Erm. pose proof (inv_cnt _ I) as Hcnt. rewrite Erm in Hcnt. simpl in Hcnt. lia. }
  set (s2 := s <| heap := w |>).
  pose proof (pop_LInv h0 base s n w HS L Erm) as L2. fold s2 in L2.
  assert (F2 : sframe s s2) by apply sframe_set_heap.
  pose proof (sf_Struct _ _ F2 HS) as HS2.
  assert (Ht2 : todo s2 = todo s) by reflexivity.
  destruct (chain_total h0 base fuel s2 n HS2 L2 ltac:(lia)) as (s3 & at3 & E3 & Ht3). rewrite E3. simpl.
  destruct (chain_LInv h0 base fuel s2 n s3 None at3 HS2 L2 E3) as (_ & L3 & F3 & _).
  apply IH; [exact (sf_Struct _ _ F3 HS2)|exact L3|lia].
Qed.

Lemma requeue_total always : forall s, (forall x, x ∈ always -> 0 <= height (nd s x)) ->
  exists sR, PassProofs.requeueAlways always s = Ok sR.
Proof.
  induction always as [|a l IH]; intros s Hh; [eexists; reflexivity|].
  unfold PassProofs.requeueAlways. rewrite rfold_cons.
  assert (Hstep : exists s1, (if height (nd s a) =? unset then Ok s else heapAddIfNotPresent s a) = Ok s1 /\ only_heap s s1).
  { destruct (_ =? _); [exists s; split; [reflexivity|apply only_heap_refl]|].
    unfold heapAddIfNotPresent. destruct (inHeap s a); [exists s; split; [reflexivity|apply only_heap_refl]|].
    destruct (heapAdd_ok_of_height s a (Hh a ltac:(left))) as [s1 E]. exists s1. split; [exact E|].
    apply heapAdd_inv in E as (w & _ & ->). apply only_heap_set. }
  destruct Hstep as (s1 & -> & O1). simpl. apply IH. intros x Hx. rewrite (oh_nd _ _ O1). apply Hh. right. exact Hx.
Qed.

(** a plan-free serial pass of a bind-free graph succeeds *)
Theorem pass_total s :
  wfb s = true -> ValInv s -> exists s', stabilize [] false s = Ok (s', None).
Proof.
  intros Hwf V. destruct (wfb_transients _ Hwf) as (Hst & Hsd & Hsr & Hh).
  pose proof (wfb_Struct s Hwf (vi_bf _ V)) as HS.
  set (s1 := PassProofs.passStart s).
  assert (HS1 : Struct s1) by (destruct HS; constructor; assumption).
  pose proof (LInv_start s Hwf V) as L1. fold s1 in L1.
  assert (HA1 : AlwaysOK s1 []).
  { split; [|intros x Hx; inv Hx]. intros x _ Hd. exfalso.
    pose proof (stamps_node_true _ _ (vi_stamps _ V x)). unfold isDone in Hd. apply Z.eqb_eq in Hd.
    change (recomputedAt (nd s x) = stabNum s) in Hd. lia. }
  destruct (loop_total _ _ (passFuel s1) s1 [] HS1 L1) as [[[[sL e] at_] always] EL].
  { pose proof (todo_le_next s1). unfold passFuel. lia. }
  destruct (loop_LInv _ _ _ s1 [] sL e at_ always HS1 L1 HA1 EL) as (-> & LL & Hemp & FL & HAL & _).
  destruct (requeue_total always sL) as [sR ER].
  { intros x Hx. apply (st_hnonneg _ (sf_Struct _ _ FL HS1)). apply (proj2 HAL x Hx). }
  pose proof (requeue_only_heap _ _ _ ER) as OR.
  unfold stabilize. rewrite Hst. simpl. fold (PassProofs.passStart s). fold s1. rewrite EL. simpl.
  fold (PassProofs.requeueAlways always sL). rewrite ER. simpl.
  unfold stabilizeEnd.
  destruct (runUpdateHandlers_shape (emit (EvPassEnd (classify None)) sR)) as (hev & -> & _).
  unfold applyDeferredSets. cbn.
  rewrite (oh_setRemoved _ _ OR), (oh_setDuring _ _ OR), (sf_setRemoved _ _ FL), (sf_setDuring _ _ FL).
  change (setRemoved s1) with (setRemoved s). change (setDuring s1) with (setDuring s). rewrite Hsd, Hsr.
  simpl. eauto.
Qed.

(** * A. C12: a plan that only writes vars does not alter what the pass computes *)

(** plans without faults: only [ASet] / [AUpdate] actions *)
Definition writes_only (p : plan) : bool :=
  forallb (fun '(_, _, a) => match a with AFail _ => false | _ => true end) p.

Lemma writes_only_noFault p n w : writes_only p = true -> firstFault (actions_of p n w) = None.
Proof.
  intros Hp. destruct (firstFault (actions_of p n w)) as [k|] eqn:E; [|reflexivity]. exfalso.
  apply firstFault_in in E. unfold actions_of in E. apply elem_of_list_omap in E as ([[m w'] a] & Hin & Ha).
  pose proof (forallb_elem _ _ _ Hp Hin) as Hb. cbv beta iota in Hb.
  destruct (_ && _); [|discriminate Ha]. injection Ha as ->. discriminate Hb.
Qed.

Lemma pendOnly_nkind s t n : pendOnly s t -> nkind (nd t n) = nkind (nd s n).
Proof. intros P. apply (pendOnly_fields s t n P). Qed.

(** the lifting of EngineLocal's one-recompute simulation over the chain and the loop; the
    plan-free run is the one for which the loop invariant is known *)
Lemma chain_sim h0 base p fuel : forall s t n s' e1 a1 t' e2 a2,
  writes_only p = true -> status s = 1 -> pendOnly s t -> Struct t -> LInv h0 base t (Some n) ->
  recomputeChain fuel p s n = Ok (s', e1, a1) -> recomputeChain fuel [] t n = Ok (t', e2, a2) ->
  pendOnly s' t' /\ e1 = e2 /\ a1 = a2.
Proof.
  induction fuel as [|fuel IH]; intros s t n s' e1 a1 t' e2 a2 Hp Hst P HS L Hs Ht; [discriminate|].
  cbn [recomputeChain] in Hs, Ht.
  destruct (recomputeNodeSerial fuel p s n) as [[[s1 x1] i1]| |] eqn:Es; simpl in Hs; try discriminate.
  destruct (recomputeNodeSerial fuel [] t n) as [[[t1 x2] i2]| |] eqn:Et; simpl in Ht; try discriminate.
  destruct (C12_midpass_noninterference_recompute_partial fuel p [] s t n s1 x1 i1 t1 x2 i2 Hst P) as (P1 & <- & <- & _);
    [| |exact Es|exact Et|].
  { intros w. rewrite (writes_only_noFault p n w Hp). reflexivity. }
  { intros b Hk. pose proof (bf_kind t (li_bf _ _ _ _ L) n) as Hb. rewrite (pendOnly_nkind s t n P), Hk in Hb. discriminate. }
  destruct (rns_preserves_LInv h0 base fuel t n t1 x1 i1 HS L Et) as [-> L1].
  assert (Hg : inGraph (nd t n) = true).
  { apply (li_orig _ _ _ _ L n). left. apply inW_iff; [apply (li_heap _ _ _ _ L)|]. right; reflexivity. }
  destruct (rns_step fuel t n t1 None i1 (li_bf _ _ _ _ L) (has_inGraph _ _ Hg) (proj1 (li_heap _ _ _ _ L)) Et) as [_ PP].
  pose proof (stepPost_sframe _ _ _ _ PP) as F1.
  destruct i1 as [c|].
  - apply (IH s1 t1 c s' e1 a1 t' e2 a2 Hp); try assumption.
    + rewrite <- (pendOnly_status s1 t1 P1), (sf_status _ _ F1), (pendOnly_status s t P). exact Hst.
    + exact (sf_Struct _ _ F1 HS).
  - injection Hs as <- <- <-. injection Ht as <- <- <-. auto.
Qed.

Lemma loop_sim h0 base p fuel : forall s t al s' e1 a1 al1 t' e2 a2 al2,
  writes_only p = true -> status s = 1 -> pendOnly s t -> Struct t -> LInv h0 base t None ->
  passLoop fuel p s al = Ok (s', e1, a1, al1) -> passLoop fuel [] t al = Ok (t', e2, a2, al2) ->
  pendOnly s' t' /\ e1 = e2 /\ a1 = a2 /\ al1 = al2.
Proof.
  induction fuel as [|fuel IH]; intros s t al s' e1 a1 al1 t' e2 a2 al2 Hp Hst P HS L Hs Ht; [discriminate|].
  cbn [passLoop] in Hs, Ht. pose proof P as (Hheap & _). rewrite Hheap in Ht.
  destruct (Heap.cnt (heap s) <=? 0).
  { injection Hs as <- <- <- <-. injection Ht as <- <- <- <-. auto. }
  destruct (Heap.removeMin (heap s)) as [[n w]|] eqn:Erm; [|discriminate].
  set (s2 := s <| heap := w |>) in *. set (t2 := t <| heap := w |>) in *.
  assert (P2 : pendOnly s2 t2) by (apply pendOnly_set_heap, P).
  assert (Hk : nkind (nd t2 n) = nkind (nd s2 n)) by (apply (pendOnly_nkind s2 t2 n P2)).
  rewrite Hk in Ht.
  destruct (recomputeChain fuel p s2 n) as [[[s3 x1] b1]| |] eqn:Es; simpl in Hs; try discriminate.
  destruct (recomputeChain fuel [] t2 n) as [[[t3 x2] b2]| |] eqn:Et; simpl in Ht; try discriminate.
  assert (Erm' : Heap.removeMin (heap t) = Some (n, w)) by (rewrite Hheap; exact Erm).
  pose proof (pop_LInv h0 base t n w HS L Erm') as L2. fold t2 in L2.
  assert (F2 : sframe t t2) by apply sframe_set_heap.
  pose proof (sf_Struct _ _ F2 HS) as HS2.
  destruct (chain_sim h0 base p fuel s2 t2 n s3 x1 b1 t3 x2 b2 Hp Hst P2 HS2 L2 Es Et) as (P3 & <- & <-).
  destruct (chain_LInv h0 base fuel t2 n t3 x1 b1 HS2 L2 Et) as (-> & L3 & F3 & _).
  eapply (IH s3 t3 _ s' e1 a1 al1 t' e2 a2 al2 Hp); [| | | |exact Hs|exact Ht]; try assumption.
  - rewrite <- (pendOnly_status s3 t3 P3), (sf_status _ _ F3). change (status t2) with (status t).
    rewrite (pendOnly_status s t P). exact Hst.
  - exact (sf_Struct _ _ F3 HS2).
Qed.

(** ** [Struct] and [ValInv] do not read [pending], nor the pass bookkeeping *)
Record pendEq (s t : state) : Prop := {
  pq_nd : forall m, nd t m = nd s m <| pending := pending (nd t m) |>;
  pq_has : forall m, has t m <-> has s m;
  pq_heap : heap t = heap s;
  pq_fields : binds t = binds s /\ (next s <= next t)%nat /\ stabNum t = stabNum s
}.

Section PendEq.
  Context (s t : state) (E : pendEq s t).
  Lemma pq_field {A} (g : node -> A) m : (forall x q, g (x <| pending := q |>) = g x) -> g (nd t m) = g (nd s m).
  Proof. intros Hg. rewrite (pq_nd _ _ E m). apply Hg. Qed.

  Lemma pq_inHeap m : inHeap t m = inHeap s m.
  Proof. unfold inHeap. rewrite (pq_heap _ _ E). reflexivity. Qed.

  Lemma pq_valueOf p : valueOf t p = valueOf s p.
  Proof. apply PassProofs.valueOf_ext. intros m. repeat split; apply pq_field; reflexivity. Qed.

  Lemma pq_isStale m : isStale t m = isStale s m.
  Proof.
    apply isStale_fields; try (apply pq_field; reflexivity).
    - intros p. rewrite (pq_field parents) by reflexivity. reflexivity.
    - intros p _. apply pq_field; reflexivity.
  Qed.

  Lemma pq_Struct : Struct s -> Struct t.
  Proof.
    intros HS. constructor; intros *.
    - rewrite !(pq_field children), !(pq_field parents) by reflexivity. apply (st_edge _ HS).
    - rewrite (pq_field inGraph), (pq_field parents), (pq_field children) by reflexivity. apply (st_unreg _ HS).
    - rewrite (pq_field inGraph), (pq_field isNecessary) by reflexivity. apply (st_nec _ HS).
    - rewrite (pq_field inGraph), (pq_field parents), (pq_field decl) by reflexivity. apply (st_par _ HS).
    - rewrite (pq_field inGraph), (pq_field parents), !(pq_field height) by reflexivity. apply (st_height _ HS).
    - rewrite (pq_field inGraph), (pq_field height) by reflexivity. apply (st_hnonneg _ HS).
  Qed.

  Lemma pq_ValInv : ValInv s -> ValInv t.
  Proof.
    intros V. pose proof (vi_bf _ V) as HBF. destruct (pq_fields _ _ E) as (Eb & En & Ek).
    assert (HBFt : BF t).
    { apply (BF_static s t HBF).
      - intros m. repeat split; apply pq_field; reflexivity.
      - intros m. left. apply pq_field; reflexivity.
      - apply E.
      - exact Eb.
      - exact En. }
    constructor.
    - exact HBFt.
    - intros m. unfold stamps_node. rewrite (pq_field changedAt), (pq_field recomputedAt), Ek by reflexivity.
      apply (vi_stamps _ V m).
    - intros m. rewrite (pq_field inGraph), (pq_field changedAt), (pq_field recomputedAt) by reflexivity.
      apply (vi_unreg _ V m).
    - intros m. rewrite (pq_field inGraph), pq_isStale, pq_inHeap by reflexivity. apply (vi_owed _ V m).
    - intros n. rewrite (pq_field inGraph), pq_inHeap by reflexivity. intros Hg Hq Hgd.
      assert (Hgd0 : guarded s None n = true).
      { rewrite <- Hgd. unfold guarded. rewrite (pq_field parents) by reflexivity. apply forallb_ext. intros p _.
        rewrite (pq_field changedAt), (pq_field recomputedAt) by reflexivity. f_equal. f_equal.
        unfold volq, inW. rewrite (pq_field nkind), (pq_field recomputedAt), Ek, pq_inHeap by reflexivity. reflexivity. }
      pose proof (vi_clean _ V n Hg Hq Hgd0) as Hc.
      rewrite node_consistent_val in Hc by (apply (bf_kind s HBF)).
      rewrite node_consistent_val by (apply (bf_kind t HBFt)).
      rewrite (pq_field value) by reflexivity.
      rewrite (consistent_val_ext s t n); [exact Hc|apply pq_field; reflexivity|apply pq_field; reflexivity|].
      intros p _. apply pq_valueOf.
  Qed.
End PendEq.

(** ** one deferred write applied: value, pending and setAt of one var change; the var is queued *)
Record wrPost (s : state) (v : nid) (s' : state) : Prop := {
  wr_other : forall m, m <> v -> nd s' m = nd s m;
  wr_self : exists a b c, nd s' v = nd s v <| value := a |> <| pending := b |> <| setAt := c |>;
  wr_fields : binds s' = binds s /\ next s' = next s /\ stabNum s' = stabNum s;
  wr_has : forall m, has s' m <-> has s m;
  wr_heap : forall m, inHeap s m = true -> inHeap s' m = true;
  wr_heap_new : forall m, inHeap s' m = true -> inHeap s m = true \/ m = v;
  wr_queued : inGraph (nd s v) = true -> inHeap s' v = true
}.

Lemma ValInv_write s v s' :
  Struct s -> ValInv s -> (exists e, nkind (nd s v) = KVar e) -> wrPost s v s' -> Struct s' /\ ValInv s'.
Proof.
  intros HS V [e Kv] P. pose proof (vi_bf _ V) as HBF.
  destruct (wr_fields _ _ _ P) as (Fb & Fn & Fk).
  destruct (wr_self _ _ _ P) as (a & b & c & Eself).
  assert (Hsame : forall m, m <> v -> nd s' m = nd s m) by apply P.
  assert (Hf : forall (A : Type) (g : node -> A) m,
             (forall x a b c, g (x <| value := a |> <| pending := b |> <| setAt := c |>) = g x) ->
             g (nd s' m) = g (nd s m)).
  { intros A g m Hg. destruct (decide (m = v)) as [->|Hm]; [rewrite Eself; apply Hg|rewrite (Hsame m Hm); reflexivity]. }
  assert (Hkind : forall m, nkind (nd s' m) = nkind (nd s m)) by (intros m; apply Hf; reflexivity).
  assert (Hq : forall m, inHeap s m = true -> inHeap s' m = true) by apply P.
  assert (Hstale : forall m, isStale s' m = isStale s m).
  { intros m. apply isStale_fields; try (apply Hf; reflexivity).
    - intros p. rewrite (Hf _ parents) by reflexivity. reflexivity.
    - intros p _. apply Hf; reflexivity. }
  assert (HS' : Struct s').
  { constructor; intros *.
    - rewrite !(Hf _ children), !(Hf _ parents) by reflexivity. apply (st_edge _ HS).
    - rewrite (Hf _ inGraph), (Hf _ parents), (Hf _ children) by reflexivity. apply (st_unreg _ HS).
    - rewrite (Hf _ inGraph), (Hf _ isNecessary) by reflexivity. apply (st_nec _ HS).
    - rewrite (Hf _ inGraph), (Hf _ parents), (Hf _ decl) by reflexivity. apply (st_par _ HS).
    - rewrite (Hf _ inGraph), (Hf _ parents), !(Hf _ height) by reflexivity. apply (st_height _ HS).
    - rewrite (Hf _ inGraph), (Hf _ height) by reflexivity. apply (st_hnonneg _ HS). }
  split; [exact HS'|].
  assert (HBF' : BF s').
  { split; [rewrite Fb; apply HBF|]. intros m x Hx. assert (Hm' : has s' m) by (exists x; exact Hx).
    assert (Hm : has s m) by (apply (wr_has _ _ _ P), Hm').
    rewrite <- (nd_lookup _ _ _ Hx). pose proof (bf_node_nd s HBF m Hm) as Hb.
    apply bf_node_iff in Hb as (H1 & H2 & H3 & H4 & H5 & H6 & H7). apply bf_node_iff.
    rewrite Fn, Hkind, (Hf _ scope), (Hf _ valid) by reflexivity. repeat split; try assumption.
    + unfold arity_ok in *. rewrite Hkind, (Hf _ decl) by reflexivity. exact H5.
    + unfold cutalways_zero in *. rewrite Hkind. destruct (decide (m = v)) as [->|Hm2].
      * rewrite Kv. reflexivity.
      * rewrite (Hsame m Hm2). exact H6.
    + unfold always_lt in *. rewrite Hkind, (Hf _ decl) by reflexivity. exact H7. }
  constructor.
  - exact HBF'.
  - intros m. unfold stamps_node. rewrite (Hf _ changedAt), (Hf _ recomputedAt), Fk by reflexivity. apply (vi_stamps _ V m).
  - intros m. rewrite (Hf _ inGraph), (Hf _ changedAt), (Hf _ recomputedAt) by reflexivity. apply (vi_unreg _ V m).
  - intros m Hg Hs. rewrite (Hf _ inGraph) in Hg by reflexivity. rewrite Hstale in Hs.
    apply Hq. apply (vi_owed _ V m Hg Hs).
  - intros n Hg HnW Hgd. rewrite (Hf _ inGraph) in Hg by reflexivity.
    destruct (decide (n = v)) as [->|Hnv].
    { apply trivial_consistent. rewrite Hkind, Kv. reflexivity. }
    assert (HnW0 : inHeap s n = false).
    { destruct (inHeap s n) eqn:Eq; [|reflexivity]. rewrite (Hq n Eq) in HnW. discriminate. }
    assert (Hgd_p : forall p, p ∈ parents (nd s n) ->
              changedAt (nd s p) <= recomputedAt (nd s n) /\ volq s' None p = false).
    { intros p Hp. unfold guarded in Hgd. rewrite (Hf _ parents) in Hgd by reflexivity.
      pose proof (forallb_elem _ _ _ Hgd Hp) as Hb. cbv beta in Hb. apply andb_true_iff in Hb as [H1 H2].
      apply Z.leb_le in H1. apply negb_true_iff in H2.
      rewrite (Hf _ changedAt), (Hf _ recomputedAt) in H1 by reflexivity. auto. }
    assert (Hgd0 : guarded s None n = true).
    { unfold guarded. apply forallb_intro. intros p Hp. destruct (Hgd_p p Hp) as [H1 H2].
      apply andb_true_iff. split; [apply Z.leb_le; exact H1|]. apply negb_true_iff.
      unfold volq in *. rewrite Hkind in H2. destruct (nkind (nd s p)); try reflexivity.
      - unfold inW in *. rewrite orb_false_r in *. destruct (inHeap s p) eqn:Eq; [|reflexivity].
        rewrite (Hq p Eq) in H2. discriminate.
      - rewrite (Hf _ recomputedAt), Fk in H2 by reflexivity. exact H2. }
    pose proof (vi_clean _ V n Hg HnW0 Hgd0) as Hc.
    rewrite node_consistent_val in Hc by (apply (bf_kind s HBF)).
    rewrite node_consistent_val by (rewrite Hkind; apply (bf_kind s HBF)).
    rewrite (Hsame n Hnv).
    rewrite (consistent_val_ext s s' n _ (Hkind n) (Hf _ decl n ltac:(reflexivity))); [exact Hc|].
    intros p Hp. assert (Hpar : p ∈ parents (nd s n)) by (apply (st_par _ HS); assumption).
    destruct (Hgd_p p Hpar) as [_ Hvq].
    apply (valueOf_changed s s' v p HS).
    + intros m. split; [apply Hkind|apply Hf; reflexivity].
    + intros m Hm. rewrite (Hsame m Hm). reflexivity.
    + apply (edge_reg s HS p n), (parent_edge s HS), Hpar.
    + intros ->. assert (Hgv : inGraph (nd s v) = true) by (apply (edge_reg s HS v n), (parent_edge s HS), Hpar).
      unfold volq in Hvq. rewrite Hkind, Kv in Hvq. unfold inW in Hvq. rewrite orb_false_r in Hvq.
      rewrite (wr_queued _ _ _ P Hgv) in Hvq. discriminate.
    + intros [Ka _]. unfold volq in Hvq. rewrite Hkind, Ka in Hvq. apply Z.ltb_ge in Hvq.
      rewrite (Hf _ recomputedAt), Fk in Hvq by reflexivity.
      pose proof (stamps_node_true _ _ (vi_stamps _ V p)). lia.
Qed.

Lemma node_eta_vp (x : node) : x <| value := value x |> <| pending := pending x |> = x.
Proof. destruct x; reflexivity. Qed.
Lemma node_eta_vps (x : node) a b : x <| value := a |> <| pending := b |> <| setAt := setAt x |> = x <| value := a |> <| pending := b |>.
Proof. destruct x; reflexivity. Qed.

Lemma dstep_wr u v u' :
  Struct u -> isVar u v = true -> dstep u v = Ok u' ->
  wrPost u v u' /\
  (forall x, pending (nd u v) = Some x -> recomputedAt (nd u v) <> stabNum u ->
             value (nd u' v) = x /\ pending (nd u' v) = None) /\
  (pending (nd u v) = None -> value (nd u' v) = value (nd u v) /\ pending (nd u' v) = None).
Proof.
  intros HS Hv H. destruct (isVar_true _ _ Hv) as [Hhas [k Kv]].
  unfold dstep in H. apply rbind_ok in H as ([u1 e1] & H1 & H).
  (* the var takes its deferred value *)
  assert (E1 : exists a b,
            (forall m, m <> v -> nd u1 m = nd u m) /\ nd u1 v = nd u v <| value := a |> <| pending := b |> /\
            (forall m, has u1 m <-> has u m) /\ heap u1 = heap u /\ binds u1 = binds u /\ next u1 = next u /\
            stabNum u1 = stabNum u /\
            (forall x, pending (nd u v) = Some x -> recomputedAt (nd u v) <> stabNum u -> a = x /\ b = None) /\
            (pending (nd u v) = None -> a = value (nd u v) /\ b = None)).
  { unfold stabilizeNode in H1. rewrite Kv in H1.
    assert (Hsame : u1 = u -> exists a b,
            (forall m, m <> v -> nd u1 m = nd u m) /\ nd u1 v = nd u v <| value := a |> <| pending := b |> /\
            (forall m, has u1 m <-> has u m) /\ heap u1 = heap u /\ binds u1 = binds u /\ next u1 = next u /\
            stabNum u1 = stabNum u /\ a = value (nd u v) /\ b = pending (nd u v)).
    { intros ->. exists (value (nd u v)), (pending (nd u v)). rewrite node_eta_vp. repeat split; auto. }
    destruct (pending (nd u v)) as [pv|] eqn:Ep.
    - destruct (Z.eqb_spec (recomputedAt (nd u v)) (stabNum u)) as [Er|Er].
      + apply ok_inv in H1 as [-> _]. destruct (Hsame eq_refl) as (a & b & A1 & A2 & A3 & A4 & A5 & A6 & A7 & -> & ->).
        exists (value (nd u v)), (Some pv). repeat split; auto; try apply A3; try contradiction; discriminate.
      + apply ok_inv in H1 as [-> _]. exists pv, None.
        split; [intros m Hm; apply nd_upd_ne, Hm|]. split; [apply nd_upd_eq, Hhas|].
        split; [intros m; apply has_upd|]. repeat split; auto; try congruence; discriminate.
    - apply ok_inv in H1 as [-> _]. destruct (Hsame eq_refl) as (a & b & A1 & A2 & A3 & A4 & A5 & A6 & A7 & -> & ->).
      exists (value (nd u v)), None. repeat split; auto; try apply A3; discriminate. }
  destruct E1 as (a & b & Hne1 & Hnd1 & Hhas1 & Hheap1 & Hb1 & Hn1 & Hk1 & Ha & Hb).
  assert (Hh1 : has u1 v) by (apply Hhas1, Hhas).
  assert (Hq1 : forall m, inHeap u1 m = inHeap u m) by (intros m; unfold inHeap; rewrite Hheap1; reflexivity).
  (* and is marked stale *)
  apply setStale_inv in H as [[Hu ->]|[Hu H]].
  - assert (Hng : inGraph (nd u v) = false).
    { destruct (inGraph (nd u v)) eqn:Eg; [|reflexivity]. pose proof (st_hnonneg _ HS v Eg) as H0.
      rewrite Hnd1 in Hu. cbn in Hu. unfold unset in Hu. lia. }
    split; [|split].
    + constructor; auto.
      * exists a, b, (setAt (nd u v)). rewrite Hnd1. symmetry. apply node_eta_vps.
      * intros m. rewrite Hq1. auto.
      * intros m. rewrite Hq1. auto.
      * congruence.
    + intros x Hp Hr. destruct (Ha x Hp Hr) as [-> ->]. rewrite Hnd1. auto.
    + intros Hp. destruct (Hb Hp) as [-> ->]. rewrite Hnd1. auto.
  - cbv zeta in H. set (u2 := upd u1 v (set setAt (fun _ => stabNum u1))) in *.
    assert (Hnd2 : nd u2 v = nd u v <| value := a |> <| pending := b |> <| setAt := stabNum u |>).
    { unfold u2. rewrite nd_upd_eq by exact Hh1. rewrite Hnd1, Hk1. reflexivity. }
    assert (Hne2 : forall m, m <> v -> nd u2 m = nd u m).
    { intros m Hm. unfold u2. rewrite nd_upd_ne by exact Hm. apply Hne1, Hm. }
    assert (Hfin : only_heap u2 u' /\ inHeap u' v = true /\ (forall m, inHeap u m = true -> inHeap u' m = true) /\
                   (forall m, inHeap u' m = true -> inHeap u m = true \/ m = v)).
    { destruct H as [[Hq ->]|[Hq H]].
      - split; [apply only_heap_refl|]. split; [exact Hq|]. change (forall m, inHeap u2 m = inHeap u1 m) with (forall m, inHeap u1 m = inHeap u1 m).
        split; intros m; change (inHeap u2 m) with (inHeap u1 m); rewrite Hq1; auto.
      - split; [apply heapAdd_inv in H as (w & _ & ->); apply only_heap_set|].
        split; [rewrite (heapAdd_inHeap_eq _ _ _ v H), (bool_decide_eq_true_2 (v = v)) by reflexivity; reflexivity|].
        split; intros m; rewrite (heapAdd_inHeap_eq _ _ _ m H); change (inHeap u2 m) with (inHeap u1 m); rewrite Hq1.
        + intros ->. apply orb_true_r.
        + intros [Hm%bool_decide_eq_true|Hm]%orb_true_iff; auto. }
    destruct Hfin as (O & Hqv & Hmono & Hnew).
    split; [|split].
    + constructor.
      * intros m Hm. rewrite (oh_nd _ _ O). apply Hne2, Hm.
      * exists a, b, (stabNum u). rewrite (oh_nd _ _ O). exact Hnd2.
      * rewrite (oh_binds _ _ O), (oh_next _ _ O), (oh_stabNum _ _ O). repeat split; assumption.
      * intros m. rewrite (oh_has _ _ O). unfold u2. rewrite has_upd. apply Hhas1.
      * exact Hmono.
      * exact Hnew.
      * intros _. exact Hqv.
    + intros x Hp Hr. destruct (Ha x Hp Hr) as [-> ->]. rewrite (oh_nd _ _ O), Hnd2. auto.
    + intros Hp. destruct (Hb Hp) as [-> ->]. rewrite (oh_nd _ _ O), Hnd2. auto.
Qed.

Record wrsPost (l : list nid) (u u' : state) : Prop := {
  ws_struct : Struct u';
  ws_inv : ValInv u';
  ws_other : forall m, m ∉ l -> nd u' m = nd u m;
  ws_vps : forall m, vps (nd u m) (nd u' m);
  ws_fields : binds u' = binds u /\ next u' = next u /\ stabNum u' = stabNum u;
  ws_has : forall m, has u' m <-> has u m;
  ws_heap : forall m, inHeap u m = true -> inHeap u' m = true;
  ws_heap_new : forall m, inHeap u' m = true -> inHeap u m = true \/ m ∈ l;
  ws_queued : forall v, v ∈ l -> inGraph (nd u v) = true -> inHeap u' v = true
}.

Lemma vps_kind x y : vps x y -> nkind y = nkind x /\ inGraph y = inGraph x.
Proof. intros (a & b & c & ->). split; reflexivity. Qed.

Lemma dsteps_post l : forall u u',
  Struct u -> ValInv u -> Forall (fun w => isVar u w = true) l -> rfold dstep l u = Ok u' -> wrsPost l u u'.
Proof.
  induction l as [|v l IH]; intros u u' HS V Hv H.
  - injection H as <-. constructor; auto; try reflexivity; try tauto.
    + intros m. apply vps_refl.
    + intros w Hw. inv Hw.
  - rewrite rfold_cons in H. destruct (dstep u v) as [u1| |] eqn:E1; simpl in H; try discriminate.
    inversion Hv as [|? ? Hv1 Hvl]; subst.
    destruct (dstep_wr u v u1 HS Hv1 E1) as (P1 & _).
    destruct (isVar_true _ _ Hv1) as [_ Kv].
    destruct (ValInv_write u v u1 HS V Kv P1) as [HS1 V1].
    assert (Hvps1 : forall m, vps (nd u m) (nd u1 m)).
    { intros m. destruct (decide (m = v)) as [->|Hm]; [exact (wr_self _ _ _ P1)|].
      rewrite (wr_other _ _ _ P1 m Hm). apply vps_refl. }
    assert (Hvl1 : Forall (fun w => isVar u1 w = true) l).
    { eapply List.Forall_impl; [|exact Hvl]. intros w Hw. apply isVar_spec in Hw as [k Hk]. apply isVar_spec.
      exists k. rewrite (proj1 (vps_kind _ _ (Hvps1 w))). exact Hk. }
    pose proof (IH u1 u' HS1 V1 Hvl1 H) as P2.
    constructor.
    + apply P2.
    + apply P2.
    + intros m Hm. rewrite (ws_other _ _ _ P2 m) by (intros Hin; apply Hm; right; exact Hin).
      apply (wr_other _ _ _ P1). intros ->. apply Hm. left.
    + intros m. eapply vps_trans; [apply Hvps1|apply P2].
    + destruct (wr_fields _ _ _ P1) as (? & ? & ?), (ws_fields _ _ _ P2) as (? & ? & ?). repeat split; congruence.
    + intros m. rewrite (ws_has _ _ _ P2), (wr_has _ _ _ P1). reflexivity.
    + intros m Hm. apply (ws_heap _ _ _ P2), (wr_heap _ _ _ P1), Hm.
    + intros m Hm. destruct (ws_heap_new _ _ _ P2 m Hm) as [H1|H1]; [|right; right; exact H1].
      destruct (wr_heap_new _ _ _ P1 m H1) as [?|E]; [auto|right; rewrite E; left].
    + intros w Hw Hg. apply elem_of_cons in Hw as [->|Hw].
      * apply (ws_heap _ _ _ P2). apply (wr_queued _ _ _ P1 Hg).
      * apply (ws_queued _ _ _ P2 w Hw). rewrite (proj2 (vps_kind _ _ (Hvps1 w))). exact Hg.
Qed.

(** [ValInv] / [Struct] only read nodes, heap, binds, next and stabNum *)
Lemma pendEq_same s t :
  nodes t = nodes s -> heap t = heap s -> binds t = binds s -> next t = next s -> stabNum t = stabNum s ->
  pendEq s t.
Proof.
  intros Hn Hh Hb Hx Hk. constructor; auto; [| |repeat split; [assumption|lia|assumption]].
  - intros m. rewrite (nodes_eq_nd _ _ Hn m). destruct (nd s m); reflexivity.
  - intros m. unfold has. rewrite Hn. reflexivity.
Qed.

Lemma requeue_sim always : forall s t s' t',
  pendOnly s t -> PassProofs.requeueAlways always s = Ok s' -> PassProofs.requeueAlways always t = Ok t' ->
  pendOnly s' t'.
Proof.
  induction always as [|a l IH]; intros s t s' t' P Hs Ht; unfold PassProofs.requeueAlways in *.
  - injection Hs as <-. injection Ht as <-. exact P.
  - rewrite rfold_cons in Hs, Ht.
    destruct (pendOnly_fields s t a P) as (_ & _ & _ & _ & _ & Hh & _). rewrite Hh in Ht.
    destruct (height (nd s a) =? unset); [simpl in *; eapply IH; eauto|].
    destruct (heapAddIfNotPresent s a) as [s1| |] eqn:E1; simpl in Hs; try discriminate.
    destruct (heapAddIfNotPresent t a) as [t1| |] eqn:E2; simpl in Ht; try discriminate.
    eapply IH; [|exact Hs|exact Ht]. eapply pendOnly_heapAddIfNotPresent; eauto.
Qed.

(** ** the end of a pass, unfolded *)
Definition endU (s3 : state) : state :=
  let r := runUpdateHandlers (emit (EvPassEnd XOk) s3) in r <| stabNum := stabNum r + 1 |>.

Lemma endU_facts s3 :
  nodes (endU s3) = nodes s3 /\ heap (endU s3) = heap s3 /\ binds (endU s3) = binds s3 /\
  next (endU s3) = next s3 /\ stabNum (endU s3) = stabNum s3 + 1 /\ setDuring (endU s3) = setDuring s3 /\
  setRemoved (endU s3) = setRemoved s3 /\ obs (endU s3) = obs s3 /\
  log (endU s3) = rev (map (hev s3) (handlers s3)) ++ EvPassEnd XOk :: log s3.
Proof.
  unfold endU. rewrite runUpdateHandlers_eq. cbn. repeat split.
  f_equal. f_equal. apply map_ext. intros k. apply hev_emit.
Qed.

Lemma stabilizeEnd_unfold s3 s' :
  stabilizeEnd s3 None = Ok s' ->
  exists u1, rfold dstep (setRemoved (endU s3) ++ setDuring (endU s3)) (endU s3) = Ok u1 /\
             s' = u1 <| setDuring := [] |> <| setRemoved := [] |> <| status := 0 |>.
Proof.
  unfold stabilizeEnd. cbv zeta. change (classify None) with XOk. fold (endU s3).
  rewrite applyDeferredSets_unfold. intros H.
  apply rbind_ok in H as (s1 & H1 & [= <-]). apply rbind_ok in H1 as (u1 & H1 & [= <-]). eauto.
Qed.

Lemma recoverPanic_None s at_ s' : recoverPanic s None at_ = Ok s' -> s' = s.
Proof. intros [= <-]. reflexivity. Qed.

(** everything about the two runs *)
Record writesEnd (s : state) (p : plan) (s' t' sLp sL : state) (at_ : nid) (al : list nid) : Prop := {
  we_free : stabilize [] false s = Ok (t', None);
  we_loop_p : passResult p false s = Ok (sLp, None, at_, al);
  we_loop_free : passResult [] false s = Ok (sL, None, at_, al);
  we_sim : pendOnly sLp sL;
  we_nodes_free : nodes t' = nodes sL;
  we_log : log s' = log t';
  we_vps : forall n, vps (nd t' n) (nd s' n);
  we_other : forall n, n ∉ setDuring sLp -> nd s' n = nd t' n <| pending := pending (nd s' n) |>;
  we_vars : Forall (fun v => isVar s v = true) (setDuring sLp);
  we_written : forall v x, v ∈ setDuring sLp -> pending (nd sLp v) = Some x ->
                           value (nd s' v) = x /\ pending (nd s' v) = None;
  we_queued : forall v, v ∈ setDuring sLp -> inGraph (nd s' v) = true -> inHeap s' v = true;
  we_heap : forall n, inHeap t' n = true -> inHeap s' n = true;
  we_heap_new : forall n, inHeap s' n = true -> inHeap t' n = true \/ n ∈ setDuring sLp;
  we_fields : binds s' = binds t' /\ stabNum s' = stabNum t' /\ obs s' = obs t' /\
              status s' = 0 /\ setDuring s' = [] /\ setRemoved s' = [];
  we_inv : ValInv s';
  we_struct : Struct s'
}.

Theorem pass_writes s p s' :
  wfb s = true -> ValInv s -> writes_only p = true -> plan_ok s p = true ->
  stabilize p false s = Ok (s', None) ->
  exists t' sLp sL at_ al, writesEnd s p s' t' sLp sL at_ al.
Proof.
  intros Hwf V Hp Hpok H. destruct (wfb_transients _ Hwf) as (Hst & Hsd & Hsr & Hh).
  pose proof (vi_bf _ V) as HBF. pose proof (wfb_Struct s Hwf HBF) as HS.
  destruct (pass_total s Hwf V) as [t' H0].
  destruct (pass_all s t' Hwf V H0) as (_ & Hwft & Vt & _).
  pose proof (wfb_Struct t' Hwft (vi_bf _ Vt)) as HSt.
  (* both runs, decomposed *)
  destruct (stabilize_decompose p false s s' None Hst H) as (sLp & atp & alp & s2p & s3p & ELp & ERp & EPp & EEp).
  destruct (stabilize_decompose [] false s t' None Hst H0) as (sL & at_ & al & sR & s3 & EL & ER & EP & EE).
  apply recoverPanic_None in EPp as ->. apply recoverPanic_None in EP as ->.
  pose proof ELp as ELp'. pose proof EL as EL'. unfold passResult in ELp', EL'. cbv zeta in ELp', EL'. simpl in ELp', EL'.
  set (s1 := EngineLocal.passStart s) in *.
  assert (HS1 : Struct s1) by (destruct HS; constructor; assumption).
  pose proof (LInv_start s Hwf V) as L1. change (PassProofs.passStart s) with s1 in L1.
  destruct (loop_sim _ _ p _ s1 s1 [] sLp None atp alp sL None at_ al Hp eq_refl (pendOnly_refl s1) HS1 L1 ELp' EL')
    as (PL & _ & -> & ->).
  assert (HA1 : AlwaysOK s1 []).
  { split; [|intros x Hx; inv Hx]. intros x _ Hd. exfalso.
    pose proof (stamps_node_true _ _ (vi_stamps _ V x)). unfold isDone in Hd. apply Z.eqb_eq in Hd.
    change (recomputedAt (nd s x) = stabNum s) in Hd. lia. }
  destruct (loop_LInv _ _ _ s1 [] sL None at_ al HS1 L1 HA1 EL') as (_ & LL & _ & FL & _ & _).
  pose proof (requeue_sim al sLp sL s2p sR PL ERp ER) as PR.
  pose proof (requeue_only_heap _ _ _ ERp) as ORp. pose proof (requeue_only_heap _ _ _ ER) as OR.
  (* the two epilogues *)
  destruct (stabilizeEnd_unfold _ _ EEp) as (u1 & Ed & Es').
  destruct (stabilizeEnd_unfold _ _ EE) as (u0 & Ed0 & Et').
  destruct (endU_facts s2p) as (Un & Uh & Ub & Ux & Uk & Usd & Usr & Uo & Ul).
  destruct (endU_facts sR) as (Tn & Th & Tb & Tx & Tk & Tsd & Tsr & To & Tl).
  pose proof PR as (Rheap & Rlog & Rk & Rst & Rhd & Rsr & Robs & Rb & Rnd & Rhas).
  assert (HsrR : setRemoved sR = []).
  { rewrite (oh_setRemoved _ _ OR), (sf_setRemoved _ _ FL). exact Hsr. }
  assert (HsdR : setDuring sR = []).
  { rewrite (oh_setDuring _ _ OR), (sf_setDuring _ _ FL). exact Hsd. }
  rewrite Tsr, Tsd, HsrR, HsdR in Ed0. injection Ed0 as <-.
  assert (HD : setRemoved (endU s2p) ++ setDuring (endU s2p) = setDuring sLp).
  { rewrite Usr, Usd, <- Rsr, HsrR, (oh_setDuring _ _ ORp). reflexivity. }
  rewrite HD in Ed.
  (* the state before the deferred writes satisfies the invariants *)
  assert (Ent : nodes t' = nodes sR) by (rewrite Et'; exact Tn).
  assert (Eth : heap t' = heap sR) by (rewrite Et'; exact Th).
  assert (Etb : binds t' = binds sR) by (rewrite Et'; exact Tb).
  assert (Etx : next t' = next sR) by (rewrite Et'; exact Tx).
  assert (Etk : stabNum t' = stabNum sR + 1) by (rewrite Et'; exact Tk).
  assert (Eto : obs t' = obs sR) by (rewrite Et'; exact To).
  assert (Etl : log t' = rev (map (hev sR) (handlers sR)) ++ EvPassEnd XOk :: log sR) by (rewrite Et'; exact Tl).
  assert (EQ : pendEq t' (endU s2p)).
  { constructor.
    - intros m. rewrite (nodes_eq_nd _ _ Un m), (nodes_eq_nd _ _ Ent m).
      destruct (pendOnly_sym _ _ PR) as (_ & _ & _ & _ & _ & _ & _ & _ & A & _). apply A.
    - intros m. unfold has. rewrite Un, Ent. symmetry. apply Rhas.
    - rewrite Uh, Eth. symmetry. exact Rheap.
    - rewrite Ub, Ux, Uk, Etb, Etx, Etk.
      assert (next sR <= next s2p)%nat.
      { rewrite (oh_next _ _ OR), (oh_next _ _ ORp), (sf_next _ _ FL).
        destruct (passResult_frames _ _ _ _ _ _ _ ELp) as ((_ & _ & _ & _ & Hnx & _) & _). exact Hnx. }
      repeat split; [congruence|assumption|congruence]. }
  pose proof (pq_Struct _ _ EQ HSt) as HSu. pose proof (pq_ValInv _ _ EQ Vt) as Vu.
  assert (HvL : Forall (fun v => isVar sLp v = true) (setRemoved sLp ++ setDuring sLp)).
  { apply (passResult_deferred_are_vars p false s sLp None at_ al); [|exact Hpok| |exact ELp].
    - intros n Hn. apply (bf_has_lt s HBF n Hn).
    - rewrite Hsd, Hsr. constructor. }
  assert (HvD : Forall (fun v => isVar sLp v = true) (setDuring sLp)).
  { apply Forall_app in HvL. apply HvL. }
  assert (Hkind_u : forall m, nkind (nd (endU s2p) m) = nkind (nd sLp m)).
  { intros m. rewrite (nodes_eq_nd _ _ Un m), (oh_nd _ _ ORp). reflexivity. }
  assert (HvU : Forall (fun v => isVar (endU s2p) v = true) (setDuring sLp)).
  { eapply List.Forall_impl; [|exact HvD]. intros w Hw. apply isVar_spec in Hw as [k Hk]. apply isVar_spec.
    exists k. rewrite Hkind_u. exact Hk. }
  pose proof (dsteps_post _ _ _ HSu Vu HvU Ed) as W.
  destruct (dsteps_inv _ _ _ HvU Ed) as (D1 & Hvals).
  (* node records of the final states *)
  assert (Hnd' : forall m, nd s' m = nd u1 m) by (intros m; rewrite Es'; reflexivity).
  assert (Hndt : forall m, nd t' m = nd sR m) by (apply nodes_eq_nd, Ent).
  assert (Hndu : forall m, nd (endU s2p) m = nd s2p m) by (apply nodes_eq_nd, Un).
  assert (Hvps_u : forall m, vps (nd t' m) (nd (endU s2p) m)).
  { intros m. rewrite (pq_nd _ _ EQ m). exists (value (nd t' m)), (pending (nd (endU s2p) m)), (setAt (nd t' m)).
    destruct (nd t' m); reflexivity. }
  destruct (dfr_state _ _ D1) as (B1 & B2 & B3 & B4 & _ & _ & B7 & B8 & _ & _ & _ & B12 & _ & B14).
  assert (Hq' : forall m, inHeap s' m = inHeap u1 m) by (intros m; rewrite Es'; reflexivity).
  assert (HinG : forall m, inGraph (nd s' m) = inGraph (nd (endU s2p) m)).
  { intros m. rewrite Hnd'. apply (vps_kind _ _ (ws_vps _ _ _ W m)). }
  assert (EQ' : pendEq u1 s').
  { apply pendEq_same; rewrite Es'; reflexivity. }
  exists t', sLp, sL, at_, al. constructor.
  - exact H0.
  - exact ELp.
  - exact EL.
  - exact PL.
  - rewrite Ent. apply (oh_nodes _ _ OR).
  - transitivity (log u1); [rewrite Es'; reflexivity|]. rewrite B14, Ul, Etl, Rhd, Rlog. f_equal. f_equal.
    apply map_ext. intros k. symmetry. apply hev_ext; [exact Robs|].
    intros m. destruct (pendOnly_fields _ _ m PR) as (K1 & K2 & K3 & _). auto.
  - intros n. rewrite Hnd'. eapply vps_trans; [apply Hvps_u|apply (ws_vps _ _ _ W n)].
  - intros n Hn. rewrite Hnd', (ws_other _ _ _ W n Hn). apply (pq_nd _ _ EQ n).
  - eapply List.Forall_impl; [|exact HvD]. intros w Hw. apply isVar_spec in Hw as [k Hk]. apply isVar_spec.
    exists k. rewrite <- Hk, <- (pendOnly_nkind _ _ w PL), (sf_nkind _ _ FL). reflexivity.
  - intros v x Hv Hpx. rewrite !Hnd'. apply (proj2 (Hvals v x) Hv).
    + rewrite Hndu, (oh_nd _ _ ORp). exact Hpx.
    + pose proof (stamps_node_true _ _ (vi_stamps _ Vu v)). lia.
  - intros v Hv Hg. rewrite Hq'. apply (ws_queued _ _ _ W v Hv). rewrite <- HinG. exact Hg.
  - intros n Hn. rewrite Hq'. apply (ws_heap _ _ _ W). rewrite (pq_inHeap _ _ EQ). exact Hn.
  - intros n Hn. rewrite Hq' in Hn. destruct (ws_heap_new _ _ _ W n Hn) as [H1|H1]; [left|right; exact H1].
    rewrite <- (pq_inHeap _ _ EQ). exact H1.
  - destruct (ws_fields _ _ _ W) as (W1 & W2 & W3).
    split; [transitivity (binds u1); [rewrite Es'; reflexivity|]; rewrite W1, Ub, Etb; symmetry; exact Rb|].
    split; [transitivity (stabNum u1); [rewrite Es'; reflexivity|]; rewrite W3, Uk, Etk, Rk; reflexivity|].
    split; [transitivity (obs u1); [rewrite Es'; reflexivity|]; rewrite B4, Uo, Eto; symmetry; exact Robs|].
    rewrite Es'. repeat split.
  - apply (pq_ValInv _ _ EQ'). apply W.
  - apply (pq_Struct _ _ EQ'). apply W.
Qed.

(** C02 for passes with writes: "final" = the value when the computations of the pass ended,
    before the deferred writes are applied *)
Theorem pass_writes_args_final s p s' :
  wfb s = true -> ValInv s -> writes_only p = true -> plan_ok s p = true ->
  stabilize p false s = Ok (s', None) ->
  exists sLp at_ al,
    passResult p false s = Ok (sLp, None, at_, al) /\
    (forall evs n args r, log s' = evs ++ log s -> EvInvoked n args r ∈ evs ->
       args = map (valueOf sLp) (decl (nd sLp n)) /\ r = value (nd sLp n) /\
       recomputedAt (nd sLp n) = stabNum s) /\
    (forall n, n ∉ setDuring sLp -> value (nd s' n) = value (nd sLp n)) /\
    (forall n, recomputedAt (nd s' n) = recomputedAt (nd sLp n) /\ changedAt (nd s' n) = changedAt (nd sLp n) /\
               nkind (nd s' n) = nkind (nd sLp n) /\ decl (nd s' n) = decl (nd sLp n)).
Proof.
  intros Hwf V Hp Hpok H. destruct (pass_writes s p s' Hwf V Hp Hpok H) as (t' & sLp & sL & at_ & al & E).
  exists sLp, at_, al. split; [apply E|].
  pose proof (nodes_eq_nd _ _ (we_nodes_free _ _ _ _ _ _ _ _ E)) as Hnt.
  pose proof (we_sim _ _ _ _ _ _ _ _ E) as PL.
  assert (Hval : forall q, valueOf t' q = valueOf sLp q).
  { intros q. rewrite (valueOf_nodes sL t' q (we_nodes_free _ _ _ _ _ _ _ _ E)). apply (valueOf_pendOnly _ _ q PL). }
  split; [|split].
  - intros evs n args r Hl He. rewrite (we_log _ _ _ _ _ _ _ _ E) in Hl.
    destruct (pass_args_final s t' Hwf V (we_free _ _ _ _ _ _ _ _ E) evs n args r Hl He) as (A1 & A2 & A3).
    rewrite Hnt in A1, A2, A3. destruct (pendOnly_fields _ _ n PL) as (_ & Kd & Kv & Kr & _).
    rewrite Kd, Kv, Kr in *. split; [|auto]. rewrite A1. apply map_ext. intros q. apply Hval.
  - intros n Hn. rewrite (we_other _ _ _ _ _ _ _ _ E n Hn). cbn. rewrite Hnt.
    apply (pendOnly_fields _ _ n PL).
  - intros n. destruct (we_vps _ _ _ _ _ _ _ _ E n) as (a & b & c & ->). cbn. rewrite Hnt.
    destruct (pendOnly_fields _ _ n PL) as (K1 & K2 & _ & K4 & K5 & _). auto.
Qed.

(** * B. C13: which update handlers a plan-free pass runs *)

(** what one recompute does to the handler set *)
Lemma rns_handlers fuel s m s' imm :
  BF s -> has s m -> recomputeNodeSerial fuel [] s m = Ok (s', None, imm) ->
  (handlers s' = handlers s /\ changedAt (nd s' m) = changedAt (nd s m)) \/
  (changedAt (nd s' m) = stabNum s /\
   forall k, k ∈ handlers s' <-> k ∈ handlers s \/ k = m \/ k ∈ observers (nd s m)).
Proof.
  intros HBF Hm H. rewrite recomputeNodeSerial_unfold in H. cbv zeta in H.
  set (s0 := upd s m (set recomputedAt (fun _ => stabNum s))) in *.
  assert (Hnd0 : nd s0 m = nd s m <| recomputedAt := stabNum s |>) by (apply nd_upd_eq; exact Hm).
  apply rbind_ok in H as ([[s1 e1] cut] & H1 & H).
  pose proof (pf_maybeCutoff _ _ _ _ _ _ _ H1) as (_ & K1 & _ & _ & _ & Hs1 & _).
  apply maybeCutoff_spec in H1 as (V1 & _ & Hh1 & Hrest).
  assert (He1 : e1 = None).
  { destruct (nkind (nd s m)); destruct Hrest as (-> & _); reflexivity. }
  subst e1.
  destruct (vps_fields _ _ (V1 m)) as (Ek1 & _ & _ & _ & _ & _ & Ec1 & _ & _ & Eo1 & _).
  destruct cut.
  - injection H as <- <-. left. split; [exact Hh1|]. rewrite Ec1, Hnd0. reflexivity.
  - apply rbind_ok in H as ([s2 e2] & H2 & H).
    pose proof (pf_stabilizeNode _ _ _ _ _ _ H2) as (_ & K2 & _ & _ & _ & Hs2 & _).
    apply stabilizeNode_shallow in H2 as (V2 & _ & Hh2 & He2).
    2:{ intros b Hb. pose proof (bf_kind s HBF m) as Hk. rewrite Ek1, Hnd0 in Hb. cbn in Hb. rewrite Hb in Hk. discriminate. }
    assert (e2 = None) as ->.
    { rewrite He2. destruct (nkind (nd s1 m)); reflexivity. }
    destruct (vps_fields _ _ (V2 m)) as (_ & _ & _ & _ & _ & _ & _ & _ & _ & Eo2 & _).
    right. pose proof (successTail_shape _ _ _ _ _ H) as (_ & (w & h & Es')).
    destruct (C13_changed_node_is_queued_for_handler _ _ _ _ _ H) as (A1 & A2 & A3 & A4).
    assert (Hm2 : has s2 m) by (apply Hs2, Hs1, has_upd, Hm).
    split.
    + rewrite Es'. change (changedAt (nd (upd s2 m (set changedAt (fun _ => stabNum s2))) m) = stabNum s).
      rewrite nd_upd_eq by exact Hm2. cbn. rewrite K2, K1. reflexivity.
    + intros k. rewrite Eo2, Eo1, Hnd0 in A4. rewrite Hh2, Hh1 in A3, A4. split.
      * intros Hk. apply A4 in Hk. exact Hk.
      * intros [Hk|[->|Hk]]; [apply A3, Hk|exact A1|]. apply A2.
        rewrite Es'. change (k ∈ observers (nd (upd s2 m (set changedAt (fun _ => stabNum s2))) m)).
        rewrite (nd_upd_proj observers) by reflexivity. rewrite Eo2, Eo1, Hnd0. exact Hk.
Qed.

(** the handler set, mid-pass: the nodes that changed in this pass and their observers *)
Definition HInv (s : state) : Prop :=
  forall k, k ∈ handlers s <->
    (inGraph (nd s k) = true /\ changedAt (nd s k) = stabNum s) \/
    (exists n, inGraph (nd s n) = true /\ k ∈ observers (nd s n) /\ changedAt (nd s n) = stabNum s).

Lemma step_HInv h0 base fuel s m s' imm :
  Struct s -> LInv h0 base s (Some m) -> HInv s ->
  recomputeNodeSerial fuel [] s m = Ok (s', None, imm) -> HInv s'.
Proof.
  intros HS L HI E.
  assert (Hg : inGraph (nd s m) = true).
  { apply (li_orig _ _ _ _ L m). left. apply inW_iff; [apply (li_heap _ _ _ _ L)|]. right; reflexivity. }
  destruct (rns_step fuel s m s' None imm (li_bf _ _ _ _ L) (has_inGraph _ _ Hg) (proj1 (li_heap _ _ _ _ L)) E) as [_ P].
  pose proof (stepPost_sframe _ _ _ _ P) as F.
  pose proof (PassProofs.Hm_lt _ _ _ _ L) as Hlt.
  pose proof (PassProofs.Hst _ _ _ _ L m) as Hstm.
  assert (Hother : forall n, n <> m -> changedAt (nd s' n) = changedAt (nd s n)).
  { intros n Hn. rewrite (sp_other _ _ _ _ P n Hn). reflexivity. }
  assert (Hk : stabNum s' = stabNum s) by apply (sf_stabNum _ _ F).
  destruct (rns_handlers fuel s m s' imm (li_bf _ _ _ _ L) (has_inGraph _ _ Hg) E) as [[Hh Hc]|[Hc Hh]].
  - (* cut off: nothing changes *)
    assert (Hall : forall n, changedAt (nd s' n) = changedAt (nd s n)).
    { intros n. destruct (decide (n = m)) as [->|Hn]; [exact Hc|apply Hother, Hn]. }
    intros k. rewrite Hh, (HI k), Hk, (sf_inGraph _ _ F), Hall. apply or_iff_compat_l.
    split; intros (n & H1 & H2 & H3); exists n.
    + rewrite (sf_inGraph _ _ F), (sf_observers _ _ F), Hall. auto.
    + rewrite (sf_inGraph _ _ F), (sf_observers _ _ F), Hall in *. auto.
  - intros k. rewrite (Hh k), (HI k), Hk. split.
    + intros [[[H1 H2]|(n & H1 & H2 & H3)]|[->|Hko]].
      * left. rewrite (sf_inGraph _ _ F). split; [exact H1|].
        destruct (decide (k = m)) as [->|Hn]; [exact Hc|rewrite (Hother k Hn); exact H2].
      * right. exists n. rewrite (sf_inGraph _ _ F), (sf_observers _ _ F). split; [exact H1|]. split; [exact H2|].
        destruct (decide (n = m)) as [->|Hn]; [exact Hc|rewrite (Hother n Hn); exact H3].
      * left. rewrite (sf_inGraph _ _ F). auto.
      * right. exists m. rewrite (sf_inGraph _ _ F), (sf_observers _ _ F). auto.
    + intros [[H1 H2]|(n & H1 & H2 & H3)].
      * destruct (decide (k = m)) as [->|Hn]; [auto|]. left. left.
        rewrite (sf_inGraph _ _ F) in H1. rewrite (Hother k Hn) in H2. auto.
      * rewrite (sf_inGraph _ _ F), (sf_observers _ _ F) in *.
        destruct (decide (n = m)) as [->|Hn]; [auto|]. left. right. exists n. rewrite (Hother n Hn) in H3. auto.
Qed.

Lemma chain_HInv h0 base fuel : forall s n s' e at_,
  Struct s -> LInv h0 base s (Some n) -> HInv s ->
  recomputeChain fuel [] s n = Ok (s', e, at_) -> HInv s'.
Proof.
  induction fuel as [|fuel IH]; intros s n s' e at_ HS L HI H; [discriminate|].
  cbn [recomputeChain] in H.
  destruct (recomputeNodeSerial fuel [] s n) as [[[s1 e1] imm]| |] eqn:E1; simpl in H; try discriminate.
  destruct (rns_preserves_LInv h0 base fuel s n s1 e1 imm HS L E1) as [-> L1].
  pose proof (step_HInv _ _ _ _ _ _ _ HS L HI E1) as HI1.
  assert (Hg : inGraph (nd s n) = true).
  { apply (li_orig _ _ _ _ L n). left. apply inW_iff; [apply (li_heap _ _ _ _ L)|]. right; reflexivity. }
  destruct (rns_step fuel s n s1 None imm (li_bf _ _ _ _ L) (has_inGraph _ _ Hg) (proj1 (li_heap _ _ _ _ L)) E1) as [_ P].
  destruct imm as [c|].
  - eapply IH; [| |exact HI1|exact H]; [exact (sf_Struct _ _ (stepPost_sframe _ _ _ _ P) HS)|exact L1].
  - injection H as <- _ _. exact HI1.
Qed.

Lemma loop_HInv h0 base fuel : forall s always s' e at_ always',
  Struct s -> LInv h0 base s None -> HInv s ->
  passLoop fuel [] s always = Ok (s', e, at_, always') -> HInv s'.
Proof.
  induction fuel as [|fuel IH]; intros s always s' e at_ always' HS L HI H; [discriminate|].
  cbn [passLoop] in H.
  destruct (Heap.cnt (heap s) <=? 0); [injection H as <- _ _ _; exact HI|].
  destruct (Heap.removeMin (heap s)) as [[n w]|] eqn:Erm; [|discriminate].
  set (s2 := s <| heap := w |>) in *.
  destruct (recomputeChain fuel [] s2 n) as [[[s3 e3] at3]| |] eqn:E3; simpl in H; try discriminate.
  pose proof (pop_LInv h0 base s n w HS L Erm) as L2. fold s2 in L2.
  assert (F2 : sframe s s2) by apply sframe_set_heap.
  pose proof (sf_Struct _ _ F2 HS) as HS2.
  assert (HI2 : HInv s2) by exact HI.
  pose proof (chain_HInv _ _ _ _ _ _ _ _ HS2 L2 HI2 E3) as HI3.
  destruct (chain_LInv h0 base fuel s2 n s3 e3 at3 HS2 L2 E3) as (-> & L3 & F3 & _).
  eapply IH; [| |exact HI3|exact H]; [exact (sf_Struct _ _ F3 HS2)|exact L3].
Qed.

(** observers draw their identifiers from the creation counter of the nodes: an observer's
    identifier is not a node's *)
Definition ObsInv (s : state) : Prop := forall o n, obs s !! o = Some n -> ~ has s o.
Definition obsinv_b (s : state) : bool :=
  forallb (fun '(o, n) => negb (bool_decide (is_Some (nodes s !! o)))) (map_to_list (obs s)).
Lemma obsinv_b_sound s : obsinv_b s = true -> ObsInv s.
Proof.
  intros H o n Ho Hh. apply elem_of_map_to_list in Ho. pose proof (forallb_elem _ _ _ H Ho) as Hb.
  cbv beta iota in Hb. apply negb_true_iff, bool_decide_eq_false in Hb. apply Hb, Hh.
Qed.

Lemma wfb_observers s : wfb s = true -> BF s ->
  forall o n, o ∈ observers (nd s n) <-> obs s !! o = Some n.
Proof.
  intros Hwf HBF o n. destruct (wfb_all _ Hwf) as (_ & _ & _ & _ & _ & _ & _ & _ & Ho & _).
  unfold observers_ok in Ho. apply andb_true_iff in Ho as [H1 H2]. split.
  - intros Hin. assert (Hn : has s n) by (eapply has_observers; eauto).
    pose proof (forallb_elem _ _ _ H1 (proj2 (bf_allNodes s HBF n) Hn)) as Hb. cbv beta in Hb.
    apply andb_true_iff in Hb as [Hb _]. pose proof (forallb_elem _ _ _ Hb Hin) as Hc.
    apply bool_decide_eq_true in Hc. exact Hc.
  - intros Hl. apply elem_of_map_to_list in Hl. pose proof (forallb_elem _ _ _ H2 Hl) as Hb.
    cbv beta iota in Hb. apply bool_decide_eq_true in Hb. exact Hb.
Qed.

Lemma hev_inj s k1 k2 : hev s k1 = hev s k2 -> k1 = k2.
Proof. unfold hev. destruct (obs s !! k1), (obs s !! k2); congruence. Qed.

Theorem pass_handlers s s' :
  wfb s = true -> ValInv s -> ObsInv s -> stabilize [] false s = Ok (s', None) ->
  exists L H,
    rev (log s') = rev (log s) ++ [EvPassStart] ++ L ++ [EvPassEnd XOk] ++ H /\
    Forall passEv L /\ Forall EngineLocal.isHandlerEv H /\ NoDup H /\
    (forall n, EvUpd n ∈ H <-> inGraph (nd s' n) = true /\ changedAt (nd s' n) = stabNum s) /\
    (forall o v, EvObsUpd o v ∈ H <->
       exists n, obs s' !! o = Some n /\ changedAt (nd s' n) = stabNum s /\ v = valueOf s' n).
Proof.
  intros Hwf V HO H. destruct (wfb_transients _ Hwf) as (Hst & Hsd & Hsr & Hh).
  pose proof (vi_bf _ V) as HBF. pose proof (wfb_Struct s Hwf HBF) as HS.
  destruct (C13_bracket_and_order [] false s s' None Hst) as (L & sL & at_ & always & EL & Hlog & HL & Hobs & Hsort);
    [intros n Hn; apply (bf_has_lt s HBF n Hn)|reflexivity|rewrite Hsd, Hsr; constructor|exact H|].
  destruct (Hsort ltac:(rewrite Hh; constructor)) as [_ Hnd].
  pose proof EL as EL'. unfold passResult in EL'. cbv zeta in EL'. simpl in EL'.
  set (s1 := EngineLocal.passStart s) in *.
  assert (HS1 : Struct s1) by (destruct HS; constructor; assumption).
  pose proof (LInv_start s Hwf V) as L1. change (PassProofs.passStart s) with s1 in L1.
  assert (HA1 : AlwaysOK s1 []).
  { split; [|intros x Hx; inv Hx]. intros x _ Hd. exfalso.
    pose proof (stamps_node_true _ _ (vi_stamps _ V x)). unfold isDone in Hd. apply Z.eqb_eq in Hd.
    change (recomputedAt (nd s x) = stabNum s) in Hd. lia. }
  assert (HI1 : HInv s1).
  { intros k. change (handlers s1) with (handlers s). rewrite Hh. split; [intros Hk; inv Hk|].
    intros [[_ Hc]|(n & _ & _ & Hc)]; exfalso.
    - pose proof (stamps_node_true _ _ (vi_stamps _ V k)). change (changedAt (nd s k) = stabNum s) in Hc. lia.
    - pose proof (stamps_node_true _ _ (vi_stamps _ V n)). change (changedAt (nd s n) = stabNum s) in Hc. lia. }
  pose proof (loop_HInv _ _ _ _ _ _ _ _ _ HS1 L1 HI1 EL') as HIL.
  destruct (loop_LInv _ _ _ s1 [] sL None at_ always HS1 L1 HA1 EL') as (_ & LL & _ & FL & _ & _).
  pose proof (sf_Struct _ _ FL HS1) as HSL.
  (* the final state has the nodes of the loop's final state *)
  destruct (stabilize_nil_inv s s' Hst Hsd Hsr H) as (sL' & at' & al' & sR & hev' & EL2 & ER & Es' & _).
  change (emit EvPassStart (s <| status := 1 |>)) with s1 in EL2. rewrite EL' in EL2.
  injection EL2 as <- <- <-.
  assert (Hnodes : nodes s' = nodes sL).
  { rewrite Es'; [|rewrite (sf_setDuring _ _ FL); exact Hsd|rewrite (sf_setRemoved _ _ FL); exact Hsr].
    cbn. apply (oh_nodes _ _ (requeue_only_heap _ _ _ ER)). }
  pose proof (nodes_eq_nd _ _ Hnodes) as Hnd'.
  assert (Hobs' : obs s' = obs s).
  { rewrite Es'; [|rewrite (sf_setDuring _ _ FL); exact Hsd|rewrite (sf_setRemoved _ _ FL); exact Hsr].
    cbn. rewrite (oh_obs _ _ (requeue_only_heap _ _ _ ER)). exact Hobs. }
  assert (HkL : stabNum sL = stabNum s) by apply (sf_stabNum _ _ FL).
  (* observers and the observer map, in the loop's final state *)
  assert (Hoo : forall o n, o ∈ observers (nd sL n) <-> obs sL !! o = Some n).
  { intros o n. rewrite (sf_observers _ _ FL), Hobs. apply (wfb_observers s Hwf HBF). }
  assert (HOL : forall o n, obs sL !! o = Some n -> ~ has sL o).
  { intros o n Ho Hhas. rewrite Hobs in Ho. apply (HO o n Ho). apply (sf_has _ _ FL) in Hhas. exact Hhas. }
  exists L, (map (hev sL) (handlers sL)). split; [exact Hlog|]. split; [exact HL|].
  split; [apply Forall_forall; intros e He; apply elem_of_list_In, elem_of_list_fmap in He as (k & -> & _); apply hev_isHandlerEv|].
  split; [apply NoDup_fmap_2; [intros k1 k2; apply hev_inj|exact Hnd]|].
  split.
  - intros n. rewrite Hnd', <- HkL, elem_of_list_fmap. split.
    + intros (k & Ek & Hk). unfold hev in Ek. destruct (obs sL !! k) as [n'|] eqn:Eo; [discriminate|].
      injection Ek as ->. apply HIL in Hk as [Hk|(n' & _ & Hin & _)]; [exact Hk|].
      apply Hoo in Hin. congruence.
    + intros [Hg Hc]. exists n. split; [|apply HIL; left; auto].
      unfold hev. destruct (obs sL !! n) as [n'|] eqn:Eo; [|reflexivity].
      exfalso. apply (HOL n n' Eo). apply has_inGraph, Hg.
  - intros o v. rewrite elem_of_list_fmap. split.
    + intros (k & Ek & Hk). unfold hev in Ek. destruct (obs sL !! k) as [n|] eqn:Eo; [|discriminate].
      injection Ek as -> ->. exists n. rewrite Hobs', <- Hobs. split; [exact Eo|].
      rewrite Hnd', <- HkL, (valueOf_nodes sL s' n Hnodes). split; [|reflexivity].
      apply HIL in Hk as [[Hg _]|(n' & _ & Hin & Hc)].
      * exfalso. apply (HOL k n Eo). apply has_inGraph, Hg.
      * apply Hoo in Hin. congruence.
    + intros (n & Ho & Hc & ->). rewrite Hobs', <- Hobs in Ho. rewrite Hnd', <- HkL in Hc.
      exists o. split; [unfold hev; rewrite Ho, (valueOf_nodes sL s' n Hnodes); reflexivity|].
      apply HIL. right. exists n. split; [|split; [apply Hoo, Ho|exact Hc]].
      rewrite (st_nec _ HSL n). apply isNecessary_true. right. right. intros E. apply Hoo in Ho. rewrite E in Ho. inv Ho.
Qed.

(** ** examples: the state [PassProofs.ex_pre] and a plan that writes both vars *)
Definition ex_plan : plan :=
  [(4%nat, WFn, ASet 0%nat 7); (9%nat, WFn, AUpdate 1%nat 2); (9%nat, WFn, AUpdate 1%nat 3)].
Definition ex_wpost : state :=
  match stabilize ex_plan false ex_pre with Ok (s, None) => s | _ => init 0 end.

Lemma ex_wpass_ok : stabilize ex_plan false ex_pre = Ok (ex_wpost, None).
Proof.
  assert (H : match stabilize ex_plan false ex_pre with Ok (_, None) => true | _ => false end = true)
    by (vm_compute; reflexivity).
  unfold ex_wpost. destruct (stabilize ex_plan false ex_pre) as [[s [e|]]| |]; try discriminate H. reflexivity.
Qed.

Lemma ex_plan_hyps : writes_only ex_plan = true /\ plan_ok ex_pre ex_plan = true /\ ObsInv ex_pre.
Proof. split; [reflexivity|]. split; [vm_compute; reflexivity|apply obsinv_b_sound; vm_compute; reflexivity]. Qed.

(** statement forms for Properties/ *)
Lemma step_writes_ValInv s p s' :
  wfb s = true -> ValInv s -> writes_only p = true -> plan_ok s p = true ->
  step s (Stabilize p) = Ok (s', None) -> ValInv s'.
Proof.
  intros Hwf V Hp Hok H. destruct (pass_writes s p s' Hwf V Hp Hok H) as (t' & sLp & sL & at_ & al & E). apply E.
Qed.
