(** The bind-free fragment, continued (properties C12, C13, C07):
    T  totality: a plan-free serial pass from a state satisfying [wfb] and [ValInv] neither crashes
       nor runs out of fuel nor returns an error;
    A  C12: a pass whose plan only writes vars computes what the plan-free pass computes;
    B  C13: which update handlers a plan-free pass runs;
    C  C07: a pass in which one node function returns an error, and the retry. *)
From stdpp Require Import sorting.
From incr Require Import Base Heap HeapSpec HeapProofs EngineDefs Engine EngineRun EngineWf Spec
     EngineLemmas EngineLocal SpecProofs PassInv PassProofs.

Local Ltac inv H := inversion H; subst; clear H.
Local Arguments valueOf : simpl never.

(** * T. Totality of the plan-free pass *)

Lemma stabilizeNode_nil_ok fuel s m :
  isBindKind (nkind (nd s m)) = false ->
  exists s2, stabilizeNode fuel [] s m = ok s2 /\
    (forall c, height (nd s2 c) = height (nd s c)) /\ (forall c, children (nd s2 c) = children (nd s c)) /\
    heap s2 = heap s.
Proof.
  intros Hk. unfold stabilizeNode. cbv zeta.
  assert (Hup : forall f ev, (forall x, height (f x) = height x) -> (forall x, children (f x) = children x) ->
            (forall c, height (nd (emit ev (upd s m f)) c) = height (nd s c)) /\
            (forall c, children (nd (emit ev (upd s m f)) c) = children (nd s c)) /\ heap (emit ev (upd s m f)) = heap s).
  { intros f ev H1 H2. split; [|split; [|reflexivity]]; intros c; rewrite nd_emit.
    - apply (nd_upd_proj height). exact H1.
    - apply (nd_upd_proj children). exact H2. }
  assert (Hup' : forall f, (forall x, height (f x) = height x) -> (forall x, children (f x) = children x) ->
            (forall c, height (nd (upd s m f) c) = height (nd s c)) /\
            (forall c, children (nd (upd s m f) c) = children (nd s c)) /\ heap (upd s m f) = heap s).
  { intros f H1 H2. split; [|split; [|reflexivity]]; intros c.
    - apply (nd_upd_proj height). exact H1.
    - apply (nd_upd_proj children). exact H2. }
  destruct (nkind (nd s m)); try discriminate Hk.
  - destruct (pending (nd s m)); [destruct (_ =? _)|]; eexists; (split; [reflexivity|]); auto.
  - eexists; split; [reflexivity|]; auto.
  - eexists; split; [reflexivity|]. apply Hup; reflexivity.
  - eexists; split; [reflexivity|]. apply Hup; reflexivity.
  - eexists; split; [reflexivity|]. apply Hup; reflexivity.
  - eexists; split; [reflexivity|]. apply Hup'; reflexivity.
  - eexists; split; [reflexivity|]; auto.
Qed.

Lemma heapAdd_ok_of_height s n : 0 <= height (nd s n) -> exists s', heapAdd s n = Ok s'.
Proof.
  intros H. destruct (add_ok (heap s) n (height (nd s n)) H) as [w E]. unfold heapAdd. rewrite E. eauto.
Qed.

Lemma clLoop_total l : forall s held,
  (forall c, c ∈ l -> 0 <= height (nd s c)) -> (forall h, held = Some h -> 0 <= height (nd s h)) ->
  exists s' held', rfold clBody l (s, held) = Ok (s', held') /\ only_heap s s' /\
                   (forall h, held' = Some h -> 0 <= height (nd s h)).
Proof.
  induction l as [|c l IH]; intros s held Hl Hh.
  - exists s, held. split; [reflexivity|]. split; [apply only_heap_refl|exact Hh].
  - rewrite rfold_cons.
    assert (Hstep : exists s1 held1, clBody (s, held) c = Ok (s1, held1) /\ only_heap s s1 /\
                      (forall h, held1 = Some h -> 0 <= height (nd s h))).
    { unfold clBody. destruct (bool_decide _); [exists s, held; auto using only_heap_refl|].
      destruct (negb _); [exists s, held; auto using only_heap_refl|].
      destruct held as [h|].
      - destruct (heapAdd_ok_of_height s h (Hh h eq_refl)) as [s1 E]. rewrite E. simpl.
        exists s1, (Some c). split; [reflexivity|]. split.
        + apply heapAdd_inv in E as (w & _ & ->). apply only_heap_set.
        + intros h' [= <-]. apply Hl. left.
      - simpl. exists s, (Some c). split; [reflexivity|]. split; [apply only_heap_refl|].
        intros h' [= <-]. apply Hl. left. }
    destruct Hstep as (s1 & held1 & E1 & O1 & H1). rewrite E1. simpl.
    destruct (IH s1 held1) as (s' & held' & E' & O' & H').
    + intros c' Hc'. rewrite (oh_nd _ _ O1). apply Hl. right. exact Hc'.
    + intros h Hh1. rewrite (oh_nd _ _ O1). apply H1, Hh1.
    + exists s', held'. split; [exact E'|]. split; [eapply only_heap_trans; eauto|].
      intros h Hh'. rewrite <- (oh_nd _ _ O1). apply H', Hh'.
Qed.

Lemma tailR_total s n :
  (forall c, c ∈ children (nd s n) -> 0 <= height (nd s c)) -> exists r, tailR s n = Ok r.
Proof.
  intros Hc. unfold tailR. cbv zeta.
  set (s4 := insert_handler n (upd s n (set changedAt (fun _ => stabNum s)))).
  assert (Hh4 : forall c, height (nd s4 c) = height (nd s c)).
  { intros c. unfold s4. rewrite nd_insert_handler. apply (nd_upd_proj height). reflexivity. }
  assert (Hc4 : children (nd s4 n) = children (nd s n)).
  { unfold s4. rewrite nd_insert_handler. apply (nd_upd_proj children). reflexivity. }
  rewrite childrenLoop_eq.
  destruct (clLoop_total (children (nd s4 n)) s4 None) as (s5 & held & E5 & O5 & H5).
  - intros c Hcc. rewrite Hh4. apply Hc. rewrite <- Hc4. exact Hcc.
  - discriminate.
  - rewrite E5. simpl. destruct held as [h|]; [|simpl; eauto].
    destruct (canRecomputeImmediately s5 n h); [simpl; eauto|].
    destruct (heapAdd_ok_of_height s5 h) as [s6 E6]; [rewrite (oh_nd _ _ O5); apply H5; reflexivity|].
    rewrite E6. simpl. eauto.
Qed.

Lemma rns_total fuel s m :
  isBindKind (nkind (nd s m)) = false ->
  (forall c, c ∈ children (nd s m) -> 0 <= height (nd s c)) ->
  exists r, recomputeNodeSerial fuel [] s m = Ok r.
Proof.
  intros Hk Hc. rewrite rns_unfold. cbv zeta.
  set (s1 := upd s m (set recomputedAt (fun _ => stabNum s))).
  assert (H1 : (forall c, height (nd s1 c) = height (nd s c)) /\ (forall c, children (nd s1 c) = children (nd s c))
               /\ nkind (nd s1 m) = nkind (nd s m)).
  { split; [|split]; [intros c; apply (nd_upd_proj height)|intros c; apply (nd_upd_proj children)|apply (nd_upd_proj nkind)]; reflexivity. }
  destruct H1 as (Hh1 & Hc1 & Hk1).
  assert (Hafter : forall s2, (forall c, height (nd s2 c) = height (nd s c)) -> (forall c, children (nd s2 c) = children (nd s c)) ->
             nkind (nd s2 m) = nkind (nd s m) ->
             exists r, ('(s3, e) <-! stabilizeNode fuel [] s2 m;
               match e with
               | Some (EPanic m0) => Ok (s3, Some (EPanic m0), None)
               | Some e0 => s0 <-! recomputeFailed s3 m (recomputedAt (nd s m)); Ok (errorHandlers s0 m, Some e0, None)
               | None => tailR s3 m
               end) = Ok r).
  { intros s2 Hh2 Hc2 Hk2. destruct (stabilizeNode_nil_ok fuel s2 m) as (s3 & E3 & Hh3 & Hc3 & _); [rewrite Hk2; exact Hk|].
    rewrite E3. simpl. apply tailR_total. intros c Hcc. rewrite Hh3, Hh2. apply Hc. rewrite <- Hc2, <- Hc3. exact Hcc. }
  destruct (nkind (nd s m)) eqn:K; try (apply Hafter; assumption).
  destruct (apCut _ _ _); [eauto|]. apply Hafter; try assumption; intros c; rewrite nd_emit; auto.
Qed.

(** the number of registered nodes that have not run in the current pass: the fuel a pass needs *)
Definition notDone (s : state) (n : nid) : Prop := inGraph (nd s n) = true /\ isDone s n = false.
Global Instance notDone_dec s n : Decision (notDone s n).
Proof. unfold notDone. apply _. Defined.
Definition todo (s : state) : nat := length (filter (notDone s) (seq 0 (next s))).

Lemma todo_le_next s : (todo s <= next s)%nat.
Proof. unfold todo. etransitivity; [apply filter_length|]. rewrite seq_length. reflexivity. Qed.

Lemma todo_step h0 base s m s' imm :
  Struct s -> LInv h0 base s (Some m) -> stepPost s m s' imm -> (todo s' < todo s)%nat.
Proof.
  intros HS L P. pose proof (stepPost_sframe _ _ _ _ P) as F.
  assert (Hg : inGraph (nd s m) = true).
  { apply (li_orig _ _ _ _ L m). left. apply inW_iff; [apply (li_heap _ _ _ _ L)|]. right; reflexivity. }
  assert (Hd : isDone s m = false).
  { apply (li_B _ _ _ _ L m m); [apply inW_iff; [apply (li_heap _ _ _ _ L)|right; reflexivity]|apply rtc_refl]. }
  unfold todo. rewrite (sf_next _ _ F).
  apply (filter_length_mono_lt _ _ _ m).
  - intros x [H1 H2]. rewrite (sf_inGraph _ _ F) in H1. split; [exact H1|].
    apply (PassProofs.done'_false s m s' imm P x) in H2. tauto.
  - apply elem_of_seq. split; [lia|]. simpl. apply (bf_has_lt s (li_bf _ _ _ _ L)). apply has_inGraph, Hg.
  - split; assumption.
  - intros [_ H2]. apply (PassProofs.done'_false s m s' imm P m) in H2. tauto.
Qed.

Lemma todo_pos h0 base s m : LInv h0 base s (Some m) -> (0 < todo s)%nat.
Proof.
  intros L.
  assert (Hg : inGraph (nd s m) = true).
  { apply (li_orig _ _ _ _ L m). left. apply inW_iff; [apply (li_heap _ _ _ _ L)|]. right; reflexivity. }
  assert (Hd : isDone s m = false).
  { apply (li_B _ _ _ _ L m m); [apply inW_iff; [apply (li_heap _ _ _ _ L)|right; reflexivity]|apply rtc_refl]. }
  unfold todo. assert (Hin : m ∈ filter (notDone s) (seq 0 (next s))).
  { apply elem_of_list_filter. split; [split; assumption|]. apply elem_of_seq. split; [lia|]. simpl.
    apply (bf_has_lt s (li_bf _ _ _ _ L)). apply has_inGraph, Hg. }
  destruct (filter _ _); [inv Hin|simpl; lia].
Qed.

Lemma rns_total_LInv h0 base fuel s m :
  Struct s -> LInv h0 base s (Some m) -> exists s' imm, recomputeNodeSerial fuel [] s m = Ok (s', None, imm).
Proof.
  intros HS L. destruct (rns_total fuel s m) as [[[s' e] imm] E].
  - apply (bf_kind s (li_bf _ _ _ _ L)).
  - intros c Hc. apply (st_hnonneg _ HS). apply (child_reg s HS m c Hc).
  - destruct (rns_preserves_LInv h0 base fuel s m s' e imm HS L E) as [-> _]. eauto.
Qed.

Lemma chain_total h0 base fuel : forall s n,
  Struct s -> LInv h0 base s (Some n) -> (todo s <= fuel)%nat ->
  exists s' at_, recomputeChain fuel [] s n = Ok (s', None, at_) /\ (todo s' < todo s)%nat.
Proof.
  induction fuel as [|fuel IH]; intros s n HS L Hf.
  - pose proof (todo_pos _ _ _ _ L). lia.
  - cbn [recomputeChain]. destruct (rns_total_LInv h0 base fuel s n HS L) as (s1 & imm & E1). rewrite E1. simpl.
    assert (Hg : inGraph (nd s n) = true).
    { apply (li_orig _ _ _ _ L n). left. apply inW_iff; [apply (li_heap _ _ _ _ L)|]. right; reflexivity. }
    destruct (rns_step fuel s n s1 None imm (li_bf _ _ _ _ L) (has_inGraph _ _ Hg) (proj1 (li_heap _ _ _ _ L)) E1) as [_ P].
    pose proof (step_LInv h0 base s n s1 imm HS L P) as L1.
    pose proof (todo_step _ _ _ _ _ _ HS L P) as Ht.
    destruct imm as [c|]; [|eauto].
    destruct (IH s1 c (sf_Struct _ _ (stepPost_sframe _ _ _ _ P) HS) L1 ltac:(lia)) as (s' & at_ & E' & Ht').
    exists s', at_. split; [exact E'|lia].
Qed.

Lemma loop_total h0 base fuel : forall s always,
  Struct s -> LInv h0 base s None -> (todo s < fuel)%nat ->
  exists r, passLoop fuel [] s always = Ok r.
Proof.
  induction fuel as [|fuel IH]; intros s always HS L Hf; [lia|].
  cbn [passLoop]. pose proof (proj1 (li_heap _ _ _ _ L)) as I.
  destruct (Z.leb_spec (Heap.cnt (heap s)) 0) as [Hc|Hc]; [eauto|].
  destruct (Heap.removeMin (heap s)) as [[n w]|] eqn:Erm.
  2:{ apply (heap_removeMin_none _ I) in Erm. pose proof (inv_cnt _ I) as Hcnt. rewrite Erm in Hcnt. simpl in Hcnt. lia. }
  set (s2 := s <| heap := w |>).
  pose proof (pop_LInv h0 base s n w HS L Erm) as L2. fold s2 in L2.
  assert (F2 : sframe s s2) by apply sframe_set_heap.
  pose proof (sf_Struct _ _ F2 HS) as HS2.
  assert (Ht2 : todo s2 = todo s) by reflexivity.
  destruct (chain_total h0 base fuel s2 n HS2 L2 ltac:(lia)) as (s3 & at3 & E3 & Ht3). rewrite E3. simpl.
  destruct (chain_LInv h0 base fuel s2 n s3 None at3 HS2 L2 E3) as (_ & L3 & F3 & _).
  apply IH; [exact (sf_Struct _ _ F3 HS2)|exact L3|lia].
Qed.

Lemma requeue_total always : forall s, (forall x, x ∈ always -> 0 <= height (nd s x)) ->
  exists sR, PassProofs.requeueAlways always s = Ok sR.
Proof.
  induction always as [|a l IH]; intros s Hh; [eexists; reflexivity|].
  unfold PassProofs.requeueAlways. rewrite rfold_cons.
  assert (Hstep : exists s1, (if height (nd s a) =? unset then Ok s else heapAddIfNotPresent s a) = Ok s1 /\ only_heap s s1).
  { destruct (_ =? _); [exists s; split; [reflexivity|apply only_heap_refl]|].
    unfold heapAddIfNotPresent. destruct (inHeap s a); [exists s; split; [reflexivity|apply only_heap_refl]|].
    destruct (heapAdd_ok_of_height s a (Hh a ltac:(left))) as [s1 E]. exists s1. split; [exact E|].
    apply heapAdd_inv in E as (w & _ & ->). apply only_heap_set. }
  destruct Hstep as (s1 & -> & O1). simpl. apply IH. intros x Hx. rewrite (oh_nd _ _ O1). apply Hh. right. exact Hx.
Qed.

(** a plan-free serial pass of a bind-free graph succeeds *)
Theorem pass_total s :
  wfb s = true -> ValInv s -> exists s', stabilize [] false s = Ok (s', None).
Proof.
  intros Hwf V. destruct (wfb_transients _ Hwf) as (Hst & Hsd & Hsr & Hh).
  pose proof (wfb_Struct s Hwf (vi_bf _ V)) as HS.
  set (s1 := PassProofs.passStart s).
  assert (HS1 : Struct s1) by (destruct HS; constructor; assumption).
  pose proof (LInv_start s Hwf V) as L1. fold s1 in L1.
  assert (HA1 : AlwaysOK s1 []).
  { split; [|intros x Hx; inv Hx]. intros x _ Hd. exfalso.
    pose proof (stamps_node_true _ _ (vi_stamps _ V x)). unfold isDone in Hd. apply Z.eqb_eq in Hd.
    change (recomputedAt (nd s x) = stabNum s) in Hd. lia. }
  destruct (loop_total _ _ (passFuel s1) s1 [] HS1 L1) as [[[[sL e] at_] always] EL].
  { pose proof (todo_le_next s1). unfold passFuel. lia. }
  destruct (loop_LInv _ _ _ s1 [] sL e at_ always HS1 L1 HA1 EL) as (-> & LL & Hemp & FL & HAL & _).
  destruct (requeue_total always sL) as [sR ER].
  { intros x Hx. apply (st_hnonneg _ (sf_Struct _ _ FL HS1)). apply (proj2 HAL x Hx). }
  pose proof (requeue_only_heap _ _ _ ER) as OR.
  unfold stabilize. rewrite Hst. simpl. fold (PassProofs.passStart s). fold s1. rewrite EL. simpl.
  fold (PassProofs.requeueAlways always sL). rewrite ER. simpl.
  unfold stabilizeEnd.
  destruct (runUpdateHandlers_shape (emit (EvPassEnd (classify None)) sR)) as (hev & -> & _).
  unfold applyDeferredSets. cbn.
  rewrite (oh_setRemoved _ _ OR), (oh_setDuring _ _ OR), (sf_setRemoved _ _ FL), (sf_setDuring _ _ FL).
  change (setRemoved s1) with (setRemoved s). change (setDuring s1) with (setDuring s). rewrite Hsd, Hsr.
  simpl. eauto.
Qed.

(** * A. C12: a plan that only writes vars does not alter what the pass computes *)

(** plans without faults: only [ASet] / [AUpdate] actions *)
Definition writes_only (p : plan) : bool :=
  forallb (fun '(_, _, a) => match a with AFail _ => false | _ => true end) p.

Lemma writes_only_noFault p n w : writes_only p = true -> firstFault (actions_of p n w) = None.
Proof.
  intros Hp. destruct (firstFault (actions_of p n w)) as [k|] eqn:E; [|reflexivity]. exfalso.
  apply firstFault_in in E. unfold actions_of in E. apply elem_of_list_omap in E as ([[m w'] a] & Hin & Ha).
  pose proof (forallb_elem _ _ _ Hp Hin) as Hb. cbv beta iota in Hb.
  destruct (_ && _); [|discriminate Ha]. injection Ha as ->. discriminate Hb.
Qed.

Lemma pendOnly_nkind s t n : pendOnly s t -> nkind (nd t n) = nkind (nd s n).
Proof. intros P. apply (pendOnly_fields s t n P). Qed.

(** the lifting of EngineLocal's one-recompute simulation over the chain and the loop; the
    plan-free run is the one for which the loop invariant is known *)
Lemma chain_sim h0 base p fuel : forall s t n s' e1 a1 t' e2 a2,
  writes_only p = true -> status s = 1 -> pendOnly s t -> Struct t -> LInv h0 base t (Some n) ->
  recomputeChain fuel p s n = Ok (s', e1, a1) -> recomputeChain fuel [] t n = Ok (t', e2, a2) ->
  pendOnly s' t' /\ e1 = e2 /\ a1 = a2.
Proof.
  induction fuel as [|fuel IH]; intros s t n s' e1 a1 t' e2 a2 Hp Hst P HS L Hs Ht; [discriminate|].
  cbn [recomputeChain] in Hs, Ht.
  destruct (recomputeNodeSerial fuel p s n) as [[[s1 x1] i1]| |] eqn:Es; simpl in Hs; try discriminate.
  destruct (recomputeNodeSerial fuel [] t n) as [[[t1 x2] i2]| |] eqn:Et; simpl in Ht; try discriminate.
  destruct (C12_midpass_noninterference_recompute_partial fuel p [] s t n s1 x1 i1 t1 x2 i2 Hst P) as (P1 & <- & <- & _);
    [| |exact Es|exact Et|].
  { intros w. rewrite (writes_only_noFault p n w Hp). reflexivity. }
  { intros b Hk. pose proof (bf_kind t (li_bf _ _ _ _ L) n) as Hb. rewrite (pendOnly_nkind s t n P), Hk in Hb. discriminate. }
  destruct (rns_preserves_LInv h0 base fuel t n t1 x1 i1 HS L Et) as [-> L1].
  assert (Hg : inGraph (nd t n) = true).
  { apply (li_orig _ _ _ _ L n). left. apply inW_iff; [apply (li_heap _ _ _ _ L)|]. right; reflexivity. }
  destruct (rns_step fuel t n t1 None i1 (li_bf _ _ _ _ L) (has_inGraph _ _ Hg) (proj1 (li_heap _ _ _ _ L)) Et) as [_ PP].
  pose proof (stepPost_sframe _ _ _ _ PP) as F1.
  destruct i1 as [c|].
  - apply (IH s1 t1 c s' e1 a1 t' e2 a2 Hp); try assumption.
    + rewrite <- (pendOnly_status s1 t1 P1), (sf_status _ _ F1), (pendOnly_status s t P). exact Hst.
    + exact (sf_Struct _ _ F1 HS).
  - injection Hs as <- <- <-. injection Ht as <- <- <-. auto.
Qed.

Lemma loop_sim h0 base p fuel : forall s t al s' e1 a1 al1 t' e2 a2 al2,
  writes_only p = true -> status s = 1 -> pendOnly s t -> Struct t -> LInv h0 base t None ->
  passLoop fuel p s al = Ok (s', e1, a1, al1) -> passLoop fuel [] t al = Ok (t', e2, a2, al2) ->
  pendOnly s' t' /\ e1 = e2 /\ a1 = a2 /\ al1 = al2.
Proof.
  induction fuel as [|fuel IH]; intros s t al s' e1 a1 al1 t' e2 a2 al2 Hp Hst P HS L Hs Ht; [discriminate|].
  cbn [passLoop] in Hs, Ht. pose proof P as (Hheap & _). rewrite Hheap in Ht.
  destruct (Heap.cnt (heap s) <=? 0).
  { injection Hs as <- <- <- <-. injection Ht as <- <- <- <-. auto. }
  destruct (Heap.removeMin (heap s)) as [[n w]|] eqn:Erm; [|discriminate].
  set (s2 := s <| heap := w |>) in *. set (t2 := t <| heap := w |>) in *.
  assert (P2 : pendOnly s2 t2) by (apply pendOnly_set_heap, P).
  assert (Hk : nkind (nd t2 n) = nkind (nd s2 n)) by (apply (pendOnly_nkind s2 t2 n P2)).
  rewrite Hk in Ht.
  destruct (recomputeChain fuel p s2 n) as [[[s3 x1] b1]| |] eqn:Es; simpl in Hs; try discriminate.
  destruct (recomputeChain fuel [] t2 n) as [[[t3 x2] b2]| |] eqn:Et; simpl in Ht; try discriminate.
  assert (Erm' : Heap.removeMin (heap t) = Some (n, w)) by (rewrite Hheap; exact Erm).
  pose proof (pop_LInv h0 base t n w HS L Erm') as L2. fold t2 in L2.
  assert (F2 : sframe t t2) by apply sframe_set_heap.
  pose proof (sf_Struct _ _ F2 HS) as HS2.
  destruct (chain_sim h0 base p fuel s2 t2 n s3 x1 b1 t3 x2 b2 Hp Hst P2 HS2 L2 Es Et) as (P3 & <- & <-).
  destruct (chain_LInv h0 base fuel t2 n t3 x1 b1 HS2 L2 Et) as (-> & L3 & F3 & _).
  eapply (IH s3 t3 _ s' e1 a1 al1 t' e2 a2 al2 Hp); [| | | |exact Hs|exact Ht]; try assumption.
  - rewrite <- (pendOnly_status s3 t3 P3), (sf_status _ _ F3). change (status t2) with (status t).
    rewrite (pendOnly_status s t P). exact Hst.
  - exact (sf_Struct _ _ F3 HS2).
Qed.

(** ** [Struct] and [ValInv] do not read [pending], nor the pass bookkeeping *)
Record pendEq (s t : state) : Prop := {
  pq_nd : forall m, nd t m = nd s m <| pending := pending (nd t m) |>;
  pq_has : forall m, has t m <-> has s m;
  pq_heap : heap t = heap s;
  pq_fields : binds t = binds s /\ (next s <= next t)%nat /\ stabNum t = stabNum s
}.

Section PendEq.
  Context (s t : state) (E : pendEq s t).
  Lemma pq_field {A} (g : node -> A) m : (forall x q, g (x <| pending := q |>) = g x) -> g (nd t m) = g (nd s m).
  Proof. intros Hg. rewrite (pq_nd _ _ E m). apply Hg. Qed.

  Lemma pq_inHeap m : inHeap t m = inHeap s m.
  Proof. unfold inHeap. rewrite (pq_heap _ _ E). reflexivity. Qed.

  Lemma pq_valueOf p : valueOf t p = valueOf s p.
  Proof. apply PassProofs.valueOf_ext. intros m. repeat split; apply pq_field; reflexivity. Qed.

  Lemma pq_isStale m : isStale t m = isStale s m.
  Proof.
    apply isStale_fields; try (apply pq_field; reflexivity).
    - intros p. rewrite (pq_field parents) by reflexivity. reflexivity.
    - intros p _. apply pq_field; reflexivity.
  Qed.

  Lemma pq_Struct : Struct s -> Struct t.
  Proof.
    intros HS. constructor; intros *.
    - rewrite !(pq_field children), !(pq_field parents) by reflexivity. apply (st_edge _ HS).
    - rewrite (pq_field inGraph), (pq_field parents), (pq_field children) by reflexivity. apply (st_unreg _ HS).
    - rewrite (pq_field inGraph), (pq_field isNecessary) by reflexivity. apply (st_nec _ HS).
    - rewrite (pq_field inGraph), (pq_field parents), (pq_field decl) by reflexivity. apply (st_par _ HS).
    - rewrite (pq_field inGraph), (pq_field parents), !(pq_field height) by reflexivity. apply (st_height _ HS).
    - rewrite (pq_field inGraph), (pq_field height) by reflexivity. apply (st_hnonneg _ HS).
  Qed.

  Lemma pq_ValInv : ValInv s -> ValInv t.
  Proof.
    intros V. pose proof (vi_bf _ V) as HBF. destruct (pq_fields _ _ E) as (Eb & En & Ek).
    assert (HBFt : BF t).
    { apply (BF_static s t HBF).
      - intros m. repeat split; apply pq_field; reflexivity.
      - intros m. left. apply pq_field; reflexivity.
      - apply E.
      - exact Eb.
      - exact En. }
    constructor.
    - exact HBFt.
    - intros m. unfold stamps_node. rewrite (pq_field changedAt), (pq_field recomputedAt), Ek by reflexivity.
      apply (vi_stamps _ V m).
    - intros m. rewrite (pq_field inGraph), (pq_field changedAt), (pq_field recomputedAt) by reflexivity.
      apply (vi_unreg _ V m).
    - intros m. rewrite (pq_field inGraph), pq_isStale, pq_inHeap by reflexivity. apply (vi_owed _ V m).
    - intros n. rewrite (pq_field inGraph), pq_inHeap by reflexivity. intros Hg Hq Hgd.
      assert (Hgd0 : guarded s None n = true).
      { rewrite <- Hgd. unfold guarded. rewrite (pq_field parents) by reflexivity. apply forallb_ext. intros p _.
        rewrite (pq_field changedAt), (pq_field recomputedAt) by reflexivity. f_equal. f_equal.
        unfold volq, inW. rewrite (pq_field nkind), (pq_field recomputedAt), Ek, pq_inHeap by reflexivity. reflexivity. }
      pose proof (vi_clean _ V n Hg Hq Hgd0) as Hc.
      rewrite node_consistent_val in Hc by (apply (bf_kind s HBF)).
      rewrite node_consistent_val by (apply (bf_kind t HBFt)).
      rewrite (pq_field value) by reflexivity.
      rewrite (consistent_val_ext s t n); [exact Hc|apply pq_field; reflexivity|apply pq_field; reflexivity|].
      intros p _. apply pq_valueOf.
  Qed.
End PendEq.

(** ** one deferred write applied: value, pending and setAt of one var change; the var is queued *)
Record wrPost (s : state) (v : nid) (s' : state) : Prop := {
  wr_other : forall m, m <> v -> nd s' m = nd s m;
  wr_self : exists a b c, nd s' v = nd s v <| value := a |> <| pending := b |> <| setAt := c |>;
  wr_fields : binds s' = binds s /\ next s' = next s /\ stabNum s' = stabNum s;
  wr_has : forall m, has s' m <-> has s m;
  wr_heap : forall m, inHeap s m = true -> inHeap s' m = true;
  wr_heap_new : forall m, inHeap s' m = true -> inHeap s m = true \/ m = v;
  wr_queued : inGraph (nd s v) = true -> inHeap s' v = true
}.

Lemma ValInv_write s v s' :
  Struct s -> ValInv s -> (exists e, nkind (nd s v) = KVar e) -> wrPost s v s' -> Struct s' /\ ValInv s'.
Proof.
  intros HS V [e Kv] P. pose proof (vi_bf _ V) as HBF.
  destruct (wr_fields _ _ _ P) as (Fb & Fn & Fk).
  destruct (wr_self _ _ _ P) as (a & b & c & Eself).
  assert (Hsame : forall m, m <> v -> nd s' m = nd s m) by apply P.
  assert (Hf : forall (A : Type) (g : node -> A) m,
             (forall x a b c, g (x <| value := a |> <| pending := b |> <| setAt := c |>) = g x) ->
             g (nd s' m) = g (nd s m)).
  { intros A g m Hg. destruct (decide (m = v)) as [->|Hm]; [rewrite Eself; apply Hg|rewrite (Hsame m Hm); reflexivity]. }
  assert (Hkind : forall m, nkind (nd s' m) = nkind (nd s m)) by (intros m; apply Hf; reflexivity).
  assert (Hq : forall m, inHeap s m = true -> inHeap s' m = true) by apply P.
  assert (Hstale : forall m, isStale s' m = isStale s m).
  { intros m. apply isStale_fields; try (apply Hf; reflexivity).
    - intros p. rewrite (Hf _ parents) by reflexivity. reflexivity.
    - intros p _. apply Hf; reflexivity. }
  assert (HS' : Struct s').
  { constructor; intros *.
    - rewrite !(Hf _ children), !(Hf _ parents) by reflexivity. apply (st_edge _ HS).
    - rewrite (Hf _ inGraph), (Hf _ parents), (Hf _ children) by reflexivity. apply (st_unreg _ HS).
    - rewrite (Hf _ inGraph), (Hf _ isNecessary) by reflexivity. apply (st_nec _ HS).
    - rewrite (Hf _ inGraph), (Hf _ parents), (Hf _ decl) by reflexivity. apply (st_par _ HS).
    - rewrite (Hf _ inGraph), (Hf _ parents), !(Hf _ height) by reflexivity. apply (st_height _ HS).
    - rewrite (Hf _ inGraph), (Hf _ height) by reflexivity. apply (st_hnonneg _ HS). }
  split; [exact HS'|].
  assert (HBF' : BF s').
  { split; [rewrite Fb; apply HBF|]. intros m x Hx. assert (Hm' : has s' m) by (exists x; exact Hx).
    assert (Hm : has s m) by (apply (wr_has _ _ _ P), Hm').
    rewrite <- (nd_lookup _ _ _ Hx). pose proof (bf_node_nd s HBF m Hm) as Hb.
    apply bf_node_iff in Hb as (H1 & H2 & H3 & H4 & H5 & H6 & H7). apply bf_node_iff.
    rewrite Fn, Hkind, (Hf _ scope), (Hf _ valid) by reflexivity. repeat split; try assumption.
    + unfold arity_ok in *. rewrite Hkind, (Hf _ decl) by reflexivity. exact H5.
    + unfold cutalways_zero in *. rewrite Hkind. destruct (decide (m = v)) as [->|Hm2].
      * rewrite Kv. reflexivity.
      * rewrite (Hsame m Hm2). exact H6.
    + unfold always_lt in *. rewrite Hkind, (Hf _ decl) by reflexivity. exact H7. }
  constructor.
  - exact HBF'.
  - intros m. unfold stamps_node. rewrite (Hf _ changedAt), (Hf _ recomputedAt), Fk by reflexivity. apply (vi_stamps _ V m).
  - intros m. rewrite (Hf _ inGraph), (Hf _ changedAt), (Hf _ recomputedAt) by reflexivity. apply (vi_unreg _ V m).
  - intros m Hg Hs. rewrite (Hf _ inGraph) in Hg by reflexivity. rewrite Hstale in Hs.
    apply Hq. apply (vi_owed _ V m Hg Hs).
  - intros n Hg HnW Hgd. rewrite (Hf _ inGraph) in Hg by reflexivity.
    destruct (decide (n = v)) as [->|Hnv].
    { apply trivial_consistent. rewrite Hkind, Kv. reflexivity. }
    assert (HnW0 : inHeap s n = false).
    { destruct (inHeap s n) eqn:Eq; [|reflexivity]. rewrite (Hq n Eq) in HnW. discriminate. }
    assert (Hgd_p : forall p, p ∈ parents (nd s n) ->
              changedAt (nd s p) <= recomputedAt (nd s n) /\ volq s' None p = false).
    { intros p Hp. unfold guarded in Hgd. rewrite (Hf _ parents) in Hgd by reflexivity.
      pose proof (forallb_elem _ _ _ Hgd Hp) as Hb. cbv beta in Hb. apply andb_true_iff in Hb as [H1 H2].
      apply Z.leb_le in H1. apply negb_true_iff in H2.
      rewrite (Hf _ changedAt), (Hf _ recomputedAt) in H1 by reflexivity. auto. }
    assert (Hgd0 : guarded s None n = true).
    { unfold guarded. apply forallb_intro. intros p Hp. destruct (Hgd_p p Hp) as [H1 H2].
      apply andb_true_iff. split; [apply Z.leb_le; exact H1|]. apply negb_true_iff.
      unfold volq in *. rewrite Hkind in H2. destruct (nkind (nd s p)); try reflexivity.
      - unfold inW in *. rewrite orb_false_r in *. destruct (inHeap s p) eqn:Eq; [|reflexivity].
        rewrite (Hq p Eq) in H2. discriminate.
      - rewrite (Hf _ recomputedAt), Fk in H2 by reflexivity. exact H2. }
    pose proof (vi_clean _ V n Hg HnW0 Hgd0) as Hc.
    rewrite node_consistent_val in Hc by (apply (bf_kind s HBF)).
    rewrite node_consistent_val by (rewrite Hkind; apply (bf_kind s HBF)).
    rewrite (Hsame n Hnv).
    rewrite (consistent_val_ext s s' n _ (Hkind n) (Hf _ decl n ltac:(reflexivity))); [exact Hc|].
    intros p Hp. assert (Hpar : p ∈ parents (nd s n)) by (apply (st_par _ HS); assumption).
    destruct (Hgd_p p Hpar) as [_ Hvq].
    apply (valueOf_changed s s' v p HS).
    + intros m. split; [apply Hkind|apply Hf; reflexivity].
    + intros m Hm. rewrite (Hsame m Hm). reflexivity.
    + apply (edge_reg s HS p n), (parent_edge s HS), Hpar.
    + intros ->. assert (Hgv : inGraph (nd s v) = true) by (apply (edge_reg s HS v n), (parent_edge s HS), Hpar).
      unfold volq in Hvq. rewrite Hkind, Kv in Hvq. unfold inW in Hvq. rewrite orb_false_r in Hvq.
      rewrite (wr_queued _ _ _ P Hgv) in Hvq. discriminate.
    + intros [Ka _]. unfold volq in Hvq. rewrite Hkind, Ka in Hvq. apply Z.ltb_ge in Hvq.
      rewrite (Hf _ recomputedAt), Fk in Hvq by reflexivity.
      pose proof (stamps_node_true _ _ (vi_stamps _ V p)). lia.
Qed.

Lemma node_eta_vp (x : node) : x <| value := value x |> <| pending := pending x |> = x.
Proof. destruct x; reflexivity. Qed.
Lemma node_eta_vps (x : node) a b : x <| value := a |> <| pending := b |> <| setAt := setAt x |> = x <| value := a |> <| pending := b |>.
Proof. destruct x; reflexivity. Qed.

Lemma dstep_wr u v u' :
  Struct u -> isVar u v = true -> dstep u v = Ok u' ->
  wrPost u v u' /\
  (forall x, pending (nd u v) = Some x -> recomputedAt (nd u v) <> stabNum u ->
             value (nd u' v) = x /\ pending (nd u' v) = None) /\
  (pending (nd u v) = None -> value (nd u' v) = value (nd u v) /\ pending (nd u' v) = None).
Proof.
  intros HS Hv H. destruct (isVar_true _ _ Hv) as [Hhas [k Kv]].
  unfold dstep in H. apply rbind_ok in H as ([u1 e1] & H1 & H).
  (* the var takes its deferred value *)
  assert (E1 : exists a b,
            (forall m, m <> v -> nd u1 m = nd u m) /\ nd u1 v = nd u v <| value := a |> <| pending := b |> /\
            (forall m, has u1 m <-> has u m) /\ heap u1 = heap u /\ binds u1 = binds u /\ next u1 = next u /\
            stabNum u1 = stabNum u /\
            (forall x, pending (nd u v) = Some x -> recomputedAt (nd u v) <> stabNum u -> a = x /\ b = None) /\
            (pending (nd u v) = None -> a = value (nd u v) /\ b = None)).
  { unfold stabilizeNode in H1. rewrite Kv in H1.
    assert (Hsame : u1 = u -> exists a b,
            (forall m, m <> v -> nd u1 m = nd u m) /\ nd u1 v = nd u v <| value := a |> <| pending := b |> /\
            (forall m, has u1 m <-> has u m) /\ heap u1 = heap u /\ binds u1 = binds u /\ next u1 = next u /\
            stabNum u1 = stabNum u /\ a = value (nd u v) /\ b = pending (nd u v)).
    { intros ->. exists (value (nd u v)), (pending (nd u v)). rewrite node_eta_vp. repeat split; auto. }
    destruct (pending (nd u v)) as [pv|] eqn:Ep.
    - destruct (Z.eqb_spec (recomputedAt (nd u v)) (stabNum u)) as [Er|Er].
      + apply ok_inv in H1 as [-> _]. destruct (Hsame eq_refl) as (a & b & A1 & A2 & A3 & A4 & A5 & A6 & A7 & -> & ->).
        exists (value (nd u v)), (Some pv). repeat split; auto; try apply A3; try contradiction; discriminate.
      + apply ok_inv in H1 as [-> _]. exists pv, None.
        split; [intros m Hm; apply nd_upd_ne, Hm|]. split; [apply nd_upd_eq, Hhas|].
        split; [intros m; apply has_upd|]. repeat split; auto; try congruence; discriminate.
    - apply ok_inv in H1 as [-> _]. destruct (Hsame eq_refl) as (a & b & A1 & A2 & A3 & A4 & A5 & A6 & A7 & -> & ->).
      exists (value (nd u v)), None. repeat split; auto; try apply A3; discriminate. }
  destruct E1 as (a & b & Hne1 & Hnd1 & Hhas1 & Hheap1 & Hb1 & Hn1 & Hk1 & Ha & Hb).
  assert (Hh1 : has u1 v) by (apply Hhas1, Hhas).
  assert (Hq1 : forall m, inHeap u1 m = inHeap u m) by (intros m; unfold inHeap; rewrite Hheap1; reflexivity).
  (* and is marked stale *)
  apply setStale_inv in H as [[Hu ->]|[Hu H]].
  - assert (Hng : inGraph (nd u v) = false).
    { destruct (inGraph (nd u v)) eqn:Eg; [|reflexivity]. pose proof (st_hnonneg _ HS v Eg) as H0.
      rewrite Hnd1 in Hu. cbn in Hu. unfold unset in Hu. lia. }
    split; [|split].
    + constructor; auto.
      * exists a, b, (setAt (nd u v)). rewrite Hnd1. symmetry. apply node_eta_vps.
      * intros m. rewrite Hq1. auto.
      * intros m. rewrite Hq1. auto.
      * congruence.
    + intros x Hp Hr. destruct (Ha x Hp Hr) as [-> ->]. rewrite Hnd1. auto.
    + intros Hp. destruct (Hb Hp) as [-> ->]. rewrite Hnd1. auto.
  - cbv zeta in H. set (u2 := upd u1 v (set setAt (fun _ => stabNum u1))) in *.
    assert (Hnd2 : nd u2 v = nd u v <| value := a |> <| pending := b |> <| setAt := stabNum u |>).
    { unfold u2. rewrite nd_upd_eq by exact Hh1. rewrite Hnd1, Hk1. reflexivity. }
    assert (Hne2 : forall m, m <> v -> nd u2 m = nd u m).
    { intros m Hm. unfold u2. rewrite nd_upd_ne by exact Hm. apply Hne1, Hm. }
    assert (Hfin : only_heap u2 u' /\ inHeap u' v = true /\ (forall m, inHeap u m = true -> inHeap u' m = true) /\
                   (forall m, inHeap u' m = true -> inHeap u m = true \/ m = v)).
    { destruct H as [[Hq ->]|[Hq H]].
      - split; [apply only_heap_refl|]. split; [exact Hq|]. change (forall m, inHeap u2 m = inHeap u1 m) with (forall m, inHeap u1 m = inHeap u1 m).
        split; intros m; change (inHeap u2 m) with (inHeap u1 m); rewrite Hq1; auto.
      - split; [apply heapAdd_inv in H as (w & _ & ->); apply only_heap_set|].
        split; [rewrite (heapAdd_inHeap_eq _ _ _ v H), (bool_decide_eq_true_2 (v = v)) by reflexivity; reflexivity|].
        split; intros m; rewrite (heapAdd_inHeap_eq _ _ _ m H); change (inHeap u2 m) with (inHeap u1 m); rewrite Hq1.
        + intros ->. apply orb_true_r.
        + intros [Hm%bool_decide_eq_true|Hm]%orb_true_iff; auto. }
    destruct Hfin as (O & Hqv & Hmono & Hnew).
    split; [|split].
    + constructor.
      * intros m Hm. rewrite (oh_nd _ _ O). apply Hne2, Hm.
      * exists a, b, (stabNum u). rewrite (oh_nd _ _ O). exact Hnd2.
      * rewrite (oh_binds _ _ O), (oh_next _ _ O), (oh_stabNum _ _ O). repeat split; assumption.
      * intros m. rewrite (oh_has _ _ O). unfold u2. rewrite has_upd. apply Hhas1.
      * exact Hmono.
      * exact Hnew.
      * intros _. exact Hqv.
    + intros x Hp Hr. destruct (Ha x Hp Hr) as [-> ->]. rewrite (oh_nd _ _ O), Hnd2. auto.
    + intros Hp. destruct (Hb Hp) as [-> ->]. rewrite (oh_nd _ _ O), Hnd2. auto.
Qed.

Record wrsPost (l : list nid) (u u' : state) : Prop := {
  ws_struct : Struct u';
  ws_inv : ValInv u';
  ws_other : forall m, m ∉ l -> nd u' m = nd u m;
  ws_vps : forall m, vps (nd u m) (nd u' m);
  ws_fields : binds u' = binds u /\ next u' = next u /\ stabNum u' = stabNum u;
  ws_has : forall m, has u' m <-> has u m;
  ws_heap : forall m, inHeap u m = true -> inHeap u' m = true;
  ws_heap_new : forall m, inHeap u' m = true -> inHeap u m = true \/ m ∈ l;
  ws_queued : forall v, v ∈ l -> inGraph (nd u v) = true -> inHeap u' v = true
}.

Lemma vps_kind x y : vps x y -> nkind y = nkind x /\ inGraph y = inGraph x.
Proof. intros (a & b & c & ->). split; reflexivity. Qed.

Lemma dsteps_post l : forall u u',
  Struct u -> ValInv u -> Forall (fun w => isVar u w = true) l -> rfold dstep l u = Ok u' -> wrsPost l u u'.
Proof.
  induction l as [|v l IH]; intros u u' HS V Hv H.
  - injection H as <-. constructor; auto; try reflexivity; try tauto.
    + intros m. apply vps_refl.
    + intros w Hw. inv Hw.
  - rewrite rfold_cons in H. destruct (dstep u v) as [u1| |] eqn:E1; simpl in H; try discriminate.
    inversion Hv as [|? ? Hv1 Hvl]; subst.
    destruct (dstep_wr u v u1 HS Hv1 E1) as (P1 & _).
    destruct (isVar_true _ _ Hv1) as [_ Kv].
    destruct (ValInv_write u v u1 HS V Kv P1) as [HS1 V1].
    assert (Hvps1 : forall m, vps (nd u m) (nd u1 m)).
    { intros m. destruct (decide (m = v)) as [->|Hm]; [exact (wr_self _ _ _ P1)|].
      rewrite (wr_other _ _ _ P1 m Hm). apply vps_refl. }
    assert (Hvl1 : Forall (fun w => isVar u1 w = true) l).
    { eapply List.Forall_impl; [|exact Hvl]. intros w Hw. apply isVar_spec in Hw as [k Hk]. apply isVar_spec.
      exists k. rewrite (proj1 (vps_kind _ _ (Hvps1 w))). exact Hk. }
    pose proof (IH u1 u' HS1 V1 Hvl1 H) as P2.
    constructor.
    + apply P2.
    + apply P2.
    + intros m Hm. rewrite (ws_other _ _ _ P2 m) by (intros Hin; apply Hm; right; exact Hin).
      apply (wr_other _ _ _ P1). intros ->. apply Hm. left.
    + intros m. eapply vps_trans; [apply Hvps1|apply P2].
    + destruct (wr_fields _ _ _ P1) as (? & ? & ?), (ws_fields _ _ _ P2) as (? & ? & ?). repeat split; congruence.
    + intros m. rewrite (ws_has _ _ _ P2), (wr_has _ _ _ P1). reflexivity.
    + intros m Hm. apply (ws_heap _ _ _ P2), (wr_heap _ _ _ P1), Hm.
    + intros m Hm. destruct (ws_heap_new _ _ _ P2 m Hm) as [H1|H1]; [|right; right; exact H1].
      destruct (wr_heap_new _ _ _ P1 m H1) as [?|E]; [auto|right; rewrite E; left].
    + intros w Hw Hg. apply elem_of_cons in Hw as [->|Hw].
      * apply (ws_heap _ _ _ P2). apply (wr_queued _ _ _ P1 Hg).
      * apply (ws_queued _ _ _ P2 w Hw). rewrite (proj2 (vps_kind _ _ (Hvps1 w))). exact Hg.
Qed.

(** [ValInv] / [Struct] only read nodes, heap, binds, next and stabNum *)
Lemma pendEq_same s t :
  nodes t = nodes s -> heap t = heap s -> binds t = binds s -> next t = next s -> stabNum t = stabNum s ->
  pendEq s t.
Proof.
  intros Hn Hh Hb Hx Hk. constructor; auto; [| |repeat split; [assumption|lia|assumption]].
  - intros m. rewrite (nodes_eq_nd _ _ Hn m). destruct (nd s m); reflexivity.
  - intros m. unfold has. rewrite Hn. reflexivity.
Qed.

Lemma requeue_sim always : forall s t s' t',
  pendOnly s t -> PassProofs.requeueAlways always s = Ok s' -> PassProofs.requeueAlways always t = Ok t' ->
  pendOnly s' t'.
Proof.
  induction always as [|a l IH]; intros s t s' t' P Hs Ht; unfold PassProofs.requeueAlways in *.
  - injection Hs as <-. injection Ht as <-. exact P.
  - rewrite rfold_cons in Hs, Ht.
    destruct (pendOnly_fields s t a P) as (_ & _ & _ & _ & _ & Hh & _). rewrite Hh in Ht.
    destruct (height (nd s a) =? unset); [simpl in *; eapply IH; eauto|].
    destruct (heapAddIfNotPresent s a) as [s1| |] eqn:E1; simpl in Hs; try discriminate.
    destruct (heapAddIfNotPresent t a) as [t1| |] eqn:E2; simpl in Ht; try discriminate.
    eapply IH; [|exact Hs|exact Ht]. eapply pendOnly_heapAddIfNotPresent; eauto.
Qed.

(** ** the end of a pass, unfolded *)
Definition endU (s3 : state) : state :=
  let r := runUpdateHandlers (emit (EvPassEnd XOk) s3) in r <| stabNum := stabNum r + 1 |>.

Lemma endU_facts s3 :
  nodes (endU s3) = nodes s3 /\ heap (endU s3) = heap s3 /\ binds (endU s3) = binds s3 /\
  next (endU s3) = next s3 /\ stabNum (endU s3) = stabNum s3 + 1 /\ setDuring (endU s3) = setDuring s3 /\
  setRemoved (endU s3) = setRemoved s3 /\ obs (endU s3) = obs s3 /\
  log (endU s3) = rev (map (hev s3) (handlers s3)) ++ EvPassEnd XOk :: log s3.
Proof.
  unfold endU. rewrite runUpdateHandlers_eq. cbn. repeat split.
  f_equal. f_equal. apply map_ext. intros k. apply hev_emit.
Qed.

Lemma stabilizeEnd_unfold s3 s' :
  stabilizeEnd s3 None = Ok s' ->
  exists u1, rfold dstep (setRemoved (endU s3) ++ setDuring (endU s3)) (endU s3) = Ok u1 /\
             s' = u1 <| setDuring := [] |> <| setRemoved := [] |> <| status := 0 |>.
Proof.
  unfold stabilizeEnd. cbv zeta. change (classify None) with XOk. fold (endU s3).
  rewrite applyDeferredSets_unfold. intros H.
  apply rbind_ok in H as (s1 & H1 & [= <-]). apply rbind_ok in H1 as (u1 & H1 & [= <-]). eauto.
Qed.

Lemma recoverPanic_None s at_ s' : recoverPanic s None at_ = Ok s' -> s' = s.
Proof. intros [= <-]. reflexivity. Qed.

(** everything about the two runs *)
Record writesEnd (s : state) (p : plan) (s' t' sLp sL : state) (at_ : nid) (al : list nid) : Prop := {
  we_free : stabilize [] false s = Ok (t', None);
  we_loop_p : passResult p false s = Ok (sLp, None, at_, al);
  we_loop_free : passResult [] false s = Ok (sL, None, at_, al);
  we_sim : pendOnly sLp sL;
  we_nodes_free : nodes t' = nodes sL;
  we_log : log s' = log t';
  we_vps : forall n, vps (nd t' n) (nd s' n);
  we_other : forall n, n ∉ setDuring sLp -> nd s' n = nd t' n <| pending := pending (nd s' n) |>;
  we_vars : Forall (fun v => isVar s v = true) (setDuring sLp);
  we_written : forall v x, v ∈ setDuring sLp -> pending (nd sLp v) = Some x ->
                           value (nd s' v) = x /\ pending (nd s' v) = None;
  we_queued : forall v, v ∈ setDuring sLp -> inGraph (nd s' v) = true -> inHeap s' v = true;
  we_heap : forall n, inHeap t' n = true -> inHeap s' n = true;
  we_heap_new : forall n, inHeap s' n = true -> inHeap t' n = true \/ n ∈ setDuring sLp;
  we_fields : binds s' = binds t' /\ stabNum s' = stabNum t' /\ obs s' = obs t' /\
              status s' = 0 /\ setDuring s' = [] /\ setRemoved s' = [];
  we_inv : ValInv s';
  we_struct : Struct s'
}.

Theorem pass_writes s p s' :
  wfb s = true -> ValInv s -> writes_only p = true -> plan_ok s p = true ->
  stabilize p false s = Ok (s', None) ->
  exists t' sLp sL at_ al, writesEnd s p s' t' sLp sL at_ al.
Proof.
  intros Hwf V Hp Hpok H. destruct (wfb_transients _ Hwf) as (Hst & Hsd & Hsr & Hh).
  pose proof (vi_bf _ V) as HBF. pose proof (wfb_Struct s Hwf HBF) as HS.
  destruct (pass_total s Hwf V) as [t' H0].
  destruct (pass_all s t' Hwf V H0) as (_ & Hwft & Vt & _).
  pose proof (wfb_Struct t' Hwft (vi_bf _ Vt)) as HSt.
  (* both runs, decomposed *)
  destruct (stabilize_decompose p false s s' None Hst H) as (sLp & atp & alp & s2p & s3p & ELp & ERp & EPp & EEp).
  destruct (stabilize_decompose [] false s t' None Hst H0) as (sL & at_ & al & sR & s3 & EL & ER & EP & EE).
  apply recoverPanic_None in EPp as ->. apply recoverPanic_None in EP as ->.
  pose proof ELp as ELp'. pose proof EL as EL'. unfold passResult in ELp', EL'. cbv zeta in ELp', EL'. simpl in ELp', EL'.
  set (s1 := EngineLocal.passStart s) in *.
  assert (HS1 : Struct s1) by (destruct HS; constructor; assumption).
  pose proof (LInv_start s Hwf V) as L1. change (PassProofs.passStart s) with s1 in L1.
  destruct (loop_sim _ _ p _ s1 s1 [] sLp None atp alp sL None at_ al Hp eq_refl (pendOnly_refl s1) HS1 L1 ELp' EL')
    as (PL & _ & -> & ->).
  assert (HA1 : AlwaysOK s1 []).
  { split; [|intros x Hx; inv Hx]. intros x _ Hd. exfalso.
    pose proof (stamps_node_true _ _ (vi_stamps _ V x)). unfold isDone in Hd. apply Z.eqb_eq in Hd.
    change (recomputedAt (nd s x) = stabNum s) in Hd. lia. }
  destruct (loop_LInv _ _ _ s1 [] sL None at_ al HS1 L1 HA1 EL') as (_ & LL & _ & FL & _ & _).
  pose proof (requeue_sim al sLp sL s2p sR PL ERp ER) as PR.
  pose proof (requeue_only_heap _ _ _ ERp) as ORp. pose proof (requeue_only_heap _ _ _ ER) as OR.
  (* the two epilogues *)
  destruct (stabilizeEnd_unfold _ _ EEp) as (u1 & Ed & Es').
  destruct (stabilizeEnd_unfold _ _ EE) as (u0 & Ed0 & Et').
  destruct (endU_facts s2p) as (Un & Uh & Ub & Ux & Uk & Usd & Usr & Uo & Ul).
  destruct (endU_facts sR) as (Tn & Th & Tb & Tx & Tk & Tsd & Tsr & To & Tl).
  pose proof PR as (Rheap & Rlog & Rk & Rst & Rhd & Rsr & Robs & Rb & Rnd & Rhas).
  assert (HsrR : setRemoved sR = []).
  { rewrite (oh_setRemoved _ _ OR), (sf_setRemoved _ _ FL). exact Hsr. }
  assert (HsdR : setDuring sR = []).
  { rewrite (oh_setDuring _ _ OR), (sf_setDuring _ _ FL). exact Hsd. }
  rewrite Tsr, Tsd, HsrR, HsdR in Ed0. injection Ed0 as <-.
  assert (HD : setRemoved (endU s2p) ++ setDuring (endU s2p) = setDuring sLp).
  { rewrite Usr, Usd, <- Rsr, HsrR, (oh_setDuring _ _ ORp). reflexivity. }
  rewrite HD in Ed.
  (* the state before the deferred writes satisfies the invariants *)
  assert (Ent : nodes t' = nodes sR) by (rewrite Et'; exact Tn).
  assert (Eth : heap t' = heap sR) by (rewrite Et'; exact Th).
  assert (Etb : binds t' = binds sR) by (rewrite Et'; exact Tb).
  assert (Etx : next t' = next sR) by (rewrite Et'; exact Tx).
  assert (Etk : stabNum t' = stabNum sR + 1) by (rewrite Et'; exact Tk).
  assert (Eto : obs t' = obs sR) by (rewrite Et'; exact To).
  assert (Etl : log t' = rev (map (hev sR) (handlers sR)) ++ EvPassEnd XOk :: log sR) by (rewrite Et'; exact Tl).
  assert (EQ : pendEq t' (endU s2p)).
  { constructor.
    - intros m. rewrite (nodes_eq_nd _ _ Un m), (nodes_eq_nd _ _ Ent m).
      destruct (pendOnly_sym _ _ PR) as (_ & _ & _ & _ & _ & _ & _ & _ & A & _). apply A.
    - intros m. unfold has. rewrite Un, Ent. symmetry. apply Rhas.
    - rewrite Uh, Eth. symmetry. exact Rheap.
    - rewrite Ub, Ux, Uk, Etb, Etx, Etk.
      assert (next sR <= next s2p)%nat.
      { rewrite (oh_next _ _ OR), (oh_next _ _ ORp), (sf_next _ _ FL).
        destruct (passResult_frames _ _ _ _ _ _ _ ELp) as ((_ & _ & _ & _ & Hnx & _) & _). exact Hnx. }
      repeat split; [congruence|assumption|congruence]. }
  pose proof (pq_Struct _ _ EQ HSt) as HSu. pose proof (pq_ValInv _ _ EQ Vt) as Vu.
  assert (HvL : Forall (fun v => isVar sLp v = true) (setRemoved sLp ++ setDuring sLp)).
  { apply (passResult_deferred_are_vars p false s sLp None at_ al); [|exact Hpok| |exact ELp].
    - intros n Hn. apply (bf_has_lt s HBF n Hn).
    - rewrite Hsd, Hsr. constructor. }
  assert (HvD : Forall (fun v => isVar sLp v = true) (setDuring sLp)).
  { apply Forall_app in HvL. apply HvL. }
  assert (Hkind_u : forall m, nkind (nd (endU s2p) m) = nkind (nd sLp m)).
  { intros m. rewrite (nodes_eq_nd _ _ Un m), (oh_nd _ _ ORp). reflexivity. }
  assert (HvU : Forall (fun v => isVar (endU s2p) v = true) (setDuring sLp)).
  { eapply List.Forall_impl; [|exact HvD]. intros w Hw. apply isVar_spec in Hw as [k Hk]. apply isVar_spec.
    exists k. rewrite Hkind_u. exact Hk. }
  pose proof (dsteps_post _ _ _ HSu Vu HvU Ed) as W.
  destruct (dsteps_inv _ _ _ HvU Ed) as (D1 & Hvals).
  (* node records of the final states *)
  assert (Hnd' : forall m, nd s' m = nd u1 m) by (intros m; rewrite Es'; reflexivity).
  assert (Hndt : forall m, nd t' m = nd sR m) by (apply nodes_eq_nd, Ent).
  assert (Hndu : forall m, nd (endU s2p) m = nd s2p m) by (apply nodes_eq_nd, Un).
  assert (Hvps_u : forall m, vps (nd t' m) (nd (endU s2p) m)).
  { intros m. rewrite (pq_nd _ _ EQ m). exists (value (nd t' m)), (pending (nd (endU s2p) m)), (setAt (nd t' m)).
    destruct (nd t' m); reflexivity. }
  destruct (dfr_state _ _ D1) as (B1 & B2 & B3 & B4 & _ & _ & B7 & B8 & _ & _ & _ & B12 & _ & B14).
  assert (Hq' : forall m, inHeap s' m = inHeap u1 m) by (intros m; rewrite Es'; reflexivity).
  assert (HinG : forall m, inGraph (nd s' m) = inGraph (nd (endU s2p) m)).
  { intros m. rewrite Hnd'. apply (vps_kind _ _ (ws_vps _ _ _ W m)). }
  assert (EQ' : pendEq u1 s').
  { apply pendEq_same; rewrite Es'; reflexivity. }
  exists t', sLp, sL, at_, al. constructor.
  - exact H0.
  - exact ELp.
  - exact EL.
  - exact PL.
  - rewrite Ent. apply (oh_nodes _ _ OR).
  - transitivity (log u1); [rewrite Es'; reflexivity|]. rewrite B14, Ul, Etl, Rhd, Rlog. f_equal. f_equal.
    apply map_ext. intros k. symmetry. apply hev_ext; [exact Robs|].
    intros m. destruct (pendOnly_fields _ _ m PR) as (K1 & K2 & K3 & _). auto.
  - intros n. rewrite Hnd'. eapply vps_trans; [apply Hvps_u|apply (ws_vps _ _ _ W n)].
  - intros n Hn. rewrite Hnd', (ws_other _ _ _ W n Hn). apply (pq_nd _ _ EQ n).
  - eapply List.Forall_impl; [|exact HvD]. intros w Hw. apply isVar_spec in Hw as [k Hk]. apply isVar_spec.
    exists k. rewrite <- Hk, <- (pendOnly_nkind _ _ w PL), (sf_nkind _ _ FL). reflexivity.
  - intros v x Hv Hpx. rewrite !Hnd'. apply (proj2 (Hvals v x) Hv).
    + rewrite Hndu, (oh_nd _ _ ORp). exact Hpx.
    + pose proof (stamps_node_true _ _ (vi_stamps _ Vu v)). lia.
  - intros v Hv Hg. rewrite Hq'. apply (ws_queued _ _ _ W v Hv). rewrite <- HinG. exact Hg.
  - intros n Hn. rewrite Hq'. apply (ws_heap _ _ _ W). rewrite (pq_inHeap _ _ EQ). exact Hn.
  - intros n Hn. rewrite Hq' in Hn. destruct (ws_heap_new _ _ _ W n Hn) as [H1|H1]; [left|right; exact H1].
    rewrite <- (pq_inHeap _ _ EQ). exact H1.
  - destruct (ws_fields _ _ _ W) as (W1 & W2 & W3).
    split; [transitivity (binds u1); [rewrite Es'; reflexivity|]; rewrite W1, Ub, Etb; symmetry; exact Rb|].
    split; [transitivity (stabNum u1); [rewrite Es'; reflexivity|]; rewrite W3, Uk, Etk, Rk; reflexivity|].
    split; [transitivity (obs u1); [rewrite Es'; reflexivity|]; rewrite B4, Uo, Eto; symmetry; exact Robs|].
    rewrite Es'. repeat split.
  - apply (pq_ValInv _ _ EQ'). apply W.
  - apply (pq_Struct _ _ EQ'). apply W.
Qed.

(** C02 for passes with writes: "final" = the value when the computations of the pass ended,
    before the deferred writes are applied *)
Theorem pass_writes_args_final s p s' :
  wfb s = true -> ValInv s -> writes_only p = true -> plan_ok s p = true ->
  stabilize p false s = Ok (s', None) ->
  exists sLp at_ al,
    passResult p false s = Ok (sLp, None, at_, al) /\
    (forall evs n args r, log s' = evs ++ log s -> EvInvoked n args r ∈ evs ->
       args = map (valueOf sLp) (decl (nd sLp n)) /\ r = value (nd sLp n) /\
       recomputedAt (nd sLp n) = stabNum s) /\
    (forall n, n ∉ setDuring sLp -> value (nd s' n) = value (nd sLp n)) /\
    (forall n, recomputedAt (nd s' n) = recomputedAt (nd sLp n) /\ changedAt (nd s' n) = changedAt (nd sLp n) /\
               nkind (nd s' n) = nkind (nd sLp n) /\ decl (nd s' n) = decl (nd sLp n)).
Proof.
  intros Hwf V Hp Hpok H. destruct (pass_writes s p s' Hwf V Hp Hpok H) as (t' & sLp & sL & at_ & al & E).
  exists sLp, at_, al. split; [apply E|].
  pose proof (nodes_eq_nd _ _ (we_nodes_free _ _ _ _ _ _ _ _ E)) as Hnt.
  pose proof (we_sim _ _ _ _ _ _ _ _ E) as PL.
  assert (Hval : forall q, valueOf t' q = valueOf sLp q).
  { intros q. rewrite (valueOf_nodes sL t' q (we_nodes_free _ _ _ _ _ _ _ _ E)). apply (valueOf_pendOnly _ _ q PL). }
  split; [|split].
  - intros evs n args r Hl He. rewrite (we_log _ _ _ _ _ _ _ _ E) in Hl.
    destruct (pass_args_final s t' Hwf V (we_free _ _ _ _ _ _ _ _ E) evs n args r Hl He) as (A1 & A2 & A3).
    rewrite Hnt in A1, A2, A3. destruct (pendOnly_fields _ _ n PL) as (_ & Kd & Kv & Kr & _).
    rewrite Kd, Kv, Kr in *. split; [|auto]. rewrite A1. apply map_ext. intros q. apply Hval.
  - intros n Hn. rewrite (we_other _ _ _ _ _ _ _ _ E n Hn). cbn. rewrite Hnt.
    apply (pendOnly_fields _ _ n PL).
  - intros n. destruct (we_vps _ _ _ _ _ _ _ _ E n) as (a & b & c & ->). cbn. rewrite Hnt.
    destruct (pendOnly_fields _ _ n PL) as (K1 & K2 & _ & K4 & K5 & _). auto.
Qed.

(** * B. C13: which update handlers a plan-free pass runs *)

(** what one recompute does to the handler set *)
Lemma rns_handlers fuel s m s' imm :
  BF s -> has s m -> recomputeNodeSerial fuel [] s m = Ok (s', None, imm) ->
  (handlers s' = handlers s /\ changedAt (nd s' m) = changedAt (nd s m)) \/
  (changedAt (nd s' m) = stabNum s /\
   forall k, k ∈ handlers s' <-> k ∈ handlers s \/ k = m \/ k ∈ observers (nd s m)).
Proof.
  intros HBF Hm H. rewrite recomputeNodeSerial_unfold in H. cbv zeta in H.
  set (s0 := upd s m (set recomputedAt (fun _ => stabNum s))) in *.
  assert (Hnd0 : nd s0 m = nd s m <| recomputedAt := stabNum s |>) by (apply nd_upd_eq; exact Hm).
  apply rbind_ok in H as ([[s1 e1] cut] & H1 & H).
  pose proof (pf_maybeCutoff _ _ _ _ _ _ _ H1) as (_ & K1 & _ & _ & _ & Hs1 & _).
  apply maybeCutoff_spec in H1 as (V1 & _ & Hh1 & Hrest).
  assert (He1 : e1 = None).
  { destruct (nkind (nd s m)); destruct Hrest as (-> & _); reflexivity. }
  subst e1.
  destruct (vps_fields _ _ (V1 m)) as (Ek1 & _ & _ & _ & _ & _ & Ec1 & _ & _ & Eo1 & _).
  destruct cut.
  - injection H as <- <-. left. split; [exact Hh1|]. rewrite Ec1, Hnd0. reflexivity.
  - apply rbind_ok in H as ([s2 e2] & H2 & H).
    pose proof (pf_stabilizeNode _ _ _ _ _ _ H2) as (_ & K2 & _ & _ & _ & Hs2 & _).
    apply stabilizeNode_shallow in H2 as (V2 & _ & Hh2 & He2).
    2:{ intros b Hb. pose proof (bf_kind s HBF m) as Hk. rewrite Ek1, Hnd0 in Hb. cbn in Hb. rewrite Hb in Hk. discriminate. }
    assert (e2 = None) as ->.
    { rewrite He2. destruct (nkind (nd s1 m)); reflexivity. }
    destruct (vps_fields _ _ (V2 m)) as (_ & _ & _ & _ & _ & _ & _ & _ & _ & Eo2 & _).
    right. pose proof (successTail_shape _ _ _ _ _ H) as (_ & (w & h & Es')).
    destruct (C13_changed_node_is_queued_for_handler _ _ _ _ _ H) as (A1 & A2 & A3 & A4).
    assert (Hm2 : has s2 m) by (apply Hs2, Hs1, has_upd, Hm).
    split.
    + rewrite Es'. change (changedAt (nd (upd s2 m (set changedAt (fun _ => stabNum s2))) m) = stabNum s).
      rewrite nd_upd_eq by exact Hm2. cbn. rewrite K2, K1. reflexivity.
    + intros k. rewrite Eo2, Eo1, Hnd0 in A4. rewrite Hh2, Hh1 in A3, A4. split.
      * intros Hk. apply A4 in Hk. exact Hk.
      * intros [Hk|[->|Hk]]; [apply A3, Hk|exact A1|]. apply A2.
        rewrite Es'. change (k ∈ observers (nd (upd s2 m (set changedAt (fun _ => stabNum s2))) m)).
        rewrite (nd_upd_proj observers) by reflexivity. rewrite Eo2, Eo1, Hnd0. exact Hk.
Qed.

(** the handler set, mid-pass: the nodes that changed in this pass and their observers *)
Definition HInv (s : state) : Prop :=
  forall k, k ∈ handlers s <->
    (inGraph (nd s k) = true /\ changedAt (nd s k) = stabNum s) \/
    (exists n, inGraph (nd s n) = true /\ k ∈ observers (nd s n) /\ changedAt (nd s n) = stabNum s).

Lemma step_HInv h0 base fuel s m s' imm :
  Struct s -> LInv h0 base s (Some m) -> HInv s ->
  recomputeNodeSerial fuel [] s m = Ok (s', None, imm) -> HInv s'.
Proof.
  intros HS L HI E.
  assert (Hg : inGraph (nd s m) = true).
  { apply (li_orig _ _ _ _ L m). left. apply inW_iff; [apply (li_heap _ _ _ _ L)|]. right; reflexivity. }
  destruct (rns_step fuel s m s' None imm (li_bf _ _ _ _ L) (has_inGraph _ _ Hg) (proj1 (li_heap _ _ _ _ L)) E) as [_ P].
  pose proof (stepPost_sframe _ _ _ _ P) as F.
  pose proof (PassProofs.Hm_lt _ _ _ _ L) as Hlt.
  pose proof (PassProofs.Hst _ _ _ _ L m) as Hstm.
  assert (Hother : forall n, n <> m -> changedAt (nd s' n) = changedAt (nd s n)).
  { intros n Hn. rewrite (sp_other _ _ _ _ P n Hn). reflexivity. }
  assert (Hk : stabNum s' = stabNum s) by apply (sf_stabNum _ _ F).
  destruct (rns_handlers fuel s m s' imm (li_bf _ _ _ _ L) (has_inGraph _ _ Hg) E) as [[Hh Hc]|[Hc Hh]].
  - (* cut off: nothing changes *)
    assert (Hall : forall n, changedAt (nd s' n) = changedAt (nd s n)).
    { intros n. destruct (decide (n = m)) as [->|Hn]; [exact Hc|apply Hother, Hn]. }
    intros k. rewrite Hh, (HI k), Hk, (sf_inGraph _ _ F), Hall. apply or_iff_compat_l.
    split; intros (n & H1 & H2 & H3); exists n.
    + rewrite (sf_inGraph _ _ F), (sf_observers _ _ F), Hall. auto.
    + rewrite (sf_inGraph _ _ F), (sf_observers _ _ F), Hall in *. auto.
  - intros k. rewrite (Hh k), (HI k), Hk. split.
    + intros [[[H1 H2]|(n & H1 & H2 & H3)]|[->|Hko]].
      * left. rewrite (sf_inGraph _ _ F). split; [exact H1|].
        destruct (decide (k = m)) as [->|Hn]; [exact Hc|rewrite (Hother k Hn); exact H2].
      * right. exists n. rewrite (sf_inGraph _ _ F), (sf_observers _ _ F). split; [exact H1|]. split; [exact H2|].
        destruct (decide (n = m)) as [->|Hn]; [exact Hc|rewrite (Hother n Hn); exact H3].
      * left. rewrite (sf_inGraph _ _ F). auto.
      * right. exists m. rewrite (sf_inGraph _ _ F), (sf_observers _ _ F). auto.
    + intros [[H1 H2]|(n & H1 & H2 & H3)].
      * destruct (decide (k = m)) as [->|Hn]; [auto|]. left. left.
        rewrite (sf_inGraph _ _ F) in H1. rewrite (Hother k Hn) in H2. auto.
      * rewrite (sf_inGraph _ _ F), (sf_observers _ _ F) in *.
        destruct (decide (n = m)) as [->|Hn]; [auto|]. left. right. exists n. rewrite (Hother n Hn) in H3. auto.
Qed.

Lemma chain_HInv h0 base fuel : forall s n s' e at_,
  Struct s -> LInv h0 base s (Some n) -> HInv s ->
  recomputeChain fuel [] s n = Ok (s', e, at_) -> HInv s'.
Proof.
  induction fuel as [|fuel IH]; intros s n s' e at_ HS L HI H; [discriminate|].
  cbn [recomputeChain] in H.
  destruct (recomputeNodeSerial fuel [] s n) as [[[s1 e1] imm]| |] eqn:E1; simpl in H; try discriminate.
  destruct (rns_preserves_LInv h0 base fuel s n s1 e1 imm HS L E1) as [-> L1].
  pose proof (step_HInv _ _ _ _ _ _ _ HS L HI E1) as HI1.
  assert (Hg : inGraph (nd s n) = true).
  { apply (li_orig _ _ _ _ L n). left. apply inW_iff; [apply (li_heap _ _ _ _ L)|]. right; reflexivity. }
  destruct (rns_step fuel s n s1 None imm (li_bf _ _ _ _ L) (has_inGraph _ _ Hg) (proj1 (li_heap _ _ _ _ L)) E1) as [_ P].
  destruct imm as [c|].
  - eapply IH; [| |exact HI1|exact H]; [exact (sf_Struct _ _ (stepPost_sframe _ _ _ _ P) HS)|exact L1].
  - injection H as <- _ _. exact HI1.
Qed.

Lemma loop_HInv h0 base fuel : forall s always s' e at_ always',
  Struct s -> LInv h0 base s None -> HInv s ->
  passLoop fuel [] s always = Ok (s', e, at_, always') -> HInv s'.
Proof.
  induction fuel as [|fuel IH]; intros s always s' e at_ always' HS L HI H; [discriminate|].
  cbn [passLoop] in H.
  destruct (Heap.cnt (heap s) <=? 0); [injection H as <- _ _ _; exact HI|].
  destruct (Heap.removeMin (heap s)) as [[n w]|] eqn:Erm; [|discriminate].
  set (s2 := s <| heap := w |>) in *.
  destruct (recomputeChain fuel [] s2 n) as [[[s3 e3] at3]| |] eqn:E3; simpl in H; try discriminate.
  pose proof (pop_LInv h0 base s n w HS L Erm) as L2. fold s2 in L2.
  assert (F2 : sframe s s2) by apply sframe_set_heap.
  pose proof (sf_Struct _ _ F2 HS) as HS2.
  assert (HI2 : HInv s2) by exact HI.
  pose proof (chain_HInv _ _ _ _ _ _ _ _ HS2 L2 HI2 E3) as HI3.
  destruct (chain_LInv h0 base fuel s2 n s3 e3 at3 HS2 L2 E3) as (-> & L3 & F3 & _).
  eapply IH; [| |exact HI3|exact H]; [exact (sf_Struct _ _ F3 HS2)|exact L3].
Qed.

(** observers draw their identifiers from the creation counter of the nodes: an observer's
    identifier is not a node's *)
Definition ObsInv (s : state) : Prop := forall o n, obs s !! o = Some n -> ~ has s o.
Definition obsinv_b (s : state) : bool :=
  forallb (fun '(o, n) => negb (bool_decide (is_Some (nodes s !! o)))) (map_to_list (obs s)).
Lemma obsinv_b_sound s : obsinv_b s = true -> ObsInv s.
Proof.
  intros H o n Ho Hh. apply elem_of_map_to_list in Ho. pose proof (forallb_elem _ _ _ H Ho) as Hb.
  cbv beta iota in Hb. apply negb_true_iff, bool_decide_eq_false in Hb. apply Hb, Hh.
Qed.

Lemma wfb_observers s : wfb s = true -> BF s ->
  forall o n, o ∈ observers (nd s n) <-> obs s !! o = Some n.
Proof.
  intros Hwf HBF o n. destruct (wfb_all _ Hwf) as (_ & _ & _ & _ & _ & _ & _ & _ & Ho & _).
  unfold observers_ok in Ho. apply andb_true_iff in Ho as [H1 H2]. split.
  - intros Hin. assert (Hn : has s n) by (eapply has_observers; eauto).
    pose proof (forallb_elem _ _ _ H1 (proj2 (bf_allNodes s HBF n) Hn)) as Hb. cbv beta in Hb.
    apply andb_true_iff in Hb as [Hb _]. pose proof (forallb_elem _ _ _ Hb Hin) as Hc.
    apply bool_decide_eq_true in Hc. exact Hc.
  - intros Hl. apply elem_of_map_to_list in Hl. pose proof (forallb_elem _ _ _ H2 Hl) as Hb.
    cbv beta iota in Hb. apply bool_decide_eq_true in Hb. exact Hb.
Qed.

Lemma hev_inj s k1 k2 : hev s k1 = hev s k2 -> k1 = k2.
Proof. unfold hev. destruct (obs s !! k1), (obs s !! k2); congruence. Qed.

Theorem pass_handlers s s' :
  wfb s = true -> ValInv s -> ObsInv s -> stabilize [] false s = Ok (s', None) ->
  exists L H,
    rev (log s') = rev (log s) ++ [EvPassStart] ++ L ++ [EvPassEnd XOk] ++ H /\
    Forall passEv L /\ Forall EngineLocal.isHandlerEv H /\ NoDup H /\
    (forall n, EvUpd n ∈ H <-> inGraph (nd s' n) = true /\ changedAt (nd s' n) = stabNum s) /\
    (forall o v, EvObsUpd o v ∈ H <->
       exists n, obs s' !! o = Some n /\ changedAt (nd s' n) = stabNum s /\ v = valueOf s' n).
Proof.
  intros Hwf V HO H. destruct (wfb_transients _ Hwf) as (Hst & Hsd & Hsr & Hh).
  pose proof (vi_bf _ V) as HBF. pose proof (wfb_Struct s Hwf HBF) as HS.
  destruct (C13_bracket_and_order [] false s s' None Hst) as (L & sL & at_ & always & EL & Hlog & HL & Hobs & Hsort);
    [intros n Hn; apply (bf_has_lt s HBF n Hn)|reflexivity|rewrite Hsd, Hsr; constructor|exact H|].
  destruct (Hsort ltac:(rewrite Hh; constructor)) as [_ Hnd].
  pose proof EL as EL'. unfold passResult in EL'. cbv zeta in EL'. simpl in EL'.
  set (s1 := EngineLocal.passStart s) in *.
  assert (HS1 : Struct s1) by (destruct HS; constructor; assumption).
  pose proof (LInv_start s Hwf V) as L1. change (PassProofs.passStart s) with s1 in L1.
  assert (HA1 : AlwaysOK s1 []).
  { split; [|intros x Hx; inv Hx]. intros x _ Hd. exfalso.
    pose proof (stamps_node_true _ _ (vi_stamps _ V x)). unfold isDone in Hd. apply Z.eqb_eq in Hd.
    change (recomputedAt (nd s x) = stabNum s) in Hd. lia. }
  assert (HI1 : HInv s1).
  { intros k. change (handlers s1) with (handlers s). rewrite Hh. split; [intros Hk; inv Hk|].
    intros [[_ Hc]|(n & _ & _ & Hc)]; exfalso.
    - pose proof (stamps_node_true _ _ (vi_stamps _ V k)). change (changedAt (nd s k) = stabNum s) in Hc. lia.
    - pose proof (stamps_node_true _ _ (vi_stamps _ V n)). change (changedAt (nd s n) = stabNum s) in Hc. lia. }
  pose proof (loop_HInv _ _ _ _ _ _ _ _ _ HS1 L1 HI1 EL') as HIL.
  destruct (loop_LInv _ _ _ s1 [] sL None at_ always HS1 L1 HA1 EL') as (_ & LL & _ & FL & _ & _).
  pose proof (sf_Struct _ _ FL HS1) as HSL.
  (* the final state has the nodes of the loop's final state *)
  destruct (stabilize_nil_inv s s' Hst Hsd Hsr H) as (sL' & at' & al' & sR & hev' & EL2 & ER & Es' & _).
  change (emit EvPassStart (s <| status := 1 |>)) with s1 in EL2. rewrite EL' in EL2.
  injection EL2 as <- <- <-.
  assert (Hnodes : nodes s' = nodes sL).
  { rewrite Es'; [|rewrite (sf_setDuring _ _ FL); exact Hsd|rewrite (sf_setRemoved _ _ FL); exact Hsr].
    cbn. apply (oh_nodes _ _ (requeue_only_heap _ _ _ ER)). }
  pose proof (nodes_eq_nd _ _ Hnodes) as Hnd'.
  assert (Hobs' : obs s' = obs s).
  { rewrite Es'; [|rewrite (sf_setDuring _ _ FL); exact Hsd|rewrite (sf_setRemoved _ _ FL); exact Hsr].
    cbn. rewrite (oh_obs _ _ (requeue_only_heap _ _ _ ER)). exact Hobs. }
  assert (HkL : stabNum sL = stabNum s) by apply (sf_stabNum _ _ FL).
  (* observers and the observer map, in the loop's final state *)
  assert (Hoo : forall o n, o ∈ observers (nd sL n) <-> obs sL !! o = Some n).
  { intros o n. rewrite (sf_observers _ _ FL), Hobs. apply (wfb_observers s Hwf HBF). }
  assert (HOL : forall o n, obs sL !! o = Some n -> ~ has sL o).
  { intros o n Ho Hhas. rewrite Hobs in Ho. apply (HO o n Ho). apply (sf_has _ _ FL) in Hhas. exact Hhas. }
  exists L, (map (hev sL) (handlers sL)). split; [exact Hlog|]. split; [exact HL|].
  split; [apply Forall_forall; intros e He; apply elem_of_list_In, elem_of_list_fmap in He as (k & -> & _); apply hev_isHandlerEv|].
  split; [apply NoDup_fmap_2; [intros k1 k2; apply hev_inj|exact Hnd]|].
  split.
  - intros n. rewrite Hnd', <- HkL, elem_of_list_fmap. split.
    + intros (k & Ek & Hk). unfold hev in Ek. destruct (obs sL !! k) as [n'|] eqn:Eo; [discriminate|].
      injection Ek as ->. apply HIL in Hk as [Hk|(n' & _ & Hin & _)]; [exact Hk|].
      apply Hoo in Hin. congruence.
    + intros [Hg Hc]. exists n. split; [|apply HIL; left; auto].
      unfold hev. destruct (obs sL !! n) as [n'|] eqn:Eo; [|reflexivity].
      exfalso. apply (HOL n n' Eo). apply has_inGraph, Hg.
  - intros o v. rewrite elem_of_list_fmap. split.
    + intros (k & Ek & Hk). unfold hev in Ek. destruct (obs sL !! k) as [n|] eqn:Eo; [|discriminate].
      injection Ek as -> ->. exists n. rewrite Hobs', <- Hobs. split; [exact Eo|].
      rewrite Hnd', <- HkL, (valueOf_nodes sL s' n Hnodes). split; [|reflexivity].
      apply HIL in Hk as [[Hg _]|(n' & _ & Hin & Hc)].
      * exfalso. apply (HOL k n Eo). apply has_inGraph, Hg.
      * apply Hoo in Hin. congruence.
    + intros (n & Ho & Hc & ->). rewrite Hobs', <- Hobs in Ho. rewrite Hnd', <- HkL in Hc.
      exists o. split; [unfold hev; rewrite Ho, (valueOf_nodes sL s' n Hnodes); reflexivity|].
      apply HIL. right. exists n. split; [|split; [apply Hoo, Ho|exact Hc]].
      rewrite (st_nec _ HSL n). apply isNecessary_true. right. right. intros E. apply Hoo in Ho. rewrite E in Ho. inv Ho.
Qed.

(** ** examples: the state [PassProofs.ex_pre] and a plan that writes both vars *)
Definition ex_plan : plan :=
  [(4%nat, WFn, ASet 0%nat 7); (9%nat, WFn, AUpdate 1%nat 2); (9%nat, WFn, AUpdate 1%nat 3)].
Definition ex_wpost : state :=
  match stabilize ex_plan false ex_pre with Ok (s, None) => s | _ => init 0 end.

Lemma ex_wpass_ok : stabilize ex_plan false ex_pre = Ok (ex_wpost, None).
Proof.
  assert (H : match stabilize ex_plan false ex_pre with Ok (_, None) => true | _ => false end = true)
    by (vm_compute; reflexivity).
  unfold ex_wpost. destruct (stabilize ex_plan false ex_pre) as [[s [e|]]| |]; try discriminate H. reflexivity.
Qed.

Lemma ex_plan_hyps : writes_only ex_plan = true /\ plan_ok ex_pre ex_plan = true /\ ObsInv ex_pre.
Proof. split; [reflexivity|]. split; [vm_compute; reflexivity|apply obsinv_b_sound; vm_compute; reflexivity]. Qed.

(** statement forms for Properties/ *)
Lemma step_writes_ValInv s p s' :
  wfb s = true -> ValInv s -> writes_only p = true -> plan_ok s p = true ->
  step s (Stabilize p) = Ok (s', None) -> ValInv s'.
Proof.
  intros Hwf V Hp Hok H. destruct (pass_writes s p s' Hwf V Hp Hok H) as (t' & sLp & sL & at_ & al & E). apply E.
Qed.

(** * C. C07: a pass in which one node function returns an error, and the retry *)

(** the loop invariant only reads node records, the heap, a few counters and the pass's
    invocation / cutoff events *)
Lemma LInv_transport h0 base s cur s' cur' :
  LInv h0 base s cur ->
  (forall n, nd s' n = nd s n) -> (forall n, has s' n <-> has s n) ->
  binds s' = binds s -> next s' = next s -> stabNum s' = stabNum s ->
  HeapSpec.inv (heap s') ->
  (forall q, q ∈ Heap.ids (heap s') -> inGraph (nd s q) = true /\ Heap.hinOf (heap s') q = height (nd s q)) ->
  (forall x, inW s' cur' x = inW s cur x) ->
  (forall m x, cur' = Some m -> x ∈ Heap.ids (heap s') -> reach s x m -> False) ->
  (exists l, log s' = l ++ log s /\ Forall (fun e => ev_node e = None) l) ->
  LInv h0 base s' cur'.
Proof.
  intros L Hnd Hhas Hb Hnx Hk Iw Hq HW HM (l & Hl & Hnone).
  pose proof (li_bf _ _ _ _ L) as HBF.
  assert (Hr : forall a b, reach s' a b <-> reach s a b).
  { intros a b. unfold reach. split; induction 1; try apply rtc_refl; eapply rtc_l; eauto;
      unfold edge in *; [rewrite <- Hnd|rewrite Hnd]; assumption. }
  assert (Hval : forall p, valueOf s' p = valueOf s p).
  { intros p. apply PassProofs.valueOf_ext. intros n. rewrite Hnd. auto. }
  assert (HBF' : BF s').
  { split; [rewrite Hb; apply HBF|]. intros n y Hy. assert (Hn : has s n) by (apply Hhas; exists y; exact Hy).
    rewrite <- (nd_lookup _ _ _ Hy), Hnd. pose proof (bf_node_nd s HBF n Hn) as Hbn.
    unfold bf_node in *. rewrite Hnx. exact Hbn. }
  assert (Hstale : forall n, isStale s' n = isStale s n).
  { intros n. apply isStale_same; [apply Hnd|exact Hk|]. intros p _. rewrite Hnd. reflexivity. }
  assert (Hdone : forall n, isDone s' n = isDone s n) by (intros n; unfold isDone; rewrite Hnd, Hk; reflexivity).
  assert (Hgd : forall n, guarded s' cur' n = guarded s cur n).
  { intros n. unfold guarded, volq. rewrite Hnd. apply forallb_ext. intros p _. rewrite !Hnd, Hk, HW. reflexivity. }
  assert (Hcons : forall n, node_consistent s' n = node_consistent s n).
  { intros n. rewrite !node_consistent_val by (rewrite ?Hnd; apply (bf_kind s HBF)). rewrite Hnd.
    apply consistent_val_ext; rewrite ?Hnd; try reflexivity. intros p _. apply Hval. }
  constructor.
  - exact HBF'.
  - split; [exact Iw|]. intros q Hin. rewrite !Hnd. apply Hq, Hin.
  - intros n. unfold stamps_node. rewrite Hnd, Hk. apply (li_stamps _ _ _ _ L n).
  - intros x n Hx Hxn. rewrite HW in Hx. rewrite Hdone. apply (li_B _ _ _ _ L x n Hx). apply Hr, Hxn.
  - intros m x Hc Hx Hxm. apply (HM m x Hc Hx). apply Hr, Hxm.
  - intros n. rewrite Hnd, Hdone, Hstale, HW. apply (li_owed _ _ _ _ L n).
  - intros n. rewrite Hnd, HW, Hgd, Hcons. apply (li_clean _ _ _ _ L n).
  - intros n. rewrite HW, Hdone, Hnd. intros Hn. destruct (li_orig _ _ _ _ L n Hn) as [Hg Ho]. split; [exact Hg|].
    unfold origin in *. rewrite Hnd, Hk. erewrite existsb_ext_local; [exact Ho|]. intros p. rewrite Hnd. reflexivity.
  - intros n Hn. rewrite HW, Hdone. apply (li_prog _ _ _ _ L n Hn).
  - destruct (li_log _ _ _ _ L) as (evs & Hlg & Hall & Hnd'). exists (l ++ evs).
    split; [rewrite Hl, Hlg, app_assoc; reflexivity|]. split.
    + apply Forall_app. split.
      * eapply List.Forall_impl; [|exact Hnone]. intros e He. destruct e; try reflexivity; discriminate He.
      * eapply List.Forall_impl; [|exact Hall]. intros e He. destruct e; try reflexivity; unfold ev_ok in *;
          rewrite ?Hdone, ?Hnd, ?Hk; [|exact He]. rewrite (map_ext _ _ Hval). exact He.
    + unfold invoked_of in *. rewrite omap_app.
      assert (omap (fun e => match e with EvInvoked n _ _ => Some n | _ => None end) l = []) as ->; [|exact Hnd'].
      clear -Hnone. induction Hnone as [|e l He _ IH]; [reflexivity|]. simpl. destruct e; try exact IH; discriminate He.
Qed.

(** the plan: the function of node [x] returns an error *)
Definition failPlan (x : nid) : plan := [(x, WFn, AFail FErr)].

Definition mapKind (k : kind) : bool := match k with KMap _ | KMap2 _ | KMapN _ => true | _ => false end.

Lemma failPlan_actions x m w :
  actions_of (failPlan x) m w = if (x =? m)%nat && which_eqb w WFn then [AFail FErr] else [].
Proof. unfold failPlan, actions_of. simpl. destruct ((x =? m)%nat && which_eqb w WFn); reflexivity. Qed.

Lemma invoke_eq p q s n w : actions_of p n w = actions_of q n w -> invoke p s n w = invoke q s n w.
Proof. intros H. unfold invoke. rewrite H. reflexivity. Qed.

(** every recompute but that of [x] (when [x] has a function) is the plan-free one *)
Lemma rns_failPlan_other fuel x s m :
  isBindKind (nkind (nd s m)) = false -> (m <> x \/ mapKind (nkind (nd s m)) = false) ->
  recomputeNodeSerial fuel (failPlan x) s m = recomputeNodeSerial fuel [] s m.
Proof.
  intros Hb Hx. rewrite !recomputeNodeSerial_unfold. cbv zeta.
  set (s0 := upd s m (set recomputedAt (fun _ => stabNum s))).
  assert (Hk0 : forall t, (forall y, nd t y = nd s0 y) \/ True -> True) by auto. clear Hk0.
  assert (Hmc : maybeCutoff (failPlan x) s0 m (nd s m) = maybeCutoff [] s0 m (nd s m)).
  { unfold maybeCutoff. destruct (nkind (nd s m)); try reflexivity.
    rewrite (invoke_eq (failPlan x) [] s0 m WCut); [reflexivity|].
    rewrite failPlan_actions. simpl. rewrite andb_false_r. reflexivity. }
  rewrite Hmc. destruct (maybeCutoff [] s0 m (nd s m)) as [[[s1 e1] cut]| |] eqn:E1; simpl; try reflexivity.
  destruct e1; [reflexivity|]. destruct cut; [reflexivity|].
  assert (Hk1 : nkind (nd s1 m) = nkind (nd s m)).
  { apply maybeCutoff_spec in E1 as (V1 & _). destruct (vps_fields _ _ (V1 m)) as (-> & _).
    apply (nd_upd_proj nkind). reflexivity. }
  assert (Hsn : stabilizeNode fuel (failPlan x) s1 m = stabilizeNode fuel [] s1 m).
  { unfold stabilizeNode. rewrite Hk1.
    assert (Hinv : mapKind (nkind (nd s m)) = true -> invoke (failPlan x) s1 m WFn = invoke [] s1 m WFn).
    { intros Hmk. apply invoke_eq. rewrite failPlan_actions. destruct Hx as [Hx|Hx]; [|congruence].
      destruct (Nat.eqb_spec x m); [congruence|reflexivity]. }
    destruct (nkind (nd s m)); try reflexivity; try discriminate Hb; rewrite Hinv by reflexivity; reflexivity. }
  rewrite Hsn. reflexivity.
Qed.

(** the failing recompute: the stamp is restored, the node goes back to the queue *)
Lemma rns_failPlan_fail fuel x s s' e imm :
  has s x -> mapKind (nkind (nd s x)) = true ->
  recomputeNodeSerial fuel (failPlan x) s x = Ok (s', e, imm) ->
  e = Some (EUser x) /\ imm = None /\
  exists s3,
    heapAddIfNotPresent
      (upd (emit (EvFault x WFn FErr) (upd s x (set recomputedAt (fun _ => stabNum s)))) x
           (set recomputedAt (fun _ => recomputedAt (nd s x)))) x = Ok s3 /\
    s' = emit (EvErrH x) s3.
Proof.
  intros Hx Hmk H. rewrite recomputeNodeSerial_unfold in H. cbv zeta in H.
  set (s0 := upd s x (set recomputedAt (fun _ => stabNum s))) in *.
  assert (Hk0 : nkind (nd s0 x) = nkind (nd s x)) by (apply (nd_upd_proj nkind); reflexivity).
  assert (Hmc : maybeCutoff (failPlan x) s0 x (nd s x) = Ok (s0, None, false)).
  { unfold maybeCutoff. destruct (nkind (nd s x)); try reflexivity; discriminate Hmk. }
  rewrite Hmc in H. simpl in H.
  assert (Hinv : invoke (failPlan x) s0 x WFn = Ok (emit (EvFault x WFn FErr) s0, Some (EUser x))).
  { unfold invoke. rewrite failPlan_actions, Nat.eqb_refl. reflexivity. }
  assert (Hsn : stabilizeNode fuel (failPlan x) s0 x = Ok (emit (EvFault x WFn FErr) s0, Some (EUser x))).
  { unfold stabilizeNode. rewrite Hk0. destruct (nkind (nd s x)); try discriminate Hmk; rewrite Hinv; reflexivity. }
  rewrite Hsn in H. simpl in H. unfold recomputeFailed in H.
  destruct (heapAddIfNotPresent _ x) as [s3| |] eqn:E3; simpl in H; try discriminate.
  injection H as <- <- <-. split; [reflexivity|]. split; [reflexivity|]. exists s3. split; [reflexivity|].
  unfold errorHandlers.
  assert (Hk3 : nkind (nd s3 x) = nkind (nd s x)).
  { unfold heapAddIfNotPresent in E3. destruct (inHeap _ x).
    - injection E3 as <-. rewrite (nd_upd_proj nkind) by reflexivity. exact Hk0.
    - apply heapAdd_inv in E3 as (w & _ & ->). change (nkind (nd (upd (emit (EvFault x WFn FErr) s0) x (set recomputedAt (fun _ => recomputedAt (nd s x)))) x) = nkind (nd s x)).
      rewrite (nd_upd_proj nkind) by reflexivity. exact Hk0. }
  rewrite Hk3. destruct (nkind (nd s x)); try discriminate Hmk; reflexivity.
Qed.

Lemma node_eta_rec (y : node) a : y <| recomputedAt := a |> <| recomputedAt := recomputedAt y |> = y.
Proof. destruct y; reflexivity. Qed.

Definition chainPost (s : state) (n : nid) (s' : state) : Prop :=
  sframe s s' /\
  (forall y, isDone s' y = true -> isDone s y = true \/ y = n \/ isAlways (nkind (nd s y)) = false) /\
  (forall y, isDone s' y = false -> nd s' y = nd s y /\ isDone s y = false) /\
  (cursor_ok (heap s) -> cursor_ok (heap s')).

(** the state after the failing recompute: as before it, with [x] back in the queue *)
Lemma failed_step h0 base fuel x s s' e imm :
  Struct s -> LInv h0 base s (Some x) -> mapKind (nkind (nd s x)) = true ->
  recomputeNodeSerial fuel (failPlan x) s x = Ok (s', e, imm) ->
  e = Some (EUser x) /\ imm = None /\ LInv h0 base s' None /\ chainPost s x s' /\ inHeap s' x = true /\
  (forall y, nd s' y = nd s y).
Proof.
  intros HS L Hmk H.
  assert (Hg : inGraph (nd s x) = true).
  { apply (li_orig _ _ _ _ L x). left. apply inW_iff; [apply (li_heap _ _ _ _ L)|]. right; reflexivity. }
  assert (Hx : has s x) by (apply has_inGraph, Hg).
  destruct (rns_failPlan_fail fuel x s s' e imm Hx Hmk H) as (-> & -> & s3 & E3 & ->).
  split; [reflexivity|]. split; [reflexivity|].
  set (sA := upd s x (set recomputedAt (fun _ => stabNum s))) in *.
  set (sB := upd (emit (EvFault x WFn FErr) sA) x (set recomputedAt (fun _ => recomputedAt (nd s x)))) in *.
  assert (HndB : forall y, nd sB y = nd s y).
  { intros y. unfold sB. destruct (decide (y = x)) as [->|Hy].
    - rewrite nd_upd_eq by (apply has_emit, has_upd, Hx). rewrite nd_emit. unfold sA. rewrite nd_upd_eq by exact Hx.
      apply node_eta_rec.
    - rewrite nd_upd_ne by exact Hy. rewrite nd_emit. unfold sA. apply nd_upd_ne, Hy. }
  pose proof (proj1 (li_heap _ _ _ _ L)) as I.
  assert (Hxq : inHeap s x = false).
  { apply inHeap_false_iff0; [exact I|]. intros Hq. exact (li_M _ _ _ _ L x x eq_refl Hq (rtc_refl _ _)). }
  unfold heapAddIfNotPresent in E3. change (inHeap sB x) with (inHeap s x) in E3. rewrite Hxq in E3.
  assert (IB : HeapSpec.inv (heap sB)) by exact I.
  destruct (heapAdd_spec0 sB x s3 IB Hxq) as (O3 & I3 & P3 & Hin3); [rewrite HndB; apply (st_hnonneg _ HS x Hg)|exact E3|].
  set (s' := emit (EvErrH x) s3).
  assert (Hnd' : forall y, nd s' y = nd s y).
  { intros y. unfold s'. rewrite nd_emit, (oh_nd _ _ O3). apply HndB. }
  assert (Hheap' : heap s' = heap s3) by reflexivity.
  assert (Hids : forall y, y ∈ Heap.ids (heap s') <-> y = x \/ y ∈ Heap.ids (heap s)).
  { intros y. rewrite Hheap', P3, elem_of_cons. reflexivity. }
  assert (L' : LInv h0 base s' None).
  { apply (LInv_transport h0 base s (Some x) s' None L Hnd').
    - intros y. unfold s'. rewrite has_emit, (oh_has _ _ O3). unfold sB. rewrite has_upd, has_emit. apply has_upd.
    - unfold s'. cbn. rewrite (oh_binds _ _ O3). reflexivity.
    - unfold s'. cbn. rewrite (oh_next _ _ O3). reflexivity.
    - unfold s'. cbn. rewrite (oh_stabNum _ _ O3). reflexivity.
    - exact I3.
    - intros q Hq. rewrite Hheap', Hin3. apply Hids in Hq as [->|Hq].
      + rewrite decide_True by reflexivity. rewrite HndB. auto.
      + destruct (decide (q = x)) as [->|Hne]; [rewrite HndB; auto|]. apply (li_heap _ _ _ _ L), Hq.
    - intros y. apply eq_true_iff_eq. rewrite (inW_iff s' None y I3), (inW_iff s (Some x) y I), Hids.
      split; [intros [[->|?]|?]; auto; discriminate|intros [?|[= ->]]; auto].
    - discriminate.
    - exists [EvErrH x; EvFault x WFn FErr]. split; [unfold s'; cbn; rewrite (oh_log _ _ O3); reflexivity|].
      repeat constructor. }
  split; [exact L'|]. split; [|split; [|exact Hnd']].
  - assert (Hdone : forall y, isDone s' y = isDone s y).
    { intros y. unfold isDone. rewrite Hnd'. unfold s'. cbn. rewrite (oh_stabNum _ _ O3). reflexivity. }
    split; [|split; [|split]].
    + constructor; try (unfold s'; cbn; first [rewrite (oh_binds _ _ O3)|rewrite (oh_next _ _ O3)|rewrite (oh_reg _ _ O3)
        |rewrite (oh_obs _ _ O3)|rewrite (oh_adj _ _ O3)|rewrite (oh_invq _ _ O3)|rewrite (oh_stabNum _ _ O3)
        |rewrite (oh_status _ _ O3)|rewrite (oh_numNodes _ _ O3)|rewrite (oh_setDuring _ _ O3)
        |rewrite (oh_setRemoved _ _ O3)|rewrite (oh_maxHeight _ _ O3)]; reflexivity).
      * intros y. rewrite Hnd'. reflexivity.
      * intros y. unfold s'. rewrite has_emit, (oh_has _ _ O3). unfold sB. rewrite has_upd, has_emit. apply has_upd.
    + intros y Hy. left. rewrite <- Hdone. exact Hy.
    + intros y Hy. split; [apply Hnd'|rewrite <- Hdone; exact Hy].
    + intros C. rewrite Hheap'. apply heapAdd_inv in E3 as (w & Ew & ->). exact (cursor_add _ _ _ _ IB C Ew).
  - apply inHeap_iff0; [exact I3|]. apply Hids. left. reflexivity.
Qed.

Lemma chain_fail h0 base x fuel : forall s n s' e at_,
  Struct s -> LInv h0 base s (Some n) ->
  recomputeChain fuel (failPlan x) s n = Ok (s', e, at_) ->
  LInv h0 base s' None /\ chainPost s n s' /\ (e = None \/ (e = Some (EUser x) /\ inHeap s' x = true)).
Proof.
  induction fuel as [|fuel IH]; intros s n s' e at_ HS L H; [discriminate|].
  cbn [recomputeChain] in H.
  destruct (recomputeNodeSerial fuel (failPlan x) s n) as [[[s1 e1] imm]| |] eqn:E1; simpl in H; try discriminate.
  destruct (decide (n = x /\ mapKind (nkind (nd s n)) = true)) as [[-> Hmk]|Hno].
  - (* the failing recompute *)
    destruct (failed_step h0 base fuel x s s1 e1 imm HS L Hmk E1) as (-> & -> & L1 & CP & Hq & _).
    injection H as <- <- <-. split; [exact L1|]. split; [exact CP|]. right. auto.
  - rewrite rns_failPlan_other in E1.
    2:{ apply (bf_kind s (li_bf _ _ _ _ L)). }
    2:{ destruct (decide (n = x)) as [->|]; [right|left; assumption].
        destruct (mapKind (nkind (nd s x))); [exfalso; apply Hno; auto|reflexivity]. }
    assert (Hg : inGraph (nd s n) = true).
    { apply (li_orig _ _ _ _ L n). left. apply inW_iff; [apply (li_heap _ _ _ _ L)|]. right; reflexivity. }
    destruct (rns_step fuel s n s1 e1 imm (li_bf _ _ _ _ L) (has_inGraph _ _ Hg) (proj1 (li_heap _ _ _ _ L)) E1)
      as [-> P].
    pose proof (step_LInv h0 base s n s1 imm HS L P) as L1.
    pose proof (stepPost_sframe _ _ _ _ P) as F1.
    assert (Hd1 : forall y, isDone s1 y = true -> isDone s y = true \/ y = n).
    { intros y. apply (PassProofs.done'_iff s n s1 imm P). }
    assert (Hu1 : forall y, isDone s1 y = false -> nd s1 y = nd s y /\ isDone s y = false).
    { intros y Hy. apply (PassProofs.done'_false s n s1 imm P) in Hy as [Hy Hne]. split; [apply (sp_other _ _ _ _ P y Hne)|exact Hy]. }
    destruct imm as [c|].
    + destruct (IH s1 c s' e at_ (sf_Struct _ _ F1 HS) L1 H) as (L' & (F' & Hd' & Hu' & Hc') & He).
      split; [exact L'|]. split; [|exact He].
      split; [eapply sframe_trans; eauto|]. split; [|split].
      * intros y Hy. destruct (Hd' y Hy) as [Hy1|[->|Hna]].
        -- destruct (Hd1 y Hy1); auto.
        -- right. right. rewrite <- (sf_nkind _ _ F1).
           destruct (sp_case _ _ _ _ P) as [C|R]; [pose proof (cp_imm _ _ _ _ C); discriminate|].
           destruct (rp_imm _ _ _ _ R c eq_refl) as [_ Hcan]. unfold canRecomputeImmediately in Hcan.
           destruct (isAlways (nkind (nd s1 c))); [discriminate|reflexivity].
        -- right. right. rewrite <- (sf_nkind _ _ F1). exact Hna.
      * intros y Hy. destruct (Hu' y Hy) as [A1 Hy1]. destruct (Hu1 y Hy1) as [A2 Hy0]. split; congruence.
      * intros C. apply Hc', (sp_cur _ _ _ _ P), C.
    + injection H as <- <- <-. split; [exact L1|]. split; [|left; reflexivity].
      split; [exact F1|]. split; [|split; [exact Hu1|exact (sp_cur _ _ _ _ P)]].
      intros y Hy. destruct (Hd1 y Hy); auto.
Qed.

Lemma loop_fail h0 base x fuel : forall s always s' e at_ always',
  Struct s -> LInv h0 base s None -> AlwaysOK s always ->
  passLoop fuel (failPlan x) s always = Ok (s', e, at_, always') ->
  LInv h0 base s' None /\ sframe s s' /\ AlwaysOK s' always' /\
  (forall y, isDone s' y = false -> nd s' y = nd s y /\ isDone s y = false) /\
  (cursor_ok (heap s) -> cursor_ok (heap s')) /\
  ((e = None /\ Heap.ids (heap s') = []) \/ (e = Some (EUser x) /\ inHeap s' x = true)).
Proof.
  induction fuel as [|fuel IH]; intros s always s' e at_ always' HS L HA H; [discriminate|].
  cbn [passLoop] in H. pose proof (proj1 (li_heap _ _ _ _ L)) as I.
  destruct (Z.leb_spec (Heap.cnt (heap s)) 0) as [Hc|Hc].
  { injection H as <- <- <- <-. split; [exact L|]. split; [apply sframe_refl|]. split; [exact HA|].
    split; [auto|]. split; [auto|]. left. split; [reflexivity|apply cnt_zero_ids; assumption]. }
  destruct (Heap.removeMin (heap s)) as [[n w]|] eqn:Erm; [|discriminate].
  set (s2 := s <| heap := w |>) in *.
  set (always2 := if isAlways (nkind (nd s2 n)) then always ++ [n] else always) in *.
  destruct (recomputeChain fuel (failPlan x) s2 n) as [[[s3 e3] at3]| |] eqn:E3; simpl in H; try discriminate.
  pose proof (pop_LInv h0 base s n w HS L Erm) as L2.
  assert (F2 : sframe s s2) by apply sframe_set_heap.
  destruct (chain_fail h0 base x fuel s2 n s3 e3 at3 (sf_Struct _ _ F2 HS) L2 E3) as (L3 & (F3 & Hd3 & Hu3 & Hc3) & He3).
  assert (HA3 : AlwaysOK s3 always2).
  { destruct HA as [HA1 HA2]. split.
    - intros y Hk Hd. rewrite (sf_nkind _ _ F3) in Hk. change (nd s2 y) with (nd s y) in Hk.
      destruct (Hd3 y Hd) as [Hy|[->|Hy]].
      + unfold always2. destruct (isAlways (nkind (nd s2 n))); [apply elem_of_app; left|]; apply HA1; assumption.
      + unfold always2. change (nd s2 n) with (nd s n). rewrite Hk. apply elem_of_app. right. left.
      + change (nd s2 y) with (nd s y) in Hy. congruence.
    - intros y Hy. rewrite (sf_inGraph _ _ F3), (sf_nkind _ _ F3). change (nd s2 y) with (nd s y).
      unfold always2 in Hy. change (nd s2 n) with (nd s n) in Hy.
      assert (Hng : inGraph (nd s n) = true).
      { apply (li_orig _ _ _ _ L2 n). left. apply inW_iff; [apply (li_heap _ _ _ _ L2)|]. right; reflexivity. }
      destruct (isAlways (nkind (nd s n))) eqn:Ek; [|apply HA2, Hy].
      apply elem_of_app in Hy as [Hy|Hy]; [apply HA2, Hy|]. apply elem_of_list_singleton in Hy as ->. auto. }
  assert (Hcur3 : cursor_ok (heap s3)) by (apply Hc3; exact (cursor_removeMin _ _ _ I Erm)).
  assert (Hu23 : forall y, isDone s3 y = false -> nd s3 y = nd s y /\ isDone s y = false) by exact Hu3.
  destruct e3 as [e3|].
  - injection H as <- <- <- <-. destruct He3 as [?|[-> Hq]]; [discriminate|].
    split; [exact L3|]. split; [eapply sframe_trans; eauto|]. split; [exact HA3|]. split; [exact Hu23|].
    split; [auto|]. right. auto.
  - destruct (IH s3 always2 s' e at_ always' (sf_Struct _ _ F3 (sf_Struct _ _ F2 HS)) L3 HA3 H)
      as (L' & F' & HA' & Hu' & Hc' & He').
    split; [exact L'|]. split; [eapply sframe_trans; [exact F2|]; eapply sframe_trans; eauto|]. split; [exact HA'|].
    split; [|split; [intros _; apply Hc', Hcur3|exact He']].
    intros y Hy. destruct (Hu' y Hy) as [A1 Hy1]. destruct (Hu23 y Hy1) as [A2 Hy0]. split; [congruence|exact Hy0].
Qed.

(** ** the end of a failed pass *)
Lemma stabilizeEnd_quiet s3 e s' :
  setDuring s3 = [] -> setRemoved s3 = [] -> stabilizeEnd s3 e = Ok s' ->
  nodes s' = nodes s3 /\ heap s' = heap s3 /\ binds s' = binds s3 /\ next s' = next s3 /\
  stabNum s' = stabNum s3 + 1 /\ reg s' = reg s3 /\ obs s' = obs s3 /\ adj s' = adj s3 /\ invq s' = invq s3 /\
  numNodes s' = numNodes s3 /\ maxHeight s' = maxHeight s3 /\
  status s' = 0 /\ handlers s' = [] /\ setDuring s' = [] /\ setRemoved s' = [].
Proof.
  intros Hsd Hsr H. unfold stabilizeEnd in H. rewrite runUpdateHandlers_eq in H. cbv zeta in H.
  rewrite applyDeferredSets_unfold in H. cbn in H. rewrite Hsd, Hsr in H. simpl in H.
  injection H as <-. cbn. repeat split.
Qed.

(** from the loop invariant at the moment the loop stopped to the quiescent invariant *)
Lemma finish_ValInv h0 base s sL always s' :
  ValInv s -> Struct sL -> LInv h0 base sL None -> AlwaysOK sL always ->
  stabNum sL = stabNum s ->
  (forall y, isDone sL y = false -> nd sL y = nd s y) ->
  nodes s' = nodes sL -> binds s' = binds sL -> next s' = next sL -> stabNum s' = stabNum sL + 1 ->
  (forall y, inHeap sL y = true -> inHeap s' y = true) ->
  (forall y, y ∈ always -> inHeap s' y = true) ->
  ValInv s'.
Proof.
  intros V HSL LL HAL Hk Hun Hn Hb Hnx Hk' Hq Hqa.
  pose proof (li_bf _ _ _ _ LL) as HBFL. pose proof (nodes_eq_nd _ _ Hn) as Hnd.
  pose proof (proj1 (li_heap _ _ _ _ LL)) as IL.
  assert (Hkpos : 1 <= stabNum s) by (pose proof (stamps_node_true _ _ (vi_stamps _ V 0%nat)); lia).
  assert (HstL : forall n, 0 <= changedAt (nd sL n) <= stabNum s /\ 0 <= recomputedAt (nd sL n) <= stabNum s /\
                           (changedAt (nd sL n) = stabNum s -> recomputedAt (nd sL n) = stabNum s)).
  { intros n. rewrite <- Hk. apply stamps_node_false, (li_stamps _ _ _ _ LL). }
  assert (Hstale : forall n, isStale s' n = isStale sL n) by (intros n; apply isStale_nodes, Hn).
  assert (HBF' : BF s').
  { destruct HBFL as [B1 B2]. split; [congruence|]. intros n y Hy. rewrite Hn in Hy. pose proof (B2 n y Hy) as Hb2.
    unfold bf_node in *. rewrite Hnx. exact Hb2. }
  constructor.
  - exact HBF'.
  - intros n. unfold stamps_node. rewrite Hnd, Hk', Hk. pose proof (HstL n).
    rewrite !andb_true_iff, !Z.leb_le, Z.ltb_lt. lia.
  - intros n Hg. rewrite Hnd in *. assert (Hd : isDone sL n = false).
    { destruct (isDone sL n) eqn:Ed; [|reflexivity]. destruct (li_orig _ _ _ _ LL n (or_intror Ed)) as [Hg' _]. congruence. }
    rewrite (Hun n Hd). apply (vi_unreg _ V). rewrite <- (Hun n Hd). exact Hg.
  - intros n Hg Hs. rewrite Hnd in Hg. rewrite Hstale in Hs.
    destruct (isDone sL n) eqn:Ed.
    + (* it ran: only an Always node is stale again *)
      apply Hqa. apply (proj1 HAL n); [|exact Ed].
      apply isDone_iff in Ed. rewrite Hk in Ed.
      unfold isStale in Hs. rewrite (bf_valid sL HBFL) in Hs. simpl in Hs.
      assert (Hsw : staleWrtParents sL (nd sL n) = false).
      { unfold staleWrtParents. destruct (existsb _ _) eqn:Ex; [|reflexivity].
        apply existsb_elem in Ex as (p & _ & Hp). apply Z.gtb_lt in Hp. pose proof (HstL p). lia. }
      assert (H0 : (recomputedAt (nd sL n) =? 0) = false) by (apply Z.eqb_neq; lia).
      destruct (nkind (nd sL n)) eqn:K; try reflexivity; try discriminate Hs;
        rewrite ?H0, ?Hsw in Hs; discriminate Hs.
    + apply Hq. pose proof (li_owed _ _ _ _ LL n Hg Ed Hs) as Hw. unfold inW in Hw. rewrite orb_false_r in Hw. exact Hw.
  - intros n Hg Hq' Hgd. rewrite Hnd in Hg.
    assert (HqL : inW sL None n = false).
    { unfold inW. rewrite orb_false_r. destruct (inHeap sL n) eqn:E; [|reflexivity]. rewrite (Hq n E) in Hq'. discriminate. }
    assert (HgdL : guarded sL None n = true).
    { unfold guarded in *. rewrite Hnd in Hgd. apply forallb_intro. intros p Hp.
      pose proof (forallb_elem _ _ _ Hgd Hp) as Hb2. cbv beta in Hb2. rewrite !Hnd in Hb2.
      apply andb_true_iff in Hb2 as [H1 H2]. rewrite H1. simpl. apply negb_true_iff in H2. apply negb_true_iff.
      unfold volq in *. rewrite ?Hnd in H2. destruct (nkind (nd sL p)); try reflexivity.
      - unfold inW in *. rewrite orb_false_r in *. destruct (inHeap sL p) eqn:E; [|reflexivity].
        rewrite (Hq p E) in H2. discriminate.
      - rewrite ?Hnd, Hk', Hk in H2. apply Z.ltb_ge in H2. pose proof (HstL p). lia. }
    rewrite (node_consistent_nodes sL s' n Hn (bf_kind sL HBFL n)).
    apply (li_clean _ _ _ _ LL n Hg HqL HgdL).
Qed.

(** C07: the function of [x] returns an error.  The pass returns it; the structural and the
    quiescent invariant hold afterwards ([x] and everything the pass had not reached are still
    queued); a fault-free retry succeeds and converges to the from-scratch values. *)
Theorem pass_fail_retry s x s' e :
  wfb s = true -> ValInv s -> stabilize (failPlan x) false s = Ok (s', Some e) ->
  e = EUser x /\ wfb s' = true /\ ValInv s' /\ inHeap s' x = true /\
  exists s'', stabilize [] false s' = Ok (s'', None) /\ consistent s'' = true /\
              observers_agree s'' = true /\ wfb s'' = true /\ ValInv s''.
Proof.
  intros Hwf V H. destruct (wfb_transients _ Hwf) as (Hst & Hsd & Hsr & Hh).
  pose proof (vi_bf _ V) as HBF. pose proof (wfb_Struct s Hwf HBF) as HS.
  destruct (stabilize_decompose _ _ _ _ _ Hst H) as (sL & at_ & always & s2 & s3 & EL & ER & EP & EE).
  unfold passResult in EL. cbv zeta in EL. simpl in EL.
  set (s1 := EngineLocal.passStart s) in *.
  assert (HS1 : Struct s1) by (destruct HS; constructor; assumption).
  pose proof (LInv_start s Hwf V) as L1. change (PassProofs.passStart s) with s1 in L1.
  assert (HA1 : AlwaysOK s1 []).
  { split; [|intros y Hy; inv Hy]. intros y _ Hd. exfalso.
    pose proof (stamps_node_true _ _ (vi_stamps _ V y)). unfold isDone in Hd. apply Z.eqb_eq in Hd.
    change (recomputedAt (nd s y) = stabNum s) in Hd. lia. }
  destruct (loop_fail _ _ x _ s1 [] sL (Some e) at_ always HS1 L1 HA1 EL) as (LL & FL & HAL & HuL & HcL & He).
  destruct He as [[? _]|[[= ->] HqL]]; [discriminate|].
  injection EP as <-.
  pose proof (sf_Struct _ _ FL HS1) as HSL. pose proof (proj1 (li_heap _ _ _ _ LL)) as IL.
  destruct (requeue_spec always sL s2 IL) as (OR & IR & MR & HinR & HcR); [| |exact ER|].
  { intros y Hy. apply (st_hnonneg _ HSL). apply (proj2 HAL y Hy). }
  { intros y Hy. apply (li_heap _ _ _ _ LL), Hy. }
  destruct (stabilizeEnd_quiet s2 _ s' ltac:(rewrite (oh_setDuring _ _ OR), (sf_setDuring _ _ FL); exact Hsd)
              ltac:(rewrite (oh_setRemoved _ _ OR), (sf_setRemoved _ _ FL); exact Hsr) EE)
    as (En & Eh & Eb & Ex & Ek & Er & Eo & Ea & Ei & Enn & Em & Est & Ehd & Esd & Esr).
  assert (Hnodes : nodes s' = nodes sL) by (rewrite En; apply (oh_nodes _ _ OR)).
  pose proof (nodes_eq_nd _ _ Hnodes) as Hnd'.
  assert (Hq' : forall y, inHeap s' y = true <-> y ∈ Heap.ids (heap sL) \/ y ∈ always).
  { intros y. unfold inHeap. rewrite Eh. fold (inHeap s2 y). rewrite (inHeap_iff0 s2 y IR). apply MR. }
  assert (V' : ValInv s').
  { apply (finish_ValInv _ _ s sL always s' V HSL LL HAL (sf_stabNum _ _ FL)); try assumption.
    - intros y Hy. apply (HuL y Hy).
    - rewrite Eb. apply (oh_binds _ _ OR).
    - rewrite Ex. apply (oh_next _ _ OR).
    - rewrite Ek, (oh_stabNum _ _ OR). reflexivity.
    - intros y Hy. apply Hq'. left. apply inHeap_iff0; assumption.
    - intros y Hy. apply Hq'. right. exact Hy. }
  assert (Hwf' : wfb s' = true).
  { destruct (wfb_all _ Hwf) as (W1 & W2 & W3 & W4 & W5 & W6 & W7 & W8 & W9 & W10).
    assert (Hsk : forall n, skel (nd s' n) = skel (nd s n)) by (intros n; rewrite Hnd'; apply (sf_nd _ _ FL)).
    assert (Hhas : forall n, has s' n <-> has s n).
    { intros n. unfold has. rewrite Hnodes. apply (sf_has _ _ FL). }
    assert (Hnx : next s' = next s) by (rewrite Ex, (oh_next _ _ OR); apply (sf_next _ _ FL)).
    apply wfb_intro.
    - rewrite (wt_edges s s' Hsk Hhas Hnx). exact W1.
    - apply (wt_unreg s s' Hsk Hhas Hnx W2). intros n Hq. rewrite Hnd'. apply Hq' in Hq as [Hq|Hq].
      + apply (li_heap _ _ _ _ LL), Hq.
      + apply (proj2 HAL n Hq).
    - rewrite (wt_nec_clause s s' Hsk Hhas Hnx). exact W3.
    - rewrite (wt_declared s s' Hsk Hhas Hnx). exact W4.
    - rewrite (wt_heights s s' Hsk Hhas Hnx); [exact W5|]. rewrite Em, (oh_maxHeight _ _ OR). apply (sf_maxHeight _ _ FL).
    - unfold queued_ok. rewrite Eh. apply andb_true_iff. split.
      + apply heap_inv_b_complete; [exact IR|]. apply HcR, HcL.
        unfold queued_ok in W6. apply andb_true_iff in W6 as [W6 _]. exact (heap_inv_b_cursor _ W6).
      + apply forallb_intro. intros y Hy. rewrite Hnd'. apply andb_true_iff. split.
        * apply MR in Hy as [Hy|Hy]; [apply (li_heap _ _ _ _ LL), Hy|apply (proj2 HAL y Hy)].
        * apply Z.eqb_eq, HinR, Hy.
    - rewrite (wt_counts s s' Hsk Hhas Hnx); [exact W7| | |].
      + rewrite Er, (oh_reg _ _ OR). apply (sf_reg _ _ FL).
      + rewrite Eo, (oh_obs _ _ OR). apply (sf_obs _ _ FL).
      + rewrite Enn, (oh_numNodes _ _ OR). apply (sf_numNodes _ _ FL).
    - apply (wt_transients s s' Hsk Hhas Hnx W8); try assumption.
      + rewrite Ea, (oh_adj _ _ OR). apply (sf_adj _ _ FL).
      + rewrite Ei, (oh_invq _ _ OR). apply (sf_invq _ _ FL).
    - rewrite (wt_observers_clause s s' Hsk Hhas Hnx); [exact W9|]. rewrite Eo, (oh_obs _ _ OR). apply (sf_obs _ _ FL).
    - unfold binds_ok. rewrite Eb, (oh_binds _ _ OR), (sf_binds _ _ FL). change (binds s1) with (binds s).
      rewrite (proj1 HBF), map_to_list_empty. reflexivity. }
  split; [reflexivity|]. split; [exact Hwf'|]. split; [exact V'|]. split.
  - apply Hq'. left. apply inHeap_iff0; assumption.
  - destruct (pass_total s' Hwf' V') as [s'' H''].
    destruct (pass_all s' s'' Hwf' V' H'') as (A1 & A2 & A3 & A4). exists s''. auto.
Qed.

(** example: in [ex_pre] the function of node 4 fails *)
Definition ex_fpost : state :=
  match stabilize (failPlan 4) false ex_pre with Ok (s, Some _) => s | _ => init 0 end.
Lemma ex_fpass : stabilize (failPlan 4) false ex_pre = Ok (ex_fpost, Some (EUser 4%nat)).
Proof.
  assert (H : match stabilize (failPlan 4) false ex_pre with Ok (_, Some (EUser 4%nat)) => true | _ => false end = true)
    by (vm_compute; reflexivity).
  unfold ex_fpost. destruct (stabilize (failPlan 4) false ex_pre) as [[s [e|]]| |]; try discriminate H.
  destruct e; try discriminate H. destruct n as [|[|[|[|[|n]]]]]; try discriminate H. reflexivity.
Qed.

Lemma pass_start_facts s : wfb s = true -> ValInv s ->
  let s1 := EngineLocal.passStart s in
  Struct s1 /\ LInv (Heap.ids (heap s)) (EvPassStart :: log s) s1 None /\ AlwaysOK s1 [].
Proof.
  intros Hwf V s1. pose proof (wfb_Struct s Hwf (vi_bf _ V)) as HS.
  split; [destruct HS; constructor; assumption|]. split; [exact (LInv_start s Hwf V)|].
  split; [|intros x Hx; inv Hx]. intros x _ Hd. exfalso.
  pose proof (stamps_node_true _ _ (vi_stamps _ V x)). unfold isDone in Hd. apply Z.eqb_eq in Hd.
  change (recomputedAt (nd s x) = stabNum s) in Hd. lia.
Qed.


(** ** a node function that panics (this is what needs the weakened stamp clause of [ValInv]) *)

Definition panicPlan (x : nid) : plan := [(x, WFn, AFail FPanic)].

Lemma panicPlan_actions x m w :
  actions_of (panicPlan x) m w = if (x =? m)%nat && which_eqb w WFn then [AFail FPanic] else [].
Proof. unfold panicPlan, actions_of. simpl. destruct ((x =? m)%nat && which_eqb w WFn); reflexivity. Qed.

Lemma rns_panicPlan_other fuel x s m :
  isBindKind (nkind (nd s m)) = false -> (m <> x \/ mapKind (nkind (nd s m)) = false) ->
  recomputeNodeSerial fuel (panicPlan x) s m = recomputeNodeSerial fuel [] s m.
Proof.
  intros Hb Hx. rewrite !recomputeNodeSerial_unfold. cbv zeta.
  set (s0 := upd s m (set recomputedAt (fun _ => stabNum s))).
  assert (Hmc : maybeCutoff (panicPlan x) s0 m (nd s m) = maybeCutoff [] s0 m (nd s m)).
  { unfold maybeCutoff. destruct (nkind (nd s m)); try reflexivity.
    rewrite (invoke_eq (panicPlan x) [] s0 m WCut); [reflexivity|].
    rewrite panicPlan_actions. simpl. rewrite andb_false_r. reflexivity. }
  rewrite Hmc. destruct (maybeCutoff [] s0 m (nd s m)) as [[[s1 e1] cut]| |] eqn:E1; simpl; try reflexivity.
  destruct e1; [reflexivity|]. destruct cut; [reflexivity|].
  assert (Hk1 : nkind (nd s1 m) = nkind (nd s m)).
  { apply maybeCutoff_spec in E1 as (V1 & _). destruct (vps_fields _ _ (V1 m)) as (-> & _).
    apply (nd_upd_proj nkind). reflexivity. }
  assert (Hsn : stabilizeNode fuel (panicPlan x) s1 m = stabilizeNode fuel [] s1 m).
  { unfold stabilizeNode. rewrite Hk1.
    assert (Hinv : mapKind (nkind (nd s m)) = true -> invoke (panicPlan x) s1 m WFn = invoke [] s1 m WFn).
    { intros Hmk. apply invoke_eq. rewrite panicPlan_actions. destruct Hx as [Hx|Hx]; [|congruence].
      destruct (Nat.eqb_spec x m); [congruence|reflexivity]. }
    destruct (nkind (nd s m)); try reflexivity; try discriminate Hb; rewrite Hinv by reflexivity; reflexivity. }
  rewrite Hsn. reflexivity.
Qed.

(** the panicking recompute unwinds at once: only the stamp of this pass and the fault event *)
Lemma rns_panicPlan_fail fuel x s s' e imm :
  has s x -> mapKind (nkind (nd s x)) = true ->
  recomputeNodeSerial fuel (panicPlan x) s x = Ok (s', e, imm) ->
  e = Some (EPanic x) /\ imm = None /\
  s' = emit (EvFault x WFn FPanic) (upd s x (set recomputedAt (fun _ => stabNum s))).
Proof.
  intros Hx Hmk H. rewrite recomputeNodeSerial_unfold in H. cbv zeta in H.
  set (s0 := upd s x (set recomputedAt (fun _ => stabNum s))) in *.
  assert (Hk0 : nkind (nd s0 x) = nkind (nd s x)) by (apply (nd_upd_proj nkind); reflexivity).
  assert (Hmc : maybeCutoff (panicPlan x) s0 x (nd s x) = Ok (s0, None, false)).
  { unfold maybeCutoff. destruct (nkind (nd s x)); try reflexivity; discriminate Hmk. }
  rewrite Hmc in H. simpl in H.
  assert (Hinv : invoke (panicPlan x) s0 x WFn = Ok (emit (EvFault x WFn FPanic) s0, Some (EPanic x))).
  { unfold invoke. rewrite panicPlan_actions, Nat.eqb_refl. reflexivity. }
  assert (Hsn : stabilizeNode fuel (panicPlan x) s0 x = Ok (emit (EvFault x WFn FPanic) s0, Some (EPanic x))).
  { unfold stabilizeNode. rewrite Hk0. destruct (nkind (nd s x)); try discriminate Hmk; rewrite Hinv; reflexivity. }
  rewrite Hsn in H. simpl in H. injection H as <- <- <-. auto.
Qed.

(** how the loop ends when [x] panics: [sG] is the state just before the panicking recompute *)
Definition panicked (h0 : list nid) (base : list event) (x : nid) (s : state) (always : list nid)
           (sG s' : state) : Prop :=
  Struct sG /\ LInv h0 base sG (Some x) /\ mapKind (nkind (nd sG x)) = true /\ sframe s sG /\
  AlwaysOK sG always /\ (forall y, isDone sG y = false -> nd sG y = nd s y /\ isDone s y = false) /\
  (cursor_ok (heap s) -> cursor_ok (heap sG)) /\
  s' = emit (EvFault x WFn FPanic) (upd sG x (set recomputedAt (fun _ => stabNum sG))).

Lemma chain_panic h0 base x fuel : forall s n s' e at_,
  Struct s -> LInv h0 base s (Some n) ->
  recomputeChain fuel (panicPlan x) s n = Ok (s', e, at_) ->
  (e = None /\ LInv h0 base s' None /\ chainPost s n s') \/
  (e = Some (EPanic x) /\ at_ = x /\ exists sG,
     Struct sG /\ LInv h0 base sG (Some x) /\ mapKind (nkind (nd sG x)) = true /\
     (sG = s \/ chainPost s n sG) /\
     s' = emit (EvFault x WFn FPanic) (upd sG x (set recomputedAt (fun _ => stabNum sG)))).
Proof.
  induction fuel as [|fuel IH]; intros s n s' e at_ HS L H; [discriminate|].
  cbn [recomputeChain] in H.
  destruct (recomputeNodeSerial fuel (panicPlan x) s n) as [[[s1 e1] imm]| |] eqn:E1; simpl in H; try discriminate.
  destruct (decide (n = x /\ mapKind (nkind (nd s n)) = true)) as [[-> Hmk]|Hno].
  - assert (Hg : inGraph (nd s x) = true).
    { apply (li_orig _ _ _ _ L x). left. apply inW_iff; [apply (li_heap _ _ _ _ L)|]. right; reflexivity. }
    destruct (rns_panicPlan_fail fuel x s s1 e1 imm (has_inGraph _ _ Hg) Hmk E1) as (-> & -> & ->).
    injection H as <- <- <-. right. split; [reflexivity|]. split; [reflexivity|]. exists s. auto 10.
  - rewrite rns_panicPlan_other in E1.
    2:{ apply (bf_kind s (li_bf _ _ _ _ L)). }
    2:{ destruct (decide (n = x)) as [->|]; [right|left; assumption].
        destruct (mapKind (nkind (nd s x))); [exfalso; apply Hno; auto|reflexivity]. }
    assert (Hg : inGraph (nd s n) = true).
    { apply (li_orig _ _ _ _ L n). left. apply inW_iff; [apply (li_heap _ _ _ _ L)|]. right; reflexivity. }
    destruct (rns_step fuel s n s1 e1 imm (li_bf _ _ _ _ L) (has_inGraph _ _ Hg) (proj1 (li_heap _ _ _ _ L)) E1)
      as [-> P].
    pose proof (step_LInv h0 base s n s1 imm HS L P) as L1.
    pose proof (stepPost_sframe _ _ _ _ P) as F1.
    assert (Hd1 : forall y, isDone s1 y = true -> isDone s y = true \/ y = n).
    { intros y. apply (PassProofs.done'_iff s n s1 imm P). }
    assert (Hu1 : forall y, isDone s1 y = false -> nd s1 y = nd s y /\ isDone s y = false).
    { intros y Hy. apply (PassProofs.done'_false s n s1 imm P) in Hy as [Hy Hne]. split; [apply (sp_other _ _ _ _ P y Hne)|exact Hy]. }
    assert (CP1 : chainPost s n s1).
    { split; [exact F1|]. split; [intros y Hy; destruct (Hd1 y Hy); auto|]. split; [exact Hu1|exact (sp_cur _ _ _ _ P)]. }
    assert (Hcomp : forall c s2, imm = Some c -> chainPost s1 c s2 -> chainPost s n s2).
    { intros c s2 -> (F' & Hd' & Hu' & Hc'). split; [eapply sframe_trans; eauto|]. split; [|split].
      - intros y Hy. destruct (Hd' y Hy) as [Hy1|[->|Hna]].
        + destruct (Hd1 y Hy1); auto.
        + right. right. rewrite <- (sf_nkind _ _ F1).
          destruct (sp_case _ _ _ _ P) as [C|R]; [pose proof (cp_imm _ _ _ _ C); discriminate|].
          destruct (rp_imm _ _ _ _ R c eq_refl) as [_ Hcan]. unfold canRecomputeImmediately in Hcan.
          destruct (isAlways (nkind (nd s1 c))); [discriminate|reflexivity].
        + right. right. rewrite <- (sf_nkind _ _ F1). exact Hna.
      - intros y Hy. destruct (Hu' y Hy) as [A1 Hy1]. destruct (Hu1 y Hy1) as [A2 Hy0]. split; congruence.
      - intros C. apply Hc', (sp_cur _ _ _ _ P), C. }
    destruct imm as [c|].
    + destruct (IH s1 c s' e at_ (sf_Struct _ _ F1 HS) L1 H) as [(-> & L' & CP')|(-> & -> & sG & HSG & LG & Hmk & Hrel & Es')].
      * left. split; [reflexivity|]. split; [exact L'|]. exact (Hcomp c s' eq_refl CP').
      * right. split; [reflexivity|]. split; [reflexivity|]. exists sG. split; [exact HSG|]. split; [exact LG|].
        split; [exact Hmk|]. split; [|exact Es']. right.
        destruct Hrel as [->|CPG]; [exact CP1|exact (Hcomp c sG eq_refl CPG)].
    + injection H as <- <- <-. left. auto.
Qed.

Lemma loop_panic h0 base x fuel : forall s always s' e at_ always',
  Struct s -> LInv h0 base s None -> AlwaysOK s always ->
  passLoop fuel (panicPlan x) s always = Ok (s', e, at_, always') ->
  (e = None /\ LInv h0 base s' None /\ sframe s s' /\ AlwaysOK s' always' /\
   (forall y, isDone s' y = false -> nd s' y = nd s y /\ isDone s y = false) /\
   (cursor_ok (heap s) -> cursor_ok (heap s')) /\ Heap.ids (heap s') = []) \/
  (e = Some (EPanic x) /\ at_ = x /\ exists sG, panicked h0 base x s always' sG s').
Proof.
  induction fuel as [|fuel IH]; intros s always s' e at_ always' HS L HA H; [discriminate|].
  cbn [passLoop] in H. pose proof (proj1 (li_heap _ _ _ _ L)) as I.
  destruct (Z.leb_spec (Heap.cnt (heap s)) 0) as [Hc|Hc].
  { injection H as <- <- <- <-. left. split; [reflexivity|]. split; [exact L|]. split; [apply sframe_refl|].
    split; [exact HA|]. split; [auto|]. split; [auto|]. apply cnt_zero_ids; assumption. }
  destruct (Heap.removeMin (heap s)) as [[n w]|] eqn:Erm; [|discriminate].
  set (s2 := s <| heap := w |>) in *.
  set (always2 := if isAlways (nkind (nd s2 n)) then always ++ [n] else always) in *.
  destruct (recomputeChain fuel (panicPlan x) s2 n) as [[[s3 e3] at3]| |] eqn:E3; simpl in H; try discriminate.
  pose proof (pop_LInv h0 base s n w HS L Erm) as L2.
  assert (F2 : sframe s s2) by apply sframe_set_heap.
  pose proof (sf_Struct _ _ F2 HS) as HS2.
  assert (Hng : inGraph (nd s n) = true).
  { apply (li_orig _ _ _ _ L2 n). left. apply inW_iff; [apply (li_heap _ _ _ _ L2)|]. right; reflexivity. }
  (* the list of popped Always nodes after a chain that started at [n] *)
  assert (HAgen : forall sG, sframe s2 sG ->
            (forall y, isDone sG y = true -> isDone s2 y = true \/ y = n \/ isAlways (nkind (nd s2 y)) = false) ->
            AlwaysOK sG always2).
  { intros sG F3 Hd3. destruct HA as [HA1 HA2]. split.
    - intros y Hk Hd. rewrite (sf_nkind _ _ F3) in Hk. change (nd s2 y) with (nd s y) in Hk.
      destruct (Hd3 y Hd) as [Hy|[->|Hy]].
      + unfold always2. destruct (isAlways (nkind (nd s2 n))); [apply elem_of_app; left|]; apply HA1; assumption.
      + unfold always2. change (nd s2 n) with (nd s n). rewrite Hk. apply elem_of_app. right. left.
      + change (nd s2 y) with (nd s y) in Hy. congruence.
    - intros y Hy. rewrite (sf_inGraph _ _ F3), (sf_nkind _ _ F3). change (nd s2 y) with (nd s y).
      unfold always2 in Hy. change (nd s2 n) with (nd s n) in Hy.
      destruct (isAlways (nkind (nd s n))) eqn:Ek; [|apply HA2, Hy].
      apply elem_of_app in Hy as [Hy|Hy]; [apply HA2, Hy|]. apply elem_of_list_singleton in Hy as ->. auto. }
  pose proof (cursor_removeMin _ _ _ I Erm) as Hcur2.
  destruct (chain_panic h0 base x fuel s2 n s3 e3 at3 HS2 L2 E3)
    as [(-> & L3 & (F3 & Hd3 & Hu3 & Hc3))|(-> & -> & sG & HSG & LG & Hmk & Hrel & Es3)].
  - (* the chain completed *)
    pose proof (HAgen s3 F3 Hd3) as HA3.
    destruct (IH s3 always2 s' e at_ always' (sf_Struct _ _ F3 HS2) L3 HA3 H)
      as [(-> & L' & F' & HA' & Hu' & Hc' & Hemp)|(-> & -> & sG & HSG & LG & Hmk & FG & HAG & HuG & HcG & Es')].
    + left. split; [reflexivity|]. split; [exact L'|].
      split; [eapply sframe_trans; [exact F2|]; eapply sframe_trans; eauto|]. split; [exact HA'|].
      split; [|split; [intros _; apply Hc', Hc3, Hcur2|exact Hemp]].
      intros y Hy. destruct (Hu' y Hy) as [A1 Hy1]. destruct (Hu3 y Hy1) as [A2 Hy0]. split; [rewrite A1, A2; reflexivity|exact Hy0].
    + right. split; [reflexivity|]. split; [reflexivity|]. exists sG. split; [exact HSG|]. split; [exact LG|].
      split; [exact Hmk|]. split; [eapply sframe_trans; [exact F2|]; eapply sframe_trans; eauto|].
      split; [exact HAG|]. split; [|split; [intros _; apply HcG, Hc3, Hcur2|exact Es']].
      intros y Hy. destruct (HuG y Hy) as [A1 Hy1]. destruct (Hu3 y Hy1) as [A2 Hy0]. split; [rewrite A1, A2; reflexivity|exact Hy0].
  - (* the chain panicked *)
    injection H as <- <- <- <-. right. split; [reflexivity|]. split; [reflexivity|]. exists sG.
    split; [exact HSG|]. split; [exact LG|]. split; [exact Hmk|].
    destruct Hrel as [->|(F3 & Hd3 & Hu3 & Hc3)].
    + split; [exact F2|]. split; [apply (HAgen s2 (sframe_refl s2)); auto|]. split; [auto|]. split; [intros _; exact Hcur2|exact Es3].
    + split; [eapply sframe_trans; eauto|]. split; [exact (HAgen sG F3 Hd3)|].
      split; [exact Hu3|]. split; [intros _; apply Hc3, Hcur2|exact Es3].
Qed.

Lemma node_set_rec2 (y : node) a b : y <| recomputedAt := a |> <| recomputedAt := b |> = y <| recomputedAt := b |>.
Proof. destruct y; reflexivity. Qed.

(** resetting the stamp of a queued node that has a function keeps the quiescent invariant
    (this is where the stamp clause must not demand [changedAt <= recomputedAt]) *)
Lemma ValInv_reset s x s' :
  ValInv s -> inHeap s x = true -> mapKind (nkind (nd s x)) = true ->
  (forall n, n <> x -> nd s' n = nd s n) -> nd s' x = nd s x <| recomputedAt := 0 |> ->
  (forall n, has s' n <-> has s n) -> heap s' = heap s -> binds s' = binds s -> next s' = next s ->
  stabNum s' = stabNum s -> ValInv s'.
Proof.
  intros V Hqx Hmk Hne Hx Hhas Hh Hb Hnx Hk. pose proof (vi_bf _ V) as HBF.
  assert (Hf : forall (A : Type) (g : node -> A) n, (forall y a, g (y <| recomputedAt := a |>) = g y) -> g (nd s' n) = g (nd s n)).
  { intros A g n Hg. destruct (decide (n = x)) as [->|Hn]; [rewrite Hx; apply Hg|rewrite (Hne n Hn); reflexivity]. }
  assert (Hq : forall n, inHeap s' n = inHeap s n) by (intros n; unfold inHeap; rewrite Hh; reflexivity).
  assert (HBF' : BF s').
  { apply (BF_static s s' HBF); try assumption; [| |lia].
    - intros m. repeat split; apply Hf; reflexivity.
    - intros m. left. apply Hf; reflexivity. }
  assert (Hval : forall p, valueOf s' p = valueOf s p).
  { intros p. apply PassProofs.valueOf_ext. intros n. repeat split; apply Hf; reflexivity. }
  constructor.
  - exact HBF'.
  - intros n. pose proof (stamps_node_true _ _ (vi_stamps _ V n)) as Hs. apply stamps_node_true_intro; rewrite Hk.
    + rewrite (Hf _ changedAt) by reflexivity. lia.
    + destruct (decide (n = x)) as [->|Hn]; [rewrite Hx; simpl; lia|rewrite (Hne n Hn); lia].
  - intros n. rewrite (Hf _ inGraph), (Hf _ changedAt) by reflexivity. intros Hg.
    destruct (vi_unreg _ V n Hg) as [H1 H2]. split; [|exact H2].
    destruct (decide (n = x)) as [->|Hn]; [rewrite Hx; reflexivity|rewrite (Hne n Hn); exact H1].
  - intros n Hg Hs. rewrite Hq. destruct (decide (n = x)) as [->|Hn]; [exact Hqx|].
    rewrite (Hf _ inGraph) in Hg by reflexivity. apply (vi_owed _ V n Hg). rewrite <- Hs. symmetry.
    apply isStale_same; [apply Hne, Hn|exact Hk|]. intros p _. apply Hf; reflexivity.
  - intros n Hg Hnq Hgd. rewrite Hq in Hnq. rewrite (Hf _ inGraph) in Hg by reflexivity.
    assert (Hn : n <> x) by (intros ->; congruence).
    assert (Hgd0 : guarded s None n = true).
    { rewrite <- Hgd. unfold guarded. rewrite (Hne n Hn). apply forallb_ext. intros p _.
      rewrite (Hf _ changedAt) by reflexivity. f_equal. f_equal. unfold volq, inW.
      rewrite (Hf _ nkind), Hq, Hk by reflexivity. destruct (nkind (nd s p)) eqn:Kp; try reflexivity.
      destruct (decide (p = x)) as [->|Hp]; [rewrite Kp in Hmk; discriminate|rewrite (Hne p Hp); reflexivity]. }
    pose proof (vi_clean _ V n Hg Hnq Hgd0) as Hc.
    rewrite node_consistent_val in Hc by (apply (bf_kind s HBF)).
    rewrite node_consistent_val by (apply (bf_kind s' HBF')). rewrite (Hne n Hn).
    rewrite (consistent_val_ext s s' n); [exact Hc|apply Hf; reflexivity|apply Hf; reflexivity|].
    intros p _. apply Hval.
Qed.

Theorem pass_panic_retry s x s' e :
  wfb s = true -> ValInv s -> stabilize (panicPlan x) false s = Ok (s', Some e) ->
  e = EPanic x /\ wfb s' = true /\ ValInv s' /\ inHeap s' x = true /\
  exists s'', stabilize [] false s' = Ok (s'', None) /\ consistent s'' = true /\
              observers_agree s'' = true /\ wfb s'' = true /\ ValInv s''.
Proof.
  intros Hwf V H. destruct (wfb_transients _ Hwf) as (Hst & Hsd & Hsr & Hh).
  pose proof (vi_bf _ V) as HBF. pose proof (wfb_Struct s Hwf HBF) as HS.
  destruct (stabilize_decompose _ _ _ _ _ Hst H) as (sL & at_ & always & s2 & s3 & EL & ER & EP & EE).
  unfold passResult in EL. cbv zeta in EL. simpl in EL.
  destruct (pass_start_facts s Hwf V) as (HS1 & L1 & HA1).
  set (s1 := EngineLocal.passStart s) in *.
  destruct (loop_panic _ _ x _ s1 [] sL (Some e) at_ always HS1 L1 HA1 EL)
    as [(? & _)|([= ->] & -> & sG & HSG & LG & Hmk & FG & HAG & HuG & HcG & EsL)]; [discriminate|].
  pose proof (proj1 (li_heap _ _ _ _ LG)) as IG.
  assert (Hgx : inGraph (nd sG x) = true).
  { apply (li_orig _ _ _ _ LG x). left. apply inW_iff; [exact IG|]. right; reflexivity. }
  assert (Hxh : has sG x) by (apply has_inGraph, Hgx).
  assert (Hxq : x ∉ Heap.ids (heap sG)).
  { intros Hq. exact (li_M _ _ _ _ LG x x eq_refl Hq (rtc_refl _ _)). }
  assert (Hxa : x ∉ always).
  { intros Hin. destruct (proj2 HAG x Hin) as [_ Hal]. destruct (nkind (nd sG x)); discriminate. }
  (* node records at the end of the loop *)
  assert (HndL : forall n, nd sL n = if decide (n = x) then nd sG x <| recomputedAt := stabNum sG |> else nd sG n).
  { intros n. rewrite EsL, nd_emit. rewrite nd_upd by exact Hxh. destruct (decide (n = x)) as [->|]; reflexivity. }
  assert (HheapL : heap sL = heap sG) by (rewrite EsL; reflexivity).
  assert (HhL : forall n, height (nd sL n) = height (nd sG n)).
  { intros n. rewrite HndL. destruct (decide (n = x)) as [->|]; reflexivity. }
  destruct (requeue_spec always sL s2) as (OR & IR & MR & HinR & HcR); [| | |exact ER|].
  { rewrite HheapL. exact IG. }
  { intros y Hy. rewrite HhL. apply (st_hnonneg _ HSG). apply (proj2 HAG y Hy). }
  { intros y Hy. rewrite HheapL in *. rewrite HhL. apply (li_heap _ _ _ _ LG), Hy. }
  (* the recovery *)
  unfold recoverPanic in EP.
  set (s2' := upd s2 x (set recomputedAt (fun _ => 0))) in *.
  destruct (heapAddIfNotPresent s2' x) as [s3'| |] eqn:E3; simpl in EP; try discriminate. injection EP as <-.
  assert (Hx2 : has s2 x).
  { apply (oh_has _ _ OR). rewrite EsL. apply has_emit, has_upd, Hxh. }
  assert (Hnd2' : forall n, nd s2' n = if decide (n = x) then nd sG x <| recomputedAt := 0 |> else nd sG n).
  { intros n. unfold s2'. rewrite nd_upd by exact Hx2. destruct (decide (n = x)) as [->|Hn].
    - rewrite (oh_nd _ _ OR), HndL, decide_True by reflexivity. apply node_set_rec2.
    - rewrite (oh_nd _ _ OR), HndL, decide_False by exact Hn. reflexivity. }
  assert (I2' : HeapSpec.inv (heap s2')) by exact IR.
  destruct (heapAddIfNotPresent_spec0 s2' x s3' I2') as (O3 & I3 & M3 & Hin3); [|exact E3|].
  { rewrite Hnd2', decide_True by reflexivity. apply (st_hnonneg _ HSG x Hgx). }
  assert (Hx2q : inHeap s2' x = false).
  { apply inHeap_false_iff0; [exact I2'|]. change (heap s2') with (heap s2). rewrite MR, HheapL. tauto. }
  (* the end of the pass *)
  assert (Hk3 : nkind (nd s3' x) = nkind (nd sG x)).
  { rewrite (oh_nd _ _ O3), Hnd2', decide_True by reflexivity. reflexivity. }
  assert (Eerr : errorHandlers s3' x = emit (EvErrH x) s3').
  { unfold errorHandlers. rewrite Hk3. destruct (nkind (nd sG x)); try discriminate Hmk; reflexivity. }
  rewrite Eerr in EE.
  assert (FsG : forall g : state -> list nid, True) by auto. clear FsG.
  assert (Hsd3 : setDuring (emit (EvErrH x) s3') = [] /\ setRemoved (emit (EvErrH x) s3') = []).
  { cbn. rewrite (oh_setDuring _ _ O3), (oh_setRemoved _ _ O3). unfold s2'. cbn.
    rewrite (oh_setDuring _ _ OR), (oh_setRemoved _ _ OR), EsL. cbn.
    rewrite (sf_setDuring _ _ FG), (sf_setRemoved _ _ FG). auto. }
  destruct (stabilizeEnd_quiet _ _ s' (proj1 Hsd3) (proj2 Hsd3) EE)
    as (En & Eh & Eb & Ex & Ek & Er & Eo & Ea & Ei & Enn & Em & Est & Ehd & Esd & Esr).
  assert (Hnd' : forall n, nd s' n = if decide (n = x) then nd sG x <| recomputedAt := 0 |> else nd sG n).
  { intros n. rewrite (nodes_eq_nd _ _ En n), nd_emit, (oh_nd _ _ O3). apply Hnd2'. }
  assert (Hids' : forall y, y ∈ Heap.ids (heap s') <-> y = x \/ y ∈ Heap.ids (heap sG) \/ y ∈ always).
  { intros y. rewrite Eh. change (heap (emit (EvErrH x) s3')) with (heap s3'). rewrite M3.
    change (heap s2') with (heap s2). rewrite MR, HheapL. tauto. }
  assert (I' : HeapSpec.inv (heap s')) by (rewrite Eh; exact I3).
  (* the virtual state: [sG] with [x] back in the queue *)
  destruct (add_ok (heap sG) x (height (nd sG x)) (st_hnonneg _ HSG x Hgx)) as [wx Ewx].
  set (sV := sG <| heap := wx |>).
  assert (EV : heapAdd sG x = Ok sV) by (unfold heapAdd; rewrite Ewx; reflexivity).
  destruct (heapAdd_spec0 sG x sV IG (proj2 (inHeap_false_iff0 sG x IG) Hxq) (st_hnonneg _ HSG x Hgx) EV)
    as (OV & IV & PV & HinV).
  assert (LV : LInv (Heap.ids (heap s)) (EvPassStart :: log s) sV None).
  { apply (LInv_transport _ _ sG (Some x) sV None LG); try reflexivity; try exact IV.
    - intros q Hq. rewrite HinV. rewrite PV, elem_of_cons in Hq. destruct Hq as [->|Hq].
      + rewrite decide_True by reflexivity. auto.
      + destruct (decide (q = x)) as [->|]; [auto|]. apply (li_heap _ _ _ _ LG), Hq.
    - intros y. apply eq_true_iff_eq. rewrite (inW_iff sV None y IV), (inW_iff sG (Some x) y IG), PV, elem_of_cons.
      split; [intros [[->|?]|?]; auto; discriminate|intros [?|[= ->]]; auto].
    - discriminate.
    - exists []. split; [reflexivity|constructor]. }
  set (sW := sV <| heap := heap s' |> <| stabNum := stabNum sV + 1 |>).
  assert (VW : ValInv sW).
  { apply (finish_ValInv _ _ s sV always sW V (sf_Struct _ _ (sframe_set_heap sG wx) HSG) LV HAG (sf_stabNum _ _ FG)); try reflexivity.
    - intros y Hy. apply (HuG y Hy).
    - intros y Hy. apply (inHeap_iff0 sV y IV) in Hy. rewrite PV, elem_of_cons in Hy.
      apply (inHeap_iff0 sW y I'), Hids'. tauto.
    - intros y Hy. apply (inHeap_iff0 sW y I'), Hids'. auto. }
  assert (Hsfields : binds s' = binds sG /\ next s' = next sG /\ stabNum s' = stabNum sG + 1 /\ reg s' = reg sG /\
            obs s' = obs sG /\ adj s' = adj sG /\ invq s' = invq sG /\ numNodes s' = numNodes sG /\ maxHeight s' = maxHeight sG).
  { rewrite Eb, Ex, Ek, Er, Eo, Ea, Ei, Enn, Em. cbn.
    rewrite (oh_binds _ _ O3), (oh_next _ _ O3), (oh_stabNum _ _ O3), (oh_reg _ _ O3), (oh_obs _ _ O3), (oh_adj _ _ O3),
      (oh_invq _ _ O3), (oh_numNodes _ _ O3), (oh_maxHeight _ _ O3). unfold s2'. cbn.
    rewrite (oh_binds _ _ OR), (oh_next _ _ OR), (oh_stabNum _ _ OR), (oh_reg _ _ OR), (oh_obs _ _ OR), (oh_adj _ _ OR),
      (oh_invq _ _ OR), (oh_numNodes _ _ OR), (oh_maxHeight _ _ OR), EsL. repeat split. }
  destruct Hsfields as (Fb & Fx & Fk & Fr & Fo & Fa & Fi & Fnn & Fm).
  assert (Hhas' : forall n, has s' n <-> has sG n).
  { intros n. unfold has. rewrite En. change (nodes (emit (EvErrH x) s3')) with (nodes s3'). rewrite (oh_nodes _ _ O3).
    fold (has s2' n). unfold s2'. rewrite has_upd, (oh_has _ _ OR), EsL, has_emit. apply has_upd. }
  assert (V' : ValInv s').
  { apply (ValInv_reset sW x s' VW).
    - apply (inHeap_iff0 sW x I'), Hids'. auto.
    - exact Hmk.
    - intros n Hn. rewrite Hnd', decide_False by exact Hn. reflexivity.
    - rewrite Hnd', decide_True by reflexivity. reflexivity.
    - intros n. rewrite Hhas'. reflexivity.
    - reflexivity.
    - exact Fb.
    - exact Fx.
    - exact Fk. }
  assert (Hq'x : inHeap s' x = true) by (apply (inHeap_iff0 s' x I'), Hids'; auto).
  assert (Hwf' : wfb s' = true).
  { destruct (wfb_all _ Hwf) as (W1 & W2 & W3 & W4 & W5 & W6 & W7 & W8 & W9 & W10).
    assert (Hsk : forall n, skel (nd s' n) = skel (nd s n)).
    { intros n. transitivity (skel (nd sG n)); [|exact (sf_nd _ _ FG n)]. rewrite Hnd'.
      destruct (decide (n = x)) as [->|]; [|reflexivity]. unfold skel. destruct (nd sG x); reflexivity. }
    assert (Hhas : forall n, has s' n <-> has s n) by (intros n; rewrite Hhas'; apply (sf_has _ _ FG)).
    assert (Hnx : next s' = next s) by (rewrite Fx; apply (sf_next _ _ FG)).
    assert (Hreg' : forall y, y ∈ Heap.ids (heap s') -> inGraph (nd sG y) = true /\ Heap.hinOf (heap s') y = height (nd sG y)).
    { intros y Hy. rewrite Eh. change (heap (emit (EvErrH x) s3')) with (heap s3'). rewrite Hin3.
      destruct (decide (y = x)) as [->|Hne].
      - rewrite Hx2q, Hnd2', decide_True by reflexivity. auto.
      - apply Hids' in Hy as [?|Hy]; [contradiction|].
        assert (Hy2 : y ∈ Heap.ids (heap s2)) by (apply MR; rewrite HheapL; exact Hy).
        change (heap s2') with (heap s2). rewrite (HinR y Hy2), HhL. split; [|reflexivity].
        destruct Hy as [Hy|Hy]; [apply (li_heap _ _ _ _ LG), Hy|apply (proj2 HAG y Hy)]. }
    apply wfb_intro.
    - rewrite (wt_edges s s' Hsk Hhas Hnx). exact W1.
    - apply (wt_unreg s s' Hsk Hhas Hnx W2). intros n Hq. apply (inHeap_iff0 s' n I') in Hq.
      rewrite Hnd'. destruct (decide (n = x)) as [->|]; [exact Hgx|]. apply (Hreg' n Hq).
    - rewrite (wt_nec_clause s s' Hsk Hhas Hnx). exact W3.
    - rewrite (wt_declared s s' Hsk Hhas Hnx). exact W4.
    - rewrite (wt_heights s s' Hsk Hhas Hnx); [exact W5|]. rewrite Fm. apply (sf_maxHeight _ _ FG).
    - unfold queued_ok. apply andb_true_iff. split.
      + apply heap_inv_b_complete; [exact I'|]. rewrite Eh. change (heap (emit (EvErrH x) s3')) with (heap s3').
        assert (C2 : cursor_ok (heap s2)).
        { apply HcR. rewrite HheapL. apply HcG. unfold queued_ok in W6. apply andb_true_iff in W6 as [W6 _].
          exact (heap_inv_b_cursor _ W6). }
        unfold heapAddIfNotPresent in E3. rewrite Hx2q in E3. apply heapAdd_inv in E3 as (w3 & Ew3 & ->).
        exact (cursor_add _ _ _ _ I2' C2 Ew3).
      + apply forallb_intro. intros y Hy. destruct (Hreg' y Hy) as [Hg Hhi]. apply andb_true_iff. split.
        * rewrite Hnd'. destruct (decide (y = x)) as [->|]; [exact Hgx|exact Hg].
        * apply Z.eqb_eq. rewrite Hhi, Hnd'. destruct (decide (y = x)) as [->|]; reflexivity.
    - rewrite (wt_counts s s' Hsk Hhas Hnx); [exact W7| | |].
      + rewrite Fr. apply (sf_reg _ _ FG).
      + rewrite Fo. apply (sf_obs _ _ FG).
      + rewrite Fnn. apply (sf_numNodes _ _ FG).
    - apply (wt_transients s s' Hsk Hhas Hnx W8); try assumption.
      + rewrite Fa. apply (sf_adj _ _ FG).
      + rewrite Fi. apply (sf_invq _ _ FG).
    - rewrite (wt_observers_clause s s' Hsk Hhas Hnx); [exact W9|]. rewrite Fo. apply (sf_obs _ _ FG).
    - unfold binds_ok. rewrite Fb, (sf_binds _ _ FG). change (binds s1) with (binds s).
      rewrite (proj1 HBF), map_to_list_empty. reflexivity. }
  split; [reflexivity|]. split; [exact Hwf'|]. split; [exact V'|]. split; [exact Hq'x|].
  destruct (pass_total s' Hwf' V') as [s'' H''].
  destruct (pass_all s' s'' Hwf' V' H'') as (A1 & A2 & A3 & A4). exists s''. auto.
Qed.

(** * D. Histories with writing plans and failing node functions *)

(** the operations: those of [PassProofs.static_op], passes whose plan only writes vars, and
    passes in which one node function returns an error *)
Definition isFailPlan (p : plan) : bool :=
  match p with [(_, WFn, AFail _)] => true | _ => false end.

Definition static_op2 (o : op) : bool :=
  static_op o || match o with Stabilize p => writes_only p || isFailPlan p | _ => false end.

(** the result an operation may have: no error, or, for a failing plan, that node's error /
    panic *)
Definition outcome_ok (o : op) (e : option err) : bool :=
  match e with
  | None => true
  | Some (EUser x) => match o with Stabilize [(y, WFn, AFail FErr)] => (x =? y)%nat | _ => false end
  | Some (EPanic x) => match o with Stabilize [(y, WFn, AFail FPanic)] => (x =? y)%nat | _ => false end
  | Some _ => false
  end.

Inductive static_run2 : state -> list op -> state -> Prop :=
| sr2_nil s : static_run2 s [] s
| sr2_cons s o os s1 e s' :
    static_op2 o = true -> op_ok s o = true -> step s o = Ok (s1, e) -> outcome_ok o e = true ->
    wfb s1 = true -> static_run2 s1 os s' -> static_run2 s (o :: os) s'.

Lemma isFailPlan_eq p : isFailPlan p = true -> exists x, p = failPlan x \/ p = panicPlan x.
Proof.
  unfold isFailPlan. destruct p as [|[[x w] a] [|? ?]]; try discriminate; destruct w; try discriminate;
    destruct a as [k| |]; try discriminate. intros _. exists x. destruct k; auto.
Qed.

Lemma outcome_err o e : outcome_ok o (Some e) = true ->
  exists x, (o = Stabilize (failPlan x) /\ e = EUser x) \/ (o = Stabilize (panicPlan x) /\ e = EPanic x).
Proof.
  unfold outcome_ok. destruct e; try discriminate; destruct o; try discriminate;
  destruct p as [|[[y w] a] [|? ?]]; try discriminate; destruct w; try discriminate;
    destruct a as [k| |]; try discriminate; destruct k; try discriminate;
  intros H%Nat.eqb_eq; subst; exists y; auto.
Qed.

(** a pass whose loop ran to its end with an empty queue re-establishes the quiescent invariant *)
Lemma loop_end_ValInv h0 base s sL always s2 s' :
  wfb s = true -> ValInv s ->
  LInv h0 base sL None -> sframe (EngineLocal.passStart s) sL -> AlwaysOK sL always ->
  (forall y, isDone sL y = false -> nd sL y = nd s y) -> Heap.ids (heap sL) = [] ->
  EngineLocal.requeueAlways always sL = Ok s2 -> stabilizeEnd s2 None = Ok s' -> ValInv s'.
Proof.
  intros Hwf V LL FL HAL HuL Hemp ER EE. destruct (wfb_transients _ Hwf) as (Hst & Hsd & Hsr & Hh).
  destruct (pass_start_facts s Hwf V) as (HS1 & _ & _).
  pose proof (sf_Struct _ _ FL HS1) as HSL. pose proof (proj1 (li_heap _ _ _ _ LL)) as IL.
  destruct (requeue_spec always sL s2 IL) as (OR & IR & MR & HinR & HcR); [| |exact ER|].
  { intros y Hy. apply (st_hnonneg _ HSL). apply (proj2 HAL y Hy). }
  { intros y Hy. apply (li_heap _ _ _ _ LL), Hy. }
  destruct (stabilizeEnd_quiet s2 _ s' ltac:(rewrite (oh_setDuring _ _ OR), (sf_setDuring _ _ FL); exact Hsd)
              ltac:(rewrite (oh_setRemoved _ _ OR), (sf_setRemoved _ _ FL); exact Hsr) EE)
    as (En & Eh & Eb & Ex & Ek & _).
  apply (finish_ValInv _ _ s sL always s' V HSL LL HAL (sf_stabNum _ _ FL)).
  - exact HuL.
  - rewrite En. apply (oh_nodes _ _ OR).
  - rewrite Eb. apply (oh_binds _ _ OR).
  - rewrite Ex. apply (oh_next _ _ OR).
  - rewrite Ek, (oh_stabNum _ _ OR). reflexivity.
  - intros y Hy. apply (inHeap_iff0 sL y IL) in Hy. rewrite Hemp in Hy. inv Hy.
  - intros y Hy. unfold inHeap. rewrite Eh. fold (inHeap s2 y). apply (inHeap_iff0 s2 y IR), MR. right. exact Hy.
Qed.

Lemma failPlan_none_ValInv s x s' :
  wfb s = true -> ValInv s -> stabilize (failPlan x) false s = Ok (s', None) -> ValInv s'.
Proof.
  intros Hwf V H. destruct (wfb_transients _ Hwf) as (Hst & _).
  destruct (stabilize_decompose _ _ _ _ _ Hst H) as (sL & at_ & always & s2 & s3 & EL & ER & EP & EE).
  unfold passResult in EL. cbv zeta in EL. simpl in EL.
  destruct (pass_start_facts s Hwf V) as (HS1 & L1 & HA1).
  destruct (loop_fail _ _ x _ _ [] sL None at_ always HS1 L1 HA1 EL) as (LL & FL & HAL & HuL & HcL & He).
  destruct He as [[_ Hemp]|[? _]]; [|discriminate]. injection EP as <-.
  apply (loop_end_ValInv _ _ s sL always s2 s' Hwf V LL FL HAL); try assumption. intros y Hy. apply (HuL y Hy).
Qed.

Lemma panicPlan_none_ValInv s x s' :
  wfb s = true -> ValInv s -> stabilize (panicPlan x) false s = Ok (s', None) -> ValInv s'.
Proof.
  intros Hwf V H. destruct (wfb_transients _ Hwf) as (Hst & _).
  destruct (stabilize_decompose _ _ _ _ _ Hst H) as (sL & at_ & always & s2 & s3 & EL & ER & EP & EE).
  unfold passResult in EL. cbv zeta in EL. simpl in EL.
  destruct (pass_start_facts s Hwf V) as (HS1 & L1 & HA1).
  destruct (loop_panic _ _ x _ _ [] sL None at_ always HS1 L1 HA1 EL)
    as [(_ & LL & FL & HAL & HuL & HcL & Hemp)|(? & _)]; [|discriminate]. injection EP as <-.
  apply (loop_end_ValInv _ _ s sL always s2 s' Hwf V LL FL HAL); try assumption. intros y Hy. apply (HuL y Hy).
Qed.

Theorem step2_ValInv s o s' e :
  wfb s = true -> ValInv s -> static_op2 o = true -> op_ok s o = true ->
  step s o = Ok (s', e) -> outcome_ok o e = true -> wfb s' = true -> ValInv s'.
Proof.
  intros Hwf V Hso Hok H Ho Hwf'.
  destruct e as [e|].
  { (* an error result is only allowed for a failing plan *)
    destruct (outcome_err _ _ Ho) as (y & [[-> ->]|[-> ->]]).
    - apply (pass_fail_retry s y s' _ Hwf V H).
    - apply (pass_panic_retry s y s' _ Hwf V H). }
  unfold static_op2 in Hso. apply orb_true_iff in Hso as [Hso|Hso].
  - exact (step_ValInv s o s' Hwf V Hso Hok H Hwf').
  - destruct o; try discriminate Hso. apply orb_true_iff in Hso as [Hw|Hf].
    + exact (step_writes_ValInv s p s' Hwf V Hw Hok H).
    + destruct (isFailPlan_eq p Hf) as [x [-> | ->]].
      * exact (failPlan_none_ValInv s x s' Hwf V H).
      * exact (panicPlan_none_ValInv s x s' Hwf V H).
Qed.

Lemma static_run2_inv s os s' :
  wfb s = true -> ValInv s -> static_run2 s os s' -> wfb s' = true /\ ValInv s'.
Proof.
  intros Hwf V R. induction R as [s|s o os s1 e s' Hso Hok Hst Hout Hwf1 R IH]; [auto|].
  apply IH; [exact Hwf1|]. exact (step2_ValInv s o s1 e Hwf V Hso Hok Hst Hout Hwf1).
Qed.

Lemma static_run2_split s os1 : forall o os2 s',
  static_run2 s (os1 ++ o :: os2) s' ->
  exists s1 s2 e, static_run2 s os1 s1 /\ static_op2 o = true /\ op_ok s1 o = true /\
                  step s1 o = Ok (s2, e) /\ outcome_ok o e = true /\ wfb s2 = true /\ static_run2 s2 os2 s'.
Proof.
  revert s. induction os1 as [|o1 os1 IH]; intros s o os2 s' R; simpl in R.
  - inv R. exists s, s1, e. split; [constructor|auto 10].
  - inv R. match goal with HR : static_run2 _ (os1 ++ _) _ |- _ =>
             destruct (IH _ _ _ _ HR) as (t1 & t2 & e2 & R1 & Hrest) end.
    exists t1, t2, e2. split; [|exact Hrest]. econstructor; eauto.
Qed.

(** C01 / C07 / C12 for histories: whatever writes and failures the earlier passes had, every
    plan-free pass of the history succeeds and leaves every registered node locally consistent
    and every observer reading the from-scratch value *)
Theorem static_history2_consistent s0 os1 os2 s' :
  wfb s0 = true -> ValInv s0 -> static_run2 s0 (os1 ++ Stabilize [] :: os2) s' ->
  exists s1 s2, static_run2 s0 os1 s1 /\ step s1 (Stabilize []) = Ok (s2, None) /\
                consistent s2 = true /\ observers_agree s2 = true /\ wfb s2 = true /\ ValInv s2.
Proof.
  intros Hwf V R. destruct (static_run2_split _ _ _ _ _ R) as (s1 & s2 & e & R1 & Hso & Hok & Hst & Hout & Hwf2 & _).
  destruct (static_run2_inv _ _ _ Hwf V R1) as [Hwf1 V1].
  destruct (pass_total s1 Hwf1 V1) as [s2' H2]. cbn [step] in Hst. rewrite H2 in Hst. injection Hst as <- <-.
  exists s1, s2'. split; [exact R1|]. split; [exact H2|].
  destruct (pass_all s1 s2' Hwf1 V1 H2) as (Hc & Hw & V2 & Ho). auto.
Qed.

Fixpoint static_run2_b (s : state) (os : list op) : option state :=
  match os with
  | [] => Some s
  | o :: os =>
    if static_op2 o && op_ok s o then
      match step s o with
      | Ok (s1, e) => if outcome_ok o e && wfb s1 then static_run2_b s1 os else None
      | _ => None
      end
    else None
  end.

Lemma static_run2_b_sound os : forall s s', static_run2_b s os = Some s' -> static_run2 s os s'.
Proof.
  induction os as [|o os IH]; intros s s' H; simpl in H.
  - injection H as <-. constructor.
  - destruct (static_op2 o && op_ok s o) eqn:E1; [|discriminate]. apply andb_true_iff in E1 as [E1 E2].
    destruct (step s o) as [[s1 e]| |] eqn:E3; try discriminate.
    destruct (outcome_ok o e && wfb s1) eqn:E4; [|discriminate]. apply andb_true_iff in E4 as [E4 E5].
    econstructor; eauto.
Qed.

(** an example history: the history of [ex_ops], a pass in which the function of node 4 fails, a
    pass whose plan writes a var, and a plan-free pass *)
Definition ex_history2 : list op :=
  ex_ops ++ [Stabilize (failPlan 4); Stabilize [(9%nat, WFn, ASet 0%nat 8)]] ++ Stabilize [] :: [].

Lemma ex_history2_runs : exists s', static_run2 (init 64) ex_history2 s'.
Proof.
  assert (H : match static_run2_b (init 64) ex_history2 with Some _ => true | None => false end = true)
    by (vm_compute; reflexivity).
  destruct (static_run2_b (init 64) ex_history2) as [s'|] eqn:E; [|discriminate H].
  exists s'. apply static_run2_b_sound. exact E.
Qed.

(** example: in [ex_pre] the function of node 4 panics; and a history with a panicking pass, a
    failing pass and a plan-free pass *)
Definition ex_ppost : state :=
  match stabilize (panicPlan 4) false ex_pre with Ok (s, Some _) => s | _ => init 0 end.
Lemma ex_ppass : stabilize (panicPlan 4) false ex_pre = Ok (ex_ppost, Some (EPanic 4%nat)).
Proof.
  assert (H : match stabilize (panicPlan 4) false ex_pre with Ok (_, Some (EPanic 4%nat)) => true | _ => false end = true)
    by (vm_compute; reflexivity).
  unfold ex_ppost. destruct (stabilize (panicPlan 4) false ex_pre) as [[s [e|]]| |]; try discriminate H.
  destruct e; try discriminate H. destruct n as [|[|[|[|[|n]]]]]; try discriminate H. reflexivity.
Qed.

Definition ex_history3 : list op :=
  ex_ops ++ [Stabilize (panicPlan 4); Stabilize (failPlan 4)] ++ Stabilize [] :: [].

Lemma ex_history3_runs : exists s', static_run2 (init 64) ex_history3 s'.
Proof.
  assert (H : match static_run2_b (init 64) ex_history3 with Some _ => true | None => false end = true)
    by (vm_compute; reflexivity).
  destruct (static_run2_b (init 64) ex_history3) as [s'|] eqn:E; [|discriminate H].
  exists s'. apply static_run2_b_sound. exact E.
Qed.
