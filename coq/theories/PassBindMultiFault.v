(** C07 / C12 on graphs with binds: plans with SEVERAL faults (and writes) in one serial pass.
    The first fault that is reached is the error of the pass; the invocations of the others are not
    reached (the serial pass stops at the first error); the conclusions are those of the
    single-fault theorems.  Which fault fires at a recompute is decided by the node's kind and the
    plan alone ([fireK]): the first [AFail] among the plan's actions for the cutoff function of a
    cutoff node, for the function of a Map / Map2 / MapN node or of a bind. *)
From incr Require Import Base Heap HeapSpec HeapProofs EngineDefs Engine EngineRun EngineWf Spec EngineLemmas EngineLocal
     EngineInv EngineInvProofs PassInv PassProofs PassPlanProofs PassBind PassBindProofs PassBindSwap PassBindSwapProofs
     PassBindSwapStep PassBindOps PassBindFault PassBindWrites PassBindTotal PassBindMixed PassBindFaultGen.
From incr Require Import SpecProofs.

Local Arguments valueOf : simpl never.

(** * 1. A recompute under a plan of faults is a recompute under a plan with one fault, or none *)
Definition fireK (q : plan) (k : kind) (m : nid) : option (which * faultkind) :=
  match k with
  | KCutoff _ => match firstFault (actions_of q m WCut) with Some f => Some (WCut, f) | None => None end
  | KMap _ | KMap2 _ | KMapN _ | KBindLhs _ =>
    match firstFault (actions_of q m WFn) with Some f => Some (WFn, f) | None => None end
  | _ => None
  end.

Definition onePlan (m : nid) (o : option (which * faultkind)) : plan :=
  match o with Some (w, f) => [(m, w, AFail f)] | None => [] end.

Lemma actions_one m w f w' : actions_of [(m, w, AFail f)] m w' = if which_eqb w' w then [AFail f] else [].
Proof. unfold actions_of. simpl. rewrite Nat.eqb_refl. simpl. destruct (which_eqb w' w); reflexivity. Qed.

Lemma nowrites_actions q m w : nowrites q -> Forall (fun a => isFail a = true) (actions_of q m w).
Proof.
  intros Hq. rewrite <- Hq, actions_of_fo. apply Forall_forall. intros a Ha. apply filter_In in Ha. apply Ha.
Qed.

Lemma invoke_nowrites q t m w : nowrites q ->
  invoke q t m w = match firstFault (actions_of q m w) with
                   | Some FErr => Ok (emit (EvFault m w FErr) t, Some (EUser m))
                   | Some FPanic => Ok (emit (EvFault m w FPanic) t, Some (EPanic m))
                   | None => Ok (t, None)
                   end.
Proof.
  intros Hq. unfold invoke, applyActions. change (rfold _ (actions_of q m w) (t, None)) with (rfold astep (actions_of q m w) (t, None)).
  rewrite (applyActions_nowrites _ (nowrites_actions q m w Hq)). cbn [rbind].
  destruct (actions_of q m w) as [|a l] eqn:E; [reflexivity|].
  pose proof (nowrites_actions q m w Hq) as Hall. rewrite E in Hall. inversion Hall as [|? ? Ha _]; subst.
  destruct a; try discriminate Ha. reflexivity.
Qed.

Lemma nowrites_one m w f : nowrites [(m, w, AFail f)].
Proof. reflexivity. Qed.

Lemma bindLhs_invoke_eq fuel p q s b :
  (forall t, invoke p t b WFn = invoke q t b WFn) -> bindLhsStabilize fuel p s b = bindLhsStabilize fuel q s b.
Proof. intros H. unfold bindLhsStabilize. cbv zeta. rewrite H. reflexivity. Qed.

Lemma rns_invoke_eq fuel p q s m :
  (cutKind (nkind (nd s m)) = true -> forall t, invoke p t m WCut = invoke q t m WCut) ->
  (fnKind (nkind (nd s m)) = true -> forall t, invoke p t m WFn = invoke q t m WFn) ->
  (forall b, nkind (nd s m) = KBindLhs b -> b = m) ->
  recomputeNodeSerial fuel p s m = recomputeNodeSerial fuel q s m.
Proof.
  intros Hc Hf Hb. rewrite !recomputeNodeSerial_unfold. cbv zeta.
  set (s0 := upd s m (set recomputedAt (fun _ => stabNum s))).
  assert (Hmc : maybeCutoff p s0 m (nd s m) = maybeCutoff q s0 m (nd s m)).
  { unfold maybeCutoff. destruct (nkind (nd s m)); try reflexivity. rewrite (Hc eq_refl s0). reflexivity. }
  rewrite Hmc. destruct (maybeCutoff q s0 m (nd s m)) as [[[s1 e1] cut]| |] eqn:E1; simpl; try reflexivity.
  destruct e1; [reflexivity|]. destruct cut; [reflexivity|].
  assert (Hk1 : nkind (nd s1 m) = nkind (nd s m)).
  { apply maybeCutoff_spec in E1 as (V1 & _). destruct (vps_fields _ _ (V1 m)) as (-> & _).
    apply (nd_upd_proj nkind). reflexivity. }
  assert (Hsn : stabilizeNode fuel p s1 m = stabilizeNode fuel q s1 m).
  { unfold stabilizeNode. rewrite Hk1. unfold fnKind in Hf.
    destruct (nkind (nd s m)) eqn:K; try reflexivity; try (rewrite (Hf eq_refl s1); reflexivity).
    rewrite (Hb b eq_refl). apply bindLhs_invoke_eq. apply Hf. reflexivity. }
  rewrite Hsn. reflexivity.
Qed.

Lemma rns_fire fuel q s m : nowrites q ->
  (forall b, nkind (nd s m) = KBindLhs b -> b = m) ->
  recomputeNodeSerial fuel q s m = recomputeNodeSerial fuel (onePlan m (fireK q (nkind (nd s m)) m)) s m.
Proof.
  intros Hq Hb. apply rns_invoke_eq; [| |exact Hb].
  - intros Hc t. rewrite (invoke_nowrites q t m WCut Hq). unfold fireK.
    destruct (nkind (nd s m)); try discriminate Hc.
    destruct (firstFault (actions_of q m WCut)) as [ff|] eqn:Ef; cbn [onePlan].
    + rewrite (invoke_nowrites _ t m WCut (nowrites_one m WCut ff)), actions_one. cbn. reflexivity.
    + reflexivity.
  - intros Hf t. rewrite (invoke_nowrites q t m WFn Hq). unfold fireK.
    destruct (nkind (nd s m)); try discriminate Hf;
      (destruct (firstFault (actions_of q m WFn)) as [ff|] eqn:Ef; cbn [onePlan];
       [rewrite (invoke_nowrites _ t m WFn (nowrites_one m WFn ff)), actions_one; cbn; reflexivity|reflexivity]).
Qed.

Lemma fireK_kind q k m w f : fireK q k m = Some (w, f) ->
  (w = WFn /\ fnKind k = true /\ AFail f ∈ actions_of q m WFn) \/ (w = WCut /\ cutKind k = true /\ AFail f ∈ actions_of q m WCut).
Proof.
  assert (FF : forall acts f0, firstFault acts = Some f0 -> AFail f0 ∈ acts).
  { induction acts as [|a acts IH]; intros f0 E; [discriminate|]. destruct a; simpl in E;
      [injection E as ->; left|right; apply IH, E|right; apply IH, E]. }
  unfold fireK. destruct k; try discriminate;
    try (destruct (firstFault (actions_of q m WFn)) as [g0|] eqn:E; [|discriminate]; intros [= <- <-]; left; auto).
  destruct (firstFault (actions_of q m WCut)) as [g0|] eqn:E; [|discriminate]. intros [= <- <-]. right. auto.
Qed.

Lemma fireK_notAlways q k m w f : fireK q k m = Some (w, f) -> isAlways k = false.
Proof. destruct k; try discriminate; reflexivity. Qed.
Lemma ValInvB_resetN s x s' :
  ValInvB s -> BFB s -> inHeap s x = true -> isAlways (nkind (nd s x)) = false ->
  (forall n, n <> x -> nd s' n = nd s n) -> nd s' x = nd s x <| recomputedAt := 0 |> ->
  (forall n, has s' n <-> has s n) -> heap s' = heap s -> binds s' = binds s -> next s' = next s ->
  stabNum s' = stabNum s -> ValInvB s'.
Proof.
  intros V HB Hqx Hfk Hne Hx Hhas Hh Hb Hnx Hk.
  assert (Hf : forall (A : Type) (g : node -> A) n, (forall y a, g (y <| recomputedAt := a |>) = g y) -> g (nd s' n) = g (nd s n)).
  { intros A g n Hg. destruct (decide (n = x)) as [->|Hn]; [rewrite Hx; apply Hg|rewrite (Hne n Hn); reflexivity]. }
  assert (Hq : forall n, inHeap s' n = inHeap s n) by (intros n; unfold inHeap; rewrite Hh; reflexivity).
  assert (Hval : forall p, valueOf s' p = valueOf s p).
  { intros p. apply valueOf_ext. intros n. repeat split; apply Hf; reflexivity. }
  assert (Hxna : forall p, nkind (nd s p) = KAlways -> p <> x).
  { intros p K ->. rewrite K in Hfk. discriminate. }
  assert (Hgd : forall n, n <> x -> guarded s' None n = guarded s None n).
  { intros n Hn. unfold guarded. rewrite (Hne n Hn). apply forallb_ext. intros p _.
    rewrite (Hf _ changedAt) by reflexivity. f_equal. f_equal. unfold volq, inW.
    rewrite (Hf _ nkind), Hq, Hk by reflexivity. destruct (nkind (nd s p)) eqn:Kp; try reflexivity.
    rewrite (Hne p (Hxna p Kp)). reflexivity. }
  assert (Hkpos : 1 <= stabNum s) by (pose proof (stamps_node_true _ _ (vb_stamps _ V 0%nat)); lia).
  constructor.
  - intros n y E. assert (Hn : has s n) by (apply Hhas; exists y; exact E). destruct Hn as [y0 E0].
    rewrite <- (nd_lookup _ _ _ E). rewrite (shape_node_ext n (nd s n) (nd s' n)); try (apply Hf; reflexivity).
    rewrite (nd_lookup _ _ _ E0). exact (vb_shape _ V n y0 E0).
  - intros n. pose proof (stamps_node_true _ _ (vb_stamps _ V n)) as Hs. apply stamps_node_true_intro; rewrite Hk.
    + rewrite (Hf _ changedAt) by reflexivity. lia.
    + destruct (decide (n = x)) as [->|Hn]; [rewrite Hx; simpl; lia|rewrite (Hne n Hn); lia].
  - intros n. rewrite (Hf _ inGraph), (Hf _ valid), (Hf _ changedAt) by reflexivity. intros Hg Hv.
    destruct (vb_unreg _ V n Hg Hv) as [H1 H2]. split; [|exact H2].
    destruct (decide (n = x)) as [->|Hn]; [rewrite Hx; reflexivity|rewrite (Hne n Hn); exact H1].
  - intros n Hg Hs. rewrite Hq. destruct (decide (n = x)) as [->|Hn]; [exact Hqx|].
    rewrite (Hf _ inGraph) in Hg by reflexivity. apply (vb_owed _ V n Hg). rewrite <- Hs. symmetry.
    apply isStale_same; [apply Hne, Hn|exact Hk|]. intros p _. apply Hf; reflexivity.
  - intros n Hg Hnq Hgd'. rewrite Hq in Hnq. rewrite (Hf _ inGraph) in Hg by reflexivity.
    assert (Hn : n <> x) by (intros ->; congruence).
    rewrite (Hgd n Hn) in Hgd'. rewrite (Hne n Hn).
    rewrite (consistent_valB_ext s s' n _ HB Hb); [exact (vb_clean _ V n Hg Hnq Hgd')| | |].
    + apply Hf; reflexivity.
    + apply Hf; reflexivity.
    + intros p _. apply Hval.
  - intros b Hg K Hnq Hgd'. rewrite Hq in Hnq. rewrite (Hf _ inGraph) in Hg by reflexivity.
    rewrite (Hf _ nkind) in K by reflexivity.
    assert (Hn : b <> x) by (intros ->; congruence).
    rewrite (Hgd b Hn) in Hgd'.
    rewrite (matchesOK_ext s s' b Hb Hnx); [exact (vb_match _ V b Hg K Hnq Hgd')| | |].
    + intros n. repeat split; apply Hf; reflexivity.
    + intros n _. apply Hf; reflexivity.
    + apply Hval.
Qed.


Lemma finish_panicN x always sG sL s2 s3 s' :
  Tplain sG -> PInv sG -> LInvC sG (Some x) -> inGraph (nd sG x) = true -> isAlways (nkind (nd sG x)) = false ->
  AW sG always -> panickedTo sG x sL -> requeueAlways always sL = Ok s2 ->
  recoverPanic s2 (Some (EPanic x)) x = Ok s3 -> stabilizeEnd s3 (Some (EPanic x)) = Ok s' ->
  ValInvB s' /\ binds s' = binds sG /\ inHeap s' x = true.
Proof.
  intros TG PG LG HgG HnaG HAG KG ER EP EE.
  destruct (PInv_heap sG PG) as [IG HqG]. pose proof (PInv_Struct sG PG) as HSG.
  pose proof (has_inGraph _ _ HgG) as Hxh.
  assert (Hxq : x ∉ Heap.ids (heap sG)).
  { intros Hq. exact (lc_M _ _ LG x x eq_refl Hq (rtc_refl _ _)). }
  destruct (pk_fields _ _ _ KG) as (Kn & Kk & Ksd & Ksr).
  (* node records at the end of the loop *)
  assert (HndL : forall n, nd sL n = if decide (n = x) then nd sG x <| recomputedAt := stabNum sG |> else nd sG n).
  { intros n. destruct (decide (n = x)) as [->|Hn]; [apply (pk_self _ _ _ KG)|apply (pk_other _ _ _ KG n Hn)]. }
  assert (HhL : forall n, height (nd sL n) = height (nd sG n)).
  { intros n. rewrite HndL. destruct (decide (n = x)) as [->|]; reflexivity. }
  assert (IL : HeapSpec.inv (heap sL)) by (rewrite (pk_heap _ _ _ KG); exact IG).
  pose proof (requeue_only_heap _ _ _ ER) as OR.
  destruct (requeue_mem always sL s2 IL ER) as (IR & MR & AR).
  (* the recovery *)
  unfold recoverPanic in EP.
  set (s2' := upd s2 x (set recomputedAt (fun _ => 0))) in *.
  destruct (heapAddIfNotPresent s2' x) as [s3'| |] eqn:E3; simpl in EP; try discriminate. injection EP as <-.
  assert (Hx2 : has s2 x) by (apply (oh_has _ _ OR), (pk_has _ _ _ KG), Hxh).
  assert (Hnd2' : forall n, nd s2' n = if decide (n = x) then nd sG x <| recomputedAt := 0 |> else nd sG n).
  { intros n. unfold s2'. rewrite nd_upd by exact Hx2. destruct (decide (n = x)) as [->|Hn].
    - rewrite (oh_nd _ _ OR), HndL, decide_True by reflexivity. apply node_set_rec2.
    - rewrite (oh_nd _ _ OR), HndL, decide_False by exact Hn. reflexivity. }
  assert (I2' : HeapSpec.inv (heap s2')) by exact IR.
  destruct (heapAddIfNotPresent_spec0 s2' x s3' I2') as (O3 & I3 & M3 & _); [|exact E3|].
  { rewrite Hnd2', decide_True by reflexivity. apply (st_hnonneg _ HSG x HgG). }
  assert (Hsd3 : setDuring (errorHandlers s3' x) = [] /\ setRemoved (errorHandlers s3' x) = []).
  { assert (Hsd3' : setDuring s3' = [] /\ setRemoved s3' = []).
    { rewrite (oh_setDuring _ _ O3), (oh_setRemoved _ _ O3). unfold s2'. cbn.
      rewrite (oh_setDuring _ _ OR), (oh_setRemoved _ _ OR), Ksd, Ksr. exact (lc_quiet _ _ LG). }
    unfold errorHandlers. destruct (nkind (nd s3' x)); exact Hsd3'. }
  destruct (stabilizeEnd_quiet _ _ s' (proj1 Hsd3) (proj2 Hsd3) EE) as (En & Eh & Eb & Ex & Ek & _).
  assert (EH : nodes (errorHandlers s3' x) = nodes s3' /\ heap (errorHandlers s3' x) = heap s3' /\
               binds (errorHandlers s3' x) = binds s3' /\ next (errorHandlers s3' x) = next s3' /\
               stabNum (errorHandlers s3' x) = stabNum s3').
  { unfold errorHandlers. destruct (nkind (nd s3' x)); repeat split. }
  destruct EH as (EH1 & EH2 & EH3 & EH4 & EH5).
  assert (Hnd' : forall n, nd s' n = if decide (n = x) then nd sG x <| recomputedAt := 0 |> else nd sG n).
  { intros n. rewrite (nodes_eq_nd _ _ En n), (nodes_eq_nd _ _ EH1 n), (oh_nd _ _ O3). apply Hnd2'. }
  assert (Hheap' : heap s' = heap s3') by (rewrite Eh; exact EH2).
  assert (I' : HeapSpec.inv (heap s')) by (rewrite Hheap'; exact I3).
  assert (Hids' : forall y, y ∈ Heap.ids (heap s') <-> y = x \/ y ∈ Heap.ids (heap s2)).
  { intros y. rewrite Hheap', M3. reflexivity. }
  assert (Hb' : binds s' = binds sG).
  { rewrite Eb, EH3, (oh_binds _ _ O3). unfold s2'. cbn. rewrite (oh_binds _ _ OR). apply (pk_binds _ _ _ KG). }
  assert (Hx' : next s' = next sG).
  { rewrite Ex, EH4, (oh_next _ _ O3). unfold s2'. cbn. rewrite (oh_next _ _ OR). exact Kn. }
  assert (Hk' : stabNum s' = stabNum sG + 1).
  { rewrite Ek, EH5, (oh_stabNum _ _ O3). unfold s2'. cbn. rewrite (oh_stabNum _ _ OR), Kk. reflexivity. }
  assert (Hhas' : forall n, has s' n <-> has sG n).
  { intros n. unfold has. rewrite En, EH1, (oh_nodes _ _ O3). fold (has s2' n). unfold s2'.
    rewrite has_upd, (oh_has _ _ OR). apply (pk_has _ _ _ KG). }
  (* the virtual state: [sG] with [x] back in the queue *)
  destruct (heapAdd_ok_of_height sG x (st_hnonneg _ HSG x HgG)) as [sV EV].
  assert (Hxq' : inHeap sG x = false) by (apply (inHeap_false_iff0 sG x IG), Hxq).
  destruct (heapAdd_spec0 sG x sV IG Hxq' (st_hnonneg _ HSG x HgG) EV) as (OV & IV0 & PV & _).
  assert (PVv : PInv sV) by (apply (PInv_of_soft sG sV PG), (soft_heapAdd sG x sV Hxq' EV)).
  assert (FV : failedTo sG x sV).
  { constructor.
    - apply (oh_nodes _ _ OV).
    - apply (oh_binds _ _ OV).
    - rewrite (oh_next _ _ OV), (oh_stabNum _ _ OV), (oh_setDuring _ _ OV), (oh_setRemoved _ _ OV). auto.
    - apply LQ_oh, OV.
    - exact IV0.
    - intros y. rewrite PV, elem_of_cons. reflexivity.
    - apply (oh_handlers _ _ OV). }
  destruct (failedTo_LInvC sG x sV PG LG FV) as [LV _].
  assert (HAV : AW sV always) by (apply (AW_nodes sG sV always (oh_nodes _ _ OV) (oh_stabNum _ _ OV) HAG)).
  set (sW := sV <| heap := heap s' |> <| stabNum := stabNum sV + 1 |>).
  assert (VW : ValInvB sW).
  { apply (finish_ValInvB sV always sW PVv LV HAV); try reflexivity.
    - intros y Hy. apply (inHeap_iff0 sV y IV0) in Hy. rewrite PV, elem_of_cons in Hy.
      apply (inHeap_iff0 sW y I'), Hids'. destruct Hy as [->|Hy]; [auto|right].
      apply MR. rewrite (pk_heap _ _ _ KG). exact Hy.
    - intros y Hy Hg. apply (inHeap_iff0 sW y I'), Hids'. right. apply AR; [exact Hy|].
      rewrite HhL. rewrite (oh_nd _ _ OV) in Hg. pose proof (st_hnonneg _ HSG y Hg). unfold unset. lia. }
  assert (V' : ValInvB s').
  { apply (ValInvB_resetN sW x s' VW).
    - apply (BFB_nodes sV sW eq_refl eq_refl eq_refl). apply (PInv_BFB sV PVv (lc_shape _ _ LV)).
    - apply (inHeap_iff0 sW x I'), Hids'. auto.
    - change (nd sW x) with (nd sV x). rewrite (oh_nd _ _ OV). exact HnaG.
    - intros n Hn. change (nd sW n) with (nd sV n). rewrite (oh_nd _ _ OV), Hnd', decide_False by exact Hn. reflexivity.
    - change (nd sW x) with (nd sV x). rewrite (oh_nd _ _ OV), Hnd', decide_True by reflexivity. reflexivity.
    - intros n. change (has sW n) with (has sV n). rewrite (oh_has _ _ OV). apply Hhas'.
    - reflexivity.
    - change (binds sW) with (binds sV). rewrite (oh_binds _ _ OV). exact Hb'.
    - change (next sW) with (next sV). rewrite (oh_next _ _ OV). exact Hx'.
    - change (stabNum sW) with (stabNum sV + 1). rewrite (oh_stabNum _ _ OV). exact Hk'. }
  split; [exact V'|]. split; [exact Hb'|]. apply (inHeap_iff0 s' x I'), Hids'. auto.
Qed.

(** * 2. One recompute under a plan of faults *)
Lemma rnsM fuel q s n s1 e1 imm :
  nowrites q -> Tplain s -> PInv s -> LInvC s (Some n) -> inGraph (nd s n) = true ->
  recomputeNodeSerial fuel q s n = Ok (s1, e1, imm) ->
  match fireK q (nkind (nd s n)) n with
  | None => recomputeNodeSerial fuel [] s n = Ok (s1, e1, imm)
  | Some (_, FErr) => e1 = Some (EUser n) /\ imm = None /\ failedTo s n s1 /\ Tplain s1 /\ PInv s1 /\ LInvC s1 None /\
                      inHeap s1 n = true
  | Some (_, FPanic) => e1 = Some (EPanic n) /\ imm = None /\ panickedTo s n s1
  end.
Proof.
  intros Hq TP P L Hg H.
  assert (Hb : forall b, nkind (nd s n) = KBindLhs b -> b = n).
  { intros b K. pose proof (p_kinds _ P n (has_inGraph _ _ Hg)) as Hkk. rewrite K in Hkk. symmetry. apply Hkk. }
  rewrite (rns_fire fuel q s n Hq Hb) in H.
  destruct (fireK q (nkind (nd s n)) n) as [[w f]|] eqn:Ef; cbn [onePlan] in H; [|exact H].
  destruct (fireK_kind q _ n w f Ef) as [(-> & Hf & _)|(-> & Hc & _)]; destruct f.
  - destruct (failed_stepC fuel n s s1 e1 imm TP P L Hg Hf H) as (A & B & C & D & E & F & G). auto 10.
  - exact (panic_stepC fuel n s s1 e1 imm P Hg Hf H).
  - destruct (rns_cutPlan_fail fuel n s s1 e1 imm P Hg Hc H) as (-> & -> & Ff).
    split; [reflexivity|]. split; [reflexivity|]. split; [exact Ff|].
    split; [apply (Tplain_binds s s1 (ft_binds _ _ _ Ff) TP)|].
    destruct (recomputeNodeSerial_spec PT PT_struct bind_spec_holds fuel (cutPlan n FErr) s n s1 _ None Logic.I P eq_refl Hg H)
      as [Hr|[(P' & _) _]]; [destruct Hr; discriminate|].
    split; [exact P'|]. exact (failedTo_LInvC s n s1 P L Ff).
  - exact (rns_cutPlan_panic fuel n s s1 e1 imm P Hg Hc H).
Qed.

Definition beforePanicN (s : state) (x : nid) (always : list nid) (sG s' : state) : Prop :=
  Tplain sG /\ PInv sG /\ LInvC sG (Some x) /\ inGraph (nd sG x) = true /\ isAlways (nkind (nd sG x)) = false /\
  stabNum sG = stabNum s /\ CF s sG /\ AW sG always /\ panickedTo sG x s'.

Definition inPlan (q : plan) (x : nid) (k : faultkind) : Prop := exists w, (x, w, AFail k) ∈ q.

Lemma actions_of_in q m w a : a ∈ actions_of q m w -> (m, w, a) ∈ q.
Proof.
  unfold actions_of. intros H. apply elem_of_list_omap in H as ([[m' w'] a'] & Hin & Hf). cbv beta iota in Hf.
  destruct ((m' =? m)%nat && which_eqb w w') eqn:E; [|discriminate Hf]. injection Hf as Ea. subst a'.
  apply andb_true_iff in E as [E1 E2]. apply Nat.eqb_eq in E1. subst m'.
  assert (w' = w) as -> by (destruct w', w; try discriminate E2; reflexivity). exact Hin.
Qed.

Lemma fireK_inPlan q k m w f : fireK q k m = Some (w, f) -> inPlan q m f.
Proof. intros H. exists w. destruct (fireK_kind q k m w f H) as [(-> & _ & Hin)|(-> & _ & Hin)]; apply actions_of_in, Hin. Qed.

Definition goodEnd (s s' : state) (always : list nid) : Prop :=
  Tplain s' /\ PInv s' /\ LInvC s' None /\ stabNum s' = stabNum s /\ CF s s' /\ AW s' always.

Lemma chainM q (Hq : nowrites q) fuel : forall s n s' e at_ always,
  Tplain s -> PInv s -> LInvC s (Some n) -> inGraph (nd s n) = true ->
  AW s always -> (isAlways (nkind (nd s n)) = true -> n ∈ always) ->
  recomputeChain fuel q s n = Ok (s', e, at_) ->
  rejErr e \/
  (e = None /\ goodEnd s s' always) \/
  (exists x, e = Some (EUser x) /\ inPlan q x FErr /\ goodEnd s s' always /\ inHeap s' x = true) \/
  (exists x, e = Some (EPanic x) /\ inPlan q x FPanic /\ at_ = x /\ exists sG, beforePanicN s x always sG s').
Proof.
  induction fuel as [|fuel IH]; intros s n s' e at_ always TP P L Hg HA Hn H; [discriminate|].
  cbn [recomputeChain] in H.
  destruct (recomputeNodeSerial fuel q s n) as [[[s1 e1] imm]| |] eqn:E1; simpl in H; try discriminate.
  pose proof (rnsM fuel q s n s1 e1 imm Hq TP P L Hg E1) as R.
  destruct (fireK q (nkind (nd s n)) n) as [[w f]|] eqn:Ef.
  - destruct f.
    + destruct R as (-> & -> & F & TP1 & P1 & L1 & Hqn). injection H as <- <- <-. right. right. left. exists n.
      destruct (ft_fields _ _ _ F) as (_ & Fk & _).
      split; [reflexivity|]. split; [exact (fireK_inPlan q _ n w FErr Ef)|]. split; [|exact Hqn].
      split; [exact TP1|]. split; [exact P1|]. split; [exact L1|]. split; [exact Fk|].
      split; [apply CF_binds, (ft_binds _ _ _ F)|exact (AW_nodes s s1 always (ft_nodes _ _ _ F) Fk HA)].
    + destruct R as (-> & -> & K). injection H as <- <- <-. right. right. right. exists n.
      split; [reflexivity|]. split; [exact (fireK_inPlan q _ n w FPanic Ef)|]. split; [reflexivity|]. exists s.
      split; [exact TP|]. split; [exact P|]. split; [exact L|]. split; [exact Hg|].
      split; [exact (fireK_notAlways q _ n w FPanic Ef)|]. split; [reflexivity|].
      split; [apply CF_binds; reflexivity|]. split; [exact HA|exact K].
  - clear E1. rename R into E1. pose proof (E_rns _ _ _ _ _ _ E1) as Ge.
    destruct e1 as [r|].
    { left. exists r. split; [|exact Ge]. destruct imm; injection H as _ <- _; reflexivity. }
    destruct (rnsT fuel s n s1 imm TP P L Hg E1) as (TP1 & P1 & L1 & Hk1 & Himm & C1).
    destruct (rnsT2 fuel s n s1 imm TP P L Hg E1) as (Hd & Hna).
    assert (HA1 : AW s1 always).
    { intros y A B C. destruct (Hd y B C A) as [(X1 & X2 & X3)|[-> X]]; [apply (HA y X3 X1 X2)|apply Hn, X]. }
    destruct imm as [c|].
    + destruct (IH s1 c s' e at_ always TP1 P1 L1 (Himm c eq_refl) HA1) as [Rj|[(-> & G)|[(x & -> & Hip & G & Hqx)|(x & -> & Hip & -> & sG & G)]]];
        [intros Hc; rewrite (Hna c eq_refl) in Hc; discriminate|exact H|left; exact Rj| | |].
      * right. left. split; [reflexivity|]. destruct G as (A1 & A2 & A3 & A4 & A5 & A6).
        split; [exact A1|]. split; [exact A2|]. split; [exact A3|]. split; [congruence|]. split; [eapply CF_trans; eauto|exact A6].
      * right. right. left. exists x. split; [reflexivity|]. split; [exact Hip|]. split; [|exact Hqx]. destruct G as (A1 & A2 & A3 & A4 & A5 & A6).
        split; [exact A1|]. split; [exact A2|]. split; [exact A3|]. split; [congruence|]. split; [eapply CF_trans; eauto|exact A6].
      * right. right. right. exists x. split; [reflexivity|]. split; [exact Hip|]. split; [reflexivity|]. exists sG.
        destruct G as (B1 & B2 & B3 & B4 & B5 & B6 & B7 & B8 & B9).
        split; [exact B1|]. split; [exact B2|]. split; [exact B3|]. split; [exact B4|]. split; [exact B5|].
        split; [congruence|]. split; [eapply CF_trans; eauto|]. split; [exact B8|exact B9].
    + injection H as <- <- <-. right. left. split; [reflexivity|].
      split; [exact TP1|]. split; [exact P1|]. split; [exact L1|]. split; [exact Hk1|]. split; [exact C1|exact HA1].
Qed.

Lemma loopM q (Hq : nowrites q) fuel : forall s always s' e at_ always',
  Tplain s -> PInv s -> LInvC s None -> AW s always ->
  passLoop fuel q s always = Ok (s', e, at_, always') ->
  rejErr e \/
  (e = None /\ goodEnd s s' always' /\ Heap.ids (heap s') = []) \/
  (exists x, e = Some (EUser x) /\ inPlan q x FErr /\ goodEnd s s' always' /\ inHeap s' x = true) \/
  (exists x, e = Some (EPanic x) /\ inPlan q x FPanic /\ at_ = x /\ exists sG, beforePanicN s x always' sG s').
Proof.
  induction fuel as [|fuel IH]; intros s always s' e at_ always' TP P L HA H; [discriminate|].
  cbn [passLoop] in H. destruct (PInv_heap s P) as [I _].
  destruct (Z.leb_spec (Heap.cnt (heap s)) 0) as [Hc|Hc].
  { injection H as <- <- _ <-. right. left. split; [reflexivity|]. split; [|apply cnt_zero_ids; assumption].
    split; [exact TP|]. split; [exact P|]. split; [exact L|]. split; [reflexivity|]. split; [apply CF_binds; reflexivity|exact HA]. }
  destruct (Heap.removeMin (heap s)) as [[n w]|] eqn:Erm; [|discriminate].
  set (s2 := s <| heap := w |>) in *.
  set (always2 := if isAlways (nkind (nd s2 n)) then always ++ [n] else always) in *.
  destruct (recomputeChain fuel q s2 n) as [[[s3 e3] at3]| |] eqn:E3; simpl in H; try discriminate.
  destruct (pop_LInvC s n w P L Erm) as (L2 & P2 & Hgn). fold s2 in L2, P2.
  pose proof (Tplain_binds s s2 eq_refl TP) as TP2.
  assert (HA2 : AW s2 always2).
  { intros y A B C. unfold always2. destruct (isAlways (nkind (nd s2 n))); [apply elem_of_app; left|]; apply (HA y A B C). }
  assert (Hn2 : isAlways (nkind (nd s2 n)) = true -> n ∈ always2).
  { intros E. unfold always2. rewrite E. apply elem_of_app. right. left. }
  assert (C02 : CF s s2) by (apply CF_binds; reflexivity).
  assert (Lift : forall t al, goodEnd s2 t al -> goodEnd s t al).
  { intros t al (A1 & A2 & A3 & A4 & A5 & A6). split; [exact A1|]. split; [exact A2|]. split; [exact A3|].
    split; [exact A4|]. split; [apply (CF_trans s s2 t C02 A5)|exact A6]. }
  destruct (chainM q Hq fuel s2 n s3 e3 at3 always2 TP2 P2 L2 Hgn HA2 Hn2 E3)
    as [Rj|[(-> & G)|[(x & -> & Hip & G & Hqx)|(x & -> & Hip & -> & sG & G)]]].
  - left. destruct Rj as (r & -> & Hr). injection H as _ <- _ _. exists r. auto.
  - destruct G as (TP3 & P3 & L3 & Hk3 & C3 & HA3).
    destruct (IH s3 always2 s' e at_ always' TP3 P3 L3 HA3 H)
      as [Rj|[(-> & G' & Hemp)|[(x & -> & Hip & G' & Hqx)|(x & -> & Hip & -> & sG & G')]]].
    + left. exact Rj.
    + right. left. split; [reflexivity|]. split; [|exact Hemp]. destruct G' as (A1 & A2 & A3 & A4 & A5 & A6).
      split; [exact A1|]. split; [exact A2|]. split; [exact A3|]. split; [rewrite A4, Hk3; reflexivity|].
      split; [apply (CF_trans s s3 s'); [apply (CF_trans s s2 s3 C02 C3)|exact A5]|exact A6].
    + right. right. left. exists x. split; [reflexivity|]. split; [exact Hip|]. split; [|exact Hqx]. destruct G' as (A1 & A2 & A3 & A4 & A5 & A6).
      split; [exact A1|]. split; [exact A2|]. split; [exact A3|]. split; [rewrite A4, Hk3; reflexivity|].
      split; [apply (CF_trans s s3 s'); [apply (CF_trans s s2 s3 C02 C3)|exact A5]|exact A6].
    + right. right. right. exists x. split; [reflexivity|]. split; [exact Hip|]. split; [reflexivity|]. exists sG.
      destruct G' as (B1 & B2 & B3 & B4 & B5 & B6 & B7 & B8 & B9).
      split; [exact B1|]. split; [exact B2|]. split; [exact B3|]. split; [exact B4|]. split; [exact B5|].
      split; [rewrite B6, Hk3; reflexivity|]. split; [apply (CF_trans s s3 sG); [apply (CF_trans s s2 s3 C02 C3)|exact B7]|].
      split; [exact B8|exact B9].
  - injection H as <- <- _ <-. right. right. left. exists x. split; [reflexivity|]. split; [exact Hip|]. split; [apply Lift, G|exact Hqx].
  - injection H as <- <- <- <-. right. right. right. exists x. split; [reflexivity|]. split; [exact Hip|]. split; [reflexivity|]. exists sG.
    destruct G as (B1 & B2 & B3 & B4 & B5 & B6 & B7 & B8 & B9).
    split; [exact B1|]. split; [exact B2|]. split; [exact B3|]. split; [exact B4|]. split; [exact B5|].
    split; [exact B6|]. split; [apply (CF_trans s s2 sG C02 B7)|]. split; [exact B8|exact B9].
Qed.

(** * 3. The pass under a plan of faults *)
Theorem passMF s q s' e :
  nowrites q -> Inv s -> ValInvB s -> Tplain s -> plan_ok s q = true ->
  stabilize q false s = Ok (s', e) -> rejected e = false ->
  Inv s' /\ ValInvB s' /\ Tplain s' /\ CF s s' /\
  ((e = None /\ consistent s' = true) \/
   (exists x k, inPlan q x k /\ e = Some (faultErr x k) /\ inHeap s' x = true)).
Proof.
  intros Hq IV V TP Hpok H Hrej. pose proof (Inv_wfb s IV) as Hwf.
  destruct (wfb_transients _ Hwf) as (Hst & Hsd & Hsr & Hh).
  assert (IV' : Inv s').
  { apply (Inv_step_stabilize s (Stabilize q) s' e IV); try reflexivity; [exact Hpok|exact H| |];
      intros ->; discriminate Hrej. }
  destruct (stabilize_decompose _ _ _ _ _ Hst H) as (sL & at_ & always & s2 & s3 & EL & ER & EP & EE).
  unfold passResult in EL. cbv zeta in EL. simpl in EL.
  destruct (pass_start_factsB s IV V TP) as (TP1 & P1 & L1 & HA1).
  set (s1 := EngineLocal.passStart s) in *.
  assert (C01 : CF s s1) by (apply CF_binds; reflexivity).
  split; [exact IV'|].
  destruct (loopM q Hq _ s1 [] sL e at_ always TP1 P1 L1 HA1 EL)
    as [(r & -> & [-> | ->])|[(-> & G & Hemp)|[(x & -> & Hip & G & HqL)|(x & -> & Hip & -> & sG & G)]]];
    [discriminate Hrej|discriminate Hrej| | |].
  - (* no fault was reached *)
    destruct G as (TPL & PL & LL & HkL & CL & HAL). apply recoverPanic_None in EP as ->.
    destruct (finish_none sL always s2 s' TPL PL LL HAL Hemp ER EE) as (V' & T' & C' & Hc).
    split; [exact V'|]. split; [exact T'|]. split; [|left; auto].
    apply (CF_trans s sL s'); [apply (CF_trans s s1 sL C01 CL)|exact C'].
  - (* an error *)
    destruct G as (TPL & PL & LL & HkL & CL & HAL). injection EP as <-.
    destruct (PInv_heap sL PL) as [IL HqLh].
    pose proof (requeue_only_heap _ _ _ ER) as OR.
    destruct (requeue_mem always sL s2 IL ER) as (IR & MR & AR).
    destruct (stabilizeEnd_quiet s2 _ s' ltac:(rewrite (oh_setDuring _ _ OR); exact (proj1 (lc_quiet _ _ LL)))
                ltac:(rewrite (oh_setRemoved _ _ OR); exact (proj2 (lc_quiet _ _ LL))) EE)
      as (En & Eh & Eb & Ex & Ek & _).
    assert (Hn : nodes s' = nodes sL) by (rewrite En; apply (oh_nodes _ _ OR)).
    assert (Hb : binds s' = binds sL) by (rewrite Eb; apply (oh_binds _ _ OR)).
    assert (Hq' : forall y, y ∈ Heap.ids (heap s2) -> inHeap s' y = true).
    { intros y Hy. unfold inHeap. rewrite Eh. apply (inHeap_iff0 s2 y IR), Hy. }
    assert (V' : ValInvB s').
    { apply (finish_ValInvB sL always s' PL LL HAL Hn Hb).
      - rewrite Ex. apply (oh_next _ _ OR).
      - rewrite Ek, (oh_stabNum _ _ OR). reflexivity.
      - intros y Hy. apply Hq', MR, (inHeap_iff0 sL y IL), Hy.
      - intros y Hy Hg. apply Hq', AR; [exact Hy|]. pose proof (st_hnonneg _ (PInv_Struct sL PL) y Hg). unfold unset. lia. }
    split; [exact V'|]. split; [apply (Tplain_binds sL s' Hb TPL)|].
    split; [apply (CF_trans s sL s'); [apply (CF_trans s s1 sL C01 CL)|apply CF_binds, Hb]|].
    right. exists x, FErr. split; [exact Hip|]. split; [reflexivity|]. apply Hq', MR, (inHeap_iff0 sL x IL), HqL.
  - (* a panic *)
    destruct G as (TG & PG & LG & HgG & HnaG & HkG & CG & HAG & KG).
    destruct (finish_panicN x always sG sL s2 s3 s' TG PG LG HgG HnaG HAG KG ER EP EE) as (V' & Hb' & Hqx).
    split; [exact V'|]. split; [apply (Tplain_binds sG s' Hb' TG)|].
    split; [apply (CF_trans s sG s'); [apply (CF_trans s s1 sG C01 CG)|apply CF_binds, Hb']|].
    right. exists x, FPanic. split; [exact Hip|]. split; [reflexivity|exact Hqx].
Qed.

(** * 4. Any plan: writes and any number of faults *)
Lemma inPlan_fo p x k : inPlan (fo p) x k -> inPlan p x k.
Proof. intros (w & Hin). exists w. unfold fo in Hin. apply elem_of_list_In, filter_In in Hin as [Hin _]. apply elem_of_list_In, Hin. Qed.

Theorem pass_any_plan s p s' e :
  Inv s -> ValInvB s -> Tplain s -> plan_ok s p = true ->
  stabilize p false s = Ok (s', e) -> rejected e = false ->
  Inv s' /\ ValInvB s' /\ Tplain s' /\ CF s s' /\
  (e = None \/ exists x k, inPlan p x k /\ e = Some (faultErr x k) /\ inHeap s' x = true).
Proof.
  intros IV V TP Hpok H Hrej.
  destruct (pass_start_factsB s IV V TP) as (TP1 & P1 & L1 & HA1).
  destruct (pass_mixed_bb s p s' e IV V TP Hpok H Hrej) as (t' & H0 & K).
  { intros tL at_ al ET.
    destruct (loopM (fo p) (nowrites_fo p) _ _ [] tL e at_ al TP1 P1 L1 HA1 ET)
      as [(r & -> & [-> | ->])|[(_ & G & _)|[(x & _ & _ & G & _)|(x & _ & _ & _ & sG & G)]]];
      [discriminate Hrej|discriminate Hrej| | |].
    - destruct G as (_ & _ & LL & _). exact (lc_quiet _ _ LL).
    - destruct G as (_ & _ & LL & _). exact (lc_quiet _ _ LL).
    - destruct G as (_ & _ & LG & _ & _ & _ & _ & _ & KG). destruct (pk_fields _ _ _ KG) as (_ & _ & -> & ->).
      exact (lc_quiet _ _ LG). }
  destruct (passMF s (fo p) t' e (nowrites_fo p) IV V TP (plan_ok_fo s p Hpok) H0 Hrej) as (_ & Vt & Tt & Ct & He).
  destruct (K Vt Tt Ct) as (A & B & C & D & E).
  split; [exact A|]. split; [exact B|]. split; [exact C|]. split; [exact D|].
  destruct He as [[-> _]|(x & k & Hip & -> & Hqx)]; [left; reflexivity|right].
  exists x, k. split; [apply inPlan_fo, Hip|]. split; [reflexivity|apply E, Hqx].
Qed.

(** histories: the bind fragment, and serial passes with ANY well-formed plan *)
Definition isStabPlan (o : op) : bool := match o with Stabilize _ => true | _ => false end.

Fixpoint histN_run (s : state) (os : list op) : option state :=
  match os with
  | [] => Some s
  | o :: os =>
    if histB_op o && parity_op o && op_ok s o && op_clean s o then
      match step s o with
      | Ok (s', None) => histN_run s' os
      | _ => None
      end
    else if isStabPlan o && op_ok s o then
      match step s o with
      | Ok (s', e) => if rejected e then None else histN_run s' os
      | _ => None
      end
    else None
  end.

Lemma stepN_inv s o s' e :
  Inv s -> ValInvB s -> Tplain s -> templates_ok s = true -> isStabPlan o = true -> op_ok s o = true ->
  step s o = Ok (s', e) -> rejected e = false ->
  Inv s' /\ ValInvB s' /\ Tplain s' /\ templates_ok s' = true.
Proof.
  intros IV V TP Ht Ho Hok H Hr. destruct o; try discriminate Ho. simpl in H, Hok.
  destruct (pass_any_plan s p s' e IV V TP Hok H Hr) as (A & B & C & D & _).
  split; [exact A|]. split; [exact B|]. split; [exact C|apply (templates_ok_CF s s' D Ht)].
Qed.

Lemma histN_inv os : forall s0 s,
  Inv s0 -> ValInvB s0 -> Tplain s0 -> templates_ok s0 = true -> histN_run s0 os = Some s ->
  Inv s /\ ValInvB s /\ Tplain s /\ templates_ok s = true.
Proof.
  induction os as [|o os IH]; intros s0 s IV V TP Ht H; simpl in H; [injection H as <-; auto|].
  destruct (histB_op o && parity_op o && op_ok s0 o && op_clean s0 o) eqn:Eo.
  - rewrite !andb_true_iff in Eo. destruct Eo as [[[Ho Hpo] Hok] Hcl].
    destruct (step s0 o) as [[s1 [e|]]| |] eqn:Es; try discriminate.
    destruct (stepB_inv s0 o s1 IV V TP Ho Hok Hcl Es) as (I1 & V1 & T1).
    apply (IH s1 s I1 V1 T1 (stepB_templates s0 o s1 IV V TP Ho Hpo Es Ht) H).
  - destruct (isStabPlan o && op_ok s0 o) eqn:Ef; [|discriminate]. apply andb_true_iff in Ef as [Ef Hok].
    destruct (step s0 o) as [[s1 e]| |] eqn:Es; try discriminate.
    destruct (rejected e) eqn:Er; [discriminate|].
    destruct (stepN_inv s0 o s1 e IV V TP Ht Ef Hok Es Er) as (I1 & V1 & T1 & Ht1). apply (IH s1 s I1 V1 T1 Ht1 H).
Qed.

Lemma histN_split os1 : forall s0 o os2 sf,
  histN_run s0 (os1 ++ o :: os2) = Some sf ->
  exists s1, histN_run s0 os1 = Some s1 /\ histN_run s1 (o :: os2) = Some sf.
Proof.
  induction os1 as [|a os1 IH]; intros s0 o os2 sf H; [exists s0; auto|].
  simpl in H |- *.
  destruct (histB_op a && parity_op a && op_ok s0 a && op_clean s0 a).
  - destruct (step s0 a) as [[s1 [e|]]| |]; try discriminate. apply (IH s1 o os2 sf H).
  - destruct (isStabPlan a && op_ok s0 a); [|discriminate].
    destruct (step s0 a) as [[s1 e]| |]; try discriminate. destruct (rejected e); [discriminate|].
    apply (IH s1 o os2 sf H).
Qed.

Theorem histN_planfree mh os1 os2 sf :
  (0 < mh)%nat -> histN_run (init mh) (os1 ++ Stabilize [] :: os2) = Some sf ->
  exists s1 s2, histN_run (init mh) os1 = Some s1 /\ step s1 (Stabilize []) = Ok (s2, None) /\
    consistent s2 = true /\ observers_agree s2 = true /\ Inv s2 /\ ValInvB s2.
Proof.
  intros Hmh H. destruct (histN_split os1 (init mh) _ os2 sf H) as (s1 & H1 & H2).
  assert (TP0 : Tplain (init mh)) by (intros b r Hr; inversion Hr).
  destruct (histN_inv os1 (init mh) s1 (Inv_init mh Hmh) (ValInvB_init mh) TP0 eq_refl H1) as (I1 & V1 & T1 & Ht1).
  simpl in H2.
  destruct (stabilize [] false s1) as [[s2 [e|]]| |] eqn:Es; try discriminate.
  exists s1, s2. split; [exact H1|]. split; [exact Es|].
  destruct (passS_ValInvB s1 s2 I1 V1 T1 Es) as (V2 & T2 & C2).
  destruct (passS_observers_agree s1 s2 I1 V1 T1 Es (templates_ok_CF s1 s2 C2 Ht1)) as (A & B & C & _).
  auto.
Qed.

(** Example: three faults in one plan -- the bind function (node 3) panics, the cutoff function of node
    2 fails, node 5's function fails -- and a write; the cutoff (lowest) is reached first *)
Definition exN_plan : plan :=
  [(5%nat, WFn, AFail FErr); (3%nat, WFn, AFail FPanic); (2%nat, WCut, ASet 1%nat 9); (2%nat, WCut, AFail FErr)].
Definition exN2_plan : plan := [(5%nat, WFn, AFail FErr); (3%nat, WFn, AFail FPanic)].
Definition exNF_ops : list op :=
  [ NewVar 2 false; NewVar 3 false;
    NewCutoff CEq 0%nat;                                        (* 2 *)
    NewBind [TMap (Aff 1 1) (TOuter 1%nat); TRet 5] 2%nat;      (* lhs-change 3, main 4 *)
    NewMap (Aff 2 0) 4%nat;                                     (* 5 *)
    Observe 5%nat;
    Stabilize [];
    SetVar 0%nat 3;
    Stabilize exN_plan;                                         (* the cutoff function writes var 1, then fails *)
    Stabilize exN2_plan;                                        (* now the bind function is reached first: it panics *)
    Stabilize [] ].

Lemma exNF_runs : exists s, histN_run (init 64) exNF_ops = Some s.
Proof.
  assert (H : match histN_run (init 64) exNF_ops with Some _ => true | None => false end = true)
    by (vm_compute; reflexivity).
  destruct (histN_run (init 64) exNF_ops) as [s|]; [eauto|discriminate H].
Qed.

Lemma exNF_results :
  match histN_run (init 64) (take 8 exNF_ops) with
  | Some s =>
    match stabilize exN_plan false s with
    | Ok (s1, Some (EUser 2%nat)) =>
      (value (nd s1 1%nat) =? 9) && inHeap s1 2%nat &&
      match stabilize exN2_plan false s1 with
      | Ok (s2, Some (EPanic 3%nat)) => inHeap s2 3%nat
      | _ => false
      end
    | _ => false
    end
  | None => false
  end = true.
Proof. vm_compute. reflexivity. Qed.
