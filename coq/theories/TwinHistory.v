(** C11 along histories: a program and its cutoff-free twin (every CutoffEqual replaced by a cutoff
    that never cuts, every VarEqual by a plain Var) read the same values after every pass. *)
From stdpp Require Import sorting.
From incr Require Import Base Heap HeapSpec HeapProofs EngineDefs Engine EngineRun EngineWf Spec SpecProofs Par ParProofs.
From incr Require Import EngineLemmas EngineLocal EngineInv EngineInvProofs PassInv PassProofs PassPlanProofs ParSerial StaticHistory.
From incr Require Export StructCongruence.
Local Ltac inv H := inversion H; subst; clear H.

(** * The twin of a history

    [erase_kind], [erase_op] and [twin_allowed] are defined in [StructCongruence]:
    - [erase_op] replaces [NewCutoff CEq a] by [NewCutoff CNever a] and [NewVar v true] by [NewVar v false];
    - [twin_allowed] excludes parity cutoffs (their held value is an input of the specification, and
      nothing in [ValInv] ties it to the input's value) and Var.Update (it reads the [pending] field,
      which no invariant describes between operations). *)

Definition twin_ok (mh : nat) (os : list op) : bool :=
  hist_ok mh os && hist_ok mh (map erase_op os) && forallb twin_allowed os.

Definition input_kind (k : kind) : bool := match k with KVar _ | KReturn => true | _ => false end.

(** the lock-step relation: what the specification reads *)
Record TW (sA sB : state) : Prop := {
  tw_next : next sB = next sA;
  tw_obs : obs sB = obs sA;
  tw_kind : forall m, nkind (nd sB m) = erase_kind (nkind (nd sA m));
  tw_decl : forall m, decl (nd sB m) = decl (nd sA m);
  tw_val : forall m, input_kind (nkind (nd sA m)) = true -> value (nd sB m) = value (nd sA m);
  tw_nopar : forall m, nkind (nd sA m) <> KCutoff CParity
}.

Lemma mapM_ext_in {A B} (f g : A -> option B) l : (forall a, a ∈ l -> f a = g a) -> mapM f l = mapM g l.
Proof.
  induction l as [|a l IH]; intros H; [reflexivity|]. cbn. rewrite (H a) by left.
  rewrite IH by (intros; apply H; right; assumption). reflexivity.
Qed.

Lemma eval_twin sA sB : TW sA sB -> BF sA -> forall fuel n, eval sB fuel n = eval sA fuel n.
Proof.
  intros T HBF. induction fuel as [|fuel IH]; intros n; [reflexivity|]. cbn [eval].
  rewrite (tw_kind _ _ T n), (tw_decl _ _ T n).
  pose proof (tw_val _ _ T n) as Hv. pose proof (tw_nopar _ _ T n) as Hp. pose proof (bf_kind sA HBF n) as Hb.
  destruct (nkind (nd sA n)) as [[|]| | | | |[| | |]| | |] eqn:Ek; cbn [erase_kind] in *; try discriminate Hb;
    try (rewrite Hv by reflexivity; reflexivity);
    try (destruct (decl (nd sA n)) as [|a [|b [|c l]]]; rewrite ?IH; reflexivity);
    try reflexivity.
  - rewrite (mapM_ext_in (eval sB fuel) (eval sA fuel)) by (intros; apply IH). reflexivity.
  - congruence.
Qed.

(** * What each operation does to the fields the specification reads *)
Definition eff_next (o : op) (s : state) : nat :=
  match o with
  | NewVar _ _ | NewReturn _ | NewMap _ _ | NewMap2 _ _ _ | NewMapN _ _ | NewCutoff _ _ | NewAlways _
  | Observe _ => S (next s)
  | _ => next s
  end.

Definition eff_obs (o : op) (s : state) : gmap nid nid :=
  match o with
  | Observe n => <[next s := n]> (obs s)
  | Unobserve x => delete x (obs s)
  | _ => obs s
  end.

Definition fresh_of (o : op) : option (kind * list nid * Z) :=
  match o with
  | NewVar v e => Some (KVar e, [], v)
  | NewReturn v => Some (KReturn, [], v)
  | NewMap f a => Some (KMap f, [a], 0)
  | NewMap2 f a b => Some (KMap2 f, [a; b], 0)
  | NewMapN f ins => Some (KMapN f, ins, 0)
  | NewCutoff c a => Some (KCutoff c, [a], 0)
  | NewAlways a => Some (KAlways, [a], 0)
  | _ => None
  end.

Definition eff_kind (o : op) (s : state) (m : nid) : kind :=
  match fresh_of o with Some (k, _, _) => if decide (m = next s) then k else nkind (nd s m) | None => nkind (nd s m) end.

Definition eff_decl (o : op) (s : state) (m : nid) : list nid :=
  match fresh_of o with
  | Some (_, d, _) => if decide (m = next s) then d else decl (nd s m)
  | None =>
    match o with
    | AddInput n a => if decide (m = n) then decl (nd s m) ++ [a] else decl (nd s m)
    | RemoveInput n a => if decide (m = n) then (if bool_decide (a ∈ decl (nd s n)) then rm a (decl (nd s m)) else decl (nd s m))
                         else decl (nd s m)
    | _ => decl (nd s m)
    end
  end.

Definition eff_val (o : op) (s : state) (m : nid) : Z :=
  match fresh_of o with
  | Some (_, _, v) => if decide (m = next s) then v else value (nd s m)
  | None => match o with SetVar v x => if decide (m = v) then x else value (nd s m) | _ => value (nd s m) end
  end.

Record Eff (o : op) (s s' : state) : Prop := {
  ef_next : next s' = eff_next o s;
  ef_obs : obs s' = eff_obs o s;
  ef_kind : forall m, nkind (nd s' m) = eff_kind o s m;
  ef_decl : forall m, decl (nd s' m) = eff_decl o s m;
  ef_val : forall m, input_kind (eff_kind o s m) = true -> value (nd s' m) = eff_val o s m
}.

Lemma pass_input_values s s1 n : wfb s = true -> ValInv s -> stabilize [] false s = Ok (s1, None) ->
  input_kind (nkind (nd s n)) = true -> value (nd s1 n) = value (nd s n).
Proof.
  intros Hwf V H Hk. destruct (serial_PassRes s s1 Hwf V H) as [(sL & X & F & _ & _ & OX & -> & _)].
  assert (Hnd : nd (finish X) n = nd sL n) by (apply ParProofs.nd_ext; cbn; apply (oh_nodes _ _ OX)).
  rewrite Hnd, (fin_ni _ _ _ F n). change (nd (passStart s) n) with (nd s n).
  destruct (isDone sL n); [|reflexivity]. unfold stepF, stepCut, stepVal.
  destruct (nkind (nd s n)); try discriminate Hk; reflexivity.
Qed.

Lemma pf_obs s s' : pframe s s' -> obs s' = obs s.
Proof. intros H. apply H. Qed.

Lemma Eff_fresh o s k d v : fresh_of o = Some (k, d, v) ->
  Eff o s (newNode s k d None v).1 -> Eff o s (newNode s k d None v).1.
Proof. auto. Qed.

Lemma Eff_newNode o s k d v : fresh_of o = Some (k, d, v) -> eff_next o s = S (next s) -> eff_obs o s = obs s ->
  Eff o s (newNode s k d None v).1.
Proof.
  intros Hf Hn Ho. unfold newNode. cbn [fst].
  assert (Hnd : forall m, nd (s <| nodes := <[next s := fresh_node k d None v]> (nodes s) |> <| next := S (next s) |>) m =
                          if decide (m = next s) then fresh_node k d None v else nd s m).
  { intros m. unfold nd; cbn. destruct (decide (m = next s)) as [->|Hne]; [rewrite lookup_insert|rewrite lookup_insert_ne by congruence]; reflexivity. }
  constructor.
  - rewrite Hn. reflexivity.
  - rewrite Ho. reflexivity.
  - intros m. unfold eff_kind. rewrite Hf, Hnd. destruct (decide (m = next s)); reflexivity.
  - intros m. unfold eff_decl. rewrite Hf, Hnd. destruct (decide (m = next s)); reflexivity.
  - intros m _. unfold eff_val. rewrite Hf, Hnd. destruct (decide (m = next s)); reflexivity.
Qed.

(* operations that leave kinds, declared inputs and values alone *)
Lemma Eff_static o s s' : fresh_of o = None ->
  (forall m, nkind (nd s' m) = nkind (nd s m) /\ decl (nd s' m) = eff_decl o s m /\
             (input_kind (nkind (nd s m)) = true -> value (nd s' m) = eff_val o s m)) ->
  next s' = eff_next o s -> obs s' = eff_obs o s -> Eff o s s'.
Proof.
  intros Hf Hm Hn Ho. constructor; try assumption.
  - intros m. unfold eff_kind. rewrite Hf. apply Hm.
  - intros m. apply Hm.
  - intros m. unfold eff_kind. rewrite Hf. apply Hm.
Qed.

Lemma Eff_observe s n s' : wfb s = true -> ValInv s -> observe s n = Ok (s', None) -> Eff (Observe n) s s'.
Proof.
  intros Hwf V H. pose proof (vi_bf _ V) as HBF.
  assert (Hiq : invq s = []).
  { destruct (wfb_all _ Hwf) as (_ & _ & _ & _ & _ & _ & _ & Ht & _). unfold transients_empty in Ht.
    rewrite !andb_true_iff in Ht. destruct Ht as [[[[[[[_ Hi] _] _] _] _] _] _]. apply bool_decide_eq_true in Hi. exact Hi. }
  unfold observe in H.
  set (s1 := s <| next := S (next s) |> <| obs := <[next s := n]> (obs s) |> <| numNodes := numNodes s + 1 |>) in *.
  set (s2 := upd s1 n (set observers (fun l => l ++ [next s]))) in *.
  assert (G2 : gfr s1 s2) by (apply gfr_upd; intros x; repeat split).
  assert (Hfin : gfr s2 s' /\ obs s' = obs s2).
  { destruct (isNecessary (nd s1 n)).
    - apply ok_inv in H as [-> _]. split; [apply gfr_refl|reflexivity].
    - apply ebind_inv in H as (s3 & e3 & E3 & [[-> H]|(Hne & _ & He)]); [|congruence].
      destruct (BN_spec _ _ _ _ _ E3) as [G3 _]. apply lift_inv in H as [H _].
      assert (s' = s3) as ->.
      { apply (propagateInvalidity_nil _ _ _ (g_invq _ _ (gfr_trans _ _ _ G2 G3) (fun m => bf_valid s HBF m) Hiq) H). }
      split; [exact G3|]. apply pf_obs. eapply fr_becameNecessaryRecursive; [exact pframe_hyps|exact E3]. }
  destruct Hfin as [G3 Ho3]. pose proof (gfr_trans _ _ _ G2 G3) as G.
  apply Eff_static; [reflexivity| | |].
  - intros m. destruct (g_static _ _ G m) as (E1 & E2 & _ & _ & E5 & _). change (nd s1 m) with (nd s m) in *.
    split; [exact E1|]. split; [exact E2|]. intros _. exact E5.
  - destruct (g_fields _ _ G) as (_ & -> & _). reflexivity.
  - rewrite Ho3. reflexivity.
Qed.

Lemma Eff_unobserve s x s' : unobserve s x = Ok s' -> Eff (Unobserve x) s s'.
Proof.
  intros H. unfold unobserve in H. destruct (obs s !! x) as [n|] eqn:Ex.
  - set (s1 := s <| obs := delete x (obs s) |> <| numNodes := numNodes s - 1 |> <| handlers := rm x (handlers s) |>) in *.
    set (s2 := upd s1 n (set observers (rm x))) in *.
    pose proof (sfr_checkIfUnnecessary _ _ _ _ H) as Z.
    assert (Ho : obs s' = obs s2) by (apply pf_obs; eapply fr_checkIfUnnecessary; [exact pframe_hyps|exact H]).
    apply Eff_static; [reflexivity| | |].
    + intros m. destruct (z_static _ _ Z m) as (E1 & E2 & _ & _ & E5).
      assert (Hs2 : nkind (nd s2 m) = nkind (nd s m) /\ decl (nd s2 m) = decl (nd s m) /\ value (nd s2 m) = value (nd s m)).
      { unfold s2. rewrite (ParProofs.nd_upd_proj nkind), (ParProofs.nd_upd_proj decl), (ParProofs.nd_upd_proj value) by reflexivity. auto. }
      destruct Hs2 as (A1 & A2 & A3). split; [congruence|]. split; [cbn; congruence|]. intros _. cbn. congruence.
    + destruct (z_fields _ _ Z) as (_ & -> & _). reflexivity.
    + rewrite Ho. reflexivity.
  - injection H as <-. apply Eff_static; [reflexivity| | reflexivity|].
    + intros m. auto.
    + cbn. rewrite delete_notin by exact Ex. reflexivity.
Qed.

Lemma wfb_invq s : wfb s = true -> invq s = [].
Proof.
  intros Hwf. destruct (wfb_all _ Hwf) as (_ & _ & _ & _ & _ & _ & _ & Ht & _). unfold transients_empty in Ht.
  rewrite !andb_true_iff in Ht. destruct Ht as [[[[[[[_ Hi] _] _] _] _] _] _]. apply bool_decide_eq_true in Hi. exact Hi.
Qed.

Lemma Eff_setStale_static s v s' : setStale s v = Ok s' ->
  (forall m, nkind (nd s' m) = nkind (nd s m) /\ decl (nd s' m) = decl (nd s m) /\ value (nd s' m) = value (nd s m)) /\
  next s' = next s /\ obs s' = obs s.
Proof.
  intros H. destruct (setStale_spec _ _ _ H) as ([G _] & _).
  split; [|split; [apply (g_fields _ _ G)|apply pf_obs; eapply fr_setStale; [exact pframe_hyps|exact H]]].
  intros m. destruct (g_static _ _ G m) as (E1 & E2 & _ & _ & E5 & _). auto.
Qed.

Lemma Eff_setVar s v x s' : wfb s = true -> isVar s v = true -> varSet s v x = Ok s' -> Eff (SetVar v x) s s'.
Proof.
  intros Hwf Hv H. destruct (wfb_transients s Hwf) as (Hst & _). destruct (isVar_true _ _ Hv) as [Hhas _].
  unfold varSet in H.
  destruct (_ && negb _ && (value (nd s v) =? x)) eqn:Ec.
  - injection H as <-. apply andb_true_iff in Ec as [_ Ev]. apply Z.eqb_eq in Ev.
    apply Eff_static; try reflexivity. intros m. split; [reflexivity|]. split; [reflexivity|]. intros _.
    cbn. destruct (decide (m = v)) as [->|]; [exact Ev|reflexivity].
  - rewrite Hst in H. cbn [Z.eqb] in H. set (s2 := upd s v (set value (fun _ => x))) in *.
    assert (H2 : forall m, nkind (nd s2 m) = nkind (nd s m) /\ decl (nd s2 m) = decl (nd s m)).
    { intros m. unfold s2. rewrite (ParProofs.nd_upd_proj nkind), (ParProofs.nd_upd_proj decl) by reflexivity. auto. }
    assert (V2 : forall m, value (nd s2 m) = eff_val (SetVar v x) s m).
    { intros m. cbn. unfold s2. destruct (decide (m = v)) as [->|Hne].
      - rewrite ParProofs.nd_upd_eq by exact Hhas. reflexivity.
      - rewrite ParProofs.nd_upd_ne by exact Hne. reflexivity. }
    assert (Hrest : (forall m, nkind (nd s' m) = nkind (nd s2 m) /\ decl (nd s' m) = decl (nd s2 m) /\ value (nd s' m) = value (nd s2 m)) /\
                    next s' = next s2 /\ obs s' = obs s2).
    { destruct (isNecessary (nd s2 v)); [apply (Eff_setStale_static _ _ _ H)|injection H as <-; auto]. }
    destruct Hrest as (Hm & Hn & Ho). apply Eff_static; [reflexivity| |rewrite Hn; reflexivity|rewrite Ho; reflexivity].
    intros m. destruct (Hm m) as (A1 & A2 & A3). destruct (H2 m) as [B1 B2].
    split; [congruence|]. split; [cbn; congruence|]. intros _. rewrite A3. apply V2.
Qed.

Lemma Eff_addInput s n a s' : wfb s = true -> ValInv s -> isMapN s n = true ->
  addInput s n a = Ok (s', None) -> Eff (AddInput n a) s s'.
Proof.
  intros Hwf V Hmn H. pose proof (vi_bf _ V) as HBF. destruct (isMapN_true _ _ Hmn) as [Hn _].
  pose proof (wfb_invq s Hwf) as Hiq.
  unfold addInput in H. set (s1 := upd s n (set decl (fun l => l ++ [a]))) in *.
  assert (Hnd1 : forall m, nd s1 m = if decide (m = n) then nd s n <| decl := decl (nd s n) ++ [a] |> else nd s m).
  { intros m. unfold s1. rewrite nd_upd by exact Hn. destruct (decide (m = n)) as [->|]; reflexivity. }
  assert (Hrest : gfr s1 s' /\ obs s' = obs s1).
  { destruct (height (nd s1 n) =? unset).
    - apply ok_inv in H as [-> _]. split; [apply gfr_refl|reflexivity].
    - apply ebind_inv in H as (s2 & e2 & E2 & [[-> H]|(Hne & _ & He)]); [|congruence].
      destruct (addChild_spec (opFuel s1) s1 n a s2) as [G2 _]; [| |exact E2|].
      + intros m. rewrite Hnd1. destruct (decide (m = n)) as [->|]; [cbn|]; apply (bf_valid s HBF).
      + exact Hiq.
      + apply lift_inv in H as [H _]. destruct (setStale_spec _ _ _ H) as ([G3 _] & _).
        split; [eapply gfr_trans; eassumption|].
        rewrite (pf_obs s2 s') by (eapply fr_setStale; [exact pframe_hyps|exact H]).
        apply pf_obs. eapply fr_addChild; [exact pframe_hyps|exact E2]. }
  destruct Hrest as [G Ho].
  apply Eff_static; [reflexivity| |destruct (g_fields _ _ G) as (_ & -> & _); reflexivity|rewrite Ho; reflexivity].
  intros m. destruct (g_static _ _ G m) as (E1 & E2 & _ & _ & E5 & _). rewrite E1, E2, E5, Hnd1. cbn.
  destruct (decide (m = n)) as [->|]; auto.
Qed.

Lemma Eff_removeInput s n a s' : isMapN s n = true -> removeInput s n a = Ok s' -> Eff (RemoveInput n a) s s'.
Proof.
  intros Hmn H. destruct (isMapN_true _ _ Hmn) as [Hn _]. unfold removeInput in H.
  destruct (bool_decide (a ∈ decl (nd s n))) eqn:Ea; cbn [negb] in H.
  2: { injection H as <-. apply Eff_static; try reflexivity. intros m. split; [reflexivity|]. split; [|auto].
       cbn. rewrite Ea. destruct (decide (m = n)); reflexivity. }
  set (s1 := upd s n (set decl (rm a))) in *. set (s2 := upd s1 n (set parents (rm a))) in *.
  set (s3 := upd s2 a (set children (rm n))) in *.
  assert (H3 : forall m, nkind (nd s3 m) = nkind (nd s m) /\ value (nd s3 m) = value (nd s m) /\
                         decl (nd s3 m) = if decide (m = n) then rm a (decl (nd s m)) else decl (nd s m)).
  { intros m. unfold s3, s2. rewrite !(ParProofs.nd_upd_proj nkind), !(ParProofs.nd_upd_proj value), !(ParProofs.nd_upd_proj decl) by reflexivity.
    unfold s1. split; [apply (ParProofs.nd_upd_proj nkind); reflexivity|]. split; [apply (ParProofs.nd_upd_proj value); reflexivity|].
    destruct (decide (m = n)) as [->|Hne]; [rewrite ParProofs.nd_upd_eq by exact Hn; reflexivity|rewrite ParProofs.nd_upd_ne by exact Hne; reflexivity]. }
  apply rbind_ok in H as (s4 & H4 & H).
  destruct (Eff_setStale_static _ _ _ H4) as (M4 & N4 & O4).
  pose proof (sfr_checkIfUnnecessary _ _ _ _ H) as Z.
  assert (Ho : obs s' = obs s4) by (apply pf_obs; eapply fr_checkIfUnnecessary; [exact pframe_hyps|exact H]).
  apply Eff_static; [reflexivity| |destruct (z_fields _ _ Z) as (_ & -> & _); rewrite N4; reflexivity|rewrite Ho, O4; reflexivity].
  intros m. destruct (z_static _ _ Z m) as (E1 & E2 & _ & _ & E5). destruct (M4 m) as (A1 & A2 & A3). destruct (H3 m) as (B1 & B2 & B3).
  split; [congruence|]. split; [cbn; rewrite Ea, E2, A2, B3; destruct (decide (m = n)); reflexivity|]. intros _. cbn. congruence.
Qed.

Lemma Eff_pass o s s' : wfb s = true -> ValInv s -> (o = Stabilize [] \/ o = StabilizeCancelled) ->
  stabilize [] false s = Ok (s', None) -> Eff o s s'.
Proof.
  intros Hwf V Ho H. destruct (pass_structure_const s s' Hwf V H) as (Hsk & _ & _ & Hn & _ & Hob & _).
  assert (Hf : fresh_of o = None) by (destruct Ho as [->| ->]; reflexivity).
  apply Eff_static; [exact Hf| |destruct Ho as [->| ->]; exact Hn|destruct Ho as [->| ->]; exact Hob].
  intros m. split; [exact (f_equal nkind (Hsk m))|]. split.
  - transitivity (decl (nd s m)); [exact (f_equal decl (Hsk m))|]. destruct Ho as [->| ->]; reflexivity.
  - intros Hk. rewrite (pass_input_values s s' m Hwf V H Hk). destruct Ho as [->| ->]; reflexivity.
Qed.

Lemma Eff_step s o s' : Inv s -> ValInv s -> hist_op s o = true -> twin_allowed o = true ->
  step s o = Ok (s', None) -> Eff o s s'.
Proof.
  intros HI V Ho Ht H. pose proof (Inv_wfb _ HI) as Hwf.
  unfold hist_op in Ho. rewrite !andb_true_iff in Ho. destruct Ho as [[Hst Hok] _].
  destruct o; try discriminate Hst; try discriminate Ht; cbn [step op_ok] in H, Hok.
  1-7: apply ok_inv in H as [-> _]; apply Eff_newNode; reflexivity.
  - apply (Eff_observe s n s' Hwf V H).
  - apply lift_inv in H as [H _]. apply (Eff_unobserve s o s' H).
  - apply lift_inv in H as [H _]. apply (Eff_setVar s v x s' Hwf Hok H).
  - apply andb_true_iff in Hok as [Hok _]. apply (Eff_addInput s n a s' Hwf V Hok H).
  - apply andb_true_iff in Hok as [Hok _]. apply lift_inv in H as [H _]. apply (Eff_removeInput s n a s' Hok H).
  - apply bool_decide_eq_true in Hst. subst p. apply (Eff_pass _ s s' Hwf V (or_introl eq_refl) H).
  - apply stabilize_cancelled_ok in H. apply (Eff_pass _ s s' Hwf V (or_intror eq_refl) H).
Qed.

Lemma erase_input k : input_kind (erase_kind k) = input_kind k.
Proof. destruct k as [[|]| | | | |[| | |]| | |]; reflexivity. Qed.

Lemma fresh_erase o : fresh_of (erase_op o) = match fresh_of o with Some (k, d, v) => Some (erase_kind k, d, v) | None => None end.
Proof. destruct o as [v [|]| | | | |[| | |] a| | | | | | | | | | | | | |]; reflexivity. Qed.

Lemma fresh_erase_none o : fresh_of o = None -> erase_op o = o.
Proof. destruct o as [v [|]| | | | |[| | |] a| | | | | | | | | | | | | |]; try reflexivity; discriminate. Qed.

Lemma TW_step o sA sB sA' sB' : TW sA sB -> twin_allowed o = true ->
  Eff o sA sA' -> Eff (erase_op o) sB sB' -> TW sA' sB'.
Proof.
  intros [T1 T2 T3 T4 T5 T6] Ht [A1 A2 A3 A4 A5] [B1 B2 B3 B4 B5].
  pose proof (fresh_erase o) as Hfe.
  assert (Hk : forall m, eff_kind (erase_op o) sB m = erase_kind (eff_kind o sA m)).
  { intros m. unfold eff_kind. rewrite Hfe, T1. destruct (fresh_of o) as [[[k d] v]|]; [|apply T3].
    destruct (decide (m = next sA)); [reflexivity|apply T3]. }
  constructor.
  - rewrite A1, B1. destruct o as [v [|]| | | | |[| | |] a| | | | | | | | | | | | | |]; cbn; congruence.
  - rewrite A2, B2. destruct o as [v [|]| | | | |[| | |] a| | | | | | | | | | | | | |]; cbn; congruence.
  - intros m. rewrite A3, B3. apply Hk.
  - intros m. rewrite A4, B4. unfold eff_decl. rewrite Hfe, T1.
    destruct (fresh_of o) as [[[k d] v]|] eqn:Ef; [destruct (decide (m = next sA)); [reflexivity|apply T4]|].
    rewrite (fresh_erase_none o Ef). destruct o; try apply T4; rewrite !T4; reflexivity.
  - intros m Hin. rewrite A3 in Hin. rewrite (A5 m Hin), (B5 m) by (rewrite Hk, erase_input; exact Hin).
    unfold eff_val, eff_kind in *. rewrite Hfe, T1.
    destruct (fresh_of o) as [[[k d] v]|] eqn:Ef; [destruct (decide (m = next sA)); [reflexivity|apply T5, Hin]|].
    rewrite (fresh_erase_none o Ef). destruct o; try (apply T5, Hin). destruct (decide (m = v)); [reflexivity|apply T5, Hin].
  - intros m. rewrite A3. unfold eff_kind. destruct (fresh_of o) as [[[k d] v]|] eqn:Ef; [|apply T6].
    destruct (decide (m = next sA)); [|apply T6].
    destruct o as [v0 ev| | | | |c a| | | | | | | | | | | | | |]; try discriminate Ef; injection Ef as <- _ _; try discriminate.
    destruct c; try discriminate.
Qed.

Lemma TW_init mh : TW (init mh) (init mh).
Proof. constructor; try reflexivity; intros m; cbn; try reflexivity; try discriminate. Qed.

(** the two runs stay in lock step *)
Lemma twin_lockstep os : forall sA sB sA' sB', Inv sA -> ValInv sA -> Inv sB -> ValInv sB -> TW sA sB ->
  forallb twin_allowed os = true ->
  hist_run sA os = Some sA' -> hist_run sB (map erase_op os) = Some sB' ->
  TW sA' sB' /\ Inv sA' /\ ValInv sA' /\ Inv sB' /\ ValInv sB'.
Proof.
  induction os as [|o os IH]; intros sA sB sA' sB' HIA VA HIB VB T Hal HA HB.
  - injection HA as <-. injection HB as <-. auto.
  - cbn [forallb] in Hal. apply andb_true_iff in Hal as [Ht Hal]. cbn [map hist_run] in HA, HB.
    destruct (hist_op sA o) eqn:EoA; [|discriminate]. destruct (step sA o) as [[sA1 [e|]]| |] eqn:EsA; try discriminate.
    destruct (hist_op sB (erase_op o)) eqn:EoB; [|discriminate].
    destruct (step sB (erase_op o)) as [[sB1 [e|]]| |] eqn:EsB; try discriminate.
    destruct (hist_step sA o sA1 HIA VA EoA EsA) as (HIA1 & VA1 & _).
    destruct (hist_step sB _ sB1 HIB VB EoB EsB) as (HIB1 & VB1 & _).
    assert (HtB : twin_allowed (erase_op o) = true) by (destruct o as [v [|]| | | | |[| | |] a| | | | | | | | | | | | | |]; try reflexivity; discriminate).
    apply (IH sA1 sB1 sA' sB' HIA1 VA1 HIB1 VB1); [|exact Hal|exact HA|exact HB].
    apply (TW_step o sA sB sA1 sB1 T Ht (Eff_step sA o sA1 HIA VA EoA Ht EsA) (Eff_step sB _ sB1 HIB VB EoB HtB EsB)).
Qed.

(** after a pass every registered node holds its from-scratch value *)
Lemma registered_eval s n : wfb s = true -> BF s -> consistent s = true -> inGraph (nd s n) = true ->
  eval s (next s) n = Some (valueOf s n).
Proof.
  intros Hwf HBF Hc Hg. destruct (BF_closed s HBF) as [Hcl Htp].
  destruct (consistent_registered_eval s Hwf Hcl Htp Hc n Hg (BF_notLhs s n HBF)) as [Hb He]. apply He, Hb.
Qed.

(** ** C11 along histories *)
Theorem twin_history mh os o : (0 < mh)%nat -> forallb twin_allowed (os ++ [o]) = true -> is_pass o = true ->
  forall sA sB, hist_run (init mh) (os ++ [o]) = Some sA -> hist_run (init mh) (map erase_op (os ++ [o])) = Some sB ->
  obs sA = obs sB /\
  (forall x n, obs sA !! x = Some n -> valueOf sA n = valueOf sB n) /\
  (forall n, inGraph (nd sA n) = true -> inGraph (nd sB n) = true -> valueOf sA n = valueOf sB n).
Proof.
  intros Hmh Hal Hp sA sB HA HB. destruct (init_inv mh Hmh) as [HI0 V0].
  destruct (twin_lockstep (os ++ [o]) (init mh) (init mh) sA sB HI0 V0 HI0 V0 (TW_init mh) Hal HA HB)
    as (T & HIA & VA & HIB & VB).
  (* both final states are consistent: they are the results of passes *)
  assert (HcA : consistent sA = true).
  { destruct (C01_history mh os o [] sA Hmh HA Hp) as (s1 & s2 & E1 & Es & Hc & _).
    rewrite hist_run_app, E1 in HA. cbn [hist_run] in HA. destruct (hist_op s1 o); [|discriminate].
    rewrite Es in HA. injection HA as <-. exact Hc. }
  assert (HcB : consistent sB = true).
  { rewrite map_app in HB. cbn [map] in HB.
    assert (HpB : is_pass (erase_op o) = true) by (destruct o; try discriminate Hp; reflexivity).
    destruct (C01_history mh (map erase_op os) (erase_op o) [] sB Hmh HB HpB) as (s1 & s2 & E1 & Es & Hc & _).
    rewrite hist_run_app, E1 in HB. cbn [hist_run] in HB. destruct (hist_op s1 (erase_op o)); [|discriminate].
    rewrite Es in HB. injection HB as <-. exact Hc. }
  pose proof (Inv_wfb _ HIA) as HwA. pose proof (Inv_wfb _ HIB) as HwB.
  assert (Hreg : forall n, inGraph (nd sA n) = true -> inGraph (nd sB n) = true -> valueOf sA n = valueOf sB n).
  { intros n HgA HgB.
    pose proof (registered_eval sA n HwA (vi_bf _ VA) HcA HgA) as EA.
    pose proof (registered_eval sB n HwB (vi_bf _ VB) HcB HgB) as EB.
    rewrite (tw_next _ _ T), (eval_twin sA sB T (vi_bf _ VA)) in EB. congruence. }
  split; [symmetry; apply (tw_obs _ _ T)|]. split; [|exact Hreg].
  intros x n Hx. destruct (BF_closed sA (vi_bf _ VA)) as [HclA _]. destruct (BF_closed sB (vi_bf _ VB)) as [HclB _].
  apply Hreg.
  - apply (observed_registered sA x n HwA HclA Hx).
  - apply (observed_registered sB x n HwB HclB). rewrite (tw_obs _ _ T). exact Hx.
Qed.

Theorem twin_lockstep_init mh os sA sB :
  (0 < mh)%nat -> forallb twin_allowed os = true ->
  hist_run (init mh) os = Some sA -> hist_run (init mh) (map erase_op os) = Some sB -> TW sA sB.
Proof.
  intros Hmh Hal HA HB. destruct (init_inv mh Hmh) as [HI V].
  exact (proj1 (twin_lockstep os (init mh) (init mh) sA sB HI V HI V (TW_init mh) Hal HA HB)).
Qed.

(** the checker is closed under prefixes, so the theorem applies after every pass of the history *)
Lemma hist_ok_prefix mh os1 os2 : hist_ok mh (os1 ++ os2) = true -> hist_ok mh os1 = true.
Proof.
  unfold hist_ok. rewrite hist_run_app. destruct (hist_run (init mh) os1); [reflexivity|discriminate].
Qed.

Lemma twin_ok_prefix mh os1 os2 : twin_ok mh (os1 ++ os2) = true -> twin_ok mh os1 = true.
Proof.
  unfold twin_ok. rewrite !andb_true_iff, map_app, forallb_app. intros [[H1 H2] H3].
  apply andb_true_iff in H3 as [H3 _].
  rewrite (hist_ok_prefix mh os1 os2 H1), (hist_ok_prefix mh _ _ H2), H3. auto.
Qed.

Theorem twin_history_checked mh os1 o os2 : (0 < mh)%nat -> twin_ok mh (os1 ++ o :: os2) = true -> is_pass o = true ->
  exists sA sB, hist_run (init mh) (os1 ++ [o]) = Some sA /\ hist_run (init mh) (map erase_op (os1 ++ [o])) = Some sB /\
    obs sA = obs sB /\
    (forall x n, obs sA !! x = Some n -> valueOf sA n = valueOf sB n) /\
    (forall n, inGraph (nd sA n) = true -> inGraph (nd sB n) = true -> valueOf sA n = valueOf sB n).
Proof.
  intros Hmh Hok Hp. replace (os1 ++ o :: os2) with ((os1 ++ [o]) ++ os2) in Hok by (rewrite <- app_assoc; reflexivity).
  apply twin_ok_prefix in Hok. unfold twin_ok in Hok. rewrite !andb_true_iff in Hok. destruct Hok as [[H1 H2] H3].
  destruct (hist_ok_run _ _ H1) as [sA HA]. destruct (hist_ok_run _ _ H2) as [sB HB].
  exists sA, sB. split; [exact HA|]. split; [exact HB|]. apply (twin_history mh os1 o Hmh H3 Hp sA sB HA HB).
Qed.

(** * C11 along histories, in full: the erased history RUNS

    The structural congruence of the operations outside the passes ([StructCongruence.sim_step],
    skeleton mode: kinds up to erasure, values / stamps / [pending] / the recompute heap free)
    shows that every operation of the twin succeeds because the original's did, and that the graph
    structure evolves identically; [PassPlanProofs.pass_total] makes the twin's passes succeed.

    One more exclusion is NECESSARY here: [StabilizeCancelled].  A Stabilize whose context is
    already cancelled returns ErrCancelled exactly when something is queued; after a VarEqual was
    written with the value it holds nothing is queued in the original, while the twin has queued
    the var -- the original's cancelled pass returns nil, the twin's an error. *)
Definition twin_full_allowed (o : op) : bool :=
  twin_allowed o && match o with StabilizeCancelled => false | _ => true end.

Lemma twin_full_allowed_twin os : forallb twin_full_allowed os = true -> forallb twin_allowed os = true.
Proof.
  induction os as [|o os IH]; [reflexivity|]. cbn [forallb]. rewrite !andb_true_iff. intros [H1 H2].
  split; [|apply IH, H2]. unfold twin_full_allowed in H1. apply andb_true_iff in H1 as [H1 _]. exact H1.
Qed.

Lemma SR_refl b s : SR b s s.
Proof. constructor; reflexivity. Qed.

Lemma skelS_skel x : skelS x = skelS (skel x).
Proof. destruct x; reflexivity. Qed.

(** plan-free passes of two structurally related states end structurally related *)
Lemma pass_SR sA sB sA1 sB1 : wfb sA = true -> ValInv sA -> wfb sB = true -> ValInv sB -> SR false sA sB ->
  stabilize [] false sA = Ok (sA1, None) -> stabilize [] false sB = Ok (sB1, None) -> SR false sA1 sB1.
Proof.
  intros HwA VA HwB VB R HA HB.
  destruct (pass_structure_const sA sA1 HwA VA HA) as (A1 & A2 & A3 & A4 & A5 & A6 & A7 & A8 & A9 & A10 & A11 & A12 & A13 & A14 & A15).
  destruct (pass_structure_const sB sB1 HwB VB HB) as (B1 & B2 & B3 & B4 & B5 & B6 & B7 & B8 & B9 & B10 & B11 & B12 & B13 & B14 & B15).
  pose proof (sr_nd _ _ _ R) as Hnd. pose proof (sr_has _ _ _ R) as Hhas. destruct R. constructor; try congruence.
  - intros m. cbn [Nb] in *. rewrite (skelS_skel (nd sA1 m)), (skelS_skel (nd sB1 m)), A1, B1, <- !skelS_skel. apply Hnd.
  - intros m. rewrite A2, B2. apply Hhas.
Qed.

Lemma twin_full_step sA sB o sA1 :
  Inv sA -> ValInv sA -> Inv sB -> ValInv sB -> TW sA sB -> SR false sA sB ->
  hist_op sA o = true -> twin_full_allowed o = true -> step sA o = Ok (sA1, None) ->
  exists sB1, hist_op sB (erase_op o) = true /\ step sB (erase_op o) = Ok (sB1, None) /\ SR false sA1 sB1.
Proof.
  intros HIA VA HIB VB T R Ho Hal HA.
  pose proof (Inv_wfb _ HIA) as HwfA. pose proof (Inv_wfb _ HIB) as HwfB.
  pose proof (vi_bf _ VA) as BA. pose proof (vi_bf _ VB) as BB.
  unfold twin_full_allowed in Hal. apply andb_true_iff in Hal as [Hal Hnc].
  pose proof Ho as Ho'. unfold hist_op in Ho'. rewrite !andb_true_iff in Ho'. destruct Ho' as [[Hst Hok] Hcl].
  destruct (erase_op_checks sB o) as (E1 & E2 & E3 & E4).
  destruct (is_stab o) eqn:Est.
  - assert (Eo : o = Stabilize []).
    { destruct o; try discriminate Est; try discriminate Hst; try discriminate Hnc. apply bool_decide_eq_true in Hst. subst. reflexivity. }
    subst o. cbn [erase_op step] in *. destruct (pass_total sB HwfB VB) as [sB1 HB].
    exists sB1. split; [reflexivity|]. split; [exact HB|]. apply (pass_SR sA sB sA1 sB1 HwfA VA HwfB VB R HA HB).
  - destruct (op_checks_SR false sA sB R o Hst Est) as [C1 C2].
    assert (G : Good false sA sB) by (apply wfb_Good; assumption).
    destruct (sim_step false sA sB o (erase_op o) sA1 G (wfb_Quiet sA HwfA BA) (qt_fresh _ (wfb_Quiet sB HwfB BB))) as (sB1 & HB & G1);
      [split; [reflexivity|]; split; [exact Hal|apply (tw_kind _ _ T)]|exact Hst|exact Est|exact HA|].
    exists sB1. split; [|split; [exact HB|apply (g_sr _ _ _ G1)]].
    unfold hist_op. rewrite E1, E2, E3, C1, C2, Hst, Hok, Hcl. reflexivity.
Qed.

Lemma twin_allowed_erase o : twin_allowed o = true -> twin_allowed (erase_op o) = true.
Proof. destruct o as [v [|]| | | | |[| | |] a| | | | | | | | | | | | | |]; try reflexivity; discriminate. Qed.

(** the erased history runs, in lock step and with the same graph structure *)
Lemma twin_full os : forall sA sB sA', Inv sA -> ValInv sA -> Inv sB -> ValInv sB -> TW sA sB -> SR false sA sB ->
  forallb twin_full_allowed os = true -> hist_run sA os = Some sA' ->
  exists sB', hist_run sB (map erase_op os) = Some sB' /\ TW sA' sB' /\ SR false sA' sB'.
Proof.
  induction os as [|o os IH]; intros sA sB sA' HIA VA HIB VB T R Hal HA.
  - injection HA as <-. exists sB. auto.
  - cbn [forallb] in Hal. apply andb_true_iff in Hal as [Ht Hal]. cbn [hist_run] in HA.
    destruct (hist_op sA o) eqn:EoA; [|discriminate]. destruct (step sA o) as [[sA1 [e|]]| |] eqn:EsA; try discriminate.
    destruct (twin_full_step sA sB o sA1 HIA VA HIB VB T R EoA Ht EsA) as (sB1 & EoB & EsB & R1).
    destruct (hist_step sA o sA1 HIA VA EoA EsA) as (HIA1 & VA1 & _).
    destruct (hist_step sB _ sB1 HIB VB EoB EsB) as (HIB1 & VB1 & _).
    assert (Ht' : twin_allowed o = true) by (unfold twin_full_allowed in Ht; apply andb_true_iff in Ht as [Ht _]; exact Ht).
    pose proof (TW_step o sA sB sA1 sB1 T Ht' (Eff_step sA o sA1 HIA VA EoA Ht' EsA)
                  (Eff_step sB _ sB1 HIB VB EoB (twin_allowed_erase o Ht') EsB)) as T1.
    destruct (IH sA1 sB1 sA' HIA1 VA1 HIB1 VB1 T1 R1 Hal HA) as (sB' & HB' & T' & R').
    exists sB'. cbn [map hist_run]. rewrite EoB, EsB. auto.
Qed.

Theorem twin_runs mh os sA : (0 < mh)%nat -> forallb twin_full_allowed os = true ->
  hist_run (init mh) os = Some sA ->
  exists sB, hist_run (init mh) (map erase_op os) = Some sB /\ TW sA sB /\ SR false sA sB.
Proof.
  intros Hmh Hal HA. destruct (init_inv mh Hmh) as [HI V].
  apply (twin_full os (init mh) (init mh) sA HI V HI V (TW_init mh) (SR_refl false _) Hal HA).
Qed.

(** C11 along histories: whenever the history runs, so does its twin, and after every pass the
    same nodes are registered and observed and hold the same values *)
Theorem twin_history_full mh os o sA : (0 < mh)%nat -> forallb twin_full_allowed (os ++ [o]) = true -> is_pass o = true ->
  hist_run (init mh) (os ++ [o]) = Some sA ->
  exists sB, hist_run (init mh) (map erase_op (os ++ [o])) = Some sB /\
    obs sA = obs sB /\
    (forall x n, obs sA !! x = Some n -> valueOf sA n = valueOf sB n) /\
    (forall n, inGraph (nd sB n) = inGraph (nd sA n)) /\
    (forall n, inGraph (nd sA n) = true -> valueOf sA n = valueOf sB n).
Proof.
  intros Hmh Hal Hp HA. destruct (twin_runs mh _ sA Hmh Hal HA) as (sB & HB & T & R).
  destruct (twin_history mh os o Hmh (twin_full_allowed_twin _ Hal) Hp sA sB HA HB) as (H1 & H2 & H3).
  exists sB. split; [exact HB|]. split; [exact H1|]. split; [exact H2|].
  split; [intros n; symmetry; apply (sr_inGraph _ _ _ R n)|].
  intros n Hg. apply H3; [exact Hg|]. rewrite <- (sr_inGraph _ _ _ R n). exact Hg.
Qed.

(** the boolean form: only the ORIGINAL history is evaluated *)
Definition twin_full_ok (mh : nat) (os : list op) : bool := hist_ok mh os && forallb twin_full_allowed os.

Theorem twin_full_ok_twin mh os : (0 < mh)%nat -> twin_full_ok mh os = true -> twin_ok mh os = true.
Proof.
  intros Hmh H. unfold twin_full_ok in H. apply andb_true_iff in H as [H1 H2]. unfold twin_ok.
  rewrite H1, (twin_full_allowed_twin _ H2). destruct (hist_ok_run _ _ H1) as [sA HA].
  destruct (twin_runs mh os sA Hmh H2 HA) as (sB & HB & _). unfold hist_ok at 1. rewrite HB. reflexivity.
Qed.

Theorem twin_history_full_checked mh os1 o os2 : (0 < mh)%nat -> twin_full_ok mh (os1 ++ o :: os2) = true -> is_pass o = true ->
  exists sA sB, hist_run (init mh) (os1 ++ [o]) = Some sA /\ hist_run (init mh) (map erase_op (os1 ++ [o])) = Some sB /\
    obs sA = obs sB /\
    (forall x n, obs sA !! x = Some n -> valueOf sA n = valueOf sB n) /\
    (forall n, inGraph (nd sB n) = inGraph (nd sA n)) /\
    (forall n, inGraph (nd sA n) = true -> valueOf sA n = valueOf sB n).
Proof.
  intros Hmh Hok Hp. replace (os1 ++ o :: os2) with ((os1 ++ [o]) ++ os2) in Hok by (rewrite <- app_assoc; reflexivity).
  unfold twin_full_ok in Hok. apply andb_true_iff in Hok as [H1 H2]. apply hist_ok_prefix in H1.
  rewrite forallb_app in H2. apply andb_true_iff in H2 as [H2 _].
  destruct (hist_ok_run _ _ H1) as [sA HA].
  destruct (twin_history_full mh os1 o sA Hmh H2 Hp HA) as (sB & HB & Q).
  exists sA, sB. auto.
Qed.

(** * Example: a VarEqual written with the value it holds, and a CutoffEqual that cuts *)
Definition tx : list op :=
  [NewVar 4 true; NewVar 3 false; NewMap (Aff 0 5) 1%nat; NewCutoff CEq 2%nat; NewMap (Aff 1 1) 3%nat;
   NewMap2 (Lin2 1 1 0) 0%nat 4%nat; Observe 5%nat; Stabilize [];
   SetVar 0%nat 4; Stabilize [];                 (* VarEqual written with its own value: a no-op *)
   SetVar 1%nat 7; Stabilize [];                 (* node 2 is constant: the CutoffEqual cuts *)
   SetVar 0%nat 9; Stabilize []].
Definition tx_final (os : list op) : state := match hist_run (init 16) os with Some s => s | None => init 0 end.
Definition queued_after (os : list op) (k : nat) : list nid := Heap.ids (heap (tx_final (take k os))).

(** the exclusion of [StabilizeCancelled] is necessary: after the VarEqual was written with the value
    it holds, a cancelled pass returns nil in the original and ErrCancelled in the twin *)
Definition tx_cancel : list op := take 9 tx ++ [StabilizeCancelled].
