(** Executable correspondence runner for C14.

    The harness (harness/cmd/foldtrace) drives the real library through its public API and
    records, per case, the API calls and what it read back.  Three shapes of case:

    - [CUaf]: an UnorderedArrayFold over vars (inputs may repeat) with one observer that is
      removed and re-created, writes to the vars, and passes of which some fail (a sibling
      node errors once) — after every call the fold's [Value()] is recorded.  [api_step]
      below is the little piece of the graph that turns the API calls into the events of
      [Fold.ev]: which vars are queued, whether the fold is queued, who is notified during a
      pass.  The resulting event history is run on the [Fold] state machine of the variant
      [reset] — which the harness determines by probing the real code once with the
      five-call reproduction (observe, stabilize, unobserve, set, observe+stabilize): [false]
      = the code as it is, [true] = the repaired code — so the same cases file replays
      before and after the repair.  The replay also checks that the event history the calls
      amount to is one the discipline [admissible] of Fold.v admits.
    - [CReduce]: the current values of the inputs of a ReduceBalanced over a non-commutative
      associative operation (composition of affine maps modulo 101, a map x -> a*x+b being
      encoded as a*101+b) and the root's value.
    - [CPlain]: MapN / ArrayFold / All / ForAll / Exists: input values and the value read. *)
From incr Require Import Base Fold.

(** ** UnorderedArrayFold *)
Inductive fkind := FSum | FSumSq.

Definition f_fold (k : fkind) (acc x : Z) : Z :=
  match k with FSum => acc + x | FSumSq => acc + x * x end.
Definition f_update (k : fkind) (acc o n : Z) : Z :=
  match k with FSum => acc - o + n | FSumSq => acc - o * o + n * n end.
Definition f_initial (k : fkind) : Z := match k with FSum => 0 | FSumSq => 5 end.

Inductive aop :=
| ASet (i : nat) (x : Z)              (* vars[i].Set(x) *)
| AStab (ok : bool) (ran : bool)      (* a pass: did it succeed; was the fold recomputed in it *)
| AUnobs                              (* observer.Unobserve *)
| AObs.                               (* MustObserve(fold) *)

Record mini := Mini {
  m_w : world (A:=Z) (B:=Z);
  m_queued : list nat;       (* vars in the recompute heap *)
  m_fq : bool                (* the fold is in the recompute heap *)
}.

Section UafRun.
  Variable reset : bool.
  Variable k : fkind.
  Variable inputs : list nat.
  Variable kept : list nat.    (* vars that another, permanent observer keeps necessary *)

  Definition mstep := step (A:=Z) (B:=Z) (f_initial k) (f_fold k) (f_update k) reset inputs.
  Definition mrun := run (A:=Z) (B:=Z) (f_initial k) (f_fold k) (f_update k) reset inputs.

  Definition isin (i : nat) (l : list nat) : bool := existsb (Nat.eqb i) l.
  Definition multiplicity (j : nat) : nat := length (slots inputs j).

  (* the events of one pass: every queued var is recomputed (vars are lowest), and
     notifies the fold once per edge if the fold is linked *)
  Definition notifications (linked : bool) (queued : list nat) : list (ev (A:=Z)) :=
    if linked then flat_map (fun j => replicate (multiplicity j) (Notify j)) queued else [].

  (* the events an API call amounts to; None = the recorded pass contradicts what the graph
     model allows *)
  Definition api_events (m : mini) (o : aop) : option (list (ev (A:=Z))) :=
    let linked := w_linked (m_w m) in
    match o with
    | ASet i x => Some [Write i x]
    | AUnobs => Some [Unlink]
    | AObs => Some [Relink]
    | AStab ok ran =>
      let fq := m_fq m || (linked && existsb (fun j => negb (multiplicity j =? 0)%nat) (m_queued m)) in
      if (if ok then negb (Bool.eqb ran fq) else ran && negb fq) then None
      else Some (notifications linked (m_queued m) ++ (if ran then [Recompute] else []))
    end.

  (* the graph's bookkeeping after the call *)
  Definition api_book (m : mini) (o : aop) (w' : world) : mini :=
    let linked := w_linked (m_w m) in
    match o with
    | ASet i x =>
      Mini w' (if (linked && negb (multiplicity i =? 0)%nat) || isin i kept
               then (if isin i (m_queued m) then m_queued m else m_queued m ++ [i]) else m_queued m) (m_fq m)
    | AUnobs => Mini w' (filter (fun i => isin i kept) (m_queued m)) false
    | AObs => Mini w' (m_queued m) true
    | AStab ok ran =>
      let fq := m_fq m || (linked && existsb (fun j => negb (multiplicity j =? 0)%nat) (m_queued m)) in
      Mini w' [] (fq && negb ran)
    end.

  (* Some i = the first call whose observation differs; Some (number of calls) = the event
     history the calls amount to is not one the discipline [admissible] admits *)
  Fixpoint replay (m : mini) (tr : list (aop * Z)) (i : nat) (h : list (ev (A:=Z))) : option nat :=
    match tr with
    | [] => if admissibleb inputs false [] h then None else Some i
    | (o, expected) :: tr =>
      match api_events m o with
      | Some es =>
        match mrun (m_w m) es with
        | Ok w' => if value (w_f w') =? expected then replay (api_book m o w') tr (S i) (h ++ es) else Some i
        | _ => Some i
        end
      | None => Some i
      end
    end.
End UafRun.

Definition store_of (vals : list Z) : store (A:=Z) := fun j => nth j vals 0.

(** ** ReduceBalanced over affine maps modulo 101 *)
Definition P : Z := 101.
Definition aff (f g : Z) : Z :=        (* first f, then g *)
  let a1 := f / P in let b1 := f mod P in
  let a2 := g / P in let b2 := g mod P in
  ((a1 * a2) mod P) * P + ((a2 * b1 + b2) mod P).

Definition reduce_value (leaves : list Z) : option Z :=
  match reduce_tree leaves with
  | Ok (Some t) => Some (eval aff t)
  | _ => None
  end.

(** ** plain combinators *)
Inductive pkind := PMapN | PArrayFold | PAll | PForAll | PExists.

Definition hash_step (acc x : Z) : Z := (acc * 31 + x) mod 1000003.
Definition alt_sum (l : list Z) : Z :=
  fst (fold_left (fun '(acc, i) x => (if Z.even i then acc + x * (i + 1) else acc - x * (i + 1), i + 1)) l (0, 0)).
Definition b2z (b : bool) : Z := if b then 1 else 0.
Definition z2b (z : Z) : bool := negb (z =? 0).

Definition plain_value (k : pkind) (values : list Z) : option (list Z) :=
  match k with
  | PMapN => Some [mapN alt_sum values]
  | PArrayFold => Some [arrayFold 7 hash_step values]
  | PAll => Some (all values)
  | PForAll => match forAll (map z2b values) with Ok b => Some [b2z b] | _ => None end
  | PExists => match exists_ (map z2b values) with Ok b => Some [b2z b] | _ => None end
  end.

Inductive case :=
| CUaf (k : fkind) (inputs : list nat) (vals : list Z) (kept : list nat) (tr : list (aop * Z))
| CReduce (leaves : list Z) (got : Z)
| CPlain (k : pkind) (values : list Z) (got : list Z).

(* Some i = first call whose observation differs (0 for the one-shot cases) *)
Definition check (reset : bool) (c : case) : option nat :=
  match c with
  | CUaf k inputs vals kept tr =>
    replay reset k inputs kept
           (Mini (init (A:=Z) (B:=Z) 0 (f_initial k) inputs (store_of vals)) [] false) tr 0 []
  | CReduce leaves got =>
    if bool_decide (reduce_value leaves = Some got) then None else Some 0%nat
  | CPlain k values got =>
    if bool_decide (plain_value k values = Some got) then None else Some 0%nat
  end.

Definition mismatches (reset : bool) (cs : list case) : list (nat * nat) :=
  omap (fun '(n, c) => match check reset c with Some i => Some (n, i) | None => None end)
       (imap (fun n c => (n, c)) cs).
