(** Proofs about the edge index model (EdgeIndex.v): the indexed implementation refines the
    plain-list operations [l ++ [x]] and [filter (≠ id)] AS MULTISETS, for every threshold and
    every reachable state.  The invariant says that, when the index is present, the position
    list of every identifier is a permutation of the positions at which it occurs. *)
From incr Require Import Base EdgeIndex.
Import EdgeIndex.
Local Open Scope nat_scope.

(** ** Statements *)

(** the plain-list removal used by the engine model ([Engine.rm]) *)
Notation rm id l := (filter (fun x => x <> id) l).

Definition positions_of (id : nat) (l : list nat) : list nat :=
  filter (fun i => l !! i = Some id) (seq 0 (length l)).

(** The invariant.  [posOf ix id] is [[]] for a missing key, so "permutation of the positions
    of id" covers: no duplicates, every position in range and holding id, every occurrence
    recorded, and identifiers that do not occur have no entry or an empty one. *)
Definition idx_ok (s : t) : Prop :=
  match s.2 with
  | None => True
  | Some ix => forall id, posOf ix id ≡ₚ positions_of id s.1
  end.

(** when the index exists *)
Definition mode_ok (th : nat) (s : t) : Prop :=
  match s.2 with
  | None => length s.1 <= th
  | Some _ => th / 2 < length s.1
  end.

(** ** Positions *)

Definition pos_ok (l : list nat) (id : nat) (ps : list nat) : Prop :=
  NoDup ps /\ forall i, i ∈ ps <-> l !! i = Some id.

Definition all_ok (l : list nat) (ix : index) : Prop := forall id, pos_ok l id (posOf ix id).

Lemma elem_of_positions_of id l i : i ∈ positions_of id l <-> l !! i = Some id.
Proof.
  unfold positions_of. rewrite elem_of_list_filter, elem_of_seq. split; [tauto|].
  intros H; split; [done|]. apply lookup_lt_Some in H. lia.
Qed.

Lemma NoDup_positions_of id l : NoDup (positions_of id l).
Proof. apply list.NoDup_filter, NoDup_seq. Qed.

Lemma pos_ok_perm l id ps : pos_ok l id ps <-> ps ≡ₚ positions_of id l.
Proof.
  split.
  - intros [Hnd Hin]. apply NoDup_Permutation; [done|apply NoDup_positions_of|].
    intros i. rewrite Hin, elem_of_positions_of. done.
  - intros Hp. split.
    + rewrite Hp. apply NoDup_positions_of.
    + intros i. rewrite Hp. apply elem_of_positions_of.
Qed.

Lemma idx_ok_Some l ix : idx_ok (l, Some ix) <-> all_ok l ix.
Proof.
  unfold idx_ok, all_ok; simpl. split; intros H id; apply pos_ok_perm, H.
Qed.

(** the invariant, spelled out *)
Lemma idx_ok_meaning l ix :
  idx_ok (l, Some ix) <->
  forall id, NoDup (posOf ix id) /\ forall i, i ∈ posOf ix id <-> l !! i = Some id.
Proof. rewrite idx_ok_Some. done. Qed.

Lemma pos_ok_nil_notin l id : pos_ok l id [] -> id ∉ l.
Proof.
  intros [_ H] Hin. apply elem_of_list_lookup in Hin as [i Hi].
  apply H in Hi. inversion Hi.
Qed.

Lemma pos_ok_in l id ps : pos_ok l id ps -> (id ∈ l <-> ps <> []).
Proof.
  intros [_ H]. split.
  - intros Hin ->. apply elem_of_list_lookup in Hin as [i Hi]. apply H in Hi. inversion Hi.
  - intros Hne. destruct ps as [|p ps]; [done|].
    apply elem_of_list_lookup. exists p. apply H. left.
Qed.

Lemma posOf_insert_eq ix x v : posOf (<[x := v]> ix) x = v.
Proof. unfold posOf. rewrite lookup_insert. done. Qed.
Lemma posOf_insert_ne ix x y v : x <> y -> posOf (<[x := v]> ix) y = posOf ix y.
Proof. intros. unfold posOf. rewrite lookup_insert_ne by done. done. Qed.
Lemma posOf_delete_eq ix x : posOf (delete x ix) x = [].
Proof. unfold posOf. rewrite lookup_delete. done. Qed.
Lemma posOf_delete_ne ix x y : x <> y -> posOf (delete x ix) y = posOf ix y.
Proof. intros. unfold posOf. rewrite lookup_delete_ne by done. done. Qed.
Lemma posOf_empty id : posOf ∅ id = [].
Proof. unfold posOf. rewrite lookup_empty. done. Qed.

Lemma lookup_snoc l (x : nat) i y :
  (l ++ [x]) !! i = Some y <-> l !! i = Some y \/ (i = length l /\ x = y).
Proof.
  destruct (decide (i < length l)) as [Hlt|Hge].
  - rewrite lookup_app_l by done. split; [auto|]. intros [?|[? _]]; [done|lia].
  - rewrite lookup_app_r by lia. split.
    + intros H. right. destruct (i - length l) as [|n] eqn:E; simpl in H.
      * split; [lia|congruence].
      * destruct n; discriminate.
    + intros [H|[-> ->]].
      * apply lookup_lt_Some in H. lia.
      * rewrite Nat.sub_diag. done.
Qed.

Lemma pos_ok_app_eq l x ps : pos_ok l x ps -> pos_ok (l ++ [x]) x (ps ++ [length l]).
Proof.
  intros [Hnd Hin]. split.
  - apply NoDup_app. split; [done|]. split; [|apply NoDup_singleton].
    intros i Hi ->%elem_of_list_singleton. apply Hin, lookup_lt_Some in Hi. lia.
  - intros i. rewrite elem_of_app, elem_of_list_singleton, lookup_snoc, Hin. tauto.
Qed.

Lemma pos_ok_app_ne l x id ps : id <> x -> pos_ok l id ps -> pos_ok (l ++ [x]) id ps.
Proof.
  intros Hne [Hnd Hin]. split; [done|].
  intros i. rewrite lookup_snoc, Hin. split; [auto|]. intros [?|[_ ?]]; [done|congruence].
Qed.

Lemma all_ok_append l ix x : all_ok l ix -> all_ok (l ++ [x]) (<[x := posOf ix x ++ [length l]]> ix).
Proof.
  intros H id. destruct (decide (id = x)) as [->|Hne].
  - rewrite posOf_insert_eq. apply pos_ok_app_eq, H.
  - rewrite posOf_insert_ne by done. apply pos_ok_app_ne; [done|apply H].
Qed.

Lemma all_ok_empty : all_ok [] ∅.
Proof.
  intros id. rewrite posOf_empty. split; [apply NoDup_nil_2|].
  intros i. rewrite elem_of_nil. split; [done|]. intros H; inversion H.
Qed.

Lemma all_ok_buildFrom l : forall l0 ix, all_ok l0 ix -> all_ok (l0 ++ l) (buildFrom (length l0) l ix).
Proof.
  induction l as [|x l IH]; intros l0 ix H; simpl.
  - rewrite app_nil_r. done.
  - replace (l0 ++ x :: l) with ((l0 ++ [x]) ++ l) by (rewrite <- app_assoc; done).
    replace (S (length l0)) with (length (l0 ++ [x])) by (rewrite app_length; simpl; lia).
    apply IH, all_ok_append, H.
Qed.

Lemma all_ok_build l : all_ok l (edgeIndexBuild l).
Proof. apply (all_ok_buildFrom l [] ∅), all_ok_empty. Qed.

(** ** edgeIndexAppend *)

Lemma append_spec th s x :
  idx_ok s ->
  (edgeIndexAppend th s x).1 = s.1 ++ [x] /\ idx_ok (edgeIndexAppend th s x).
Proof.
  destruct s as [l [ix|]]; intros Hok; cbn [edgeIndexAppend fst].
  - split; [done|]. apply idx_ok_Some.
    replace (length (l ++ [x]) - 1) with (length l) by (rewrite app_length; simpl; lia).
    apply all_ok_append, idx_ok_Some, Hok.
  - destruct (th <? length (l ++ [x])); cbn [fst]; split; try done.
    apply idx_ok_Some, all_ok_build.
Qed.

(** the index appears exactly at the append that takes the list past the threshold, and an
    existing index is kept *)
Lemma append_index th s x :
  is_Some (edgeIndexAppend th s x).2 <-> is_Some s.2 \/ th < length s.1 + 1.
Proof.
  destruct s as [l [ix|]]; cbn [edgeIndexAppend fst snd].
  - split; [intros _; left|intros _]; eexists; done.
  - replace (length l + 1) with (length (l ++ [x])) by (rewrite app_length; simpl; lia).
    destruct (th <? length (l ++ [x])) eqn:E; cbn [snd].
    + apply Nat.ltb_lt in E. split; [intros _; right; done|intros _; eexists; done].
    + apply Nat.ltb_ge in E. split; [intros [? ?]; done|]. intros [[? ?]|?]; [done|lia].
Qed.

Lemma append_mode th s x : mode_ok th s -> mode_ok th (edgeIndexAppend th s x).
Proof.
  destruct s as [l [ix|]]; unfold mode_ok; cbn [edgeIndexAppend fst snd].
  - rewrite app_length. simpl. lia.
  - intros _. destruct (th <? length (l ++ [x])) eqn:E; cbn [fst snd].
    + apply Nat.ltb_lt in E. pose proof (Nat.div_le_upper_bound th 2 th).
      assert (th / 2 <= th) by (apply Nat.div_le_upper_bound; lia). lia.
    + apply Nat.ltb_ge in E. done.
Qed.

(** ** remove (list_util.go) *)

Lemma rm_snoc (id : nat) (l : list nat) (x : nat) : rm id (l ++ [x]) = if decide (x = id) then rm id l else rm id l ++ [x].
Proof.
  rewrite list.filter_app, filter_cons, filter_nil.
  destruct (decide (x = id)) as [->|Hne].
  - rewrite decide_False by (intros H; apply H; done). apply app_nil_r.
  - rewrite decide_True by done. done.
Qed.

Lemma removeLoop_spec orig id : forall todo i a kept removed,
  length a = length orig -> todo + i = length orig -> kept <= i ->
  take kept a = rm id (take i orig) -> drop i a = drop i orig ->
  exists a' kept' r, removeLoop todo i a id kept removed = Ok (a', kept', r) /\
    r = (if decide (id ∈ drop i orig) then Some id else removed) /\
    kept' <= length a' /\ take kept' a' = rm id orig.
Proof.
  induction todo as [|todo IH]; intros i a kept removed Hlen Hi Hk Htake Hdrop.
  - exists a, kept, removed. simpl. split; [done|]. simpl in Hi. subst i.
    rewrite drop_ge by lia. rewrite decide_False by (apply not_elem_of_nil).
    rewrite (take_ge orig) in Htake by lia. split; [done|]. split; [lia|done].
  - assert (Hlt : i < length orig) by lia.
    destruct (lookup_lt_is_Some_2 orig i Hlt) as [x Hx].
    assert (Hax : a !! i = Some x).
    { pose proof (lookup_drop a i 0) as H1. pose proof (lookup_drop orig i 0) as H2.
      rewrite Nat.add_0_r in H1, H2. rewrite <- H1, Hdrop, H2. done. }
    assert (HdropS : drop (S i) a = drop (S i) orig).
    { assert (H1 : drop 1 (drop i a) = drop 1 (drop i orig)) by (rewrite Hdrop; done).
      rewrite !drop_drop in H1. replace (i + 1) with (S i) in H1 by lia. done. }
    assert (Hd : drop i orig = x :: drop (S i) orig) by (apply drop_S; done).
    cbn [removeLoop]. rewrite Hax. destruct (x =? id) eqn:E.
    + apply Nat.eqb_eq in E. subst x.
      destruct (IH (S i) a kept (Some id)) as (a' & kept' & r & Heq & Hr & Hk' & Ht'); try done; try lia.
      { rewrite (take_S_r _ _ _ Hx), rm_snoc, decide_True by done. done. }
      exists a', kept', r. split; [done|]. split; [|done].
      rewrite Hr, Hd. rewrite (decide_True (P := id ∈ id :: _)) by left.
      destruct (decide (id ∈ drop (S i) orig)); done.
    + apply Nat.eqb_neq in E.
      assert (Hkl : kept < length a) by lia.
      apply Nat.ltb_lt in Hkl as Hkl'. rewrite Hkl'.
      destruct (IH (S i) (<[kept := x]> a) (S kept) removed) as (a' & kept' & r & Heq & Hr & Hk' & Ht');
        try lia.
      { rewrite insert_length. done. }
      { rewrite (take_S_r _ _ x) by (apply list_lookup_insert; done).
        rewrite take_insert by lia. rewrite Htake.
        rewrite (take_S_r _ _ _ Hx), rm_snoc, decide_False by done. done. }
      { rewrite drop_insert_gt by lia. done. }
      exists a', kept', r. split; [done|]. split; [|done].
      rewrite Hr, Hd.
      destruct (decide (id ∈ drop (S i) orig)) as [Hin|Hnin].
      * rewrite decide_True by (right; done). done.
      * rewrite decide_False; [done|]. intros [?|?]%elem_of_cons; [congruence|done].
Qed.

(** plain [remove] is exactly [filter (≠ id)], order kept; it hands back the removed node iff
    there was one; it cannot fault *)
Lemma remove_spec l id :
  remove l id = Ok (rm id l, if decide (id ∈ l) then Some id else None).
Proof.
  unfold remove.
  destruct (removeLoop_spec l id (length l) 0 l 0 None) as (a' & kept' & r & Heq & Hr & Hk & Ht);
    try done; try lia.
  rewrite Heq. cbn [rbind]. apply Nat.leb_le in Hk as Hk'. rewrite Hk', Ht, Hr. done.
Qed.

(** ** replaceFirst *)

Lemma replaceFirst_length last p ps : length (replaceFirst last p ps) = length ps.
Proof.
  induction ps as [|a ps IH]; simpl; [done|]. destruct (a =? last); simpl; congruence.
Qed.

Lemma replaceFirst_spec last p ps :
  NoDup ps -> last ∈ ps -> p ∉ ps ->
  NoDup (replaceFirst last p ps) /\
  forall i, i ∈ replaceFirst last p ps <-> (i ∈ ps /\ i <> last) \/ i = p.
Proof.
  induction ps as [|a ps IH]; intros Hnd Hin Hp.
  - inversion Hin.
  - apply list.NoDup_cons in Hnd as [Ha Hnd]. apply not_elem_of_cons in Hp as [Hpa Hp].
    simpl. destruct (a =? last) eqn:E.
    + apply Nat.eqb_eq in E. subst a. split.
      * apply list.NoDup_cons. done.
      * intros i. rewrite !elem_of_cons. split.
        -- intros [->|Hi]; [auto|]. left. split; [auto|]. intros ->. done.
        -- intros [[[->|Hi] Hne]| ->]; [done|auto|auto].
    + apply Nat.eqb_neq in E. apply elem_of_cons in Hin as [->|Hin]; [done|].
      destruct (IH Hnd Hin Hp) as [Hnd' Hin']. split.
      * apply list.NoDup_cons. split; [|done]. rewrite Hin'. intros [[? _]| ->]; done.
      * intros i. rewrite !elem_of_cons, Hin'. split.
        -- intros [->|[[? ?]| ->]]; auto.
        -- intros [[[->|?] ?]| ->]; auto.
Qed.

Lemma replaceFirst_take last p ps : forall k,
  last ∈ take k ps -> take k (replaceFirst last p ps) = replaceFirst last p (take k ps).
Proof.
  induction ps as [|a ps IH]; intros k Hin.
  - rewrite take_nil in Hin. inversion Hin.
  - destruct k as [|k]; [inversion Hin|]. simpl in *. destruct (a =? last) eqn:E; simpl.
    + done.
    + apply Nat.eqb_neq in E. apply elem_of_cons in Hin as [->|Hin]; [done|].
      rewrite IH by done. done.
Qed.

Lemma posOf_fixMoved ix m last p j :
  posOf (fixMoved ix m last p) j = if decide (j = m) then replaceFirst last p (posOf ix m) else posOf ix j.
Proof.
  unfold fixMoved. destruct (ix !! m) as [ps|] eqn:E.
  - destruct (decide (j = m)) as [->|Hne].
    + rewrite posOf_insert_eq. unfold posOf. rewrite E. done.
    + rewrite posOf_insert_ne by done. done.
  - destruct (decide (j = m)) as [->|Hne]; [|done]. unfold posOf. rewrite E. done.
Qed.

(** ** the removal loop of edgeIndexRemove *)

(** [k] entries of [id]'s position list are still to be processed: they (and only they) are
    the live positions of [id]; what lies beyond them is stale *)
Definition loop_inv (l : list nat) (ix : index) (id k : nat) : Prop :=
  (forall j, j <> id -> pos_ok l j (posOf ix j)) /\
  pos_ok l id (take k (posOf ix id)) /\
  k <= length (posOf ix id).

Lemma inv_peel l ix id k p :
  loop_inv l ix id (S k) -> posOf ix id !! k = Some p ->
  l !! p = Some id /\ NoDup (take k (posOf ix id)) /\ p ∉ take k (posOf ix id) /\
  forall i, i ∈ take k (posOf ix id) <-> l !! i = Some id /\ i <> p.
Proof.
  intros (_ & [Hnd Hin] & _) Hp. rewrite (take_S_r _ _ _ Hp) in Hnd, Hin.
  apply NoDup_app in Hnd as (Hnd & Hdisj & _).
  assert (Hnotin : p ∉ take k (posOf ix id)).
  { intros H. apply (Hdisj _ H). left. }
  split; [apply Hin, elem_of_app; right; left|]. split; [done|]. split; [done|].
  intros i. rewrite <- Hin, elem_of_app, elem_of_list_singleton. split.
  - intros H. split; [auto|]. intros ->. done.
  - intros [[?|?] ?]; done.
Qed.

Lemma lookup_take_Some (l : list nat) n i y : take n l !! i = Some y <-> i < n /\ l !! i = Some y.
Proof.
  destruct (decide (i < n)).
  - rewrite lookup_take by done. tauto.
  - rewrite lookup_take_ge by lia. split; [done|]. intros [? _]; lia.
Qed.

Lemma lookup_swapped (l : list nat) p m i y :
  p < length l - 1 ->
  take (length l - 1) (<[p := m]> l) !! i = Some y <->
  i < length l - 1 /\ ((i = p /\ y = m) \/ (i <> p /\ l !! i = Some y)).
Proof.
  intros Hp. rewrite lookup_take_Some. destruct (decide (i = p)) as [->|Hne].
  - rewrite list_lookup_insert by lia. split.
    + intros [? [= ->]]. auto.
    + intros [? [[_ ->]|[? _]]]; done.
  - rewrite list_lookup_insert_ne by done. split.
    + intros [? ?]. auto.
    + intros [? [[? _]|[_ ?]]]; done.
Qed.

Lemma snoc_of_last (d : list nat) x : d !! (length d - 1) = Some x -> exists d', d = d' ++ [x].
Proof.
  destruct d as [|a d] using rev_ind; [discriminate|]. clear IHd.
  rewrite app_length. simpl. replace (length d + 1 - 1) with (length d) by lia.
  rewrite lookup_app_r by lia. rewrite Nat.sub_diag. simpl. intros [= ->]. eauto.
Qed.

Lemma split_hole_last (l : list nat) p x m :
  l !! p = Some x -> p <> length l - 1 -> l !! (length l - 1) = Some m ->
  exists l1 mid, l = l1 ++ x :: mid ++ [m] /\ length l1 = p.
Proof.
  intros Hp Hne Hlast. pose proof (lookup_lt_Some _ _ _ Hp) as Hlt.
  pose proof (take_drop_middle l p x Hp) as Hsplit.
  assert (Hd : drop (S p) l !! (length (drop (S p) l) - 1) = Some m).
  { rewrite lookup_drop, drop_length. rewrite <- Hlast. f_equal. lia. }
  apply snoc_of_last in Hd as [mid Hmid].
  exists (take p l), mid. split.
  - rewrite <- Hmid. done.
  - rewrite take_length. lia.
Qed.

Lemma rm_all_notin (id : nat) (l : list nat) : id ∉ l -> rm id l = l.
Proof.
  induction l as [|a l IH]; intros H; [done|].
  apply not_elem_of_cons in H as [Hne Hl]. rewrite filter_cons, decide_True by done.
  rewrite IH by done. done.
Qed.

Lemma step_last l ix id k p :
  loop_inv l ix id (S k) -> posOf ix id !! k = Some p -> p = length l - 1 ->
  loop_inv (take p l) ix id k /\ rm id (take p l) = rm id l.
Proof.
  intros Hinv Hp Hlast. destruct (inv_peel _ _ _ _ _ Hinv Hp) as (Hlp & Hnd & Hnotin & Hin).
  destruct Hinv as (Hoth & _ & Hk).
  pose proof (lookup_lt_Some _ _ _ Hlp) as Hlt.
  split; [split; [|split]|].
  - intros j Hj. destruct (Hoth j Hj) as [Hndj Hinj]. split; [done|].
    intros i. rewrite Hinj, lookup_take_Some. split; [|tauto].
    intros Hi. split; [|done]. pose proof (lookup_lt_Some _ _ _ Hi).
    assert (i <> p) by (intros ->; congruence). lia.
  - split; [done|]. intros i. rewrite Hin, lookup_take_Some. split.
    + intros [Hi ?]. pose proof (lookup_lt_Some _ _ _ Hi). split; [lia|done].
    + intros [? ?]. split; [done|lia].
  - lia.
  - rewrite <- (take_drop_middle l p id Hlp) at 2.
    rewrite drop_ge by lia. rewrite rm_snoc, decide_True by done. done.
Qed.

Lemma step_swap l ix id k p m :
  loop_inv l ix id (S k) -> posOf ix id !! k = Some p -> p <> length l - 1 ->
  l !! (length l - 1) = Some m ->
  loop_inv (take (length l - 1) (<[p := m]> l)) (fixMoved ix m (length l - 1) p) id k /\
  rm id (take (length l - 1) (<[p := m]> l)) ≡ₚ rm id l.
Proof.
  intros Hinv Hp Hne Hm. destruct (inv_peel _ _ _ _ _ Hinv Hp) as (Hlp & Hnd & Hnotin & Hin).
  destruct Hinv as (Hoth & _ & Hk).
  pose proof (lookup_lt_Some _ _ _ Hlp) as Hlt.
  assert (Hpl : p < length l - 1) by lia.
  set (last := length l - 1) in *.
  split; [split; [|split]|].
  - (* the other identifiers *)
    intros j Hj. rewrite posOf_fixMoved. destruct (Hoth j Hj) as [Hndj Hinj].
    destruct (decide (j = m)) as [->|Hjm].
    + destruct (replaceFirst_spec last p (posOf ix m)) as [Hnd' Hin']; [done|by apply Hinj| |].
      { rewrite Hinj. congruence. }
      split; [done|]. intros i. rewrite Hin', Hinj. unfold last. rewrite lookup_swapped by done.
      fold last. split.
      * intros [[Hi ?]| ->]; [|split; [done|auto]].
        pose proof (lookup_lt_Some _ _ _ Hi). split; [lia|]. right. split; [|done].
        intros ->. congruence.
      * intros [? [[-> _]|[? ?]]]; [auto|]. left. split; [done|lia].
    + split; [done|]. intros i. rewrite Hinj. unfold last. rewrite lookup_swapped by done.
      fold last. split.
      * intros Hi. pose proof (lookup_lt_Some _ _ _ Hi).
        assert (i <> last) by (intros ->; congruence).
        assert (i <> p) by (intros ->; congruence).
        split; [lia|auto].
      * intros [? [[_ ?]|[_ ?]]]; [congruence|done].
  - (* the identifier being removed *)
    rewrite posOf_fixMoved. destruct (decide (id = m)) as [<-|Hidm].
    + assert (Hlast_in : last ∈ take k (posOf ix id)).
      { apply Hin. split; [done|]. lia. }
      rewrite replaceFirst_take by done.
      destruct (replaceFirst_spec last p (take k (posOf ix id))) as [Hnd' Hin']; [done..|].
      split; [done|]. intros i. rewrite Hin', Hin. unfold last. rewrite lookup_swapped by done.
      fold last. split.
      * intros [[[Hi ?] ?]| ->]; [|split; [done|auto]].
        pose proof (lookup_lt_Some _ _ _ Hi). split; [lia|auto].
      * intros [? [[-> _]|[? ?]]]; [auto|]. left. split; [done|lia].
    + split; [done|]. intros i. rewrite Hin. unfold last. rewrite lookup_swapped by done.
      fold last. split.
      * intros [Hi ?]. pose proof (lookup_lt_Some _ _ _ Hi).
        assert (i <> last) by (intros ->; congruence).
        split; [lia|auto].
      * intros [? [[_ ?]|[? ?]]]; [congruence|done].
  - rewrite posOf_fixMoved. destruct (decide (id = m)) as [<-|?]; [rewrite replaceFirst_length|]; lia.
  - (* the multiset *)
    destruct (split_hole_last l p id m Hlp Hne Hm) as (l1 & mid & Hl & Hl1).
    assert (Hins : <[p := m]> l = l1 ++ m :: mid ++ [m]).
    { rewrite Hl. rewrite insert_app_r_alt by lia. rewrite Hl1, Nat.sub_diag. done. }
    assert (Htk : take last (<[p := m]> l) = l1 ++ m :: mid).
    { rewrite Hins. replace (l1 ++ m :: mid ++ [m]) with ((l1 ++ m :: mid) ++ [m])
        by (rewrite <- app_assoc; done).
      apply take_app_alt. unfold last. rewrite Hl, !app_length. simpl. rewrite app_length. simpl. lia. }
    rewrite Htk, Hl. rewrite !list.filter_app.
    apply Permutation_app_head.
    rewrite (filter_cons _ id), decide_False by (intros H; apply H; done).
    rewrite list.filter_app.
    change (m :: mid) with ([m] ++ mid). rewrite list.filter_app.
    apply Permutation_app_comm.
Qed.

Lemma removeAt_spec id : forall k l ix removed,
  loop_inv l ix id k ->
  exists l' ix', removeAt k l ix id removed
                 = Ok (l', ix', match k with 0 => removed | S _ => Some id end) /\
    loop_inv l' ix' id 0 /\ rm id l' ≡ₚ rm id l.
Proof.
  induction k as [|k IH]; intros l ix removed Hinv.
  - exists l, ix. done.
  - assert (Hk : k < length (posOf ix id)) by (destruct Hinv as (_ & _ & ?); lia).
    destruct (lookup_lt_is_Some_2 _ _ Hk) as [p Hp].
    destruct (inv_peel _ _ _ _ _ Hinv Hp) as (Hlp & _).
    pose proof (lookup_lt_Some _ _ _ Hlp) as Hlt.
    cbn [removeAt]. rewrite Hp, Hlp. destruct (p =? length l - 1) eqn:E.
    + apply Nat.eqb_eq in E. cbn [rbind].
      destruct (step_last _ _ _ _ _ Hinv Hp E) as [Hinv' Hrm].
      rewrite <- E.
      destruct (IH (take p l) ix (Some id) Hinv') as (l' & ix' & Heq & Hinv'' & Hperm).
      exists l', ix'. rewrite Heq. split; [destruct k; done|]. split; [done|].
      rewrite Hperm, Hrm. done.
    + apply Nat.eqb_neq in E.
      assert (Hl : length l - 1 < length l) by lia.
      destruct (lookup_lt_is_Some_2 _ _ Hl) as [m Hm]. rewrite Hm. cbn [rbind].
      destruct (step_swap _ _ _ _ _ _ Hinv Hp E Hm) as [Hinv' Hrm].
      destruct (IH _ _ (Some id) Hinv') as (l' & ix' & Heq & Hinv'' & Hperm).
      exists l', ix'. rewrite Heq. split; [destruct k; done|]. split; [done|].
      rewrite Hperm, Hrm. done.
Qed.

(** ** edgeIndexRemove *)

Theorem edgeIndexRemove_spec th s id :
  idx_ok s ->
  exists s' r, edgeIndexRemove th s id = Ok (s', r) /\
    idx_ok s' /\
    s'.1 ≡ₚ rm id s.1 /\
    r = (if decide (id ∈ s.1) then Some id else None) /\
    (s.2 = None -> s'.1 = rm id s.1 /\ s'.2 = None) /\
    (is_Some s.2 -> id ∉ s.1 -> s' = s) /\
    (is_Some s.2 -> id ∈ s.1 -> (is_Some s'.2 <-> th / 2 < length s'.1)).
Proof.
  destruct s as [l [ix|]]; intros Hok; cbn [edgeIndexRemove fst snd].
  - apply idx_ok_Some in Hok.
    destruct (pos_ok_in _ _ _ (Hok id)) as [Hin1 Hin2].
    destruct (length (posOf ix id) =? 0) eqn:E.
    + apply Nat.eqb_eq in E. apply nil_length_inv in E.
      assert (Hnotin : id ∉ l) by (intros H; apply Hin1 in H; done).
      exists (l, Some ix), None. split; [done|]. split; [apply idx_ok_Some, Hok|].
      cbn [fst snd]. rewrite rm_all_notin by done. split; [done|].
      rewrite decide_False by done. split; [done|]. split; [done|]. split; [done|]. done.
    + apply Nat.eqb_neq in E.
      assert (Hin : id ∈ l) by (apply Hin2; intros H; rewrite H in E; done).
      assert (Hinv : loop_inv l ix id (length (posOf ix id))).
      { split; [intros j _; apply Hok|]. split; [|done]. rewrite take_ge by done. apply Hok. }
      destruct (removeAt_spec id _ _ _ None Hinv) as (l' & ix' & Heq & (Hoth & Hid & _) & Hperm).
      rewrite Heq. cbn [rbind]. rewrite take_0 in Hid.
      assert (Hl' : l' ≡ₚ rm id l).
      { rewrite <- Hperm. rewrite rm_all_notin; [done|]. apply pos_ok_nil_notin. done. }
      assert (Hok' : all_ok l' (delete id ix')).
      { intros j. destruct (decide (j = id)) as [->|Hne].
        - rewrite posOf_delete_eq. done.
        - rewrite posOf_delete_ne by done. apply Hoth. done. }
      assert (Hr : match length (posOf ix id) with 0 => None | S _ => Some id end = Some id).
      { destruct (length (posOf ix id)); done. }
      rewrite Hr.
      destruct (length l' <=? th / 2) eqn:E2.
      * apply Nat.leb_le in E2. eexists (l', None), _. split; [done|]. cbn [fst snd].
        split; [done|]. split; [done|]. rewrite decide_True by done. split; [done|].
        split; [done|]. split; [done|]. intros _ _. split; [intros [? ?]; done|lia].
      * apply Nat.leb_gt in E2. eexists (l', Some _), _. split; [done|]. cbn [fst snd].
        split; [apply idx_ok_Some, Hok'|]. split; [done|]. rewrite decide_True by done.
        split; [done|]. split; [done|]. split; [done|]. intros _ _. split; [done|eauto].
  - rewrite remove_spec. cbn [rbind]. eexists (_, None), _. split; [done|]. cbn [fst snd].
    split; [done|]. split; [done|]. split; [done|]. split; [done|].
    split; intros [? ?]; done.
Qed.

Lemma edgeIndexRemove_mode th s id s' r :
  idx_ok s -> mode_ok th s -> edgeIndexRemove th s id = Ok (s', r) -> mode_ok th s'.
Proof.
  intros Hok Hmode Heq.
  destruct (edgeIndexRemove_spec th s id Hok) as (s'' & r' & Heq' & _ & Hperm & _ & Hnone & Hmiss & Hhit).
  rewrite Heq in Heq'. injection Heq' as <- <-.
  unfold mode_ok in *. destruct s as [l [ix|]]; cbn [fst snd] in *.
  - destruct (decide (id ∈ l)) as [Hin|Hnin].
    + destruct (Hhit (mk_is_Some _ _ eq_refl) Hin) as [H1 H2].
      destruct (s'.2) as [ix'|] eqn:E.
      * apply H1. eauto.
      * assert (Hle : ~ th / 2 < length s'.1) by (intros H; apply H2 in H as [? ?]; done).
        assert (th / 2 <= th) by (apply Nat.div_le_upper_bound; lia). lia.
    + rewrite (Hmiss (mk_is_Some _ _ eq_refl) Hnin). done.
  - destruct (Hnone eq_refl) as [Hl ->]. rewrite Hl.
    pose proof (filter_length (fun x => x <> id) l). lia.
Qed.

(** ** Runs *)

Definition good (th : nat) (s : t) (l : list nat) : Prop := idx_ok s /\ mode_ok th s /\ s.1 ≡ₚ l.

Lemma step_good th s l o :
  good th s l -> exists s', step th s o = Ok s' /\ good th s' (spec_step l o).
Proof.
  intros (Hok & Hmode & Hperm). destruct o as [x|id]; cbn [step spec_step].
  - eexists. split; [done|]. destruct (append_spec th s x Hok) as [Hl Hok'].
    split; [done|]. split; [apply append_mode; done|]. rewrite Hl, Hperm. done.
  - destruct (edgeIndexRemove_spec th s id Hok) as (s' & r & Heq & Hok' & Hperm' & _).
    rewrite Heq. cbn [rbind]. exists s'. split; [done|]. split; [done|].
    split; [exact (edgeIndexRemove_mode _ _ _ _ _ Hok Hmode Heq)|]. rewrite Hperm', Hperm. done.
Qed.

Lemma run_good th ops : forall s l,
  good th s l -> exists s', run th ops s = Ok s' /\ good th s' (spec_run ops l).
Proof.
  unfold run, spec_run. induction ops as [|o ops IH]; intros s l Hgood; simpl.
  - eauto.
  - destruct (step_good th s l o Hgood) as (s1 & Heq & Hgood1). rewrite Heq. cbn [rbind].
    apply IH. done.
Qed.

Lemma good_empty th : good th empty [].
Proof.
  split; [done|]. split; [|done]. unfold mode_ok, empty; simpl. lia.
Qed.

(** the run theorem: no sequence of appends and removes from the empty list can fault; the
    final list is a permutation of what the plain-list operations give; the invariant holds *)
Theorem run_refines th ops :
  exists s, run th ops empty = Ok s /\ idx_ok s /\ mode_ok th s /\ s.1 ≡ₚ spec_run ops [].
Proof.
  destruct (run_good th ops empty [] (good_empty th)) as (s & Heq & Hok & Hmode & Hperm). eauto.
Qed.

(** ... and so at every intermediate state: a run is the run of any prefix followed by the run
    of the rest, and the state in between satisfies the invariant and holds every identifier
    as often as the plain list does.  This is what C05 needs. *)
Theorem run_refines_everywhere th ops1 ops2 :
  exists s1 s2, run th ops1 empty = Ok s1 /\ run th ops2 s1 = Ok s2 /\
    run th (ops1 ++ ops2) empty = Ok s2 /\
    idx_ok s1 /\ mode_ok th s1 /\ s1.1 ≡ₚ spec_run ops1 [] /\
    forall id, count_occ Nat.eq_dec s1.1 id = count_occ Nat.eq_dec (spec_run ops1 []) id.
Proof.
  destruct (run_good th ops1 empty [] (good_empty th)) as (s1 & Heq1 & Hgood1).
  destruct (run_good th ops2 s1 _ Hgood1) as (s2 & Heq2 & _).
  destruct Hgood1 as (Hok & Hmode & Hperm).
  exists s1, s2. split; [done|]. split; [done|]. split.
  { unfold run in *. rewrite rfold_app, Heq1. done. }
  split; [done|]. split; [done|]. split; [done|].
  apply Permutation_count_occ. done.
Qed.

Corollary run_multiplicities th ops :
  exists s, run th ops empty = Ok s /\
    forall id, count_occ Nat.eq_dec s.1 id = count_occ Nat.eq_dec (spec_run ops []) id.
Proof.
  destruct (run_refines th ops) as (s & Heq & _ & _ & Hperm).
  exists s. split; [done|]. apply Permutation_count_occ. done.
Qed.

(** the index exists exactly in the hysteresis band, whatever the history *)
Corollary run_mode th ops s :
  run th ops empty = Ok s ->
  (s.2 = None -> length s.1 <= th) /\ (is_Some s.2 -> th / 2 < length s.1).
Proof.
  intros Heq. destruct (run_refines th ops) as (s' & Heq' & _ & Hmode & _).
  rewrite Heq in Heq'. injection Heq' as <-. unfold mode_ok in Hmode.
  destruct (s.2); split; try done; intros [? ?]; done.
Qed.

(** ** The aliasing is load-bearing.

    [removeAtSnap] is the loop one would write by reading [positions] ONCE before the loop
    (a copy instead of Go's aliased slice header).  On a reachable state satisfying the
    invariant it faults, while the real loop does not: when the entry moved into a hole
    carries the identifier being removed, the correction of its position must be seen by the
    iterations still to come. *)
Fixpoint removeAtSnap (positions : list nat) (todo : nat) (lst : list nat) (ix : index) (id : nat)
  : res (list nat * index) :=
  match todo with
  | O => Ok (lst, ix)
  | S k =>
    match positions !! k with
    | None => Crash IndexOutOfRange
    | Some position =>
      match lst !! position with
      | None => Crash IndexOutOfRange
      | Some _ =>
        let last := length lst - 1 in
        '(lst1, ix1) <-!
          (if position =? last then Ok (lst, ix)
           else match lst !! last with
                | None => Crash IndexOutOfRange
                | Some moved => Ok (<[position := moved]> lst, fixMoved ix moved last position)
                end);
        removeAtSnap positions k (take last lst1) ix1 id
      end
    end
  end.

Example snapshot_crashes :
  match run 2 [Append 0; Append 1; Append 7; Append 7; Remove 0] empty with
  | Ok (l, Some ix) =>
      l = [7; 1; 7] /\ posOf ix 7 = [2; 0] /\
      removeAtSnap (posOf ix 7) 2 l ix 7 = Crash IndexOutOfRange /\
      is_ok (removeAt 2 l ix 7 None) = true
  | _ => False
  end.
Proof. vm_compute. repeat split; reflexivity. Qed.

(** ** Non-vacuity at the Go threshold

    64 distinct entries, then the same node twice (the index is built by the 65th append),
    then the first entry removed.  The last entry (a duplicate) is swapped into the hole, so
    the state is indexed, holds duplicates, and the position list of the duplicate is
    [[64; 0]], not ascending; removing the duplicate from there works. *)
Definition witness_ops : list op := (Append <$> seq 0 64) ++ [Append 70; Append 70; Remove 0].

Example nonvacuous_64 :
  match run edgeIndexThreshold witness_ops empty with
  | Ok (l, Some ix) =>
      length l = 65 /\ count_occ Nat.eq_dec l 70 = 2 /\ posOf ix 70 = [64; 0] /\
      l !! 0 = Some 70 /\ l !! 64 = Some 70 /\
      match edgeIndexRemove edgeIndexThreshold (l, Some ix) 70 with
      | Ok ((l', Some _), r) => r = Some 70 /\ length l' = 63 /\ count_occ Nat.eq_dec l' 70 = 0
      | _ => False
      end
  | _ => False
  end.
Proof. vm_compute. repeat split; reflexivity. Qed.
