(** Executable correspondence runner for the sentinel model: replays, on [Sentinel], an
    operation sequence the harness (harness/cmd/sentineltrace) played on the real library
    under Stabilize and, on a second graph, under ParallelStabilize, and compares after
    every operation what the public API shows:
      per node  Value(), registered (Graph.Has / Graph.HasSentinel), IsInRecomputeHeap,
                Height (0 when not registered), RecomputedAt, ChangedAt, SetAt, and for a
                sentinel the two halves of its watch edge (ExpertNode.Children of the
                sentinel holds the watched node / ExpertNode.Parents of the watched node
                holds the sentinel);
      per pass  which Map functions ran with which argument and which sentinel predicates
                were evaluated (both sorted by node: the order inside a pass is C18's and
                C04's business). *)
From incr Require Import Base Sentinel.
Local Open Scope nat_scope.

Record nobs := NObs {
  o_val : Z; o_reg : bool; o_queued : bool; o_height : nat;
  o_rAt : nat; o_cAt : nat; o_sAt : nat; o_lchild : bool; o_lparent : bool
}.

Record obs := Obs {
  o_nodes : list nobs;
  o_runs : list (nid * Z);     (* sorted by node *)
  o_evals : list nid           (* sorted *)
}.

Definition nobs_of (x : node) : nobs :=
  NObs (val x) (reg x) (queued x) (if reg x then height x else 0) (rAt x) (cAt x) (sAt x) (lchild x) (lparent x).

Definition nobs_eqb (a b : nobs) : bool :=
  (o_val a =? o_val b)%Z && Bool.eqb (o_reg a) (o_reg b) && Bool.eqb (o_queued a) (o_queued b)
  && (o_height a =? o_height b) && (o_rAt a =? o_rAt b) && (o_cAt a =? o_cAt b) && (o_sAt a =? o_sAt b)
  && Bool.eqb (o_lchild a) (o_lchild b) && Bool.eqb (o_lparent a) (o_lparent b).

Fixpoint all2 {X} (f : X -> X -> bool) (l1 l2 : list X) : bool :=
  match l1, l2 with
  | [], [] => true
  | a :: l1, b :: l2 => f a b && all2 f l1 l2
  | _, _ => false
  end.

Fixpoint ins {X} (key : X -> nat) (x : X) (l : list X) : list X :=
  match l with
  | [] => [x]
  | y :: l' => if key x <=? key y then x :: l else y :: ins key x l'
  end.
Definition sort_by {X} (key : X -> nat) (l : list X) : list X := foldr (ins key) [] l.

Definition matches (s : state) (g : plog) (e : obs) : bool :=
  all2 nobs_eqb (map nobs_of (nodes s)) (o_nodes e)
  && all2 (fun a b => (fst a =? fst b) && (snd a =? snd b)%Z) (sort_by fst (runs g)) (o_runs e)
  && all2 Nat.eqb (sort_by id (evals g)) (o_evals e).

(* index of the first disagreement *)
Fixpoint replay (c : cfg) (s : state) (tr : list (op * obs)) (i : nat) : option nat :=
  match tr with
  | [] => None
  | (o, expected) :: tr =>
    let '(s', g) := step c s o in
    if matches s' g expected then replay c s' tr (S i) else Some i
  end.

Definition case := list (op * obs).

Definition mismatches (c : cfg) (cs : list case) : list (nat * nat) :=
  omap (fun '(k, tr) => match replay c init tr 0 with Some i => Some (k, i) | None => None end)
       (imap (fun k c => (k, c)) cs).
