(** Executable comparison for C20: for each (width, parallelism) the gate harness
    (cmd/batchgate) records the high-water mark of node computations in flight on the REAL
    library while nobody is allowed to finish; the model predicts that number by running the
    same adversary ([Batch.greedy]) on the transition system.  [mismatches] compares with
    the [Semaphore] variant -- what the option promises, [min w p] -- and [mismatches_as_is]
    with the [Current] variant, the transliteration of today's parallel_batch.go. *)
From incr Require Import Base Batch.
Local Open Scope nat_scope.

(** width of the height block, parallelism in force, observed high-water mark *)
Definition case := (nat * nat * nat)%type.

Definition mismatches_of (v : variant) (cs : list case) : list (nat * nat * nat * nat * nat) :=
  omap (fun '(k, (w, p, observed)) =>
          let m := predict v w p in
          if Nat.eqb m observed then None else Some (k, w, p, observed, m))
       (imap (fun k c => (k, c)) cs).

(** (case index, w, p, observed, predicted) for every case that differs from the promise *)
Definition mismatches (cs : list case) := mismatches_of Semaphore cs.

Definition mismatches_as_is (cs : list case) := mismatches_of Current cs.
