(** The bind-free fragment on top of the structural invariant [EngineInv.Inv] (C05):
    1  clean bind-free histories: [Inv] and [ValInv] at every boundary without any per-step
       hypothesis; the history forms of C07 / C12 / C13;
    2  no deferred value survives a pass with writes. *)
From stdpp Require Import sorting.
From incr Require Import Base Heap HeapSpec HeapProofs EngineDefs Engine EngineRun EngineWf Spec
     EngineLemmas EngineLocal SpecProofs EngineInv EngineInvProofs PassInv PassProofs PassPlanProofs.

Local Ltac inv H := inversion H; subst; clear H.
Local Arguments valueOf : simpl never.

(** * 1. From [Inv] *)

Lemma Inv_ObsInv s : Inv s -> ObsInv s.
Proof. intros I o n Ho. apply (ob_ids _ (inv_obs _ I) o n Ho). Qed.

(** (a) the structural invariant after a pass with writes *)
Theorem pass_writes_Inv s p s' :
  Inv s -> ValInv s -> writes_only p = true -> plan_ok s p = true ->
  stabilize p false s = Ok (s', None) -> Inv s' /\ wfb s' = true /\ ValInv s'.
Proof.
  intros I V Hp Hok H. pose proof (Inv_wfb s I) as Hwf.
  destruct (Inv_step_stabilize_bindfree s (Stabilize p) s' None I (proj1 (vi_bf _ V)) Hok eq_refl H) as [I' _];
    [discriminate|discriminate|].
  split; [exact I'|]. split; [apply Inv_wfb, I'|]. exact (step_writes_ValInv s p s' Hwf V Hp Hok H).
Qed.

(** ** what an operation of the fragment can return *)
Lemma structErr_clean e : structErr e -> rejected e = false -> e = None.
Proof. intros [->|[->| ->]]; [reflexivity|discriminate|discriminate]. Qed.

Lemma step_nonpass_result s o s' e :
  static_op o = true -> is_stabilize o = false -> step s o = Ok (s', e) -> rejected e = false -> e = None.
Proof.
  intros Hso Hns H Hr. destruct o; try discriminate Hso; try discriminate Hns; cbn [step] in H;
    try (apply ok_inv in H as [_ ->]; reflexivity); try (apply lift_cases in H as [_ ->]; reflexivity).
  - (* Observe *)
    apply structErr_clean; [|exact Hr]. unfold observe in H. destruct (isNecessary _); [apply ok_inv in H as [_ ->]; left; reflexivity|].
    apply ebind_cases in H as (s1 & e1 & H1%se_becameNecessaryRecursive & [(x & -> & -> & ->)|(-> & H)]); [exact H1|].
    eapply se_lift, H.
  - (* AddInput *)
    apply structErr_clean; [|exact Hr]. unfold addInput in H. destruct (_ =? _); [apply ok_inv in H as [_ ->]; left; reflexivity|].
    apply ebind_cases in H as (s1 & e1 & H1%se_addChild & [(x & -> & -> & ->)|(-> & H)]); [exact H1|].
    eapply se_lift, H.
Qed.

Lemma writes_no_error s p s' e :
  wfb s = true -> ValInv s -> writes_only p = true -> stabilize p false s = Ok (s', e) -> e = None.
Proof.
  intros Hwf V Hp H. destruct (wfb_transients _ Hwf) as (Hst & _).
  destruct (pass_total s Hwf V) as [t' H0].
  destruct (stabilize_decompose p false s s' e Hst H) as (sLp & atp & alp & _ & _ & ELp & _).
  destruct (stabilize_decompose [] false s t' None Hst H0) as (sL & at_ & al & _ & _ & EL & _).
  unfold passResult in ELp, EL. cbv zeta in ELp, EL. simpl in ELp, EL.
  destruct (pass_start_facts s Hwf V) as (HS1 & L1 & _).
  destruct (loop_sim _ _ p _ (EngineLocal.passStart s) (EngineLocal.passStart s) [] sLp e atp alp sL None at_ al
              Hp eq_refl (pendOnly_refl _) HS1 L1 ELp EL) as (_ & He & _). exact He.
Qed.

Lemma planfree_no_error s s' e : wfb s = true -> ValInv s -> stabilize [] false s = Ok (s', e) -> e = None.
Proof. intros Hwf V H. destruct (pass_total s Hwf V) as [t' H0]. rewrite H0 in H. injection H as _ <-. reflexivity. Qed.

Lemma failPlan_result s x s' e :
  wfb s = true -> ValInv s -> stabilize (failPlan x) false s = Ok (s', e) -> e = None \/ e = Some (EUser x).
Proof.
  intros Hwf V H. destruct (wfb_transients _ Hwf) as (Hst & _).
  destruct (stabilize_decompose _ _ _ _ _ Hst H) as (sL & at_ & always & _ & _ & EL & _).
  unfold passResult in EL. cbv zeta in EL. simpl in EL.
  destruct (pass_start_facts s Hwf V) as (HS1 & L1 & HA1).
  destruct (loop_fail _ _ x _ _ [] sL e at_ always HS1 L1 HA1 EL) as (_ & _ & _ & _ & _ & [[-> _]|[-> _]]); auto.
Qed.

Lemma panicPlan_result s x s' e :
  wfb s = true -> ValInv s -> stabilize (panicPlan x) false s = Ok (s', e) -> e = None \/ e = Some (EPanic x).
Proof.
  intros Hwf V H. destruct (wfb_transients _ Hwf) as (Hst & _).
  destruct (stabilize_decompose _ _ _ _ _ Hst H) as (sL & at_ & always & _ & _ & EL & _).
  unfold passResult in EL. cbv zeta in EL. simpl in EL.
  destruct (pass_start_facts s Hwf V) as (HS1 & L1 & HA1).
  destruct (loop_panic _ _ x _ _ [] sL e at_ always HS1 L1 HA1 EL) as [(-> & _)|(-> & _)]; auto.
Qed.

(** a cancelled pass only advances the pass counter *)
Lemma ValInv_tick s s' :
  ValInv s -> nodes s' = nodes s -> heap s' = heap s -> binds s' = binds s -> next s' = next s ->
  stabNum s' = stabNum s + 1 -> ValInv s'.
Proof.
  intros V Hn Hh Hb Hx Hk. pose proof (nodes_eq_nd _ _ Hn) as Hnd. pose proof (vi_bf _ V) as HBF.
  assert (HBF' : BF s').
  { destruct HBF as [B1 B2]. split; [congruence|]. intros n y Hy. rewrite Hn in Hy. pose proof (B2 n y Hy) as H.
    unfold bf_node in *. rewrite Hx. exact H. }
  assert (Hq : forall n, inHeap s' n = inHeap s n) by (intros n; unfold inHeap; rewrite Hh; reflexivity).
  constructor.
  - exact HBF'.
  - intros n. pose proof (stamps_node_true _ _ (vi_stamps _ V n)). unfold stamps_node. rewrite Hnd, Hk.
    rewrite !andb_true_iff, !Z.leb_le, Z.ltb_lt. lia.
  - intros n. rewrite Hnd. apply (vi_unreg _ V n).
  - intros n. rewrite Hnd, (isStale_nodes s s' n Hn), Hq. apply (vi_owed _ V n).
  - intros n. rewrite Hnd, Hq. intros Hg Hnq Hgd.
    rewrite (node_consistent_nodes s s' n Hn (bf_kind s HBF n)). apply (vi_clean _ V n Hg Hnq).
    unfold guarded in *. rewrite Hnd in Hgd. apply forallb_intro. intros p Hp.
    pose proof (forallb_elem _ _ _ Hgd Hp) as H. cbv beta in H. rewrite !Hnd in H.
    apply andb_true_iff in H as [H1 H2]. rewrite H1. simpl. apply negb_true_iff in H2. apply negb_true_iff.
    unfold volq, inW in *. rewrite Hnd in H2. destruct (nkind (nd s p)); try reflexivity.
    + rewrite Hq in H2. exact H2.
    + rewrite ?Hnd, Hk in H2. apply Z.ltb_ge in H2. pose proof (stamps_node_true _ _ (vi_stamps _ V p)). lia.
Qed.

Lemma cancelled_result s s' e :
  wfb s = true -> ValInv s -> stabilize [] true s = Ok (s', e) ->
  (e = None /\ stabilize [] false s = Ok (s', None)) \/ (e = Some ECancelled /\ ValInv s').
Proof.
  intros Hwf V H. destruct (wfb_transients _ Hwf) as (Hst & Hsd & Hsr & _).
  destruct (stabilize_decompose _ _ _ _ _ Hst H) as (sL & at_ & always & s2 & s3 & EL & ER & EP & EE).
  unfold passResult in EL. cbv zeta in EL. cbn [andb] in EL.
  destruct (0 <? Heap.cnt (heap (EngineLocal.passStart s))) eqn:Ec.
  - injection EL as <- <- <- <-. injection ER as <-. injection EP as <-. right. split; [reflexivity|].
    destruct (stabilizeEnd_quiet (EngineLocal.passStart s) _ _ Hsd Hsr EE) as (En & Eh & Eb & Ex & Ek & _).
    apply (ValInv_tick s s' V); assumption.
  - assert (H' : stabilize [] false s = Ok (s', e)).
    { rewrite stabilize_unfold in H |- *. rewrite Hst in *. cbv zeta in *. simpl in *.
      fold (EngineLocal.passStart s) in *. rewrite Ec in H. exact H. }
    pose proof (planfree_no_error s s' e Hwf V H') as He. subst e. left. auto.
Qed.

(** ** clean histories of the fragment *)
Lemma static_op2_nobind o : static_op2 o = true -> op_nobind o = true.
Proof. destruct o; try reflexivity. discriminate. Qed.

(** one operation of a clean history: both invariants again, and what it may have returned *)
Lemma frag_step s o s1 e :
  Inv s -> binds s = ∅ -> ValInv s -> static_op2 o = true ->
  op_ok s o = true -> op_clean s o = true -> step s o = Ok (s1, e) -> rejected e = false ->
  Inv s1 /\ binds s1 = ∅ /\ ValInv s1.
Proof.
  intros I Hb V Hso Hok Hcl H Hr. pose proof (Inv_wfb s I) as Hwf.
  destruct (Inv_run_clean_bindfree_from s [o] s1 I Hb) as [I1 Hb1].
  { simpl. rewrite (static_op2_nobind o Hso). reflexivity. }
  { simpl. rewrite Hok, Hcl, H, Hr. reflexivity. }
  pose proof (Inv_wfb s1 I1) as Hwf1. split; [exact I1|]. split; [exact Hb1|].
  unfold static_op2 in Hso. apply orb_true_iff in Hso as [Hso|Hso].
  - destruct (is_stabilize o) eqn:Est.
    + destruct o; try discriminate Est; cbn [step] in H.
      * apply bool_decide_eq_true in Hso. subst p.
        pose proof (planfree_no_error s s1 e Hwf V H) as ->. apply (pass_consistent s s1 Hwf V H).
      * destruct (cancelled_result s s1 e Hwf V H) as [[-> H']|[_ V1]]; [|exact V1].
        apply (pass_consistent s s1 Hwf V H').
    + pose proof (step_nonpass_result s o s1 e Hso Est H Hr) as ->.
      exact (step_ValInv s o s1 Hwf V Hso Hok H Hwf1).
  - destruct o; try discriminate Hso. cbn [step] in H. apply orb_true_iff in Hso as [Hw|Hf].
    + pose proof (writes_no_error s p s1 e Hwf V Hw H) as ->. exact (step_writes_ValInv s p s1 Hwf V Hw Hok H).
    + destruct (isFailPlan_eq p Hf) as [x [-> | ->]].
      * destruct (failPlan_result s x s1 e Hwf V H) as [-> | ->].
        -- exact (failPlan_none_ValInv s x s1 Hwf V H).
        -- apply (pass_fail_retry s x s1 _ Hwf V H).
      * destruct (panicPlan_result s x s1 e Hwf V H) as [-> | ->].
        -- exact (panicPlan_none_ValInv s x s1 Hwf V H).
        -- apply (pass_panic_retry s x s1 _ Hwf V H).
Qed.

Lemma frag_run_inv os : forall s0 s,
  Inv s0 -> binds s0 = ∅ -> ValInv s0 -> forallb static_op2 os = true -> run_clean s0 os = Some s ->
  Inv s /\ binds s = ∅ /\ ValInv s.
Proof.
  induction os as [|o os IH]; intros s0 s I Hb V Hf H; simpl in H; [injection H as <-; auto|].
  simpl in Hf. apply andb_true_iff in Hf as [Hfo Hf].
  destruct (op_ok s0 o && op_clean s0 o) eqn:Eo; [|discriminate]. apply andb_true_iff in Eo as [Hok Hcl].
  destruct (step s0 o) as [[s1 e]| |] eqn:Es; try discriminate.
  destruct (rejected e) eqn:Er; [discriminate|].
  destruct (frag_step s0 o s1 e I Hb V Hfo Hok Hcl Es Er) as (I1 & Hb1 & V1).
  exact (IH s1 s I1 Hb1 V1 Hf H).
Qed.

Lemma run_clean_split os1 : forall s0 o os2 s',
  run_clean s0 (os1 ++ o :: os2) = Some s' ->
  exists s1 s2 e, run_clean s0 os1 = Some s1 /\ op_ok s1 o = true /\ op_clean s1 o = true /\
                  step s1 o = Ok (s2, e) /\ rejected e = false /\ run_clean s2 os2 = Some s'.
Proof.
  induction os1 as [|o1 os1 IH]; intros s0 o os2 s' H; simpl in H.
  - destruct (op_ok s0 o && op_clean s0 o) eqn:Eo; [|discriminate]. apply andb_true_iff in Eo as [Hok Hcl].
    destruct (step s0 o) as [[s1 e]| |] eqn:Es; try discriminate.
    destruct (rejected e) eqn:Er; [discriminate|]. exists s0, s1, e. simpl. auto 10.
  - destruct (op_ok s0 o1 && op_clean s0 o1) eqn:Eo; [|discriminate].
    destruct (step s0 o1) as [[s1 e]| |] eqn:Es; try discriminate.
    destruct (rejected e) eqn:Er; [discriminate|].
    destruct (IH s1 o os2 s' H) as (t1 & t2 & e2 & R1 & Hrest). exists t1, t2, e2. split; [|exact Hrest].
    simpl. rewrite Eo, Es, Er. exact R1.
Qed.

(** the invariants at every boundary of a clean history of the fragment from the empty graph *)
Theorem frag_history_inv mh os s :
  (0 < mh)%nat -> forallb static_op2 os = true -> run_clean (init mh) os = Some s ->
  Inv s /\ binds s = ∅ /\ ValInv s /\ wfb s = true /\ ObsInv s.
Proof.
  intros Hmh Hf H. destruct (frag_run_inv os (init mh) s (Inv_init mh Hmh) eq_refl (ValInv_init mh) Hf H) as (I & Hb & V).
  split; [exact I|]. split; [exact Hb|]. split; [exact V|]. split; [apply Inv_wfb, I|apply Inv_ObsInv, I].
Qed.

(** C07 / C01 for histories, no structural hypothesis left: every plan-free pass of a clean
    history of the fragment succeeds and ends consistent, with every observer agreeing with the
    from-scratch evaluation, whatever writes and failures earlier passes had *)
Theorem history_planfree_pass mh os1 os2 s' :
  (0 < mh)%nat -> forallb static_op2 (os1 ++ Stabilize [] :: os2) = true ->
  run_clean (init mh) (os1 ++ Stabilize [] :: os2) = Some s' ->
  exists s1 s2, run_clean (init mh) os1 = Some s1 /\ step s1 (Stabilize []) = Ok (s2, None) /\
                consistent s2 = true /\ observers_agree s2 = true /\ Inv s2 /\ ValInv s2.
Proof.
  intros Hmh Hf H. destruct (run_clean_split _ _ _ _ _ H) as (s1 & s2 & e & R1 & Hok & Hcl & Hst & Hr & _).
  rewrite forallb_app in Hf. apply andb_true_iff in Hf as [Hf1 _].
  assert (Hfo : static_op2 (Stabilize []) = true) by reflexivity.
  destruct (frag_history_inv mh os1 s1 Hmh Hf1 R1) as (I1 & Hb1 & V1 & Hwf1 & _).
  cbn [step] in Hst. pose proof (planfree_no_error s1 s2 e Hwf1 V1 Hst) as ->.
  destruct (pass_all s1 s2 Hwf1 V1 Hst) as (Hc & _ & V2 & Ho).
  destruct (frag_step s1 (Stabilize []) s2 None I1 Hb1 V1 Hfo Hok Hcl Hst eq_refl) as (I2 & _ & _).
  exists s1, s2. auto 10.
Qed.

(** C13 for histories: the handler events of every plan-free pass *)
Theorem history_planfree_handlers mh os1 os2 s' :
  (0 < mh)%nat -> forallb static_op2 (os1 ++ Stabilize [] :: os2) = true ->
  run_clean (init mh) (os1 ++ Stabilize [] :: os2) = Some s' ->
  exists s1 s2 L H, run_clean (init mh) os1 = Some s1 /\ step s1 (Stabilize []) = Ok (s2, None) /\
    rev (log s2) = rev (log s1) ++ [EvPassStart] ++ L ++ [EvPassEnd XOk] ++ H /\
    Forall passEv L /\ Forall EngineLocal.isHandlerEv H /\ NoDup H /\
    (forall n, EvUpd n ∈ H <-> inGraph (nd s2 n) = true /\ changedAt (nd s2 n) = stabNum s1) /\
    (forall o v, EvObsUpd o v ∈ H <->
       exists n, obs s2 !! o = Some n /\ changedAt (nd s2 n) = stabNum s1 /\ v = valueOf s2 n).
Proof.
  intros Hmh Hf H. destruct (history_planfree_pass mh os1 os2 s' Hmh Hf H) as (s1 & s2 & R1 & Hst & _).
  rewrite forallb_app in Hf. apply andb_true_iff in Hf as [Hf1 _].
  destruct (frag_history_inv mh os1 s1 Hmh Hf1 R1) as (_ & _ & V1 & Hwf1 & HO1).
  destruct (pass_handlers s1 s2 Hwf1 V1 HO1 Hst) as (L & HH & A). exists s1, s2, L, HH. auto.
Qed.

(** the handler events of a pass with writes: those of the write-free pass; the values the
    observers see are those of the moment the computations ended *)
Theorem pass_handlers_writes s p s' :
  wfb s = true -> ValInv s -> ObsInv s -> writes_only p = true -> plan_ok s p = true ->
  stabilize p false s = Ok (s', None) ->
  exists sLp at_ al L H,
    passResult p false s = Ok (sLp, None, at_, al) /\
    rev (log s') = rev (log s) ++ [EvPassStart] ++ L ++ [EvPassEnd XOk] ++ H /\
    Forall passEv L /\ Forall EngineLocal.isHandlerEv H /\ NoDup H /\
    (forall n, EvUpd n ∈ H <-> inGraph (nd s' n) = true /\ changedAt (nd s' n) = stabNum s) /\
    (forall o v, EvObsUpd o v ∈ H <->
       exists n, obs s' !! o = Some n /\ changedAt (nd s' n) = stabNum s /\ v = valueOf sLp n).
Proof.
  intros Hwf V HO Hp Hok H. destruct (pass_writes s p s' Hwf V Hp Hok H) as (t' & sLp & sL & at_ & al & E).
  destruct (pass_handlers s t' Hwf V HO (we_free _ _ _ _ _ _ _ _ E)) as (L & HH & A1 & A2 & A3 & A4 & A5 & A6).
  exists sLp, at_, al, L, HH. split; [apply E|]. rewrite (we_log _ _ _ _ _ _ _ _ E).
  split; [exact A1|]. split; [exact A2|]. split; [exact A3|]. split; [exact A4|].
  assert (Hf : forall n, inGraph (nd s' n) = inGraph (nd t' n) /\ changedAt (nd s' n) = changedAt (nd t' n)).
  { intros n. destruct (vps_fields _ _ (we_vps _ _ _ _ _ _ _ _ E n)) as (_ & _ & _ & _ & _ & _ & Hc & _ & _ & _ & _ & _ & Hg). auto. }
  destruct (we_fields _ _ _ _ _ _ _ _ E) as (_ & _ & Eo & _).
  assert (Hval : forall q, valueOf t' q = valueOf sLp q).
  { intros q. rewrite (valueOf_nodes sL t' q (we_nodes_free _ _ _ _ _ _ _ _ E)).
    apply (valueOf_pendOnly _ _ q (we_sim _ _ _ _ _ _ _ _ E)). }
  split.
  - intros n. destruct (Hf n) as [-> ->]. apply A5.
  - intros o v. rewrite (A6 o v), Eo. split; intros (n & H1 & H2 & H3); exists n; destruct (Hf n) as [_ Ec].
    + rewrite Ec, <- Hval. auto.
    + rewrite Ec in H2. rewrite <- Hval in H3. auto.
Qed.

(** C12 for histories: every pass with a writing plan in a clean history of the fragment *)
Theorem history_writes_pass mh os1 p os2 s' :
  (0 < mh)%nat -> writes_only p = true -> forallb static_op2 (os1 ++ Stabilize p :: os2) = true ->
  run_clean (init mh) (os1 ++ Stabilize p :: os2) = Some s' ->
  exists s1 s2, run_clean (init mh) os1 = Some s1 /\ step s1 (Stabilize p) = Ok (s2, None) /\
    (exists t' sLp sL at_ al, writesEnd s1 p s2 t' sLp sL at_ al) /\ Inv s2 /\ ValInv s2.
Proof.
  intros Hmh Hp Hf H. destruct (run_clean_split _ _ _ _ _ H) as (s1 & s2 & e & R1 & Hok & Hcl & Hst & Hr & _).
  rewrite forallb_app in Hf. apply andb_true_iff in Hf as [Hf1 Hf2]. simpl in Hf2. apply andb_true_iff in Hf2 as [Hfo _].
  destruct (frag_history_inv mh os1 s1 Hmh Hf1 R1) as (I1 & Hb1 & V1 & Hwf1 & _).
  cbn [step] in Hst. pose proof (writes_no_error s1 p s2 e Hwf1 V1 Hp Hst) as ->.
  destruct (pass_writes_Inv s1 p s2 I1 V1 Hp Hok Hst) as (I2 & _ & V2).
  exists s1, s2. split; [exact R1|]. split; [exact Hst|]. split; [|auto].
  exact (pass_writes s1 p s2 Hwf1 V1 Hp Hok Hst).
Qed.

(** ** example: [PassPlanProofs.ex_history2] is a clean history *)
Lemma ex_history2_clean :
  forallb static_op2 ex_history2 = true /\ exists s', run_clean (init 64) ex_history2 = Some s'.
Proof.
  split; [vm_compute; reflexivity|].
  assert (H : match run_clean (init 64) ex_history2 with Some _ => true | None => false end = true)
    by (vm_compute; reflexivity).
  destruct (run_clean (init 64) ex_history2) as [s'|]; [eauto|discriminate H].
Qed.

Lemma ex_history3_clean :
  forallb static_op2 ex_history3 = true /\ exists s', run_clean (init 64) ex_history3 = Some s'.
Proof.
  split; [vm_compute; reflexivity|].
  assert (H : match run_clean (init 64) ex_history3 with Some _ => true | None => false end = true)
    by (vm_compute; reflexivity).
  destruct (run_clean (init 64) ex_history3) as [s'|]; [eauto|discriminate H].
Qed.

(** * 2. No deferred value survives a pass with writes *)

(** during a pass: a var holds a deferred value only if it is filed in [setDuring] *)
Definition PendQ (s : state) : Prop := forall n, pending (nd s n) <> None -> n ∈ setDuring s.

(* steps that touch neither [pending] nor [setDuring] *)
Definition pqf (s s' : state) : Prop :=
  (forall n, pending (nd s' n) = pending (nd s n)) /\ setDuring s' = setDuring s.

Lemma pqf_refl s : pqf s s. Proof. split; reflexivity. Qed.
Lemma pqf_trans s1 s2 s3 : pqf s1 s2 -> pqf s2 s3 -> pqf s1 s3.
Proof. intros [A1 A2] [B1 B2]. split; [intros n; rewrite B1; apply A1|congruence]. Qed.
Lemma pqf_PendQ s s' : pqf s s' -> PendQ s -> PendQ s'.
Proof. intros [A1 A2] Q n Hn. rewrite A2. apply Q. rewrite <- A1. exact Hn. Qed.
Lemma pqf_upd s n f : (forall x, pending (f x) = pending x) -> pqf s (upd s n f).
Proof. intros Hf. split; [intros m; apply (nd_upd_proj pending); exact Hf|reflexivity]. Qed.
Lemma pqf_emit s e : pqf s (emit e s). Proof. split; reflexivity. Qed.
Lemma pqf_hhOnly s s' : hhOnly s s' -> pqf s s'.
Proof. intros (w & h & ->). split; reflexivity. Qed.
Lemma pqf_heapOnly s s' : heapOnly s s' -> pqf s s'.
Proof. intros (w & ->). split; reflexivity. Qed.

Lemma varSet_midpass_PendQ s v x s' : status s = 1 -> varSet s v x = Ok s' -> PendQ s -> PendQ s'.
Proof.
  intros Hst. rewrite (C12_midpass_set_is_deferred _ _ _ Hst). destruct (eqNoop s v x); intros [= <-] Q; [exact Q|].
  destruct (deferSet_frame s v x) as (_ & _ & _ & _ & _ & _ & _ & _ & _ & _ & _ & _ & _ & _ & Esd & _ & Eo & _).
  intros n Hn. rewrite Esd. apply elem_of_insert_sorted. destruct (decide (n = v)) as [->|Hne]; [left; reflexivity|].
  right. apply Q. rewrite <- (Eo n Hne). exact Hn.
Qed.

Lemma applyActions_PendQ acts : forall s f s' f',
  status s = 1 ->
  rfold (fun '(s, f) a =>
         match f with
         | Some _ => Ok (s, f)
         | None =>
           match a with
           | AFail k => Ok (s, Some k)
           | ASet v x => s <-! varSet s v x; Ok (s, None)
           | AUpdate v d => s <-! varUpdate s v d; Ok (s, None)
           end
         end) acts (s, f) = Ok (s', f') -> PendQ s -> PendQ s'.
Proof.
  induction acts as [|a acts IH]; intros s f s' f' Hst H Q; cbn [rfold] in H.
  - injection H as <- <-. exact Q.
  - apply rbind_ok in H as ([s1 f1] & H1 & H).
    assert (P1 : PendQ s1 /\ status s1 = 1).
    { destruct f; [injection H1 as <- <-; auto|].
      destruct a; [injection H1 as <- <-; auto| |];
        apply rbind_ok in H1 as (s2 & H2 & [= <- <-]);
        (split; [eapply varSet_midpass_PendQ; eauto|rewrite (varSet_status _ _ _ _ H2); exact Hst]). }
    destruct P1 as [Q1 Hst1]. eapply IH; eauto.
Qed.

Lemma invoke_PendQ p s n w s' e : status s = 1 -> invoke p s n w = Ok (s', e) -> PendQ s -> PendQ s'.
Proof.
  intros Hst H Q. unfold invoke, applyActions in H. apply rbind_ok in H as ([s1 f] & H1 & H).
  pose proof (applyActions_PendQ _ _ _ _ _ Hst H1 Q) as Q1.
  destruct f as [[]|]; injection H as <- <-; [apply (pqf_PendQ s1), Q1; apply pqf_emit..|exact Q1].
Qed.

Lemma pf_status s s' : pframe s s' -> status s' = status s.
Proof. intros (_ & _ & E & _). exact E. Qed.

Lemma rns_PendQ fuel p s n s' e imm :
  status s = 1 -> isBindKind (nkind (nd s n)) = false ->
  recomputeNodeSerial fuel p s n = Ok (s', e, imm) -> PendQ s -> PendQ s'.
Proof.
  intros Hst Hk H Q. rewrite recomputeNodeSerial_unfold in H. cbv zeta in H.
  set (s0 := upd s n (set recomputedAt (fun _ => stabNum s))) in *.
  assert (Q0 : PendQ s0) by (apply (pqf_PendQ s); [apply pqf_upd; reflexivity|exact Q]).
  assert (Hst0 : status s0 = 1) by exact Hst.
  assert (Hk0 : nkind (nd s0 n) = nkind (nd s n)) by (apply (nd_upd_proj nkind); reflexivity).
  apply rbind_ok in H as ([[s1 e1] cut] & H1 & H).
  assert (Hst1 : status s1 = 1) by (rewrite (pf_status _ _ (pf_maybeCutoff _ _ _ _ _ _ _ H1)); exact Hst0).
  assert (Hk1 : nkind (nd s1 n) = nkind (nd s n)).
  { pose proof H1 as H1'. apply maybeCutoff_spec in H1' as (V1 & _). destruct (vps_fields _ _ (V1 n)) as (-> & _). exact Hk0. }
  assert (Hr1 : has s n -> recomputedAt (nd s1 n) = stabNum s1).
  { intros Hn. pose proof H1 as H1'. apply maybeCutoff_spec in H1' as (V1 & _).
    destruct (vps_fields _ _ (V1 n)) as (_ & _ & _ & _ & _ & -> & _).
    destruct (pf_maybeCutoff _ _ _ _ _ _ _ H1) as (_ & -> & _). unfold s0. rewrite nd_upd_eq by exact Hn. reflexivity. }
  assert (Q1 : PendQ s1).
  { unfold maybeCutoff in H1. destruct (nkind (nd s n)); try (injection H1 as <- _ _; exact Q0).
    apply rbind_ok in H1 as ([s2 e2] & H2 & H1). pose proof (invoke_PendQ _ _ _ _ _ _ Hst0 H2 Q0) as Q2.
    destruct e2; injection H1 as <- _ _; [exact Q2|]. apply (pqf_PendQ s2); [apply pqf_emit|exact Q2]. }
  (* the failure tail keeps both *)
  assert (Hfail : forall t prev x t' e' i', PendQ t -> failTail t n prev x = Ok (t', e', i') -> PendQ t').
  { intros t prev x t' e' i' Qt Hf. unfold failTail, recomputeFailed in Hf.
    assert (Hgen : forall t3, heapAddIfNotPresent (upd t n (set recomputedAt (fun _ => prev))) n = Ok t3 ->
              PendQ (errorHandlers t3 n)).
    { intros t3 H3. apply (pqf_PendQ t); [|exact Qt].
      eapply pqf_trans; [apply (pqf_upd t n (set recomputedAt (fun _ => prev))); reflexivity|].
      eapply pqf_trans; [apply pqf_heapOnly; eapply heapAddIfNotPresent_heapOnly; exact H3|].
      unfold errorHandlers. destruct (nkind (nd t3 n)); try apply pqf_emit.
      eapply pqf_trans; apply pqf_emit. }
    destruct x; first [injection Hf as <- _ _; exact Qt
                      |apply rbind_ok in Hf as (t3 & H3 & Hf); injection Hf as <- _ _; apply Hgen, H3]. }
  destruct e1 as [x|]; [eapply Hfail; eauto|].
  destruct cut; [injection H as <- _ _; exact Q1|].
  apply rbind_ok in H as ([s2 e2] & H2 & H).
  assert (Q2 : PendQ s2).
  { unfold stabilizeNode in H2. rewrite Hk1 in H2.
    destruct (nkind (nd s n)) eqn:K; try discriminate Hk.
    - (* var: the deferred value is not taken mid-pass *)
      destruct (decide (has s n)) as [Hn|Hn].
      + rewrite (Hr1 Hn), Z.eqb_refl in H2. destruct (pending (nd s1 n)); apply ok_inv in H2 as [-> _]; exact Q1.
      + assert (nkind (nd s n) = KReturn) by (rewrite (not_has_nd s n Hn); reflexivity). congruence.
    - apply ok_inv in H2 as [-> _]. exact Q1.
    - apply rbind_ok in H2 as ([t e0] & Hi & H2). pose proof (invoke_PendQ _ _ _ _ _ _ Hst1 Hi Q1) as Qt.
      destruct e0; [apply fail_inv in H2 as [-> _]; exact Qt|]. apply ok_inv in H2 as [-> _].
      apply (pqf_PendQ t); [|exact Qt].
      split; [intros m; rewrite nd_emit; apply (nd_upd_proj pending); reflexivity|reflexivity].
    - apply rbind_ok in H2 as ([t e0] & Hi & H2). pose proof (invoke_PendQ _ _ _ _ _ _ Hst1 Hi Q1) as Qt.
      destruct e0; [apply fail_inv in H2 as [-> _]; exact Qt|]. apply ok_inv in H2 as [-> _].
      apply (pqf_PendQ t); [|exact Qt].
      split; [intros m; rewrite nd_emit; apply (nd_upd_proj pending); reflexivity|reflexivity].
    - apply rbind_ok in H2 as ([t e0] & Hi & H2). pose proof (invoke_PendQ _ _ _ _ _ _ Hst1 Hi Q1) as Qt.
      destruct e0; [apply fail_inv in H2 as [-> _]; exact Qt|]. apply ok_inv in H2 as [-> _].
      apply (pqf_PendQ t); [|exact Qt].
      split; [intros m; rewrite nd_emit; apply (nd_upd_proj pending); reflexivity|reflexivity].
    - apply ok_inv in H2 as [-> _]. apply (pqf_PendQ s1); [apply pqf_upd; reflexivity|exact Q1].
    - apply ok_inv in H2 as [-> _]. exact Q1. }
  destruct e2 as [x|]; [eapply Hfail; eauto|].
  apply successTail_shape in H as (_ & Hh). apply (pqf_PendQ s2); [|exact Q2].
  eapply pqf_trans; [apply (pqf_upd s2 n (set changedAt (fun _ => stabNum s2))); reflexivity|apply pqf_hhOnly, Hh].
Qed.

Lemma chain_PendQ h0 base p fuel : forall s t n s' e1 a1 t' e2 a2,
  writes_only p = true -> status s = 1 -> pendOnly s t -> Struct t -> LInv h0 base t (Some n) ->
  recomputeChain fuel p s n = Ok (s', e1, a1) -> recomputeChain fuel [] t n = Ok (t', e2, a2) ->
  PendQ s -> PendQ s'.
Proof.
  induction fuel as [|fuel IH]; intros s t n s' e1 a1 t' e2 a2 Hp Hst P HS L Hs Ht Q; [discriminate|].
  cbn [recomputeChain] in Hs, Ht.
  destruct (recomputeNodeSerial fuel p s n) as [[[s1 x1] i1]| |] eqn:Es; simpl in Hs; try discriminate.
  destruct (recomputeNodeSerial fuel [] t n) as [[[t1 x2] i2]| |] eqn:Et; simpl in Ht; try discriminate.
  assert (Hk : isBindKind (nkind (nd s n)) = false).
  { rewrite <- (pendOnly_nkind s t n P). apply (bf_kind t (li_bf _ _ _ _ L)). }
  pose proof (rns_PendQ fuel p s n s1 x1 i1 Hst Hk Es Q) as Q1.
  destruct (C12_midpass_noninterference_recompute_partial fuel p [] s t n s1 x1 i1 t1 x2 i2 Hst P) as (P1 & <- & <- & _);
    [| |exact Es|exact Et|].
  { intros w. rewrite (writes_only_noFault p n w Hp). reflexivity. }
  { intros b Hb. rewrite Hb in Hk. discriminate. }
  destruct (rns_preserves_LInv h0 base fuel t n t1 x1 i1 HS L Et) as [-> L1].
  assert (Hg : inGraph (nd t n) = true).
  { apply (li_orig _ _ _ _ L n). left. apply inW_iff; [apply (li_heap _ _ _ _ L)|]. right; reflexivity. }
  destruct (rns_step fuel t n t1 None i1 (li_bf _ _ _ _ L) (has_inGraph _ _ Hg) (proj1 (li_heap _ _ _ _ L)) Et) as [_ PP].
  pose proof (stepPost_sframe _ _ _ _ PP) as F1.
  destruct i1 as [c|].
  - apply (IH s1 t1 c s' e1 a1 t' e2 a2 Hp); try assumption.
    + rewrite <- (pendOnly_status s1 t1 P1), (sf_status _ _ F1), (pendOnly_status s t P). exact Hst.
    + exact (sf_Struct _ _ F1 HS).
  - injection Hs as <- _ _. exact Q1.
Qed.

Lemma loop_PendQ h0 base p fuel : forall s t al s' e1 a1 al1 t' e2 a2 al2,
  writes_only p = true -> status s = 1 -> pendOnly s t -> Struct t -> LInv h0 base t None ->
  passLoop fuel p s al = Ok (s', e1, a1, al1) -> passLoop fuel [] t al = Ok (t', e2, a2, al2) ->
  PendQ s -> PendQ s'.
Proof.
  induction fuel as [|fuel IH]; intros s t al s' e1 a1 al1 t' e2 a2 al2 Hp Hst P HS L Hs Ht Q; [discriminate|].
  cbn [passLoop] in Hs, Ht. pose proof P as (Hheap & _). rewrite Hheap in Ht.
  destruct (Heap.cnt (heap s) <=? 0); [injection Hs as <- _ _ _; exact Q|].
  destruct (Heap.removeMin (heap s)) as [[n w]|] eqn:Erm; [|discriminate].
  set (s2 := s <| heap := w |>) in *. set (t2 := t <| heap := w |>) in *.
  assert (P2 : pendOnly s2 t2) by (apply pendOnly_set_heap, P).
  assert (Hk : nkind (nd t2 n) = nkind (nd s2 n)) by (apply (pendOnly_nkind s2 t2 n P2)).
  rewrite Hk in Ht.
  destruct (recomputeChain fuel p s2 n) as [[[s3 x1] b1]| |] eqn:Es; simpl in Hs; try discriminate.
  destruct (recomputeChain fuel [] t2 n) as [[[t3 x2] b2]| |] eqn:Et; simpl in Ht; try discriminate.
  assert (Erm' : Heap.removeMin (heap t) = Some (n, w)) by (rewrite Hheap; exact Erm).
  pose proof (pop_LInv h0 base t n w HS L Erm') as L2. fold t2 in L2.
  assert (F2 : sframe t t2) by apply sframe_set_heap.
  pose proof (sf_Struct _ _ F2 HS) as HS2.
  assert (Q2 : PendQ s2) by exact Q.
  pose proof (chain_PendQ h0 base p fuel s2 t2 n s3 x1 b1 t3 x2 b2 Hp Hst P2 HS2 L2 Es Et Q2) as Q3.
  destruct (chain_sim h0 base p fuel s2 t2 n s3 x1 b1 t3 x2 b2 Hp Hst P2 HS2 L2 Es Et) as (P3 & <- & <-).
  destruct (chain_LInv h0 base fuel t2 n t3 x1 b1 HS2 L2 Et) as (-> & L3 & F3 & _).
  eapply (IH s3 t3 _ s' e1 a1 al1 t' e2 a2 al2 Hp); [| | | |exact Hs|exact Ht|exact Q3]; try assumption.
  - rewrite <- (pendOnly_status s3 t3 P3), (sf_status _ _ F3). change (status t2) with (status t).
    rewrite (pendOnly_status s t P). exact Hst.
  - exact (sf_Struct _ _ F3 HS2).
Qed.

(** the quiescent condition: no var holds a deferred value *)
Definition PendNone (s : state) : Prop := forall n, pending (nd s n) = None.
Definition pendnone_b (s : state) : bool :=
  forallb (fun '(n, x) => negb (bool_decide (is_Some (pending x)))) (map_to_list (nodes s)).
Lemma pendnone_b_sound s : pendnone_b s = true -> PendNone s.
Proof.
  intros H n. destruct (nodes s !! n) as [x|] eqn:E; [|rewrite (nd_missing _ _ E); reflexivity].
  rewrite (EngineLemmas.nd_lookup _ _ _ E). apply elem_of_map_to_list in E. pose proof (forallb_elem _ _ _ H E) as Hb.
  cbv beta iota in Hb. apply negb_true_iff, bool_decide_eq_false in Hb. destruct (pending x); [exfalso; apply Hb; eauto|reflexivity].
Qed.

Theorem pass_writes_pending s p s' :
  wfb s = true -> ValInv s -> PendNone s -> writes_only p = true -> plan_ok s p = true ->
  stabilize p false s = Ok (s', None) -> PendNone s'.
Proof.
  intros Hwf V HP Hp Hpok H. destruct (wfb_transients _ Hwf) as (Hst & Hsd & Hsr & Hh).
  pose proof (vi_bf _ V) as HBF.
  destruct (pass_total s Hwf V) as [t' H0].
  destruct (stabilize_decompose p false s s' None Hst H) as (sLp & atp & alp & s2p & s3p & ELp & ERp & EPp & EEp).
  destruct (stabilize_decompose [] false s t' None Hst H0) as (sL & at_ & al & sR & s3 & EL & ER & EP & EE).
  apply recoverPanic_None in EPp as ->.
  pose proof ELp as ELp'. pose proof EL as EL'. unfold passResult in ELp', EL'. cbv zeta in ELp', EL'. simpl in ELp', EL'.
  destruct (pass_start_facts s Hwf V) as (HS1 & L1 & _).
  set (s1 := EngineLocal.passStart s) in *.
  assert (Q1 : PendQ s1).
  { intros n Hn. change (nd s1 n) with (nd s n) in Hn. rewrite (HP n) in Hn. congruence. }
  pose proof (loop_PendQ _ _ p _ s1 s1 [] sLp None atp alp sL None at_ al Hp eq_refl (pendOnly_refl s1) HS1 L1 ELp' EL' Q1) as QL.
  pose proof (requeue_only_heap _ _ _ ERp) as ORp.
  destruct (stabilizeEnd_unfold _ _ EEp) as (u1 & Ed & Es').
  destruct (endU_facts s2p) as (Un & _ & _ & _ & Uk & Usd & Usr & _).
  assert (HvL : Forall (fun v => isVar sLp v = true) (setRemoved sLp ++ setDuring sLp)).
  { apply (passResult_deferred_are_vars p false s sLp None atp alp); [|exact Hpok| |exact ELp].
    - intros n Hn. apply (bf_has_lt s HBF n Hn).
    - rewrite Hsd, Hsr. constructor. }
  assert (Hndu : forall m, nd (endU s2p) m = nd sLp m).
  { intros m. rewrite (nodes_eq_nd _ _ Un m). apply (oh_nd _ _ ORp). }
  assert (Elist : setRemoved (endU s2p) ++ setDuring (endU s2p) = setRemoved sLp ++ setDuring sLp).
  { rewrite Usr, Usd, (oh_setRemoved _ _ ORp), (oh_setDuring _ _ ORp). reflexivity. }
  rewrite Elist in Ed.
  assert (HvU : Forall (fun v => isVar (endU s2p) v = true) (setRemoved sLp ++ setDuring sLp)).
  { eapply List.Forall_impl; [|exact HvL]. intros w Hw. apply isVar_spec in Hw as [k Hk]. apply isVar_spec.
    exists k. rewrite Hndu. exact Hk. }
  destruct (dsteps_inv _ _ _ HvU Ed) as (_ & Hvals).
  intros n. rewrite Es'. change (pending (nd u1 n) = None).
  destruct (pending (nd sLp n)) as [x|] eqn:Epn.
  - assert (Hin : n ∈ setDuring sLp) by (apply QL; rewrite Epn; discriminate).
    apply (proj2 (Hvals n x)).
    + apply elem_of_app. right. exact Hin.
    + rewrite Hndu. exact Epn.
    + (* the stamp is from this pass at most, the counter has advanced *)
      rewrite Hndu, Uk, (oh_stabNum _ _ ORp).
      destruct (loop_sim _ _ p _ s1 s1 [] sLp None atp alp sL None at_ al Hp eq_refl (pendOnly_refl s1) HS1 L1 ELp' EL')
        as (PL & _).
      assert (HA1 : AlwaysOK s1 []) by (apply (pass_start_facts s Hwf V)).
      destruct (loop_LInv _ _ _ s1 [] sL None at_ al HS1 L1 HA1 EL') as (_ & LL & _).
      destruct (pendOnly_fields _ _ n PL) as (_ & _ & _ & Er & _).
      pose proof PL as (_ & _ & Ek & _).
      pose proof (stamps_node_false _ _ (li_stamps _ _ _ _ LL n)) as Hs. rewrite Er, Ek in Hs. lia.
  - apply (proj1 (Hvals n (value (nd (endU s2p) n)))). split; [reflexivity|]. rewrite Hndu. exact Epn.
Qed.
