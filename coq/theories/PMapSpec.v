(** Statements shared by the pmap proofs: the abstraction of a tree to its sorted list of
    entries, the representation invariants, and the tiny list-level reference ("what a
    sorted reference map would do") that the operations of [PMap] are shown to refine. *)
From incr Require Import Base PMap.

(** * Abstraction and invariants *)

(* in-order entries *)
Fixpoint elems (t : tree) : list (Z * Z) :=
  match t with
  | E => []
  | T l k v r _ _ => elems l ++ (k, v) :: elems r
  end.

(* real height and size, recomputed (the cached fields are data) *)
Fixpoint height (t : tree) : Z :=
  match t with E => 0 | T l _ _ r _ _ => Z.max (height l) (height r) + 1 end.
Fixpoint size (t : tree) : Z :=
  match t with E => 0 | T l _ _ r _ _ => size l + size r + 1 end.

(* binary search tree: everything on the left is smaller, everything on the right larger *)
Fixpoint bst (t : tree) : Prop :=
  match t with
  | E => True
  | T l k _ r _ _ =>
    bst l /\ bst r /\
    Forall (fun p => fst p < k) (elems l) /\ Forall (fun p => k < fst p) (elems r)
  end.

(* AVL balance on the real heights *)
Fixpoint avl (t : tree) : Prop :=
  match t with
  | E => True
  | T l _ _ r _ _ => avl l /\ avl r /\ -1 <= height l - height r <= 1
  end.

(* the cached height and size of every node are the real ones *)
Fixpoint cached (t : tree) : Prop :=
  match t with
  | E => True
  | T l _ _ r h s =>
    cached l /\ cached r /\ h = Z.max (height l) (height r) + 1 /\ s = size l + size r + 1
  end.

(* what every Map value handed out by the package satisfies *)
Definition ok (t : tree) : Prop := bst t /\ avl t /\ cached t.

(* what diff and split need, and preserve: split produces unbalanced trees *)
Definition wf (t : tree) : Prop := bst t /\ cached t.

(** * The reference: an association list sorted by key *)

Fixpoint sorted (l : list (Z * Z)) : Prop :=
  match l with
  | [] => True
  | (k, _) :: l' => Forall (fun p => k < fst p) l' /\ sorted l'
  end.

Fixpoint l_get (k : Z) (l : list (Z * Z)) : option Z :=
  match l with
  | [] => None
  | (k', v') :: l' => if k' =? k then Some v' else l_get k l'
  end.

Fixpoint l_insert (k v : Z) (l : list (Z * Z)) : list (Z * Z) :=
  match l with
  | [] => [(k, v)]
  | (k', v') :: l' =>
    if k <? k' then (k, v) :: l
    else if k' <? k then (k', v') :: l_insert k v l'
    else (k, v) :: l'
  end.

Fixpoint l_delete (k : Z) (l : list (Z * Z)) : list (Z * Z) :=
  match l with
  | [] => []
  | (k', v') :: l' => if k' =? k then l' else (k', v') :: l_delete k l'
  end.

(* entries with key < k, > k, within [lo, hi] *)
Fixpoint below (k : Z) (l : list (Z * Z)) : list (Z * Z) :=
  match l with
  | [] => []
  | p :: l' => if fst p <? k then p :: below k l' else below k l'
  end.
Fixpoint above (k : Z) (l : list (Z * Z)) : list (Z * Z) :=
  match l with
  | [] => []
  | p :: l' => if k <? fst p then p :: above k l' else above k l'
  end.
Fixpoint between (lo hi : Z) (l : list (Z * Z)) : list (Z * Z) :=
  match l with
  | [] => []
  | p :: l' => if (lo <=? fst p) && (fst p <=? hi) then p :: between lo hi l' else between lo hi l'
  end.

(* first and last entry *)
Definition l_head {A} (l : list A) : option A := match l with [] => None | x :: _ => Some x end.
Fixpoint l_last {A} (l : list A) : option A :=
  match l with
  | [] => None
  | x :: l' => match l_last l' with None => Some x | Some y => Some y end
  end.

Definition is_some {A} (o : option A) : bool := match o with Some _ => true | None => false end.

(** reference for SetAll / DeleteAll, stated pointwise *)
Definition l_setAll_get (m : gomap) (l : list (Z * Z)) (k : Z) : option Z :=
  match l_get k m with Some v => Some v | None => l_get k l end.
Definition l_deleteAll_get (ks : list Z) (l : list (Z * Z)) (k : Z) : option Z :=
  if bool_decide (k ∈ ks) then None else l_get k l.

(** * The reference diff: merge of two sorted lists

    For every entry of the older list in turn: first the newer entries with smaller keys
    (additions), then the verdict on this key, and on with the newer entries above it. *)
Definition verdict (equal : option (Z -> Z -> bool)) (k old : Z) (newer : option Z) : list change :=
  match newer with
  | None => [Removed k old]
  | Some new =>
    match equal with
    | Some eqf => if eqf old new then [] else [Updated k old new]
    | None => []
    end
  end.

Definition added (l : list (Z * Z)) : list change := map (fun '(k, v) => Added k v) l.
Definition removed (l : list (Z * Z)) : list change := map (fun '(k, v) => Removed k v) l.

Fixpoint merge_diff (equal : option (Z -> Z -> bool)) (older newer : list (Z * Z)) : list change :=
  match older with
  | [] => added newer
  | (k, v) :: older' =>
    added (below k newer) ++ verdict equal k v (l_get k newer) ++
    merge_diff equal older' (above k newer)
  end.

(* whether [equal] calls two values different; nil never does *)
Definition differs (equal : option (Z -> Z -> bool)) (old new : Z) : Prop :=
  match equal with Some eqf => eqf old new = false | None => False end.

Definition eq_reflexive (equal : option (Z -> Z -> bool)) : Prop :=
  match equal with Some eqf => forall v, eqf v v = true | None => True end.

(* the one change, if any, that the two lists call for at key k *)
Definition change_at (equal : option (Z -> Z -> bool)) (older newer : list (Z * Z)) (k : Z) : option change :=
  match l_get k older, l_get k newer with
  | None, None => None
  | None, Some new => Some (Added k new)
  | Some old, None => Some (Removed k old)
  | Some old, Some new =>
    match equal with
    | Some eqf => if eqf old new then None else Some (Updated k old new)
    | None => None
    end
  end.

(* change lists strictly increasing in key: each key at most once, in key order *)
Fixpoint key_sorted (l : list change) : Prop :=
  match l with
  | [] => True
  | c :: l' => Forall (fun c' => change_key c < change_key c') l' /\ key_sorted l'
  end.

(** * The reference fold for the reducer: in-order, left to right *)
Section Fold.
  Context {R : Type}.
  Variable project : Z -> Z -> R.
  Variable combine : R -> R -> R.

  Fixpoint fold_list (l : list (Z * Z)) : option R :=
    match l with
    | [] => None
    | (k, v) :: l' =>
      match fold_list l' with
      | None => Some (project k v)
      | Some rest => Some (combine (project k v) rest)
      end
    end.

  (* every memo entry is the fold of its subtree *)
  Definition memo_sound (m : list (tree * R)) : Prop :=
    forall t c, In (t, c) m -> fold_list (elems t) = Some c.
End Fold.

(** * Histories: operations applied to any earlier version *)
Inductive mop :=
| OSet (k v : Z)
| ODelete (k : Z)
| OSetAll (m : gomap)
| ODeleteAll (ks : list Z).

Definition apply_op (t : tree) (o : mop) : res tree :=
  match o with
  | OSet k v => insert t k v
  | ODelete k => remove t k
  | OSetAll m => setAll t m
  | ODeleteAll ks => deleteAll t ks
  end.

(* the reference's answer to a lookup after the operation *)
Definition spec_get (l : list (Z * Z)) (o : mop) (k : Z) : option Z :=
  match o with
  | OSet k' v => if k =? k' then Some v else l_get k l
  | ODelete k' => if k =? k' then None else l_get k l
  | OSetAll m => l_setAll_get m l k
  | ODeleteAll ks => l_deleteAll_get ks l k
  end.

(* versions in creation order; version 0 is the empty map; [(src, o)] applies [o] to
   version [src] and appends the result *)
Fixpoint run_history (vs : list tree) (h : list (nat * mop)) : option (list tree) :=
  match h with
  | [] => Some vs
  | (src, o) :: h' =>
    match vs !! src with
    | Some t => match apply_op t o with Ok t' => run_history (vs ++ [t']) h' | _ => None end
    | None => None
    end
  end.

Definition valid_history (n : nat) (h : list (nat * mop)) : Prop :=
  forall i src o, h !! i = Some (src, o) -> (src < n + i)%nat.
