(** Proofs about the from-scratch semantics of Spec.v.

    - Theorem A (the state-level half of C01): in ANY state whose structural invariant holds
      ([wfb], plus the three extra boolean facts [closed], [templates_ok] defined here) local
      consistency ([consistent]) determines the values: every registered node that holds a
      value holds exactly what [eval] computes from scratch, for every fuel above an explicit
      bound ([rank s n + 1 <= next s]); hence [observers_agree].
    - the spec-level half of C11: [eval]/[evalT] treat an equality cutoff as the identity, and
      erasing every equality cutoff of a program does not change its from-scratch meaning.
    - the spec-level half of C09: [eval] does not read the memoisation fields of a bind. *)
From stdpp Require Import sorting.
From incr Require Import Base Heap HeapSpec EngineDefs Engine EngineWf Spec.

(** * Extra structural facts needed besides [wfb] (boolean, so that they can be tested) *)

(* a node other than a bind's lhs-change node: one that holds a value *)
Definition notLhs (s : state) (a : nid) : bool :=
  match nkind (nd s a) with KBindLhs _ => false | _ => true end.

(** [closed]: for every node record [n |-> x] of the state
    - its id is below the creation counter;
    - an Always node has exactly one declared input, created before it, which holds a value;
    - a bind main node of bind [b] is node [S b], bind [b] has a record, node [b] is its
      lhs-change node, and its right-hand side (the declared inputs after the first) holds a value;
    - every declared input of any other node holds a value (is not a lhs-change node). *)
Definition node_closed (s : state) (n : nid) (x : node) : bool :=
  (n <? next s)%nat &&
  match nkind x with
  | KAlways => match decl x with [a] => (a <? n)%nat && notLhs s a | _ => false end
  | KBindMain b =>
    bool_decide (n = S b) && bool_decide (is_Some (binds s !! b))
    && bool_decide (nkind (nd s b) = KBindLhs b) && forallb (notLhs s) (tl (decl x))
  | _ => forallb (notLhs s) (decl x)
  end.

(** [closed]: all node records are [node_closed], and observers observe nodes that hold a value *)
Definition closed (s : state) : bool :=
  forallb (fun '(n, x) => node_closed s n x) (map_to_list (nodes s))
  && forallb (fun '(o, n) => notLhs s n) (map_to_list (obs s)).

(** [templates_ok]: no bind template contains a parity cutoff.  ([evalT] gives no value to
    [TCut CParity]: a history-dependent cutoff created inside a bind is not a function of the
    inputs.  This is a restriction on the PROGRAM -- the case tables given to [NewBind] -- and
    case tables never change.) *)
Fixpoint parity_free (e : texp) : bool :=
  match e with
  | TRet _ | TX | TOuter _ | TNil => true
  | TMap _ e => parity_free e
  | TMap2 _ e1 e2 => parity_free e1 && parity_free e2
  | TCut c e => negb (bool_decide (c = CParity)) && parity_free e
  | TBind cases e => forallb parity_free cases && parity_free e
  end.

Definition templates_ok (s : state) : bool :=
  forallb (fun '(b, r) => forallb parity_free (b_cases r)) (map_to_list (binds s)).

(** the explicit fuel bound: the number of registered nodes strictly lower than [n] *)
Definition rank (s : state) (n : nid) : nat :=
  length (filter (fun m => (height (nd s m) < height (nd s n))%Z) (registered s)).

(** * Small general facts *)
Lemma forallb_elem_of {A} (f : A -> bool) l x : forallb f l = true -> x ∈ l -> f x = true.
Proof. intros H Hx. rewrite forallb_forall in H. apply H. by apply elem_of_list_In. Qed.

Lemma forallb_gmap {A} (f : nat * A -> bool) (m : gmap nat A) k x :
  forallb f (map_to_list m) = true -> m !! k = Some x -> f (k, x) = true.
Proof. intros H Hk. eapply forallb_elem_of; [exact H|]. by apply elem_of_map_to_list. Qed.

Lemma filter_length_mono_lt {A} (P Q : A -> Prop) `{!forall x, Decision (P x)} `{!forall x, Decision (Q x)}
      (l : list A) (a : A) :
  (forall x, P x -> Q x) -> a ∈ l -> Q a -> ~ P a ->
  (length (filter P l) < length (filter Q l))%nat.
Proof.
  intros HPQ. induction l as [|y l IH]; intros Ha Hq Hp.
  - by apply elem_of_nil in Ha.
  - assert (Hle : (length (filter P l) <= length (filter Q l))%nat).
    { clear -HPQ. induction l as [|z l IH]; [done|].
      rewrite !filter_cons. destruct (decide (P z)) as [Hz|Hz].
      - destruct (decide (Q z)) as [|Hn]; [simpl; lia|]. destruct Hn; auto.
      - destruct (decide (Q z)); simpl; lia. }
    rewrite !filter_cons. apply elem_of_cons in Ha as [<-|Ha].
    + destruct (decide (P a)); [done|]. destruct (decide (Q a)); [simpl; lia|done].
    + specialize (IH Ha Hq Hp).
      destruct (decide (P y)) as [Hy|Hy].
      * destruct (decide (Q y)) as [|Hn]; [simpl; lia|]. destruct Hn; auto.
      * destruct (decide (Q y)); simpl; lia.
Qed.

Lemma count_occ_n_pos x l : x ∈ l -> (0 < count_occ_n x l)%nat.
Proof.
  intros Hx. unfold count_occ_n.
  assert (Hin : x ∈ filter (fun y => y = x) l) by (apply elem_of_list_filter; auto).
  destruct (filter (fun y => y = x) l); [by apply elem_of_nil in Hin|simpl; lia].
Qed.

Lemma count_occ_n_pos_inv x l : (0 < count_occ_n x l)%nat -> x ∈ l.
Proof.
  unfold count_occ_n. intros H.
  destruct (filter (fun y => y = x) l) as [|z l'] eqn:E; [simpl in H; lia|].
  assert (Hz : z ∈ filter (fun y => y = x) l) by (rewrite E; left).
  apply elem_of_list_filter in Hz as [-> Hz]. done.
Qed.

Lemma mapM_Some {A B} (f : A -> option B) (g : A -> B) l :
  (forall a, a ∈ l -> f a = Some (g a)) -> mapM f l = Some (map g l).
Proof.
  induction l as [|a l IH]; intros H; [done|]. simpl.
  rewrite (H a) by left. rewrite IH; [done|]. intros b Hb. apply H. by right.
Qed.

(** * Boolean equality of templates is equality *)
Fixpoint texp_eqb_eq (a b : texp) {struct a} : texp_eqb a b = true -> a = b.
Proof.
  destruct a, b; simpl; intros H; try discriminate H.
  - apply Z.eqb_eq in H. by subst.
  - done.
  - apply Nat.eqb_eq in H. by subst.
  - apply andb_true_iff in H as [H1 H2]. apply bool_decide_eq_true in H1. subst.
    f_equal. by apply texp_eqb_eq.
  - apply andb_true_iff in H as [H H3]. apply andb_true_iff in H as [H1 H2].
    apply bool_decide_eq_true in H1. subst. f_equal; by apply texp_eqb_eq.
  - apply andb_true_iff in H as [H1 H2]. apply bool_decide_eq_true in H1. subst.
    f_equal. by apply texp_eqb_eq.
  - apply andb_true_iff in H as [H1 H2]. f_equal; [|by apply texp_eqb_eq].
    clear H2. revert cases0 H1.
    induction cases as [|x l IH]; intros [|y l'] H; try discriminate H; [done|].
    apply andb_true_iff in H as [H1 H2]. f_equal; [by apply texp_eqb_eq|by apply IH].
  - done.
Qed.

Lemma texps_eqb_eq l l' : texps_eqb l l' = true -> l = l'.
Proof.
  revert l'. induction l as [|x l IH]; intros [|y l'] H; try discriminate H; [done|].
  simpl in H. apply andb_true_iff in H as [H1 H2]. f_equal; [by apply texp_eqb_eq|by apply IH].
Qed.

Lemma parity_free_select cases x : forallb parity_free cases = true -> parity_free (select cases x) = true.
Proof.
  intros H. unfold select.
  destruct (nth_in_or_default (Z.to_nat (x mod Z.of_nat (length cases))) cases TNil) as [Hin| ->]; [|done].
  rewrite forallb_forall in H. by apply H.
Qed.

(** * The clauses of [wfb] *)
Lemma wfb_clauses s : wfb s = true ->
  edges_symmetric s = true /\ registered_iff_necessary s = true /\ parents_are_declared s = true
  /\ heights_ordered s = true /\ observers_ok s = true /\ binds_ok s = true.
Proof.
  unfold wfb, codes. intros H. apply bool_decide_eq_true in H.
  destruct (edges_symmetric s); [|discriminate H].
  destruct (unregistered_zeroed s); [|discriminate H].
  destruct (registered_iff_necessary s); [|discriminate H].
  destruct (parents_are_declared s); [|discriminate H].
  destruct (heights_ordered s); [|discriminate H].
  destruct (queued_ok s); [|discriminate H].
  destruct (counts_ok s); [|discriminate H].
  destruct (transients_empty s); [|discriminate H].
  destruct (observers_ok s); [|discriminate H].
  destruct (binds_ok s); [|discriminate H].
  done.
Qed.

Lemma nd_lookup s n x : nodes s !! n = Some x -> nd s n = x.
Proof. unfold nd. by intros ->. Qed.

Lemma nd_none s n : nodes s !! n = None -> nd s n = dummy.
Proof. unfold nd. by intros ->. Qed.

Lemma valueOf_not_always s n : nkind (nd s n) <> KAlways -> valueOf s n = value (nd s n).
Proof. unfold valueOf. simpl. intros H. destruct (nkind (nd s n)); try done. Qed.

(** * Theorem A *)
Section TheoremA.
  Variable s : state.
  Hypothesis Hwf : wfb s = true.
  Hypothesis Hcl : closed s = true.
  Hypothesis Htp : templates_ok s = true.
  Hypothesis Hco : consistent s = true.

  Definition R (n : nid) : Prop := inGraph (nd s n) = true.

  Lemma closed_node n x : nodes s !! n = Some x -> node_closed s n x = true.
  Proof using Hcl. clear Hwf Htp Hco.
    intros H. unfold closed in Hcl. apply andb_true_iff in Hcl as [H1 _].
    exact (forallb_gmap _ _ _ _ H1 H).
  Qed.

  Lemma some_lt n : is_Some (nodes s !! n) -> (n < next s)%nat.
  Proof using Hcl. clear Hwf Htp Hco.
    intros [x Hx]. pose proof (closed_node _ _ Hx) as H. unfold node_closed in H.
    apply andb_true_iff in H as [H _]. by apply Nat.ltb_lt in H.
  Qed.

  Lemma R_some n : R n -> is_Some (nodes s !! n).
  Proof using. clear Hwf Hcl Htp Hco.
    unfold R. intros H. destruct (nodes s !! n) eqn:E; [eauto|].
    rewrite (nd_none _ _ E) in H. discriminate H.
  Qed.

  Lemma some_all n : is_Some (nodes s !! n) -> n ∈ allNodes s.
  Proof using Hcl. clear Hwf Htp Hco.
    intros H. unfold allNodes. apply elem_of_list_filter. split; [done|].
    apply elem_of_seq. pose proof (some_lt _ H). lia.
  Qed.

  Lemma R_all n : R n -> n ∈ allNodes s.
  Proof using Hcl. clear Hwf Htp Hco. intros H. by apply some_all, R_some. Qed.

  Lemma R_registered n : R n -> n ∈ registered s.
  Proof using Hcl. clear Hwf Htp Hco.
    intros H. unfold registered. apply elem_of_list_filter. split; [done|].
    apply elem_of_seq. pose proof (some_lt _ (R_some _ H)). lia.
  Qed.

  Lemma R_cons n : R n -> valid (nd s n) = true /\ node_consistent s n = true.
  Proof using Hcl Hco. clear Hwf Htp.
    intros H. unfold consistent in Hco.
    pose proof (forallb_elem_of _ _ _ Hco (R_registered _ H)) as H1.
    by apply andb_true_iff in H1.
  Qed.

  Lemma R_parents_decl n : R n -> parents (nd s n) ≡ₚ decl (nd s n).
  Proof using Hwf Hcl Hco. clear Htp.
    intros H. destruct (wfb_clauses _ Hwf) as (_ & _ & Hpd & _).
    pose proof (forallb_elem_of _ _ _ Hpd (R_all _ H)) as H1. cbv beta zeta in H1.
    unfold R in H. rewrite H in H1. simpl in H1.
    destruct (R_cons _ H) as [Hv _]. rewrite Hv in H1. apply bool_decide_eq_true in H1.
    unfold sortn in H1.
    rewrite <- (merge_sort_Permutation Nat.le (parents (nd s n))).
    rewrite <- (merge_sort_Permutation Nat.le (decl (nd s n))). by rewrite H1.
  Qed.

  Lemma parent_R n a : R n -> a ∈ parents (nd s n) -> R a /\ (height (nd s a) < height (nd s n))%Z.
  Proof using Hwf Hcl. clear Htp Hco.
    intros Hn Ha. destruct (wfb_clauses _ Hwf) as (Hes & Hrn & _ & Hho & _).
    pose proof (forallb_elem_of _ _ _ Hes (R_all _ Hn)) as H1. cbv beta in H1.
    apply andb_true_iff in H1 as [H1 _].
    pose proof (forallb_elem_of _ _ _ H1 Ha) as H2. cbv beta in H2. apply Nat.eqb_eq in H2.
    pose proof (count_occ_n_pos _ _ Ha) as Hpos. rewrite H2 in Hpos.
    apply count_occ_n_pos_inv in Hpos.
    assert (Hsome : is_Some (nodes s !! a)).
    { destruct (nodes s !! a) eqn:E; [eauto|]. rewrite (nd_none _ _ E) in Hpos.
      simpl in Hpos. by apply elem_of_nil in Hpos. }
    pose proof (forallb_elem_of _ _ _ Hrn (some_all _ Hsome)) as H3. cbv beta in H3.
    assert (Hnec : isNecessary (nd s a) = true).
    { unfold isNecessary. destruct (children (nd s a)) eqn:E; [by apply elem_of_nil in Hpos|].
      rewrite bool_decide_eq_false_2 by done. simpl. by rewrite orb_true_r. }
    rewrite Hnec in H3. split.
    - unfold R. by destruct (inGraph (nd s a)).
    - pose proof (forallb_elem_of _ _ _ Hho (R_all _ Hn)) as H4. cbv beta zeta in H4.
      unfold R in Hn. rewrite Hn in H4. simpl in H4.
      apply andb_true_iff in H4 as [H4 _]. apply andb_true_iff in H4 as [_ H4].
      pose proof (forallb_elem_of _ _ _ H4 Ha) as H5. cbv beta in H5. by apply Z.ltb_lt in H5.
  Qed.

  Lemma rank_lt n a : R n -> R a -> (height (nd s a) < height (nd s n))%Z -> (rank s a < rank s n)%nat.
  Proof using Hcl. clear Hwf Htp Hco.
    intros Hn Ha Hlt. unfold rank.
    apply (filter_length_mono_lt _ _ _ a); [intros; lia|by apply R_registered|done|lia].
  Qed.

  Lemma rank_bound n : R n -> (rank s n + 1 <= next s)%nat.
  Proof using Hcl. clear Hwf Htp Hco.
    intros Hn. unfold rank.
    pose proof (filter_length_lt (fun m => (height (nd s m) < height (nd s n))%Z) (registered s) n
                  (R_registered _ Hn)) as H.
    assert (Hl : (length (registered s) <= next s)%nat).
    { unfold registered. etrans; [apply filter_length|]. by rewrite seq_length. }
    assert (~ (height (nd s n) < height (nd s n))%Z) by lia. specialize (H H0). lia.
  Qed.

  Lemma decl_R n a : R n -> a ∈ decl (nd s n) -> R a /\ (rank s a < rank s n)%nat.
  Proof using Hwf Hcl Hco. clear Htp.
    intros Hn Ha. rewrite <- (R_parents_decl _ Hn) in Ha.
    destruct (parent_R _ _ Hn Ha) as [H1 H2]. split; [done|]. by apply rank_lt.
  Qed.

  (** Always nodes: [valueOf] reads through *)
  Lemma always_shape n : nkind (nd s n) = KAlways ->
    exists a, decl (nd s n) = [a] /\ (a < n)%nat /\ notLhs s a = true.
  Proof using Hcl. clear Hwf Htp Hco.
    intros Hk. destruct (nodes s !! n) as [x|] eqn:E.
    - pose proof (closed_node _ _ E) as H. rewrite (nd_lookup _ _ _ E) in *.
      unfold node_closed in H. rewrite Hk in H. apply andb_true_iff in H as [_ H].
      destruct (decl x) as [|a [|? ?]]; try discriminate H.
      apply andb_true_iff in H as [H1 H2]. apply Nat.ltb_lt in H1. eauto.
    - rewrite (nd_none _ _ E) in Hk. discriminate Hk.
  Qed.

  Lemma valueOf_stable : forall a F, (S a <= F)%nat -> valueOf_ F s a = valueOf_ (S a) s a.
  Proof using Hcl. clear Hwf Htp Hco.
    intros a. induction (lt_wf a) as [a _ IH]. intros F HF.
    destruct F as [|F]; [lia|]. cbn [valueOf_].
    destruct (nkind (nd s a)) eqn:Hk; try reflexivity.
    destruct (always_shape _ Hk) as (a' & Hd & Hlt & _). rewrite Hd.
    rewrite (IH a' Hlt F) by lia. rewrite (IH a' Hlt a) by lia. done.
  Qed.

  Lemma valueOf_always n a : nkind (nd s n) = KAlways -> decl (nd s n) = [a] -> (a < n)%nat ->
    valueOf s n = valueOf s a.
  Proof using Hcl. clear Hwf Htp Hco.
    intros Hk Hd Hlt. unfold valueOf at 1. cbn [valueOf_]. rewrite Hk, Hd.
    unfold valueOf. apply valueOf_stable. lia.
  Qed.

  (** everything known about a registered bind main node *)
  Definition rkO (r : option nid) : nat := match r with Some x => rank s x | None => 0%nat end.
  Definition valO (r : option nid) : Z := match r with Some x => valueOf s x | None => 0 end.

  Lemma bindmain_facts n b : R n -> nkind (nd s n) = KBindMain b ->
    n = S b /\ b_main (bd s b) = n
    /\ R b /\ (rank s b < rank s n)%nat
    /\ R (b_lhs (bd s b)) /\ (rank s (b_lhs (bd s b)) < rank s b)%nat /\ notLhs s (b_lhs (bd s b)) = true
    /\ (forall x, b_rhs (bd s b) = Some x -> R x /\ (rank s x < rank s n)%nat /\ notLhs s x = true)
    /\ forallb parity_free (b_cases (bd s b)) = true.
  Proof using Hwf Hcl Htp Hco.
    intros Hn Hk. destruct (R_some _ Hn) as [x Hx].
    pose proof (closed_node _ _ Hx) as Hc. pose proof (nd_lookup _ _ _ Hx) as Hnd.
    unfold node_closed in Hc. rewrite <- Hnd in Hc. rewrite Hk in Hc.
    apply andb_true_iff in Hc as [_ Hc]. apply andb_true_iff in Hc as [Hc Hc4].
    apply andb_true_iff in Hc as [Hc Hc3]. apply andb_true_iff in Hc as [Hc1 Hc2].
    apply bool_decide_eq_true in Hc1, Hc2, Hc3. destruct Hc2 as [rec Hrec].
    assert (Hbd : bd s b = rec) by (unfold bd; by rewrite Hrec). rewrite Hbd.
    destruct (wfb_clauses _ Hwf) as (_ & _ & _ & _ & _ & Hbo).
    pose proof (forallb_gmap _ _ _ _ Hbo Hrec) as Hb. cbv beta iota in Hb.
    apply andb_true_iff in Hb as [Hb _]. apply andb_true_iff in Hb as [Hb Hb4].
    apply andb_true_iff in Hb as [Hb Hb3]. apply andb_true_iff in Hb as [Hb1 Hb2].
    apply bool_decide_eq_true in Hb1, Hb2, Hb3, Hb4. rewrite <- Hc1 in Hb3.
    assert (Hbin : b ∈ decl (nd s n)) by (rewrite Hb3; destruct (b_rhs rec); left).
    destruct (decl_R _ _ Hn Hbin) as [HRb Hrb].
    assert (Hlin : b_lhs rec ∈ decl (nd s b)) by (rewrite Hb4; left).
    destruct (decl_R _ _ HRb Hlin) as [HRl Hrl].
    assert (Hnl : notLhs s (b_lhs rec) = true).
    { destruct (R_some _ HRb) as [xb Hxb]. pose proof (closed_node _ _ Hxb) as Hcb.
      pose proof (nd_lookup _ _ _ Hxb) as Hndb. unfold node_closed in Hcb.
      rewrite <- Hndb in Hcb. rewrite Hc3, Hb4 in Hcb. apply andb_true_iff in Hcb as [_ Hcb].
      simpl in Hcb. by apply andb_true_iff in Hcb as [Hcb _]. }
    split; [done|]. split; [congruence|]. do 5 (split; [done|]). split.
    - intros r Hr. rewrite Hr in Hb3.
      assert (Hrin : r ∈ decl (nd s n)) by (rewrite Hb3; right; left).
      destruct (decl_R _ _ Hn Hrin) as [HRr Hrr]. do 2 (split; [done|]).
      rewrite Hb3 in Hc4. simpl in Hc4. by apply andb_true_iff in Hc4 as [Hc4 _].
    - unfold templates_ok in Htp. exact (forallb_gmap _ _ _ _ Htp Hrec).
  Qed.

  Lemma decl_notLhs n a : R n -> (forall b, nkind (nd s n) <> KBindMain b) ->
    a ∈ decl (nd s n) -> notLhs s a = true.
  Proof using Hcl. clear Hwf Htp Hco.
    intros Hn Hk Ha. destruct (R_some _ Hn) as [x Hx].
    pose proof (closed_node _ _ Hx) as Hc. pose proof (nd_lookup _ _ _ Hx) as Hnd.
    unfold node_closed in Hc. rewrite <- Hnd in Hc. apply andb_true_iff in Hc as [_ Hc].
    destruct (nkind (nd s n)) eqn:E; try (exact (forallb_elem_of _ _ _ Hc Ha)).
    - destruct (decl (nd s n)) as [|a' [|? ?]]; try discriminate Hc.
      apply andb_true_iff in Hc as [_ Hc]. apply elem_of_list_singleton in Ha. by subst.
    - by destruct (Hk b).
  Qed.

  (** the two statements proved together by induction on the rank *)
  Definition P (n : nid) : Prop :=
    forall F, (rank s n + 1 <= F)%nat -> eval s F n = Some (valueOf s n).
  Definition Q (n : nid) : Prop :=
    forall b, nkind (nd s n) = KBindMain b ->
    forall F F', (rkO (b_rhs (bd s b)) + 1 <= F)%nat -> (rank s n <= F')%nat ->
    evalT F (eval s F') (valueOf s (b_lhs (bd s b)))
          (select (b_cases (bd s b)) (valueOf s (b_lhs (bd s b)))) = Some (value (nd s n)).

  (* [lia] on the order facts only (it is very slow when the context holds the big boolean facts) *)
  Ltac nlia :=
    repeat match goal with
           | H : ?T |- _ =>
             lazymatch T with
             | (_ < _)%nat => fail
             | (_ <= _)%nat => fail
             | _ => clear H
             end
           end; lia.

  (** a template that [matches] an instantiated right-hand side evaluates to its value *)
  Lemma template_sound K :
    (forall m, R m -> (rank s m < K)%nat -> notLhs s m = true -> P m /\ Q m) ->
    forall e fm bx x r, matches fm s bx x e r = true -> parity_free e = true ->
      (forall r', r = Some r' -> R r' /\ (rank s r' < K)%nat /\ notLhs s r' = true) ->
      forall F F', (rkO r + 1 <= F)%nat -> (K <= F')%nat ->
      evalT F (eval s F') x e = Some (valO r).
  Proof using Hwf Hcl Htp Hco.
    intros IHK. induction e as [k| |m|f e IHe|f e1 IHe1 e2 IHe2|c e IHe|cases e IHe|];
      intros fm bx x r Hm Hpf Hr F F' HF HF';
      (destruct fm as [|fm]; [discriminate Hm|]); (destruct F as [|F]; [nlia|]);
      destruct r as [r|]; cbn [matches] in Hm; try discriminate Hm; cbn [evalT valO];
      try (destruct (Hr r eq_refl) as (HRr & Hrk & Hnl)); cbn [rkO] in HF.
    - (* TRet *)
      apply andb_true_iff in Hm as [Hm _]. apply andb_true_iff in Hm as [Hm1 Hm2].
      apply bool_decide_eq_true in Hm1. apply Z.eqb_eq in Hm2.
      rewrite (valueOf_not_always s r) by (rewrite Hm1; discriminate). by rewrite Hm2.
    - (* TX *)
      apply andb_true_iff in Hm as [Hm _]. apply andb_true_iff in Hm as [Hm1 Hm2].
      apply bool_decide_eq_true in Hm1. apply Z.eqb_eq in Hm2.
      rewrite (valueOf_not_always s r) by (rewrite Hm1; discriminate). by rewrite Hm2.
    - (* TOuter *)
      apply bool_decide_eq_true in Hm. subst m.
      destruct (IHK r HRr Hrk Hnl) as [HP _]. apply HP. nlia.
    - (* TMap *)
      apply andb_true_iff in Hm as [Hm Hm3]. apply andb_true_iff in Hm as [Hm1 _].
      apply bool_decide_eq_true in Hm1.
      destruct (decl (nd s r)) as [|a [|? ?]] eqn:Hd; try discriminate Hm3.
      assert (Ha : a ∈ decl (nd s r)) by (rewrite Hd; left).
      destruct (decl_R _ _ HRr Ha) as [HRa Hra].
      assert (Hna : notLhs s a = true).
      { apply (decl_notLhs r); [done| |done]. intros b. rewrite Hm1. discriminate. }
      rewrite (IHe fm bx x (Some a) Hm3 Hpf) with (F' := F'); [| |cbn [rkO]; nlia|done].
      2:{ intros r' [= <-]. repeat split; [done|nlia|done]. }
      destruct (R_cons _ HRr) as [_ Hnc]. unfold node_consistent in Hnc.
      rewrite Hm1, Hd in Hnc. apply Z.eqb_eq in Hnc.
      rewrite (valueOf_not_always s r) by (rewrite Hm1; discriminate). cbn [valO]. by rewrite Hnc.
    - (* TMap2 *)
      apply andb_true_iff in Hm as [Hm Hm3]. apply andb_true_iff in Hm as [Hm1 _].
      apply bool_decide_eq_true in Hm1.
      destruct (decl (nd s r)) as [|a1 [|a2 [|? ?]]] eqn:Hd; try discriminate Hm3.
      apply andb_true_iff in Hm3 as [Hm3 Hm4].
      simpl in Hpf. apply andb_true_iff in Hpf as [Hpf1 Hpf2].
      assert (Ha1 : a1 ∈ decl (nd s r)) by (rewrite Hd; left).
      assert (Ha2 : a2 ∈ decl (nd s r)) by (rewrite Hd; right; left).
      destruct (decl_R _ _ HRr Ha1) as [HRa1 Hra1]. destruct (decl_R _ _ HRr Ha2) as [HRa2 Hra2].
      assert (Hk' : forall b, nkind (nd s r) <> KBindMain b) by (intros b; rewrite Hm1; discriminate).
      pose proof (decl_notLhs r a1 HRr Hk' Ha1) as Hna1.
      pose proof (decl_notLhs r a2 HRr Hk' Ha2) as Hna2.
      rewrite (IHe1 fm bx x (Some a1) Hm3 Hpf1) with (F' := F'); [| |cbn [rkO]; nlia|done].
      2:{ intros r' [= <-]. repeat split; [done|nlia|done]. }
      rewrite (IHe2 fm bx x (Some a2) Hm4 Hpf2) with (F' := F'); [| |cbn [rkO]; nlia|done].
      2:{ intros r' [= <-]. repeat split; [done|nlia|done]. }
      destruct (R_cons _ HRr) as [_ Hnc]. unfold node_consistent in Hnc.
      rewrite Hm1, Hd in Hnc. apply Z.eqb_eq in Hnc.
      rewrite (valueOf_not_always s r) by (rewrite Hm1; discriminate). cbn [valO]. by rewrite Hnc.
    - (* TCut *)
      apply andb_true_iff in Hm as [Hm Hm3]. apply andb_true_iff in Hm as [Hm1 _].
      apply bool_decide_eq_true in Hm1.
      destruct (decl (nd s r)) as [|a [|? ?]] eqn:Hd; try discriminate Hm3.
      simpl in Hpf. apply andb_true_iff in Hpf as [Hpc Hpf].
      assert (Ha : a ∈ decl (nd s r)) by (rewrite Hd; left).
      destruct (decl_R _ _ HRr Ha) as [HRa Hra].
      assert (Hna : notLhs s a = true).
      { apply (decl_notLhs r); [done| |done]. intros b. rewrite Hm1. discriminate. }
      destruct (R_cons _ HRr) as [_ Hnc]. unfold node_consistent in Hnc.
      rewrite Hm1, Hd in Hnc.
      rewrite (valueOf_not_always s r) by (rewrite Hm1; discriminate).
      destruct c; try discriminate Hpc; apply Z.eqb_eq in Hnc; rewrite Hnc; try reflexivity.
      + rewrite (IHe fm bx x (Some a) Hm3 Hpf) with (F' := F'); [done| |cbn [rkO]; nlia|done].
        intros r' [= <-]. repeat split; [done|nlia|done].
      + rewrite (IHe fm bx x (Some a) Hm3 Hpf) with (F' := F'); [done| |cbn [rkO]; nlia|done].
        intros r' [= <-]. repeat split; [done|nlia|done].
    - (* TBind *)
      destruct (nkind (nd s r)) as [| | | | | | | |b'] eqn:Hk; try discriminate Hm.
      apply andb_true_iff in Hm as [Hm Hm4]. apply andb_true_iff in Hm as [Hm _].
      apply andb_true_iff in Hm as [_ Hm2]. apply texps_eqb_eq in Hm2.
      simpl in Hpf. apply andb_true_iff in Hpf as [_ Hpf].
      destruct (bindmain_facts _ _ HRr Hk) as (_ & _ & HRb & Hrb & HRl & Hrl & Hnll & Hrhs & _).
      rewrite (IHe fm bx x (Some (b_lhs (bd s b'))) Hm4 Hpf) with (F' := F'); [| |cbn [rkO]; nlia|done].
      2:{ intros r' [= <-]. repeat split; [done|nlia|done]. }
      cbn [valO]. destruct (IHK r HRr Hrk Hnl) as [_ HQ]. rewrite <- Hm2.
      rewrite (HQ b' Hk F F'); [|..].
      + by rewrite (valueOf_not_always s r) by (rewrite Hk; discriminate).
      + destruct (b_rhs (bd s b')) as [x'|] eqn:Hx; cbn [rkO].
        * destruct (Hrhs x' eq_refl) as (_ & Hrx & _). nlia.
        * nlia.
      + nlia.
    - (* TNil *) done.
  Qed.

  Lemma main_induction K : forall n, R n -> (rank s n < K)%nat -> notLhs s n = true -> P n /\ Q n.
  Proof using Hwf Hcl Htp Hco.
    induction K as [|K IHK]; [intros; nlia|]. intros n Hn Hr Hnl.
    assert (Hin : forall a F, a ∈ decl (nd s n) -> notLhs s a = true -> (rank s n <= F)%nat ->
                              eval s F a = Some (valueOf s a)).
    { intros a F Ha Hna HF. destruct (decl_R _ _ Hn Ha) as [HRa Hra].
      destruct (IHK a HRa ltac:(nlia) Hna) as [HP _]. apply HP. nlia. }
    destruct (R_cons _ Hn) as [_ Hnc]. unfold node_consistent in Hnc.
    assert (HQ : Q n).
    { intros b Hk F F' HF HF'. rewrite Hk in Hnc. apply andb_true_iff in Hnc as [Hv Hm].
      apply Z.eqb_eq in Hv.
      destruct (bindmain_facts _ _ Hn Hk) as (_ & _ & HRb & Hrb & HRl & Hrl & Hnll & Hrhs & Hpf).
      assert (H1 : forall m, R m -> (rank s m < rank s n)%nat -> notLhs s m = true -> P m /\ Q m).
      { intros m Hm1 Hm2 Hm3. apply IHK; [done|nlia|done]. }
      assert (H2 : parity_free (select (b_cases (bd s b)) (valueOf s (b_lhs (bd s b)))) = true)
        by (by apply parity_free_select).
      assert (H3 : forall r', b_rhs (bd s b) = Some r' ->
                              R r' /\ (rank s r' < rank s n)%nat /\ notLhs s r' = true).
      { intros r' Hr'. destruct (Hrhs r' Hr') as (? & ? & ?). done. }
      rewrite (template_sound (rank s n) H1 _ _ _ _ _ Hm H2 H3 F F' HF HF').
      unfold valO. by rewrite Hv. }
    split; [|exact HQ].
    intros F HF. destruct F as [|F]; [nlia|]. cbn [eval]. cbv zeta.
    destruct (nkind (nd s n)) as [eqv| |f|f|f|c| |b|b] eqn:Hk.
    - by rewrite (valueOf_not_always s n) by (rewrite Hk; discriminate).
    - by rewrite (valueOf_not_always s n) by (rewrite Hk; discriminate).
    - destruct (decl (nd s n)) as [|a [|? ?]] eqn:Hd; try discriminate Hnc.
      apply Z.eqb_eq in Hnc. rewrite (Hin a F); [| | |nlia].
      + rewrite (valueOf_not_always s n) by (rewrite Hk; discriminate). by rewrite Hnc.
      + left.
      + apply (decl_notLhs n); [done| |rewrite Hd; left]. intros b. rewrite Hk. discriminate.
    - destruct (decl (nd s n)) as [|a1 [|a2 [|? ?]]] eqn:Hd; try discriminate Hnc.
      apply Z.eqb_eq in Hnc.
      assert (Hk' : forall b, nkind (nd s n) <> KBindMain b) by (intros b; rewrite Hk; discriminate).
      rewrite (Hin a1 F); [| | |nlia].
      + rewrite (Hin a2 F); [| | |nlia].
        * rewrite (valueOf_not_always s n) by (rewrite Hk; discriminate). by rewrite Hnc.
        * right; left.
        * apply (decl_notLhs n); [done|done|rewrite Hd; right; left].
      + left.
      + apply (decl_notLhs n); [done|done|rewrite Hd; left].
    - apply Z.eqb_eq in Hnc.
      assert (Hk' : forall b, nkind (nd s n) <> KBindMain b) by (intros b; rewrite Hk; discriminate).
      rewrite (mapM_Some _ (valueOf s)).
      + rewrite (valueOf_not_always s n) by (rewrite Hk; discriminate). by rewrite Hnc.
      + intros a Ha. apply Hin; [done| |nlia]. by apply (decl_notLhs n).
    - destruct (decl (nd s n)) as [|a [|? ?]] eqn:Hd; try discriminate Hnc.
      assert (Hna : notLhs s a = true).
      { apply (decl_notLhs n); [done| |rewrite Hd; left]. intros b. rewrite Hk. discriminate. }
      rewrite (valueOf_not_always s n) by (rewrite Hk; discriminate).
      destruct c; try (apply Z.eqb_eq in Hnc; rewrite Hnc); try reflexivity.
      + apply Hin; [left|done|nlia].
      + apply Hin; [left|done|nlia].
    - destruct (always_shape _ Hk) as (a & Hd & Hlt & Hna). rewrite Hd.
      rewrite (valueOf_always n a Hk Hd Hlt). apply Hin; [rewrite Hd; left|done|nlia].
    - unfold notLhs in Hnl. rewrite Hk in Hnl. discriminate Hnl.
    - destruct (bindmain_facts _ _ Hn Hk) as (_ & _ & HRb & Hrb & HRl & Hrl & Hnll & Hrhs & Hpf).
      destruct (IHK (b_lhs (bd s b)) HRl ltac:(nlia) Hnll) as [HPl _].
      rewrite (HPl F) by nlia. rewrite (HQ b Hk F F); [| |nlia].
      + by rewrite (valueOf_not_always s n) by (rewrite Hk; discriminate).
      + destruct (b_rhs (bd s b)) as [x'|] eqn:Hx; cbn [rkO].
        * destruct (Hrhs x' eq_refl) as (_ & Hrx & _). nlia.
        * nlia.
  Qed.
End TheoremA.

(** ** Theorem A, node form: every registered node that holds a value holds its from-scratch
    value, for every fuel above [rank s n + 1], which is at most [next s]. *)
Theorem consistent_registered_eval s :
  wfb s = true -> closed s = true -> templates_ok s = true -> consistent s = true ->
  forall n, inGraph (nd s n) = true -> notLhs s n = true ->
  (rank s n + 1 <= next s)%nat /\
  forall fuel, (rank s n + 1 <= fuel)%nat -> eval s fuel n = Some (valueOf s n).
Proof.
  intros Hwf Hcl Htp Hco n Hn Hnl. split.
  - by apply rank_bound.
  - destruct (main_induction s Hwf Hcl Htp Hco (S (rank s n)) n Hn ltac:(lia) Hnl) as [HP _].
    exact HP.
Qed.

Lemma observed_registered s o n :
  wfb s = true -> closed s = true -> obs s !! o = Some n ->
  inGraph (nd s n) = true /\ notLhs s n = true.
Proof.
  intros Hwf Hcl Ho. destruct (wfb_clauses _ Hwf) as (_ & Hrn & _ & _ & Hob & _).
  pose proof Hcl as Hcl'. unfold closed in Hcl'. apply andb_true_iff in Hcl' as [_ Hc2].
  pose proof (forallb_gmap _ _ _ _ Hc2 Ho) as Hnl. cbv beta iota in Hnl.
  split; [|done].
  unfold observers_ok in Hob. apply andb_true_iff in Hob as [_ Hob].
  pose proof (forallb_gmap _ _ _ _ Hob Ho) as Hin. cbv beta iota in Hin.
  apply bool_decide_eq_true in Hin.
  assert (Hsome : is_Some (nodes s !! n)).
  { destruct (nodes s !! n) eqn:E; [eauto|]. rewrite (nd_none _ _ E) in Hin.
    simpl in Hin. by apply elem_of_nil in Hin. }
  pose proof (forallb_elem_of _ _ _ Hrn (some_all s Hcl _ Hsome)) as H3. cbv beta in H3.
  assert (Hnec : isNecessary (nd s n) = true).
  { unfold isNecessary. destruct (observers (nd s n)) eqn:E; [by apply elem_of_nil in Hin|].
    rewrite (bool_decide_eq_false_2 (_ :: _ = [])) by done. simpl. by rewrite orb_true_r. }
  rewrite Hnec in H3. by destruct (inGraph (nd s n)).
Qed.

Theorem C01_consistent_implies_spec_proof s :
  wfb s = true -> closed s = true -> templates_ok s = true -> consistent s = true ->
  forall o n, obs s !! o = Some n ->
  exists fuel, (fuel <= next s)%nat /\
    forall fuel', (fuel <= fuel')%nat -> eval s fuel' n = Some (valueOf s n).
Proof.
  intros Hwf Hcl Htp Hco o n Ho.
  destruct (observed_registered _ _ _ Hwf Hcl Ho) as [Hn Hnl].
  destruct (consistent_registered_eval s Hwf Hcl Htp Hco n Hn Hnl) as [Hb He].
  exists (rank s n + 1)%nat. split; [done|exact He].
Qed.

Theorem C01_observers_agree_proof s :
  wfb s = true -> closed s = true -> templates_ok s = true -> consistent s = true ->
  observers_agree s = true.
Proof.
  intros Hwf Hcl Htp Hco. unfold observers_agree. apply forallb_forall.
  intros [o n] Hin. apply elem_of_list_In, elem_of_map_to_list in Hin.
  destruct (C01_consistent_implies_spec_proof s Hwf Hcl Htp Hco o n Hin) as (F & HF & He).
  apply bool_decide_eq_true. apply He. lia.
Qed.

(** * Monotonicity of the evaluators in the fuel *)
Lemma mapM_mono {A B} (f f' : A -> option B) l bs :
  (forall a b, a ∈ l -> f a = Some b -> f' a = Some b) -> mapM f l = Some bs -> mapM f' l = Some bs.
Proof.
  revert bs. induction l as [|a l IH]; intros bs H Hm; [done|]. simpl in *.
  destruct (f a) as [b|] eqn:E; [|discriminate Hm].
  destruct (mapM f l) as [bs'|] eqn:E'; [|discriminate Hm].
  rewrite (H a b) by (done || left). rewrite (IH bs'); [done| |done].
  intros a' b' Ha'. apply H. by right.
Qed.

Lemma evalT_mono (ev ev' : nid -> option Z) :
  (forall n v, ev n = Some v -> ev' n = Some v) ->
  forall F F' x e v, (F <= F')%nat -> evalT F ev x e = Some v -> evalT F' ev' x e = Some v.
Proof.
  intros Hev. induction F as [|F IH]; intros F' x e v HF H; [discriminate H|].
  destruct F' as [|F']; [lia|]. assert (HF' : (F <= F')%nat) by lia.
  destruct e as [k| |m|f e|f e1 e2|c e|cases e|]; cbn [evalT] in *; try done.
  - by apply Hev.
  - destruct (evalT F ev x e) as [w|] eqn:E; [|discriminate H].
    by rewrite (IH F' x e w HF' E).
  - destruct (evalT F ev x e1) as [w1|] eqn:E1; [|discriminate H].
    destruct (evalT F ev x e2) as [w2|] eqn:E2; [|discriminate H].
    by rewrite (IH F' x e1 w1 HF' E1), (IH F' x e2 w2 HF' E2).
  - destruct c; try done; by apply IH.
  - destruct (evalT F ev x e) as [w|] eqn:E; [|discriminate H].
    rewrite (IH F' x e w HF' E). by apply IH.
Qed.

Lemma eval_mono s : forall F F' n v, (F <= F')%nat -> eval s F n = Some v -> eval s F' n = Some v.
Proof.
  induction F as [|F IH]; intros F' n v HF H; [discriminate H|].
  destruct F' as [|F']; [lia|]. assert (HF' : (F <= F')%nat) by lia.
  cbn [eval] in *. cbv zeta in *.
  destruct (nkind (nd s n)) as [eqv| |f|f|f|c| |b|b]; try done.
  - destruct (decl (nd s n)) as [|a [|? ?]]; try done.
    destruct (eval s F a) as [w|] eqn:E; [|discriminate H]. by rewrite (IH F' a w HF' E).
  - destruct (decl (nd s n)) as [|a1 [|a2 [|? ?]]]; try done.
    destruct (eval s F a1) as [w1|] eqn:E1; [|discriminate H].
    destruct (eval s F a2) as [w2|] eqn:E2; [|discriminate H].
    by rewrite (IH F' a1 w1 HF' E1), (IH F' a2 w2 HF' E2).
  - destruct (mapM (eval s F) (decl (nd s n))) as [ws|] eqn:E; [|discriminate H].
    rewrite (mapM_mono (eval s F) (eval s F') _ ws); [done| |done].
    intros a w _. by apply IH.
  - destruct (decl (nd s n)) as [|a [|? ?]]; try done. destruct c; try done; by apply IH.
  - destruct (decl (nd s n)) as [|a [|? ?]]; try done. by apply IH.
  - destruct (eval s F (b_lhs (bd s b))) as [w|] eqn:E; [|discriminate H].
    rewrite (IH F' _ w HF' E).
    apply (evalT_mono (eval s F) (eval s F')) with (F := F); [|done|done].
    intros m u. by apply IH.
Qed.

(** * [eval] reads only the program: node kinds, declared inputs, held values, and of a bind
    record its input and its case table.  (It never looks at heights, stamps, edges, the heap,
    the memoisation fields of a bind, ...) *)
Lemma mapM_ext {A B} (f f' : A -> option B) l : (forall a, f a = f' a) -> mapM f l = mapM f' l.
Proof. intros H. induction l as [|a l IH]; [done|]. simpl. by rewrite H, IH. Qed.

Lemma evalT_ext (ev ev' : nid -> option Z) : (forall n, ev n = ev' n) ->
  forall F x e, evalT F ev x e = evalT F ev' x e.
Proof.
  intros Hev. induction F as [|F IH]; intros x e; [done|].
  destruct e as [k| |m|f e|f e1 e2|c e|cases e|]; cbn [evalT]; try done.
  - by rewrite (IH x e).
  - by rewrite (IH x e1), (IH x e2).
  - destruct c; try done; apply IH.
  - rewrite (IH x e). destruct (evalT F ev' x e); [apply IH|done].
Qed.

Lemma eval_reads_only s s' :
  (forall n, nkind (nd s' n) = nkind (nd s n) /\ decl (nd s' n) = decl (nd s n)
             /\ value (nd s' n) = value (nd s n)) ->
  (forall b, b_lhs (bd s' b) = b_lhs (bd s b) /\ b_cases (bd s' b) = b_cases (bd s b)) ->
  forall fuel n, eval s' fuel n = eval s fuel n.
Proof.
  intros Hn Hb. induction fuel as [|F IH]; intros n; [done|].
  cbn [eval]. cbv zeta. destruct (Hn n) as (-> & -> & ->).
  destruct (nkind (nd s n)) as [eqv| |f|f|f|c| |b|b]; try done.
  - destruct (decl (nd s n)) as [|a [|? ?]]; try done. by rewrite IH.
  - destruct (decl (nd s n)) as [|a1 [|a2 [|? ?]]]; try done. by rewrite !IH.
  - by rewrite (mapM_ext (eval s' F) (eval s F)).
  - destruct (decl (nd s n)) as [|a [|? ?]]; try done. destruct c; try done; apply IH.
  - destruct (decl (nd s n)) as [|a [|? ?]]; try done.
  - destruct (Hb b) as [-> ->]. rewrite IH.
    destruct (eval s F (b_lhs (bd s b))); [|done]. by apply evalT_ext.
Qed.

(** ** C09, spec half: the from-scratch meaning ignores memoisation *)
Lemma bd_updb s b g b' :
  bd (updb s b g) b' = if decide (b' = b) then
                         match binds s !! b with Some r => g r | None => bd s b end
                       else bd s b'.
Proof.
  unfold bd, updb. simpl. destruct (decide (b' = b)) as [->|Hne].
  - rewrite lookup_alter. by destruct (binds s !! b).
  - by rewrite lookup_alter_ne.
Qed.

Lemma C09_spec_ignores_memo s b :
  (forall f fuel n, eval (updb s b (set b_memo f)) fuel n = eval s fuel n) /\
  (forall f fuel n, eval (updb s b (set b_cache f)) fuel n = eval s fuel n).
Proof.
  split; intros f; apply eval_reads_only; try done;
    intros b'; rewrite bd_updb; destruct (decide (b' = b)) as [->|]; try done;
    unfold bd; destruct (binds s !! b) as [[]|]; done.
Qed.

(** * C11, spec half: the from-scratch semantics treats an equality cutoff as the identity *)
Lemma eval_cutoff_eq s fuel n a :
  nkind (nd s n) = KCutoff CEq -> decl (nd s n) = [a] -> eval s (S fuel) n = eval s fuel a.
Proof. intros Hk Hd. cbn [eval]. cbv zeta. by rewrite Hk, Hd. Qed.

Lemma evalT_cut_eq fuel ev x e : evalT (S fuel) ev x (TCut CEq e) = evalT fuel ev x e.
Proof. reflexivity. Qed.

(* the meaning of a node / of a template, fuel abstracted *)
Definition denotes (s : state) (n : nid) (v : Z) : Prop := exists fuel, eval s fuel n = Some v.
Definition denotesT (ev : nid -> option Z) (x : Z) (e : texp) (v : Z) : Prop :=
  exists fuel, evalT fuel ev x e = Some v.

Lemma C11_equal_cutoff_inert_spec :
  (forall s n a fuel, nkind (nd s n) = KCutoff CEq -> decl (nd s n) = [a] ->
     eval s (S fuel) n = eval s fuel a)
  /\ (forall fuel ev x e, evalT (S fuel) ev x (TCut CEq e) = evalT fuel ev x e)
  /\ (forall s n a v, nkind (nd s n) = KCutoff CEq -> decl (nd s n) = [a] ->
        (denotes s n v <-> denotes s a v))
  /\ (forall ev x e v, denotesT ev x (TCut CEq e) v <-> denotesT ev x e v).
Proof.
  split; [intros; by apply eval_cutoff_eq|]. split; [reflexivity|]. split.
  - intros s n a v Hk Hd. split; intros [F H].
    + destruct F as [|F]; [discriminate H|]. rewrite (eval_cutoff_eq _ _ _ _ Hk Hd) in H. by exists F.
    + exists (S F). by rewrite (eval_cutoff_eq _ _ _ _ Hk Hd).
  - intros ev x e v. split; intros [F H].
    + destruct F as [|F]; [discriminate H|]. by exists F.
    + by exists (S F).
Qed.

(** ** Erasing every equality cutoff from the bind templates of a program does not change
    the meaning of any node *)
Fixpoint eraseT (e : texp) : texp :=
  match e with
  | TMap f e => TMap f (eraseT e)
  | TMap2 f e1 e2 => TMap2 f (eraseT e1) (eraseT e2)
  | TCut CEq e => eraseT e
  | TCut c e => TCut c (eraseT e)
  | TBind cases e => TBind (map eraseT cases) (eraseT e)
  | e => e
  end.

Definition erase_eq_templates (s : state) : state :=
  s <| binds := (fun r => r <| b_cases := map eraseT (b_cases r) |>) <$> binds s |>.

Lemma select_erase cases y : select (map eraseT cases) y = eraseT (select cases y).
Proof.
  unfold select. rewrite map_length. change TNil with (eraseT TNil) at 1. apply map_nth.
Qed.

Lemma evalT_erase_fwd (ev ev' : nid -> option Z) :
  (forall n v, ev n = Some v -> ev' n = Some v) ->
  forall F x e v, evalT F ev x e = Some v -> evalT F ev' x (eraseT e) = Some v.
Proof.
  intros Hev. induction F as [|F IH]; intros x e v H; [discriminate H|].
  destruct e as [k| |m|f e|f e1 e2|c e|cases e|]; cbn [evalT eraseT] in *; try done.
  - by apply Hev.
  - destruct (evalT F ev x e) as [w|] eqn:E; [|discriminate H]. by rewrite (IH x e w E).
  - destruct (evalT F ev x e1) as [w1|] eqn:E1; [|discriminate H].
    destruct (evalT F ev x e2) as [w2|] eqn:E2; [|discriminate H].
    by rewrite (IH x e1 w1 E1), (IH x e2 w2 E2).
  - destruct c; cbn [evalT eraseT] in *; try done.
    + apply (evalT_mono ev' ev' (fun _ _ h => h) F (S F)); [lia|]. by apply IH.
    + by apply IH.
  - destruct (evalT F ev x e) as [w|] eqn:E; [|discriminate H].
    rewrite (IH x e w E). rewrite select_erase. by apply IH.
Qed.

Lemma evalT_erase_bwd (evf : nat -> nid -> option Z) (ev' : nid -> option Z) :
  (forall G G' n v, (G <= G')%nat -> evf G n = Some v -> evf G' n = Some v) ->
  (forall n v, ev' n = Some v -> exists G, evf G n = Some v) ->
  forall F e x v, evalT F ev' x (eraseT e) = Some v -> exists F' G, evalT F' (evf G) x e = Some v.
Proof.
  intros Hmono Hev.
  assert (Hup : forall F G F' G' x e v, (F <= F')%nat -> (G <= G')%nat ->
                  evalT F (evf G) x e = Some v -> evalT F' (evf G') x e = Some v).
  { intros F G F' G' x e v HF HG. apply evalT_mono; [|done]. intros n u. by apply Hmono. }
  induction F as [|F IHF]; [intros e x v H; destruct (eraseT e); discriminate H|].
  induction e as [k| |m|f e IHe|f e1 IHe1 e2 IHe2|c e IHe|cases e IHe|]; intros x v H.
  - exists 1%nat, 0%nat. exact H.
  - exists 1%nat, 0%nat. exact H.
  - cbn [eraseT evalT] in H. destruct (Hev _ _ H) as [G HG]. by exists 1%nat, G.
  - cbn [eraseT evalT] in H.
    destruct (evalT F ev' x (eraseT e)) as [w|] eqn:E; [|discriminate H].
    destruct (IHF e x w E) as (F1 & G1 & H1). exists (S F1), G1. cbn [evalT]. by rewrite H1.
  - cbn [eraseT evalT] in H.
    destruct (evalT F ev' x (eraseT e1)) as [w1|] eqn:E1; [|discriminate H].
    destruct (evalT F ev' x (eraseT e2)) as [w2|] eqn:E2; [|discriminate H].
    destruct (IHF e1 x w1 E1) as (F1 & G1 & H1). destruct (IHF e2 x w2 E2) as (F2 & G2 & H2).
    exists (S (Nat.max F1 F2)), (Nat.max G1 G2). cbn [evalT].
    rewrite (Hup F1 G1 (Nat.max F1 F2) (Nat.max G1 G2) x e1 w1) by (done || lia).
    by rewrite (Hup F2 G2 (Nat.max F1 F2) (Nat.max G1 G2) x e2 w2) by (done || lia).
  - destruct c; cbn [eraseT evalT] in H.
    + destruct (IHe x v H) as (F1 & G1 & H1). by exists (S F1), G1.
    + exists 1%nat, 0%nat. exact H.
    + destruct (IHF e x v H) as (F1 & G1 & H1). by exists (S F1), G1.
    + discriminate H.
  - cbn [eraseT evalT] in H.
    destruct (evalT F ev' x (eraseT e)) as [y|] eqn:E; [|discriminate H].
    rewrite select_erase in H.
    destruct (IHF e x y E) as (F1 & G1 & H1).
    destruct (IHF (select cases y) y v H) as (F2 & G2 & H2).
    exists (S (Nat.max F1 F2)), (Nat.max G1 G2). cbn [evalT].
    rewrite (Hup F1 G1 (Nat.max F1 F2) (Nat.max G1 G2) x e y) by (done || lia).
    by apply (Hup F2 G2); [lia|lia|].
  - exists 1%nat, 0%nat. exact H.
Qed.

Lemma bd_erase s b :
  b_lhs (bd (erase_eq_templates s) b) = b_lhs (bd s b)
  /\ b_cases (bd (erase_eq_templates s) b) = map eraseT (b_cases (bd s b)).
Proof.
  unfold bd, erase_eq_templates. simpl. rewrite lookup_fmap.
  by destruct (binds s !! b) as [[]|].
Qed.

Lemma eval_erase_fwd s : forall F n v,
  eval s F n = Some v -> eval (erase_eq_templates s) F n = Some v.
Proof.
  induction F as [|F IH]; intros n v H; [discriminate H|].
  cbn [eval] in *. cbv zeta in *.
  change (nd (erase_eq_templates s) n) with (nd s n).
  destruct (nkind (nd s n)) as [eqv| |f|f|f|c| |b|b]; try done.
  - destruct (decl (nd s n)) as [|a [|? ?]]; try done.
    destruct (eval s F a) as [w|] eqn:E; [|discriminate H]. by rewrite (IH a w E).
  - destruct (decl (nd s n)) as [|a1 [|a2 [|? ?]]]; try done.
    destruct (eval s F a1) as [w1|] eqn:E1; [|discriminate H].
    destruct (eval s F a2) as [w2|] eqn:E2; [|discriminate H].
    by rewrite (IH a1 w1 E1), (IH a2 w2 E2).
  - destruct (mapM (eval s F) (decl (nd s n))) as [ws|] eqn:E; [|discriminate H].
    rewrite (mapM_mono (eval s F) (eval (erase_eq_templates s) F) _ ws); [done| |done].
    intros a w _. by apply IH.
  - destruct (decl (nd s n)) as [|a [|? ?]]; try done. destruct c; try done; by apply IH.
  - destruct (decl (nd s n)) as [|a [|? ?]]; try done. by apply IH.
  - destruct (bd_erase s b) as [-> ->].
    destruct (eval s F (b_lhs (bd s b))) as [w|] eqn:E; [|discriminate H].
    rewrite (IH _ w E). rewrite select_erase.
    apply (evalT_erase_fwd (eval s F)); [|done]. intros m u. by apply IH.
Qed.

Lemma mapM_bwd {A B} (evf : nat -> A -> option B) (f' : A -> option B) l bs :
  (forall G G' a b, (G <= G')%nat -> evf G a = Some b -> evf G' a = Some b) ->
  (forall a b, f' a = Some b -> exists G, evf G a = Some b) ->
  mapM f' l = Some bs -> exists G, mapM (evf G) l = Some bs.
Proof.
  intros Hmono Hev. revert bs. induction l as [|a l IH]; intros bs H.
  - exists 0%nat. exact H.
  - simpl in H. destruct (f' a) as [b|] eqn:E; [|discriminate H].
    destruct (mapM f' l) as [bs'|] eqn:E'; [|discriminate H].
    destruct (Hev a b E) as [G1 H1]. destruct (IH bs' eq_refl) as [G2 H2].
    exists (Nat.max G1 G2). simpl.
    rewrite (Hmono G1 (Nat.max G1 G2) a b) by (done || lia).
    rewrite (mapM_mono (evf G2) (evf (Nat.max G1 G2)) l bs'); [done| |done].
    intros a' b' _. apply Hmono. lia.
Qed.

Lemma eval_erase_bwd s : forall F n v,
  eval (erase_eq_templates s) F n = Some v -> exists F', eval s F' n = Some v.
Proof.
  induction F as [|F IH]; intros n v H; [discriminate H|].
  cbn [eval] in H. cbv zeta in H.
  change (nd (erase_eq_templates s) n) with (nd s n) in H.
  destruct (nkind (nd s n)) as [eqv| |f|f|f|c| |b|b] eqn:Hk.
  - exists 1%nat. cbn [eval]. cbv zeta. by rewrite Hk.
  - exists 1%nat. cbn [eval]. cbv zeta. by rewrite Hk.
  - destruct (decl (nd s n)) as [|a [|? ?]] eqn:Hd; try done.
    destruct (eval (erase_eq_templates s) F a) as [w|] eqn:E; [|discriminate H].
    destruct (IH a w E) as [F1 H1]. exists (S F1). cbn [eval]. cbv zeta. by rewrite Hk, Hd, H1.
  - destruct (decl (nd s n)) as [|a1 [|a2 [|? ?]]] eqn:Hd; try done.
    destruct (eval (erase_eq_templates s) F a1) as [w1|] eqn:E1; [|discriminate H].
    destruct (eval (erase_eq_templates s) F a2) as [w2|] eqn:E2; [|discriminate H].
    destruct (IH a1 w1 E1) as [F1 H1]. destruct (IH a2 w2 E2) as [F2 H2].
    exists (S (Nat.max F1 F2)). cbn [eval]. cbv zeta. rewrite Hk, Hd.
    rewrite (eval_mono s F1 (Nat.max F1 F2) a1 w1) by (done || lia).
    by rewrite (eval_mono s F2 (Nat.max F1 F2) a2 w2) by (done || lia).
  - destruct (mapM (eval (erase_eq_templates s) F) (decl (nd s n))) as [ws|] eqn:E; [|discriminate H].
    destruct (mapM_bwd (eval s) _ _ _ (eval_mono s) IH E) as [G HG].
    exists (S G). cbn [eval]. cbv zeta. by rewrite Hk, HG.
  - destruct (decl (nd s n)) as [|a [|? ?]] eqn:Hd; try done.
    destruct c.
    + destruct (IH a v H) as [F1 H1]. exists (S F1). cbn [eval]. cbv zeta. by rewrite Hk, Hd.
    + exists 1%nat. cbn [eval]. cbv zeta. by rewrite Hk, Hd.
    + destruct (IH a v H) as [F1 H1]. exists (S F1). cbn [eval]. cbv zeta. by rewrite Hk, Hd.
    + exists 1%nat. cbn [eval]. cbv zeta. by rewrite Hk, Hd.
  - destruct (decl (nd s n)) as [|a [|? ?]] eqn:Hd; try done.
    destruct (IH a v H) as [F1 H1]. exists (S F1). cbn [eval]. cbv zeta. by rewrite Hk, Hd.
  - discriminate H.
  - destruct (bd_erase s b) as [Hl Hc]. rewrite Hl, Hc in H.
    destruct (eval (erase_eq_templates s) F (b_lhs (bd s b))) as [w|] eqn:E; [|discriminate H].
    destruct (IH _ w E) as [F1 H1]. rewrite select_erase in H.
    destruct (evalT_erase_bwd (eval s) _ (eval_mono s) IH _ _ _ _ H) as (F2 & G2 & H2).
    exists (S (Nat.max F1 (Nat.max F2 G2))). cbn [eval]. cbv zeta. rewrite Hk.
    rewrite (eval_mono s F1 (Nat.max F1 (Nat.max F2 G2)) _ w) by (done || lia).
    apply (evalT_mono (eval s G2) (eval s (Nat.max F1 (Nat.max F2 G2)))) with (F := F2); [|lia|done].
    intros m u. apply eval_mono. lia.
Qed.

Lemma C11_erase_equal_cutoff_templates s n v :
  denotes (erase_eq_templates s) n v <-> denotes s n v.
Proof.
  split; intros [F H].
  - by apply eval_erase_bwd in H.
  - exists F. by apply eval_erase_fwd.
Qed.

(** * Non-vacuity: concrete reachable states satisfying every hypothesis of Theorem A *)
Definition ex_ops1 : list op :=
  [ NewVar 3 true;                       (* node 0 *)
    NewVar 4 true;                       (* node 1 *)
    NewMapN Sum [0%nat; 1%nat];          (* node 2 *)
    NewCutoff CEq 2%nat;                 (* node 3 *)
    NewBind [TMap (Aff 1 1) TX;          (* nodes 4 (lhs-change) and 5 (main), over node 3 *)
             TOuter 3%nat;
             TBind [TRet 5; TMap2 (Lin2 1 1 0) TX (TCut CEq (TOuter 1%nat))] (TOuter 0%nat)] 3%nat;
    NewAlways 5%nat;                     (* node 6 *)
    Observe 6%nat;                       (* observer 7 *)
    Observe 3%nat;                       (* observer 8 *)
    Stabilize [] ].
(* a MapN input added, the bind switches to its first case *)
Definition ex_ops2 : list op := ex_ops1 ++ [SetVar 0%nat 5; AddInput 2%nat 0%nat; Stabilize []].
(* a MapN input removed, the bind switches to the case that is itself a bind over an outer node *)
Definition ex_ops3 : list op := ex_ops2 ++ [SetVar 1%nat 2; RemoveInput 2%nat 0%nat; Stabilize []].
Definition ex_state (ops : list op) : state :=
  match run (init 256) ops with Ok s => s | _ => init 0 end.

Definition ex_hyps (s : state) : bool := wfb s && closed s && templates_ok s && consistent s.

(* case 1 selected: the bind returns the outer node 3 (the cutoff over the MapN) *)
Example ex1_hypotheses_hold : ex_hyps (ex_state ex_ops1) = true.
Proof. vm_compute. reflexivity. Qed.
Example ex1_conclusion :
  let s := ex_state ex_ops1 in
  obs s !! 7%nat = Some 6%nat /\ valueOf s 6%nat = 7 /\ eval s (next s) 6%nat = Some 7
  /\ observers_agree s = true.
Proof. vm_compute. repeat split; reflexivity. Qed.

(* case 0 selected after AddInput *)
Example ex2_hypotheses_hold : ex_hyps (ex_state ex_ops2) = true.
Proof. vm_compute. reflexivity. Qed.
Example ex2_conclusion :
  let s := ex_state ex_ops2 in
  obs s !! 7%nat = Some 6%nat /\ valueOf s 6%nat = 4 /\ eval s (next s) 6%nat = Some 4
  /\ obs s !! 8%nat = Some 3%nat /\ valueOf s 3%nat = 3 /\ eval s (next s) 3%nat = Some 3
  /\ observers_agree s = true.
Proof. vm_compute. repeat split; reflexivity. Qed.

(* case 2 selected after RemoveInput: a nested bind whose own case reads an outer node through
   an equality cutoff *)
Example ex3_hypotheses_hold : ex_hyps (ex_state ex_ops3) = true.
Proof. vm_compute. reflexivity. Qed.
Example ex3_conclusion :
  let s := ex_state ex_ops3 in
  obs s !! 7%nat = Some 6%nat /\ valueOf s 6%nat = 7 /\ eval s (next s) 6%nat = Some 7
  /\ rank s 6%nat = 11%nat /\ next s = 16%nat /\ observers_agree s = true.
Proof. vm_compute. repeat split; reflexivity. Qed.

(* Theorem A applied to the examples (not by computation) *)
Lemma ex_hyps_observers_agree s : ex_hyps s = true -> observers_agree s = true.
Proof.
  unfold ex_hyps. intros H.
  apply andb_true_iff in H as [H H4]. apply andb_true_iff in H as [H H3].
  apply andb_true_iff in H as [H1 H2]. exact (C01_observers_agree_proof _ H1 H2 H3 H4).
Qed.
Example ex3_by_theorem : observers_agree (ex_state ex_ops3) = true.
Proof. exact (ex_hyps_observers_agree _ ex3_hypotheses_hold). Qed.

(** [templates_ok] cannot be dropped: a parity cutoff created inside a bind is history
    dependent, [evalT] gives it no value, and so a state can be well formed, closed and
    locally consistent while the observer's value has no from-scratch counterpart. *)
Definition ex_parity_ops : list op :=
  [NewVar 3 true; NewBind [TCut CParity TX] 0%nat; Observe 2%nat; Stabilize []].
Example templates_ok_needed :
  let s := ex_state ex_parity_ops in
  wfb s = true /\ closed s = true /\ consistent s = true
  /\ templates_ok s = false /\ observers_agree s = false.
Proof. vm_compute. repeat split; reflexivity. Qed.
