(** Proofs about the from-scratch semantics of Spec.v.

    - Theorem A (the state-level half of C01): in ANY state whose structural invariant holds
      ([wfb], plus the three extra boolean facts [closed], [templates_ok] defined here) local
      consistency ([consistent]) determines the values: every registered node that holds a
      value holds exactly what [eval] computes from scratch, for every fuel above an explicit
      bound ([rank s n + 1 <= next s]); hence [observers_agree].
    - the spec-level half of C11: [eval]/[evalT] treat an equality cutoff as the identity, and
      erasing every equality cutoff of a program does not change its from-scratch meaning.
    - the spec-level half of C09: [eval] does not read the memoisation fields of a bind. *)
From stdpp Require Import sorting.
From incr Require Import Base Heap HeapSpec EngineDefs Engine EngineWf Spec.

(** * Extra structural facts needed besides [wfb] (boolean, so that they can be tested) *)

(* a node other than a bind's lhs-change node: one that holds a value *)
Definition notLhs (s : state) (a : nid) : bool :=
  match nkind (nd s a) with KBindLhs _ => false | _ => true end.

(** [closed]: for every node record [n |-> x] of the state
    - its id is below the creation counter;
    - an Always node has exactly one declared input, created before it, which holds a value;
    - a bind main node of bind [b] is node [S b], bind [b] has a record, node [b] is its
      lhs-change node, and its right-hand side (the declared inputs after the first) holds a value;
    - every declared input of any other node holds a value (is not a lhs-change node). *)
Definition node_closed (s : state) (n : nid) (x : node) : bool :=
  (n <? next s)%nat &&
  match nkind x with
  | KAlways => match decl x with [a] => (a <? n)%nat && notLhs s a | _ => false end
  | KBindMain b =>
    bool_decide (n = S b) && bool_decide (is_Some (binds s !! b))
    && bool_decide (nkind (nd s b) = KBindLhs b) && forallb (notLhs s) (tl (decl x))
  | _ => forallb (notLhs s) (decl x)
  end.

Definition closed (s : state) : bool :=
  forallb (fun '(n, x) => node_closed s n x) (map_to_list (nodes s)).

(** [templates_ok]: no bind template contains a parity cutoff.  ([evalT] gives no value to
    [TCut CParity]: a history-dependent cutoff created inside a bind is not a function of the
    inputs.  This is a restriction on the PROGRAM -- the case tables given to [NewBind] -- and
    case tables never change.) *)
Fixpoint parity_free (e : texp) : bool :=
  match e with
  | TRet _ | TX | TOuter _ | TNil => true
  | TMap _ e => parity_free e
  | TMap2 _ e1 e2 => parity_free e1 && parity_free e2
  | TCut c e => negb (bool_decide (c = CParity)) && parity_free e
  | TBind cases e => forallb parity_free cases && parity_free e
  end.

Definition templates_ok (s : state) : bool :=
  forallb (fun '(b, r) => forallb parity_free (b_cases r)) (map_to_list (binds s)).

(** the explicit fuel bound: the number of registered nodes strictly lower than [n] *)
Definition rank (s : state) (n : nid) : nat :=
  length (filter (fun m => (height (nd s m) < height (nd s n))%Z) (registered s)).
