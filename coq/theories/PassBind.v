(** Value-level invariants of the serial pass on graphs that CONTAIN binds, for passes in which
    no bind function runs (no lhs-change node is reached): definitions and boolean checkers.
    Generalises PassInv.v ([BF] / [ValInv] / [LInv]) -- the structure of the graph now comes from
    the inductive invariant [EngineInv.Inv] (C05), not from "no bind was ever created".

    - [Shape s]    : arities and the two value-level facts about constructors that [Inv] does not
                     record (a cutoff that always cuts holds 0; an Always node reads an older node);
    - [ValInvB s]  : the quiescent value invariant: stamps, owed => queued, clean => the node holds
                     its function of its inputs ([consistent_valB]: a bind main node holds the value
                     of the bind's right-hand side), and, for a registered bind whose lhs-change node
                     is clean, the right-hand side is the instantiation of the case the input
                     selects ([matchesOK], the second half of [Spec.node_consistent]);
    - [NoLhs s]    : the premise on the pass: no lhs-change node is queued or below a queued node
                     (so no bind function runs and no bind swaps in this pass);
    - [LInvB ...]  : the loop invariant.

    The proofs are in PassBindProofs.v. *)
From incr Require Import Base Heap HeapSpec EngineDefs Engine EngineRun EngineWf Spec PassInv.

(** * Shape of node records *)
Definition shape_node (n : nid) (x : node) : bool := arity_ok x && cutalways_zero x && always_lt n x.

Definition Shape (s : state) : Prop := forall n x, nodes s !! n = Some x -> shape_node n x = true.
Definition shape_b (s : state) : bool := forallb (fun '(n, x) => shape_node n x) (map_to_list (nodes s)).

Definition isLhs (k : kind) : bool := match k with KBindLhs _ => true | _ => false end.

(** the structural facts the pass proofs use; all of them follow from [EngineInv.Inv] and
    [Shape] (PassBindProofs.Inv_BFB) and are kept by every step of a pass without bind functions *)
Record BFB (s : state) : Prop := {
  bb_lt : forall n, is_Some (nodes s !! n) -> (n < next s)%nat;
  bb_shape : Shape s;
  bb_valid : forall n, inGraph (nd s n) = true -> valid (nd s n) = true;
  bb_memo : forall b, b_memo (bd s b) = false;
  (* a bind main node declares the lhs-change node and the current right-hand side *)
  bb_main : forall n b, nkind (nd s n) = KBindMain b ->
              n = S b /\ nkind (nd s b) = KBindLhs b /\
              decl (nd s n) = b :: match b_rhs (bd s b) with Some r => [r] | None => [] end;
  bb_lhs : forall n b, nkind (nd s n) = KBindLhs b -> n = b /\ decl (nd s n) = [b_lhs (bd s b)]
}.

(** * Values *)

(** [node_consistent], the value half, with the node's held value as a parameter *)
Definition consistent_valB (s : state) (n : nid) (v : Z) : bool :=
  let x := nd s n in
  match nkind x with
  | KVar _ | KReturn | KAlways | KBindLhs _ => true
  | KMap f => match decl x with [a] => v =? ap1 f (valueOf s a) | _ => false end
  | KMap2 f => match decl x with [a; b] => v =? ap2 f (valueOf s a) (valueOf s b) | _ => false end
  | KMapN f => v =? apN f (map (valueOf s) (decl x))
  | KCutoff c => match decl x with
                 | [a] => match c with
                          | CEq | CNever => v =? valueOf s a
                          | CAlways => v =? 0
                          | CParity => true
                          end
                 | _ => false
                 end
  | KBindMain b => v =? match b_rhs (bd s b) with Some r => valueOf s r | None => 0 end
  end.

(** the structural half for bind [b]: the right-hand side is what the selected case builds *)
Definition matchesOK (s : state) (b : nat) : bool :=
  let br := bd s b in
  let v := valueOf s (b_lhs br) in
  matches (next s + 64) s (Some b) v (select (b_cases br) v) (b_rhs br).

(** * The quiescent invariant *)
Record ValInvB (s : state) : Prop := {
  vb_shape : Shape s;
  vb_stamps : forall n, stamps_node s true n = true;
  (* a valid node outside the graph has never-computed stamps (an invalidated one keeps the
     number of the pass that invalidated it) *)
  vb_unreg : forall n, inGraph (nd s n) = false -> valid (nd s n) = true ->
                       recomputedAt (nd s n) = 0 /\ changedAt (nd s n) = 0;
  vb_owed : forall n, inGraph (nd s n) = true -> isStale s n = true -> inHeap s n = true;
  vb_clean : forall n, inGraph (nd s n) = true -> inHeap s n = false -> guarded s None n = true ->
                       consistent_valB s n (value (nd s n)) = true;
  vb_match : forall b, inGraph (nd s (S b)) = true -> nkind (nd s (S b)) = KBindMain b ->
                       inHeap s b = false -> guarded s None b = true -> matchesOK s b = true
}.

Definition vb_codes (s : state) : list nat :=
  code (shape_b s) 40 ++
  code (forallb (stamps_node s true) (allNodes s)) 41 ++
  code (forallb (fun n => negb (inGraph (nd s n)) || negb (isStale s n) || inHeap s n) (allNodes s)) 42 ++
  code (forallb (fun n => negb (inGraph (nd s n)) || inHeap s n || negb (guarded s None n)
                          || consistent_valB s n (value (nd s n))) (allNodes s)) 43 ++
  code (forallb (fun n => inGraph (nd s n) || negb (valid (nd s n)) ||
                          ((recomputedAt (nd s n) =? 0) && (changedAt (nd s n) =? 0))) (allNodes s)) 44 ++
  code (forallb (fun n => match nkind (nd s n) with
                          | KBindMain b => negb (bool_decide (n = S b)) || negb (inGraph (nd s n)) || inHeap s b
                                           || negb (guarded s None b) || matchesOK s b
                          | _ => true
                          end) (allNodes s)) 45.

Definition valinvB_b (s : state) : bool := (1 <=? stabNum s) && bool_decide (vb_codes s = []).

(** * The premise: no lhs-change node at or below a queued node *)
Definition NoLhs (s : state) : Prop :=
  forall w n, inHeap s w = true -> reach s w n -> isLhs (nkind (nd s n)) = false.

Definition nolhs_b (s : state) : bool :=
  forallb (fun w => forallb (fun n => negb (isLhs (nkind (nd s n)))) (descs (length (allNodes s)) s w))
          (Heap.ids (heap s)).

(* a certificate for [NoLhs]: a list that contains the queue, is closed under [children] and
   contains no lhs-change node (sound without any assumption on the graph); [nolhs_c] tries the
   descendants of the queue *)
Definition nolhs_cert (s : state) (D : list nid) : bool :=
  forallb (fun w => bool_decide (w ∈ D)) (Heap.ids (heap s)) &&
  forallb (fun a => forallb (fun c => bool_decide (c ∈ D)) (children (nd s a))) D &&
  forallb (fun n => negb (isLhs (nkind (nd s n)))) D.
Definition nolhs_c (s : state) : bool :=
  nolhs_cert s (concat (map (descs (length (allNodes s)) s) (Heap.ids (heap s)))).

(** * The loop invariant *)
Record LInvB (h0 : list nid) (base : list event) (s : state) (cur : option nid) : Prop := {
  lb_bf : BFB s;
  lb_heap : HeapSpec.inv (heap s) /\
            forall q, q ∈ Heap.ids (heap s) ->
              inGraph (nd s q) = true /\ Heap.hinOf (heap s) q = height (nd s q);
  lb_stamps : forall n, stamps_node s false n = true;
  lb_B : forall w n, inW s cur w = true -> reach s w n -> isDone s n = false;
  lb_M : forall m w, cur = Some m -> w ∈ Heap.ids (heap s) -> reach s w m -> False;
  lb_owed : forall n, inGraph (nd s n) = true -> isDone s n = false -> isStale s n = true ->
                      inW s cur n = true;
  lb_clean : forall n, inGraph (nd s n) = true -> inW s cur n = false ->
                       guarded s cur n = true -> consistent_valB s n (value (nd s n)) = true;
  lb_orig : forall n, inW s cur n = true \/ isDone s n = true ->
                      inGraph (nd s n) = true /\ origin s h0 n = true;
  lb_prog : forall n, n ∈ h0 -> inW s cur n = true \/ isDone s n = true;
  lb_log : exists evs, log s = evs ++ base /\ Forall (fun e => PassInv.ev_ok s e = true) evs /\
                       NoDup (invoked_of evs);
  (* no bind function runs: nothing owed is, or is above, a lhs-change node *)
  lb_nolhs : forall w n, inW s cur w = true -> reach s w n -> isLhs (nkind (nd s n)) = false;
  (* every registered bind is instantiated for the current value of its input *)
  lb_match : forall b, inGraph (nd s (S b)) = true -> nkind (nd s (S b)) = KBindMain b ->
                       matchesOK s b = true;
  (* no lhs-change node has run in this pass *)
  lb_ran : forall n, isDone s n = true -> isLhs (nkind (nd s n)) = false
}.

Definition lb_codes (h0 : list nid) (base : list event) (s : state) (cur : option nid) : list nat :=
  let W : list nid := Heap.ids (heap s) ++ match cur with Some m => [m] | None => [] end in
  let fuel := length (allNodes s) in
  let evs := pass_events base s in
  code (shape_b s) 50 ++
  code (heap_inv_b (heap s) &&
        forallb (fun q => inGraph (nd s q) && (Heap.hinOf (heap s) q =? height (nd s q))) (Heap.ids (heap s))) 51 ++
  code (forallb (stamps_node s false) (allNodes s)) 52 ++
  code (forallb (fun w => forallb (fun n => negb (isDone s n)) (descs fuel s w)) W) 53 ++
  code (match cur with
        | Some m => forallb (fun w => negb (bool_decide (m ∈ descs fuel s w))) (Heap.ids (heap s))
        | None => true
        end) 54 ++
  code (forallb (fun n => negb (inGraph (nd s n)) || isDone s n || negb (isStale s n) || inW s cur n)
                (allNodes s)) 55 ++
  code (forallb (fun n => negb (inGraph (nd s n)) || inW s cur n || negb (guarded s cur n)
                          || consistent_valB s n (value (nd s n))) (allNodes s)) 56 ++
  code (forallb (fun n => negb (inW s cur n || isDone s n) || (inGraph (nd s n) && origin s h0 n))
                (allNodes s)) 57 ++
  code (forallb (fun n => inW s cur n || isDone s n) h0) 58 ++
  code (bool_decide (log s = evs ++ base) && forallb (PassInv.ev_ok s) evs && bool_decide (NoDup (invoked_of evs))) 59 ++
  code (forallb (fun w => forallb (fun n => negb (isLhs (nkind (nd s n)))) (descs fuel s w)) W) 60 ++
  code (forallb (fun n => match nkind (nd s n) with
                          | KBindMain b => negb (bool_decide (n = S b)) || negb (inGraph (nd s n)) || matchesOK s b
                          | _ => true
                          end) (allNodes s)) 61 ++
  code (forallb (fun n => negb (isDone s n) || negb (isLhs (nkind (nd s n)))) (allNodes s)) 62.

Definition pass_codesB (s : state) : list nat :=
  let s1 := emit EvPassStart (s <| status := 1 |>) in
  let h0 := Heap.ids (heap s1) in
  let base := log s1 in
  lb_codes h0 base s1 None ++
  match loopChk (lb_codes h0 base) (passFuel s1) [] s1 [] with
  | Ok (_, _, _, _, cs) => cs
  | _ => [98%nat]
  end.

(** replay a history on the model: the first operation after which a clause of [ValInvB] fails
    (code 19 first), or, for a plan-free serial pass that satisfies [NoLhs], during which a clause
    of [LInvB] fails, or after which the state is not [consistent] (code 18) *)
Fixpoint vb_trace (s : state) (os : list op) (i : nat) : option (nat * list nat) :=
  match os with
  | [] => None
  | o :: os =>
    if negb (op_ok s o) then Some (i, [99%nat]) else
    let s := s <| log := [] |> in
    let isp := match o with Stabilize [] => nolhs_b s | _ => false end in
    let pc := if isp then pass_codesB s else [] in
    match pc with
    | _ :: _ => Some (i, pc)
    | [] =>
      match step s o with
      | Ok (s', e) =>
        match (if valinvB_b s' then [] else 19%nat :: vb_codes s') ++
              (if isp && negb (consistent s') then [18%nat] else []) with
        | [] => vb_trace s' os (S i)
        | cs => Some (i, cs)
        end
      | Crash _ => Some (i, [98%nat])
      | OutOfFuel => Some (i, [97%nat])
      end
    end
  end.

(* how many plan-free passes of a history satisfy the premise, and how many of those run a bind
   main node (EvUpd of a node of kind KBindMain is not logged; count passes that recompute one) *)
Fixpoint vb_count (s : state) (os : list op) (acc : nat * nat * nat) : nat * nat * nat :=
  match os with
  | [] => acc
  | o :: os =>
    match step (s <| log := [] |>) o with
    | Ok (s', _) =>
      let '(a, b, c) := acc in
      let acc' := match o with
                  | Stabilize [] =>
                    (S a, if nolhs_b s then S b else b,
                     if nolhs_b s && existsb (fun n => isBindKind (nkind (nd s n)) && inGraph (nd s n)
                                                     && (recomputedAt (nd s' n) =? stabNum s)) (allNodes s)
                     then S c else c)
                  | _ => acc
                  end in
      vb_count s' os acc'
    | _ => acc
    end
  end.
