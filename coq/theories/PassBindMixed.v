(** C12 + C07 on graphs with binds: plans that write vars AND have a failing / panicking function.
    The pass with plan [p], seen through the erasure [PassBindWrites.cl], is the pass with the plan
    [fo p] that keeps only the faults of [p]; and a pass whose plan has no writes commutes with the
    erasure.  So a pass whose plan consists of writes and one fault [(x, WFn, AFail k)] behaves, up
    to the deferred writes, as the pass with [failPlan x] / [panicPlan x] (PassBindFault.v). *)
From stdpp Require Import sorting.
From incr Require Import Base Heap HeapSpec HeapProofs EngineDefs Engine EngineRun EngineWf Spec EngineLemmas EngineLocal
     EngineInv EngineInvProofs PassInv PassProofs PassPlanProofs PassBind PassBindProofs PassBindSwap PassBindSwapProofs
     PassBindSwapStep PassBindOps PassBindFault PassBindWrites PassBindTotal.

Local Arguments valueOf : simpl never.

(** * the faults of a plan *)
Definition isFail (a : action) : bool := match a with AFail _ => true | _ => false end.
Definition fo (p : plan) : plan := List.filter (fun x : nid * which * action => isFail x.2) p.

Lemma actions_of_fo p n w : actions_of (fo p) n w = List.filter isFail (actions_of p n w).
Proof.
  unfold actions_of, fo. induction p as [|[[m w'] a] p IH]; [reflexivity|]. simpl.
  destruct (isFail a) eqn:Ea; simpl.
  - destruct ((m =? n)%nat && which_eqb w w'); simpl; [rewrite Ea; f_equal; exact IH|exact IH].
  - destruct ((m =? n)%nat && which_eqb w w'); simpl; [rewrite Ea; exact IH|exact IH].
Qed.

Definition astep : state * option faultkind -> action -> res (state * option faultkind) :=
  fun '(s, f) a =>
    match f with
    | Some _ => Ok (s, f)
    | None =>
      match a with
      | AFail k => Ok (s, Some k)
      | ASet v x => s <-! varSet s v x; Ok (s, None)
      | AUpdate v d => s <-! varUpdate s v d; Ok (s, None)
      end
    end.

Lemma astep_faulted acts : forall s k, rfold astep acts (s, Some k) = Ok (s, Some k).
Proof. induction acts as [|a acts IH]; intros s k; [reflexivity|]. rewrite rfold_cons. cbn [astep rbind]. apply IH. Qed.

Lemma applyActions_sim acts : forall s s' f,
  status s = 1 -> rfold astep acts (s, None) = Ok (s', f) ->
  cl s' = cl s /\ status s' = 1 /\ rfold astep (List.filter isFail acts) (cl s, None) = Ok (cl s, f).
Proof.
  induction acts as [|a acts IH]; intros s s' f Hst H.
  - injection H as <- <-. auto.
  - rewrite rfold_cons in H. destruct a as [k|v x|v d]; cbn [astep rbind] in H.
    + rewrite astep_faulted in H. injection H as <- <-. split; [reflexivity|]. split; [exact Hst|].
      cbn [List.filter isFail]. rewrite rfold_cons. cbn [astep rbind]. apply astep_faulted.
    + destruct (varSet s v x) as [s1| |] eqn:E1; simpl in H; try discriminate.
      destruct (varSet_cl s v x s1 Hst E1) as [C1 Hst1]. destruct (IH s1 s' f Hst1 H) as (C2 & Hst2 & R).
      split; [congruence|]. split; [exact Hst2|]. cbn [List.filter isFail]. rewrite <- C1. exact R.
    + unfold varUpdate in H. destruct (varSet s v _) as [s1| |] eqn:E1; simpl in H; try discriminate.
      destruct (varSet_cl s v _ s1 Hst E1) as [C1 Hst1]. destruct (IH s1 s' f Hst1 H) as (C2 & Hst2 & R).
      split; [congruence|]. split; [exact Hst2|]. cbn [List.filter isFail]. rewrite <- C1. exact R.
Qed.

Lemma invoke_simG p s n w s' e :
  status s = 1 -> invoke p s n w = Ok (s', e) -> invoke (fo p) (cl s) n w = Ok (cl s', e) /\ status s' = 1.
Proof.
  intros Hst H. unfold invoke, applyActions in *. fold astep in *. apply rbind_ok in H as ([s1 f] & H1 & H).
  destruct (applyActions_sim _ _ _ _ Hst H1) as (C & Hst1 & R). rewrite actions_of_fo, R. cbn [rbind].
  destruct f as [[|]|]; injection H as <- <-; rewrite <- C; auto.
Qed.

(* a plan without writes *)
Definition nowrites (q : plan) : Prop := fo q = q.
Lemma fo_fo p : fo (fo p) = fo p.
Proof.
  unfold fo. induction p as [|x p IH]; [reflexivity|]. simpl. destruct (isFail x.2) eqn:E; simpl; [rewrite E; f_equal|]; exact IH.
Qed.
Lemma nowrites_fo p : nowrites (fo p). Proof. apply fo_fo. Qed.
Lemma nowrites_nil : nowrites []. Proof. reflexivity. Qed.

Lemma applyActions_nowrites acts : Forall (fun a => isFail a = true) acts ->
  forall s, rfold astep acts (s, None) = Ok (s, match acts with AFail k :: _ => Some k | _ => None end).
Proof.
  intros Hall s. destruct acts as [|a acts]; [reflexivity|]. inversion Hall as [|? ? Ha _]; subst.
  destruct a; try discriminate Ha. rewrite rfold_cons. cbn [astep rbind]. apply astep_faulted.
Qed.

Lemma invoke_cl_eq q s n w : nowrites q ->
  invoke q (cl s) n w = rmap (fun r : state * option err => (cl r.1, r.2)) (invoke q s n w).
Proof.
  intros Hq. unfold invoke, applyActions. fold astep.
  assert (Hall : Forall (fun a => isFail a = true) (actions_of q n w)).
  { rewrite <- Hq, actions_of_fo. apply Forall_forall. intros a Ha. apply filter_In in Ha. apply Ha. }
  rewrite !(applyActions_nowrites _ Hall). cbn [rbind].
  destruct (actions_of q n w) as [|[[|]| |] l]; reflexivity.
Qed.

(** * the simulation, for any plan *)
Lemma bindLhs_simG fuel p s b s' e :
  status s = 1 ->
  bindLhsStabilize fuel p s b = Ok (s', e) -> bindLhsStabilize fuel (fo p) (cl s) b = Ok (cl s', e).
Proof.
  intros Hst H. rewrite bindLhs_unfold in H. rewrite bindLhs_unfold. cbv zeta in *.
  rewrite bd_cl, cl_updb, valueOf_cl.
  set (br := bd s b) in *. set (s1 := updb s b (set b_rhsNodes (fun _ : list nid => []))) in *.
  set (x := valueOf s1 (b_lhs br)) in *.
  destruct (if b_memo br then _ else None) as [[? [? root]]|].
  - rewrite bindTail_cl. apply clM_Ok, H.
  - apply rbind_ok in H as ([s2 e2] & Hi & H).
    destruct (invoke_simG p s1 b WFn s2 e2 Hst Hi) as (Hi' & _). rewrite Hi'. cbn [rbind].
    destruct e2 as [e0|].
    + apply fail_inv in H as [-> ->]. rewrite cl_updb. reflexivity.
    + rewrite bindFn_cl. destruct (bindFn b br x s2) as [s3 root]. cbn [fst snd]. rewrite bindTail_cl. apply clM_Ok, H.
Qed.

Lemma stabilizeNode_simG fuel p s n s' e :
  status s = 1 ->
  (forall eq, nkind (nd s n) = KVar eq -> recomputedAt (nd s n) = stabNum s) ->
  stabilizeNode fuel p s n = Ok (s', e) -> stabilizeNode fuel (fo p) (cl s) n = Ok (cl s', e).
Proof.
  intros Hst Hr H. unfold stabilizeNode in *. rewrite nkind_cl, pending_cl, decl_cl.
  assert (Hmap : forall args r,
            (' (s1, e1) <-! invoke p s n WFn;
             match e1 with
             | Some e0 => fail s1 e0
             | None => ok (emit (EvInvoked n args r) (upd s1 n (set value (fun _ => r))))
             end) = Ok (s', e) ->
            (' (s1, e1) <-! invoke (fo p) (cl s) n WFn;
             match e1 with
             | Some e0 => fail s1 e0
             | None => ok (emit (EvInvoked n args r) (upd s1 n (set value (fun _ => r))))
             end) = Ok (cl s', e)).
  { intros args r H2. apply rbind_ok in H2 as ([s1 e1] & Hi & H2).
    destruct (invoke_simG p s n WFn s1 e1 Hst Hi) as (Hi' & _). rewrite Hi'. cbn [rbind].
    destruct e1 as [e0|].
    - apply fail_inv in H2 as [-> ->]. reflexivity.
    - apply ok_inv in H2 as [-> ->]. rewrite cl_upd by (intros y; destruct y; reflexivity). reflexivity. }
  destruct (nkind (nd s n)) eqn:K.
  - destruct (pending (nd s n)).
    + rewrite (Hr _ eq_refl), Z.eqb_refl in H. apply ok_inv in H as [-> ->]. reflexivity.
    + apply ok_inv in H as [-> ->]. reflexivity.
  - apply ok_inv in H as [-> ->]. reflexivity.
  - rewrite valueOf_cl. apply Hmap, H.
  - rewrite !valueOf_cl. apply Hmap, H.
  - rewrite (map_ext _ _ (valueOf_cl s)). apply Hmap, H.
  - apply ok_inv in H as [-> ->]. rewrite valueOf_cl, cl_upd by (intros y; destruct y; reflexivity). reflexivity.
  - apply ok_inv in H as [-> ->]. reflexivity.
  - apply (bindLhs_simG fuel p s b s' e Hst H).
  - apply ok_inv in H as [-> ->]. rewrite bd_cl. destruct (b_rhs (bd s b)); rewrite ?valueOf_cl, cl_upd by (intros y; destruct y; reflexivity); reflexivity.
Qed.

Lemma rns_simG fuel p s n s' e imm :
  status s = 1 ->
  recomputeNodeSerial fuel p s n = Ok (s', e, imm) ->
  recomputeNodeSerial fuel (fo p) (cl s) n = Ok (cl s', e, imm).
Proof.
  intros Hst H. rewrite recomputeNodeSerial_unfold in H. rewrite recomputeNodeSerial_unfold. cbv zeta in *.
  change (stabNum (cl s)) with (stabNum s). rewrite cl_upd by (intros y; destruct y; reflexivity).
  rewrite nd_cl. change (recomputedAt (clN (nd s n))) with (recomputedAt (nd s n)).
  set (s0 := upd s n (set recomputedAt (fun _ => stabNum s))) in *.
  assert (Hst0 : status s0 = 1) by exact Hst.
  apply rbind_ok in H as ([[s1 e1] cut] & H1 & H).
  assert (C1 : maybeCutoff (fo p) (cl s0) n (clN (nd s n)) = Ok (cl s1, e1, cut) /\ status s1 = 1).
  { unfold maybeCutoff in *. change (nkind (clN (nd s n))) with (nkind (nd s n)).
    destruct (nkind (nd s n)); try (injection H1 as <- <- <-; auto).
    apply rbind_ok in H1 as ([s2 e2] & Hi & H1).
    destruct (invoke_simG p s0 n WCut s2 e2 Hst0 Hi) as (Hi' & Hst2). rewrite Hi'. cbn [rbind].
    change (value (clN (nd s n))) with (value (nd s n)). change (decl (clN (nd s n))) with (decl (nd s n)).
    rewrite valueOf_cl. destruct e2 as [e0|]; injection H1 as <- <- <-; auto. }
  destruct C1 as (C1 & Hst1). rewrite C1. cbn [rbind].
  destruct e1 as [e0|].
  { rewrite failTail_cl. apply (rmap_Ok clR _ _ H). }
  destruct cut; [injection H as <- <- <-; reflexivity|].
  apply rbind_ok in H as ([s2 e2] & H2 & H).
  assert (Hk1n : nkind (nd s1 n) = nkind (nd s n)).
  { apply maybeCutoff_spec in H1 as (V1 & _). destruct (vps_fields _ _ (V1 n)) as (-> & _).
    apply (nd_upd_proj nkind). reflexivity. }
  assert (Hrec1 : forall eq, nkind (nd s1 n) = KVar eq -> recomputedAt (nd s1 n) = stabNum s1).
  { intros eq K. unfold maybeCutoff in H1. rewrite <- Hk1n, K in H1. injection H1 as <-.
    unfold s0. rewrite nd_upd_eq; [reflexivity|]. apply kind_has. rewrite <- Hk1n, K. discriminate. }
  rewrite (stabilizeNode_simG fuel p s1 n s2 e2 Hst1 Hrec1 H2). cbn [rbind].
  destruct e2 as [e0|].
  - rewrite failTail_cl. apply (rmap_Ok clR _ _ H).
  - rewrite successTail_cl. apply (rmap_Ok clR _ _ H).
Qed.

Lemma chain_simG fuel p : forall s n s' e at_,
  status s = 1 ->
  recomputeChain fuel p s n = Ok (s', e, at_) -> recomputeChain fuel (fo p) (cl s) n = Ok (cl s', e, at_).
Proof.
  induction fuel as [|fuel IH]; intros s n s' e at_ Hst H; [discriminate|]. cbn [recomputeChain] in *.
  destruct (recomputeNodeSerial fuel p s n) as [[[s1 e1] imm]| |] eqn:E1; simpl in H; try discriminate.
  rewrite (rns_simG fuel p s n s1 e1 imm Hst E1). cbn [rbind].
  destruct (pf_recomputeNodeSerial _ _ _ _ _ _ _ E1) as (_ & _ & Hst1 & _).
  destruct e1 as [e1|]; [injection H as <- <- <-; reflexivity|].
  destruct imm as [c|]; [|injection H as <- <- <-; reflexivity].
  apply (IH s1 c s' e at_); [rewrite Hst1; exact Hst|exact H].
Qed.

Lemma loop_simG fuel p : forall s al s' e at_ al',
  status s = 1 ->
  passLoop fuel p s al = Ok (s', e, at_, al') -> passLoop fuel (fo p) (cl s) al = Ok (cl s', e, at_, al').
Proof.
  induction fuel as [|fuel IH]; intros s al s' e at_ al' Hst H; [discriminate|]. cbn [passLoop] in *.
  rewrite heap_cl. destruct (Heap.cnt (heap s) <=? 0); [injection H as <- <- <- <-; reflexivity|].
  destruct (Heap.removeMin (heap s)) as [[n w]|]; [|discriminate].
  rewrite cl_set_heap. set (s2 := s <| heap := w |>) in *. rewrite nkind_cl.
  destruct (recomputeChain fuel p s2 n) as [[[s3 e3] at3]| |] eqn:E3; simpl in H; try discriminate.
  rewrite (chain_simG fuel p s2 n s3 e3 at3 Hst E3). cbn [rbind].
  destruct e3 as [e3|]; [injection H as <- <- <- <-; reflexivity|].
  destruct (pf_recomputeChain _ _ _ _ _ _ _ E3) as (_ & _ & Hst3 & _).
  apply (IH s3 _ s' e at_ al'); [rewrite Hst3; exact Hst|exact H].
Qed.

(** * a plan without writes commutes with the erasure (equations) *)
Lemma bindLhs_clG fuel q s b : nowrites q ->
  bindLhsStabilize fuel q (cl s) b = clM (bindLhsStabilize fuel q s b).
Proof.
  intros Hq. rewrite !bindLhs_unfold. cbv zeta. rewrite bd_cl, cl_updb, valueOf_cl.
  destruct (if b_memo (bd s b) then _ else None) as [[? [? root]]|]; [apply bindTail_cl|].
  rewrite (invoke_cl_eq q _ b WFn Hq). destruct (invoke q _ b WFn) as [[s2 e2]| |]; cbn [rmap rbind fst snd]; try reflexivity.
  destruct e2 as [e0|]; [rewrite cl_updb; reflexivity|].
  rewrite bindFn_cl. destruct (bindFn b (bd s b) _ s2) as [s3 root]. apply bindTail_cl.
Qed.

Lemma stabilizeNode_clG fuel q s n : nowrites q ->
  (forall eq, nkind (nd s n) = KVar eq -> recomputedAt (nd s n) = stabNum s) ->
  stabilizeNode fuel q (cl s) n = clM (stabilizeNode fuel q s n).
Proof.
  intros Hq Hr. unfold stabilizeNode. rewrite nkind_cl, pending_cl, decl_cl.
  assert (Hmap : forall args r,
            (' (s1, e1) <-! invoke q (cl s) n WFn;
             match e1 with
             | Some e0 => fail s1 e0
             | None => ok (emit (EvInvoked n args r) (upd s1 n (set value (fun _ => r))))
             end) =
            clM (' (s1, e1) <-! invoke q s n WFn;
                 match e1 with
                 | Some e0 => fail s1 e0
                 | None => ok (emit (EvInvoked n args r) (upd s1 n (set value (fun _ => r))))
                 end)).
  { intros args r. rewrite (invoke_cl_eq q s n WFn Hq).
    destruct (invoke q s n WFn) as [[s1 e1]| |]; cbn [rmap rbind fst snd]; try reflexivity.
    destruct e1; [reflexivity|]. rewrite cl_upd by (intros y; destruct y; reflexivity). reflexivity. }
  destruct (nkind (nd s n)) eqn:K; try reflexivity.
  - destruct (pending (nd s n)); [|reflexivity]. rewrite (Hr _ eq_refl), Z.eqb_refl. reflexivity.
  - rewrite valueOf_cl. apply Hmap.
  - rewrite !valueOf_cl. apply Hmap.
  - rewrite (map_ext _ _ (valueOf_cl s)). apply Hmap.
  - rewrite valueOf_cl, cl_upd by (intros y; destruct y; reflexivity). reflexivity.
  - apply bindLhs_clG, Hq.
  - rewrite bd_cl. destruct (b_rhs (bd s b)); rewrite ?valueOf_cl, cl_upd by (intros y; destruct y; reflexivity); reflexivity.
Qed.

Lemma rns_clG fuel q s n : nowrites q ->
  recomputeNodeSerial fuel q (cl s) n = rmap clR (recomputeNodeSerial fuel q s n).
Proof.
  intros Hq. rewrite !recomputeNodeSerial_unfold. cbv zeta.
  change (stabNum (cl s)) with (stabNum s). rewrite cl_upd by (intros y; destruct y; reflexivity).
  rewrite nd_cl. change (recomputedAt (clN (nd s n))) with (recomputedAt (nd s n)).
  set (s0 := upd s n (set recomputedAt (fun _ => stabNum s))).
  assert (C1 : maybeCutoff q (cl s0) n (clN (nd s n)) =
               rmap (fun r : state * option err * bool => (cl r.1.1, r.1.2, r.2)) (maybeCutoff q s0 n (nd s n))).
  { unfold maybeCutoff. change (nkind (clN (nd s n))) with (nkind (nd s n)).
    destruct (nkind (nd s n)); try reflexivity. rewrite (invoke_cl_eq q s0 n WCut Hq).
    change (value (clN (nd s n))) with (value (nd s n)). change (decl (clN (nd s n))) with (decl (nd s n)).
    rewrite valueOf_cl. destruct (invoke q s0 n WCut) as [[s2 e2]| |]; cbn [rmap rbind fst snd]; try reflexivity.
    destruct e2; reflexivity. }
  rewrite C1. destruct (maybeCutoff q s0 n (nd s n)) as [[[s1 e1] cut]| |] eqn:H1; cbn [rmap rbind fst snd]; try reflexivity.
  destruct e1 as [e0|]; [apply failTail_cl|]. destruct cut; [reflexivity|].
  assert (Hk1n : nkind (nd s1 n) = nkind (nd s n)).
  { apply maybeCutoff_spec in H1 as (V1 & _). destruct (vps_fields _ _ (V1 n)) as (-> & _).
    apply (nd_upd_proj nkind). reflexivity. }
  assert (Hrec1 : forall eq, nkind (nd s1 n) = KVar eq -> recomputedAt (nd s1 n) = stabNum s1).
  { intros eq K. unfold maybeCutoff in H1. rewrite <- Hk1n, K in H1. injection H1 as <-.
    unfold s0. rewrite nd_upd_eq; [reflexivity|]. apply kind_has. rewrite <- Hk1n, K. discriminate. }
  rewrite (stabilizeNode_clG fuel q s1 n Hq Hrec1).
  destruct (stabilizeNode fuel q s1 n) as [[s2 e2]| |]; cbn [clM rmap rbind]; try reflexivity.
  destruct e2 as [e0|]; [apply failTail_cl|apply successTail_cl].
Qed.

Lemma chain_clG fuel q : nowrites q -> forall s n, recomputeChain fuel q (cl s) n = rmap clC (recomputeChain fuel q s n).
Proof.
  intros Hq. induction fuel as [|fuel IH]; intros s n; [reflexivity|]. cbn [recomputeChain]. rewrite (rns_clG fuel q s n Hq).
  destruct (recomputeNodeSerial fuel q s n) as [[[s1 e1] imm]| |]; cbn [rmap rbind clR fst snd]; try reflexivity.
  destruct e1; [reflexivity|]. destruct imm; [apply IH|reflexivity].
Qed.

Lemma loop_clG fuel q : nowrites q -> forall s al, passLoop fuel q (cl s) al = rmap clL (passLoop fuel q s al).
Proof.
  intros Hq. induction fuel as [|fuel IH]; intros s al; [reflexivity|]. cbn [passLoop]. rewrite heap_cl.
  destruct (Heap.cnt (heap s) <=? 0); [reflexivity|].
  destruct (Heap.removeMin (heap s)) as [[n w]|]; [|reflexivity].
  rewrite cl_set_heap, nkind_cl, (chain_clG fuel q Hq).
  destruct (recomputeChain fuel q (s <| heap := w |>) n) as [[[s3 e3] at3]| |]; cbn [rmap rbind clC fst snd]; try reflexivity.
  destruct e3; [reflexivity|apply IH].
Qed.

(** the loop of the pass with plan [p] and the loop of the pass with its faults only, from the same
    state, end in states equal up to [pending] / [setDuring] / [setRemoved], with the same result *)
Theorem loops_agree fuel p s al sLp e at_ al' :
  status s = 1 -> passLoop fuel p s al = Ok (sLp, e, at_, al') ->
  exists tL, passLoop fuel (fo p) s al = Ok (tL, e, at_, al') /\ cl tL = cl sLp.
Proof.
  intros Hst H. pose proof (loop_simG fuel p s al sLp e at_ al' Hst H) as LS.
  rewrite (loop_clG fuel (fo p) (nowrites_fo p)) in LS.
  destruct (passLoop fuel (fo p) s al) as [[[[tL e'] at'] al'']| |]; try discriminate LS.
  cbn [rmap rbind] in LS. apply Ok_clL_inv in LS as (E & -> & -> & ->). eauto.
Qed.

(** * a pass whose plan has writes and the failing function of [x] *)
Definition endUe (e : option err) (s3 : state) : state :=
  let r := runUpdateHandlers (emit (EvPassEnd (classify e)) s3) in r <| stabNum := stabNum r + 1 |>.

Lemma endUe_facts e s3 :
  nodes (endUe e s3) = nodes s3 /\ heap (endUe e s3) = heap s3 /\ binds (endUe e s3) = binds s3 /\
  next (endUe e s3) = next s3 /\ stabNum (endUe e s3) = stabNum s3 + 1 /\ setDuring (endUe e s3) = setDuring s3 /\
  setRemoved (endUe e s3) = setRemoved s3.
Proof. unfold endUe. rewrite runUpdateHandlers_eq. cbn. repeat split. Qed.

Lemma cl_endUe e s : cl (endUe e s) = endUe e (cl s).
Proof. unfold endUe. cbv zeta. rewrite cl_emit, runUpdateHandlers_cl. reflexivity. Qed.

Lemma stabilizeEnd_unfoldE s3 e s' :
  stabilizeEnd s3 e = Ok s' ->
  exists u1, rfold dstep (setRemoved (endUe e s3) ++ setDuring (endUe e s3)) (endUe e s3) = Ok u1 /\
             s' = u1 <| setDuring := [] |> <| setRemoved := [] |> <| status := 0 |>.
Proof.
  unfold stabilizeEnd. cbv zeta. fold (endUe e s3).
  rewrite applyDeferredSets_unfold. intros H.
  apply rbind_ok in H as (s1 & H1 & [= <-]). apply rbind_ok in H1 as (u1 & H1 & [= <-]). eauto.
Qed.

Lemma Struct_nodes s s' : nodes s' = nodes s -> Struct s -> Struct s'.
Proof.
  intros Hn HS. pose proof (nodes_eq_nd _ _ Hn) as Hnd. constructor; intros *; rewrite ?Hnd; apply HS.
Qed.

Theorem pass_mixed_fail s p x s' e :
  Inv s -> ValInvB s -> Tplain s -> plan_ok s p = true -> fo p = failPlan x ->
  stabilize p false s = Ok (s', e) -> rejected e = false ->
  (e = None \/ e = Some (EUser x)) /\ Inv s' /\ ValInvB s' /\ Tplain s' /\ CF s s' /\
  (e = Some (EUser x) -> inHeap s' x = true).
Proof.
  intros IV V TP Hpok Hfo H Hrej. pose proof (Inv_wfb s IV) as Hwf.
  destruct (wfb_transients _ Hwf) as (Hst & Hsd & Hsr & Hh).
  assert (IV' : Inv s').
  { apply (Inv_step_stabilize s (Stabilize p) s' e IV); try reflexivity; [exact Hpok|exact H| |];
      intros ->; discriminate Hrej. }
  destruct (stabilize_decompose p false s s' e Hst H) as (sLp & at_ & al & s2p & s3p & ELp & ERp & EPp & EEp).
  pose proof ELp as ELp'. unfold passResult in ELp'. cbv zeta in ELp'. simpl in ELp'.
  set (s1 := EngineLocal.passStart s) in *.
  assert (Hst1 : status s1 = 1) by reflexivity.
  destruct (loops_agree _ p s1 [] sLp e at_ al Hst1 ELp') as (tL & ET & EclL). rewrite Hfo in ET.
  destruct (pass_start_factsB s IV V TP) as (TP1 & P1 & L1 & HA1). fold s1 in TP1, P1, L1, HA1.
  destruct (loop_failC x _ s1 [] tL e at_ al TP1 P1 L1 HA1 ET) as [(r & -> & [-> | ->])|(TPL & PL & LL & HkL & CL & HAL & He)];
    [discriminate Hrej|discriminate Hrej|].
  assert (Hres : e = None \/ e = Some (EUser x)) by (destruct He as [[-> _]|[-> _]]; auto).
  assert (EP' : s3p = s2p).
  { destruct Hres as [-> | ->]; cbn in EPp; injection EPp as <-; reflexivity. }
  subst s3p.
  (* the requeue *)
  pose proof (requeueAlways_cl al tL) as RQ. rewrite EclL, requeueAlways_cl in RQ.
  change (PassProofs.requeueAlways al sLp) with (EngineLocal.requeueAlways al sLp) in RQ. rewrite ERp in RQ.
  destruct (requeueAlways al tL) as [t2| |] eqn:ERt; try discriminate RQ.
  cbn [rmap rbind] in RQ. apply Ok_cl_inv in RQ. rename RQ into Ecl2.
  pose proof (requeue_only_heap _ _ _ ERt) as ORt. pose proof (requeue_only_heap _ _ _ ERp) as ORp.
  destruct (PInv_heap tL PL) as [IL _].
  destruct (requeue_mem al tL t2 IL ERt) as (IR & MR & AR).
  (* the invariants of the fault-only run, at the end of its pass *)
  set (tE := endUe e t2).
  destruct (endUe_facts e t2) as (Tn & Th & Tb & Tx & Tk & _ & _).
  assert (HnE : nodes tE = nodes tL) by (unfold tE; rewrite Tn; apply (oh_nodes _ _ ORt)).
  assert (HbE : binds tE = binds tL) by (unfold tE; rewrite Tb; apply (oh_binds _ _ ORt)).
  assert (HxE : next tE = next tL) by (unfold tE; rewrite Tx; apply (oh_next _ _ ORt)).
  assert (HqE : forall y, y ∈ Heap.ids (heap t2) -> inHeap tE y = true).
  { intros y Hy. unfold inHeap, tE. rewrite Th. apply (inHeap_iff0 t2 y IR), Hy. }
  assert (VE : ValInvB tE).
  { apply (finish_ValInvB tL al tE PL LL HAL HnE HbE HxE).
    - unfold tE. rewrite Tk, (oh_stabNum _ _ ORt). reflexivity.
    - intros y Hy. apply HqE, MR, (inHeap_iff0 tL y IL), Hy.
    - intros y Hy Hg. apply HqE, AR; [exact Hy|]. pose proof (st_hnonneg _ (PInv_Struct tL PL) y Hg). unfold unset. lia. }
  assert (HSE : Struct tE) by (apply (Struct_nodes tL tE HnE), (PInv_Struct tL PL)).
  assert (HBE : BFB tE) by (apply (BFB_nodes tL tE HnE HbE HxE), (PInv_BFB tL PL (lc_shape _ _ LL))).
  (* the write run's epilogue *)
  destruct (stabilizeEnd_unfoldE _ _ _ EEp) as (u1 & Ed & Es').
  assert (EclU : cl tE = cl (endUe e s2p)) by (unfold tE; rewrite !cl_endUe, Ecl2; reflexivity).
  pose proof (tr_Struct tE _ EclU HSE) as HSu. pose proof (tr_BFB tE _ EclU HBE) as HBu.
  pose proof (tr_ValInvB tE _ EclU HBE VE) as Vu.
  destruct (endUe_facts e s2p) as (Un & Uh & Ub & Ux & Uk & Usd & Usr).
  assert (HvL : Forall (fun v => isVar sLp v = true) (setRemoved sLp ++ setDuring sLp)).
  { apply (passResult_deferred_are_vars p false s sLp e at_ al); [|exact Hpok| |exact ELp].
    - intros n Hn. apply (io_lt _ (inv_ids _ IV)). exact Hn.
    - rewrite Hsd, Hsr. constructor. }
  set (W := setRemoved (endUe e s2p) ++ setDuring (endUe e s2p)) in *.
  assert (HvU : Forall (fun v => isVar (endUe e s2p) v = true) W).
  { unfold W. rewrite Usr, Usd, (oh_setRemoved _ _ ORp), (oh_setDuring _ _ ORp).
    eapply List.Forall_impl; [|exact HvL]. intros w Hw. unfold isVar in *. rewrite Un, (oh_nodes _ _ ORp). exact Hw. }
  destruct (dsteps_postB W _ u1 HSu HBu Vu HvU Ed) as (A1 & A2 & A3 & (F1 & F2 & F3) & A5 & A6 & A7 & A8 & A9).
  assert (Hb' : binds s' = binds tL).
  { rewrite Es'. change (binds u1 = binds tL). rewrite F1, <- HbE. apply (tr_binds tE _ EclU). }
  split; [exact Hres|]. split; [exact IV'|]. split.
  { rewrite Es'. apply (ValInvB_fields u1); try reflexivity. exact A3. }
  split; [apply (Tplain_binds tL s' Hb' TPL)|].
  split.
  { apply (CF_trans s tL s'); [|apply CF_binds, Hb']. apply (CF_trans s s1 tL); [apply CF_binds; reflexivity|exact CL]. }
  intros ->. destruct He as [[? _]|[_ HqL]]; [discriminate|].
  rewrite Es'. change (inHeap u1 x = true). apply A7. rewrite (tr_inHeap tE _ EclU). apply HqE, MR, (inHeap_iff0 tL x IL), HqL.
Qed.

(** a writes-only plan: no error but a rejected edge *)
Lemma writes_only_fo p : writes_only p = true -> fo p = [].
Proof.
  unfold writes_only, fo. induction p as [|[[m w] a] p IH]; [reflexivity|]. simpl. intros H.
  apply andb_true_iff in H as [Ha Hp]. destruct a; [discriminate|simpl; apply IH, Hp|simpl; apply IH, Hp].
Qed.

Lemma fo_nil_writes_only p : fo p = [] -> writes_only p = true.
Proof.
  unfold writes_only, fo. induction p as [|[[m w] a] p IH]; [reflexivity|]. simpl. destruct a; simpl; [discriminate| |]; exact IH.
Qed.

Lemma pass_writes_result s p s' e :
  Inv s -> fo p = [] -> stabilize p false s = Ok (s', e) -> rejected e = false -> e = None.
Proof.
  intros IV Hfo H Hrej. pose proof (Inv_wfb s IV) as Hwf. destruct (wfb_transients _ Hwf) as (Hst & _).
  destruct (stabilize_decompose p false s s' e Hst H) as (sLp & at_ & al & s2p & s3p & ELp & _).
  unfold passResult in ELp. cbv zeta in ELp. simpl in ELp.
  assert (Hst1 : status (EngineLocal.passStart s) = 1) by reflexivity.
  destruct (loops_agree _ p _ [] sLp e at_ al Hst1 ELp) as (tL & ET & _). rewrite Hfo in ET.
  pose proof (PassBindTotal.E_loop _ _ _ _ _ _ _ ET) as G. destruct e as [r|]; [|reflexivity].
  destruct G as [-> | ->]; discriminate Hrej.
Qed.

(** * histories: binds, swaps, faults, writes, and plans with writes and a failing function *)
Definition isMixedPlan (p : plan) : bool :=
  match fo p with
  | [] => true
  | [(_, WFn, AFail FErr)] => true
  | _ => false
  end.
Definition isMixedOp (o : op) : bool := match o with Stabilize p => isMixedPlan p | _ => false end.

Fixpoint histM_run (s : state) (os : list op) : option state :=
  match os with
  | [] => Some s
  | o :: os =>
    if histB_op o && parity_op o && op_ok s o && op_clean s o then
      match step s o with
      | Ok (s', None) => histM_run s' os
      | _ => None
      end
    else if isFaultOp o || (isMixedOp o && op_ok s o) then
      match step s o with
      | Ok (s', e) => if rejected e then None else histM_run s' os
      | _ => None
      end
    else None
  end.

Lemma stepM_inv s o s' e :
  Inv s -> ValInvB s -> Tplain s -> SpecProofs.templates_ok s = true -> isMixedOp o = true -> op_ok s o = true ->
  step s o = Ok (s', e) -> rejected e = false ->
  Inv s' /\ ValInvB s' /\ Tplain s' /\ SpecProofs.templates_ok s' = true.
Proof.
  intros IV V TP Ht Ho Hok H Hr. destruct o; try discriminate Ho. simpl in Ho, H, Hok. unfold isMixedPlan in Ho.
  destruct (fo p) as [|[[x w] a] l] eqn:Hfo.
  - pose proof (pass_writes_result s p s' e IV Hfo H Hr) as ->.
    destruct (pass_writesB s p s' IV V TP (fo_nil_writes_only p Hfo) Hok H) as (t' & W & E).
    destruct (we_inv _ _ _ _ E) as (A & B & C & D).
    split; [exact A|]. split; [exact B|]. split; [exact C|apply (templates_ok_CF s s' D Ht)].
  - destruct w; try discriminate Ho. destruct a as [k| |]; try discriminate Ho. destruct k; try discriminate Ho.
    destruct l; try discriminate Ho.
    destruct (pass_mixed_fail s p x s' e IV V TP Hok Hfo H Hr) as (_ & A & B & C & D & _).
    split; [exact A|]. split; [exact B|]. split; [exact C|apply (templates_ok_CF s s' D Ht)].
Qed.

Lemma histM_inv os : forall s0 s,
  Inv s0 -> ValInvB s0 -> Tplain s0 -> SpecProofs.templates_ok s0 = true -> histM_run s0 os = Some s ->
  Inv s /\ ValInvB s /\ Tplain s /\ SpecProofs.templates_ok s = true.
Proof.
  induction os as [|o os IH]; intros s0 s IV V TP Ht H; simpl in H; [injection H as <-; auto|].
  destruct (histB_op o && parity_op o && op_ok s0 o && op_clean s0 o) eqn:Eo.
  - rewrite !andb_true_iff in Eo. destruct Eo as [[[Ho Hpo] Hok] Hcl].
    destruct (step s0 o) as [[s1 [e|]]| |] eqn:Es; try discriminate.
    destruct (stepB_inv s0 o s1 IV V TP Ho Hok Hcl Es) as (I1 & V1 & T1).
    apply (IH s1 s I1 V1 T1 (stepB_templates s0 o s1 IV V TP Ho Hpo Es Ht) H).
  - destruct (isFaultOp o || isMixedOp o && op_ok s0 o) eqn:Ef; [|discriminate].
    destruct (step s0 o) as [[s1 e]| |] eqn:Es; try discriminate.
    destruct (rejected e) eqn:Er; [discriminate|].
    assert (R : Inv s1 /\ ValInvB s1 /\ Tplain s1 /\ SpecProofs.templates_ok s1 = true).
    { apply orb_true_iff in Ef as [Ef|Ef].
      - exact (stepF_inv s0 o s1 e IV V TP Ht Ef Es Er).
      - apply andb_true_iff in Ef as [Ef Hok]. exact (stepM_inv s0 o s1 e IV V TP Ht Ef Hok Es Er). }
    destruct R as (I1 & V1 & T1 & Ht1). apply (IH s1 s I1 V1 T1 Ht1 H).
Qed.

Lemma histM_split os1 : forall s0 o os2 sf,
  histM_run s0 (os1 ++ o :: os2) = Some sf ->
  exists s1, histM_run s0 os1 = Some s1 /\ histM_run s1 (o :: os2) = Some sf.
Proof.
  induction os1 as [|a os1 IH]; intros s0 o os2 sf H; [exists s0; auto|].
  simpl in H |- *.
  destruct (histB_op a && parity_op a && op_ok s0 a && op_clean s0 a).
  - destruct (step s0 a) as [[s1 [e|]]| |]; try discriminate. apply (IH s1 o os2 sf H).
  - destruct (isFaultOp a || isMixedOp a && op_ok s0 a); [|discriminate].
    destruct (step s0 a) as [[s1 e]| |]; try discriminate. destruct (rejected e); [discriminate|].
    apply (IH s1 o os2 sf H).
Qed.

Theorem histM_planfree mh os1 os2 sf :
  (0 < mh)%nat -> histM_run (init mh) (os1 ++ Stabilize [] :: os2) = Some sf ->
  exists s1 s2, histM_run (init mh) os1 = Some s1 /\ step s1 (Stabilize []) = Ok (s2, None) /\
    consistent s2 = true /\ observers_agree s2 = true /\ Inv s2 /\ ValInvB s2.
Proof.
  intros Hmh H. destruct (histM_split os1 (init mh) _ os2 sf H) as (s1 & H1 & H2).
  assert (TP0 : Tplain (init mh)) by (intros b r Hr; inversion Hr).
  destruct (histM_inv os1 (init mh) s1 (Inv_init mh Hmh) (ValInvB_init mh) TP0 eq_refl H1) as (I1 & V1 & T1 & Ht1).
  simpl in H2.
  destruct (stabilize [] false s1) as [[s2 [e|]]| |] eqn:Es; try discriminate.
  exists s1, s2. split; [exact H1|]. split; [exact Es|].
  destruct (passS_ValInvB s1 s2 I1 V1 T1 Es) as (V2 & T2 & C2).
  destruct (passS_observers_agree s1 s2 I1 V1 T1 Es (templates_ok_CF s1 s2 C2 Ht1)) as (A & B & C & _).
  auto.
Qed.

(** Example: node 4's function updates var 0 (the bind's input) and then fails, in the pass in which
    the bind swaps; the write survives the failure *)
Definition exM_plan : plan := [(4%nat, WFn, AUpdate 0%nat 1); (4%nat, WFn, AFail FErr); (2%nat, WFn, ASet 1%nat 9)].
Definition exM_ops : list op :=
  [ NewVar 2 false; NewVar 3 false;
    NewBind [TMap (Aff 1 1) (TOuter 1%nat); TRet 5] 0%nat;
    NewMap (Aff 2 0) 3%nat;
    Observe 4%nat;
    Stabilize [];
    SetVar 0%nat 3;
    Stabilize exM_plan;
    Stabilize [];
    Stabilize [] ].

Lemma exM_runs : exists s, histM_run (init 64) exM_ops = Some s.
Proof.
  assert (H : match histM_run (init 64) exM_ops with Some _ => true | None => false end = true)
    by (vm_compute; reflexivity).
  destruct (histM_run (init 64) exM_ops) as [s|]; [eauto|discriminate H].
Qed.

Lemma exM_fail : exists s s', histM_run (init 64) (take 7 exM_ops) = Some s /\
  stabilize exM_plan false s = Ok (s', Some (EUser 4%nat)) /\
  value (nd s 0%nat) = 3 /\ value (nd s' 0%nat) = 4 /\ value (nd s' 1%nat) = 9.
Proof.
  assert (H : match histM_run (init 64) (take 7 exM_ops) with
              | Some s => match stabilize exM_plan false s with
                          | Ok (s', Some (EUser 4%nat)) =>
                            (value (nd s 0%nat) =? 3) && (value (nd s' 0%nat) =? 4) && (value (nd s' 1%nat) =? 9)
                          | _ => false end
              | None => false end = true) by (vm_compute; reflexivity).
  destruct (histM_run (init 64) (take 7 exM_ops)) as [s|] eqn:E1; [|discriminate H].
  destruct (stabilize exM_plan false s) as [[s' [[| |n|n| | |]|]]| |] eqn:E2; try discriminate H.
  destruct n as [|[|[|[|[|n]]]]]; try discriminate H.
  rewrite !andb_true_iff, !Z.eqb_eq in H. destruct H as [[A B] C]. exists s, s'. auto 10.
Qed.
