(** Model of clock.go and step_function.go, embedded in the part of graph.go these nodes use.

    Time is [Z] (nanoseconds since the harness's epoch); the zero [time.Time] that clock.go
    uses as "nothing scheduled" is [None].  Node kinds:
      [KVar v]                     an input var (only as the input of a snapshot)
      [KAt when]                   At
      [KIntervals start every]     AtIntervals ([start] = the clock when it was created)
      [KStep initial steps]        StepFunction (steps as the caller listed them)
      [KSnapshot input at before]  Snapshot
    Every node carries the [Node] metadata the graph keeps for it ([meta]) and its own
    fields ([own]); the clock's registration list is the nodes' [entry] fields in creation
    order (every time node registers exactly once, when it is created).

    Graph functions are transliterated under their Go names: SetStale, the recompute
    heap's addNodeUnsafe (a negative height indexes heights[-1]: [Crash HeapNegativeHeight]),
    observeNode / becameNecessaryRecursive / addChildWithoutAdjustingHeights, unobserveNode /
    checkIfUnnecessary / becameUnnecessary / removeParents / removeNode / zeroNode,
    recomputeNodeSerial with shouldRecomputeChild, Stabilize, Var.Set, Clock.Advance.
    Left out because these nodes cannot reach it: binds / scopes / invalidation, cutoffs,
    errors (no Stabilize here returns one), sentinels, "always" nodes, update handlers,
    setDuringStabilization.  The recompute heap is represented by the per-node field
    [hrh] (heightInRecomputeHeap) alone; that it hands nodes back lowest height first is
    C18.  The serial pass's "held child" shortcut (a child recomputed directly after its
    parent instead of through the heap) changes the order within a pass, not what is
    recomputed; here every child goes through the heap.

    [gd] ("guard") selects between two versions of graph.SetStale: [gd = false] is SetStale
    as it was when this model was written (it queued the node at whatever height it had, and
    -1 for a node outside the graph indexes heights[-1]); [gd = true] is SetStale with the
    repair that /repo received afterwards (commit "SetStale on a node that is not in the
    graph no longer indexes the recompute heap at -1": return before anything is written
    when node.height == HeightUnset).  The harness probes which of the two it is running
    against (ClockRun.v). *)
From incr Require Import Base.

Record step_ := Step { s_at : Z; s_val : Z }.

Inductive kind :=
| KVar (v0 : Z)
| KAt (when : Z)
| KIntervals (start every : Z)
| KStep (initial : Z) (steps : list step_)
| KSnapshot (input : nid) (at_ : Z) (before : Z).

Record meta := Meta {
  observers : nat;          (* len(n.observers) *)
  children : list nid;      (* n.children *)
  height : Z;
  hrh : Z;                  (* heightInRecomputeHeap *)
  recomputedAt : Z;
  changedAt : Z;
  setAt : Z;
  numRecomputes : Z;
  inGraph : bool
}.

Record own := Own {
  value : Z;                (* booleans are 0 / 1 *)
  taken : bool;             (* snapshotIncr.taken *)
  entry : option Z          (* clockEntry.at *)
}.

Record tnode := TNode { kind_ : kind; meta_ : meta; own_ : own }.

Record state := State {
  now : Z;                  (* Clock.now *)
  num : Z;                  (* graph.stabilizationNum *)
  nodes : list tnode
}.

Definition b2z (b : bool) : Z := if b then 1 else 0.

(** ** StepFunction helpers *)

(* slices.SortStableFunc by At: insertion keeps the listed order among equal times *)
Fixpoint insert (x : step_) (l : list step_) : list step_ :=
  match l with
  | [] => [x]
  | y :: l' => if s_at x <=? s_at y then x :: l else y :: insert x l'
  end.
Definition sort_steps (l : list step_) : list step_ := foldr insert [] l.

(* nextBoundary: the first step after now *)
Fixpoint nextBoundary (ordered : list step_) (now : Z) : option Z :=
  match ordered with
  | [] => None
  | st :: r => if now <? s_at st then Some (s_at st) else nextBoundary r now
  end.

(* the scan in Stabilize: break at the first step after now *)
Fixpoint stepValue (value : Z) (ordered : list step_) (now : Z) : Z :=
  match ordered with
  | [] => value
  | st :: r => if now <? s_at st then value else stepValue (s_val st) r now
  end.

(** ** Construction *)
Definition meta0 : meta := Meta 0 [] unset unset 0 0 0 0 false.

Definition new_node (now0 : Z) (k : kind) : tnode :=
  TNode k meta0
    match k with
    | KVar v0 => Own v0 false None
    | KAt when => Own 0 false (Some when)
    | KIntervals start every => Own 0 false (Some (start + every))
    | KStep initial steps => Own initial false (nextBoundary (sort_steps steps) now0)
    | KSnapshot _ at_ before => Own before false (Some at_)
    end.

Definition init (now0 : Z) (cfg : list kind) : state :=
  State now0 1 (map (new_node now0) cfg).

(** ** Access *)
Definition get (s : state) (n : nid) : res tnode :=
  match nodes s !! n with Some x => Ok x | None => Crash MissingNode end.
Definition put (s : state) (n : nid) (x : tnode) : state :=
  State (now s) (num s) (<[n := x]> (nodes s)).

Definition with_meta (x : tnode) (m : meta) : tnode := TNode (kind_ x) m (own_ x).
Definition with_own (x : tnode) (o : own) : tnode := TNode (kind_ x) (meta_ x) o.

Definition set_hrh (m : meta) (h : Z) : meta :=
  Meta (observers m) (children m) (height m) h (recomputedAt m) (changedAt m) (setAt m) (numRecomputes m) (inGraph m).
Definition set_height (m : meta) (h : Z) : meta :=
  Meta (observers m) (children m) h (hrh m) (recomputedAt m) (changedAt m) (setAt m) (numRecomputes m) (inGraph m).
Definition set_setAt (m : meta) (a : Z) : meta :=
  Meta (observers m) (children m) (height m) (hrh m) (recomputedAt m) (changedAt m) a (numRecomputes m) (inGraph m).
Definition set_observers (m : meta) (o : nat) : meta :=
  Meta o (children m) (height m) (hrh m) (recomputedAt m) (changedAt m) (setAt m) (numRecomputes m) (inGraph m).
Definition set_children (m : meta) (c : list nid) : meta :=
  Meta (observers m) c (height m) (hrh m) (recomputedAt m) (changedAt m) (setAt m) (numRecomputes m) (inGraph m).
Definition set_inGraph (m : meta) (b : bool) : meta :=
  Meta (observers m) (children m) (height m) (hrh m) (recomputedAt m) (changedAt m) (setAt m) (numRecomputes m) b.

(* Node.isNecessary (no observer nodes, no forceNecessary here) *)
Definition isNecessary (x : tnode) : bool :=
  (0 <? observers (meta_ x))%nat || negb (bool_decide (children (meta_ x) = [])).

(* IParents *)
Definition nodeParents (x : tnode) : list nid :=
  match kind_ x with KSnapshot input _ _ => [input] | _ => [] end.

Definition isVar (x : tnode) : bool := match kind_ x with KVar _ => true | _ => false end.

(* Node.isStale.  A var carries its own predicate, varIncr.Stale, which compares a field
   nothing ever writes (varIncr.setAt) with recomputedAt and is therefore false.  n.parents
   holds the linked parents: the declared ones while the node is in the graph. *)
Definition isStale (s : state) (x : tnode) : bool :=
  if isVar x then false else
  (recomputedAt (meta_ x) =? 0) ||
  (inGraph (meta_ x) &&
   existsb (fun p => match nodes s !! p with
                     | Some px => recomputedAt (meta_ x) <? changedAt (meta_ px)
                     | None => false end) (nodeParents x)).

(** ** The recompute heap, through heightInRecomputeHeap *)

(* addNodeUnsafe *)
Definition heapAdd (s : state) (n : nid) : res state :=
  x <-! get s n;
  if height (meta_ x) <? 0 then Crash HeapNegativeHeight
  else Ok (put s n (with_meta x (set_hrh (meta_ x) (height (meta_ x))))).

Definition addIfNotPresent (s : state) (n : nid) : res state :=
  x <-! get s n;
  if hrh (meta_ x) =? unset then heapAdd s n else Ok s.

(* removeMinUnsafe: a queued node of the lowest height (the first such in creation order) *)
Definition minQueued (s : state) : option nid :=
  fst (fold_left (fun '(best, n) x =>
                    let h := hrh (meta_ x) in
                    (if h =? unset then best
                     else match best with
                          | Some (b, hb) => if h <? hb then Some (n, h) else best
                          | None => Some (n, h)
                          end, S n))
                 (nodes s) (None, O))
  ≫= (fun '(n, _) => Some n).

(** ** graph.SetStale *)
Definition SetStale (gd : bool) (s : state) (n : nid) : res state :=
  x <-! get s n;
  if gd && (height (meta_ x) =? unset) then Ok s else
  let s := put s n (with_meta x (set_setAt (meta_ x) (num s))) in
  if hrh (meta_ x) =? unset then heapAdd s n else Ok s.

(** ** Clock.Advance *)
Definition due (s : state) (t : Z) : list nid :=
  omap (fun '(n, x) => match entry (own_ x) with
                       | Some a => if a <=? t then Some n else None
                       | None => None end)
       (imap (fun n x => (n, x)) (nodes s)).

Definition Advance (gd : bool) (s : state) (t : Z) : res state :=
  if t <? now s then Ok s else
  let s := State t (num s) (nodes s) in
  rfold (SetStale gd) (due s t) s.

(** ** Becoming necessary *)
Fixpoint becameNecessaryRecursive (fuel : nat) (s : state) (n : nid) : res state :=
  match fuel with
  | O => OutOfFuel
  | S fuel =>
    x <-! get s n;
    (* addNode; setHeight(node, scopeHeight()+1) *)
    let s := put s n (with_meta x (set_height (set_inGraph (meta_ x) true) 0)) in
    s <-! rfold (fun s p =>
                   (* addChildWithoutAdjustingHeights(node, parent) *)
                   px <-! get s p;
                   let wasNecessary := isNecessary px in
                   let s := put s p (with_meta px (set_children (meta_ px) (children (meta_ px) ++ [n]))) in
                   s <-! (if wasNecessary then Ok s else becameNecessaryRecursive fuel s p);
                   px <-! get s p;
                   x <-! get s n;
                   if height (meta_ x) <=? height (meta_ px)
                   then Ok (put s n (with_meta x (set_height (meta_ x) (height (meta_ px) + 1))))
                   else Ok s)
                (nodeParents x) s;
    x <-! get s n;
    if isStale s x then addIfNotPresent s n else Ok s
  end.

Definition fuel_of (s : state) : nat := S (length (nodes s)).

(* observeNode *)
Definition Observe (s : state) (n : nid) : res state :=
  x <-! get s n;
  let wasNecessary := isNecessary x in
  let s := put s n (with_meta x (set_observers (meta_ x) (S (observers (meta_ x))))) in
  if wasNecessary then Ok s else becameNecessaryRecursive (fuel_of s) s n.

(** ** Becoming unnecessary *)
Definition zeroNode (s : state) (n : nid) : res state :=
  x <-! get s n;
  Ok (put s n (with_meta x (Meta 0 [] unset unset 0 0 0 (numRecomputes (meta_ x)) (inGraph (meta_ x))))).

Fixpoint becameUnnecessary (fuel : nat) (s : state) (n : nid) : res state :=
  match fuel with
  | O => OutOfFuel
  | S fuel =>
    x <-! get s n;
    if negb (inGraph (meta_ x)) then Ok s else
    (* removeParents: unlink, then checkIfUnnecessary(parent) *)
    s <-! rfold (fun s p =>
                   px <-! get s p;
                   let px := with_meta px (set_children (meta_ px)
                                             (filter (fun c => negb (Nat.eqb c n)) (children (meta_ px)))) in
                   let s := put s p px in
                   if isNecessary px then Ok s else becameUnnecessary fuel s p)
                (nodeParents x) s;
    (* removeNode *)
    x <-! get s n;
    let s := put s n (with_meta x (set_inGraph (meta_ x) false)) in
    zeroNode s n
  end.

(* unobserveNode *)
Definition Unobserve (s : state) (n : nid) : res state :=
  x <-! get s n;
  match observers (meta_ x) with
  | O => Ok s                                  (* there is no observer to remove *)
  | S k =>
    let x := with_meta x (set_observers (meta_ x) k) in
    let s := put s n x in
    if isNecessary x then Ok s else becameUnnecessary (fuel_of s) s n
  end.

(** ** Recomputing *)

(* the node's own Stabilize *)
Definition stabilizeNode (s : state) (x : tnode) : res own :=
  let o := own_ x in
  match kind_ x with
  | KVar _ => Ok o
  | KAt when =>
    let v := negb (now s <? when) in
    Ok (Own (b2z v) (taken o) (if v then None else entry o))
  | KIntervals start every =>
    let elapsed := now s - start in
    let v := if elapsed <? 0 then 0 else Z.quot elapsed every in
    Ok (Own v (taken o) (Some (start + (v + 1) * every)))
  | KStep initial steps =>
    let ordered := sort_steps steps in
    Ok (Own (stepValue initial ordered (now s)) (taken o) (nextBoundary ordered (now s)))
  | KSnapshot input at_ _ =>
    if taken o then Ok o
    else if now s <? at_ then Ok o
    else ix <-! get s input; Ok (Own (value (own_ ix)) true None)
  end.

Definition shouldRecomputeChild (s : state) (cx : tnode) : bool :=
  if negb (hrh (meta_ cx) =? unset) || negb (isNecessary cx) then false
  else if negb (isVar cx) && (recomputedAt (meta_ cx) <? num s) then true
  else isStale s cx.

(* recomputeNodeSerial, for a node already taken off the heap *)
Definition recompute (s : state) (n : nid) : res state :=
  x <-! get s n;
  let m := meta_ x in
  let x := with_meta x (Meta (observers m) (children m) (height m) (hrh m) (num s) (changedAt m) (setAt m)
                             (numRecomputes m + 1) (inGraph m)) in
  o <-! stabilizeNode s x;
  let m := meta_ x in
  let x := TNode (kind_ x) (Meta (observers m) (children m) (height m) (hrh m) (recomputedAt m) (num s) (setAt m)
                                 (numRecomputes m) (inGraph m)) o in
  let s := put s n x in
  rfold (fun s c =>
           cx <-! get s c;
           if shouldRecomputeChild s cx then heapAdd s c else Ok s)
        (children (meta_ x)) s.

Fixpoint stabilizeLoop (fuel : nat) (s : state) : res state :=
  match minQueued s with
  | None => Ok s
  | Some n =>
    match fuel with
    | O => OutOfFuel
    | S fuel =>
      x <-! get s n;
      let s := put s n (with_meta x (set_hrh (meta_ x) unset)) in
      s <-! recompute s n;
      stabilizeLoop fuel s
    end
  end.

Definition Stabilize (s : state) : res state :=
  s <-! stabilizeLoop (2 * length (nodes s) + 1) s;
  Ok (State (now s) (num s + 1) (nodes s)).

(** ** Var.Set (outside a pass) *)
Definition SetInput (gd : bool) (s : state) (n : nid) (v : Z) : res state :=
  x <-! get s n;
  if isVar x then
    let x := with_own x (Own v (taken (own_ x)) (entry (own_ x))) in
    let s := put s n x in
    if isNecessary x then SetStale gd s n else Ok s
  else Ok s.

(** ** Operations *)
Inductive op :=
| OAdvance (t : Z)
| OObserve (n : nid)
| OUnobserve (n : nid)
| OSetInput (n : nid) (v : Z)
| OStabilize.

Definition step (gd : bool) (s : state) (o : op) : res state :=
  match o with
  | OAdvance t => Advance gd s t
  | OObserve n => Observe s n
  | OUnobserve n => Unobserve s n
  | OSetInput n v => SetInput gd s n v
  | OStabilize => Stabilize s
  end.

Definition run (gd : bool) (s : state) (ops : list op) : res state := rfold (step gd) ops s.

(** * Specification vocabulary (shared by ClockProofs.v and Properties/C15.v) *)

(** what the theorems assume about the nodes created: an interval is positive and starts
    no later than the clock does (AtIntervals reads the clock when it is created and panics
    on a non-positive interval); a snapshot's input is a var *)
Definition kind_ok (now0 : Z) (cfg : list kind) (k : kind) : Prop :=
  match k with
  | KIntervals start every => start <= now0 /\ 0 < every
  | KSnapshot input _ _ => exists v0, cfg !! input = Some (KVar v0)
  | _ => True
  end.
Definition cfg_ok (now0 : Z) (cfg : list kind) : Prop :=
  forall n k, cfg !! n = Some k -> kind_ok now0 cfg k.

(** Clock.Now() after a sequence of operations: rewinds are ignored *)
Definition clock_after (now0 : Z) (ops : list op) : Z :=
  fold_left (fun c o => match o with OAdvance t => Z.max c t | _ => c end) ops now0.

(** the last step at or before [now]; among steps of equal time the later-listed wins.
    Read from the end of the list: an earlier-listed step displaces the best so far only
    if it is strictly later in time. *)
Fixpoint last_step (steps : list step_) (now : Z) : option step_ :=
  match steps with
  | [] => None
  | st :: r =>
    let best := last_step r now in
    if (s_at st <=? now) && match best with None => true | Some b => s_at b <? s_at st end
    then Some st else best
  end.
Definition step_closed (initial : Z) (steps : list step_) (now : Z) : Z :=
  match last_step steps now with Some st => s_val st | None => initial end.

(** the times at which a node asks to be woken *)
Definition trigger_of (k : kind) (tau : Z) : Prop :=
  match k with
  | KVar _ => False
  | KAt when => tau = when
  | KIntervals start every => exists j, 1 <= j /\ tau = start + j * every
  | KStep _ steps => exists st, st ∈ steps /\ tau = s_at st
  | KSnapshot _ at_ _ => tau = at_
  end.

(** Snapshot, as a function of the operations alone: it captures its input's current value
    in the first pass in which it is observed and the clock has reached its time. *)
Record ghost := Ghost { g_now : Z; g_obs : nat; g_in : Z; g_cap : option Z }.

Definition ghost_step (n input : nid) (at_ : Z) (g : ghost) (o : op) : ghost :=
  match o with
  | OAdvance t => Ghost (Z.max (g_now g) t) (g_obs g) (g_in g) (g_cap g)
  | OObserve m => if Nat.eqb m n then Ghost (g_now g) (S (g_obs g)) (g_in g) (g_cap g) else g
  | OUnobserve m => if Nat.eqb m n then Ghost (g_now g) (Nat.pred (g_obs g)) (g_in g) (g_cap g) else g
  | OSetInput m v => if Nat.eqb m input then Ghost (g_now g) (g_obs g) v (g_cap g) else g
  | OStabilize =>
    match g_cap g with
    | None => if (0 <? g_obs g)%nat && (at_ <=? g_now g)
              then Ghost (g_now g) (g_obs g) (g_in g) (Some (g_in g)) else g
    | Some _ => g
    end
  end.

Definition snapshot_closed (n input : nid) (at_ before : Z) (now0 v0 : Z) (ops : list op) : Z :=
  match g_cap (fold_left (ghost_step n input at_) ops (Ghost now0 0 v0 None)) with
  | Some v => v
  | None => before
  end.

(** operations name existing nodes *)
Definition op_ok (len : nat) (o : op) : Prop :=
  match o with
  | OObserve n | OUnobserve n | OSetInput n _ => (n < len)%nat
  | _ => True
  end.
