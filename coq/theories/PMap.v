(** Model of incrutil/pmap (pmap.go, diff.go, reduce.go, bridge.go).

    The Go tree is a persistent AVL tree of heap nodes [{key,value,left,right,height,size}];
    here a node is the constructor [T l k v r h sz] carrying the two CACHED fields exactly as
    the Go node does ([h], [sz] are whatever [join] computed, not recomputed on use).  Keys
    and values are [Z].  Every function below is the transliteration of the Go function of
    the same name and keeps its branch structure.  The places where Go would dereference a
    nil pointer ([left.left], [left.right.key], [right.right], [right.left.key] in [balance];
    [n.left] in [removeMin]; [n.right] in [removeMax]) are [Crash NilDeref] outcomes.

    Iteration ([each], [eachRange], the [yield] protocol of [SymmetricDiff]) is modelled by
    the full list of yielded items; a consumer that stops after [j] items sees [take j].

    Pointer identity: [diff] ([older == newer]) and the reducer's memo (a Go map keyed by
    [*node]) compare pointers.  The model takes a parameter [same : tree -> tree -> bool];
    the only thing assumed of it in the proofs is [same a b = true -> a = b] (Go: equal
    pointers to immutable nodes denote equal trees).  It is executed with structural
    equality (maximal sharing) and with [fun _ _ => false] (no sharing at all); the real
    sharing lies between the two, and the proofs show the results do not depend on it.

    Not modelled: machine-integer overflow of [height]/[size] (sizes are < 2^63), the
    generic key/value types (keys are [Z] with [<]), Go map iteration order (the only use,
    [sortedKeys], sorts). *)
From incr Require Import Base.

Inductive tree :=
| E
| T (l : tree) (k : Z) (v : Z) (r : tree) (h sz : Z).

(** * pmap.go *)

Definition treeSize (n : tree) : Z := match n with E => 0 | T _ _ _ _ _ s => s end.
Definition treeHeight (n : tree) : Z := match n with E => 0 | T _ _ _ _ h _ => h end.

(* Map.Len *)
Definition len (n : tree) : Z := treeSize n.

(* Map.Get: the cursor loop walks down one child at a time *)
Fixpoint get (n : tree) (key : Z) : option Z :=
  match n with
  | E => None
  | T l k v r _ _ =>
    if key <? k then get l key
    else if k <? key then get r key
    else Some v
  end.

Definition has (n : tree) (key : Z) : bool :=
  match get n key with Some _ => true | None => false end.

(* node.each with a yield that never stops; Map.All *)
Fixpoint all (n : tree) : list (Z * Z) :=
  match n with
  | E => []
  | T l k v r _ _ => all l ++ (k, v) :: all r
  end.

(* Map.Keys *)
Definition keys (n : tree) : list Z := map fst (all n).

Definition join (key value : Z) (l r : tree) : tree :=
  let height := treeHeight l in
  let height := if treeHeight r >? height then treeHeight r else height in
  T l key value r (height + 1) (treeSize l + treeSize r + 1).

Definition balance (key value : Z) (l r : tree) : res tree :=
  let lh := treeHeight l in
  let rh := treeHeight r in
  if lh >? rh + 1 then
    match l with
    | E => Crash NilDeref                                   (* left.left *)
    | T ll lk lv lr _ _ =>
      if treeHeight ll >=? treeHeight lr then
        Ok (join lk lv ll (join key value lr r))
      else
        match lr with
        | E => Crash NilDeref                               (* lr.key *)
        | T lrl lrk lrv lrr _ _ =>
          Ok (join lrk lrv (join lk lv ll lrl) (join key value lrr r))
        end
    end
  else if rh >? lh + 1 then
    match r with
    | E => Crash NilDeref                                   (* right.right *)
    | T rl rk rv rr _ _ =>
      if treeHeight rr >=? treeHeight rl then
        Ok (join rk rv (join key value l rl) rr)
      else
        match rl with
        | E => Crash NilDeref                               (* rl.key *)
        | T rll rlk rlv rlr _ _ =>
          Ok (join rlk rlv (join key value l rll) (join rk rv rlr rr))
        end
    end
  else Ok (join key value l r).

Fixpoint insert (n : tree) (key value : Z) : res tree :=
  match n with
  | E => Ok (join key value E E)
  | T l k v r _ _ =>
    if key <? k then l' <-! insert l key value; balance k v l' r
    else if k <? key then r' <-! insert r key value; balance k v l r'
    else Ok (join key value l r)
  end.

Fixpoint removeMin (n : tree) : res (Z * Z * tree) :=
  match n with
  | E => Crash NilDeref                                     (* n.left *)
  | T l k v r _ _ =>
    match l with
    | E => Ok (k, v, r)
    | T _ _ _ _ _ _ =>
      '(key, value, rest) <-! removeMin l;
      t <-! balance k v rest r;
      Ok (key, value, t)
    end
  end.

Fixpoint removeMax (n : tree) : res (Z * Z * tree) :=
  match n with
  | E => Crash NilDeref                                     (* n.right *)
  | T l k v r _ _ =>
    match r with
    | E => Ok (k, v, l)
    | T _ _ _ _ _ _ =>
      '(key, value, rest) <-! removeMax r;
      t <-! balance k v l rest;
      Ok (key, value, t)
    end
  end.

Definition glue (l r : tree) : res tree :=
  match l with
  | E => Ok r
  | T _ _ _ _ _ _ =>
    match r with
    | E => Ok l
    | T _ _ _ _ _ _ =>
      if treeHeight l >? treeHeight r then
        '(key, value, rest) <-! removeMax l; balance key value rest r
      else
        '(key, value, rest) <-! removeMin r; balance key value l rest
    end
  end.

Fixpoint remove (n : tree) (key : Z) : res tree :=
  match n with
  | E => Ok E
  | T l k v r _ _ =>
    if key <? k then l' <-! remove l key; balance k v l' r
    else if k <? key then r' <-! remove r key; balance k v l r'
    else glue l r
  end.

(* Map.Min / Map.Max: the cursor loops *)
Fixpoint min (n : tree) : option (Z * Z) :=
  match n with
  | E => None
  | T l k v _ _ _ => match l with E => Some (k, v) | T _ _ _ _ _ _ => min l end
  end.

Fixpoint max (n : tree) : option (Z * Z) :=
  match n with
  | E => None
  | T _ k v r _ _ => match r with E => Some (k, v) | T _ _ _ _ _ _ => max r end
  end.

(* node.eachRange with a yield that never stops; Map.Range *)
Fixpoint range (n : tree) (low high : Z) : list (Z * Z) :=
  match n with
  | E => []
  | T l k v r _ _ =>
    (if low <? k then range l low high else []) ++
    (if negb (k <? low) && negb (high <? k) then [(k, v)] else []) ++
    (if k <? high then range r low high else [])
  end.

(* Map.Nth: the loop body, [index] is the mutable local *)
Fixpoint nth_loop (n : tree) (index : Z) : option (Z * Z) :=
  match n with
  | E => None
  | T l k v r _ _ =>
    let leftSize := treeSize l in
    if index <? leftSize then nth_loop l index
    else if index =? leftSize then Some (k, v)
    else nth_loop r (index - (leftSize + 1))
  end.
Definition nth (n : tree) (index : Z) : option (Z * Z) :=
  if index <? 0 then None else nth_loop n index.

(* Map.Rank: [rank] is the accumulating local *)
Fixpoint rank_loop (n : tree) (key : Z) (rank : Z) : Z * bool :=
  match n with
  | E => (rank, false)
  | T l k v r _ _ =>
    if key <? k then rank_loop l key rank
    else if k <? key then rank_loop r key (rank + (treeSize l + 1))
    else (rank + treeSize l, true)
  end.
Definition rank (n : tree) (key : Z) : Z * bool := rank_loop n key 0.

(** * bridge.go *)

(* a Go map literal: association list with distinct keys, in no particular order *)
Definition gomap := list (Z * Z).

Fixpoint sorted_ins (x : Z) (l : list Z) : list Z :=
  match l with
  | [] => [x]
  | y :: l' => if x <=? y then x :: l else y :: sorted_ins x l'
  end.
(* sortedKeys: collect the keys, slices.Sort *)
Definition sortedKeys (m : gomap) : list Z := foldr sorted_ins [] (map fst m).

(* in[key]; the zero value when absent *)
Fixpoint goget (m : gomap) (key : Z) : Z :=
  match m with
  | [] => 0
  | (k, v) :: m' => if k =? key then v else goget m' key
  end.

Definition setAll (n : tree) (m : gomap) : res tree :=
  rfold (fun out key => insert out key (goget m key)) (sortedKeys m) n.

Definition deleteAll (n : tree) (ks : list Z) : res tree :=
  rfold (fun out key => remove out key) ks n.

Definition fromGoMap (m : gomap) : res tree := setAll E m.

Definition toGoMap (n : tree) : gomap := all n.

(** * diff.go *)

Inductive change :=
| Added (k new : Z)
| Removed (k old : Z)
| Updated (k old new : Z).

Definition change_key (c : change) : Z :=
  match c with Added k _ | Removed k _ | Updated k _ _ => k end.

(* split returns (left, value-if-found, right) *)
Fixpoint split (n : tree) (key : Z) : res (tree * option Z * tree) :=
  match n with
  | E => Ok (E, None, E)
  | T l k v r _ _ =>
    if key <? k then
      '(sl, sv, sr) <-! split l key;
      t <-! balance k v sr r;
      Ok (sl, sv, t)
    else if k <? key then
      '(sl, sv, sr) <-! split r key;
      t <-! balance k v l sl;
      Ok (t, sv, sr)
    else Ok (l, Some v, r)
  end.

Section Diff.
  (* [older == newer] *)
  Variable same : tree -> tree -> bool.
  (* the caller's [equal]; [None] is Go's nil *)
  Variable equal : option (Z -> Z -> bool).

  (* the changes handed to [yield], in order; recursion follows [older] *)
  Fixpoint diff (older newer : tree) : res (list change) :=
    if same older newer then Ok [] else
    match older with
    | E => Ok (map (fun '(k, v) => Added k v) (all newer))
    | T ol okey ov orr _ _ =>
      match newer with
      | E => Ok (map (fun '(k, v) => Removed k v) (all older))
      | T _ _ _ _ _ _ =>
        '(newLeft, newValue, newRight) <-! split newer okey;
        a <-! diff ol newLeft;
        let mid :=
          match newValue with
          | None => [Removed okey ov]
          | Some nv =>
            match equal with
            | Some eqf => if eqf ov nv then [] else [Updated okey ov nv]
            | None => []
            end
          end in
        b <-! diff orr newRight;
        Ok (a ++ mid ++ b)
      end
    end.

  (* Map.SymmetricDiff consumed until the consumer's yield returns false after [j] items
     ([None]: consumed to the end) *)
  Definition symmetricDiff (older newer : tree) (stop : option nat) : res (list change) :=
    cs <-! diff older newer;
    Ok (match stop with Some j => take j cs | None => cs end).
End Diff.

(** * reduce.go *)

Section Reducer.
  Context {R : Type}.
  Variable project : Z -> Z -> R.
  Variable combine : R -> R -> R.
  (* identity of the memo's [*node] keys *)
  Variable same : tree -> tree -> bool.

  (* the Go map [memo]; one entry per stored key *)
  Definition memo := list (tree * R).

  Fixpoint memo_get (m : memo) (n : tree) : option R :=
    match m with
    | [] => None
    | (n', c) :: m' => if same n' n then Some c else memo_get m' n
    end.

  (* [r.memo[n] = acc]; reached only after a miss on [n], and the recursive calls store
     proper subtrees only, so the key is new *)
  Definition memo_set (m : memo) (n : tree) (acc : R) : memo := (n, acc) :: m.

  Fixpoint reduce (m : memo) (n : tree) : option R * memo :=
    match n with
    | E => (None, m)
    | T l k v r _ _ =>
      match memo_get m n with
      | Some cached => (Some cached, m)
      | None =>
        let acc := project k v in
        let '(lo, m) := reduce m l in
        let acc := match lo with Some x => combine x acc | None => acc end in
        let '(ro, m) := reduce m r in
        let acc := match ro with Some x => combine acc x | None => acc end in
        (Some acc, memo_set m n acc)
      end
    end.

  (* walk: every non-nil node below root *)
  Fixpoint subtrees (n : tree) : list tree :=
    match n with
    | E => []
    | T l _ _ r _ _ => n :: subtrees l ++ subtrees r
    end.

  Definition prune (m : memo) (root : tree) : memo :=
    let reachable := subtrees root in
    List.filter (fun e => existsb (same (fst e)) reachable) m.

  Definition memoLen (m : memo) : Z := Z.of_nat (length m).

  Definition Reduce (m : memo) (root : tree) : option R * memo :=
    let m := if memoLen m >? 4 * len root + 64 then prune m root else m in
    reduce m root.

  (* one reducer fed a sequence of maps *)
  Fixpoint reduceSeq (m : memo) (roots : list tree) : list (option R) :=
    match roots with
    | [] => []
    | t :: roots' => let '(o, m') := Reduce m t in o :: reduceSeq m' roots'
    end.
End Reducer.
