(** Executable correspondence runner for the engine model: replays a history recorded from
    the Go implementation and reports the first operation whose projected observables
    differ (result class, event sequence, node count, queued set, registered set, observer
    values, node values). *)
From stdpp Require Import sorting.
From incr Require Import Base Heap EngineDefs Engine.

Global Instance faultkind_eq : EqDecision faultkind. Proof. solve_decision. Defined.
Global Instance which_eq : EqDecision which. Proof. solve_decision. Defined.
Global Instance errclass_eq : EqDecision errclass. Proof. solve_decision. Defined.
Global Instance event_eq : EqDecision event. Proof. solve_decision. Defined.

Record eobs := EObs {
  e_crashed : bool;               (* a panic escaped, or an internal panic was reported *)
  e_class : errclass;
  e_events : list event;          (* in order of occurrence *)
  e_numNodes : Z;
  e_heap : list nid;              (* RecomputeHeapIDs, sorted *)
  e_reg : list nid;               (* nodes with Graph.Has, sorted *)
  e_obs : list (nid * Z);         (* observer id, observed value; sorted by id *)
  e_vals : list (nid * Z);        (* Value() of every node created so far, sorted by id *)
  e_edges : list (nid * list nid) (* registered node -> its linked inputs, sorted *)
}.

Definition sortn (l : list nid) : list nid := merge_sort Nat.le l.

Definition hasValue (k : kind) : bool := match k with KBindLhs _ => false | _ => true end.

Definition vals_of (s : state) : list (nid * Z) :=
  omap (fun n => match nodes s !! n with
                 | Some x => if hasValue (nkind x) then Some (n, valueOf s n) else None
                 | None => None
                 end) (seq 0 (next s)).

Definition obs_of (s : state) : list (nid * Z) :=
  omap (fun o => match obs s !! o with Some n => Some (o, valueOf s n) | None => None end)
       (seq 0 (next s)).

Definition reg_of (s : state) : list nid :=
  filter (fun n => inGraph (nd s n) = true) (seq 0 (next s)).

(* sort key of an event (mirrors Event.Code in the harness) *)
Definition b2z (b : bool) : Z := if b then 1 else 0.
Definition class_code (c : errclass) : Z :=
  match c with XOk => 0 | XCycle => 1 | XLimit => 2 | XUser => 3 | XPanic => 4 | XCancelled => 5
             | XAlready => 6 | XNil => 7 end.
Definition ev_code (e : event) : list Z :=
  match e with
  | EvInvoked n args r => 1 :: Z.of_nat n :: r :: args
  | EvFault n w k => [2; Z.of_nat n; b2z (match w with WCut => true | WFn => false end);
                      b2z (match k with FPanic => true | FErr => false end)]
  | EvCutoff n o nw v => [3; Z.of_nat n; o; nw; b2z v]
  | EvBindFn n x root => [4; Z.of_nat n; x; match root with Some r => Z.of_nat r + 1 | None => 0 end]
  | EvNec n => [5; Z.of_nat n] | EvUnnec n => [6; Z.of_nat n] | EvInval n => [7; Z.of_nat n]
  | EvUpd n => [8; Z.of_nat n] | EvObsUpd o v => [9; Z.of_nat o; v] | EvErrH n => [10; Z.of_nat n]
  | EvPassStart => [11] | EvPassEnd c => [12; class_code c]
  end.
Fixpoint lex_leb (a b : list Z) : bool :=
  match a, b with
  | [], _ => true
  | _ :: _, [] => false
  | x :: a, y :: b => if x <? y then true else if y <? x then false else lex_leb a b
  end.
Definition ev_le (a b : event) : Prop := lex_leb (ev_code a) (ev_code b) = true.
Global Instance ev_le_dec : RelDecision ev_le.
Proof. intros a b. unfold ev_le. apply _. Defined.
Definition sort_events (l : list event) : list event := merge_sort ev_le l.

Definition observe_state (sorted : bool) (c : errclass) (s : state) : eobs :=
  EObs false c (if sorted then sort_events (rev (log s)) else rev (log s)) (numNodes s) (sortn (Heap.ids (heap s))) (reg_of s) (obs_of s) (vals_of s)
       (map (fun n => (n, sortn (parents (nd s n)))) (reg_of s)).

(* which projection differs first; 0 = none *)
Definition diff_code (a b : eobs) : nat :=
  if negb (bool_decide (e_class a = e_class b)) then 1
  else if negb (bool_decide (e_events a = e_events b)) then 2
  else if negb (e_numNodes a =? e_numNodes b) then 3
  else if negb (bool_decide (e_heap a = e_heap b)) then 4
  else if negb (bool_decide (e_reg a = e_reg b)) then 5
  else if negb (bool_decide (e_obs a = e_obs b)) then 6
  else if negb (bool_decide (e_vals a = e_vals b)) then 7
  else if negb (bool_decide (e_edges a = e_edges b)) then 12
  else 0.

(* (operation index, code): 8 = operation not well-formed, 9 = out of fuel,
   10 = model crashed but the implementation did not, 11 = implementation crashed, model did not *)
Fixpoint replay (sorted : bool) (s : state) (tr : list (op * eobs)) (i : nat) : option (nat * nat) :=
  match tr with
  | [] => None
  | (o, expected) :: tr =>
    if negb (op_ok s o) then Some (i, 8%nat) else
    match step (s <| log := [] |>) o with
    | Ok (s', e) =>
      if e_crashed expected then Some (i, 11%nat) else
      match diff_code (observe_state sorted (classify e) s') expected with
      | O => replay sorted s' tr (S i)
      | c => Some (i, c)
      end
    | Crash _ => if e_crashed expected then None else Some (i, 10%nat)
    | OutOfFuel => Some (i, 9%nat)
    end
  end.

(* MaxHeight option, whether events are compared as multisets (parallel graph), trace *)
Definition case := (nat * bool * list (op * eobs))%type.

Definition mismatches (cs : list case) : list (nat * (nat * nat)) :=
  omap (fun '(k, (mh, sorted, tr)) => match replay sorted (init mh) tr 0 with
                                      | Some m => Some (k, m) | None => None end)
       (imap (fun k c => (k, c)) cs).
