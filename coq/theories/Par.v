(** C04: ParallelStabilize under arbitrary schedules.

    [Engine.parLoop] models Graph.ParallelStabilize as ONE sequential schedule: every height
    block (taken with [Heap.takeMinBlock]) is processed in queue order.  The real library runs
    the nodes of a block concurrently.  What the model can carry of that is

    - the logic of schedule independence: processing the nodes of a block in ANY order gives
      the same state up to the order inside heap buckets and the order of log events
      ([run_block], [sim], [parLoopS], [parStabilizeS]);
    - the footprint of the three sections of recomputeNodeParallel as sets of locations, with
      the lock each access is performed under in graph.go ([access], [footprint], [covered]).

    Definitions only; proofs are in ParProofs.v. *)
From incr Require Import Base Heap HeapSpec EngineDefs Engine.

(** * 1. Schedules *)

(** one iteration of the loop [parLoop] runs over a block *)
Definition block_step (fuel : nat) (p : plan)
  : state * option err * list nid -> nid -> res (state * option err * list nid) :=
  fun '(s, e, always) n =>
    if height (nd s n) =? unset then Ok (s, e, always) else   (* torn down by an earlier node: skipped *)
    '(s, e') <-! recomputeNodeParallel fuel p s n;
    let always := if isAlways (nkind (nd s n)) then always ++ [n] else always in
    Ok (s, match e with Some _ => e | None => e' end, always).

(** processing (a part of) a block in the order [order], starting from the accumulated
    [always] list.  [parLoop] runs the bind lhs-change nodes of the block first, in queue
    order, then the other nodes of the block: the schedules considered here are the orders
    of that second part. *)
Definition run_block_acc (fuel : nat) (p : plan) (s : state) (always : list nid) (order : list nid)
  : res (state * option err * list nid) :=
  rfold (block_step fuel p) order (s, None, always).

Definition run_block (fuel : nat) (p : plan) (s : state) (order : list nid)
  : res (state * option err * list nid) :=
  run_block_acc fuel p s [] order.

Definition isLhsNode (s : state) (n : nid) : bool :=
  match nkind (nd s n) with KBindLhs _ => true | _ => false end.
Definition lhs_part (s : state) (block : list nid) : list nid :=
  filter (fun n => isLhsNode s n = true) block.
Definition rest_part (s : state) (block : list nid) : list nid :=
  filter (fun n => isLhsNode s n = false) block.

(** a scheduler picks, knowing the state, the order in which a block is processed *)
Definition scheduler := state -> list nid -> list nid.
Definition fair (sched : scheduler) : Prop := forall s b, sched s b ≡ₚ b.
Definition queue_order : scheduler := fun _ b => b.

(** [parLoop] / [parStabilize] with the processing order of every block chosen by [sched] *)
Fixpoint parLoopS (sched : scheduler) (fuel : nat) (p : plan) (s : state) (always : list nid)
  : res (state * option err * list nid) :=
  match fuel with
  | O => OutOfFuel
  | S fuel =>
    if Heap.cnt (heap s) <=? 0 then Ok (s, None, always) else
    let '(block, w) := Heap.takeMinBlock (heap s) in
    let s := s <| heap := w |> in
    let order := lhs_part s block ++ sched s (rest_part s block) in
    '(s, e, always) <-! run_block_acc fuel p s always order;
    match e with
    | Some _ => Ok (s, e, always)
    | None => parLoopS sched fuel p s always
    end
  end.

Definition parStabilizeS (sched : scheduler) (p : plan) (s : state) : M :=
  if negb (status s =? 0) then fail s EAlreadyStabilizing else
  let s := emit EvPassStart (s <| status := 1 |>) in
  '(s, e, always) <-! parLoopS sched (passFuel s) p s [];
  s <-! rfold (fun s n => if (height (nd s n) =? unset) || inHeap s n then Ok s else heapAdd s n) always s;
  s <-! stabilizeEnd s e;
  Ok (s, e).

(** * The equivalence: equal up to the order inside heap buckets and the order of the log *)
Record heap_sim (w w' : Heap.t) : Prop := {
  hs_hin : Heap.hin w = Heap.hin w';
  hs_minH : Heap.minH w = Heap.minH w';
  hs_maxH : Heap.maxH w = Heap.maxH w';
  hs_cnt : Heap.cnt w = Heap.cnt w';
  hs_buckets : Forall2 Permutation (Heap.buckets w) (Heap.buckets w')
}.

Record sim (s s' : state) : Prop := {
  sim_nodes : nodes s = nodes s';
  sim_binds : binds s = binds s';
  sim_next : next s = next s';
  sim_reg : reg s = reg s';
  sim_obs : obs s = obs s';
  sim_heap : heap_sim (heap s) (heap s');
  sim_adj : adj s = adj s';
  sim_invq : invq s = invq s';
  sim_stabNum : stabNum s = stabNum s';
  sim_status : status s = status s';
  sim_numNodes : numNodes s = numNodes s';
  sim_setDuring : setDuring s = setDuring s';
  sim_setRemoved : setRemoved s = setRemoved s';
  sim_handlers : handlers s = handlers s';      (* kept sorted by insert_sorted: equal *)
  sim_maxHeight : maxHeight s = maxHeight s';
  sim_log : log s ≡ₚ log s'
}.
Infix "≈" := sim (at level 70, no associativity).

(** results of a block / of a pass loop: states ≈, same error, [always] lists equal as multisets *)
Definition sim_blk (r r' : state * option err * list nid) : Prop :=
  r.1.1 ≈ r'.1.1 /\ r.1.2 = r'.1.2 /\ r.2 ≡ₚ r'.2.

(** * What a node's recompute reads: the nodes whose [value] field [Value()] returns *)
Fixpoint vsrc_ (fuel : nat) (s : state) (n : nid) : option nid :=
  match fuel with
  | O => None
  | S fuel => let x := nd s n in
              match nkind x, decl x with
              | KAlways, a :: _ => vsrc_ fuel s a
              | _, _ => Some n
              end
  end.
Definition vsrc (s : state) (n : nid) : option nid := vsrc_ (S n) s n.

(** the nodes a node's Stabilize / cutoff calls [Value()] on *)
Definition reads (s : state) (n : nid) : list nid :=
  let x := nd s n in
  match nkind x with
  | KMap _ | KCutoff _ => [hd 0%nat (decl x)]
  | KMap2 _ => [nth 0 (decl x) 0%nat; nth 1 (decl x) 0%nat]
  | KMapN _ => decl x
  | KBindMain b => match b_rhs (bd s b) with Some r => [r] | None => [] end
  | _ => []
  end.

(** every [value] field the recompute of [n] reads belongs to a node strictly below [h] *)
Definition reads_below (s : state) (n : nid) (h : Z) : Prop :=
  forall a m, a ∈ reads s n -> vsrc s a = Some m -> height (nd s m) < h.

Definition is_lhs (k : kind) : bool := match k with KBindLhs _ => true | _ => false end.

(** * 2. Hypotheses of block confluence *)

(** what a block taken out of the heap looks like *)
Record block_ok (s : state) (B : list nid) (h : Z) : Prop := {
  bo_nodup : NoDup B;
  bo_h : 0 <= h;
  bo_has : forall n, n ∈ B -> is_Some (nodes s !! n);
  bo_height : forall n, n ∈ B -> height (nd s n) = h;
  bo_kind : forall n, n ∈ B -> is_lhs (nkind (nd s n)) = false;
  bo_reads : forall n, n ∈ B -> reads_below s n h
}.

(** the part of the graph invariant the argument uses (it holds DURING a pass, unlike
    [EngineWf.wfb], whose clause Q8 describes quiescent states) *)
Record graph_ok (s : state) : Prop := {
  go_cnt : 0 <= Heap.cnt (heap s);
  go_edges : forall n c, c ∈ children (nd s n) -> n ∈ parents (nd s c);
  go_heights : forall c q, q ∈ parents (nd s c) -> height (nd s q) < height (nd s c);
  go_stamps : forall x, changedAt (nd s x) <= stabNum s
}.

(** the plan has no action for the functions of the nodes of [B] *)
Definition quiet (p : plan) (B : list nid) : Prop :=
  forall n w, n ∈ B -> actions_of p n w = [].

(** * The pure description of recomputeNodeParallel on a non-lhs node under a quiet plan *)
Definition cutv (s : state) (n : nid) : bool :=
  let x := nd s n in
  match nkind x with
  | KCutoff c => apCut c (value x) (valueOf s (hd 0%nat (decl x)))
  | _ => false
  end.

Definition newval (s : state) (n : nid) : option Z :=
  let x := nd s n in
  match nkind x with
  | KMap f => Some (ap1 f (valueOf s (hd 0%nat (decl x))))
  | KMap2 f => Some (ap2 f (valueOf s (nth 0 (decl x) 0%nat)) (valueOf s (nth 1 (decl x) 0%nat)))
  | KMapN f => Some (apN f (map (valueOf s) (decl x)))
  | KCutoff _ => Some (valueOf s (hd 0%nat (decl x)))
  | KBindMain b => Some (match b_rhs (bd s b) with Some r => valueOf s r | None => 0 end)
  | _ => None
  end.

Definition localF (s : state) (n : nid) : node -> node :=
  fun y =>
    let y := y <| recomputedAt := stabNum s |> in
    if cutv s n then y
    else (match newval s n with Some v => y <| value := v |> | None => y end) <| changedAt := stabNum s |>.

(** events of the lock-free section, most recent first *)
Definition localEvs (s : state) (n : nid) : list event :=
  let x := nd s n in
  match nkind x with
  | KMap f => let a := valueOf s (hd 0%nat (decl x)) in [EvInvoked n [a] (ap1 f a)]
  | KMap2 f => let a1 := valueOf s (nth 0 (decl x) 0%nat) in
               let a2 := valueOf s (nth 1 (decl x) 0%nat) in [EvInvoked n [a1; a2] (ap2 f a1 a2)]
  | KMapN f => let args := map (valueOf s) (decl x) in [EvInvoked n args (apN f args)]
  | KCutoff c => let new := valueOf s (hd 0%nat (decl x)) in
                 [EvCutoff n (value x) new (apCut c (value x) new)]
  | _ => []
  end.

(** [shouldRecomputeChild] without its heap-membership test *)
Definition wantPush (s : state) (c : nid) : bool :=
  let x := nd s c in
  if negb (isNecessary x) then false
  else if negb (valid x) then false
  else if negb (hasStaler (nkind x)) && (recomputedAt x <? stabNum s) then true
  else isStale s c.

(** queueing a list of nodes, each at the height [hf] gives, skipping the ones already queued *)
Definition addAll (hf : nid -> Z) (l : list nid) (w : Heap.t) : res Heap.t :=
  rfold (fun w c => Heap.addIfNotPresent w c (hf c)) l w.

Definition afterLocal (s : state) (n : nid) : state :=
  s <| nodes := alter (localF s n) n (nodes s) |> <| log := localEvs s n ++ log s |>.

(** the children the locked section queues (candidates: the heap-membership test comes on top) *)
Definition pushlist (s : state) (n : nid) : list nid :=
  if cutv s n then []
  else filter (fun c => wantPush (afterLocal s n) c = true) (children (nd s n)).

(** the keys the node files under handleAfterStabilization: itself and its observers *)
Definition hkeys (s : state) (n : nid) : list nid :=
  if cutv s n then [] else n :: observers (nd s n).

Definition newHandlers (s : state) (n : nid) : list nid :=
  foldl (fun l o => insert_sorted o l) (handlers s) (hkeys s n).

Definition rnp_spec (s : state) (n : nid) : res (state * option err) :=
  w <-! addAll (fun c => height (nd s c)) (pushlist s n) (heap s);
  Ok (afterLocal s n <| heap := w |> <| handlers := newHandlers s n |>, None).

(** * 3. The invariant of a bind-free parallel pass (holds between blocks) *)
Record pass_ok (s : state) : Prop := {
  po_graph : graph_ok s;
  po_heap : HeapSpec.inv (heap s);
  po_queued : forall n, n ∈ Heap.ids (heap s) ->
                is_Some (nodes s !! n) /\ Heap.hinOf (heap s) n = height (nd s n);
  po_nolhs : forall n, is_lhs (nkind (nd s n)) = false;         (* no bind in the graph *)
  po_hrange : forall n, -1 <= height (nd s n);
  po_reads : forall n, 0 <= height (nd s n) -> reads_below s n (height (nd s n));
  po_setDuring : setDuring s = [];
  po_setRemoved : setRemoved s = []
}.

(** the plan has no action at all for any node function *)
Definition quiet_all (p : plan) : Prop := forall n w, actions_of p n w = [].

(** the nodes reported as updated: the update-handler events of a log *)
Definition isUpdEv (e : event) : bool :=
  match e with EvUpd _ | EvObsUpd _ _ => true | _ => false end.
Definition updEvents (s : state) : list event := filter (fun e => isUpdEv e = true) (log s).

(** * Boolean forms of the hypotheses (evaluated on generated histories and in the Examples;
    their soundness is proved in ParProofs.v) *)
Definition nodeIds (s : state) : list nid := map fst (map_to_list (nodes s)).

Definition graph_okb (s : state) : bool :=
  (0 <=? Heap.cnt (heap s)) && (0 <=? stabNum s)
  && forallb (fun n => forallb (fun c => bool_decide (n ∈ parents (nd s c))) (children (nd s n))) (nodeIds s)
  && forallb (fun c => forallb (fun q => height (nd s q) <? height (nd s c)) (parents (nd s c))) (nodeIds s)
  && forallb (fun x => changedAt (nd s x) <=? stabNum s) (nodeIds s).

Definition reads_belowb (s : state) (n : nid) (h : Z) : bool :=
  forallb (fun a => match vsrc s a with Some m => height (nd s m) <? h | None => true end) (reads s n).

Definition block_okb (s : state) (B : list nid) (h : Z) : bool :=
  bool_decide (NoDup B) && (0 <=? h)
  && forallb (fun n => bool_decide (is_Some (nodes s !! n)) && (height (nd s n) =? h)
                       && negb (is_lhs (nkind (nd s n))) && reads_belowb s n h) B.

Definition ibuckets (w : Heap.t) : list (nat * list nid) := imap (fun k b => (k, b)) (Heap.buckets w).

Definition heap_invb (w : Heap.t) : bool :=
  bool_decide (NoDup (Heap.ids w))
  && forallb (fun '(n, x) => (0 <=? x) && bool_decide (n ∈ Heap.bucket w (Z.to_nat x))) (map_to_list (Heap.hin w))
  && forallb (fun '(k, b) => forallb (fun n => bool_decide (Heap.hin w !! n = Some (Z.of_nat k))) b) (ibuckets w)
  && (Heap.cnt w =? Z.of_nat (length (Heap.ids w)))
  && (if 0 <? Heap.cnt w
      then (0 <=? Heap.minH w) && (Heap.maxH w <? Z.of_nat (length (Heap.buckets w)))
           && forallb (fun '(k, b) => match b with
                                      | [] => true
                                      | _ => (Heap.minH w <=? Z.of_nat k) && (Z.of_nat k <=? Heap.maxH w)
                                      end) (ibuckets w)
      else true).

Definition pass_okb (s : state) : bool :=
  graph_okb s && heap_invb (heap s)
  && forallb (fun n => bool_decide (is_Some (nodes s !! n)) && (Heap.hinOf (heap s) n =? height (nd s n)))
             (Heap.ids (heap s))
  && forallb (fun n => negb (is_lhs (nkind (nd s n))) && (-1 <=? height (nd s n))
                       && ((height (nd s n) <? 0) || reads_belowb s n (height (nd s n)))) (nodeIds s)
  && bool_decide (setDuring s = []) && bool_decide (setRemoved s = []).

(** * Example states (non-vacuity), reached by [Engine.run] *)
(** two vars (0, 1), a map over each (2, 3), a second map over 3 (4), a map2 over both maps (5),
    a cutoff (6) and an always node (7) on top; 6, 7 and 4 observed; one pass; both vars set *)
Definition ex_ops : list op :=
  [NewVar 1 false; NewVar 2 false; NewMap (Aff 1 1) 0%nat; NewMap (Aff 2 0) 1%nat;
   NewMap (Aff 1 2) 3%nat; NewMap2 (Lin2 1 1 0) 2%nat 3%nat; NewCutoff CEq 5%nat; NewAlways 5%nat;
   Observe 6%nat; Observe 7%nat; Observe 4%nat; ParStabilize []; SetVar 0%nat 5; SetVar 1%nat 7].

Definition ex_state : res state := run (init 8) ex_ops.

(** the same state in the middle of the next parallel pass: the block of the two vars done (in
    queue order), the block of the two maps [2; 3] taken out of the heap *)
Definition ex_mid : res (state * list nid) :=
  s <-! ex_state;
  let s := emit EvPassStart (s <| status := 1 |>) in
  let '(b0, w0) := Heap.takeMinBlock (heap s) in
  '(s1, _, _) <-! run_block 0 [] (s <| heap := w0 |>) b0;
  let '(b1, w1) := Heap.takeMinBlock (heap s1) in
  Ok (s1 <| heap := w1 |>, b1).

(** * 2b. Plans whose node functions call Var.Set / Var.Update (no faults) *)
(** the actions the recompute of [n] performs: a cutoff node runs its predicate, a map node its
    function; the other kinds run no user code *)
Definition nodeActs (p : plan) (s : state) (n : nid) : list action :=
  match nkind (nd s n) with
  | KCutoff _ => actions_of p n WCut
  | KMap _ | KMap2 _ | KMapN _ => actions_of p n WFn
  | _ => []
  end.

Definition is_fault (a : action) : bool := match a with AFail _ => true | _ => false end.
Definition target (a : action) : option nid :=
  match a with ASet v _ | AUpdate v _ => Some v | AFail _ => None end.
Definition targets (l : list action) : list nid := omap target l.

(** Var.Set while the graph is stabilizing: the value is deferred *)
Definition varSetD (s : state) (v : nid) (x : Z) : state :=
  let vn := nd s v in
  let eqv := match nkind vn with KVar e => e | _ => false end in
  if eqv && negb (bool_decide (is_Some (pending vn))) && (value vn =? x) then s
  else (upd s v (set pending (fun _ => Some x))) <| setDuring := insert_sorted v (setDuring s) |>.

Definition setAct (s : state) (a : action) : state :=
  match a with
  | ASet v x => varSetD s v x
  | AUpdate v d => let vn := nd s v in
                   let current := match pending vn with Some q => q | None => value vn end in
                   varSetD s v (norm (current + d))
  | AFail _ => s
  end.
Definition setsT (acts : list action) (s : state) : state := foldl setAct s acts.

(** all the sets of a block, in processing order *)
Definition setsAll (p : plan) (order : list nid) (s : state) : state :=
  foldl (fun s n => setsT (nodeActs p s n) s) s order.

Definition isVarKind (k : kind) : bool := match k with KVar _ => true | _ => false end.

(** the node functions of the block are race free among themselves: no faults, they only set
    vars, and no var is set by two different nodes of the block *)
Record sets_ok (p : plan) (s : state) (B : list nid) : Prop := {
  so_status : status s = 1;
  so_nofault : forall n a, n ∈ B -> a ∈ nodeActs p s n -> is_fault a = false;
  so_vars : forall n v, n ∈ B -> v ∈ targets (nodeActs p s n) -> isVarKind (nkind (nd s v)) = true;
  so_disjoint : forall n m v, n ∈ B -> m ∈ B -> n <> m ->
                  v ∈ targets (nodeActs p s n) -> v ∈ targets (nodeActs p s m) -> False
}.
