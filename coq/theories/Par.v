(** C04: ParallelStabilize under arbitrary schedules.

    [Engine.parLoop] models Graph.ParallelStabilize as ONE sequential schedule: every height
    block (taken with [Heap.takeMinBlock]) is processed in queue order.  The real library runs
    the nodes of a block concurrently.  What the model can carry of that is

    - the logic of schedule independence: processing the nodes of a block in ANY order gives
      the same state up to the order inside heap buckets and the order of log events
      ([run_block], [sim], [parLoopS], [parStabilizeS]);
    - the footprint of the three sections of recomputeNodeParallel as sets of locations, with
      the lock each access is performed under in graph.go ([access], [footprint], [covered]).

    Definitions only; proofs are in ParProofs.v. *)
From incr Require Import Base Heap HeapSpec EngineDefs Engine.

(** * 1. Schedules *)

(** one iteration of the loop [parLoop] runs over a block *)
Definition block_step (fuel : nat) (p : plan)
  : state * option err * list nid -> nid -> res (state * option err * list nid) :=
  fun '(s, e, always) n =>
    if height (nd s n) =? unset then Ok (s, e, always) else   (* torn down by an earlier node: skipped *)
    '(s, e') <-! recomputeNodeParallel fuel p s n;
    let always := if isAlways (nkind (nd s n)) then always ++ [n] else always in
    Ok (s, match e with Some _ => e | None => e' end, always).

(** processing (a part of) a block in the order [order], starting from the accumulated
    [always] list.  [parLoop] runs the bind lhs-change nodes of the block first, in queue
    order, then the other nodes of the block: the schedules considered here are the orders
    of that second part. *)
Definition run_block_acc (fuel : nat) (p : plan) (s : state) (always : list nid) (order : list nid)
  : res (state * option err * list nid) :=
  rfold (block_step fuel p) order (s, None, always).

Definition run_block (fuel : nat) (p : plan) (s : state) (order : list nid)
  : res (state * option err * list nid) :=
  run_block_acc fuel p s [] order.

Definition isLhsNode (s : state) (n : nid) : bool :=
  match nkind (nd s n) with KBindLhs _ => true | _ => false end.
Definition lhs_part (s : state) (block : list nid) : list nid :=
  filter (fun n => isLhsNode s n = true) block.
Definition rest_part (s : state) (block : list nid) : list nid :=
  filter (fun n => isLhsNode s n = false) block.

(** a scheduler picks, knowing the state, the order in which a block is processed *)
Definition scheduler := state -> list nid -> list nid.
Definition fair (sched : scheduler) : Prop := forall s b, sched s b ≡ₚ b.
Definition queue_order : scheduler := fun _ b => b.

(** [parLoop] / [parStabilize] with the processing order of every block chosen by [sched] *)
Fixpoint parLoopS (sched : scheduler) (fuel : nat) (p : plan) (s : state) (always : list nid)
  : res (state * option err * list nid) :=
  match fuel with
  | O => OutOfFuel
  | S fuel =>
    if Heap.cnt (heap s) <=? 0 then Ok (s, None, always) else
    let '(block, w) := Heap.takeMinBlock (heap s) in
    let s := s <| heap := w |> in
    let order := lhs_part s block ++ sched s (rest_part s block) in
    '(s, e, always) <-! run_block_acc fuel p s always order;
    match e with
    | Some _ => Ok (s, e, always)
    | None => parLoopS sched fuel p s always
    end
  end.

Definition parStabilizeS (sched : scheduler) (p : plan) (s : state) : M :=
  if negb (status s =? 0) then fail s EAlreadyStabilizing else
  let s := emit EvPassStart (s <| status := 1 |>) in
  '(s, e, always) <-! parLoopS sched (passFuel s) p s [];
  s <-! rfold (fun s n => if (height (nd s n) =? unset) || inHeap s n then Ok s else heapAdd s n) always s;
  s <-! stabilizeEnd s e;
  Ok (s, e).

(** * The equivalence: equal up to the order inside heap buckets and the order of the log *)
Record heap_sim (w w' : Heap.t) : Prop := {
  hs_hin : Heap.hin w = Heap.hin w';
  hs_minH : Heap.minH w = Heap.minH w';
  hs_maxH : Heap.maxH w = Heap.maxH w';
  hs_cnt : Heap.cnt w = Heap.cnt w';
  hs_buckets : Forall2 Permutation (Heap.buckets w) (Heap.buckets w')
}.

Record sim (s s' : state) : Prop := {
  sim_nodes : nodes s = nodes s';
  sim_binds : binds s = binds s';
  sim_next : next s = next s';
  sim_reg : reg s = reg s';
  sim_obs : obs s = obs s';
  sim_heap : heap_sim (heap s) (heap s');
  sim_adj : adj s = adj s';
  sim_invq : invq s = invq s';
  sim_stabNum : stabNum s = stabNum s';
  sim_status : status s = status s';
  sim_numNodes : numNodes s = numNodes s';
  sim_setDuring : setDuring s = setDuring s';
  sim_setRemoved : setRemoved s = setRemoved s';
  sim_handlers : handlers s = handlers s';      (* kept sorted by insert_sorted: equal *)
  sim_maxHeight : maxHeight s = maxHeight s';
  sim_log : log s ≡ₚ log s'
}.
Infix "≈" := sim (at level 70, no associativity).

(** results of a block / of a pass loop: states ≈, same error, [always] lists equal as multisets *)
Definition sim_blk (r r' : state * option err * list nid) : Prop :=
  r.1.1 ≈ r'.1.1 /\ r.1.2 = r'.1.2 /\ r.2 ≡ₚ r'.2.

(** * What a node's recompute reads: the nodes whose [value] field [Value()] returns *)
Fixpoint vsrc_ (fuel : nat) (s : state) (n : nid) : option nid :=
  match fuel with
  | O => None
  | S fuel => let x := nd s n in
              match nkind x, decl x with
              | KAlways, a :: _ => vsrc_ fuel s a
              | _, _ => Some n
              end
  end.
Definition vsrc (s : state) (n : nid) : option nid := vsrc_ (S n) s n.

(** the nodes a node's Stabilize / cutoff calls [Value()] on *)
Definition reads (s : state) (n : nid) : list nid :=
  let x := nd s n in
  match nkind x with
  | KMap _ | KCutoff _ => [hd 0%nat (decl x)]
  | KMap2 _ => [nth 0 (decl x) 0%nat; nth 1 (decl x) 0%nat]
  | KMapN _ => decl x
  | KBindMain b => match b_rhs (bd s b) with Some r => [r] | None => [] end
  | _ => []
  end.

(** every [value] field the recompute of [n] reads belongs to a node strictly below [h] *)
Definition reads_below (s : state) (n : nid) (h : Z) : Prop :=
  forall a m, a ∈ reads s n -> vsrc s a = Some m -> height (nd s m) < h.

Definition is_lhs (k : kind) : bool := match k with KBindLhs _ => true | _ => false end.

(** * 2. Hypotheses of block confluence *)

(** what a block taken out of the heap looks like *)
Record block_ok (s : state) (B : list nid) (h : Z) : Prop := {
  bo_nodup : NoDup B;
  bo_h : 0 <= h;
  bo_has : forall n, n ∈ B -> is_Some (nodes s !! n);
  bo_height : forall n, n ∈ B -> height (nd s n) = h;
  bo_kind : forall n, n ∈ B -> is_lhs (nkind (nd s n)) = false;
  bo_reads : forall n, n ∈ B -> reads_below s n h
}.

(** the part of the graph invariant the argument uses (it holds DURING a pass, unlike
    [EngineWf.wfb], whose clause Q8 describes quiescent states) *)
Record graph_ok (s : state) : Prop := {
  go_cnt : 0 <= Heap.cnt (heap s);
  go_edges : forall n c, c ∈ children (nd s n) -> n ∈ parents (nd s c);
  go_heights : forall c q, q ∈ parents (nd s c) -> height (nd s q) < height (nd s c);
  go_stamps : forall x, changedAt (nd s x) <= stabNum s
}.

(** the plan has no action for the functions of the nodes of [B] *)
Definition quiet (p : plan) (B : list nid) : Prop :=
  forall n w, n ∈ B -> actions_of p n w = [].

(** * The pure description of recomputeNodeParallel on a non-lhs node under a quiet plan *)
Definition cutv (s : state) (n : nid) : bool :=
  let x := nd s n in
  match nkind x with
  | KCutoff c => apCut c (value x) (valueOf s (hd 0%nat (decl x)))
  | _ => false
  end.

Definition newval (s : state) (n : nid) : option Z :=
  let x := nd s n in
  match nkind x with
  | KMap f => Some (ap1 f (valueOf s (hd 0%nat (decl x))))
  | KMap2 f => Some (ap2 f (valueOf s (nth 0 (decl x) 0%nat)) (valueOf s (nth 1 (decl x) 0%nat)))
  | KMapN f => Some (apN f (map (valueOf s) (decl x)))
  | KCutoff _ => Some (valueOf s (hd 0%nat (decl x)))
  | KBindMain b => Some (match b_rhs (bd s b) with Some r => valueOf s r | None => 0 end)
  | _ => None
  end.

Definition localF (s : state) (n : nid) : node -> node :=
  fun y =>
    let y := y <| recomputedAt := stabNum s |> in
    if cutv s n then y
    else (match newval s n with Some v => y <| value := v |> | None => y end) <| changedAt := stabNum s |>.

(** events of the lock-free section, most recent first *)
Definition localEvs (s : state) (n : nid) : list event :=
  let x := nd s n in
  match nkind x with
  | KMap f => let a := valueOf s (hd 0%nat (decl x)) in [EvInvoked n [a] (ap1 f a)]
  | KMap2 f => let a1 := valueOf s (nth 0 (decl x) 0%nat) in
               let a2 := valueOf s (nth 1 (decl x) 0%nat) in [EvInvoked n [a1; a2] (ap2 f a1 a2)]
  | KMapN f => let args := map (valueOf s) (decl x) in [EvInvoked n args (apN f args)]
  | KCutoff c => let new := valueOf s (hd 0%nat (decl x)) in
                 [EvCutoff n (value x) new (apCut c (value x) new)]
  | _ => []
  end.

(** [shouldRecomputeChild] without its heap-membership test *)
Definition wantPush (s : state) (c : nid) : bool :=
  let x := nd s c in
  if negb (isNecessary x) then false
  else if negb (valid x) then false
  else if negb (hasStaler (nkind x)) && (recomputedAt x <? stabNum s) then true
  else isStale s c.

(** queueing a list of nodes, each at the height [hf] gives, skipping the ones already queued *)
Definition addAll (hf : nid -> Z) (l : list nid) (w : Heap.t) : res Heap.t :=
  rfold (fun w c => Heap.addIfNotPresent w c (hf c)) l w.

Definition afterLocal (s : state) (n : nid) : state :=
  s <| nodes := alter (localF s n) n (nodes s) |> <| log := localEvs s n ++ log s |>.

(** the children the locked section queues (candidates: the heap-membership test comes on top) *)
Definition pushlist (s : state) (n : nid) : list nid :=
  if cutv s n then []
  else filter (fun c => wantPush (afterLocal s n) c = true) (children (nd s n)).

(** the keys the node files under handleAfterStabilization: itself and its observers *)
Definition hkeys (s : state) (n : nid) : list nid :=
  if cutv s n then [] else n :: observers (nd s n).

Definition newHandlers (s : state) (n : nid) : list nid :=
  foldl (fun l o => insert_sorted o l) (handlers s) (hkeys s n).

Definition rnp_spec (s : state) (n : nid) : res (state * option err) :=
  w <-! addAll (fun c => height (nd s c)) (pushlist s n) (heap s);
  Ok (afterLocal s n <| heap := w |> <| handlers := newHandlers s n |>, None).

Definition isVarKind (k : kind) : bool := match k with KVar _ => true | _ => false end.

(** * 3. The invariant of a bind-free parallel pass (holds between blocks) *)
Record pass_ok (s : state) : Prop := {
  po_graph : graph_ok s;
  po_heap : HeapSpec.inv (heap s);
  po_queued : forall n, n ∈ Heap.ids (heap s) ->
                is_Some (nodes s !! n) /\ Heap.hinOf (heap s) n = height (nd s n);
  po_nolhs : forall n, is_lhs (nkind (nd s n)) = false;         (* no bind in the graph *)
  po_hrange : forall n, -1 <= height (nd s n);
  po_reads : forall n, 0 <= height (nd s n) -> reads_below s n (height (nd s n));
  po_setDuring : forall v, v ∈ setDuring s -> isVarKind (nkind (nd s v)) = true;   (* deferred sets are on vars *)
  po_setRemoved : setRemoved s = []
}.

(** the plan has no action at all for any node function *)
Definition quiet_all (p : plan) : Prop := forall n w, actions_of p n w = [].

(** the plan of a pass whose node functions only set vars, no var being set by two different nodes
    of the same height (such nodes may run concurrently) *)
Definition tgt (a : action) : option nid :=
  match a with ASet v _ | AUpdate v _ => Some v | AFail _ => None end.
Record plan_par_ok (p : plan) (s : state) : Prop := {
  pp_nofault : forall n w a, a ∈ actions_of p n w -> match a with AFail _ => False | _ => True end;
  pp_vars : forall n w a v, a ∈ actions_of p n w -> tgt a = Some v -> isVarKind (nkind (nd s v)) = true;
  pp_disjoint : forall n m w w' a a' v, n <> m -> height (nd s n) = height (nd s m) ->
                  a ∈ actions_of p n w -> a' ∈ actions_of p m w' -> tgt a = Some v -> tgt a' = Some v -> False
}.

(** the nodes reported as updated: the update-handler events of a log *)
Definition isUpdEv (e : event) : bool :=
  match e with EvUpd _ | EvObsUpd _ _ => true | _ => false end.
Definition updEvents (s : state) : list event := filter (fun e => isUpdEv e = true) (log s).

(** * Boolean forms of the hypotheses (evaluated on generated histories and in the Examples;
    their soundness is proved in ParProofs.v) *)
Definition nodeIds (s : state) : list nid := map fst (map_to_list (nodes s)).

Definition graph_okb (s : state) : bool :=
  (0 <=? Heap.cnt (heap s)) && (0 <=? stabNum s)
  && forallb (fun n => forallb (fun c => bool_decide (n ∈ parents (nd s c))) (children (nd s n))) (nodeIds s)
  && forallb (fun c => forallb (fun q => height (nd s q) <? height (nd s c)) (parents (nd s c))) (nodeIds s)
  && forallb (fun x => changedAt (nd s x) <=? stabNum s) (nodeIds s).

Definition reads_belowb (s : state) (n : nid) (h : Z) : bool :=
  forallb (fun a => match vsrc s a with Some m => height (nd s m) <? h | None => true end) (reads s n).

Definition block_okb (s : state) (B : list nid) (h : Z) : bool :=
  bool_decide (NoDup B) && (0 <=? h)
  && forallb (fun n => bool_decide (is_Some (nodes s !! n)) && (height (nd s n) =? h)
                       && negb (is_lhs (nkind (nd s n))) && reads_belowb s n h) B.

Definition ibuckets (w : Heap.t) : list (nat * list nid) := imap (fun k b => (k, b)) (Heap.buckets w).

Definition heap_invb (w : Heap.t) : bool :=
  bool_decide (NoDup (Heap.ids w))
  && forallb (fun '(n, x) => (0 <=? x) && bool_decide (n ∈ Heap.bucket w (Z.to_nat x))) (map_to_list (Heap.hin w))
  && forallb (fun '(k, b) => forallb (fun n => bool_decide (Heap.hin w !! n = Some (Z.of_nat k))) b) (ibuckets w)
  && (Heap.cnt w =? Z.of_nat (length (Heap.ids w)))
  && (if 0 <? Heap.cnt w
      then (0 <=? Heap.minH w) && (Heap.maxH w <? Z.of_nat (length (Heap.buckets w)))
           && forallb (fun '(k, b) => match b with
                                      | [] => true
                                      | _ => (Heap.minH w <=? Z.of_nat k) && (Z.of_nat k <=? Heap.maxH w)
                                      end) (ibuckets w)
      else true).

Definition pass_okb (s : state) : bool :=
  graph_okb s && heap_invb (heap s)
  && forallb (fun n => bool_decide (is_Some (nodes s !! n)) && (Heap.hinOf (heap s) n =? height (nd s n)))
             (Heap.ids (heap s))
  && forallb (fun n => negb (is_lhs (nkind (nd s n))) && (-1 <=? height (nd s n))
                       && ((height (nd s n) <? 0) || reads_belowb s n (height (nd s n)))) (nodeIds s)
  && forallb (fun v => isVarKind (nkind (nd s v))) (setDuring s) && bool_decide (setRemoved s = []).

(** * Example states (non-vacuity), reached by [Engine.run] *)
(** two vars (0, 1), a map over each (2, 3), a second map over 3 (4), a map2 over both maps (5),
    a cutoff (6) and an always node (7) on top; 6, 7 and 4 observed; one pass; both vars set *)
Definition ex_ops : list op :=
  [NewVar 1 false; NewVar 2 false; NewMap (Aff 1 1) 0%nat; NewMap (Aff 2 0) 1%nat;
   NewMap (Aff 1 2) 3%nat; NewMap2 (Lin2 1 1 0) 2%nat 3%nat; NewCutoff CEq 5%nat; NewAlways 5%nat;
   Observe 6%nat; Observe 7%nat; Observe 4%nat; ParStabilize []; SetVar 0%nat 5; SetVar 1%nat 7].

Definition ex_state : res state := run (init 8) ex_ops.

(** the same state in the middle of the next parallel pass: the block of the two vars done (in
    queue order), the block of the two maps [2; 3] taken out of the heap *)
Definition ex_mid : res (state * list nid) :=
  s <-! ex_state;
  let s := emit EvPassStart (s <| status := 1 |>) in
  let '(b0, w0) := Heap.takeMinBlock (heap s) in
  '(s1, _, _) <-! run_block 0 [] (s <| heap := w0 |>) b0;
  let '(b1, w1) := Heap.takeMinBlock (heap s1) in
  Ok (s1 <| heap := w1 |>, b1).

(** * 2b. Plans whose node functions call Var.Set / Var.Update (no faults) *)
(** the actions the recompute of [n] performs: a cutoff node runs its predicate, a map node its
    function; the other kinds run no user code *)
Definition nodeActs (p : plan) (s : state) (n : nid) : list action :=
  match nkind (nd s n) with
  | KCutoff _ => actions_of p n WCut
  | KMap _ | KMap2 _ | KMapN _ => actions_of p n WFn
  | _ => []
  end.

Definition is_fault (a : action) : bool := match a with AFail _ => true | _ => false end.
Definition target (a : action) : option nid :=
  match a with ASet v _ | AUpdate v _ => Some v | AFail _ => None end.
Definition targets (l : list action) : list nid := omap target l.

(** Var.Set while the graph is stabilizing: the value is deferred *)
Definition varSetD (s : state) (v : nid) (x : Z) : state :=
  let vn := nd s v in
  let eqv := match nkind vn with KVar e => e | _ => false end in
  if eqv && negb (bool_decide (is_Some (pending vn))) && (value vn =? x) then s
  else (upd s v (set pending (fun _ => Some x))) <| setDuring := insert_sorted v (setDuring s) |>.

Definition setAct (s : state) (a : action) : state :=
  match a with
  | ASet v x => varSetD s v x
  | AUpdate v d => let vn := nd s v in
                   let current := match pending vn with Some q => q | None => value vn end in
                   varSetD s v (norm (current + d))
  | AFail _ => s
  end.
Definition setsT (acts : list action) (s : state) : state := foldl setAct s acts.

(** all the sets of a block, in processing order *)
Definition setsAll (p : plan) (order : list nid) (s : state) : state :=
  foldl (fun s n => setsT (nodeActs p s n) s) s order.

(** the node functions of the block are race free among themselves: no faults, they only set
    vars, and no var is set by two different nodes of the block *)
Record sets_ok (p : plan) (s : state) (B : list nid) : Prop := {
  so_status : status s = 1;
  so_nofault : forall n a, n ∈ B -> a ∈ nodeActs p s n -> is_fault a = false;
  so_vars : forall n v, n ∈ B -> v ∈ targets (nodeActs p s n) -> isVarKind (nkind (nd s v)) = true;
  so_disjoint : forall n m v, n ∈ B -> m ∈ B -> n <> m ->
                  v ∈ targets (nodeActs p s n) -> v ∈ targets (nodeActs p s m) -> False
}.

Definition sets_okb (p : plan) (s : state) (B : list nid) : bool :=
  (status s =? 1)
  && forallb (fun n => forallb (fun a => negb (is_fault a)) (nodeActs p s n)
                       && forallb (fun v => isVarKind (nkind (nd s v))) (targets (nodeActs p s n))) B
  && forallb (fun n => forallb (fun m => bool_decide (n = m)
                         || forallb (fun v => negb (bool_decide (v ∈ targets (nodeActs p s m)))) (targets (nodeActs p s n))) B) B.

(** * 5. The behaviour BEFORE the fix "ParallelStabilize runs a block's structural nodes first and
    skips nodes they tear down": the whole block, bind lhs-change nodes included, was handed to
    the workers in one batch, and nothing was skipped.  Kept as documentation of the finding. *)
Definition block_step_old (fuel : nat) (p : plan)
  : state * option err * list nid -> nid -> res (state * option err * list nid) :=
  fun '(s, e, always) n =>
    '(s, e') <-! recomputeNodeParallel fuel p s n;
    let always := if isAlways (nkind (nd s n)) then always ++ [n] else always in
    Ok (s, match e with Some _ => e | None => e' end, always).

Fixpoint parLoopS_old (sched : scheduler) (fuel : nat) (p : plan) (s : state) (always : list nid)
  : res (state * option err * list nid) :=
  match fuel with
  | O => OutOfFuel
  | S fuel =>
    if Heap.cnt (heap s) <=? 0 then Ok (s, None, always) else
    let '(block, w) := Heap.takeMinBlock (heap s) in
    let s := s <| heap := w |> in
    '(s, e, always) <-! rfold (block_step_old fuel p) (sched s block) (s, None, always);
    match e with
    | Some _ => Ok (s, e, always)
    | None => parLoopS_old sched fuel p s always
    end
  end.

Definition parStabilizeS_old (sched : scheduler) (p : plan) (s : state) : M :=
  if negb (status s =? 0) then fail s EAlreadyStabilizing else
  let s := emit EvPassStart (s <| status := 1 |>) in
  '(s, e, always) <-! parLoopS_old sched (passFuel s) p s [];
  s <-! rfold (fun s n => if (height (nd s n) =? unset) || inHeap s n then Ok s else heapAdd s n) always s;
  s <-! stabilizeEnd s e;
  Ok (s, e).

(** the hand-built history of the finding: bind B2 (lhs-change 2, main 3) is used only by the
    right-hand side of bind B1 (lhs-change 4, main 5); setting both inputs puts the two lhs-change
    nodes in one height block, and B1's swap tears B2 down *)
Definition w_ops : list op :=
  [NewVar 0 false; NewVar 1 false; NewBind [TRet 5; TRet 6] 1%nat; NewBind [TOuter 3%nat; TRet 7] 0%nat;
   Observe 5%nat; ParStabilize []; SetVar 0%nat 1; SetVar 1%nat 3].
Definition w_state : res state := run (init 8) w_ops.
Definition sw_sched : scheduler :=
  fun _ b => if bool_decide (b = [4%nat; 2%nat]) then [2%nat; 4%nat] else b.
Definition rev_sched : scheduler := fun _ b => reverse b.
Definition obsValues (s : state) : list (nat * Z) :=
  map (fun kv => (fst kv, valueOf s (snd kv))) (map_to_list (obs s)).

(** * 4. Footprints of recomputeNodeParallel and the locks of graph.go *)
Inductive field :=
| FRecomputedAt | FChangedAt | FValue
| FPending          (* varIncr.setDuringStabilization / setDuringStabilizationValue *)
| FHeapHeight       (* Node.heightInRecomputeHeap *)
| FShape.           (* kind, inputs, edges, observers, validity, necessity, height: written only by
                       bind lhs-change nodes, which do not run concurrently with anything *)
Inductive loc :=
| LNode (n : nid) (f : field)
| LHeap             (* recomputeHeap.numItems / heights / minHeight / maxHeight *)
| LHandlers         (* Graph.handleAfterStabilization *)
| LSetDuring        (* Graph.setDuringStabilization *)
| LAlways.          (* parallelStabilize's immediateRecompute slice *)
Inductive lock := RecomputeMu | HeapMu | HandlersMu | SetDuringMu | AlwaysMu.
Global Instance field_eq_dec : EqDecision field. Proof. solve_decision. Defined.
Global Instance loc_eq_dec : EqDecision loc. Proof. solve_decision. Defined.
Global Instance lock_eq_dec : EqDecision lock. Proof. solve_decision. Defined.

Record access := mkAcc { a_loc : loc; a_write : bool; a_locks : list lock }.
Definition Rd (l : loc) (ls : list lock) : access := mkAcc l false ls.
Definition Wr (l : loc) (ls : list lock) : access := mkAcc l true ls.

(** the nodes whose [value] the node's Stabilize / cutoff reads *)
Definition valsrcs (s : state) (n : nid) : list nid := omap (vsrc s) (reads s n).

(** section 1, no lock held (graph.go:1198-1243 for a node that is not a bind lhs-change):
    stamp, maybeCutoff, maybeStabilize, changedAt *)
Definition fp_free (s : state) (n : nid) : list access :=
  [Wr (LNode n FRecomputedAt) []; Rd (LNode n FShape) []; Rd (LNode n FValue) []]
  ++ (if isVarKind (nkind (nd s n)) then [Rd (LNode n FPending) []] else [])
  ++ map (fun x => Rd (LNode x FValue) []) (valsrcs s n)
  ++ (if cutv s n then [] else [Wr (LNode n FValue) []; Wr (LNode n FChangedAt) []]).

(** does [shouldRecomputeChild] reach [isStaleInRespectToParent] for the child? *)
Definition readsParents (t : state) (c : nid) : bool :=
  let x := nd t c in
  isNecessary x && valid x
  && negb (negb (hasStaler (nkind x)) && (recomputedAt x <? stabNum t))
  && match nkind x with KVar _ | KReturn | KAlways => false | _ => negb (recomputedAt x =? 0) end.

(** section 2, under recomputeMu (graph.go:1252-1262): the children scan *)
Definition fp_child (t : state) (c : nid) : list access :=
  [Rd (LNode c FHeapHeight) [RecomputeMu]; Rd (LNode c FShape) [RecomputeMu];
   Rd (LNode c FRecomputedAt) [RecomputeMu]]
  ++ (if readsParents t c then map (fun q => Rd (LNode q FChangedAt) [RecomputeMu]) (parents (nd t c)) else [])
  ++ (if wantPush t c then [Wr LHeap [RecomputeMu]; Wr (LNode c FHeapHeight) [RecomputeMu]] else []).

Definition fp_locked (s : state) (n : nid) : list access :=
  if cutv s n then []
  else Rd (LNode n FShape) [RecomputeMu] :: concat (map (fp_child (afterLocal s n)) (children (nd s n))).

(** section 3: queueUpdateHandlers under handleAfterStabilizationMu *)
Definition fp_handlers (s : state) (n : nid) : list access :=
  if cutv s n then [] else [Rd (LNode n FShape) []; Wr LHandlers [HandlersMu]].

Definition fp_always (s : state) (n : nid) : list access :=
  if isAlways (nkind (nd s n)) then [Wr LAlways [AlwaysMu]] else [].

Definition footprint (s : state) (n : nid) : list access :=
  fp_free s n ++ fp_locked s n ++ fp_handlers s n ++ fp_always s n.

(** a node whose function fails or panics: recomputeFailed / recomputePanicked call
    recomputeHeap.addIfNotPresent, which takes the HEAP's own mutex, not recomputeMu *)
Definition fp_fail (n : nid) : list access :=
  [Wr (LNode n FRecomputedAt) []; Rd (LNode n FHeapHeight) [HeapMu]; Wr LHeap [HeapMu];
   Wr (LNode n FHeapHeight) [HeapMu]].

(** a node function calling v.Set / v.Update while the graph is stabilizing *)
Definition fp_set (v : nid) : list access :=
  [Rd (LNode v FShape) []; Rd (LNode v FValue) []; Rd (LNode v FPending) []; Wr (LNode v FPending) [];
   Wr LSetDuring [SetDuringMu]].

Definition conflict (a b : access) : Prop := a_loc a = a_loc b /\ (a_write a || a_write b) = true.
Definition covered (a b : access) : Prop := exists l, l ∈ a_locks a /\ l ∈ a_locks b.

(** the one pair the locks of graph.go do not cover on the success path: [x] writes its changedAt
    with no lock held (graph.go:1243) while a sibling's children scan reads it under recomputeMu *)
Definition stale_pair (a b : access) (x : nid) : Prop :=
  a = Wr (LNode x FChangedAt) [] /\ b = Rd (LNode x FChangedAt) [RecomputeMu].

(** what "field [f] of node [x] is the same in [s] and [s']" means *)
Definition shape_eq (y y' : node) : Prop :=
  nkind y = nkind y' /\ decl y = decl y' /\ scope y = scope y' /\ height y = height y' /\ hAdj y = hAdj y' /\
  setAt y = setAt y' /\ parents y = parents y' /\ children y = children y' /\ observers y = observers y' /\
  valid y = valid y' /\ forceNec y = forceNec y' /\ inGraph y = inGraph y'.
Definition field_same (f : field) (s s' : state) (x : nid) : Prop :=
  match f with
  | FRecomputedAt => recomputedAt (nd s' x) = recomputedAt (nd s x)
  | FChangedAt => changedAt (nd s' x) = changedAt (nd s x)
  | FValue => value (nd s' x) = value (nd s x)
  | FPending => pending (nd s' x) = pending (nd s x)
  | FHeapHeight => Heap.hinOf (heap s') x = Heap.hinOf (heap s) x
  | FShape => shape_eq (nd s' x) (nd s x)
  end.
Definition not_written (fp : list access) (l : loc) : Prop :=
  forall a, a ∈ fp -> a_write a = true -> a_loc a <> l.

(** a plan for the example block [2; 3]: node 2's function sets var 0, node 3's updates var 1 *)
Definition ex_plan : plan := [(2%nat, WFn, ASet 0%nat 3); (3%nat, WFn, AUpdate 1%nat 2)].

(** named example states (so that the Examples are closed terms) *)
Definition get_state (r : res state) : state := match r with Ok s => s | _ => init 0 end.
Definition pass_state (r : M) : state := match r with Ok (t, _) => t | _ => init 0 end.
Definition blk_state (r : res (state * option err * list nid)) : state :=
  match r with Ok (t, _, _) => t | _ => init 0 end.
Definition ex_pre : state := get_state ex_state.
Definition ex_mid_s : state := match ex_mid with Ok (s, _) => s | _ => init 0 end.
Definition w_pre : state := get_state w_state.

Definition plan_par_okb (p : plan) (s : state) : bool :=
  forallb (fun '(n, w, a) => negb (is_fault a)
                             && match target a with Some v => isVarKind (nkind (nd s v)) | None => true end) p
  && forallb (fun '(n, w, a) =>
       forallb (fun '(m, w', a') =>
          (n =? m)%nat || negb (height (nd s n) =? height (nd s m))
          || match target a, target a' with Some v, Some v' => negb (v =? v')%nat | _, _ => true end) p) p.

(** two failing functions in one block: which error the pass returns depends on the order *)
Definition ex_fault_plan : plan := [(2%nat, WFn, AFail FErr); (3%nat, WFn, AFail FErr)].
Definition blk_err (r : res (state * option err * list nid)) : option err :=
  match r with Ok (_, e, _) => e | _ => None end.
Definition ok_none (r : M) : bool := match r with Ok (_, None) => true | _ => false end.
Definition crashes_oob (r : M) : bool := match r with Crash IndexOutOfRange => true | _ => false end.
