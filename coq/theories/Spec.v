(** The from-scratch semantics of a graph program (the oracle of C01, C09, C11) and the local
    consistency predicate that ties an engine state to it.

    [eval] reads only what defines the program: node kinds, declared inputs, bind case tables,
    and the graph's inputs -- the vars' values, the constants, and the held value of
    history-dependent cutoffs.  It never looks at heights, stamps, edges or the heap. *)
From incr Require Import Base Heap EngineDefs Engine.

Definition select (cases : list texp) (x : Z) : texp :=
  nth (Z.to_nat (x mod Z.of_nat (length cases))) cases TNil.

Fixpoint mapM {A B} (f : A -> option B) (l : list A) : option (list B) :=
  match l with
  | [] => Some []
  | a :: l => match f a, mapM f l with Some b, Some bs => Some (b :: bs) | _, _ => None end
  end.

Section Eval.
  Variable s : state.

  (* value of a template under input x, given the evaluator for existing nodes *)
  Fixpoint evalT (fuel : nat) (ev : nid -> option Z) (x : Z) (e : texp) : option Z :=
    match fuel with
    | O => None
    | S fuel =>
      match e with
      | TRet k => Some k
      | TX => Some x
      | TOuter n => ev n
      | TMap f e => match evalT fuel ev x e with Some v => Some (ap1 f v) | None => None end
      | TMap2 f e1 e2 =>
        match evalT fuel ev x e1, evalT fuel ev x e2 with
        | Some v1, Some v2 => Some (ap2 f v1 v2) | _, _ => None
        end
      | TCut c e =>
        match c with
        | CEq | CNever => evalT fuel ev x e
        | CAlways => Some 0            (* a fresh cutoff that never lets a value through holds 0 *)
        | CParity => None              (* history dependent: not a function of the inputs *)
        end
      | TBind cases e =>
        match evalT fuel ev x e with
        | Some y => evalT fuel ev y (select cases y)
        | None => None
        end
      | TNil => Some 0                 (* a bind with no right-hand side holds the zero value *)
      end
    end.

  Fixpoint eval (fuel : nat) (n : nid) : option Z :=
    match fuel with
    | O => None
    | S fuel =>
      let x := nd s n in
      match nkind x with
      | KVar _ | KReturn => Some (value x)                  (* inputs and constants *)
      | KMap f => match decl x with
                  | [a] => match eval fuel a with Some v => Some (ap1 f v) | None => None end
                  | _ => None
                  end
      | KMap2 f => match decl x with
                   | [a; b] => match eval fuel a, eval fuel b with
                               | Some v, Some w => Some (ap2 f v w) | _, _ => None
                               end
                   | _ => None
                   end
      | KMapN f => match mapM (eval fuel) (decl x) with Some vs => Some (apN f vs) | None => None end
      | KCutoff c => match decl x with
                     | [a] => match c with
                              | CEq | CNever => eval fuel a
                              | CAlways => Some 0
                              | CParity => Some (value x)   (* its held value is an input *)
                              end
                     | _ => None
                     end
      | KAlways => match decl x with [a] => eval fuel a | _ => None end
      | KBindLhs _ => None
      | KBindMain b =>
        let br := bd s b in
        match eval fuel (b_lhs br) with
        | Some v => evalT fuel (eval fuel) v (select (b_cases br) v)
        | None => None
        end
      end
    end.
End Eval.

(** * Local consistency: every registered node holds its function applied to the current
    values of its declared inputs, and every bind's right-hand side is the instantiation of
    the case its input selects (built in scope [sc]: the bind's own scope for a plain bind, the
    scope the bind lives in for a memoized one).  A boolean, so that it can be evaluated on
    replayed runs. *)
Fixpoint matches (fuel : nat) (s : state) (sc : option nat) (x : Z) (e : texp) (r : option nid) : bool :=
  match fuel with
  | O => false
  | S fuel =>
    match e, r with
    | TNil, None => true
    | TOuter m, Some n => bool_decide (n = m)
    | TRet k, Some n => let y := nd s n in
                        bool_decide (nkind y = KReturn) && (value y =? k) && bool_decide (scope y = sc)
    | TX, Some n => let y := nd s n in
                    bool_decide (nkind y = KReturn) && (value y =? x) && bool_decide (scope y = sc)
    | TMap f e, Some n =>
      let y := nd s n in
      bool_decide (nkind y = KMap f) && bool_decide (scope y = sc) &&
      match decl y with [a] => matches fuel s sc x e (Some a) | _ => false end
    | TMap2 f e1 e2, Some n =>
      let y := nd s n in
      bool_decide (nkind y = KMap2 f) && bool_decide (scope y = sc) &&
      match decl y with
      | [a1; a2] => matches fuel s sc x e1 (Some a1) && matches fuel s sc x e2 (Some a2)
      | _ => false
      end
    | TCut c e, Some n =>
      let y := nd s n in
      bool_decide (nkind y = KCutoff c) && bool_decide (scope y = sc) &&
      match decl y with [a] => matches fuel s sc x e (Some a) | _ => false end
    | TBind cases e, Some n =>
      let y := nd s n in
      match nkind y with
      | KBindMain b' =>
        let br := bd s b' in
        bool_decide (scope y = sc) && texps_eqb (b_cases br) cases
        && bool_decide (b_main br = n) && matches fuel s sc x e (Some (b_lhs br))
      | _ => false
      end
    | _, _ => false
    end
  end.

Definition node_consistent (s : state) (n : nid) : bool :=
  let x := nd s n in
  match nkind x with
  | KVar _ | KReturn | KAlways | KBindLhs _ => true
  | KMap f => match decl x with [a] => value x =? ap1 f (valueOf s a) | _ => false end
  | KMap2 f => match decl x with [a; b] => value x =? ap2 f (valueOf s a) (valueOf s b) | _ => false end
  | KMapN f => value x =? apN f (map (valueOf s) (decl x))
  | KCutoff c => match decl x with
                 | [a] => match c with
                          | CEq | CNever => value x =? valueOf s a
                          | CAlways => value x =? 0
                          | CParity => true
                          end
                 | _ => false
                 end
  | KBindMain b =>
    let br := bd s b in
    let v := valueOf s (b_lhs br) in
    (value x =? match b_rhs br with Some r => valueOf s r | None => 0 end)
    && matches (next s + 64) s (if b_memo br then scope (nd s b) else Some b) v (select (b_cases br) v) (b_rhs br)
  end.

Definition registered (s : state) : list nid :=
  filter (fun n => inGraph (nd s n) = true) (seq 0 (next s)).

Definition consistent (s : state) : bool :=
  forallb (fun n => valid (nd s n) && node_consistent s n) (registered s).

(** what the observers read, against the from-scratch evaluation *)
Definition observers_agree (s : state) : bool :=
  forallb (fun '(o, n) => bool_decide (eval s (next s + 64) n = Some (valueOf s n))) (map_to_list (obs s)).

(** replay a history on the model alone; after every successful pass both checks must hold:
    reports (operation index, 1 = not locally consistent, 2 = an observer disagrees with eval) *)
Definition is_pass (o : op) : bool :=
  match o with Stabilize _ | StabilizeCancelled | ParStabilize _ => true | _ => false end.

(* passes whose plan performs mid-pass writes end with the deferred values already applied:
   consistency is then a statement about the pass's own inputs (property C12), not the new ones *)
Definition has_writes (o : op) : bool :=
  match o with
  | Stabilize p | ParStabilize p =>
    existsb (fun '(_, _, a) => match a with ASet _ _ | AUpdate _ _ => true | AFail _ => false end) p
  | _ => false
  end.

Fixpoint c01_trace (s : state) (os : list op) (i : nat) : option (nat * nat) :=
  match os with
  | [] => None
  | o :: os =>
    if negb (op_ok s o) then Some (i, 99%nat) else
    match step (s <| log := [] |>) o with
    | Ok (s', None) =>
      if is_pass o && negb (has_writes o) then
        if negb (consistent s') then Some (i, 1%nat)
        else if negb (observers_agree s') then Some (i, 2%nat)
        else c01_trace s' os (S i)
      else c01_trace s' os (S i)
    | Ok (s', Some _) => c01_trace s' os (S i)
    | Crash _ => Some (i, 98%nat)
    | OutOfFuel => Some (i, 97%nat)
    end
  end.
