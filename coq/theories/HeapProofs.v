(** Proofs about [Heap] (statements used by Properties/C18.v). *)
From incr Require Import Base Heap HeapSpec.

Local Open Scope Z_scope.

(** * Buckets as a function of the height *)

Definition bk (bs : list (list nid)) (x : nat) : list nid := default [] (bs !! x).

Lemma bk_nonempty_lookup bs x : bk bs x <> [] -> exists b, bs !! x = Some b /\ b <> [].
Proof.
  unfold bk. destruct (bs !! x) as [b|]; simpl; intros H.
  - exists b; auto.
  - congruence.
Qed.

Lemma bk_lookup bs x b : bs !! x = Some b -> bk bs x = b.
Proof. unfold bk. intros ->. reflexivity. Qed.

Lemma elem_of_concat_bk bs (n : nid) : n ∈ concat bs <-> exists x, n ∈ bk bs x.
Proof.
  induction bs as [|b bs IH]; simpl.
  - split.
    + intros H; inversion H.
    + intros [x H]. unfold bk in H. rewrite lookup_nil in H. simpl in H. inversion H.
  - rewrite elem_of_app, IH. split.
    + intros [H|[x H]].
      * exists 0%nat. exact H.
      * exists (S x). exact H.
    + intros [[|x] H].
      * left; exact H.
      * right; exists x; exact H.
Qed.

Lemma concat_split (bs : list (list nid)) x b : bs !! x = Some b ->
  exists l1 l2, concat bs = l1 ++ b ++ l2 /\
                forall b', concat (<[x:=b']> bs) = l1 ++ b' ++ l2.
Proof.
  revert x; induction bs as [|a bs IH]; intros [|x] H; simpl in H; try discriminate.
  - injection H as ->. exists [], (concat bs). split; [reflexivity|]. intros; reflexivity.
  - destruct (IH x H) as (l1 & l2 & E1 & E2). exists (a ++ l1), l2. split.
    + simpl. rewrite E1. rewrite app_assoc. reflexivity.
    + intros b'. simpl. rewrite E2. rewrite app_assoc. reflexivity.
Qed.

Lemma bk_insert bs x b y : (x < length bs)%nat ->
  bk (<[x:=b]> bs) y = if decide (y = x) then b else bk bs y.
Proof.
  intros Hx. unfold bk. destruct (decide (y = x)) as [->|Hne].
  - rewrite list_lookup_insert by exact Hx. reflexivity.
  - rewrite list_lookup_insert_ne by congruence. reflexivity.
Qed.

Lemma bk_drop bs s y : bk (drop s bs) y = bk bs (s + y).
Proof. unfold bk. rewrite lookup_drop. reflexivity. Qed.

(** * scan_from / nextMinFrom *)

Lemma scan_from_spec l s :
  match scan_from l s with
  | Some x => (s <= x)%nat /\ bk l (x - s) <> [] /\ forall y, (y < x - s)%nat -> bk l y = []
  | None => forall y, bk l y = []
  end.
Proof.
  revert s; induction l as [|b l IH]; intros s; simpl.
  - intros y. unfold bk. rewrite lookup_nil. reflexivity.
  - destruct b as [|n b].
    + specialize (IH (S s)). destruct (scan_from l (S s)) as [x|].
      * destruct IH as (H1 & H2 & H3). split; [lia|]. split.
        -- replace (x - s)%nat with (S (x - S s)) by lia. exact H2.
        -- intros [|y] Hy; [reflexivity|]. apply (H3 y). lia.
      * intros [|y]; [reflexivity|]. apply (IH y).
    + split; [lia|]. split.
      * rewrite Nat.sub_diag. discriminate.
      * intros y Hy; lia.
Qed.

Lemma scan_drop_spec bs s :
  match scan_from (drop s bs) s with
  | Some x => (s <= x)%nat /\ bk bs x <> [] /\ forall y, (s <= y < x)%nat -> bk bs y = []
  | None => forall y, (s <= y)%nat -> bk bs y = []
  end.
Proof.
  pose proof (scan_from_spec (drop s bs) s) as H.
  destruct (scan_from (drop s bs) s) as [x|].
  - destruct H as (H1 & H2 & H3). split; [exact H1|]. split.
    + rewrite bk_drop in H2. replace (s + (x - s))%nat with x in H2 by lia. exact H2.
    + intros y Hy. specialize (H3 (y - s)%nat). rewrite bk_drop in H3.
      replace (s + (y - s))%nat with y in H3 by lia. apply H3. lia.
  - intros y Hy. specialize (H (y - s)%nat). rewrite bk_drop in H.
    replace (s + (y - s))%nat with y in H by lia. exact H.
Qed.

Lemma nextMinFrom_lb bs c from :
  0 < c -> (forall y, bk bs y <> [] -> from <= Z.of_nat y) ->
  0 <= nextMinFrom bs c from /\ forall y, bk bs y <> [] -> nextMinFrom bs c from <= Z.of_nat y.
Proof.
  intros Hc Hlb. unfold nextMinFrom.
  destruct (Z.eqb_spec c 0) as [->|_]; [lia|].
  pose proof (scan_drop_spec bs (Z.to_nat (Z.max 0 from))) as H.
  destruct (scan_from _ _) as [x|].
  - destruct H as (H1 & H2 & H3). split; [lia|].
    intros y Hy. specialize (Hlb y Hy).
    destruct (decide (x <= y)%nat) as [|Hn]; [lia|].
    exfalso. apply Hy. apply H3. lia.
  - split; [lia|]. intros; lia.
Qed.

(** * grow *)

Lemma concat_replicate_nil k : concat (replicate k ([] : list nid)) = [].
Proof. induction k; simpl; auto. Qed.

Lemma bk_replicate_nil k x : bk (replicate k []) x = [].
Proof.
  unfold bk. destruct (replicate k [] !! x) as [b|] eqn:E; [|reflexivity].
  apply lookup_replicate in E as [-> _]. reflexivity.
Qed.

Lemma bk_app bs bs' x :
  bk (bs ++ bs') x = if decide (x < length bs)%nat then bk bs x else bk bs' (x - length bs).
Proof.
  unfold bk. destruct (decide (x < length bs)%nat).
  - rewrite lookup_app_l by assumption. reflexivity.
  - rewrite lookup_app_r by lia. reflexivity.
Qed.

Lemma bk_ge bs x : (length bs <= x)%nat -> bk bs x = [].
Proof. intros H. unfold bk. rewrite lookup_ge_None_2 by exact H. reflexivity. Qed.

Lemma bk_grow bs h x : bk (grow bs h) x = bk bs x.
Proof.
  unfold grow. destruct (length bs <=? h)%nat; [|reflexivity].
  rewrite bk_app. destruct (decide (x < length bs)%nat); [reflexivity|].
  rewrite bk_replicate_nil, bk_ge by lia. reflexivity.
Qed.

Lemma concat_grow bs h : concat (grow bs h) = concat bs.
Proof.
  unfold grow. destruct (length bs <=? h)%nat; [|reflexivity].
  rewrite concat_app, concat_replicate_nil, app_nil_r. reflexivity.
Qed.

Lemma grow_length bs h : (h < length (grow bs h))%nat /\ (length bs <= length (grow bs h))%nat.
Proof.
  unfold grow. destruct (Nat.leb_spec (length bs) h).
  - rewrite app_length, replicate_length. lia.
  - lia.
Qed.

(** * remove_first *)

Lemma remove_first_perm n l : n ∈ l -> l ≡ₚ n :: remove_first n l.
Proof.
  induction l as [|x l IH]; intros H.
  - inversion H.
  - simpl. destruct (decide (x = n)) as [->|Hne]; [reflexivity|].
    assert (n ∈ l) as Hl by (apply elem_of_cons in H as [->|]; [congruence|assumption]).
    rewrite Permutation_swap. constructor. apply IH, Hl.
Qed.

(** * foldr delete *)

Lemma lookup_foldr_delete (m : gmap nid Z) l k :
  foldr delete m l !! k = if bool_decide (k ∈ l) then None else m !! k.
Proof.
  induction l as [|a l IH]; cbn [foldr].
  - rewrite bool_decide_eq_false_2; [reflexivity|]. intros H; inversion H.
  - destruct (decide (a = k)) as [->|Hne].
    + rewrite lookup_delete. rewrite bool_decide_eq_true_2; [reflexivity|]. constructor.
    + rewrite lookup_delete_ne by exact Hne. rewrite IH.
      destruct (decide (k ∈ l)) as [Hin|Hnin].
      * rewrite !bool_decide_eq_true_2; auto. constructor; exact Hin.
      * rewrite !bool_decide_eq_false_2; auto.
        intros [->|?]%elem_of_cons; congruence.
Qed.

(** * Consequences of the invariant *)

Lemma elem_ids w n : n ∈ ids w <-> exists x, n ∈ bucket w x.
Proof. apply elem_of_concat_bk. Qed.

Lemma hin_bucket w n x : inv w -> n ∈ bucket w x -> hin w !! n = Some (Z.of_nat x).
Proof.
  intros I H. apply (inv_hin w I). split; [lia|]. rewrite Nat2Z.id. exact H.
Qed.

Lemma hinOf_bucket w n x : inv w -> n ∈ bucket w x -> hinOf w n = Z.of_nat x.
Proof. intros I H. unfold hinOf. rewrite (hin_bucket w n x I H). reflexivity. Qed.

Lemma cnt_nonneg w : inv w -> 0 <= cnt w.
Proof. intros I. rewrite (inv_cnt w I). lia. Qed.

Lemma mem_true_inv w n : inv w -> mem w n = true ->
  exists h, 0 <= h /\ hin w !! n = Some h /\ hinOf w n = h /\ n ∈ bucket w (Z.to_nat h).
Proof.
  intros I H. unfold mem in H. apply bool_decide_eq_true in H.
  unfold hinOf in *. destruct (hin w !! n) as [h|] eqn:E; simpl in H; [|congruence].
  apply (inv_hin w I) in E as E'. destruct E' as [H0 Hb].
  exists h. simpl. auto.
Qed.

Lemma mem_false_inv w n : inv w -> mem w n = false -> n ∉ ids w /\ hin w !! n = None.
Proof.
  intros I H. unfold mem in H. apply bool_decide_eq_false in H.
  assert (hinOf w n = unset) as Hu by (destruct (decide (hinOf w n = unset)); tauto).
  assert (hin w !! n = None) as Hn.
  { unfold hinOf in Hu. destruct (hin w !! n) as [h|] eqn:E; [|reflexivity].
    simpl in Hu. subst h. apply (inv_hin w I) in E. unfold unset in E. lia. }
  split; [|exact Hn]. intros [x Hx]%elem_ids.
  rewrite (hin_bucket w n x I Hx) in Hn. discriminate.
Qed.

Lemma ids_nil_bucket w x : ids w = [] -> bucket w x = [].
Proof.
  intros H. destruct (bucket w x) as [|n b] eqn:E; [reflexivity|].
  assert (n ∈ ids w) as Hin by (apply elem_ids; exists x; rewrite E; constructor).
  rewrite H in Hin. inversion Hin.
Qed.

Lemma cnt_pos_ids w : inv w -> ids w <> [] -> 0 < cnt w.
Proof.
  intros I H. rewrite (inv_cnt w I). destruct (ids w); [congruence|]. simpl. lia.
Qed.

Lemma cnt_zero_ids w : inv w -> cnt w <= 0 -> ids w = [].
Proof.
  intros I H. rewrite (inv_cnt w I) in H. destruct (ids w); [reflexivity|]. simpl in H. lia.
Qed.

(** * The generic "take [rm] out of bucket [x]" step *)

Lemma inv_take w x b b' rm mn c :
  inv w -> buckets w !! x = Some b -> b ≡ₚ rm ++ b' ->
  c = cnt w - Z.of_nat (length rm) ->
  (0 < c -> 0 <= mn /\ forall y, bk (<[x:=b']> (buckets w)) y <> [] -> mn <= Z.of_nat y) ->
  let w' := mk (<[x:=b']> (buckets w)) mn (maxH w) c (foldr delete (hin w) rm) in
  inv w' /\ ids w ≡ₚ rm ++ ids w' /\
  forall m, hinOf w' m = if bool_decide (m ∈ rm) then unset else hinOf w m.
Proof.
  intros I Hx Hb Hc Hmn w'.
  assert (Hlen : (x < length (buckets w))%nat) by (eapply lookup_lt_Some; eauto).
  destruct (concat_split _ _ _ Hx) as (l1 & l2 & E1 & E2).
  assert (Hperm : ids w ≡ₚ rm ++ ids w').
  { unfold ids, w'; cbn [buckets]. rewrite E1, (E2 b'), Hb.
    rewrite <- (app_assoc rm b' l2). apply Permutation_app_swap_app. }
  assert (Hnd : NoDup (rm ++ ids w')) by (rewrite <- Hperm; apply (inv_nodup w I)).
  apply NoDup_app in Hnd as (Hnd1 & Hnd2 & Hnd3).
  assert (Hbk : forall y, bucket w' y = if decide (y = x) then b' else bucket w y).
  { intros y. unfold bucket, w'; cbn [buckets]. apply (bk_insert _ _ _ _ Hlen). }
  assert (Hbx : bucket w x = b) by (apply bk_lookup, Hx).
  assert (Hsub : forall y, bucket w' y <> [] -> bucket w y <> []).
  { intros y. rewrite Hbk. destruct (decide (y = x)) as [->|]; [|auto].
    rewrite Hbx. intros Hne ->. apply Permutation_nil_l in Hb.
    symmetry in Hb. apply app_eq_nil in Hb as [_ ?]. congruence. }
  assert (Hhin : forall m, hinOf w' m = if bool_decide (m ∈ rm) then unset else hinOf w m).
  { intros m. unfold hinOf, w'; cbn [hin]. rewrite lookup_foldr_delete.
    destruct (bool_decide (m ∈ rm)); reflexivity. }
  split; [|split; [exact Hperm|exact Hhin]].
  constructor.
  - exact Hnd3.
  - intros m z. unfold w' at 1; cbn [hin]. rewrite lookup_foldr_delete.
    rewrite Hbk. case_bool_decide as Hm.
    + split; [discriminate|]. intros [Hz Hin]. exfalso. apply (Hnd2 m Hm).
      apply elem_ids. exists (Z.to_nat z). rewrite Hbk. exact Hin.
    + rewrite (inv_hin w I m z).
      destruct (decide (Z.to_nat z = x)) as [->|]; [|reflexivity].
      rewrite Hbx, Hb, elem_of_app. tauto.
  - unfold w' at 1; cbn [cnt]. rewrite Hc, (inv_cnt w I), Hperm, app_length. lia.
  - unfold w'; cbn [cnt minH maxH buckets]. intros Hpos.
    assert (0 < cnt w) as Hpos' by lia.
    destruct (inv_cursor w I Hpos') as (C1 & C2 & C3).
    destruct (Hmn Hpos) as (M1 & M2).
    split; [exact M1|]. split.
    + intros y Hy. split; [apply M2, Hy|]. apply C2, Hsub, Hy.
    + rewrite insert_length. exact C3.
Qed.

(** * The C18 lemmas *)

Lemma heap_inv_empty : forall k, inv (Heap.empty k).
Proof.
  intros k. unfold Heap.empty. constructor.
  - unfold ids; cbn [buckets]. rewrite concat_replicate_nil. constructor.
  - intros n x. cbn [hin]. unfold bucket; cbn [buckets]. rewrite lookup_empty.
    fold (bk (replicate k []) (Z.to_nat x)). rewrite bk_replicate_nil.
    split; [discriminate|]. intros [_ H]; inversion H.
  - unfold ids; cbn [buckets cnt]. rewrite concat_replicate_nil. reflexivity.
  - cbn [cnt]. lia.
Qed.

Lemma heap_add_negative : forall w n h, h < 0 -> Heap.add w n h = Crash HeapNegativeHeight.
Proof.
  intros w n h H. unfold add. destruct (Z.ltb_spec h 0); [reflexivity|lia].
Qed.

Lemma heap_len_spec : forall w, inv w -> Heap.len w = Z.of_nat (length (Heap.ids w)).
Proof. intros w I. unfold len. apply (inv_cnt w I). Qed.

Lemma heap_cursor_sound : forall w h, inv w -> Heap.minHeight w = Some h ->
  forall m, m ∈ Heap.ids w -> h <= Heap.hinOf w m.
Proof.
  intros w h I Hm m Hin. unfold minHeight in Hm.
  destruct (Z.eqb_spec (cnt w) 0) as [|Hne]; [discriminate|]. injection Hm as <-.
  pose proof (cnt_nonneg w I) as Hc.
  destruct (inv_cursor w I ltac:(lia)) as (_ & C2 & _).
  apply elem_ids in Hin as [x Hx]. rewrite (hinOf_bucket w m x I Hx).
  apply C2. intros E. rewrite E in Hx. inversion Hx.
Qed.

Lemma add_ok w n h : 0 <= h -> exists w', add w n h = Ok w'.
Proof.
  intros Hh. unfold add. destruct (Z.ltb_spec h 0); [lia|].
  destruct (if cnt w =? 0 then _ else _) as [mn mx]. eauto.
Qed.

Lemma heap_add_spec : forall w n h, inv w -> Heap.mem w n = false -> 0 <= h ->
  exists w', Heap.add w n h = Ok w' /\ inv w' /\ Heap.ids w' ≡ₚ n :: Heap.ids w /\
             forall m, Heap.hinOf w' m = if decide (m = n) then h else Heap.hinOf w m.
Proof.
  intros w n h I Hm Hh.
  destruct (mem_false_inv w n I Hm) as [Hnin Hnone].
  pose proof (cnt_nonneg w I) as Hcnt.
  unfold add. destruct (Z.ltb_spec h 0) as [|_]; [lia|].
  destruct (if cnt w =? 0 then (h, h) else (Z.min (minH w) h, Z.max (maxH w) h))
    as [mn mx] eqn:Emm.
  set (hn := Z.to_nat h). set (g := grow (buckets w) hn).
  eexists; split; [reflexivity|].
  set (w' := mk _ _ _ _ _).
  destruct (grow_length (buckets w) hn) as [Hg1 Hg2]. fold g in Hg1, Hg2.
  assert (Hgbk : forall y, bk g y = bucket w y) by (intros y; apply bk_grow).
  destruct (lookup_lt_is_Some_2 g hn Hg1) as [b0 Hb0].
  assert (Eb0 : b0 = bucket w hn) by (rewrite <- Hgbk; symmetry; apply bk_lookup, Hb0).
  assert (Hbk : forall y, bucket w' y = if decide (y = hn) then bucket w hn ++ [n] else bucket w y).
  { intros y. unfold bucket at 1, w'; cbn [buckets]. fold (bk (<[hn:=default [] (g !! hn) ++ [n]]> g) y).
    rewrite (bk_insert _ _ _ _ Hg1). rewrite Hgbk. rewrite Hb0. simpl. rewrite Eb0. reflexivity. }
  assert (Hperm : ids w' ≡ₚ n :: ids w).
  { destruct (concat_split g hn b0 Hb0) as (l1 & l2 & E1 & E2).
    unfold ids, w'; cbn [buckets]. rewrite E2. rewrite <- (concat_grow (buckets w) hn).
    fold g. rewrite E1, Hb0. simpl. rewrite <- app_assoc. simpl.
    rewrite !app_assoc. symmetry. apply Permutation_middle. }
  assert (Hmm : 0 <= mn /\ mn <= h <= mx /\ mx < Z.of_nat (length g) /\
                (0 < cnt w -> mn <= minH w /\ maxH w <= mx)).
  { destruct (Z.eqb_spec (cnt w) 0) as [E0|E0]; injection Emm as <- <-.
    - repeat split; lia.
    - destruct (inv_cursor w I ltac:(lia)) as (C1 & C2 & C3). repeat split; lia. }
  destruct Hmm as (M1 & M2 & M3 & M4).
  assert (Hhin : forall m, hinOf w' m = if decide (m = n) then h else hinOf w m).
  { intros m. unfold hinOf, w'; cbn [hin]. destruct (decide (m = n)) as [->|Hne].
    - rewrite lookup_insert. reflexivity.
    - rewrite lookup_insert_ne by congruence. reflexivity. }
  split; [|split; [exact Hperm|exact Hhin]].
  constructor.
  - rewrite Hperm. apply NoDup_cons_2; [exact Hnin|apply (inv_nodup w I)].
  - intros m z. unfold w' at 1; cbn [hin]. rewrite Hbk.
    destruct (decide (m = n)) as [->|Hne].
    + rewrite lookup_insert. split.
      * intros [= <-]. split; [exact Hh|]. fold hn. rewrite decide_True by reflexivity.
        apply elem_of_app; right; constructor.
      * intros [Hz Hin]. destruct (decide (Z.to_nat z = hn)) as [E|E].
        -- f_equal. unfold hn in E. lia.
        -- exfalso. apply Hnin. apply elem_ids. eauto.
    + rewrite lookup_insert_ne by congruence. rewrite (inv_hin w I m z).
      destruct (decide (Z.to_nat z = hn)) as [->|]; [|reflexivity].
      rewrite elem_of_app, elem_of_list_singleton. tauto.
  - unfold w' at 1; cbn [cnt]. rewrite Hperm. simpl. rewrite (inv_cnt w I). lia.
  - intros _. split; [exact M1|]. split.
    + intros y. rewrite Hbk. unfold w'; cbn [minH maxH]. destruct (decide (y = hn)) as [->|Hne].
      * intros _. unfold hn. lia.
      * intros Hy. assert (0 < cnt w) as Hpos.
        { apply cnt_pos_ids; [exact I|]. intros E. apply Hy. apply ids_nil_bucket, E. }
        destruct (inv_cursor w I Hpos) as (C1 & C2 & C3). specialize (C2 y Hy).
        specialize (M4 Hpos). lia.
    + unfold w'; cbn [buckets maxH]. rewrite insert_length. exact M3.
Qed.

Lemma ids_nonempty_bucket w : ids w <> [] -> exists y, bucket w y <> [].
Proof.
  destruct (ids w) as [|n l] eqn:E; [congruence|]. intros _.
  assert (n ∈ ids w) as Hin by (rewrite E; constructor).
  apply elem_ids in Hin as [x Hx]. exists x. intros E'. rewrite E' in Hx. inversion Hx.
Qed.

Lemma bucket_nonempty_ids w y : bucket w y <> [] -> ids w <> [].
Proof. intros H E. apply H. apply ids_nil_bucket, E. Qed.

Lemma singleton_decide (m n : nid) {A} (a b : A) :
  (if bool_decide (m ∈ [n]) then a else b) = if decide (m = n) then a else b.
Proof.
  destruct (decide (m = n)) as [->|Hne].
  - rewrite bool_decide_eq_true_2; [reflexivity|constructor].
  - rewrite bool_decide_eq_false_2; [reflexivity|].
    intros ?%elem_of_list_singleton. congruence.
Qed.

Lemma heap_remove_spec : forall w n, inv w -> Heap.mem w n = true ->
  exists w', Heap.remove w n = Ok w' /\ inv w' /\ Heap.ids w ≡ₚ n :: Heap.ids w' /\
             forall m, Heap.hinOf w' m = if decide (m = n) then unset else Heap.hinOf w m.
Proof.
  intros w n I Hm.
  destruct (mem_true_inv w n I Hm) as (h & Hh & Hhin & HhinOf & Hb).
  unfold remove. rewrite HhinOf. destruct (Z.ltb_spec h 0) as [|_]; [lia|].
  set (hn := Z.to_nat h) in *.
  destruct (bk_nonempty_lookup (buckets w) hn) as (b & Eb & _).
  { intros E. unfold bucket in Hb. unfold bk in E. rewrite E in Hb. inversion Hb. }
  rewrite Eb. rewrite (bk_lookup _ _ _ Eb : bucket w hn = b) in Hb.
  rewrite bool_decide_eq_true_2 by exact Hb.
  eexists; split; [reflexivity|].
  set (b' := remove_first n b).
  pose proof (remove_first_perm n b Hb : b ≡ₚ [n] ++ b') as Hp.
  set (bs := <[hn:=b']> (buckets w)).
  set (mn := if (h =? minH w) && bool_decide (b' = []) then _ else _).
  assert (Hlen : (hn < length (buckets w))%nat) by (eapply lookup_lt_Some; eauto).
  destruct (inv_take w hn b b' [n] mn (cnt w - 1) I Eb Hp eq_refl) as (I' & P' & H').
  - intros Hpos. assert (0 < cnt w) as Hpos' by lia.
    destruct (inv_cursor w I Hpos') as (C1 & C2 & C3).
    assert (Hsub : forall y, bk bs y <> [] -> bucket w y <> [] /\ (y = hn -> b' <> [])).
    { intros y. unfold bs. rewrite (bk_insert _ _ _ _ Hlen).
      destruct (decide (y = hn)) as [->|Hne].
      - intros Hb'. split; [|auto]. rewrite (bk_lookup _ _ _ Eb : bucket w hn = b).
        intros ->. inversion Hb.
      - intros Hy. split; [exact Hy|congruence]. }
    unfold mn. destruct ((h =? minH w) && bool_decide (b' = [])) eqn:E.
    + apply andb_true_iff in E as [E1 E2]. apply Z.eqb_eq in E1. apply bool_decide_eq_true in E2.
      apply nextMinFrom_lb; [exact Hpos|]. intros y Hy.
      destruct (Hsub y Hy) as [Hy1 Hy2]. specialize (C2 y Hy1).
      assert (y <> hn) by (intros ->; apply Hy2; auto). unfold hn in *. lia.
    + split; [exact C1|]. intros y Hy. apply C2, Hsub, Hy.
  - split; [exact I'|]. split; [exact P'|]. intros m. rewrite H'. apply singleton_decide.
Qed.

Lemma scan_least w s x : inv w -> 0 < cnt w -> Z.of_nat s <= minH w ->
  (forall y, (s <= y < x)%nat -> bk (buckets w) y = []) ->
  forall y, bucket w y <> [] -> (x <= y)%nat.
Proof.
  intros I Hpos Hs S3 y Hy.
  destruct (inv_cursor w I Hpos) as (C1 & C2 & C3). specialize (C2 y Hy).
  destruct (decide (x <= y)%nat) as [|Hn]; [assumption|].
  exfalso. apply Hy. apply S3. lia.
Qed.

Lemma heap_removeMin_spec : forall w n w', inv w -> Heap.removeMin w = Some (n, w') ->
  is_min w n /\ inv w' /\ Heap.ids w ≡ₚ n :: Heap.ids w' /\
  forall m, Heap.hinOf w' m = if decide (m = n) then unset else Heap.hinOf w m.
Proof.
  intros w n w' I H. unfold removeMin in H.
  destruct (Z.leb_spec (cnt w) 0) as [|Hpos]; [discriminate|].
  destruct (inv_cursor w I Hpos) as (C1 & C2 & C3).
  pose proof (scan_drop_spec (buckets w) (Z.to_nat (minH w))) as S.
  destruct (scan_from _ _) as [x|]; [|discriminate].
  destruct S as (S1 & S2 & S3).
  destruct (Z.of_nat x <=? maxH w); [|discriminate].
  destruct (bk_nonempty_lookup _ _ S2) as (b & Elk & _).
  assert (Eb : bucket w x = b) by (apply bk_lookup, Elk).
  rewrite Eb in H. destruct b as [|n0 b']; [discriminate|].
  injection H as Hn Hw. subst n0.
  assert (Hlen : (x < length (buckets w))%nat) by (eapply lookup_lt_Some; eauto).
  assert (Hleast : forall y, bucket w y <> [] -> (x <= y)%nat).
  { apply (scan_least w (Z.to_nat (minH w))); auto. lia. }
  set (bs := <[x:=b']> (buckets w)) in *.
  set (mn := match b' with [] => _ | _ => _ end) in *.
  destruct (inv_take w x (n :: b') b' [n] mn (cnt w - 1) I Elk (reflexivity _) eq_refl)
    as (I' & P' & H').
  - intros Hpos'.
    assert (Hsub : forall y, bk bs y <> [] -> bucket w y <> [] /\ (y = x -> b' <> [])).
    { intros y. unfold bs. rewrite (bk_insert _ _ _ _ Hlen).
      destruct (decide (y = x)) as [->|Hne].
      - intros Hb'. split; [|auto]. rewrite Eb. discriminate.
      - intros Hy. split; [exact Hy|congruence]. }
    assert (Hx : forall y, bk bs y <> [] -> Z.of_nat x <= Z.of_nat y).
    { intros y Hy. destruct (Hsub y Hy) as [Hy1 _]. specialize (Hleast y Hy1). lia. }
    unfold mn. destruct b' as [|n1 b''].
    + apply nextMinFrom_lb; [exact Hpos'|]. intros y Hy.
      destruct (Hsub y Hy) as [Hy1 Hy2]. specialize (Hleast y Hy1).
      assert (y <> x) by (intros ->; apply Hy2; auto). lia.
    + split; [lia|exact Hx].
  - subst w'. split; [|split; [exact I'|split; [exact P'|]]].
    + split.
      * apply elem_ids. exists x. rewrite Eb. constructor.
      * intros m [y Hy]%elem_ids.
        rewrite (hinOf_bucket w n x I) by (rewrite Eb; constructor).
        rewrite (hinOf_bucket w m y I Hy).
        assert (x <= y)%nat; [|lia]. apply Hleast. intros E; rewrite E in Hy; inversion Hy.
    + intros m. rewrite H'. apply singleton_decide.
Qed.

Lemma heap_removeMin_none : forall w, inv w -> (Heap.removeMin w = None <-> Heap.ids w = []).
Proof.
  intros w I. split.
  - intros H. unfold removeMin in H.
    destruct (Z.leb_spec (cnt w) 0) as [Hle|Hpos]; [apply cnt_zero_ids; assumption|].
    exfalso.
    destruct (inv_cursor w I Hpos) as (C1 & C2 & C3).
    pose proof (scan_drop_spec (buckets w) (Z.to_nat (minH w))) as S.
    destruct (scan_from _ _) as [x|].
    + destruct S as (S1 & S2 & S3). specialize (C2 x S2).
      destruct (Z.leb_spec (Z.of_nat x) (maxH w)); [|lia].
      unfold bk in S2. unfold bucket in H. destruct (default [] (buckets w !! x)); [congruence|discriminate].
    + destruct (ids_nonempty_bucket w) as [y Hy].
      { intros E. rewrite (inv_cnt w I), E in Hpos. simpl in Hpos. lia. }
      specialize (C2 y Hy). apply Hy. apply S. lia.
  - intros E. unfold removeMin.
    assert (cnt w = 0) as -> by (rewrite (inv_cnt w I), E; reflexivity).
    reflexivity.
Qed.

Lemma heap_takeMinBlock_spec : forall w b w', inv w -> Heap.takeMinBlock w = (b, w') ->
  inv w' /\ Heap.ids w ≡ₚ b ++ Heap.ids w' /\
  (forall n m, n ∈ b -> m ∈ Heap.ids w -> Heap.hinOf w n <= Heap.hinOf w m) /\
  (forall n m, n ∈ b -> m ∈ Heap.ids w' -> Heap.hinOf w n < Heap.hinOf w m) /\
  (b = [] <-> Heap.ids w = []) /\
  forall m, Heap.hinOf w' m = if bool_decide (m ∈ b) then unset else Heap.hinOf w m.
Proof.
  intros w b w' I H. unfold takeMinBlock in H.
  pose proof (scan_drop_spec (buckets w) (Z.to_nat (Z.max 0 (minH w)))) as S.
  destruct (scan_from _ _) as [x|].
  - destruct S as (S1 & S2 & S3).
    destruct (bk_nonempty_lookup _ _ S2) as (b0 & Elk & Hne).
    assert (Eb : bucket w x = b0) by (apply bk_lookup, Elk).
    rewrite Eb in H. injection H as Hb Hw. subst b0.
    set (bs := <[x:=[]]> (buckets w)) in *.
    set (c := cnt w - Z.of_nat (length b)) in *.
    assert (Hp : b ≡ₚ b ++ []) by (rewrite app_nil_r; reflexivity).
    destruct (inv_take w x b [] b (nextMinFrom bs c 0) c I Elk Hp eq_refl) as (I' & P' & H').
    { intros Hpos. apply nextMinFrom_lb; [exact Hpos|]. intros; lia. }
    fold bs in I', P', H'. rewrite Hw in I', P', H'. clear Hw.
    assert (Hnd : NoDup (b ++ ids w')) by (rewrite <- P'; apply (inv_nodup w I)).
    apply NoDup_app in Hnd as (_ & Hnd2 & _).
    assert (Hleast : forall y, bucket w y <> [] -> (x <= y)%nat).
    { intros y Hy. assert (0 < cnt w) as Hpos.
      { apply cnt_pos_ids; [exact I|]. eapply bucket_nonempty_ids, Hy. }
      destruct (inv_cursor w I Hpos) as (C1 & _).
      apply (scan_least w (Z.to_nat (Z.max 0 (minH w)))); auto. lia. }
    assert (Hbx : forall n, n ∈ b -> hinOf w n = Z.of_nat x).
    { intros n Hn. apply (hinOf_bucket w n x I). rewrite Eb. exact Hn. }
    split; [exact I'|]. split; [exact P'|]. split; [|split; [|split; [|exact H']]].
    + intros n m Hn [y Hy]%elem_ids. rewrite (Hbx n Hn), (hinOf_bucket w m y I Hy).
      assert (x <= y)%nat; [|lia]. apply Hleast. intros E; rewrite E in Hy; inversion Hy.
    + intros n m Hn Hm. rewrite (Hbx n Hn).
      assert (m ∈ ids w) as [y Hy]%elem_ids by (rewrite P'; apply elem_of_app; auto).
      rewrite (hinOf_bucket w m y I Hy).
      assert (x <= y)%nat by (apply Hleast; intros E; rewrite E in Hy; inversion Hy).
      assert (y <> x); [|lia]. intros ->. rewrite Eb in Hy. exact (Hnd2 m Hy Hm).
    + split; [congruence|]. intros E. rewrite E in P'. apply Permutation_nil_l in P'.
      symmetry in P'. apply app_eq_nil in P' as [? _]. assumption.
  - injection H as <- <-.
    assert (E : ids w = []).
    { destruct (ids w) as [|n l] eqn:E; [reflexivity|]. exfalso.
      destruct (ids_nonempty_bucket w) as [y Hy]; [congruence|].
      assert (0 < cnt w) as Hpos by (apply cnt_pos_ids; [exact I|congruence]).
      destruct (inv_cursor w I Hpos) as (C1 & C2 & C3). specialize (C2 y Hy).
      apply Hy. apply S. lia. }
    split; [exact I|]. split; [reflexivity|].
    split; [intros n m Hn; inversion Hn|]. split; [intros n m Hn; inversion Hn|].
    split; [tauto|]. intros m. rewrite bool_decide_eq_false_2; [reflexivity|].
    intros Hn; inversion Hn.
Qed.

(** nondecreasing only looks at the heights of the listed nodes *)
Lemma nondecreasing_ext w1 w2 l :
  (forall m, m ∈ l -> hinOf w1 m = hinOf w2 m) -> nondecreasing w1 l -> nondecreasing w2 l.
Proof.
  induction l as [|n l IH]; intros Hext; simpl; [auto|].
  intros [H1 H2]. split.
  - intros m Hm. rewrite <- !Hext by (try constructor; auto; right; auto). auto.
  - apply IH; [|exact H2]. intros m Hm. apply Hext. right; auto.
Qed.

Lemma drain_spec_gen fuel : forall w l w', inv w -> fuel = length (ids w) ->
  Heap.drain fuel w = (l, w') ->
  l ≡ₚ Heap.ids w /\ nondecreasing w l /\ inv w' /\ Heap.ids w' = [].
Proof.
  induction fuel as [|fuel IH]; intros w l w' I Hf H; simpl in H.
  - injection H as <- <-. assert (ids w = []) as E by (destruct (ids w); [reflexivity|discriminate]).
    rewrite E. simpl. auto.
  - destruct (removeMin w) as [[n w1]|] eqn:Erm.
    + destruct (heap_removeMin_spec w n w1 I Erm) as ([Hmin1 Hmin2] & I1 & P1 & H1).
      destruct (drain fuel w1) as [l1 w2] eqn:Ed. injection H as <- <-.
      assert (Hf1 : fuel = length (ids w1)).
      { rewrite P1 in Hf. simpl in Hf. lia. }
      destruct (IH w1 l1 w2 I1 Hf1 Ed) as (Pl & Nl & I2 & E2).
      assert (Hnd : NoDup (n :: ids w1)) by (rewrite <- P1; apply (inv_nodup w I)).
      apply NoDup_cons_1_1 in Hnd. rename Hnd into Hnin.
      split; [rewrite P1, Pl; reflexivity|]. split; [|auto].
      simpl. split.
      * intros m Hm. apply Hmin2. rewrite P1. right. rewrite <- Pl. exact Hm.
      * apply (nondecreasing_ext w1 w l1); [|exact Nl].
        intros m Hm. rewrite H1. destruct (decide (m = n)) as [->|]; [|reflexivity].
        exfalso. apply Hnin. rewrite <- Pl. exact Hm.
    + apply (heap_removeMin_none w I) in Erm. rewrite Erm in Hf. discriminate.
Qed.

Lemma heap_drain_spec : forall w l w', inv w -> Heap.drain (length (Heap.ids w)) w = (l, w') ->
  l ≡ₚ Heap.ids w /\ nondecreasing w l /\ inv w' /\ Heap.ids w' = [].
Proof. intros w l w' I H. eapply drain_spec_gen; eauto. Qed.

Lemma heap_clear_spec : forall w l w', inv w -> Heap.clear w = (l, w') ->
  l ≡ₚ Heap.ids w /\ nondecreasing w l /\ inv w' /\ Heap.ids w' = [] /\ Heap.len w' = 0.
Proof.
  intros w l w' I H. unfold clear in H.
  rewrite (inv_cnt w I), Nat2Z.id in H.
  destruct (drain (length (ids w)) w) as [l0 w0] eqn:Ed. injection H as <- <-.
  destruct (heap_drain_spec w l0 w0 I Ed) as (P & N & I0 & E0).
  split; [exact P|]. split; [exact N|].
  assert (Eids : ids (mk (replicate (length (buckets w)) []) 0 0 0 (hin w0)) = []).
  { unfold ids; cbn [buckets]. apply concat_replicate_nil. }
  split; [|split; [exact Eids|reflexivity]].
  constructor.
  - rewrite Eids. constructor.
  - intros n x. cbn [hin]. unfold bucket; cbn [buckets].
    fold (bk (replicate (length (buckets w)) []) (Z.to_nat x)). rewrite bk_replicate_nil.
    split.
    + intros Hs. apply (inv_hin w0 I0) in Hs as [_ Hin]. exfalso.
      assert (n ∈ ids w0) as Hn by (apply elem_ids; eauto). rewrite E0 in Hn. inversion Hn.
    + intros [_ Hin]; inversion Hin.
  - rewrite Eids. reflexivity.
  - cbn [cnt]. lia.
Qed.

Lemma heap_fix_spec : forall w n h, inv w -> Heap.mem w n = true -> 0 <= h ->
  exists w', Heap.fix_ w n h = Ok w' /\ inv w' /\ Heap.ids w' ≡ₚ Heap.ids w /\
             forall m, Heap.hinOf w' m = if decide (m = n) then h else Heap.hinOf w m.
Proof.
  intros w n h I Hm Hh.
  destruct (heap_remove_spec w n I Hm) as (w1 & E1 & I1 & P1 & H1).
  assert (Hm1 : mem w1 n = false).
  { unfold mem. apply bool_decide_eq_false. rewrite H1, decide_True by reflexivity. auto. }
  destruct (heap_add_spec w1 n h I1 Hm1 Hh) as (w2 & E2 & I2 & P2 & H2).
  exists w2. unfold fix_. rewrite E1. simpl. split; [exact E2|]. split; [exact I2|].
  split; [rewrite P2, P1; reflexivity|].
  intros m. rewrite H2, H1. destruct (decide (m = n)); reflexivity.
Qed.

Lemma heap_step_total : forall w o, inv w -> pre w o -> exists r w', step w o = Ok (r, w').
Proof.
  intros w o I Hp. destruct o as [n h|n h|n|n h| | |]; simpl in *.
  - destruct Hp as [Hm Hh]. destruct (heap_add_spec w n h I Hm Hh) as (w' & E & _).
    rewrite E. simpl. eauto.
  - unfold addIfNotPresent. destruct (mem w n); simpl; [eauto|].
    destruct (add_ok w n h Hp) as [w' E]. rewrite E. simpl. eauto.
  - destruct (heap_remove_spec w n I Hp) as (w' & E & _). rewrite E. simpl. eauto.
  - destruct Hp as [Hm Hh]. destruct (heap_fix_spec w n h I Hm Hh) as (w' & E & _).
    rewrite E. simpl. eauto.
  - destruct (removeMin w) as [[n w']|]; eauto.
  - destruct (takeMinBlock w) as [b w']; eauto.
  - destruct (clear w) as [l w']; eauto.
Qed.

Lemma step_inv w o r w' : inv w -> pre w o -> step w o = Ok (r, w') -> inv w'.
Proof.
  intros I Hp Hs. destruct o as [n h|n h|n|n h| | |]; simpl in *.
  - destruct Hp as [Hm Hh]. destruct (heap_add_spec w n h I Hm Hh) as (w1 & E & I1 & _).
    rewrite E in Hs. simpl in Hs. injection Hs as _ <-. exact I1.
  - unfold addIfNotPresent in Hs. destruct (mem w n) eqn:Hm; simpl in Hs.
    + injection Hs as _ <-. exact I.
    + destruct (heap_add_spec w n h I Hm Hp) as (w1 & E & I1 & _).
      rewrite E in Hs. simpl in Hs. injection Hs as _ <-. exact I1.
  - destruct (heap_remove_spec w n I Hp) as (w1 & E & I1 & _).
    rewrite E in Hs. simpl in Hs. injection Hs as _ <-. exact I1.
  - destruct Hp as [Hm Hh]. destruct (heap_fix_spec w n h I Hm Hh) as (w1 & E & I1 & _).
    rewrite E in Hs. simpl in Hs. injection Hs as _ <-. exact I1.
  - destruct (removeMin w) as [[n w1]|] eqn:E.
    + injection Hs as _ <-. apply (heap_removeMin_spec w n w1 I E).
    + injection Hs as _ <-. exact I.
  - injection Hs as Hs. apply (heap_takeMinBlock_spec w r w' I Hs).
  - injection Hs as Hs. apply (heap_clear_spec w r w' I Hs).
Qed.

Lemma heap_run_inv : forall w os w', inv w -> run w os w' -> inv w'.
Proof.
  intros w os w' I R. induction R as [w|w o os r w1 w2 Hp Hs R IH]; [exact I|].
  apply IH. eapply step_inv; eauto.
Qed.
