(** Proofs about [Heap] (statements used by Properties/C18.v). *)
From incr Require Import Base Heap HeapSpec.
