(** Value-level invariants of the BIND-FREE fragment of the engine model (properties C01, C02,
    C03, pass halves of C11): definitions only, each as a [Prop] and as a boolean checker that
    can be evaluated on replayed histories ([vi_trace]: [vi_codes] after every operation,
    [pass_codes] = [li_codes] before every [recomputeNodeSerial] and after every chain of a pass).

    - [BF s]      : the state belongs to the bind-free fragment (no bind was ever created);
    - [ValInv s]  : the quiescent value invariant (between two operations of a history);
    - [LInv ...]  : the invariant of the serial pass loop, for the state between two calls of
                    [recomputeNodeSerial] (after a pop, or between two links of a
                    direct-recompute chain).

    The proofs are in PassProofs.v. *)
From incr Require Import Base Heap HeapSpec EngineDefs Engine EngineRun EngineWf Spec.

(** * The bind-free fragment *)
Definition isBindKind (k : kind) : bool :=
  match k with KBindLhs _ | KBindMain _ => true | _ => false end.

(* the number of declared inputs each constructor gives a node (MapN: any) *)
Definition arity_ok (x : node) : bool :=
  match nkind x with
  | KVar _ | KReturn => bool_decide (decl x = [])
  | KMap _ | KCutoff _ | KAlways => bool_decide (length (decl x) = 1%nat)
  | KMap2 _ => bool_decide (length (decl x) = 2%nat)
  | _ => true
  end.

(* a cutoff whose predicate always cuts never takes a value: it holds the zero it was created with *)
Definition cutalways_zero (x : node) : bool :=
  match nkind x with KCutoff CAlways => value x =? 0 | _ => true end.

(* an Always node reads through to an input created before it *)
Definition always_lt (n : nid) (x : node) : bool :=
  match nkind x with
  | KAlways => match decl x with [a] => (a <? n)%nat | _ => false end
  | _ => true
  end.

Definition bf_node (s : state) (n : nid) (x : node) : bool :=
  (n <? next s)%nat && negb (isBindKind (nkind x)) && bool_decide (scope x = None) && valid x
  && arity_ok x && cutalways_zero x && always_lt n x.

Definition BF (s : state) : Prop :=
  binds s = ∅ /\ forall n x, nodes s !! n = Some x -> bf_node s n x = true.

Definition bf_b (s : state) : bool :=
  bool_decide (binds s = ∅) && forallb (fun '(n, x) => bf_node s n x) (map_to_list (nodes s)).

Definition bindfree_op (o : op) : bool :=
  match o with
  | NewBind _ _ | NewBindMemo _ _ | PurgeMemo _ _ | ClearMemo _ | ParStabilize _ => false
  | _ => true
  end.

(** * The quiescent value invariant *)

(** [inW s cur n]: [n] is owed a recompute in this pass: queued, or the node about to run *)
Definition inW (s : state) (cur : option nid) (n : nid) : bool :=
  inHeap s n || bool_decide (cur = Some n).

(** an input whose [Value()] may differ from what its dependents last saw although its
    [changedAt] stamp is old: a var that is owed its recompute (Set writes the value at once,
    the stamp follows in the pass); an Always node that has not run in the current pass
    (its value reads through to its input) *)
Definition volq (s : state) (cur : option nid) (p : nid) : bool :=
  match nkind (nd s p) with
  | KVar _ => inW s cur p
  | KAlways => recomputedAt (nd s p) <? stabNum s
  | _ => false
  end.

(** every linked input of [n] is unchanged since [n] was last recomputed *)
Definition guarded (s : state) (cur : option nid) (n : nid) : bool :=
  forallb (fun p => (changedAt (nd s p) <=? recomputedAt (nd s n)) && negb (volq s cur p))
          (parents (nd s n)).

Definition stamps_node (s : state) (strict : bool) (n : nid) : bool :=
  let x := nd s n in
  (* [changedAt <= recomputedAt] does not survive a recovered panic (the stamp is reset to 0):
     what holds is that both stamps are old, and that a node stamped as changed in the running
     pass has run in it *)
  (0 <=? changedAt x) && (0 <=? recomputedAt x) &&
  (if strict then (changedAt x <? stabNum s) && (recomputedAt x <? stabNum s)
   else (changedAt x <=? stabNum s) && (recomputedAt x <=? stabNum s) &&
        implb (changedAt x =? stabNum s) (recomputedAt x =? stabNum s)).

Record ValInv (s : state) : Prop := {
  vi_bf : BF s;
  (* V4: stamps; every stamp is from an earlier pass *)
  vi_stamps : forall n, stamps_node s true n = true;
  (* V0: a node outside the graph has never-computed stamps (zeroNode resets them) *)
  vi_unreg : forall n, inGraph (nd s n) = false ->
                       recomputedAt (nd s n) = 0 /\ changedAt (nd s n) = 0;
  (* V1: owed => queued (an Always node is always stale) *)
  vi_owed : forall n, inGraph (nd s n) = true -> isStale s n = true -> inHeap s n = true;
  (* V2: not queued, no input changed since the last recompute => locally consistent *)
  vi_clean : forall n, inGraph (nd s n) = true -> inHeap s n = false ->
                       guarded s None n = true -> node_consistent s n = true
}.

Definition code (b : bool) (c : nat) : list nat := if b then [] else [c].

Definition vi_codes (s : state) : list nat :=
  code (bf_b s) 20 ++
  code (forallb (stamps_node s true) (allNodes s)) 21 ++
  code (forallb (fun n => negb (inGraph (nd s n)) || negb (isStale s n) || inHeap s n) (allNodes s)) 22 ++
  code (forallb (fun n => negb (inGraph (nd s n)) || inHeap s n || negb (guarded s None n)
                          || node_consistent s n) (allNodes s)) 23 ++
  code (forallb (fun n => inGraph (nd s n) ||
                          ((recomputedAt (nd s n) =? 0) && (changedAt (nd s n) =? 0))) (allNodes s)) 24.

Definition valinv_b (s : state) : bool := (1 <=? stabNum s) && bool_decide (vi_codes s = []).

(** * Reachability through [children] edges *)
Definition edge (s : state) (a b : nid) : Prop := b ∈ children (nd s a).
Definition reach (s : state) : nid -> nid -> Prop := rtc (edge s).

(* all descendants of [a] (with repetitions), to depth [fuel] *)
Fixpoint descs (fuel : nat) (s : state) (a : nid) : list nid :=
  match fuel with
  | O => [a]
  | S fuel => a :: concat (map (descs fuel s) (children (nd s a)))
  end.

(** * The invariant of the pass loop

    [k]      the pass number ([stabNum], constant during the pass);
    [h0]     the nodes queued when the pass began;
    [base]   the log when the pass began;
    [cur]    the node about to be recomputed (popped, or handed back for direct recompute);
    [W]      = queued nodes + [cur]: the nodes still owed their recompute in this pass;
    done     = [recomputedAt = k]: [recomputeNodeSerial] has run on the node in this pass. *)
Definition isDone (s : state) (n : nid) : bool := recomputedAt (nd s n) =? stabNum s.

Definition ev_node (e : event) : option nid :=
  match e with EvInvoked n _ _ | EvCutoff n _ _ _ => Some n | _ => None end.
Definition invoked_of (l : list event) : list nid :=
  omap (fun e => match e with EvInvoked n _ _ => Some n | _ => None end) l.

(* why a node is owed: it was queued when the pass began, or an input changed in this pass *)
Definition origin (s : state) (h0 : list nid) (n : nid) : bool :=
  bool_decide (n ∈ h0) || existsb (fun p => changedAt (nd s p) =? stabNum s) (parents (nd s n)).

Definition ev_ok (s : state) (e : event) : bool :=
  match e with
  | EvInvoked n args r =>
    isDone s n && bool_decide (args = map (valueOf s) (decl (nd s n))) && (r =? value (nd s n))
  | EvCutoff n old new v =>
    isDone s n && (if v then (changedAt (nd s n) <? stabNum s) && (value (nd s n) =? old)
                   else value (nd s n) =? new)
  | _ => true
  end.

Record LInv (h0 : list nid) (base : list event) (s : state) (cur : option nid) : Prop := {
  li_bf : BF s;
  li_heap : HeapSpec.inv (heap s) /\
            forall q, q ∈ Heap.ids (heap s) ->
              inGraph (nd s q) = true /\ Heap.hinOf (heap s) q = height (nd s q);
  li_stamps : forall n, stamps_node s false n = true;
  (* B: nothing at or below an owed node has run in this pass *)
  li_B : forall w n, inW s cur w = true -> reach s w n -> isDone s n = false;
  (* M: the node about to run is not queued, and no queued node is an ancestor of it *)
  li_M : forall m w, cur = Some m -> w ∈ Heap.ids (heap s) -> reach s w m -> False;
  (* V1: a stale registered node that has not run is owed *)
  li_owed : forall n, inGraph (nd s n) = true -> isDone s n = false -> isStale s n = true ->
                      inW s cur n = true;
  (* V2 *)
  li_clean : forall n, inGraph (nd s n) = true -> inW s cur n = false ->
                       guarded s cur n = true -> node_consistent s n = true;
  (* who is owed, and why (C03) *)
  li_orig : forall n, inW s cur n = true \/ isDone s n = true ->
                      inGraph (nd s n) = true /\ origin s h0 n = true;
  li_prog : forall n, n ∈ h0 -> inW s cur n = true \/ isDone s n = true;
  (* the events of this pass (C02, C03, C11) *)
  li_log : exists evs, log s = evs ++ base /\ Forall (fun e => ev_ok s e = true) evs /\
                       NoDup (invoked_of evs)
}.

Definition pass_events (base : list event) (s : state) : list event :=
  take (length (log s) - length base) (log s).

Definition li_codes (h0 : list nid) (base : list event) (s : state) (cur : option nid) : list nat :=
  let W : list nid := Heap.ids (heap s) ++ match cur with Some m => [m] | None => [] end in
  let fuel := length (allNodes s) in
  let evs := pass_events base s in
  code (bf_b s) 30 ++
  code (heap_inv_b (heap s) &&
        forallb (fun q => inGraph (nd s q) && (Heap.hinOf (heap s) q =? height (nd s q))) (Heap.ids (heap s))) 31 ++
  code (forallb (stamps_node s false) (allNodes s)) 32 ++
  code (forallb (fun w => forallb (fun n => negb (isDone s n)) (descs fuel s w)) W) 33 ++
  code (match cur with
        | Some m => forallb (fun w => negb (bool_decide (m ∈ descs fuel s w))) (Heap.ids (heap s))
        | None => true
        end) 34 ++
  code (forallb (fun n => negb (inGraph (nd s n)) || isDone s n || negb (isStale s n) || inW s cur n)
                (allNodes s)) 35 ++
  code (forallb (fun n => negb (inGraph (nd s n)) || inW s cur n || negb (guarded s cur n)
                          || node_consistent s n) (allNodes s)) 36 ++
  code (forallb (fun n => negb (inW s cur n || isDone s n) || (inGraph (nd s n) && origin s h0 n))
                (allNodes s)) 37 ++
  code (forallb (fun n => inW s cur n || isDone s n) h0) 38 ++
  code (bool_decide (log s = evs ++ base) && forallb (ev_ok s) evs && bool_decide (NoDup (invoked_of evs))) 39.

(** ** The pass, instrumented: the serial loop of [Engine.passLoop] / [Engine.recomputeChain]
    with the checker [ck] evaluated before every [recomputeNodeSerial] and after every chain *)
Section Instrumented.
  Variable ck : state -> option nid -> list nat.

  Fixpoint chainChk (fuel : nat) (p : plan) (s : state) (n : nid)
    : res (state * option err * nid * list nat) :=
    match fuel with
    | O => OutOfFuel
    | S fuel =>
      let c0 := ck s (Some n) in
      '(s, e, imm) <-! recomputeNodeSerial fuel p s n;
      match e, imm with
      | None, Some c => '(s', e', at_, cs) <-! chainChk fuel p s c; Ok (s', e', at_, c0 ++ cs)
      | None, None => Ok (s, e, n, c0 ++ ck s None)
      | _, _ => Ok (s, e, n, c0)
      end
    end.

  Fixpoint loopChk (fuel : nat) (p : plan) (s : state) (always : list nid)
    : res (state * option err * nid * list nid * list nat) :=
    match fuel with
    | O => OutOfFuel
    | S fuel =>
      if Heap.cnt (heap s) <=? 0 then Ok (s, None, 0%nat, always, []) else
      match Heap.removeMin (heap s) with
      | None => Crash NilDeref
      | Some (n, w) =>
        let s := s <| heap := w |> in
        let always := if isAlways (nkind (nd s n)) then always ++ [n] else always in
        '(s, e, at_, cs) <-! chainChk fuel p s n;
        match e with
        | Some _ => Ok (s, e, at_, always, cs)
        | None => '(s', e', at', al', cs') <-! loopChk fuel p s always; Ok (s', e', at', al', cs ++ cs')
        end
      end
    end.
End Instrumented.

(* the failing clauses of the loop invariant during a pass started in the quiescent state [s] *)
Definition pass_codes (p : plan) (s : state) : list nat :=
  let s1 := emit EvPassStart (s <| status := 1 |>) in
  let h0 := Heap.ids (heap s1) in
  let base := log s1 in
  li_codes h0 base s1 None ++
  match loopChk (li_codes h0 base) (passFuel s1) p s1 [] with
  | Ok (_, _, _, _, cs) => cs
  | _ => [98%nat]
  end.

(** replay a history on the model: the first operation after which a clause of [ValInv] fails,
    or during whose pass a clause of [LInv] fails; stops (reports nothing) at the first
    operation outside the fragment *)
Fixpoint vi_trace (s : state) (os : list op) (i : nat) : option (nat * list nat) :=
  match os with
  | [] => None
  | o :: os =>
    if negb (bindfree_op o) then None else
    if negb (op_ok s o) then Some (i, [99%nat]) else
    let s := s <| log := [] |> in
    let pc := match o with Stabilize p => pass_codes p s | _ => [] end in
    match pc with
    | _ :: _ => Some (i, pc)
    | [] =>
      match step s o with
      | Ok (s', Some _) => None          (* rejected operation or failed pass: outside the fragment *)
      | Ok (s', None) =>
        match (if valinv_b s' then [] else 19%nat :: vi_codes s') with
        | [] => vi_trace s' os (S i)
        | cs => Some (i, cs)
        end
      | Crash _ => Some (i, [98%nat])
      | OutOfFuel => Some (i, [97%nat])
      end
    end
  end.
