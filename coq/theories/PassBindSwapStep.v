(** Stage B2, the missing step: the recompute of a lhs-change node preserves [LInvC], for binds
    whose templates contain no nested bind ([tplain]).

    1  [inst] of a plain template: fresh plain nodes in the scope, and the result [matches] it;
    2  invariant-free frames of the pieces of [changeParent] / [invalidateNode];
    3  the stages of [bindLhsStabilize] (replaying EngineInvProofs.bind_spec_holds to get the
       structural facts at the intermediate states);
    4  [LInvC] after the step. *)
From stdpp Require Import sorting.
From incr Require Import Base Heap HeapSpec HeapProofs EngineDefs Engine EngineRun EngineWf Spec
     EngineLemmas EngineInv EngineInvProofs PassInv PassProofs PassBind PassBindProofs PassBindSwap
     PassBindSwapProofs.
From incr Require EngineLocal.

Local Ltac inv H := inversion H; subst; clear H.
Local Arguments valueOf : simpl never.

(** * 1. Templates (nested binds allowed) *)
Fixpoint tplain (root : bool) (e : texp) : bool :=
  match e with
  | TRet _ | TX | TOuter _ => true
  | TMap _ e | TCut _ e => tplain false e
  | TMap2 _ e1 e2 => tplain false e1 && tplain false e2
  | TBind cases e => forallb (tplain true) cases && tplain false e
  | TNil => root
  end.

Lemma tplain_root e : tplain false e = true -> tplain true e = true.
Proof. destruct e; simpl; auto. Qed.

Fixpoint tdepth (e : texp) : nat :=
  match e with
  | TMap _ e | TCut _ e | TBind _ e => S (tdepth e)
  | TMap2 _ e1 e2 => S (Nat.max (tdepth e1) (tdepth e2))
  | _ => 1
  end.

(** properties of templates inherited by sub-templates and nested case tables *)
Definition subclosed (Q : texp -> bool) : Prop :=
  (forall f e, Q (TMap f e) = true -> Q e = true) /\
  (forall f e1 e2, Q (TMap2 f e1 e2) = true -> Q e1 = true /\ Q e2 = true) /\
  (forall c e, Q (TCut c e) = true -> Q e = true) /\
  (forall cs e, Q (TBind cs e) = true -> forallb Q cs = true /\ Q e = true).

Lemma subclosed_tplain : subclosed (tplain true).
Proof.
  split; [|split; [|split]].
  - intros f e H. simpl in H. apply tplain_root, H.
  - intros f e1 e2 H. simpl in H. apply andb_true_iff in H as [H1 H2]. split; apply tplain_root; assumption.
  - intros c e H. simpl in H. apply tplain_root, H.
  - intros cs e H. simpl in H. apply andb_true_iff in H as [H1 H2]. split; [exact H1|apply tplain_root, H2].
Qed.

(** what [inst] (and [newNode] / [newBind] in scope [b]) does to the state *)
Record instF (b : nat) (s s' : state) : Prop := {
  if_next : (next s <= next s')%nat;
  if_old : forall m, (m < next s \/ next s' <= m)%nat -> nodes s' !! m = nodes s !! m;
  if_new : forall m, (next s <= m < next s')%nat ->
    exists k d v, nodes s' !! m = Some (fresh_node k d (Some b) v) /\
                  staleK k = true /\ shape_node m (fresh_node k d (Some b) v) = true /\
                  (forall b1, k = KBindMain b1 -> b1 <> b /\ is_Some (binds s' !! b1));
  if_bd : forall b', b' <> b -> binds s' !! b' = binds s !! b' \/
                                (binds s !! b' = None /\ (next s <= b' < next s')%nat);
  if_bdb : b_lhs (bd s' b) = b_lhs (bd s b) /\ b_rhs (bd s' b) = b_rhs (bd s b) /\
           b_cases (bd s' b) = b_cases (bd s b) /\ b_memo (bd s' b) = b_memo (bd s b) /\
           b_main (bd s' b) = b_main (bd s b) /\
           (is_Some (binds s' !! b) <-> is_Some (binds s !! b));
  if_fields : reg s' = reg s /\ obs s' = obs s /\ heap s' = heap s /\ adj s' = adj s /\ invq s' = invq s /\
              stabNum s' = stabNum s /\ status s' = status s /\ numNodes s' = numNodes s /\
              setDuring s' = setDuring s /\ setRemoved s' = setRemoved s /\ handlers s' = handlers s /\
              maxHeight s' = maxHeight s /\ log s' = log s
}.

Lemma instF_refl b s : instF b s s.
Proof.
  constructor.
  - lia.
  - reflexivity.
  - intros m Hm. lia.
  - auto.
  - repeat split; auto.
  - repeat split.
Qed.

Lemma instF_trans b s1 s2 s3 : instF b s1 s2 -> instF b s2 s3 -> instF b s1 s3.
Proof.
  intros A B. pose proof (if_next _ _ _ A). pose proof (if_next _ _ _ B). constructor.
  - lia.
  - intros m Hm. rewrite (if_old _ _ _ B) by lia. apply (if_old _ _ _ A). lia.
  - intros m Hm. destruct (decide (m < next s2)%nat) as [Hlt|Hge].
    + rewrite (if_old _ _ _ B) by lia. destruct (if_new _ _ _ A m ltac:(lia)) as (k & d & v & E & Hs & Hsh & Hb1).
      exists k, d, v. split; [exact E|]. split; [exact Hs|]. split; [exact Hsh|].
      intros b1 Ek. destruct (Hb1 b1 Ek) as [Hne Hsome]. split; [exact Hne|].
      destruct (if_bd _ _ _ B b1 Hne) as [->|[E0 _]]; [exact Hsome|]. rewrite E0 in Hsome. destruct Hsome; discriminate.
    + apply (if_new _ _ _ B). lia.
  - intros b' Hb. destruct (if_bd _ _ _ B b' Hb) as [E2|[E2 R2]].
    + rewrite E2. destruct (if_bd _ _ _ A b' Hb) as [E1|[E1 R1]]; [auto|right; split; [exact E1|lia]].
    + destruct (if_bd _ _ _ A b' Hb) as [E1|[E1 R1]]; [right; split; [congruence|lia]|right; split; [exact E1|lia]].
  - destruct (if_bdb _ _ _ A) as (?&?&?&?&?&?), (if_bdb _ _ _ B) as (?&?&?&?&?&?). repeat split; try congruence; tauto.
  - destruct (if_fields _ _ _ A) as (?&?&?&?&?&?&?&?&?&?&?&?&?), (if_fields _ _ _ B) as (?&?&?&?&?&?&?&?&?&?&?&?&?).
    repeat split; congruence.
Qed.

Lemma instF_nd_old b s s' m : instF b s s' -> (m < next s \/ next s' <= m)%nat -> nd s' m = nd s m.
Proof. intros F Hm. unfold nd. rewrite (if_old _ _ _ F m Hm). reflexivity. Qed.

Lemma instF_newNode b s k d v :
  isBindKind k = false -> staleK k = true -> shape_node (next s) (fresh_node k d (Some b) v) = true ->
  instF b s (newNode s k d (Some b) v).1.
Proof.
  intros Hk Hst Hsh. constructor.
  - rewrite next_newNode. lia.
  - intros m Hm. rewrite nodes_newNode, next_newNode in *. rewrite lookup_insert_ne by lia. reflexivity.
  - intros m Hm. rewrite next_newNode in Hm. assert (m = next s) as -> by lia.
    exists k, d, v. rewrite nodes_newNode, lookup_insert. split; [reflexivity|]. split; [exact Hst|]. split; [exact Hsh|].
    intros b1 ->. discriminate Hk.
  - intros b' Hb. left. rewrite binds_newNode, lookup_alter_ne by congruence. reflexivity.
  - unfold bd. rewrite binds_newNode, lookup_alter. destruct (binds s !! b) as [r|]; simpl.
    + repeat split; eauto.
    + repeat split; intros [? ?]; discriminate.
  - rewrite reg_newNode, obs_newNode, heap_newNode, adj_newNode, invq_newNode, stabNum_newNode, status_newNode,
      numNodes_newNode, setDuring_newNode, setRemoved_newNode, handlers_newNode, maxHeight_newNode, log_newNode.
    repeat split.
Qed.

(* a nested bind: the record, the lhs-change node and the main node *)
Lemma instF_newBind b s cases a :
  b <> next s -> binds s !! (next s) = None ->
  instF b s (newBind s cases a (Some b)).1 /\
  (newBind s cases a (Some b)).2 = S (next s) /\
  nd (newBind s cases a (Some b)).1 (S (next s)) = fresh_node (KBindMain (next s)) [next s] (Some b) 0 /\
  bd (newBind s cases a (Some b)).1 (next s) = mkBind a (next s) (S (next s)) None [] cases 0%nat false [] /\
  next (newBind s cases a (Some b)).1 = S (S (next s)) /\
  (binds s !! S (next s) = None -> b <> S (next s) -> binds (newBind s cases a (Some b)).1 !! S (next s) = None).
Proof.
  intros Hbn Hfresh. unfold newBind. rewrite newBindWith_snd. rewrite newBindWith_eq.
  set (rec := mkBind a (next s) (S (next s)) None [] cases 0%nat false []).
  set (s0 := s <| binds := <[next s := rec]> (binds s) |>).
  set (s1 := (newNode s0 (KBindLhs (next s)) [a] (Some b) 0).1).
  set (s2 := (newNode s1 (KBindMain (next s)) [next s] (Some b) 0).1).
  assert (Hn1 : next s1 = S (next s)) by (unfold s1; rewrite next_newNode; reflexivity).
  assert (Hn2 : next s2 = S (S (next s))) by (unfold s2; rewrite next_newNode, Hn1; reflexivity).
  assert (Hnodes : nodes s2 = <[S (next s) := fresh_node (KBindMain (next s)) [next s] (Some b) 0]>
                                (<[next s := fresh_node (KBindLhs (next s)) [a] (Some b) 0]> (nodes s))).
  { unfold s2. rewrite nodes_newNode, Hn1. unfold s1. rewrite nodes_newNode. reflexivity. }
  assert (Hbinds : binds s2 = alter (set b_rhsNodes (fun l => l ++ [S (next s)])) b
                                (alter (set b_rhsNodes (fun l => l ++ [next s])) b (<[next s := rec]> (binds s)))).
  { unfold s2. rewrite binds_newNode, Hn1. unfold s1. rewrite binds_newNode. reflexivity. }
  assert (Hbd1 : binds s2 !! (next s) = Some rec).
  { rewrite Hbinds, !lookup_alter_ne by congruence. apply lookup_insert. }
  split; [|split; [reflexivity|split; [|split; [|split; [exact Hn2|]]]]].
  4:{ intros Hf2 Hb2. rewrite Hbinds, !lookup_alter_ne by congruence. rewrite lookup_insert_ne by lia. exact Hf2. }
  - constructor.
    + rewrite Hn2. lia.
    + intros m Hm. rewrite Hn2 in Hm. rewrite Hnodes, !lookup_insert_ne by lia. reflexivity.
    + intros m Hm. rewrite Hn2 in Hm. destruct (decide (m = S (next s))) as [->|Hne].
      * exists (KBindMain (next s)), [next s], 0. rewrite Hnodes, lookup_insert. split; [reflexivity|].
        split; [reflexivity|]. split; [reflexivity|]. intros b1 [= <-]. split; [congruence|]. rewrite Hbd1. eauto.
      * assert (m = next s) as -> by lia.
        exists (KBindLhs (next s)), [a], 0. rewrite Hnodes, lookup_insert_ne, lookup_insert by lia.
        split; [reflexivity|]. split; [reflexivity|]. split; [reflexivity|]. intros b1 Hk. discriminate Hk.
    + intros b' Hb. rewrite Hbinds, !lookup_alter_ne by congruence. destruct (decide (b' = next s)) as [->|Hne].
      * right. split; [exact Hfresh|]. rewrite Hn2. lia.
      * left. apply lookup_insert_ne. congruence.
    + unfold bd. rewrite Hbinds, !lookup_alter, lookup_insert_ne by congruence. destruct (binds s !! b) as [r|]; simpl.
      * repeat split; eauto.
      * repeat split; intros [? ?]; discriminate.
    + unfold s2. rewrite reg_newNode, obs_newNode, heap_newNode, adj_newNode, invq_newNode, stabNum_newNode, status_newNode,
        numNodes_newNode, setDuring_newNode, setRemoved_newNode, handlers_newNode, maxHeight_newNode, log_newNode.
      unfold s1. rewrite reg_newNode, obs_newNode, heap_newNode, adj_newNode, invq_newNode, stabNum_newNode, status_newNode,
        numNodes_newNode, setDuring_newNode, setRemoved_newNode, handlers_newNode, maxHeight_newNode, log_newNode.
      repeat split.
  - unfold nd. rewrite Hnodes, lookup_insert. reflexivity.
  - unfold bd. rewrite Hbd1. reflexivity.
Qed.

Lemma next_newBind s cases a sc : next (newBind s cases a sc).1 = S (S (next s)).
Proof. unfold newBind. rewrite newBindWith_eq, !next_newNode. reflexivity. Qed.

Lemma matches_S fuel s sc x e r : matches (S fuel) s sc x e r =
  match e, r with
  | TNil, None => true
  | TOuter m, Some n => bool_decide (n = m)
  | TRet k, Some n => let y := nd s n in
                      bool_decide (nkind y = KReturn) && (value y =? k) && bool_decide (scope y = sc)
  | TX, Some n => let y := nd s n in
                  bool_decide (nkind y = KReturn) && (value y =? x) && bool_decide (scope y = sc)
  | TMap f e, Some n =>
    let y := nd s n in
    bool_decide (nkind y = KMap f) && bool_decide (scope y = sc) &&
    match decl y with [a] => matches fuel s sc x e (Some a) | _ => false end
  | TMap2 f e1 e2, Some n =>
    let y := nd s n in
    bool_decide (nkind y = KMap2 f) && bool_decide (scope y = sc) &&
    match decl y with
    | [a1; a2] => matches fuel s sc x e1 (Some a1) && matches fuel s sc x e2 (Some a2)
    | _ => false
    end
  | TCut c e, Some n =>
    let y := nd s n in
    bool_decide (nkind y = KCutoff c) && bool_decide (scope y = sc) &&
    match decl y with [a] => matches fuel s sc x e (Some a) | _ => false end
  | TBind cases e, Some n =>
    let y := nd s n in
    match nkind y with
    | KBindMain b' =>
      let br := bd s b' in
      bool_decide (scope y = sc) && texps_eqb (b_cases br) cases
      && bool_decide (b_main br = n) && matches fuel s sc x e (Some (b_lhs br))
    | _ => false
    end
  | _, _ => false
  end.
Proof. reflexivity. Qed.

(** the invariants of the states [inst] goes through *)
Record IW (b : nat) (s : state) : Prop := {
  iw_lt : forall m, has s m -> (m < next s)%nat;
  iw_bk : forall b1, is_Some (binds s !! b1) -> (b1 < next s)%nat;
  iw_b : (b < next s)%nat;
  iw_ko : forall n b', has s n -> nkind (nd s n) = KBindMain b' -> is_Some (binds s !! b')
}.

Lemma IW_instF b s s' : IW b s -> instF b s s' -> IW b s'.
Proof.
  intros [Hlt Hbk Hb Hko] F. pose proof (if_next _ _ _ F) as Hn. constructor.
  - intros m Hm. destruct (decide (m < next s')%nat) as [|Hge]; [assumption|].
    unfold has in Hm. rewrite (if_old _ _ _ F m) in Hm by lia. pose proof (Hlt m Hm). lia.
  - intros b1 Hs. destruct (decide (b1 = b)) as [->|Hne]; [lia|].
    destruct (if_bd _ _ _ F b1 Hne) as [E|[_ R]]; [|lia]. rewrite E in Hs. pose proof (Hbk b1 Hs). lia.
  - lia.
  - intros n b' Hn' K. destruct (decide (next s <= n < next s')%nat) as [Hnew|Hold].
    + destruct (if_new _ _ _ F n Hnew) as (k & d & v & E & _ & _ & Hb1). rewrite (nd_lookup _ _ _ E) in K. cbn in K.
      apply (Hb1 b' K).
    + assert (Ho : (n < next s \/ next s' <= n)%nat) by lia.
      unfold has in Hn'. rewrite (if_old _ _ _ F n Ho) in Hn'. rewrite (instF_nd_old b s s' n F Ho) in K.
      pose proof (Hko n b' Hn' K) as Hs. destruct (decide (b' = b)) as [->|Hne]; [apply (if_bdb _ _ _ F), Hs|].
      destruct (if_bd _ _ _ F b' Hne) as [E|[E _]]; [rewrite E; exact Hs|]. rewrite E in Hs. destruct Hs; discriminate.
Qed.

(* the records read by [matches] are kept by an extension *)
Lemma instF_bd_read b s s' b' : instF b s s' -> is_Some (binds s !! b') ->
  b_cases (bd s' b') = b_cases (bd s b') /\ b_main (bd s' b') = b_main (bd s b') /\ b_lhs (bd s' b') = b_lhs (bd s b').
Proof.
  intros F Hs. destruct (decide (b' = b)) as [->|Hne].
  - destruct (if_bdb _ _ _ F) as (A&_&C&_&D&_). auto.
  - destruct (if_bd _ _ _ F b' Hne) as [E|[E _]]; [|rewrite E in Hs; destruct Hs; discriminate].
    unfold bd. rewrite E. auto.
Qed.

(* a template that matches in [s] matches in every extension of [s] by fresh nodes *)
Lemma matches_instF b fuel : forall s s' x e r,
  IW b s -> instF b s s' -> tplain false e = true ->
  matches fuel s (Some b) x e r = true -> matches fuel s' (Some b) x e r = true.
Proof.
  induction fuel as [|fuel IH]; intros s s' x e r W F Hp H; [discriminate|].
  rewrite matches_S in *.
  assert (Hhas : forall n, scope (nd s n) = Some b -> has s n).
  { intros n Hs. destruct (decide (has s n)) as [Hn|Hn]; [exact Hn|]. rewrite (not_has_nd _ _ Hn) in Hs. discriminate. }
  assert (Hnd : forall n, scope (nd s n) = Some b -> nd s' n = nd s n).
  { intros n Hs. apply (instF_nd_old b s s' n F). left. apply (iw_lt _ _ W), Hhas, Hs. }
  destruct r as [n|]; destruct e; try discriminate; try exact H; simpl in Hp; cbv zeta in *.
  - rewrite !andb_true_iff in H. destruct H as [[H1 H2] H3]. apply bool_decide_eq_true in H3.
    rewrite (Hnd n H3). rewrite !andb_true_iff. repeat split; try assumption. apply bool_decide_eq_true, H3.
  - rewrite !andb_true_iff in H. destruct H as [[H1 H2] H3]. apply bool_decide_eq_true in H3.
    rewrite (Hnd n H3). rewrite !andb_true_iff. repeat split; try assumption. apply bool_decide_eq_true, H3.
  - rewrite !andb_true_iff in H. destruct H as [[H1 H2] H3]. apply bool_decide_eq_true in H2.
    rewrite (Hnd n H2). rewrite !andb_true_iff. split; [split; [exact H1|apply bool_decide_eq_true, H2]|].
    destruct (decl (nd s n)) as [|a [|]]; try discriminate. apply (IH s s'); assumption.
  - apply andb_true_iff in Hp as [Hp1 Hp2].
    rewrite !andb_true_iff in H. destruct H as [[H1 H2] H3]. apply bool_decide_eq_true in H2.
    rewrite (Hnd n H2). rewrite !andb_true_iff. split; [split; [exact H1|apply bool_decide_eq_true, H2]|].
    destruct (decl (nd s n)) as [|a1 [|a2 [|]]]; try discriminate. apply andb_true_iff in H3 as [H3 H4].
    apply andb_true_iff. split; apply (IH s s'); assumption.
  - rewrite !andb_true_iff in H. destruct H as [[H1 H2] H3]. apply bool_decide_eq_true in H2.
    rewrite (Hnd n H2). rewrite !andb_true_iff. split; [split; [exact H1|apply bool_decide_eq_true, H2]|].
    destruct (decl (nd s n)) as [|a [|]]; try discriminate. apply (IH s s'); assumption.
  - apply andb_true_iff in Hp as [_ Hp2].
    destruct (nkind (nd s n)) eqn:K; try discriminate.
    rewrite !andb_true_iff in H. destruct H as [[[H1 H2] H3] H4]. apply bool_decide_eq_true in H1.
    rewrite (Hnd n H1), K.
    destruct (instF_bd_read b s s' b0 F (iw_ko _ _ W n b0 (Hhas n H1) K)) as (Ec & Em & El).
    rewrite Ec, Em, El, H2, H3. rewrite (bool_decide_eq_true_2 _ H1). simpl. apply (IH s s'); assumption.
Qed.

Lemma matches_mono fuel : forall fuel' s sc x e r,
  (fuel <= fuel')%nat -> matches fuel s sc x e r = true -> matches fuel' s sc x e r = true.
Proof.
  induction fuel as [|fuel IH]; intros fuel' s sc x e r Hle H; [discriminate|].
  destruct fuel' as [|fuel']; [lia|]. assert (Hle' : (fuel <= fuel')%nat) by lia.
  rewrite matches_S in *.
  destruct r as [n|]; destruct e; try discriminate; try exact H; cbv zeta in *.
  - apply andb_true_iff in H as [H0 H]. rewrite H0. simpl.
    destruct (decl (nd s n)) as [|a [|]]; try discriminate. apply (IH fuel'); assumption.
  - apply andb_true_iff in H as [H0 H]. rewrite H0. simpl.
    destruct (decl (nd s n)) as [|a1 [|a2 [|]]]; try discriminate.
    apply andb_true_iff in H as [H1 H2]. apply andb_true_iff. split; apply (IH fuel'); assumption.
  - apply andb_true_iff in H as [H0 H]. rewrite H0. simpl.
    destruct (decl (nd s n)) as [|a [|]]; try discriminate. apply (IH fuel'); assumption.
  - destruct (nkind (nd s n)); try discriminate. apply andb_true_iff in H as [H1 H2].
    apply andb_true_iff. split; [exact H1|]. apply (IH fuel'); assumption.
Qed.

Lemma texp_eqb_refl : forall e, texp_eqb e e = true.
Proof.
  fix IH 1. intros e. destruct e; simpl; try reflexivity.
  - apply Z.eqb_refl.
  - apply Nat.eqb_refl.
  - rewrite bool_decide_eq_true_2 by reflexivity. apply IH.
  - rewrite bool_decide_eq_true_2 by reflexivity. rewrite !IH. reflexivity.
  - rewrite bool_decide_eq_true_2 by reflexivity. apply IH.
  - rewrite IH, andb_true_r. induction cases as [|c l IHl]; [reflexivity|]. rewrite IH. exact IHl.
Qed.

Lemma texps_eqb_refl l : texps_eqb l l = true.
Proof. induction l as [|c l IH]; [reflexivity|]. simpl. rewrite texp_eqb_refl. exact IH. Qed.

Lemma nd_fresh_lookup s m x : nodes s !! m = Some x -> nd s m = x.
Proof. apply nd_lookup. Qed.

Lemma newNode_pair s k d sc v : newNode s k d sc v = ((newNode s k d sc v).1, next s).
Proof. rewrite <- (newNode_snd s k d sc v). destruct (newNode s k d sc v); reflexivity. Qed.

Local Opaque newNode.

Local Ltac nn H s1 n1 :=
  match type of H with
  | context [newNode ?s ?k ?d ?sc ?v] =>
    let En := fresh "En" in
    destruct (newNode s k d sc v) as [s1 n1] eqn:En;
    let E1 := fresh "E1" in let E2 := fresh "E2" in
    pose proof (f_equal fst En) as E1; pose proof (f_equal snd En) as E2;
    rewrite newNode_snd in E2; cbn [fst snd] in E1, E2; subst s1 n1; clear En
  end.

(* the case tables of the records created by an instantiation come from the template *)
Definition newQ (b : nat) (s s' : state) (e : texp) : Prop :=
  forall Q, subclosed Q -> Q e = true ->
    forall b1 r1, b1 <> b -> binds s' !! b1 = Some r1 -> binds s !! b1 = None -> forallb Q (b_cases r1) = true.

Lemma newQ_old b s s' e : instF b s s' ->
  (forall b', b' <> b -> binds s' !! b' = binds s !! b') -> newQ b s s' e.
Proof. intros F H Q _ _ b1 r1 Hne Hr Hn. rewrite (H b1 Hne) in Hr. congruence. Qed.

Local Opaque newBind.

Lemma inst_plain b x : forall e root s s' r,
  IW b s -> tplain root e = true ->
  inst s (Some b) x e = (s', r) ->
  instF b s s' /\ newQ b s s' e /\
  match r with
  | Some n => matches (tdepth e) s' (Some b) x e (Some n) = true
  | None => e = TNil /\ s' = s
  end.
Proof.
  induction e as [k| |t|f e IH|f e1 IH1 e2 IH2|c e IH|cs e IH|]; intros root s s' r W Hp H; simpl in H, Hp.
  - (* TRet *) nn H s1 n1. injection H as <- <-.
    assert (F : instF b s (newNode s KReturn [] (Some b) k).1) by (apply instF_newNode; reflexivity).
    split; [exact F|]. split; [apply (newQ_old b _ _ _ F); intros b' Hb; rewrite binds_newNode, lookup_alter_ne by congruence; reflexivity|].
    simpl. rewrite nd_newNode, decide_True by reflexivity. simpl. rewrite Z.eqb_refl, !bool_decide_eq_true_2 by reflexivity. reflexivity.
  - (* TX *) nn H s1 n1. injection H as <- <-.
    assert (F : instF b s (newNode s KReturn [] (Some b) x).1) by (apply instF_newNode; reflexivity).
    split; [exact F|]. split; [apply (newQ_old b _ _ _ F); intros b' Hb; rewrite binds_newNode, lookup_alter_ne by congruence; reflexivity|].
    simpl. rewrite nd_newNode, decide_True by reflexivity. simpl. rewrite Z.eqb_refl, !bool_decide_eq_true_2 by reflexivity. reflexivity.
  - (* TOuter *) injection H as <- <-. split; [apply instF_refl|]. split; [intros Q _ _ b1 r1 _ Hr Hn; congruence|].
    simpl. apply bool_decide_eq_true. reflexivity.
  - (* TMap *)
    destruct (inst s (Some b) x e) as [s1 a] eqn:E1. destruct (IH false s s1 a W Hp E1) as (F1 & Q1 & M1).
    destruct a as [n|]; [|destruct M1 as [-> _]; discriminate Hp].
    cbn [default] in H. nn H s2 n2. injection H as <- <-.
    assert (F2 : instF b s1 (newNode s1 (KMap f) [n] (Some b) 0).1) by (apply instF_newNode; reflexivity).
    split; [eapply instF_trans; eauto|]. split.
    { intros Q HQ Hq b1 r1 Hne Hr Hn. rewrite binds_newNode, lookup_alter_ne in Hr by congruence.
      apply (Q1 Q HQ (proj1 HQ f e Hq) b1 r1 Hne Hr Hn). }
    cbn [tdepth]. rewrite matches_S. cbv zeta.
    rewrite nd_newNode, decide_True by reflexivity. simpl. rewrite !bool_decide_eq_true_2 by reflexivity. simpl.
    apply (matches_instF b _ s1 _ x e (Some n) (IW_instF b s s1 W F1) F2 Hp M1).
  - (* TMap2 *)
    apply andb_true_iff in Hp as [Hp1 Hp2].
    destruct (inst s (Some b) x e1) as [s1 a1] eqn:E1. destruct (IH1 false s s1 a1 W Hp1 E1) as (F1 & Q1 & M1).
    pose proof (IW_instF b s s1 W F1) as W1.
    destruct (inst s1 (Some b) x e2) as [s2 a2] eqn:E2. destruct (IH2 false s1 s2 a2 W1 Hp2 E2) as (F2 & Q2 & M2).
    pose proof (IW_instF b s1 s2 W1 F2) as W2.
    destruct a1 as [n1|]; [|destruct M1 as [-> _]; discriminate Hp1].
    destruct a2 as [n2|]; [|destruct M2 as [-> _]; discriminate Hp2].
    cbn [default] in H. nn H s3 n3. injection H as <- <-.
    assert (F3 : instF b s2 (newNode s2 (KMap2 f) [n1; n2] (Some b) 0).1) by (apply instF_newNode; reflexivity).
    split; [eapply instF_trans; [exact F1|eapply instF_trans; eauto]|]. split.
    { intros Q HQ Hq b1 r1 Hne Hr Hn. rewrite binds_newNode, lookup_alter_ne in Hr by congruence.
      destruct (proj1 (proj2 HQ) f e1 e2 Hq) as [Hq1 Hq2].
      destruct (if_bd _ _ _ F2 b1 Hne) as [E|[E _]].
      - rewrite E in Hr. apply (Q1 Q HQ Hq1 b1 r1 Hne Hr Hn).
      - apply (Q2 Q HQ Hq2 b1 r1 Hne Hr E). }
    cbn [tdepth]. rewrite matches_S. cbv zeta.
    rewrite nd_newNode, decide_True by reflexivity. simpl. rewrite !bool_decide_eq_true_2 by reflexivity. simpl.
    apply andb_true_iff. split.
    + apply (matches_mono (tdepth e1)); [lia|].
      apply (matches_instF b _ s1 _ x e1 (Some n1) W1 (instF_trans _ _ _ _ F2 F3) Hp1 M1).
    + apply (matches_mono (tdepth e2)); [lia|].
      apply (matches_instF b _ s2 _ x e2 (Some n2) W2 F3 Hp2 M2).
  - (* TCut *)
    destruct (inst s (Some b) x e) as [s1 a] eqn:E1. destruct (IH false s s1 a W Hp E1) as (F1 & Q1 & M1).
    destruct a as [n|]; [|destruct M1 as [-> _]; discriminate Hp].
    cbn [default] in H. nn H s2 n2. injection H as <- <-.
    assert (F2 : instF b s1 (newNode s1 (KCutoff c) [n] (Some b) 0).1).
    { apply instF_newNode; try reflexivity. unfold shape_node, arity_ok, cutalways_zero, always_lt. simpl.
      destruct c; reflexivity. }
    split; [eapply instF_trans; eauto|]. split.
    { intros Q HQ Hq b1 r1 Hne Hr Hn. rewrite binds_newNode, lookup_alter_ne in Hr by congruence.
      apply (Q1 Q HQ (proj1 (proj2 (proj2 HQ)) c e Hq) b1 r1 Hne Hr Hn). }
    cbn [tdepth]. rewrite matches_S. cbv zeta.
    rewrite nd_newNode, decide_True by reflexivity. simpl. rewrite !bool_decide_eq_true_2 by reflexivity. simpl.
    apply (matches_instF b _ s1 _ x e (Some n) (IW_instF b s s1 W F1) F2 Hp M1).
  - (* TBind *)
    apply andb_true_iff in Hp as [Hpc Hpe].
    destruct (inst s (Some b) x e) as [s1 a] eqn:E1. destruct (IH false s s1 a W Hpe E1) as (F1 & Q1 & M1).
    pose proof (IW_instF b s s1 W F1) as W1.
    destruct a as [n|]; [|destruct M1 as [-> _]; discriminate Hpe].
    cbn [default] in H.
    assert (Hbn : b <> next s1) by (pose proof (iw_b _ _ W1); lia).
    assert (Hfr : binds s1 !! (next s1) = None).
    { destruct (binds s1 !! next s1) eqn:E; [|reflexivity]. pose proof (iw_bk _ _ W1 (next s1) ltac:(eauto)). lia. }
    destruct (instF_newBind b s1 cs n Hbn Hfr) as (F2 & Esnd & Emain & Erec & Enext & Hno2).
    unfold id in H. destruct (newBind s1 cs n (Some b)) as [s2 m2] eqn:EB. cbn [fst snd] in F2, Esnd, Emain, Erec, Enext, Hno2.
    injection H as <- <-. subst m2.
    assert (Hnorec : forall r1, binds s2 !! S (next s1) = Some r1 -> False).
    { intros r1 Hr1. rewrite Hno2 in Hr1; [discriminate| |pose proof (iw_b _ _ W1); lia].
      destruct (binds s1 !! S (next s1)) eqn:E; [|reflexivity]. pose proof (iw_bk _ _ W1 (S (next s1)) ltac:(eauto)). lia. }
    split; [eapply instF_trans; eauto|]. split.
    { intros Q HQ Hq b1 r1 Hne Hr Hn. destruct (proj2 (proj2 (proj2 HQ)) cs e Hq) as [Hqc Hqe].
      destruct (if_bd _ _ _ F2 b1 Hne) as [E|[E R]].
      - rewrite E in Hr. apply (Q1 Q HQ Hqe b1 r1 Hne Hr Hn).
      - assert (b1 = next s1) as ->.
        { destruct (decide (b1 = next s1)) as [|Hx]; [assumption|exfalso].
          rewrite Enext in R. assert (b1 = S (next s1)) as -> by lia.
          apply (Hnorec r1 Hr). }
        unfold bd in Erec. rewrite Hr in Erec. cbn in Erec. rewrite Erec. exact Hqc. }
    cbn [tdepth]. rewrite matches_S. cbv zeta. rewrite Emain. cbn [nkind scope fresh_node].
    rewrite Erec. cbn [b_cases b_main b_lhs]. rewrite texps_eqb_refl, !bool_decide_eq_true_2 by reflexivity. simpl.
    apply (matches_instF b _ s1 _ x e (Some n) W1 F2 Hpe M1).
  - (* TNil *) injection H as <- <-. split; [apply instF_refl|]. split; [intros Q _ _ b1 r1 _ Hr Hn; congruence|auto].
Qed.

(** * 2. Invariant-free frames *)

(** ** adjusting heights: the queue keeps its members, nothing becomes (un)necessary *)
Record qfr (s s' : state) : Prop := {
  q_invq : invq s' = invq s;
  q_heap : forall m, inHeap s' m = inHeap s m;
  q_nec : forall m, isNecessary (nd s' m) = isNecessary (nd s m);
  q_sd : setDuring s' = setDuring s;
  q_sr : setRemoved s' = setRemoved s
}.

Lemma qfr_refl s : qfr s s. Proof. constructor; reflexivity. Qed.
Lemma qfr_trans s1 s2 s3 : qfr s1 s2 -> qfr s2 s3 -> qfr s1 s3.
Proof. intros [A1 A2 A3 A4 A5] [B1 B2 B3 B4 B5]. constructor; intros; congruence. Qed.

Lemma qfr_upd s n f :
  (forall x, forceNec (f x) = forceNec x /\ children (f x) = children x /\ observers (f x) = observers x) ->
  qfr s (upd s n f).
Proof.
  intros Hf. constructor; try reflexivity. intros m. apply isNecessary_ext.
  - apply (nd_upd_proj forceNec). intros; apply Hf.
  - apply (nd_upd_proj children). intros; apply Hf.
  - apply (nd_upd_proj observers). intros; apply Hf.
Qed.

Lemma qfr_adj s (a : adjheap) : qfr s (s <| adj := a |>).
Proof. constructor; reflexivity. Qed.

Lemma qfr_setHeight s n h s' e : setHeight s n h = Ok (s', e) -> qfr s s'.
Proof.
  intros H. apply setHeight_inv in H as [(_ & -> & _)|(_ & _ & ->)]; [apply qfr_refl|].
  destruct (h >? a_maxSeen (adj s)).
  - eapply qfr_trans; [apply qfr_adj|]. apply qfr_upd. intros x. repeat split.
  - apply qfr_upd. intros x. repeat split.
Qed.

Lemma qfr_adjAdd s n s' : adjAdd s n = Ok s' -> qfr s s'.
Proof.
  unfold adjAdd. destruct (negb _); [intros [= <-]; apply qfr_refl|].
  destruct (height (nd s n) <? 0); [discriminate|]. destruct (_ !! _); [|discriminate].
  intros [= <-]. eapply qfr_trans; [|apply qfr_adj]. apply qfr_upd. intros x. repeat split.
Qed.

Lemma qfr_adjRemoveMin s r s' : adjRemoveMin s = Ok (r, s') -> qfr s s'.
Proof.
  unfold adjRemoveMin. destruct (_ =? 0); [intros [= <- <-]; apply qfr_refl|].
  destruct (_ <? 0); [discriminate|]. destruct (adjScan _ _ _) as [[[x n] b']|]; [|intros [= <- <-]; apply qfr_refl].
  intros [= <- <-]. eapply qfr_trans; [|apply qfr_adj]. apply qfr_upd. intros y. repeat split.
Qed.

Lemma qfr_ensure s o c p s' e : ensureHeightRequirement s o c p = Ok (s', e) -> qfr s s'.
Proof.
  unfold ensureHeightRequirement. destruct (bool_decide _); [intros [-> _]%fail_inv; apply qfr_refl|].
  destruct (_ >=? _); [|intros [-> _]%ok_inv; apply qfr_refl].
  intros H. apply ebind_inv in H as (s1 & e1 & E1 & [[-> H]|(_ & -> & _)]).
  - apply lift_inv in E1 as [E1 _]. eapply qfr_trans; [eapply qfr_adjAdd; eauto|eapply qfr_setHeight; eauto].
  - unfold lift in E1. destruct (adjAdd s c) as [s2| |] eqn:Ea; simpl in E1; try discriminate.
    injection E1 as <- _. eapply qfr_adjAdd; eauto.
Qed.

Lemma qfr_efold {A} (f : state -> A -> M) l : (forall s a s' e, f s a = Ok (s', e) -> qfr s s') ->
  forall s s' e, efold f l s = Ok (s', e) -> qfr s s'.
Proof.
  intros Hf. induction l as [|a l IH]; intros s s' e H; simpl in H.
  - apply ok_inv in H as [-> _]. apply qfr_refl.
  - apply ebind_inv in H as (s1 & e1 & E1 & [[-> H]|(_ & -> & _)]).
    + eapply qfr_trans; [eapply Hf; eauto|eapply IH; eauto].
    + eapply Hf; eauto.
Qed.

Lemma qfr_adjustLoop fuel : forall s o s' e, adjustLoop fuel s o = Ok (s', e) -> qfr s s'.
Proof.
  induction fuel as [|fuel IH]; intros s o s' e H; [discriminate|]. cbn [adjustLoop] in H.
  destruct (_ <=? 0); [apply ok_inv in H as [-> _]; apply qfr_refl|].
  destruct (adjRemoveMin s) as [[r s1]| |] eqn:E1; simpl in H; try discriminate.
  pose proof (qfr_adjRemoveMin _ _ _ E1) as G1. destruct r as [p|]; [|discriminate].
  apply ebind_inv in H as (s2 & e2 & E2 & H).
  assert (G2 : qfr s1 s2).
  { unfold lift in E2. destruct (inHeap s1 p) eqn:Ep.
    - destruct (heapFix s1 p) as [s2'| |] eqn:Ef; simpl in E2; try discriminate. injection E2 as <- _.
      destruct (heapFix_mem _ _ _ Ep Ef) as [O Hm]. constructor.
      + apply (oh_invq _ _ O).
      + exact Hm.
      + intros m. rewrite (oh_nd _ _ O). reflexivity.
      + apply (oh_setDuring _ _ O).
      + apply (oh_setRemoved _ _ O).
    - simpl in E2. injection E2 as <- _. apply qfr_refl. }
  destruct H as [[-> H]|(_ & -> & _)]; [|eapply qfr_trans; eauto].
  apply ebind_inv in H as (s3 & e3 & E3 & H).
  assert (G3 : qfr s2 s3).
  { refine (qfr_efold _ _ _ _ _ _ E3). intros st c st' e' Hc. eapply qfr_ensure; eauto. }
  destruct H as [[-> H]|(_ & -> & _)]; [|eapply qfr_trans; [exact G1|eapply qfr_trans; eauto]].
  apply ebind_inv in H as (s4 & e4 & E4 & H).
  assert (G4 : qfr s3 s4).
  { destruct (nkind (nd s3 p)); try (apply ok_inv in E4 as [-> _]; apply qfr_refl).
    refine (qfr_efold _ _ _ _ _ _ E4). intros st r st' e' Hc.
    destruct (isNecessary (nd st r)); [eapply qfr_ensure; eauto|apply ok_inv in Hc as [-> _]; apply qfr_refl]. }
  eapply qfr_trans; [exact G1|]. eapply qfr_trans; [exact G2|]. eapply qfr_trans; [exact G3|].
  eapply qfr_trans; [exact G4|]. destruct H as [[-> H]|(_ & -> & _)]; [eapply IH; eauto|apply qfr_refl].
Qed.

Lemma qfr_adjustHeights fuel s oc op s' e : adjustHeights fuel s oc op = Ok (s', e) -> qfr s s'.
Proof.
  unfold adjustHeights. intros H. apply ebind_inv in H as (s1 & e1 & E1 & H).
  eapply qfr_trans; [apply qfr_adj|]. eapply qfr_trans; [eapply qfr_ensure; eauto|].
  destruct H as [[-> H]|(_ & -> & _)]; [eapply qfr_adjustLoop; eauto|apply qfr_refl].
Qed.

(** ** becoming necessary: who gets queued, and the invalidation queue stays empty when validity
       is closed under declarations *)
Lemma children_link_incl s c p m x : x ∈ children (nd s m) -> x ∈ children (nd (link s c p) m).
Proof.
  intros Hx. destruct (decide (has s p)) as [Hp|Hp].
  - rewrite children_nd_link by exact Hp. destruct (decide (m = p)); [apply elem_of_app; left|]; exact Hx.
  - unfold link. rewrite (upd_missing s p) by exact Hp. rewrite (nd_upd_proj children) by reflexivity. exact Hx.
Qed.

Lemma nec_link_mono s c p m : isNecessary (nd s m) = true -> isNecessary (nd (link s c p) m) = true.
Proof.
  unfold isNecessary. rewrite forceNec_nd_link, observers_nd_link. rewrite !orb_true_iff, !negb_true_iff, !bool_decide_eq_false.
  intros [[H|H]|H]; auto. left. right. intros E. apply H.
  destruct (children (nd s m)) as [|x l] eqn:Ec; [reflexivity|exfalso].
  assert (Hx : x ∈ children (nd (link s c p) m)) by (apply children_link_incl; rewrite Ec; left).
  rewrite E in Hx. inv Hx.
Qed.

Definition vclosed (s : state) : Prop :=
  forall m q, valid (nd s m) = true -> q ∈ decl (nd s m) -> valid (nd s q) = true.

Lemma vclosed_gfr s s' : gfr s s' -> vclosed s -> vclosed s'.
Proof.
  intros G H m q Hv Hq. destruct (g_static _ _ G m) as (_ & Ed & _ & Ev & _). destruct (g_static _ _ G q) as (_ & _ & _ & Evq & _).
  rewrite Evq. apply (H m q); congruence.
Qed.

(* the queue after [s ~> s']: only nodes that were not necessary in [s] joined it, besides [n] *)
Definition hrev (s s' : state) (n : nid) : Prop :=
  forall m, inHeap s' m = true -> inHeap s m = true \/ m = n \/ isNecessary (nd s m) = false.
Definition necmono (s s' : state) : Prop :=
  forall m, isNecessary (nd s m) = true -> isNecessary (nd s' m) = true.

Lemma BN2 fuel : forall s n s' e,
  becameNecessaryRecursive fuel s n = Ok (s', e) ->
  vclosed s -> valid (nd s n) = true -> invq s = [] ->
  invq s' = [] /\ hrev s s' n /\ necmono s s'.
Proof.
  induction fuel as [|fuel IH]; intros s n s' e H Hvc Hvn Hi; [discriminate|].
  pose proof (BN_spec _ _ _ _ _ H) as [Gall _].
  cbn [becameNecessaryRecursive] in H.
  set (s1 := addNode s n) in *.
  set (s2 := if inGraph (nd s n) then s1 else emit (EvNec n) s1) in *.
  assert (G2 : gfr s s2).
  { eapply gfr_trans; [apply gfr_addNode|]. unfold s2. destruct (inGraph (nd s n)); [apply gfr_refl|apply gfr_emit]. }
  assert (Q2 : invq s2 = [] /\ (forall m, inHeap s2 m = inHeap s m) /\ forall m, isNecessary (nd s2 m) = isNecessary (nd s m)).
  { unfold s2. destruct (inGraph (nd s n)); unfold s1.
    - split; [rewrite invq_addNode; exact Hi|]. split; [intros m; unfold inHeap; rewrite heap_addNode; reflexivity|].
      intros m. apply isNecessary_ext; [apply forceNec_nd_addNode|apply children_nd_addNode|apply observers_nd_addNode].
    - split; [change (invq (addNode s n) = []); rewrite invq_addNode; exact Hi|].
      split; [intros m; unfold inHeap; change (heap (emit (EvNec n) (addNode s n))) with (heap (addNode s n)); rewrite heap_addNode; reflexivity|].
      intros m. rewrite nd_emit. apply isNecessary_ext; [apply forceNec_nd_addNode|apply children_nd_addNode|apply observers_nd_addNode]. }
  destruct Q2 as (Hi2 & Hh2 & Hn2).
  apply ebind_inv in H as (s3 & e3 & E3 & [[-> H]|(Hne & -> & ->)]).
  2:{ pose proof (qfr_setHeight _ _ _ _ _ E3) as Q3. split; [rewrite (q_invq _ _ Q3); exact Hi2|]. split.
      - intros m Hm. rewrite (q_heap _ _ Q3), Hh2 in Hm. auto.
      - intros m Hm. rewrite (q_nec _ _ Q3), Hn2. exact Hm. }
  pose proof (qfr_setHeight _ _ _ _ _ E3) as Q3.
  assert (G3 : gfr s s3) by (eapply gfr_trans; [exact G2|eapply gfr_setHeight; eauto]).
  set (body := fun (s : state) (p : nid) => _ : M) in H.
  apply ebind_inv in H as (s4 & e4 & E4 & Hfin).
  pose (J := fun (_ : list nid) (st : state) =>
    gfr s st /\ invq st = [] /\ (forall m, inHeap st m = true -> inHeap s m = true \/ isNecessary (nd s m) = false) /\ necmono s st).
  assert (Hdecl3 : decl (nd s3 n) = decl (nd s n)) by (destruct (g_static _ _ G3 n) as (_ & -> & _); reflexivity).
  assert (HJ : J [] s4).
  { assert (HJ' : match e4 with None => (J [] s4 /\ forall p, p ∈ [] -> p ∈ decl (nd s n)) | Some _ => J [] s4 end).
    { apply (efold_inv (fun l st => J [] st /\ forall p, p ∈ l -> p ∈ decl (nd s n)) (fun st _ => J [] st) body
               (decl (nd s3 n)) s3 s4 e4); [| |exact E4].
      - split; [|intros p Hp; rewrite <- Hdecl3; exact Hp]. split; [exact G3|]. split; [rewrite (q_invq _ _ Q3); exact Hi2|]. split.
        + intros m Hm. rewrite (q_heap _ _ Q3), Hh2 in Hm. auto.
        + intros m Hm. rewrite (q_nec _ _ Q3), Hn2. exact Hm.
      - intros p l' st st1 e1 [(Gst & Ist & Hst & Nst) Hl] Hb. unfold body in Hb.
        assert (Hpd : p ∈ decl (nd s n)) by (apply Hl; left).
        assert (Hvp : valid (nd st p) = true).
        { destruct (g_static _ _ Gst p) as (_ & _ & _ & -> & _). apply (Hvc n p Hvn Hpd). }
        set (sa := link st n p) in *.
        assert (Eb : (if valid (nd sa p) then sa else sa <| invq := invq sa ++ [n] |>) = sa).
        { unfold sa. rewrite valid_nd_link, Hvp. reflexivity. }
        rewrite Eb in Hb.
        assert (Ga : gfr st sa) by apply gfr_link.
        assert (Ia : invq sa = []) by (unfold sa; rewrite invq_link; exact Ist).
        assert (Ha : forall m, inHeap sa m = inHeap st m) by (intros m; unfold inHeap, sa; rewrite heap_link; reflexivity).
        assert (Na : necmono st sa) by (intros m; apply nec_link_mono).
        assert (Step : forall sc, (forall m, inHeap sc m = true -> inHeap s m = true \/ isNecessary (nd s m) = false) ->
                  invq sc = [] -> necmono s sc -> gfr s sc ->
                  (if height (nd sc p) >=? height (nd sc n) then setHeight sc n (height (nd sc p) + 1) else ok sc) = Ok (st1, e1) ->
                  J [] st1).
        { intros sc Hh Hic Hnc Gc Hd. destruct (height (nd sc p) >=? height (nd sc n)).
          - pose proof (qfr_setHeight _ _ _ _ _ Hd) as Qd. split; [eapply gfr_trans; [exact Gc|eapply gfr_setHeight; eauto]|].
            split; [rewrite (q_invq _ _ Qd); exact Hic|]. split.
            + intros m Hm. rewrite (q_heap _ _ Qd) in Hm. auto.
            + intros m Hm. rewrite (q_nec _ _ Qd). auto.
          - apply ok_inv in Hd as [-> _]. split; [exact Gc|]. auto. }
        assert (Jst1 : J [] st1).
        { apply ebind_inv in Hb as (sc & ec & Ec & [[-> Hb]|(Hne & -> & ->)]).
          - destruct (isNecessary (nd st p)) eqn:Enp.
            + apply ok_inv in Ec as [-> _]. apply (Step sa); try assumption.
              * intros m Hm. apply Na, Nst, Hm.
              * eapply gfr_trans; eauto.
            + destruct (IH _ _ _ _ Ec (vclosed_gfr _ _ (gfr_trans _ _ _ Gst Ga) Hvc)
                          ltac:(unfold sa; rewrite valid_nd_link; exact Hvp) Ia) as (Ic & Hc & Nc).
              pose proof (BN_spec _ _ _ _ _ Ec) as [Gc _].
              apply (Step sc); try assumption.
              * intros m Hm. destruct (Hc m Hm) as [Hq|[->|Hq]].
                -- rewrite Ha in Hq. auto.
                -- right. destruct (isNecessary (nd s p)) eqn:E0; [|reflexivity]. rewrite (Nst p E0) in Enp. discriminate.
                -- right. destruct (isNecessary (nd s m)) eqn:E0; [|reflexivity]. rewrite (Na m (Nst m E0)) in Hq. discriminate.
              * intros m Hm. apply Nc, Na, Nst, Hm.
              * eapply gfr_trans; [exact Gst|]. eapply gfr_trans; eauto.
          - destruct ec as [x|]; [|congruence].
            destruct (isNecessary (nd st p)) eqn:Enp; [apply ok_inv in Ec as [_ ?]; discriminate|].
            destruct (IH _ _ _ _ Ec (vclosed_gfr _ _ (gfr_trans _ _ _ Gst Ga) Hvc)
                        ltac:(unfold sa; rewrite valid_nd_link; exact Hvp) Ia) as (Ic & Hc & Nc).
            pose proof (BN_spec _ _ _ _ _ Ec) as [Gc _].
            split; [eapply gfr_trans; [exact Gst|]; eapply gfr_trans; eauto|]. split; [exact Ic|]. split.
            + intros m Hm. destruct (Hc m Hm) as [Hq|[->|Hq]].
              * rewrite Ha in Hq. auto.
              * right. destruct (isNecessary (nd s p)) eqn:E0; [|reflexivity]. rewrite (Nst p E0) in Enp. discriminate.
              * right. destruct (isNecessary (nd s m)) eqn:E0; [|reflexivity]. rewrite (Na m (Nst m E0)) in Hq. discriminate.
            + intros m Hm. apply Nc, Na, Nst, Hm. }
        destruct e1; [exact Jst1|]. split; [exact Jst1|]. intros q Hq. apply Hl. right. exact Hq. }
    destruct e4; [exact HJ'|apply HJ']. }
  destruct HJ as (G4 & I4 & H4 & N4).
  destruct Hfin as [[-> Hfin]|(Hne & -> & ->)].
  2:{ split; [exact I4|]. split; [|exact N4]. intros m Hm. destruct (H4 m Hm); auto. }
  destruct (isStale s4 n).
  - apply lift_inv in Hfin as [Hfin ->]. unfold heapAddIfNotPresent in Hfin. destruct (inHeap s4 n) eqn:En.
    + injection Hfin as <-. split; [exact I4|]. split; [|exact N4]. intros m Hm. destruct (H4 m Hm); auto.
    + pose proof Hfin as Hadd. apply heapAdd_inv in Hfin as (w & _ & ->).
      split; [exact I4|]. split; [|exact N4]. intros m Hm.
      rewrite (heapAdd_inHeap_eq _ _ _ m Hadd) in Hm. apply orb_true_iff in Hm as [Hm|Hm].
      * apply bool_decide_eq_true in Hm. auto.
      * destruct (H4 m Hm); auto.
  - apply ok_inv in Hfin as [-> ->]. split; [exact I4|]. split; [|exact N4]. intros m Hm. destruct (H4 m Hm); auto.
Qed.

Definition hrev2 (s s' : state) (c : nid) : Prop :=
  forall m, inHeap s' m = true -> inHeap s m = true \/ m = c \/ isNecessary (nd s m) = false.

Lemma addChild2 fuel s c p s' :
  vclosed s -> valid (nd s p) = true -> invq s = [] ->
  addChild fuel s c p = Ok (s', None) ->
  gfr s s' /\ newQueued s s' /\ invq s' = [] /\ hrev2 s s' c /\
  (setDuring s' = setDuring s /\ setRemoved s' = setRemoved s).
Proof.
  intros Hvc Hvp Hi H. unfold addChild in H.
  apply ebind_inv in H as (s1 & e1 & E1 & [[-> H]|(Hne & _ & He)]); [|congruence].
  assert (A1 : gfr s s1 /\ newQueued s s1 /\ invq s1 = [] /\
               (forall m, inHeap s1 m = true -> inHeap s m = true \/ isNecessary (nd s m) = false) /\
               (setDuring s1 = setDuring s /\ setRemoved s1 = setRemoved s)).
  { unfold addChildWithoutAdjustingHeights in E1.
    set (sa := link s c p) in *.
    assert (Eb : (if valid (nd sa p) then sa else sa <| invq := invq sa ++ [c] |>) = sa).
    { unfold sa. rewrite valid_nd_link, Hvp. reflexivity. }
    rewrite Eb in E1.
    assert (Gb : gfrI s sa) by (split; [apply gfr_link|intros m; apply inGraph_nd_link]).
    assert (Ia : invq sa = []) by (unfold sa; rewrite invq_link; exact Hi).
    assert (Ha : forall m, inHeap sa m = inHeap s m) by (intros m; unfold inHeap, sa; rewrite heap_link; reflexivity).
    destruct (isNecessary (nd s p)) eqn:Enp.
    - apply ok_inv in E1 as [-> _]. split; [apply Gb|]. split; [eapply newQueued_gfrI_r; [apply newQueued_refl|exact Gb]|].
      split; [exact Ia|]. split; [intros m Hm; rewrite Ha in Hm; auto|]. split; reflexivity.
    - destruct (BN_spec _ _ _ _ _ E1) as [G Q].
      destruct (BN2 _ _ _ _ _ E1 (vclosed_gfr _ _ (proj1 Gb) Hvc) ltac:(unfold sa; rewrite valid_nd_link; exact Hvp) Ia)
        as (I1 & H1 & N1).
      split; [eapply gfr_trans; [apply Gb|exact G]|].
      split; [eapply newQueued_gfrI_l; [exact Gb|apply Q; reflexivity]|]. split; [exact I1|].
      split.
      { intros m Hm. destruct (H1 m Hm) as [Hq|[->|Hq]].
        + rewrite Ha in Hq. auto.
        + auto.
        + right. destruct (isNecessary (nd s m)) eqn:E0; [|reflexivity].
          unfold sa in Hq. rewrite (nec_link_mono s c p m E0) in Hq. discriminate. }
      destruct (BN_frame _ _ _ _ _ E1) as [BF _]. rewrite (bf_setDuring _ _ BF), (bf_setRemoved _ _ BF). split; reflexivity. }
  destruct A1 as (G1 & Q1 & I1 & H1 & SD1 & SR1).
  apply ebind_inv in H as (s2 & e2 & E2 & [[-> H]|(Hne & _ & He)]); [|congruence].
  assert (G2 : gfrI s1 s2 /\ qfr s1 s2).
  { destruct (_ >=? _); [split; [eapply gfrI_adjustHeights; eauto|eapply qfr_adjustHeights; eauto]|].
    apply ok_inv in E2 as [-> _]. split; [apply gfrI_refl|apply qfr_refl]. }
  destruct G2 as [G2 Q2].
  apply ebind_inv in H as (s3 & e3 & E3 & [[-> H]|(Hne & _ & He)]); [|congruence].
  apply lift_inv in E3 as [E3 _].
  assert (Hi2 : invq s2 = []) by (rewrite (q_invq _ _ Q2); exact I1).
  apply (propagateInvalidity_nil _ _ _ Hi2) in E3 as ->.
  assert (G12 : gfr s s2) by (eapply gfr_trans; [exact G1|apply G2]).
  assert (Q12 : newQueued s s2) by (eapply newQueued_gfrI_r; eauto).
  assert (H2 : forall m, inHeap s2 m = true -> inHeap s m = true \/ isNecessary (nd s m) = false).
  { intros m Hm. rewrite (q_heap _ _ Q2) in Hm. auto. }
  destruct (_ || _).
  - apply lift_inv in H as [H _]. destruct (heapAddIfNotPresent_mem _ _ _ H) as (O & _ & Hq).
    assert (G3 : gfrI s2 s') by (apply gfrI_only_heap; assumption).
    split; [eapply gfr_trans; [exact G12|apply G3]|]. split; [eapply newQueued_gfrI_r; eauto|].
    split; [rewrite (oh_invq _ _ O); exact Hi2|].
    split.
    { intros m Hm. unfold heapAddIfNotPresent in H. destruct (inHeap s2 c) eqn:Ec.
      + injection H as <-. destruct (H2 m Hm); auto.
      + rewrite (heapAdd_inHeap_eq _ _ _ m H) in Hm. apply orb_true_iff in Hm as [Hm|Hm].
        * apply bool_decide_eq_true in Hm. auto.
        * destruct (H2 m Hm); auto. }
    rewrite (oh_setDuring _ _ O), (oh_setRemoved _ _ O), (q_sd _ _ Q2), (q_sr _ _ Q2). auto.
  - apply ok_inv in H as [-> _]. split; [exact G12|]. split; [exact Q12|]. split; [exact Hi2|].
    split; [intros m Hm; destruct (H2 m Hm); auto|].
    rewrite (q_sd _ _ Q2), (q_sr _ _ Q2). auto.
Qed.

(** ** tearing down: the queue only loses members *)
Definition hshrink (s s' : state) : Prop := forall m, inHeap s' m = true -> inHeap s m = true.

Lemma hs_refl s : hshrink s s. Proof. intros m H; exact H. Qed.
Lemma hs_trans s1 s2 s3 : hshrink s1 s2 -> hshrink s2 s3 -> hshrink s1 s3.
Proof. intros A B m H. apply A, B, H. Qed.
Lemma hs_upd s n f : hshrink s (upd s n f). Proof. intros m H; exact H. Qed.
Lemma hs_emit s e : hshrink s (emit e s). Proof. intros m H; exact H. Qed.
Lemma hs_unlink s c p : hshrink s (unlink s c p). Proof. intros m H; exact H. Qed.

Lemma hs_removeNode s n s' : removeNode s n = Ok s' -> hshrink s s'.
Proof.
  intros H m Hm. pose proof (heap_removeNode _ _ _ H) as Hh. destruct (inHeap s n).
  - destruct Hh as (s1 & Hr & Eh). unfold inHeap in Hm. rewrite Eh in Hm. fold (inHeap s1 m) in Hm.
    rewrite (heapRemove_inHeap_eq _ _ _ m Hr) in Hm. apply andb_true_iff in Hm as [_ Hm]. exact Hm.
  - unfold inHeap in *. rewrite Hh in Hm. exact Hm.
Qed.

Lemma hs_rfold {A} (f : state -> A -> res state) l :
  (forall s a s', f s a = Ok s' -> hshrink s s') -> forall s s', rfold f l s = Ok s' -> hshrink s s'.
Proof.
  intros Hf. induction l as [|a l IH]; intros s s' H.
  - injection H as <-. apply hs_refl.
  - rewrite rfold_cons in H. destruct (f s a) as [s1| |] eqn:E1; simpl in H; try discriminate.
    eapply hs_trans; [eapply Hf; eauto|eapply IH; eauto].
Qed.

Lemma hs_removeParents fuel : forall s c s', removeParents fuel s c = Ok s' -> hshrink s s'.
Proof.
  induction fuel as [|fuel IH]; intros s c s' H; [discriminate|]. cbn [removeParents] in H.
  refine (hs_rfold _ _ _ _ _ H). clear H. intros st p st' H.
  eapply hs_trans; [apply (hs_unlink st c p)|].
  destruct (isNecessary _); [injection H as <-; apply hs_refl|].
  destruct (negb _); [injection H as <-; apply hs_refl|].
  destruct (removeParents fuel _ p) as [s1| |] eqn:E1; simpl in H; try discriminate.
  eapply hs_trans; [apply hs_emit|]. eapply hs_trans; [eapply IH; eauto|eapply hs_removeNode; eauto].
Qed.

Lemma hs_checkIfUnnecessary fuel s p s' : checkIfUnnecessary fuel s p = Ok s' -> hshrink s s'.
Proof.
  unfold checkIfUnnecessary. destruct (isNecessary _); [intros [= <-]; apply hs_refl|].
  destruct (negb _); [intros [= <-]; apply hs_refl|]. intros H.
  destruct (removeParents fuel _ p) as [s1| |] eqn:E1; simpl in H; try discriminate.
  eapply hs_trans; [apply hs_emit|]. eapply hs_trans; [eapply hs_removeParents; eauto|eapply hs_removeNode; eauto].
Qed.

(** ** tearing down only unregisters declared ancestors of where it starts *)
Definition lost (s s' : state) (z : nid) : Prop := inGraph (nd s z) = true /\ inGraph (nd s' z) = false.

Lemma sfr_decl s s' m : sfr s s' -> decl (nd s' m) = decl (nd s m).
Proof. intros F. destruct (z_static _ _ F m) as (_ & ? & _). assumption. Qed.

Lemma teardown_local fuel :
  (forall s c s', removeParents fuel s c = Ok s' -> forall z, lost s s' z -> dreach s c z) /\
  (forall s p s', checkIfUnnecessary fuel s p = Ok s' -> forall z, lost s s' z -> dreach s p z).
Proof.
  induction fuel as [|fuel [IH1 IH2]].
  - split; [intros s c s' H; discriminate|].
    intros s p s'. rewrite checkIfUnnecessary_unfold.
    destruct (isNecessary (nd s p)); [intros [= <-] z [A B]; congruence|].
    destruct (negb (inGraph (nd s p))); [intros [= <-] z [A B]; congruence|]. discriminate.
  - assert (H1 : forall s c s', removeParents (S fuel) s c = Ok s' -> forall z, lost s s' z -> dreach s c z).
    { intros s c s' H. rewrite removeParents_S in H.
      refine (proj2 (proj2 (rfold_inv (fun l st => (forall p, p ∈ l -> p ∈ decl (nd s c)) /\ sfr s st /\
                                            forall z, lost s st z -> dreach s c z) _ _ s s' _ _ H))).
      - split; [intros p Hp; exact (proj1 (elem_of_dedup_first_nil _ _) Hp)|]. split; [apply sfr_refl|].
        intros z [A B]. congruence.
      - intros p l' st st2 (Hl & F & J) Hc.
        assert (F1 : sfr st (unlink st c p)) by apply sfr_unlink.
        pose proof (sfr_checkIfUnnecessary _ _ _ _ Hc) as F2.
        split; [intros q Hq; apply Hl; right; exact Hq|]. split; [eapply sfr_trans; [exact F|eapply sfr_trans; eauto]|].
        intros z [A B]. destruct (inGraph (nd st z)) eqn:Est.
        + assert (Hl' : lost (unlink st c p) st2 z).
          { split; [|exact B]. unfold unlink. rewrite !(nd_upd_proj inGraph) by reflexivity. exact Est. }
          pose proof (IH2 _ _ _ Hc z Hl') as Hd.
          assert (Hd' : dreach s p z).
          { revert Hd. apply dreach_ext. intros m. symmetry. apply (sfr_decl s _ m). eapply sfr_trans; eauto. }
          eapply dreach_decl; [apply Hl; left|exact Hd'].
        + apply J. split; assumption. }
    split; [exact H1|].
    intros s p s'. rewrite checkIfUnnecessary_unfold.
    destruct (isNecessary (nd s p)); [intros [= <-] z [A B]; congruence|].
    destruct (negb (inGraph (nd s p))); [intros [= <-] z [A B]; congruence|].
    intros H. apply rbind_ok in H as (s1 & E & H). intros z [A B].
    rewrite (inGraph_nd_removeNode _ _ _ H) in B. destruct (decide (z = p)) as [->|Hne]; [apply dr_refl|].
    assert (Hd : dreach (emit (EvUnnec p) s) p z) by (apply (H1 _ _ _ E z); split; [exact A|exact B]).
    revert Hd. apply dreach_ext. intros m. reflexivity.
Qed.

(** ** [changeParent]: the combined frame *)
Record cfr (s s' : state) (c : nid) (oR : option nid) : Prop := {
  c_static : forall m, static5 (nd s m) (nd s' m);
  c_fields : binds s' = binds s /\ next s' = next s /\ stabNum s' = stabNum s;
  c_has : forall m, has s' m <-> has s m;
  c_st : forall m,
    (recomputedAt (nd s' m) = recomputedAt (nd s m) /\ changedAt (nd s' m) = changedAt (nd s m) /\
     (inGraph (nd s m) = true -> inGraph (nd s' m) = true)) \/
    (inGraph (nd s' m) = false /\ recomputedAt (nd s' m) = 0 /\ changedAt (nd s' m) = 0);
  c_fwd : forall m, inGraph (nd s' m) = true -> inHeap s m = true -> inHeap s' m = true;
  c_rev : forall m, inHeap s' m = true -> inHeap s m = true \/ m = c \/ isNecessary (nd s m) = false;
  c_newq : forall m, inGraph (nd s m) = false -> inGraph (nd s' m) = true ->
             recomputedAt (nd s m) = 0 -> valid (nd s m) = true -> staleK (nkind (nd s m)) = true ->
             inHeap s' m = true;
  c_lost : forall z, lost s s' z -> exists o, oR = Some o /\ dreach s o z;
  c_quiet : setDuring s = [] -> setRemoved s = [] -> setDuring s' = [] /\ setRemoved s' = []
}.

Lemma static5_of_eq x y : static_eq x y -> static5 x y.
Proof. intros (?&?&?&?&?&_). repeat split; assumption. Qed.

Lemma cfr_refl s c oR : cfr s s c oR.
Proof.
  constructor.
  - intros m. repeat split.
  - repeat split.
  - reflexivity.
  - intros m. left. auto.
  - auto.
  - auto.
  - intros m H1 H2. congruence.
  - intros z [A B]. congruence.
  - auto.
Qed.

Lemma nec_unlink s c o m : m <> o -> isNecessary (nd (unlink s c o) m) = isNecessary (nd s m).
Proof.
  intros Hm. unfold unlink. apply isNecessary_ext.
  - rewrite (nd_upd_proj forceNec) by reflexivity. rewrite (nd_upd_proj forceNec) by reflexivity. reflexivity.
  - rewrite nd_upd_ne by exact Hm. rewrite (nd_upd_proj children) by reflexivity. reflexivity.
  - rewrite (nd_upd_proj observers) by reflexivity. rewrite (nd_upd_proj observers) by reflexivity. reflexivity.
Qed.

Lemma vclosed_static s s' :
  (forall m, decl (nd s' m) = decl (nd s m) /\ valid (nd s' m) = valid (nd s m)) -> vclosed s -> vclosed s'.
Proof.
  intros Hs H m q Hv Hq. destruct (Hs m) as [Ed Ev]. destruct (Hs q) as [_ Evq]. rewrite Evq. apply (H m q); congruence.
Qed.

(* from a grow frame *)
Lemma cfr_of_gfr s s' c oR : gfr s s' -> newQueued s s' -> hrev2 s s' c ->
  (setDuring s' = setDuring s /\ setRemoved s' = setRemoved s) -> cfr s s' c oR.
Proof.
  intros G Q R [SD SR]. constructor.
  - intros m. apply static5_of_eq, (g_static _ _ G m).
  - apply (g_fields _ _ G).
  - apply (g_has _ _ G).
  - intros m. left. destruct (g_static _ _ G m) as (_&_&_&_&_&?&?). split; [assumption|]. split; [assumption|apply (g_reg _ _ G m)].
  - intros m _ Hq. apply (g_heap _ _ G m Hq).
  - exact R.
  - exact Q.
  - intros z [A B]. rewrite (g_reg _ _ G z A) in B. discriminate.
  - rewrite SD, SR. auto.
Qed.

Lemma cfr_of_sfr s s' c oR : sfr s s' -> hshrink s s' ->
  (forall z, lost s s' z -> exists o, oR = Some o /\ dreach s o z) ->
  (setDuring s = [] -> setRemoved s = [] -> setDuring s' = [] /\ setRemoved s' = []) -> cfr s s' c oR.
Proof.
  intros F S HL HQ. constructor.
  - apply (z_static _ _ F).
  - apply (z_fields _ _ F).
  - apply (z_has _ _ F).
  - intros m. destruct (z_st _ _ F m) as [(E & ? & ?)|Z]; [left|right; exact Z]. split; [assumption|]. split; [assumption|congruence].
  - apply (z_heap _ _ F).
  - intros m Hm. left. apply S, Hm.
  - intros m H1 H2. pose proof (sfr_reg _ _ m F H2). congruence.
  - exact HL.
  - exact HQ.
Qed.

Lemma changeParent2 fuel s c oR rt s' :
  vclosed s -> match rt with Some r => valid (nd s r) = true | None => True end -> invq s = [] ->
  (forall m, forceNec (nd s m) = false) ->
  changeParent fuel s c oR rt = Ok (s', None) -> cfr s s' c oR.
Proof.
  intros Hvc Hvr Hi Hforce H. unfold changeParent in H. destruct oR as [o|], rt as [r|].
  - destruct (bool_decide (o = r)); [apply ok_inv in H as [-> _]; apply cfr_refl|].
    set (u0 := unlink s c o) in *. set (u1 := upd u0 o (set forceNec (fun _ => true))) in *.
    apply ebind_inv in H as (u2 & e2 & E2 & [[-> H]|(Hne & _ & He)]); [|congruence].
    apply lift_inv in H as [H _]. set (u3 := upd u2 o (set forceNec (fun _ => false))) in *.
    assert (F01 : sfr s u1).
    { eapply sfr_trans; [apply sfr_unlink|]. apply sfr_upd. intros x. repeat split. }
    assert (Hst1 : forall m, decl (nd u1 m) = decl (nd s m) /\ valid (nd u1 m) = valid (nd s m)).
    { intros m. destruct (z_static _ _ F01 m) as (_ & ? & _ & ? & _). auto. }
    assert (Hig1 : forall m, inGraph (nd u1 m) = inGraph (nd s m)).
    { intros m. unfold u1, u0, unlink. rewrite !(nd_upd_proj inGraph) by reflexivity. reflexivity. }
    assert (Hstamp1 : forall m, recomputedAt (nd u1 m) = recomputedAt (nd s m) /\ changedAt (nd u1 m) = changedAt (nd s m)).
    { intros m. unfold u1, u0, unlink. rewrite !(nd_upd_proj recomputedAt), !(nd_upd_proj changedAt) by reflexivity. auto. }
    destruct (addChild2 fuel u1 c r u2 (vclosed_static s u1 Hst1 Hvc)
                ltac:(destruct (Hst1 r) as [_ ->]; exact Hvr) Hi E2) as (G12 & Q12 & I2 & R12 & SD12 & SR12).
    assert (F23 : sfr u2 u3) by (apply sfr_upd; intros x; repeat split).
    pose proof (sfr_checkIfUnnecessary _ _ _ _ H) as F3.
    pose proof (hs_checkIfUnnecessary _ _ _ _ H) as S3.
    assert (Hig3 : forall m, inGraph (nd u3 m) = inGraph (nd u2 m)).
    { intros m. unfold u3. rewrite (nd_upd_proj inGraph) by reflexivity. reflexivity. }
    constructor.
    + intros m. destruct (z_static _ _ F01 m) as (?&?&?&?&?), (g_static _ _ G12 m) as (?&?&?&?&?&_),
        (z_static _ _ F23 m) as (?&?&?&?&?), (z_static _ _ F3 m) as (?&?&?&?&?). unfold static5. repeat split; congruence.
    + destruct (z_fields _ _ F01) as (?&?&?), (g_fields _ _ G12) as (?&?&?), (z_fields _ _ F23) as (?&?&?), (z_fields _ _ F3) as (?&?&?).
      repeat split; congruence.
    + intros m. rewrite (z_has _ _ F3), (z_has _ _ F23), (g_has _ _ G12), (z_has _ _ F01). reflexivity.
    + intros m. destruct (z_st _ _ F3 m) as [(E1 & E2' & E3)|Z]; [|right; exact Z]. left.
      destruct (g_static _ _ G12 m) as (_&_&_&_&_&B1&B2). destruct (Hstamp1 m) as [C1 C2].
      unfold u3 in E2', E3. rewrite (nd_upd_proj recomputedAt) in E2' by reflexivity.
      rewrite (nd_upd_proj changedAt) in E3 by reflexivity.
      split; [congruence|]. split; [congruence|]. intros Hg0. rewrite E1, Hig3. apply (g_reg _ _ G12). rewrite Hig1. exact Hg0.
    + intros m Hg Hq. apply (z_heap _ _ F3 m Hg). change (inHeap u2 m = true). apply (g_heap _ _ G12 m). exact Hq.
    + intros m Hm. apply S3 in Hm. change (inHeap u2 m = true) in Hm. destruct (R12 m Hm) as [Hq|[->|Hq]]; auto.
      destruct (decide (m = o)) as [->|Hmo].
      * destruct (decide (has u0 o)) as [Ho|Ho].
        -- exfalso. unfold isNecessary in Hq. unfold u1 in Hq.
           rewrite nd_upd_eq in Hq by exact Ho. simpl in Hq. discriminate.
        -- right. right. assert (Hno : ~ has s o).
           { intros Hs. apply Ho. unfold u0, unlink. rewrite !has_upd. exact Hs. }
           rewrite (not_has_nd _ _ Hno). reflexivity.
      * right. right. unfold u1 in Hq. rewrite nd_upd_ne in Hq by exact Hmo. unfold u0 in Hq.
        rewrite (nec_unlink s c o m Hmo) in Hq. exact Hq.
    + intros m H1 H2 Hr Hv Hk.
      apply (z_heap _ _ F3 m H2). change (inHeap u2 m = true).
      assert (Hg2 : inGraph (nd u2 m) = true).
      { rewrite <- Hig3. eapply sfr_reg; eauto. }
      destruct (Hstamp1 m) as [C1 _]. destruct (z_static _ _ F01 m) as (K1 & _ & _ & V1 & _).
      apply (Q12 m); [rewrite Hig1; exact H1|exact Hg2|congruence|congruence|congruence].
    + intros z [A B]. exists o. split; [reflexivity|].
      assert (Hl3 : lost u3 s' z).
      { split; [|exact B]. rewrite Hig3. apply (g_reg _ _ G12). rewrite Hig1. exact A. }
      pose proof (proj2 (teardown_local fuel) _ _ _ H z Hl3) as Hd. revert Hd. apply dreach_ext.
      intros m. destruct (Hst1 m) as [Ed _]. destruct (g_static _ _ G12 m) as (_ & Ed2 & _).
      unfold u3. rewrite (nd_upd_proj decl) by reflexivity. congruence.
    + intros Hsd Hsr. destruct (proj2 (teardown_frame fuel) _ _ _ H) as [_ _ _ _ _ _ _ _ _ _ _ _ _ _ TD TR _].
      assert (E3d : setDuring u3 = []) by (change (setDuring u2 = []); rewrite SD12; exact Hsd).
      assert (E3r : setRemoved u3 = []) by (change (setRemoved u2 = []); rewrite SR12; exact Hsr).
      split; [|rewrite (TR E3d); exact E3r].
      destruct (setDuring s') as [|y l] eqn:Ey; [reflexivity|].
      assert (Hy : y ∈ setDuring u3) by (apply TD; left). rewrite E3d in Hy. inv Hy.
  - apply lift_inv in H as [H _].
    apply (cfr_of_sfr s s' c).
    + eapply sfr_trans; [apply sfr_unlink|eapply sfr_checkIfUnnecessary; eauto].
    + eapply hs_trans; [apply hs_unlink|eapply hs_checkIfUnnecessary; eauto].
    + intros z [A B]. exists o. split; [reflexivity|].
      assert (Hl : lost (unlink s c o) s' z).
      { split; [|exact B]. unfold unlink. rewrite !(nd_upd_proj inGraph) by reflexivity. exact A. }
      pose proof (proj2 (teardown_local fuel) _ _ _ H z Hl) as Hd. revert Hd. apply dreach_ext.
      intros m. unfold unlink. rewrite !(nd_upd_proj decl) by reflexivity. reflexivity.
    + intros Hsd Hsr. destruct (proj2 (teardown_frame fuel) _ _ _ H) as [_ _ _ _ _ _ _ _ _ _ _ _ _ _ TD TR _].
      change (setDuring (unlink s c o)) with (setDuring s) in *. change (setRemoved (unlink s c o)) with (setRemoved s) in *.
      split; [|rewrite (TR Hsd); exact Hsr].
      destruct (setDuring s') as [|y l] eqn:Ey; [reflexivity|].
      assert (Hy : y ∈ setDuring s) by (apply TD; left). rewrite Hsd in Hy. inv Hy.
  - destruct (addChild2 fuel s c r s' Hvc Hvr Hi H) as (G & Q & _ & R & SD). apply cfr_of_gfr; assumption.
  - apply ok_inv in H as [-> _]. apply cfr_refl.
Qed.

(** ** invalidation: values are kept; stamps move only on nodes that end up invalid (or were torn down) *)
Definition ivn (x x' : node) : Prop :=
  value x' = value x /\
  ((inGraph x' = inGraph x /\ recomputedAt x' = recomputedAt x /\ changedAt x' = changedAt x /\ valid x' = valid x) \/
   (valid x' = false /\ recomputedAt x' = changedAt x') \/
   (inGraph x' = false /\ recomputedAt x' = 0 /\ changedAt x' = 0 /\ valid x' = valid x)).

Record ivf (t t' : state) : Prop := {
  iv_has : forall m, has t' m <-> has t m;
  iv_nd : forall m, ivn (nd t m) (nd t' m)
}.

Lemma ivn_refl x : ivn x x.
Proof. split; [reflexivity|]. left. auto. Qed.

Lemma ivn_trans x y z : ivn x y -> ivn y z -> ivn x z.
Proof.
  intros [V1 A] [V2 B]. split; [congruence|].
  destruct B as [(B1&B2&B3&B4)|[[B B']|(B1&B2&B3&B4)]].
  - destruct A as [(A1&A2&A3&A4)|[[A A']|(A1&A2&A3&A4)]].
    + left. repeat split; congruence.
    + right. left. split; congruence.
    + right. right. repeat split; congruence.
  - right. left. split; assumption.
  - destruct A as [(A1&A2&A3&A4)|[[A A']|(A1&A2&A3&A4)]].
    + right. right. repeat split; congruence.
    + right. left. split; congruence.
    + right. right. repeat split; congruence.
Qed.

Lemma ivf_refl t : ivf t t.
Proof. split; [reflexivity|intros m; apply ivn_refl]. Qed.

Lemma ivf_trans t1 t2 t3 : ivf t1 t2 -> ivf t2 t3 -> ivf t1 t3.
Proof.
  intros [A1 A2] [B1 B2]. split.
  - intros m. rewrite B1. apply A1.
  - intros m. eapply ivn_trans; [apply A2|apply B2].
Qed.

Lemma ivf_sfr t t' : sfr t t' -> ivf t t'.
Proof.
  intros F. split; [apply (z_has _ _ F)|]. intros m. destruct (z_static _ _ F m) as (_&_&_&Ev&Eval).
  split; [exact Eval|]. destruct (z_st _ _ F m) as [(A&B&C)|(A&B&C)]; [left|right; right]; auto.
Qed.

Lemma ivf_nodes t t' : (forall m, has t' m <-> has t m) -> (forall m, ivn (nd t m) (nd t' m)) -> ivf t t'.
Proof. intros A B. split; assumption. Qed.

Lemma ivf_rfold {A} (f : state -> A -> res state) l :
  (forall s a s', f s a = Ok s' -> ivf s s') -> forall s s', rfold f l s = Ok s' -> ivf s s'.
Proof.
  intros Hf. induction l as [|a l IH]; intros s s' H.
  - injection H as <-. apply ivf_refl.
  - rewrite rfold_cons in H. destruct (f s a) as [s1| |] eqn:E1; simpl in H; try discriminate.
    eapply ivf_trans; [eapply Hf; eauto|eapply IH; eauto].
Qed.

Lemma invalidateNode_ivf fuel : forall s n s', invalidateNode fuel s n = Ok s' -> ivf s s'.
Proof.
  induction fuel as [|fuel IH]; intros s n s' H; [discriminate|]. cbn [invalidateNode] in H.
  destruct (negb (valid (nd s n))) eqn:Ev; [injection H as <-; apply ivf_refl|]. apply negb_false_iff in Ev.
  set (s1 := emit (EvInval n) s) in *.
  set (s2 := upd s1 n (fun x => x <| changedAt := stabNum s1 |> <| recomputedAt := stabNum s1 |>)) in *.
  apply rbind_ok in H as (s3 & E3 & H). apply rbind_ok in H as (s4 & E4 & H).
  set (s5 := upd s4 n (set valid (fun _ => false))) in *.
  set (s6 := s5 <| invq := invq s5 ++ children (nd s5 n) |>) in *.
  assert (F23 : ivf s2 s3).
  { destruct (isNecessary (nd s2 n)); [|injection E3 as <-; apply ivf_refl].
    apply rbind_ok in E3 as (sr & Er & [= <-]).
    eapply ivf_trans; [apply ivf_sfr; eapply sfr_removeParents; eauto|].
    apply ivf_sfr. apply sfr_upd. intros x. repeat split. }
  assert (F34 : ivf s3 s4).
  { destruct (nkind (nd s3 n)); try (injection E4 as <-; apply ivf_refl).
    refine (ivf_rfold _ _ _ _ _ E4). intros st a st' Ha. eapply IH; eauto. }
  assert (F24 : ivf s2 s4) by (eapply ivf_trans; eauto).
  assert (Hnd6 : forall m, nd s6 m = nd s5 m) by reflexivity.
  assert (Hfin : forall m, nd s' m = nd s6 m /\ (has s' m <-> has s6 m)).
  { intros m. destruct (inHeap s6 n).
    - apply heapRemove_inv in H as (w & _ & ->). split; reflexivity.
    - injection H as <-. split; reflexivity. }
  assert (Hhas2 : forall m, has s2 m <-> has s m) by (intros m; unfold s2; rewrite has_upd; reflexivity).
  assert (Hhas5 : forall m, has s5 m <-> has s4 m) by (intros m; unfold s5; rewrite has_upd; reflexivity).
  split.
  - intros m. rewrite (proj2 (Hfin m)). change (has s6 m) with (has s5 m). rewrite Hhas5, (iv_has _ _ F24), Hhas2. reflexivity.
  - intros m. rewrite (proj1 (Hfin m)), Hnd6.
    destruct (decide (m = n)) as [->|Hne].
    + destruct (decide (has s n)) as [Hn|Hn].
      * assert (Hn4 : has s4 n) by (apply (iv_has _ _ F24), Hhas2, Hn).
        unfold s5. rewrite nd_upd_eq by exact Hn4. destruct (iv_nd _ _ F24 n) as [Ev4 St4].
        assert (E2 : nd s2 n = nd s1 n <| changedAt := stabNum s1 |> <| recomputedAt := stabNum s1 |>)
          by (unfold s2; apply nd_upd_eq; exact Hn).
        split; [cbn; rewrite Ev4, E2; reflexivity|]. right. left. split; [reflexivity|]. cbn.
        rewrite E2 in St4. cbn in St4.
        destruct St4 as [(_&A2&A3&_)|[[_ A]|(_&A2&A3&_)]]; congruence.
      * assert (Hn4 : ~ has s4 n) by (intros X; apply Hn, Hhas2, (iv_has _ _ F24), X).
        unfold s5. rewrite (upd_missing s4 n) by exact Hn4. rewrite (not_has_nd s4 n Hn4), (not_has_nd s n Hn). apply ivn_refl.
    + unfold s5. rewrite nd_upd_ne by exact Hne. 
      assert (E2 : nd s2 m = nd s m) by (unfold s2; rewrite nd_upd_ne by exact Hne; reflexivity).
      rewrite <- E2. apply (iv_nd _ _ F24 m).
Qed.

Lemma invalidate_all_ivf fuel l : forall s s', rfold (invalidateNode fuel) l s = Ok s' -> ivf s s'.
Proof. apply ivf_rfold. intros s a s'. apply invalidateNode_ivf. Qed.

(** ** the log: the structural operations of a bind step append only events that are not
       invocations or cutoff verdicts *)
Definition quiet (e : event) : Prop := ev_node e = None.
Definition LQ (s s' : state) : Prop := exists l, log s' = l ++ log s /\ Forall quiet l.

Lemma LQ_eq s s' : log s' = log s -> LQ s s'.
Proof. intros E. exists []. split; [exact E|constructor]. Qed.
Lemma LQ_refl s : LQ s s. Proof. apply LQ_eq. reflexivity. Qed.
Lemma LQ_trans s1 s2 s3 : LQ s1 s2 -> LQ s2 s3 -> LQ s1 s3.
Proof.
  intros (l1 & E1 & F1) (l2 & E2 & F2). exists (l2 ++ l1). split; [rewrite E2, E1, app_assoc; reflexivity|].
  apply Forall_app. auto.
Qed.
Lemma LQ_emit s e : quiet e -> LQ s (emit e s).
Proof. intros Q. exists [e]. split; [apply log_emit|]. constructor; [exact Q|constructor]. Qed.
Lemma LQ_of (P : event -> Prop) s s' :
  (exists l, log s' = l ++ log s /\ Forall P l) -> (forall e, P e -> quiet e) -> LQ s s'.
Proof. intros (l & E & F) HP. exists l. split; [exact E|]. eapply List.Forall_impl; [|exact F]. exact HP. Qed.
Lemma LQ_td s s' : td_frame s s' -> LQ s s'.
Proof. intros F. apply (LQ_of _ _ _ (tf_log _ _ F)). intros e [n ->]. reflexivity. Qed.
Lemma LQ_bn s s' : bn_frame s s' -> LQ s s'.
Proof. intros F. apply (LQ_of _ _ _ (bf_log _ _ F)). intros e [n ->]. reflexivity. Qed.
Lemma LQ_oh s s' : only_heap s s' -> LQ s s'.
Proof. intros O. apply LQ_eq, (oh_log _ _ O). Qed.

Lemma LQ_rfold {A} (f : state -> A -> res state) l :
  (forall s a s', f s a = Ok s' -> LQ s s') -> forall s s', rfold f l s = Ok s' -> LQ s s'.
Proof.
  intros Hf. induction l as [|a l IH]; intros s s' H.
  - injection H as <-. apply LQ_refl.
  - rewrite rfold_cons in H. destruct (f s a) as [s1| |] eqn:E1; simpl in H; try discriminate.
    eapply LQ_trans; [eapply Hf; eauto|eapply IH; eauto].
Qed.

Lemma LQ_efold {A} (f : state -> A -> M) l : (forall s a s' e, f s a = Ok (s', e) -> LQ s s') ->
  forall s s' e, efold f l s = Ok (s', e) -> LQ s s'.
Proof.
  intros Hf. induction l as [|a l IH]; intros s s' e H; simpl in H.
  - apply ok_inv in H as [-> _]. apply LQ_refl.
  - apply ebind_inv in H as (s1 & e1 & E1 & [[-> H]|(_ & -> & _)]).
    + eapply LQ_trans; [eapply Hf; eauto|eapply IH; eauto].
    + eapply Hf; eauto.
Qed.

Lemma LQ_setHeight s n h s' e : setHeight s n h = Ok (s', e) -> LQ s s'.
Proof.
  intros H. apply setHeight_inv in H as [(_ & -> & _)|(_ & _ & ->)]; [apply LQ_refl|].
  apply LQ_eq. destruct (h >? a_maxSeen (adj s)); reflexivity.
Qed.

Lemma LQ_adjAdd s n s' : adjAdd s n = Ok s' -> LQ s s'.
Proof.
  unfold adjAdd. destruct (negb _); [intros [= <-]; apply LQ_refl|].
  destruct (height (nd s n) <? 0); [discriminate|]. destruct (_ !! _); [|discriminate].
  intros [= <-]. apply LQ_eq. reflexivity.
Qed.

Lemma LQ_adjRemoveMin s r s' : adjRemoveMin s = Ok (r, s') -> LQ s s'.
Proof.
  unfold adjRemoveMin. destruct (_ =? 0); [intros [= <- <-]; apply LQ_refl|].
  destruct (_ <? 0); [discriminate|]. destruct (adjScan _ _ _) as [[[x n] b']|]; [|intros [= <- <-]; apply LQ_refl].
  intros [= <- <-]. apply LQ_eq. reflexivity.
Qed.

Lemma LQ_ensure s o c p s' e : ensureHeightRequirement s o c p = Ok (s', e) -> LQ s s'.
Proof.
  unfold ensureHeightRequirement. destruct (bool_decide _); [intros [-> _]%fail_inv; apply LQ_refl|].
  destruct (_ >=? _); [|intros [-> _]%ok_inv; apply LQ_refl].
  intros H. apply ebind_inv in H as (s1 & e1 & E1 & [[-> H]|(_ & -> & _)]).
  - apply lift_inv in E1 as [E1 _]. eapply LQ_trans; [eapply LQ_adjAdd; eauto|eapply LQ_setHeight; eauto].
  - unfold lift in E1. destruct (adjAdd s c) as [s2| |] eqn:Ea; simpl in E1; try discriminate.
    injection E1 as <- _. eapply LQ_adjAdd; eauto.
Qed.

Lemma LQ_adjustLoop fuel : forall s o s' e, adjustLoop fuel s o = Ok (s', e) -> LQ s s'.
Proof.
  induction fuel as [|fuel IH]; intros s o s' e H; [discriminate|]. cbn [adjustLoop] in H.
  destruct (_ <=? 0); [apply ok_inv in H as [-> _]; apply LQ_refl|].
  destruct (adjRemoveMin s) as [[r s1]| |] eqn:E1; simpl in H; try discriminate.
  pose proof (LQ_adjRemoveMin _ _ _ E1) as G1. destruct r as [p|]; [|discriminate].
  apply ebind_inv in H as (s2 & e2 & E2 & H).
  assert (G2 : LQ s1 s2).
  { unfold lift in E2. destruct (inHeap s1 p) eqn:Ep.
    - destruct (heapFix s1 p) as [s2'| |] eqn:Ef; simpl in E2; try discriminate. injection E2 as <- _.
      destruct (heapFix_mem _ _ _ Ep Ef) as [O Hm]. apply LQ_oh, O.
    - simpl in E2. injection E2 as <- _. apply LQ_refl. }
  destruct H as [[-> H]|(_ & -> & _)]; [|eapply LQ_trans; eauto].
  apply ebind_inv in H as (s3 & e3 & E3 & H).
  assert (G3 : LQ s2 s3).
  { refine (LQ_efold _ _ _ _ _ _ E3). intros st c st' e' Hc. eapply LQ_ensure; eauto. }
  destruct H as [[-> H]|(_ & -> & _)]; [|eapply LQ_trans; [exact G1|eapply LQ_trans; eauto]].
  apply ebind_inv in H as (s4 & e4 & E4 & H).
  assert (G4 : LQ s3 s4).
  { destruct (nkind (nd s3 p)); try (apply ok_inv in E4 as [-> _]; apply LQ_refl).
    refine (LQ_efold _ _ _ _ _ _ E4). intros st r st' e' Hc.
    destruct (isNecessary (nd st r)); [eapply LQ_ensure; eauto|apply ok_inv in Hc as [-> _]; apply LQ_refl]. }
  eapply LQ_trans; [exact G1|]. eapply LQ_trans; [exact G2|]. eapply LQ_trans; [exact G3|].
  eapply LQ_trans; [exact G4|]. destruct H as [[-> H]|(_ & -> & _)]; [eapply IH; eauto|apply LQ_refl].
Qed.

Lemma LQ_adjustHeights fuel s oc op s' e : adjustHeights fuel s oc op = Ok (s', e) -> LQ s s'.
Proof.
  unfold adjustHeights. intros H. apply ebind_inv in H as (s1 & e1 & E1 & H).
  pose proof (LQ_ensure _ _ _ _ _ _ E1) as G1.
  assert (G0 : LQ s s1) by (eapply LQ_trans; [|exact G1]; apply LQ_eq; reflexivity).
  destruct H as [[-> H]|(_ & -> & _)]; [eapply LQ_trans; [exact G0|eapply LQ_adjustLoop; eauto]|exact G0].
Qed.

Lemma LQ_heapAddIfNotPresent s n s' : heapAddIfNotPresent s n = Ok s' -> LQ s s'.
Proof. intros H. apply LQ_oh, (only_heap_heapAddIfNotPresent _ _ _ H). Qed.

Lemma LQ_invalidateNode fuel : forall s n s', invalidateNode fuel s n = Ok s' -> LQ s s'.
Proof.
  induction fuel as [|fuel IH]; intros s n s' H; [discriminate|]. cbn [invalidateNode] in H.
  destruct (negb (valid (nd s n))); [injection H as <-; apply LQ_refl|].
  set (sa := upd (emit (EvInval n) s) n _) in H.
  assert (Ga : LQ s sa) by (eapply LQ_trans; [apply (LQ_emit s (EvInval n)); reflexivity|apply LQ_eq; reflexivity]).
  apply rbind_ok in H as (sb & Eb & H).
  assert (Gb : LQ sa sb).
  { destruct (isNecessary (nd sa n)); [|injection Eb as <-; apply LQ_refl].
    apply rbind_ok in Eb as (sb' & Eb' & Eb). injection Eb as <-.
    eapply LQ_trans; [apply LQ_td, (proj1 (teardown_frame fuel) _ _ _ Eb')|apply LQ_eq; reflexivity]. }
  apply rbind_ok in H as (sc & Ec & H).
  assert (Gc : LQ sb sc).
  { destruct (nkind (nd sb n)); try (injection Ec as <-; apply LQ_refl).
    refine (LQ_rfold _ _ _ _ _ Ec). intros st a st' Ha. eapply IH; eauto. }
  eapply LQ_trans; [exact Ga|]. eapply LQ_trans; [exact Gb|]. eapply LQ_trans; [exact Gc|].
  match type of H with (if ?c then _ else _) = _ => destruct c end.
  - apply heapRemove_inv in H as (w & _ & ->). apply LQ_eq. reflexivity.
  - injection H as <-. apply LQ_eq. reflexivity.
Qed.

Lemma LQ_propagateInvalidity fuel : forall s s', propagateInvalidity fuel s = Ok s' -> LQ s s'.
Proof.
  induction fuel as [|fuel IH]; intros s s' H; [discriminate|]. cbn [propagateInvalidity] in H.
  destruct (invq s) as [|n q] eqn:Eq; [injection H as <-; apply LQ_refl|].
  apply rbind_ok in H as (s1 & E1 & H).
  eapply LQ_trans; [|eapply IH; eauto].
  eapply LQ_trans; [apply (LQ_eq s (s <| invq := q |>)); reflexivity|].
  destruct (valid _); [|injection E1 as <-; apply LQ_refl].
  destruct (shouldBeInvalidated _ _); [eapply LQ_invalidateNode; eauto|eapply LQ_heapAddIfNotPresent; eauto].
Qed.

Lemma LQ_addChild fuel s c p s' e : addChild fuel s c p = Ok (s', e) -> LQ s s'.
Proof.
  unfold addChild. intros H.
  apply ebind_inv in H as (s1 & e1 & E1 & H).
  assert (G1 : LQ s s1).
  { unfold addChildWithoutAdjustingHeights in E1.
    set (sa := link s c p) in *. set (sb := if valid (nd sa p) then sa else _) in *.
    assert (Gb : LQ s sb) by (apply LQ_eq; unfold sb; destruct (valid (nd sa p)); reflexivity).
    destruct (isNecessary (nd s p)); [apply ok_inv in E1 as [-> _]; exact Gb|].
    eapply LQ_trans; [exact Gb|]. apply LQ_bn, (proj1 (BN_frame _ _ _ _ _ E1)). }
  destruct H as [[-> H]|(_ & -> & _)]; [|exact G1].
  apply ebind_inv in H as (s2 & e2 & E2 & H).
  assert (G2 : LQ s1 s2).
  { destruct (_ >=? _); [eapply LQ_adjustHeights; eauto|apply ok_inv in E2 as [-> _]; apply LQ_refl]. }
  destruct H as [[-> H]|(_ & -> & _)]; [|eapply LQ_trans; eauto].
  apply ebind_inv in H as (s3 & e3 & E3 & H).
  assert (G3 : LQ s2 s3).
  { unfold lift in E3. destruct (propagateInvalidity fuel s2) as [s3'| |] eqn:Ep; simpl in E3; try discriminate.
    injection E3 as <- _. eapply LQ_propagateInvalidity; eauto. }
  eapply LQ_trans; [exact G1|]. eapply LQ_trans; [exact G2|].
  destruct H as [[-> H]|(_ & -> & _)]; [|exact G3].
  eapply LQ_trans; [exact G3|].
  destruct (_ || _).
  - apply lift_inv in H as [H _]. eapply LQ_heapAddIfNotPresent; eauto.
  - apply ok_inv in H as [-> _]. apply LQ_refl.
Qed.

Lemma LQ_checkIfUnnecessary fuel s p s' : checkIfUnnecessary fuel s p = Ok s' -> LQ s s'.
Proof. intros H. apply LQ_td, (proj2 (teardown_frame fuel) _ _ _ H). Qed.

Lemma LQ_changeParent fuel s c o n s' e : changeParent fuel s c o n = Ok (s', e) -> LQ s s'.
Proof.
  unfold changeParent. destruct o as [o|], n as [n|].
  - destruct (bool_decide (o = n)); [intros [-> _]%ok_inv; apply LQ_refl|]. intros H.
    apply ebind_inv in H as (s1 & e1 & E1 & H).
    assert (G1 : LQ s s1) by (eapply LQ_trans; [|eapply LQ_addChild; eauto]; apply LQ_eq; reflexivity).
    destruct H as [[-> H]|(_ & -> & _)]; [|exact G1].
    eapply LQ_trans; [exact G1|]. apply lift_inv in H as [H _].
    eapply LQ_trans; [|exact (LQ_checkIfUnnecessary _ _ _ _ H)]. apply LQ_eq. reflexivity.
  - intros H. apply lift_inv in H as [H _]. eapply LQ_trans; [|exact (LQ_checkIfUnnecessary _ _ _ _ H)]. apply LQ_eq. reflexivity.
  - intros H. eapply LQ_addChild; eauto.
  - intros [-> _]%ok_inv. apply LQ_refl.
Qed.

(** * 3. The stages of [bindLhsStabilize] (the structural facts: EngineInvProofs) *)
Definition s6_of (b : nat) (x : Z) (s3 : state) (root : option nid) : state :=
  updb (updb (emit (EvBindFn b x root) s3) b
         (fun r => r <| b_gen := S (b_gen r) |> <| b_cache := if b_memo r then b_cache r ++ [(x, root)] else b_cache r |>))
       b (set b_rhs (fun _ => root)).
Definition s7_of (b : nat) (x : Z) (s3 : state) (root : option nid) : state :=
  upd (s6_of b x s3 root) (S b) (set decl (fun _ => b :: option_list root)).

Lemma bind_stages fuel s b s' :
  PInv s -> nkind (nd s b) = KBindLhs b -> inGraph (nd s b) = true ->
  bindLhsStabilize fuel [] s b = Ok (s', None) ->
  let r0 := bd s b in
  let s1 := updb s b (set b_rhsNodes (fun _ : list nid => [])) in
  let x := valueOf s1 (b_lhs r0) in
  exists s3 root t8,
    inst s1 (Some b) x (select (b_cases r0) x) = (s3, root) /\
    fn_post [] s b x s3 root /\
    changeParent fuel (s7_of b x s3 root) (S b) (b_rhs r0) root = Ok (t8, None) /\
    TInv [] noE t8 /\ cp_frame (s7_of b x s3 root) t8 /\
    (match b_rhs r0 with Some _ => rfold (invalidateNode fuel) (b_rhsNodes r0) t8 | None => Ok t8 end) = Ok s' /\
    iv_same t8 s' /\
    (forall m, valid (nd s' m) = valid (nd t8 m) \/ (valid (nd s' m) = false /\ inGraph (nd t8 m) = false)) /\
    PInv s'.
Proof.
  intros P Hk Hg H. assert (Hp : plan_ok s [] = true) by reflexivity.
  pose proof (p_kinds s P b (has_inGraph s b Hg)) as K. rewrite Hk in K. destruct K as [_ [r0 Hr0]].
  pose proof (p_binds s P b r0 Hr0) as W0.
  assert (Hbd : bd s b = r0) by (unfold bd; rewrite Hr0; reflexivity).
  cbv zeta. unfold bindLhsStabilize in H. rewrite Hbd in *. rewrite (bw_memo _ _ _ W0), (bw_main _ _ _ W0) in H.
  cbv zeta in H. cbv iota in H.
  set (f1 := set b_rhsNodes (fun _ : list nid => [])) in *.
  set (s1 := updb s b f1) in *.
  apply rbind_ok in H as ([[sx ex] built] & H1 & H).
  apply rbind_ok in H1 as ([s2 e1] & Hinv & H1).
  assert (Es2 : s2 = s1 /\ e1 = None) by (cbn in Hinv; injection Hinv as <- <-; auto).
  destruct Es2 as [-> ->].
  set (x := valueOf s1 (b_lhs r0)) in *.
  set (case := nth (Z.to_nat (x mod Z.of_nat (length (b_cases r0)))) (b_cases r0) TNil) in *.
  destruct (inst s1 (Some b) x case) as [s3 root] eqn:Hinst.
  injection H1 as <- <- <-.
  assert (Hinst' : inst s1 (Some b) x (nth (Z.to_nat (x mod Z.of_nat (length (b_cases (bd s b))))) (b_cases (bd s b)) TNil) = (s3, root))
    by (rewrite Hbd; exact Hinst).
  pose proof (run_fn_post [] s b P Hp Hk Hg s1 Hinv x s3 root Hinst') as FP. pose proof FP as FP0.
  exists s3, root.
  destruct FP as [T6 R7 Hvc7 Hforce Hrhs Hdecl6 Hroot Hnew Hold Holdnd Hhas6 Hsreg6 Hmain [Hgb6 Hkb6] Holdne Hpair1 Hpair2 Hplan7 Hstab7].
  rewrite Hbd in *.
  set (s6 := updb (updb (emit (EvBindFn b x root) s3) b
               (fun r => r <| b_gen := S (b_gen r) |> <| b_cache := if b_memo r then b_cache r ++ [(x, root)] else b_cache r |>))
               b (set b_rhs (fun _ => root))) in *.
  set (oldNodes := b_rhsNodes r0) in *. set (oldRhs := b_rhs r0) in *.
  set (D := fun n : nid => n ∈ oldNodes).
  assert (HDdec : forall n, D n \/ ~ D n) by (intros n; unfold D; destruct (decide (n ∈ oldNodes)); auto).
  assert (Hs7 : upd s6 (S b) (set decl (fun _ => match root with Some r => [b; r] | None => [b] end)) =
                upd s6 (S b) (set decl (fun _ => b :: option_list root))) by (destruct root; reflexivity).
  rewrite Hs7 in *.
  set (s7 := upd s6 (S b) (set decl (fun _ => b :: option_list root))) in *.
  assert (Hfield7 : forall {A} (g : node -> A), (forall y f, g (set decl f y) = g y) -> forall m, g (nd s7 m) = g (nd s6 m)).
  { intros A g Hg' m. unfold s7. apply nd_upd_proj. intros y. apply Hg'. }
  assert (Hvb6 : valid (nd s6 b) = true) by (apply (t_valid _ _ _ T6), Hgb6).
  assert (Hroot' : match root with
                   | Some r => has s6 r /\ r <> b /\ valid (nd s6 r) = true /\
                               (forall b', scope (nd s6 r) = Some b' -> b' = b)
                   | None => True end).
  { destruct root as [r|]; [|exact Logic.I]. destruct Hroot as (H1 & H2 & H3).
    split; [exact H1|]. split; [intros ->; unfold not_lhs in H2; rewrite Hkb6 in H2; exact H2|].
    split.
    - rewrite <- (Hfield7 _ valid) by reflexivity. destruct H3 as [E|[E G]].
      + apply (m_vtop _ _ R7). rewrite (Hfield7 _ scope) by reflexivity. exact E.
      + rewrite (m_vgen _ _ R7 r b G). rewrite (Hfield7 _ valid) by reflexivity. exact Hvb6.
    - intros b' Hs. destruct H3 as [E|[E _]]; congruence. }
  apply ebind_inv in H as (t8 & e2 & Hcp & Hrest).
  pose proof (changeParent_spec D s6 b oldRhs root T6 Hsreg6 R7 Hvc7 Hforce Hdecl6 Hgb6 Hmain Hroot'
                ltac:(destruct oldRhs; [exact Holdne|exact Logic.I])
                ltac:(intros n Hn; apply (Hold n Hn)) HDdec fuel oldRhs root t8 e2 eq_refl eq_refl Hcp) as CP.
  destruct e2 as [x2|].
  { destruct Hrest as [[? _]|(_ & _ & ?)]; discriminate. }
  destruct Hrest as [[_ H]|(Hne & _)]; [|congruence].
  destruct CP as (T8 & R8 & Hf8 & F8).
  apply ebind_inv in H as (t9 & e3 & Hiv & Hrest).
  apply lift_inv in Hiv as [Hiv ->]. destruct Hrest as [[_ H]|(Hne & _)]; [|congruence].
  apply lift_inv in H as [H _].
  assert (Hsc8 : forall m, scope (nd t8 m) = scope (nd s6 m)).
  { intros m. destruct (cpf_node _ _ F8 m) as (_&_&->&_). apply Hfield7. reflexivity. }
  assert (Hv8 : forall m, valid (nd t8 m) = valid (nd s6 m)).
  { intros m. destruct (cpf_node _ _ F8 m) as (_&_&_&->). apply Hfield7. reflexivity. }
  assert (Hk8 : forall m, nkind (nd t8 m) = nkind (nd s6 m)).
  { intros m. destruct (cpf_node _ _ F8 m) as (->&_). apply Hfield7. reflexivity. }
  assert (P9 : PInv t9 /\ iv_same t8 t9 /\
               forall m, valid (nd t9 m) = valid (nd t8 m) \/ (valid (nd t9 m) = false /\ inGraph (nd t8 m) = false)).
  { destruct oldRhs as [o|] eqn:Eo.
    - assert (HD : forall n, D n -> scope (nd t8 n) = Some b /\ ~ inGen t8 b n).
      { intros n Hn. destruct (Hold n Hn) as (Hhn & Hsn & _). split; [rewrite Hsc8; exact Hsn|].
        unfold inGen, bd. rewrite (cpf_binds _ _ F8). intros Hg8. apply (Hnew n Hg8 Hhn). }
      assert (HDp1 : forall b1, D (S b1) -> nkind (nd t8 (S b1)) = KBindMain b1 -> D b1).
      { intros b1 Hd1. rewrite Hk8. apply Hpair1, Hd1. }
      assert (HDp2 : forall b1, D b1 -> nkind (nd t8 b1) = KBindLhs b1 -> D (S b1)).
      { intros b1 Hd1. rewrite Hk8. apply Hpair2, Hd1. }
      assert (HDv : forall n, D n -> valid (nd t8 n) = true).
      { intros n Hn. rewrite Hv8. apply (Hold n Hn). }
      pose proof (JI_start D t8 T8 R8 HDdec HDp2 HDv) as J8.
      pose proof (inval_all D b t8 T8 R8 Hf8 HD HDdec HDp1 fuel) as IS.
      destruct (inval_loop D t8 fuel IS oldNodes [] t8 t9 J8) as (J9 & Hall & _); [|exact Hiv|].
      { intros m Hm. split; [apply dm_old; exact Hm|intros q Hq; inversion Hq]. }
      split; [apply (inval_PInv D b t8 T8 R8 Hf8 HD HDdec HDp2 t9 J9 Hall)|].
      split; [apply (j_same _ _ _ _ J9)|].
      intros m. destruct (j_valid _ _ _ _ J9 m) as [E|[E Hd]]; [left; exact E|right]. split; [exact E|].
      apply (doomed_unreg D b t8 T8 R8 Hf8 HD HDdec m Hd).
    - injection Hiv as <-. split; [|split; [apply iv_same_refl|intros m; left; reflexivity]].
      apply PInv_join; [exact T8| |exact Hf8].
      apply (RestM_impl D noD t8); [|exact R8]. intros n Hn. unfold D in Hn. rewrite Holdne in Hn. inversion Hn. }
  destruct P9 as (P9 & Hsame & Hval9).
  apply propagateInvalidity_nil_inv in H; [|apply (pq_invq t9 (p_pq t9 P9))]. subst s'.
  exists t8. split; [exact Hinst|]. split; [exact FP0|].
  split; [exact Hcp|]. split; [exact T8|]. split; [exact F8|]. split; [exact Hiv|]. split; [exact Hsame|]. split; [exact Hval9|exact P9].
Qed.

(** * 4. [LInvC] after the recompute of a lhs-change node *)
Definition Tplain (s : state) : Prop :=
  forall b r, binds s !! b = Some r -> forallb (tplain true) (b_cases r) = true.

(* every hereditary property of all case tables is kept: the new records' tables are sub-tables of
   instantiated templates *)
Definition AllQ (Q : texp -> bool) (s : state) : Prop :=
  forall b r, binds s !! b = Some r -> forallb Q (b_cases r) = true.
Definition CF (s s' : state) : Prop := forall Q, subclosed Q -> AllQ Q s -> AllQ Q s'.

Lemma CF_binds s s' : binds s' = binds s -> CF s s'.
Proof. intros E Q _ H b r Hr. rewrite E in Hr. apply (H b r Hr). Qed.

Lemma CF_trans s1 s2 s3 : CF s1 s2 -> CF s2 s3 -> CF s1 s3.
Proof. intros A B Q HQ H. apply (B Q HQ), (A Q HQ), H. Qed.

Lemma Tplain_CF s s' : CF s s' -> Tplain s -> Tplain s'.
Proof. intros C T. apply (C (tplain true) subclosed_tplain T). Qed.

Lemma select_tplain cases x : forallb (tplain true) cases = true -> tplain true (select cases x) = true.
Proof.
  intros H. unfold select. destruct (nth_in_or_default (Z.to_nat (x mod Z.of_nat (length cases))) cases TNil) as [Hin| ->]; [|reflexivity].
  rewrite forallb_forall in H. apply H, Hin.
Qed.

(* the recompute of a lhs-change node is: stamp, [bindLhsStabilize], the tail *)
Lemma rns_lhs fuel s b s' imm :
  nkind (nd s b) = KBindLhs b ->
  recomputeNodeSerial fuel [] s b = Ok (s', None, imm) ->
  exists u, bindLhsStabilize fuel [] (upd s b (set recomputedAt (fun _ => stabNum s))) b = Ok (u, None) /\
            tailR u b = Ok (s', None, imm).
Proof.
  intros Hk H. rewrite rns_unfold in H. cbv zeta in H. rewrite Hk in H.
  set (s1 := upd s b (set recomputedAt (fun _ => stabNum s))) in *.
  assert (Es : stabilizeNode fuel [] s1 b = bindLhsStabilize fuel [] s1 b).
  { unfold stabilizeNode. cbv zeta. unfold s1. rewrite (nd_upd_proj nkind) by reflexivity. rewrite Hk. reflexivity. }
  rewrite Es in H. destruct (bindLhsStabilize fuel [] s1 b) as [[u e]| |]; simpl in H; try discriminate.
  destruct e as [e|].
  - exfalso. destruct e; try (destruct (recomputeFailed u b (recomputedAt (nd s b))); simpl in H; discriminate); discriminate.
  - exists u. auto.
Qed.

Lemma valueOf_updb s b f p : valueOf (updb s b f) p = valueOf s p.
Proof. apply valueOf_ext. intros n. rewrite nd_updb. auto. Qed.

Lemma s7_eq b x s3 root :
  upd (s6_of b x s3 root) (S b) (set decl (fun _ => match root with Some r => [b; r] | None => [b] end)) = s7_of b x s3 root.
Proof. unfold s7_of. destruct root; reflexivity. Qed.

Lemma rhsNodes_s7 b x s3 root : b_rhsNodes (bd (s7_of b x s3 root) b) = b_rhsNodes (bd s3 b).
Proof.
  unfold s7_of, s6_of, bd, upd, updb, emit. cbn. rewrite !lookup_alter. destruct (binds s3 !! b); reflexivity.
Qed.

Lemma bd_s7 b x s3 root : is_Some (binds s3 !! b) ->
  b_lhs (bd (s7_of b x s3 root) b) = b_lhs (bd s3 b) /\ b_cases (bd (s7_of b x s3 root) b) = b_cases (bd s3 b) /\
  b_rhs (bd (s7_of b x s3 root) b) = root.
Proof.
  intros [r E]. unfold s7_of, s6_of, bd, upd, updb, emit. cbn. rewrite !lookup_alter, E. cbn. auto.
Qed.

Lemma bd_s7_main b x s3 root : b_main (bd (s7_of b x s3 root) b) = b_main (bd s3 b).
Proof.
  unfold s7_of, s6_of, bd, upd, updb, emit. cbn. rewrite !lookup_alter. destruct (binds s3 !! b); reflexivity.
Qed.

Lemma binds_s7_ne b x s3 root b' : b' <> b -> binds (s7_of b x s3 root) !! b' = binds s3 !! b'.
Proof. intros Hne. unfold s7_of, s6_of, upd, updb, emit. cbn. rewrite !lookup_alter_ne by congruence. reflexivity. Qed.

Lemma match_opt_intro {A} (o : option A) (Q : A -> Prop) :
  (forall r, o = Some r -> Q r) -> match o with Some r => Q r | None => True end.
Proof. intros H. destruct o; [apply H; reflexivity|exact Logic.I]. Qed.

Lemma inval_opt_ivf fuel (o : option nid) l t u :
  (match o with Some _ => rfold (invalidateNode fuel) l t | None => Ok t end) = Ok u -> ivf t u.
Proof. destruct o; [apply invalidate_all_ivf|]. intros [= <-]. apply ivf_refl. Qed.

Lemma tdepth_pos e : (1 <= tdepth e)%nat.
Proof. destruct e; simpl; lia. Qed.

Lemma inst_size b x : forall e root s s' r,
  tplain root e = true -> inst s (Some b) x e = (s', r) -> (tdepth e + next s <= next s' + 1)%nat.
Proof.
  induction e as [k| |t|f e IH|f e1 IH1 e2 IH2|c e IH|cs e IH|]; intros root s s' r Hp H; simpl in H, Hp.
  - nn H s1 n1. injection H as <- <-. rewrite next_newNode. simpl. lia.
  - nn H s1 n1. injection H as <- <-. rewrite next_newNode. simpl. lia.
  - injection H as <- <-. simpl. lia.
  - destruct (inst s (Some b) x e) as [s1 a] eqn:E1. pose proof (IH false s s1 a Hp E1).
    nn H s2 n2. injection H as <- <-. rewrite next_newNode. simpl. lia.
  - apply andb_true_iff in Hp as [Hp1 Hp2].
    destruct (inst s (Some b) x e1) as [s1 a1] eqn:E1. pose proof (IH1 false s s1 a1 Hp1 E1).
    destruct (inst s1 (Some b) x e2) as [s2 a2] eqn:E2. pose proof (IH2 false s1 s2 a2 Hp2 E2).
    nn H s3 n3. injection H as <- <-. rewrite next_newNode. cbn [tdepth].
    pose proof (tdepth_pos e1). pose proof (tdepth_pos e2). lia.
  - destruct (inst s (Some b) x e) as [s1 a] eqn:E1. pose proof (IH false s s1 a Hp E1).
    nn H s2 n2. injection H as <- <-. rewrite next_newNode. simpl. lia.
  - apply andb_true_iff in Hp as [_ Hpe].
    destruct (inst s (Some b) x e) as [s1 a] eqn:E1. pose proof (IH false s s1 a Hpe E1).
    destruct (newBind s1 cs (default 0%nat a) (Some b)) as [s2 m2] eqn:EB.
    pose proof (next_newBind s1 cs (default 0%nat a) (Some b)) as Hn. rewrite EB in Hn. cbn [fst] in Hn.
    injection H as <- <-. cbn [tdepth]. lia.
  - injection H as <- <-. simpl. lia.
Qed.

(* a plain template reads declarations of plain nodes only *)
Lemma matches_frame fuel : forall s s' sc x e r root,
  tplain root e = true ->
  (forall n, nkind (nd s' n) = nkind (nd s n) /\ scope (nd s' n) = scope (nd s n)) ->
  (forall n, isBindKind (nkind (nd s n)) = false -> decl (nd s' n) = decl (nd s n)) ->
  (forall n, nkind (nd s n) = KReturn -> value (nd s' n) = value (nd s n)) ->
  (forall b', b_cases (bd s' b') = b_cases (bd s b') /\ b_main (bd s' b') = b_main (bd s b') /\
              b_lhs (bd s' b') = b_lhs (bd s b')) ->
  matches fuel s' sc x e r = matches fuel s sc x e r.
Proof.
  induction fuel as [|fuel IH]; intros s s' sc x e r root Hp Hk Hd Hv Hbd; [reflexivity|].
  rewrite !matches_S. destruct r as [n|]; destruct e; try reflexivity; simpl in Hp; cbv zeta;
    destruct (Hk n) as [Ek Es]; rewrite Ek, Es.
  - destruct (decide (nkind (nd s n) = KReturn)) as [K|K]; [rewrite (Hv n K); reflexivity|].
    rewrite (bool_decide_eq_false_2 _ K). reflexivity.
  - destruct (decide (nkind (nd s n) = KReturn)) as [K|K]; [rewrite (Hv n K); reflexivity|].
    rewrite (bool_decide_eq_false_2 _ K). reflexivity.
  - destruct (decide (nkind (nd s n) = KMap f)) as [K|K]; [|rewrite (bool_decide_eq_false_2 _ K); reflexivity].
    rewrite (Hd n) by (rewrite K; reflexivity). destruct (decl (nd s n)) as [|a [|]]; try reflexivity.
    rewrite (IH s s' sc x e (Some a) false) by assumption. reflexivity.
  - apply andb_true_iff in Hp as [Hp1 Hp2].
    destruct (decide (nkind (nd s n) = KMap2 f)) as [K|K]; [|rewrite (bool_decide_eq_false_2 _ K); reflexivity].
    rewrite (Hd n) by (rewrite K; reflexivity). destruct (decl (nd s n)) as [|a1 [|a2 [|]]]; try reflexivity.
    rewrite (IH s s' sc x e1 (Some a1) false), (IH s s' sc x e2 (Some a2) false) by assumption. reflexivity.
  - destruct (decide (nkind (nd s n) = KCutoff c)) as [K|K]; [|rewrite (bool_decide_eq_false_2 _ K); reflexivity].
    rewrite (Hd n) by (rewrite K; reflexivity). destruct (decl (nd s n)) as [|a [|]]; try reflexivity.
    rewrite (IH s s' sc x e (Some a) false) by assumption. reflexivity.
  - apply andb_true_iff in Hp as [_ Hpe]. destruct (nkind (nd s n)); try reflexivity.
    destruct (Hbd b) as (Ec & Em & El). rewrite Ec, Em, El. rewrite (IH s s' sc x e (Some (b_lhs (bd s b))) false) by assumption. reflexivity.
Qed.

Definition readsDecl (k : kind) : bool := match k with KMap _ | KMap2 _ | KCutoff _ => true | _ => false end.

(* a plain template that matches keeps matching when the nodes it reads keep their static fields *)
Lemma matches_old fuel : forall s s' b' x e r root,
  tplain root e = true ->
  (forall m, has s m -> scope (nd s m) = Some b' ->
             nkind (nd s' m) = nkind (nd s m) /\ scope (nd s' m) = scope (nd s m) /\
             value (nd s' m) = value (nd s m) /\
             (readsDecl (nkind (nd s m)) = true -> decl (nd s' m) = decl (nd s m))) ->
  (forall m b1, has s m -> nkind (nd s m) = KBindMain b1 ->
             b_cases (bd s' b1) = b_cases (bd s b1) /\ b_main (bd s' b1) = b_main (bd s b1) /\
             b_lhs (bd s' b1) = b_lhs (bd s b1)) ->
  matches fuel s (Some b') x e r = true -> matches fuel s' (Some b') x e r = true.
Proof.
  induction fuel as [|fuel IH]; intros s s' b' x e r root Hp Hst0 Hbd H; [discriminate|].
  rewrite matches_S in *.
  assert (Hhas : forall n, scope (nd s n) = Some b' -> has s n).
  { intros n Hs. destruct (decide (has s n)) as [Hn|Hn]; [exact Hn|]. rewrite (not_has_nd _ _ Hn) in Hs. discriminate. }
  assert (Hst : forall n, scope (nd s n) = Some b' ->
             nkind (nd s' n) = nkind (nd s n) /\ scope (nd s' n) = scope (nd s n) /\
             value (nd s' n) = value (nd s n) /\
             (readsDecl (nkind (nd s n)) = true -> decl (nd s' n) = decl (nd s n))).
  { intros n Hs. apply (Hst0 n (Hhas n Hs) Hs). }
  destruct r as [n|]; destruct e; try discriminate; try exact H; simpl in Hp; cbv zeta in *.
  - rewrite !andb_true_iff in H. destruct H as [[H1 H2] H3]. apply bool_decide_eq_true in H1, H3.
    destruct (Hst n H3) as (Ek & Es & Ev & _). rewrite Ek, Es, Ev, H1, H3.
    rewrite !bool_decide_eq_true_2 by reflexivity. rewrite H2. reflexivity.
  - rewrite !andb_true_iff in H. destruct H as [[H1 H2] H3]. apply bool_decide_eq_true in H1, H3.
    destruct (Hst n H3) as (Ek & Es & Ev & _). rewrite Ek, Es, Ev, H1, H3.
    rewrite !bool_decide_eq_true_2 by reflexivity. rewrite H2. reflexivity.
  - rewrite !andb_true_iff in H. destruct H as [[H1 H2] H3]. apply bool_decide_eq_true in H1, H2.
    destruct (Hst n H2) as (Ek & Es & _ & Ed). rewrite Ek, Es, (Ed ltac:(rewrite H1; reflexivity)), H1, H2.
    rewrite !bool_decide_eq_true_2 by reflexivity. simpl.
    destruct (decl (nd s n)) as [|a [|]]; try discriminate. apply (IH s s' b' x e (Some a) false); assumption.
  - apply andb_true_iff in Hp as [Hp1 Hp2].
    rewrite !andb_true_iff in H. destruct H as [[H1 H2] H3]. apply bool_decide_eq_true in H1, H2.
    destruct (Hst n H2) as (Ek & Es & _ & Ed). rewrite Ek, Es, (Ed ltac:(rewrite H1; reflexivity)), H1, H2.
    rewrite !bool_decide_eq_true_2 by reflexivity. simpl.
    destruct (decl (nd s n)) as [|a1 [|a2 [|]]]; try discriminate. apply andb_true_iff in H3 as [H3 H4].
    apply andb_true_iff. split; [apply (IH s s' b' x e1 (Some a1) false)|apply (IH s s' b' x e2 (Some a2) false)]; assumption.
  - rewrite !andb_true_iff in H. destruct H as [[H1 H2] H3]. apply bool_decide_eq_true in H1, H2.
    destruct (Hst n H2) as (Ek & Es & _ & Ed). rewrite Ek, Es, (Ed ltac:(rewrite H1; reflexivity)), H1, H2.
    rewrite !bool_decide_eq_true_2 by reflexivity. simpl.
    destruct (decl (nd s n)) as [|a [|]]; try discriminate. apply (IH s s' b' x e (Some a) false); assumption.
  - apply andb_true_iff in Hp as [_ Hpe].
    destruct (nkind (nd s n)) eqn:K; try discriminate.
    rewrite !andb_true_iff in H. destruct H as [[[H1 H2] H3] H4]. apply bool_decide_eq_true in H1.
    destruct (Hst n H1) as (Ek & Es & _). rewrite Ek, K, Es.
    destruct (Hbd n b (Hhas n H1) K) as (Ec & Em & El). rewrite Ec, Em, El, H2, H3.
    rewrite (bool_decide_eq_true_2 _ H1). simpl. apply (IH s s' b' x e _ false); assumption.
Qed.

Lemma valueOf__old fuel : forall s s' p,
  ids_ok s ->
  (forall m, has s m -> nkind (nd s' m) = nkind (nd s m) /\ value (nd s' m) = value (nd s m) /\
                        (nkind (nd s m) = KAlways -> decl (nd s' m) = decl (nd s m))) ->
  has s p -> valueOf_ fuel s' p = valueOf_ fuel s p.
Proof.
  induction fuel as [|fuel IH]; intros s s' p Hids H Hp; [reflexivity|].
  simpl. destruct (H p Hp) as (Ek & Ev & Ed). rewrite Ek, Ev.
  destruct (nkind (nd s p)) eqn:K; try reflexivity. rewrite (Ed eq_refl).
  destruct (decl (nd s p)) as [|a l] eqn:D; [reflexivity|]. apply IH; try assumption.
  apply (io_decl _ Hids p a). rewrite D. left.
Qed.

Lemma lhs_main_reg_P s b : PInv s -> nkind (nd s b) = KBindLhs b -> inGraph (nd s b) = true ->
  inGraph (nd s (S b)) = true.
Proof.
  intros P K Hg. pose proof (p_t s P) as T.
  pose proof (p_kinds s P b (has_inGraph _ _ Hg)) as Kk. rewrite K in Kk. destruct Kk as [_ Hb].
  apply (lhs_main_reg s b (t_edges _ _ _ T) (t_zero _ _ _ T) (TInv_nec_ok s T) (TInv_par_ok s T) (t_obs _ _ _ T)
           (pq_force s (p_pq s P)) (p_scoping s P) Hb K Hg).
Qed.

Lemma shape_node_ext n x y :
  nkind y = nkind x -> decl y = decl x -> value y = value x -> shape_node n y = shape_node n x.
Proof. intros Ek Ed Ev. unfold shape_node, arity_ok, cutalways_zero, always_lt. rewrite Ek, Ed, Ev. reflexivity. Qed.

Lemma option_none_of {A} (o : option A) : (forall c, o <> Some c) -> o = None.
Proof. intros H. destruct o as [c|]; [exfalso; apply (H c); reflexivity|reflexivity]. Qed.

Lemma opt_match_impl {A} (o : option A) (P P' : A -> Prop) (Q Q' : Prop) :
  (forall n, P n -> P' n) -> (Q -> Q') ->
  match o with Some n => P n | None => Q end -> match o with Some n => P' n | None => Q' end.
Proof. intros H1 H2. destruct o; auto. Qed.

Lemma matches_transport b x case root s3 u fuel :
  tplain true case = true ->
  match root with Some n => matches (tdepth case) s3 (Some b) x case (Some n) = true | None => case = TNil end ->
  (tdepth case <= fuel)%nat ->
  (forall m, nkind (nd u m) = nkind (nd s3 m) /\ scope (nd u m) = scope (nd s3 m)) ->
  (forall m, isBindKind (nkind (nd s3 m)) = false -> decl (nd u m) = decl (nd s3 m)) ->
  (forall m, value (nd u m) = value (nd s3 m)) ->
  (forall b', b_cases (bd u b') = b_cases (bd s3 b') /\ b_main (bd u b') = b_main (bd s3 b') /\
              b_lhs (bd u b') = b_lhs (bd s3 b')) ->
  matches fuel u (Some b) x case root = true.
Proof.
  intros Hp M Hf Hk Hd Hv Hbd. destruct root as [n|].
  - apply (matches_mono (tdepth case)); [exact Hf|].
    rewrite (matches_frame _ s3 u (Some b) x case (Some n) true Hp Hk Hd); [exact M| |exact Hbd]. intros m _. apply Hv.
  - rewrite M. pose proof (tdepth_pos TNil). destruct fuel; [rewrite M in Hf; simpl in Hf; lia|reflexivity].
Qed.

Lemma chain_back s s' :
  scopes_ok s -> binds_wf s -> (forall m, has s m -> scope (nd s' m) = scope (nd s m)) ->
  forall n t d, chain s' n t d -> has s n -> chain s n t d.
Proof.
  intros Hsc Hbw Hs n t d C. induction C as [n E|n b0 t d E C IH]; intros Hn.
  - apply chain_top. rewrite <- (Hs n Hn). exact E.
  - rewrite (Hs n Hn) in E. destruct (Hsc n b0 E) as [[r Hr] _].
    apply (chain_in s n b0 t d E). apply IH. apply (bw_has_lhs _ _ _ (Hbw b0 r Hr)).
Qed.

(** ** the handler set: only tearing a node down withdraws a queued handler *)
Definition HS (s s' : state) : Prop := handlers s' = handlers s.
Lemma HS_eq s s' : handlers s' = handlers s -> HS s s'. Proof. auto. Qed.
Lemma HS_refl s : HS s s. Proof. reflexivity. Qed.
Lemma HS_trans s1 s2 s3 : HS s1 s2 -> HS s2 s3 -> HS s1 s3.
Proof. unfold HS. congruence. Qed.
Lemma HS_oh s s' : only_heap s s' -> HS s s'. Proof. intros O. apply (oh_handlers _ _ O). Qed.
Lemma HS_bn s s' : bn_frame s s' -> HS s s'. Proof. intros F. apply (bf_handlers _ _ F). Qed.

Lemma HS_efold {A} (f : state -> A -> M) l : (forall s a s' e, f s a = Ok (s', e) -> HS s s') ->
  forall s s' e, efold f l s = Ok (s', e) -> HS s s'.
Proof.
  intros Hf. induction l as [|a l IH]; intros s s' e H; simpl in H.
  - apply ok_inv in H as [-> _]. apply HS_refl.
  - apply ebind_inv in H as (s1 & e1 & E1 & [[-> H]|(_ & -> & _)]).
    + eapply HS_trans; [eapply Hf; eauto|eapply IH; eauto].
    + eapply Hf; eauto.
Qed.

Lemma HS_setHeight s n h s' e : setHeight s n h = Ok (s', e) -> HS s s'.
Proof.
  intros H. apply setHeight_inv in H as [(_ & -> & _)|(_ & _ & ->)]; [apply HS_refl|].
  apply HS_eq. destruct (h >? a_maxSeen (adj s)); reflexivity.
Qed.

Lemma HS_adjAdd s n s' : adjAdd s n = Ok s' -> HS s s'.
Proof.
  unfold adjAdd. destruct (negb _); [intros [= <-]; apply HS_refl|].
  destruct (height (nd s n) <? 0); [discriminate|]. destruct (_ !! _); [|discriminate].
  intros [= <-]. apply HS_eq. reflexivity.
Qed.

Lemma HS_adjRemoveMin s r s' : adjRemoveMin s = Ok (r, s') -> HS s s'.
Proof.
  unfold adjRemoveMin. destruct (_ =? 0); [intros [= <- <-]; apply HS_refl|].
  destruct (_ <? 0); [discriminate|]. destruct (adjScan _ _ _) as [[[x n] b']|]; [|intros [= <- <-]; apply HS_refl].
  intros [= <- <-]. apply HS_eq. reflexivity.
Qed.

Lemma HS_ensure s o c p s' e : ensureHeightRequirement s o c p = Ok (s', e) -> HS s s'.
Proof.
  unfold ensureHeightRequirement. destruct (bool_decide _); [intros [-> _]%fail_inv; apply HS_refl|].
  destruct (_ >=? _); [|intros [-> _]%ok_inv; apply HS_refl].
  intros H. apply ebind_inv in H as (s1 & e1 & E1 & [[-> H]|(_ & -> & _)]).
  - apply lift_inv in E1 as [E1 _]. eapply HS_trans; [eapply HS_adjAdd; eauto|eapply HS_setHeight; eauto].
  - unfold lift in E1. destruct (adjAdd s c) as [s2| |] eqn:Ea; simpl in E1; try discriminate.
    injection E1 as <- _. eapply HS_adjAdd; eauto.
Qed.

Lemma HS_adjustLoop fuel : forall s o s' e, adjustLoop fuel s o = Ok (s', e) -> HS s s'.
Proof.
  induction fuel as [|fuel IH]; intros s o s' e H; [discriminate|]. cbn [adjustLoop] in H.
  destruct (_ <=? 0); [apply ok_inv in H as [-> _]; apply HS_refl|].
  destruct (adjRemoveMin s) as [[r s1]| |] eqn:E1; simpl in H; try discriminate.
  pose proof (HS_adjRemoveMin _ _ _ E1) as G1. destruct r as [p|]; [|discriminate].
  apply ebind_inv in H as (s2 & e2 & E2 & H).
  assert (G2 : HS s1 s2).
  { unfold lift in E2. destruct (inHeap s1 p) eqn:Ep.
    - destruct (heapFix s1 p) as [s2'| |] eqn:Ef; simpl in E2; try discriminate. injection E2 as <- _.
      destruct (heapFix_mem _ _ _ Ep Ef) as [O Hm]. apply HS_oh, O.
    - simpl in E2. injection E2 as <- _. apply HS_refl. }
  destruct H as [[-> H]|(_ & -> & _)]; [|eapply HS_trans; eauto].
  apply ebind_inv in H as (s3 & e3 & E3 & H).
  assert (G3 : HS s2 s3).
  { refine (HS_efold _ _ _ _ _ _ E3). intros st c st' e' Hc. eapply HS_ensure; eauto. }
  destruct H as [[-> H]|(_ & -> & _)]; [|eapply HS_trans; [exact G1|eapply HS_trans; eauto]].
  apply ebind_inv in H as (s4 & e4 & E4 & H).
  assert (G4 : HS s3 s4).
  { destruct (nkind (nd s3 p)); try (apply ok_inv in E4 as [-> _]; apply HS_refl).
    refine (HS_efold _ _ _ _ _ _ E4). intros st r st' e' Hc.
    destruct (isNecessary (nd st r)); [eapply HS_ensure; eauto|apply ok_inv in Hc as [-> _]; apply HS_refl]. }
  eapply HS_trans; [exact G1|]. eapply HS_trans; [exact G2|]. eapply HS_trans; [exact G3|].
  eapply HS_trans; [exact G4|]. destruct H as [[-> H]|(_ & -> & _)]; [eapply IH; eauto|apply HS_refl].
Qed.

Lemma HS_adjustHeights fuel s oc op s' e : adjustHeights fuel s oc op = Ok (s', e) -> HS s s'.
Proof.
  unfold adjustHeights. intros H. apply ebind_inv in H as (s1 & e1 & E1 & H).
  pose proof (HS_ensure _ _ _ _ _ _ E1) as G1.
  assert (G0 : HS s s1) by (eapply HS_trans; [|exact G1]; apply HS_eq; reflexivity).
  destruct H as [[-> H]|(_ & -> & _)]; [eapply HS_trans; [exact G0|eapply HS_adjustLoop; eauto]|exact G0].
Qed.

Lemma HS_heapAddIfNotPresent s n s' : heapAddIfNotPresent s n = Ok s' -> HS s s'.
Proof. intros H. apply HS_oh, (only_heap_heapAddIfNotPresent _ _ _ H). Qed.

(* [addChild] where nothing is invalid: the handler set is untouched *)
Lemma addChild_handlers fuel s c p s' :
  vclosed s -> valid (nd s p) = true -> invq s = [] ->
  addChild fuel s c p = Ok (s', None) -> handlers s' = handlers s.
Proof.
  intros Hvc Hvp Hi H. unfold addChild in H.
  apply ebind_inv in H as (s1 & e1 & E1 & [[-> H]|(Hne & _ & He)]); [|congruence].
  assert (A1 : HS s s1 /\ invq s1 = []).
  { unfold addChildWithoutAdjustingHeights in E1.
    set (sa := link s c p) in *.
    assert (Eb : (if valid (nd sa p) then sa else sa <| invq := invq sa ++ [c] |>) = sa).
    { unfold sa. rewrite valid_nd_link, Hvp. reflexivity. }
    rewrite Eb in E1.
    assert (Ia : invq sa = []) by (unfold sa; rewrite invq_link; exact Hi).
    destruct (isNecessary (nd s p)) eqn:Enp.
    - apply ok_inv in E1 as [-> _]. split; [apply HS_eq; unfold sa; apply handlers_link|exact Ia].
    - assert (Gb : gfr s sa) by apply gfr_link.
      destruct (BN2 _ _ _ _ _ E1 (vclosed_gfr _ _ Gb Hvc) ltac:(unfold sa; rewrite valid_nd_link; exact Hvp) Ia) as (I1 & _).
      split; [|exact I1]. eapply HS_trans; [apply HS_eq; unfold sa; apply handlers_link|].
      apply HS_bn, (proj1 (BN_frame _ _ _ _ _ E1)). }
  destruct A1 as (G1 & I1).
  apply ebind_inv in H as (s2 & e2 & E2 & [[-> H]|(Hne & _ & He)]); [|congruence].
  assert (G2 : HS s1 s2 /\ qfr s1 s2).
  { destruct (_ >=? _); [split; [eapply HS_adjustHeights; eauto|eapply qfr_adjustHeights; eauto]|].
    apply ok_inv in E2 as [-> _]. split; [apply HS_refl|apply qfr_refl]. }
  destruct G2 as [G2 Q2].
  apply ebind_inv in H as (s3 & e3 & E3 & [[-> H]|(Hne & _ & He)]); [|congruence].
  apply lift_inv in E3 as [E3 _].
  assert (Hi2 : invq s2 = []) by (rewrite (q_invq _ _ Q2); exact I1).
  apply (propagateInvalidity_nil _ _ _ Hi2) in E3 as ->.
  unfold HS in *. destruct (_ || _).
  - apply lift_inv in H as [H _]. rewrite (HS_heapAddIfNotPresent _ _ _ H). congruence.
  - apply ok_inv in H as [-> _]. congruence.
Qed.

(* tearing down: a handler is withdrawn exactly when its node leaves the graph *)
Definition TH (s s' : state) : Prop :=
  forall k, k ∈ handlers s' <-> k ∈ handlers s /\ ~ lost s s' k.

Lemma TH_refl s : TH s s.
Proof. intros k. split; [intros H; split; [exact H|intros [A B]; congruence]|tauto]. Qed.

Lemma TH_trans s1 s2 s3 : sfr s1 s2 -> sfr s2 s3 -> TH s1 s2 -> TH s2 s3 -> TH s1 s3.
Proof.
  intros F1 F2 A B k. rewrite (B k), (A k). unfold lost. split.
  - intros [[H1 H2] H3]. split; [exact H1|]. intros [X Y]. destruct (inGraph (nd s2 k)) eqn:E2; [apply H3|apply H2]; auto.
  - intros [H1 H2]. split; [split; [exact H1|]|].
    + intros [X Y]. apply H2. split; [exact X|]. destruct (inGraph (nd s3 k)) eqn:E3; [|reflexivity].
      rewrite (sfr_reg _ _ k F2 E3) in Y. discriminate.
    + intros [X Y]. apply H2. split; [exact (sfr_reg _ _ k F1 X)|exact Y].
Qed.

Lemma TH_same s s' : handlers s' = handlers s -> (forall k, inGraph (nd s' k) = inGraph (nd s k)) -> TH s s'.
Proof. intros Hh Hg k. rewrite Hh. unfold lost. rewrite Hg. split; [intros H; split; [exact H|intros [A B]; congruence]|tauto]. Qed.

Lemma TH_removeNode s p s' :
  (inGraph (nd s p) = false -> p ∉ handlers s) -> removeNode s p = Ok s' -> TH s s'.
Proof.
  intros Hp H k. rewrite (handlers_removeNode _ _ _ H). unfold rm. rewrite elem_of_list_filter. unfold lost.
  rewrite (inGraph_nd_removeNode _ _ _ H k). destruct (decide (k = p)) as [->|Hk].
  - split; [intros [X _]; congruence|]. intros [X Y]. exfalso. destruct (inGraph (nd s p)) eqn:E; [apply Y; auto|exact (Hp eq_refl X)].
  - split; [intros [_ X]; split; [exact X|intros [A B]; congruence]|intros [X _]; auto].
Qed.

Lemma TH_block fuel :
  (forall s c s', removeParents fuel s c = Ok s' -> TH s s') ->
  forall s p s', inGraph (nd s p) = true ->
    (s1 <-! removeParents fuel (emit (EvUnnec p) s) p; removeNode s1 p) = Ok s' -> TH s s'.
Proof.
  intros IH1 s p s' Hg H. apply rbind_ok in H as (s1 & E & H).
  pose proof (sfr_removeParents _ _ _ _ E) as F1. pose proof (sfr_removeNode _ _ _ H) as F2.
  assert (F0 : sfr s (emit (EvUnnec p) s)) by apply sfr_emit.
  apply (TH_trans s (emit (EvUnnec p) s) s' F0 (sfr_trans _ _ _ F1 F2)); [apply TH_same; reflexivity|].
  pose proof (IH1 _ _ _ E) as T1.
  apply (TH_trans _ s1 s' F1 F2 T1). apply (TH_removeNode s1 p s'); [|exact H].
  intros Eg Hin. apply (T1 p) in Hin as [_ Hnl]. apply Hnl. split; [exact Hg|exact Eg].
Qed.

Lemma teardown_TH fuel :
  (forall s c s', removeParents fuel s c = Ok s' -> TH s s') /\
  (forall s p s', checkIfUnnecessary fuel s p = Ok s' -> TH s s').
Proof.
  induction fuel as [|fuel [IH1 IH2]].
  - split; [intros s c s' H; discriminate|].
    intros s p s'. rewrite checkIfUnnecessary_unfold.
    destruct (isNecessary (nd s p)); [intros [= <-]; apply TH_refl|].
    destruct (negb (inGraph (nd s p))); [intros [= <-]; apply TH_refl|]. discriminate.
  - assert (H1 : forall s c s', removeParents (S fuel) s c = Ok s' -> TH s s').
    { intros s c s' H. rewrite removeParents_S in H.
      refine (proj2 (rfold_inv (fun l st => sfr s st /\ TH s st) _ _ s s' _ _ H)).
      - split; [apply sfr_refl|apply TH_refl].
      - intros p l' st st2 (F & T) Hc.
        assert (F1 : sfr st (unlink st c p)) by apply sfr_unlink.
        pose proof (sfr_checkIfUnnecessary _ _ _ _ Hc) as F2.
        split; [eapply sfr_trans; [exact F|eapply sfr_trans; eauto]|].
        apply (TH_trans s st st2 F (sfr_trans _ _ _ F1 F2) T).
        apply (TH_trans st (unlink st c p) st2 F1 F2); [apply TH_same; [reflexivity|]|exact (IH2 _ _ _ Hc)].
        intros k. unfold unlink. rewrite !(nd_upd_proj inGraph) by reflexivity. reflexivity. }
    split; [exact H1|].
    intros s p s'. rewrite checkIfUnnecessary_unfold.
    destruct (isNecessary (nd s p)); [intros [= <-]; apply TH_refl|].
    destruct (inGraph (nd s p)) eqn:Hg; simpl; [|intros [= <-]; apply TH_refl].
    intros H. exact (TH_block (S fuel) H1 s p s' Hg H).
Qed.

Lemma not_has_unreg s k : ~ has s k -> inGraph (nd s k) = false.
Proof. intros H. rewrite (not_has_nd _ _ H). reflexivity. Qed.

(* [changeParent]: a handler is withdrawn exactly when its node leaves the graph *)
Lemma changeParent_handlers fuel s c oR rt s' :
  vclosed s -> match rt with Some r => valid (nd s r) = true | None => True end -> invq s = [] ->
  changeParent fuel s c oR rt = Ok (s', None) ->
  (forall k, k ∈ handlers s' -> k ∈ handlers s /\ (inGraph (nd s k) = true -> inGraph (nd s' k) = true)) /\
  (forall k, k ∈ handlers s -> (inGraph (nd s k) = true /\ inGraph (nd s' k) = true) \/ ~ has s k -> k ∈ handlers s').
Proof.
  intros Hvc Hvr Hi H. unfold changeParent in H. destruct oR as [o|], rt as [r|].
  - destruct (bool_decide (o = r)); [apply ok_inv in H as [-> _]; split; intros k Hk; tauto|].
    set (u0 := unlink s c o) in *. set (u1 := upd u0 o (set forceNec (fun _ => true))) in *.
    apply ebind_inv in H as (u2 & e2 & E2 & [[-> H]|(Hne & _ & He)]); [|congruence].
    apply lift_inv in H as [H _]. set (u3 := upd u2 o (set forceNec (fun _ => false))) in *.
    assert (F01 : sfr s u1).
    { eapply sfr_trans; [apply sfr_unlink|]. apply sfr_upd. intros x. repeat split. }
    assert (Hst1 : forall m, decl (nd u1 m) = decl (nd s m) /\ valid (nd u1 m) = valid (nd s m)).
    { intros m. destruct (z_static _ _ F01 m) as (_ & ? & _ & ? & _). auto. }
    assert (Hig1 : forall m, inGraph (nd u1 m) = inGraph (nd s m)).
    { intros m. unfold u1, u0, unlink. rewrite !(nd_upd_proj inGraph) by reflexivity. reflexivity. }
    assert (Hvr1 : valid (nd u1 r) = true) by (destruct (Hst1 r) as [_ ->]; exact Hvr).
    destruct (addChild2 fuel u1 c r u2 (vclosed_static s u1 Hst1 Hvc) Hvr1 Hi E2) as (G12 & _).
    pose proof (addChild_handlers fuel u1 c r u2 (vclosed_static s u1 Hst1 Hvc) Hvr1 Hi E2) as Hh12.
    assert (Hig3 : forall m, inGraph (nd u3 m) = inGraph (nd u2 m)).
    { intros m. unfold u3. rewrite (nd_upd_proj inGraph) by reflexivity. reflexivity. }
    assert (Hh3 : handlers u3 = handlers s) by (change (handlers u2 = handlers s); rewrite Hh12; reflexivity).
    pose proof (proj2 (teardown_TH fuel) _ _ _ H) as T.
    assert (Hreg3 : forall k, inGraph (nd s k) = true -> inGraph (nd u3 k) = true).
    { intros k Hk. rewrite Hig3. apply (g_reg _ _ G12). rewrite Hig1. exact Hk. }
    assert (Hhas3 : forall k, has u3 k <-> has s k).
    { intros k. unfold u3. rewrite has_upd, (g_has _ _ G12), (z_has _ _ F01). reflexivity. }
    split.
    + intros k Hk. apply (T k) in Hk as [Hk Hnl]. rewrite Hh3 in Hk. split; [exact Hk|].
      intros Hg. destruct (inGraph (nd s' k)) eqn:E; [reflexivity|]. exfalso. apply Hnl. split; [apply Hreg3, Hg|exact E].
    + intros k Hk Hc. apply (T k). rewrite Hh3. split; [exact Hk|]. intros [A B]. destruct Hc as [[_ C]|C]; [congruence|].
      rewrite (not_has_unreg u3 k) in A; [discriminate|]. rewrite Hhas3. exact C.
  - apply lift_inv in H as [H _]. pose proof (proj2 (teardown_TH fuel) _ _ _ H) as T.
    assert (Hig0 : forall m, inGraph (nd (unlink s c o) m) = inGraph (nd s m)).
    { intros m. unfold unlink. rewrite !(nd_upd_proj inGraph) by reflexivity. reflexivity. }
    split.
    + intros k Hk. apply (T k) in Hk as [Hk Hnl]. split; [exact Hk|].
      intros Hg. destruct (inGraph (nd s' k)) eqn:E; [reflexivity|]. exfalso. apply Hnl. split; [rewrite Hig0; exact Hg|exact E].
    + intros k Hk Hc. apply (T k). split; [exact Hk|]. intros [A B]. rewrite Hig0 in A. destruct Hc as [[_ C]|C]; [congruence|].
      rewrite (not_has_unreg s k C) in A. discriminate.
  - destruct (addChild2 fuel s c r s' Hvc Hvr Hi H) as (G & _).
    pose proof (addChild_handlers fuel s c r s' Hvc Hvr Hi H) as Hh. rewrite Hh. split.
    + intros k Hk. split; [exact Hk|apply (g_reg _ _ G)].
    + intros k Hk _. exact Hk.
  - apply ok_inv in H as [-> _]. split; intros k Hk; tauto.
Qed.

Lemma inval_opt_LQ fuel (o : option nid) l t u :
  (match o with Some _ => rfold (invalidateNode fuel) l t | None => Ok t end) = Ok u -> LQ t u.
Proof.
  destruct o; [|intros [= <-]; apply LQ_refl]. apply LQ_rfold. intros st a st' H. eapply LQ_invalidateNode; eauto.
Qed.

(** what the recompute of the lhs-change node [b] does to the nodes that existed before it *)
Record bfr (s : state) (b : nat) (s' : state) : Prop := {
  bx_k : stabNum s' = stabNum s;
  bx_has : forall m, has s m -> has s' m;
  bx_old : forall m, has s m -> nkind (nd s' m) = nkind (nd s m) /\ value (nd s' m) = value (nd s m) /\
                     (m <> S b -> decl (nd s' m) = decl (nd s m));
  bx_valueOf : forall p, has s p -> valueOf s' p = valueOf s p;
  bx_stamps : forall m, m <> b ->
    (recomputedAt (nd s' m) = recomputedAt (nd s m) /\ changedAt (nd s' m) = changedAt (nd s m) /\
     (inGraph (nd s m) = true -> inGraph (nd s' m) = true)) \/
    (inGraph (nd s' m) = false /\ recomputedAt (nd s' m) = 0 /\ changedAt (nd s' m) = 0) \/
    (valid (nd s' m) = false /\ recomputedAt (nd s' m) = changedAt (nd s' m));
  bx_self : recomputedAt (nd s' b) = stabNum s /\ inGraph (nd s' b) = true;
  bx_edge : edge s b (S b);
  bx_log : LQ s s';
  bx_changed : changedAt (nd s' b) = stabNum s;
  bx_regvalid : forall m, inGraph (nd s' m) = true -> valid (nd s m) = true;
  (* the handler set: [b] and its observers join it; a queued handler is withdrawn exactly when its
     node leaves the graph *)
  bx_h1 : forall k, k ∈ handlers s' -> k = b \/ k ∈ observers (nd s' b) \/
            (k ∈ handlers s /\ (inGraph (nd s k) = true -> inGraph (nd s' k) = true));
  bx_h2 : forall k, k ∈ handlers s ->
            (inGraph (nd s k) = true /\ inGraph (nd s' k) = true) \/ (~ has s k /\ (k < next s)%nat) -> k ∈ handlers s';
  bx_h3 : b ∈ handlers s' /\ forall o, o ∈ observers (nd s' b) -> o ∈ handlers s';
  (* who is queued, who has run, after the step *)
  bx_queued : forall w, inHeap s' w = true -> inHeap s w = true \/ w = S b \/ inGraph (nd s w) = false;
  bx_done : forall y, y <> b -> isDone s' y = true ->
              inGraph (nd s' y) = false \/ (inGraph (nd s y) = true /\ isDone s y = true);
  bx_parents : forall c p, inGraph (nd s c) = true -> inGraph (nd s' c) = true -> c <> S b ->
                 (p ∈ parents (nd s' c) <-> p ∈ parents (nd s c));
  bx_main : inGraph (nd s' (S b)) = true /\ b ∈ parents (nd s' (S b))
}.

Section Assemble.
  Context (fuel : nat) (s : state) (b : nat) (u s' : state) (imm : option nid).
  Context (TP : Tplain s) (P : PInv s) (L : LInvC s (Some b)).
  Context (Hg : inGraph (nd s b) = true) (Hk : nkind (nd s b) = KBindLhs b).
  Let k := stabNum s.
  Let s1 := upd s b (set recomputedAt (fun _ => k)).
  Context (Hbind : bindLhsStabilize fuel [] s1 b = Ok (u, None)).
  Context (Htail : tailR u b = Ok (s', None, imm)).
  Context (P' : PInv s').

  Let HS : Struct s := PInv_Struct s P.
  Let HB : BFB s := PInv_BFB s P (lc_shape _ _ L).
  Let Hb : has s b := has_inGraph _ _ Hg.

  Local Lemma P1 : PInv s1.
  Proof.
    apply (PInv_of_soft s s1 P). apply soft_upd; intros x; [repeat split|].
    intros Hkk (A & B & C). pose proof (st_num s (p_stamps s P)). unfold k. repeat split; cbn; try lia; apply B || apply C.
  Qed.

  Local Lemma Hnd1 m : m <> b -> nd s1 m = nd s m.
  Proof. intros Hm. unfold s1. apply nd_upd_ne, Hm. Qed.
  Local Lemma Hnd1b : nd s1 b = nd s b <| recomputedAt := k |>.
  Proof. unfold s1. apply nd_upd_eq, Hb. Qed.
  Local Lemma Hk1 : nkind (nd s1 b) = KBindLhs b.
  Proof. rewrite Hnd1b. exact Hk. Qed.
  Local Lemma Hg1 : inGraph (nd s1 b) = true.
  Proof. rewrite Hnd1b. exact Hg. Qed.

  Let r0 := bd s b.
  Let s1' := updb s1 b (set b_rhsNodes (fun _ : list nid => [])).
  Let x := valueOf s1' (b_lhs r0).

  Local Lemma stages : exists s3 root t8,
    inst s1' (Some b) x (select (b_cases r0) x) = (s3, root) /\
    fn_post [] s1 b x s3 root /\
    changeParent fuel (s7_of b x s3 root) (S b) (b_rhs r0) root = Ok (t8, None) /\
    TInv [] noE t8 /\ cp_frame (s7_of b x s3 root) t8 /\
    (match b_rhs r0 with Some _ => rfold (invalidateNode fuel) (b_rhsNodes r0) t8 | None => Ok t8 end) = Ok u /\
    iv_same t8 u /\
    (forall m, valid (nd u m) = valid (nd t8 m) \/ (valid (nd u m) = false /\ inGraph (nd t8 m) = false)) /\
    PInv u.
  Proof. exact (bind_stages fuel s1 b u P1 Hk1 Hg1 Hbind). Qed.

  (** ** with the stages named *)
  Context (s3 : state) (root : option nid) (t8 : state).
  Context (Einst : inst s1' (Some b) x (select (b_cases r0) x) = (s3, root)).
  Context (FP : fn_post [] s1 b x s3 root).
  Context (Ecp : changeParent fuel (s7_of b x s3 root) (S b) (b_rhs r0) root = Ok (t8, None)).
  Context (T8 : TInv [] noE t8) (F8 : cp_frame (s7_of b x s3 root) t8).
  Context (Eiv : (match b_rhs r0 with Some _ => rfold (invalidateNode fuel) (b_rhsNodes r0) t8 | None => Ok t8 end) = Ok u).
  Context (Hsame : iv_same t8 u).
  Context (Hval : forall m, valid (nd u m) = valid (nd t8 m) \/ (valid (nd u m) = false /\ inGraph (nd t8 m) = false)).
  Context (PU : PInv u).
  Let s6 := s6_of b x s3 root.
  Let s7 := s7_of b x s3 root.

  Local Lemma Hlt1 m : has s1' m -> (m < next s1')%nat.
  Proof. unfold s1'. rewrite has_updb. unfold s1. rewrite has_upd. apply (io_lt _ (p_ids _ P)). Qed.

  Local Lemma Hrec : exists r, binds s !! b = Some r /\ r0 = r.
  Proof.
    pose proof (p_kinds s P b Hb) as K. rewrite Hk in K. destruct K as [_ [r Hr]]. exists r. split; [exact Hr|].
    unfold r0, bd. rewrite Hr. reflexivity.
  Qed.

  Local Lemma Hcase : tplain true (select (b_cases r0) x) = true.
  Proof. destruct Hrec as (r & Hr & ->). apply select_tplain, (TP b r Hr). Qed.

  Local Lemma W1' : IW b s1'.
  Proof.
    constructor.
    - exact Hlt1.
    - intros b1 Hs. assert (Hs0 : is_Some (binds s !! b1)).
      { unfold s1', updb in Hs. cbn in Hs. destruct (decide (b1 = b)) as [->|Hne].
        - destruct Hrec as (r & Hr & _). eauto.
        - rewrite lookup_alter_ne in Hs by congruence. exact Hs. }
      destruct Hs0 as [r Hr]. apply (io_lt _ (p_ids _ P)). apply (bw_has_lhs _ _ _ (p_binds _ P b1 r Hr)).
    - apply (io_lt _ (p_ids _ P)). exact Hb.
    - intros n b' Hn K. assert (Hn0 : has s n) by (unfold s1' in Hn; rewrite has_updb in Hn; unfold s1 in Hn; rewrite has_upd in Hn; exact Hn).
      assert (K0 : nkind (nd s n) = KBindMain b').
      { unfold s1' in K. rewrite nd_updb in K. unfold s1 in K. rewrite (nd_upd_proj nkind) in K by reflexivity. exact K. }
      pose proof (p_kinds s P n Hn0) as Kk. rewrite K0 in Kk. destruct Kk as [_ [r Hr]].
      unfold s1', updb. cbn. destruct (decide (b' = b)) as [->|Hne].
      + rewrite lookup_alter. change (binds s1) with (binds s). rewrite Hr. eauto.
      + rewrite lookup_alter_ne by congruence. change (binds s1) with (binds s). eauto.
  Qed.

  Local Lemma IF3 : instF b s1' s3 /\ newQ b s1' s3 (select (b_cases r0) x) /\
    match root with
    | Some n => matches (tdepth (select (b_cases r0) x)) s3 (Some b) x (select (b_cases r0) x) (Some n) = true
    | None => select (b_cases r0) x = TNil /\ s3 = s1'
    end.
  Proof. exact (inst_plain b x _ true s1' s3 root W1' Hcase Einst). Qed.

  Local Lemma IF : instF b s1' s3 /\
    match root with
    | Some n => matches (tdepth (select (b_cases r0) x)) s3 (Some b) x (select (b_cases r0) x) (Some n) = true
    | None => select (b_cases r0) x = TNil /\ s3 = s1'
    end.
  Proof. destruct IF3 as (A & _ & C). auto. Qed.

  Local Lemma Hs7eq : upd s6 (S b) (set decl (fun _ => match root with Some r => [b; r] | None => [b] end)) = s7.
  Proof. apply s7_eq. Qed.

  Local Lemma Hvc7 : vclosed s7.
  Proof. intros m q Hv Hq. rewrite <- Hs7eq in *. exact (fp_vc7 _ _ _ _ _ _ FP m q Hv Hq). Qed.

  Local Lemma Hnd6 m : nd s6 m = nd s3 m. Proof. reflexivity. Qed.
  Local Lemma Hnd7 m : m <> S b -> nd s7 m = nd s3 m.
  Proof. intros Hm. unfold s7, s7_of. rewrite nd_upd_ne by exact Hm. reflexivity. Qed.
  Local Lemma Hf7 {A} (g : node -> A) : (forall y f, g (set decl f y) = g y) -> forall m, g (nd s7 m) = g (nd s3 m).
  Proof. intros Hg' m. unfold s7, s7_of. rewrite nd_upd_proj by (intros y; apply Hg'). reflexivity. Qed.

  Local Lemma Hinvq7 : invq s7 = [].
  Proof.
    change (invq s3 = []). destruct (if_fields _ _ _ (proj1 IF)) as (_&_&_&_&->&_).
    change (invq s = []). apply (pq_invq s (p_pq s P)).
  Qed.

  Local Lemma Hvroot r : root = Some r -> valid (nd s7 r) = true.
  Proof.
    intros Er.
    pose proof (fp_root _ _ _ _ _ _ FP) as Hroot.
    assert (R7 : RestM (fun n => n ∈ b_rhsNodes (bd s1 b)) s7) by (rewrite <- Hs7eq; exact (fp_R7 _ _ _ _ _ _ FP)).
    assert (Hgb6 : inGraph (nd s6 b) = true) by exact (proj1 (fp_lhs _ _ _ _ _ _ FP)).
    assert (T6 : TInv [] noE s6) by exact (fp_T6 _ _ _ _ _ _ FP).
    rewrite Er in Hroot. destruct Hroot as (H1 & H2 & H3).
    destruct H3 as [E|[E G]].
    - apply (m_vtop _ _ R7). rewrite (Hf7 scope) by reflexivity. rewrite <- Hnd6. exact E.
    - assert (G' : inGen s7 b r).
      { unfold inGen, s7. rewrite rhsNodes_s7. rewrite <- (rhsNodes_s7 b x s3 (Some r)). exact G. }
      rewrite (m_vgen _ _ R7 r b G'). rewrite (Hf7 valid) by reflexivity. rewrite <- Hnd6.
      apply (t_valid _ _ _ T6), Hgb6.
  Qed.

  Local Lemma C8 : cfr s7 t8 (S b) (b_rhs r0).
  Proof.
    apply (changeParent2 fuel s7 (S b) (b_rhs r0) root t8 Hvc7 (match_opt_intro root _ Hvroot) Hinvq7); [|exact Ecp].
    intros m. rewrite (Hf7 forceNec) by reflexivity. rewrite <- Hnd6. apply (fp_force _ _ _ _ _ _ FP).
  Qed.

  (* old nodes up to [s7] *)
  Local Lemma Hold3 m : (m < next s)%nat -> nd s3 m = nd s1 m.
  Proof. intros Hm. rewrite (instF_nd_old b s1' s3 m (proj1 IF)) by (left; exact Hm). apply nd_updb. Qed.

  Local Lemma Hlts m : has s m -> (m < next s)%nat.
  Proof. apply (io_lt _ (p_ids _ P)). Qed.

  Local Lemma Hscope7 m : has s m -> scope (nd s7 m) = scope (nd s m).
  Proof.
    intros Hm. rewrite (Hf7 scope) by reflexivity. rewrite (Hold3 m (Hlts m Hm)).
    unfold s1. rewrite (nd_upd_proj scope) by reflexivity. reflexivity.
  Qed.

  Local Lemma R7 : RestM (fun n => n ∈ b_rhsNodes (bd s1 b)) s7.
  Proof. rewrite <- Hs7eq. exact (fp_R7 _ _ _ _ _ _ FP). Qed.

  Local Lemma Sta7 : Sta s7.
  Proof. pose proof R7 as R. constructor; try apply R. exact Hvc7. Qed.

  Local Lemma Hdeclmain : decl (nd s (S b)) = b :: option_list (b_rhs r0).
  Proof.
    destruct Hrec as (r & Hr & E). rewrite E. apply (bw_decl_main _ _ _ (p_binds _ P b r Hr)).
  Qed.

  Local Lemma Hhasmain : has s (S b).
  Proof. destruct Hrec as (r & Hr & E). apply (bw_has_main _ _ _ (p_binds _ P b r Hr)). Qed.

  Local Lemma no_dreach_main o : b_rhs r0 = Some o -> ~ dreach s7 o (S b).
  Proof.
    intros Ho Hd.
    assert (Hod : o ∈ decl (nd s (S b))) by (rewrite Hdeclmain, Ho; right; left).
    assert (Hho : has s o) by (apply (io_decl _ (p_ids _ P) _ _ Hod)).
    pose proof (sc_acyclic _ (p_scoping _ P) _ _ Hod) as Hlt.
    assert (Hlt7 : mu_lt s7 o (S b)).
    { intros tq dq tn dn C1 C2.
      apply (Hlt tq dq tn dn); apply (chain_back s s7 (p_scopes _ P) (p_binds _ P) Hscope7); assumption || exact Hhasmain. }
    pose proof (m_scopes _ _ R7) as Hsc7.
    destruct (dreach_mu s7 o (S b) Sta7 Hd) as [E|Hm].
    - rewrite E in Hlt7. exact (mu_lt_irrefl s7 o Hsc7 Hlt7).
    - exact (mu_lt_irrefl s7 o Hsc7 (mu_lt_trans s7 o (S b) o Hsc7 Hlt7 Hm)).
  Qed.

  Local Lemma Hmain7 : inGraph (nd s7 (S b)) = true.
  Proof. rewrite (Hf7 inGraph) by reflexivity. rewrite <- Hnd6. exact (fp_main _ _ _ _ _ _ FP). Qed.

  Local Lemma Hmain8 : inGraph (nd t8 (S b)) = true.
  Proof.
    destruct (inGraph (nd t8 (S b))) eqn:E; [reflexivity|exfalso].
    destruct (c_lost _ _ _ _ C8 (S b) (conj Hmain7 E)) as (o & Ho & Hd). exact (no_dreach_main o Ho Hd).
  Qed.

  Local Lemma Hb7 : inGraph (nd s7 b) = true.
  Proof. rewrite (Hf7 inGraph) by reflexivity. rewrite <- Hnd6. exact (proj1 (fp_lhs _ _ _ _ _ _ FP)). Qed.

  Local Lemma Hkb7 : nkind (nd s7 b) = KBindLhs b.
  Proof. rewrite (Hf7 nkind) by reflexivity. rewrite <- Hnd6. exact (proj2 (fp_lhs _ _ _ _ _ _ FP)). Qed.

  Local Lemma Hb8 : inGraph (nd t8 b) = true.
  Proof.
    destruct (inGraph (nd t8 b)) eqn:E; [reflexivity|exfalso].
    destruct (c_lost _ _ _ _ C8 b (conj Hb7 E)) as (o & Ho & Hd).
    inversion Hd as [Eo|m q Hd' Hq Eq].
    - pose proof (fp_oldne _ _ _ _ _ _ FP) as Hne. change (bd s1 b) with r0 in Hne. rewrite Ho in Hne. congruence.
    - pose proof (sc_lhs _ (m_scoping _ _ R7) m b b Hq Hkb7) as Em. rewrite Em in Hd'. exact (no_dreach_main o Ho Hd').
  Qed.

  Local Lemma IV : ivf t8 u.
  Proof. exact (inval_opt_ivf fuel _ _ _ _ Eiv). Qed.

  (** ** the frame from [s] to [u] *)
  Local Lemma Hnext1 : next s1' = next s. Proof. reflexivity. Qed.

  (* dynamic fields of every identifier are those of [s1] after [inst] *)
  Local Lemma S3_dyn m :
    recomputedAt (nd s3 m) = recomputedAt (nd s1 m) /\ changedAt (nd s3 m) = changedAt (nd s1 m) /\
    valid (nd s3 m) = valid (nd s1 m) /\ inGraph (nd s3 m) = inGraph (nd s1 m) /\
    isNecessary (nd s3 m) = isNecessary (nd s1 m).
  Proof.
    destruct IF as [F _]. destruct (decide (next s1' <= m < next s3)%nat) as [Hnew|Hold].
    - destruct (if_new _ _ _ F m Hnew) as (k0 & d & v & E & _). rewrite (nd_lookup _ _ _ E).
      assert (Hno : ~ has s1 m).
      { intros Hh. assert (has s1' m) by (unfold s1'; rewrite has_updb; exact Hh). pose proof (Hlt1 m H). lia. }
      rewrite (not_has_nd _ _ Hno). repeat split.
    - rewrite (instF_nd_old b s1' s3 m F) by lia. unfold s1'. rewrite nd_updb. repeat split.
  Qed.

  Local Lemma S1_nec m : isNecessary (nd s1 m) = isNecessary (nd s m).
  Proof.
    unfold s1. apply isNecessary_ext; [apply (nd_upd_proj forceNec)|apply (nd_upd_proj children)|apply (nd_upd_proj observers)];
      reflexivity.
  Qed.

  Local Lemma S7_nec m : isNecessary (nd s7 m) = isNecessary (nd s m).
  Proof.
    rewrite <- S1_nec. destruct (S3_dyn m) as (_&_&_&_&<-).
    apply isNecessary_ext; apply Hf7; reflexivity.
  Qed.

  Local Lemma S7_ingraph m : inGraph (nd s7 m) = inGraph (nd s m).
  Proof.
    rewrite (Hf7 inGraph) by reflexivity. destruct (S3_dyn m) as (_&_&_&->&_).
    unfold s1. apply (nd_upd_proj inGraph). reflexivity.
  Qed.

  Local Lemma S7_valid m : valid (nd s7 m) = valid (nd s m).
  Proof.
    rewrite (Hf7 valid) by reflexivity. destruct (S3_dyn m) as (_&_&->&_).
    unfold s1. apply (nd_upd_proj valid). reflexivity.
  Qed.

  Local Lemma S7_stamps m : m <> b ->
    recomputedAt (nd s7 m) = recomputedAt (nd s m) /\ changedAt (nd s7 m) = changedAt (nd s m).
  Proof.
    intros Hm. rewrite (Hf7 recomputedAt), (Hf7 changedAt) by reflexivity.
    destruct (S3_dyn m) as (->&->&_). rewrite (Hnd1 m Hm). auto.
  Qed.

  Local Lemma S7_b : recomputedAt (nd s7 b) = k /\ changedAt (nd s7 b) = changedAt (nd s b).
  Proof.
    rewrite (Hf7 recomputedAt), (Hf7 changedAt) by reflexivity.
    destruct (S3_dyn b) as (->&->&_). rewrite Hnd1b. auto.
  Qed.

  Local Lemma U_ingraph m : inGraph (nd u m) = inGraph (nd t8 m).
  Proof. apply (is_node _ _ Hsame m). Qed.

  Local Lemma U_valid m : valid (nd u m) = valid (nd s m) \/ (valid (nd u m) = false /\ inGraph (nd u m) = false).
  Proof.
    destruct (Hval m) as [E|[E1 E2]]; [left|right].
    - rewrite E. destruct (c_static _ _ _ _ C8 m) as (_&_&_&->&_). apply S7_valid.
    - split; [exact E1|]. rewrite U_ingraph. exact E2.
  Qed.

  Local Lemma U_stamps m : m <> b ->
    (recomputedAt (nd u m) = recomputedAt (nd s m) /\ changedAt (nd u m) = changedAt (nd s m) /\
     (inGraph (nd s m) = true -> inGraph (nd u m) = true)) \/
    (inGraph (nd u m) = false /\ recomputedAt (nd u m) = 0 /\ changedAt (nd u m) = 0) \/
    (valid (nd u m) = false /\ recomputedAt (nd u m) = changedAt (nd u m)).
  Proof.
    intros Hm. destruct (S7_stamps m Hm) as [R7' C7'].
    destruct (iv_nd _ _ IV m) as [_ [(A1&A2&A3&A4)|[[B1 B2]|(C1&C2&C3&C4)]]].
    - destruct (c_st _ _ _ _ C8 m) as [(E1&E2&E3)|(E1&E2&E3)].
      + left. split; [congruence|]. split; [congruence|]. intros Hg0. rewrite A1. apply E3. rewrite S7_ingraph. exact Hg0.
      + right. left. repeat split; congruence.
    - right. right. auto.
    - right. left. auto.
  Qed.

  Local Lemma U_b : recomputedAt (nd u b) = k /\ changedAt (nd u b) = changedAt (nd s b) /\ inGraph (nd u b) = true.
  Proof.
    assert (Hgu : inGraph (nd u b) = true) by (rewrite U_ingraph; exact Hb8).
    pose proof (t_valid _ _ _ (p_t _ PU) b Hgu) as Hvu. destruct S7_b as [R7' C7'].
    destruct (c_st _ _ _ _ C8 b) as [(E1&E2&_)|(E1&_)]; [|rewrite Hb8 in E1; discriminate].
    destruct (iv_nd _ _ IV b) as [_ [(A1&A2&A3&A4)|[[B1 B2]|(C1&C2&C3&C4)]]]; try congruence.
    split; [congruence|]. split; [congruence|exact Hgu].
  Qed.

  Local Lemma U_main : inGraph (nd u (S b)) = true.
  Proof. rewrite U_ingraph. exact Hmain8. Qed.

  Local Lemma U_heap m : inHeap u m = inHeap t8 m.
  Proof. unfold inHeap. rewrite (is_heap _ _ Hsame). reflexivity. Qed.

  Local Lemma S7_heap m : inHeap s7 m = inHeap s m.
  Proof.
    unfold inHeap. change (heap s7) with (heap s3). destruct (if_fields _ _ _ (proj1 IF)) as (_&_&->&_). reflexivity.
  Qed.

  Local Lemma U_fwd m : inGraph (nd u m) = true -> inHeap s m = true -> inHeap u m = true.
  Proof.
    intros Hgm Hq. rewrite U_heap. apply (c_fwd _ _ _ _ C8 m); [rewrite <- U_ingraph; exact Hgm|]. rewrite S7_heap. exact Hq.
  Qed.

  Local Lemma U_rev m : inHeap u m = true -> inHeap s m = true \/ m = S b \/ inGraph (nd s m) = false.
  Proof.
    rewrite U_heap. intros Hq. destruct (c_rev _ _ _ _ C8 m Hq) as [H|[H|H]].
    - left. rewrite <- S7_heap. exact H.
    - auto.
    - right. right. rewrite S7_nec in H. rewrite (t_nec _ _ _ (p_t _ P) m); [exact H|apply not_elem_of_nil|intros []].
  Qed.

  Local Lemma S3_static m : has s m ->
    nkind (nd s3 m) = nkind (nd s m) /\ scope (nd s3 m) = scope (nd s m) /\ value (nd s3 m) = value (nd s m) /\
    decl (nd s3 m) = decl (nd s m).
  Proof.
    intros Hm. rewrite (Hold3 m (Hlts m Hm)). unfold s1.
    rewrite (nd_upd_proj nkind), (nd_upd_proj scope), (nd_upd_proj value), (nd_upd_proj decl) by reflexivity. auto.
  Qed.

  Local Lemma U_from3 m :
    nkind (nd u m) = nkind (nd s3 m) /\ scope (nd u m) = scope (nd s3 m) /\ value (nd u m) = value (nd s3 m) /\
    (m <> S b -> decl (nd u m) = decl (nd s3 m)).
  Proof.
    destruct (is_node _ _ Hsame m) as (K1 & D1 & Sc1 & _). destruct (iv_nd _ _ IV m) as [V1 _].
    destruct (c_static _ _ _ _ C8 m) as (K2 & D2 & Sc2 & _ & V2).
    rewrite K1, K2, Sc1, Sc2, V1, V2, D1, D2.
    rewrite (Hf7 nkind), (Hf7 scope), (Hf7 value) by reflexivity. repeat split. intros Hm. rewrite (Hnd7 m Hm). reflexivity.
  Qed.

  Local Lemma U_old m : has s m ->
    nkind (nd u m) = nkind (nd s m) /\ scope (nd u m) = scope (nd s m) /\ value (nd u m) = value (nd s m) /\
    (m <> S b -> decl (nd u m) = decl (nd s m)).
  Proof.
    intros Hm. destruct (U_from3 m) as (A1&A2&A3&A4), (S3_static m Hm) as (B1&B2&B3&B4).
    repeat split; try congruence. intros Hne. rewrite (A4 Hne). exact B4.
  Qed.

  Local Lemma Hkmain : nkind (nd s (S b)) = KBindMain b.
  Proof. destruct Hrec as (r & Hr & _). apply (bw_kind_main _ _ _ (p_binds _ P b r Hr)). Qed.

  Local Lemma U_valueOf p : has s p -> valueOf u p = valueOf s p.
  Proof.
    intros Hp. apply valueOf__old; [apply (p_ids _ P)| |exact Hp].
    intros m Hm. destruct (U_old m Hm) as (A1&_&A3&A4). split; [exact A1|]. split; [exact A3|].
    intros Ka. apply A4. intros ->. rewrite Hkmain in Ka. discriminate.
  Qed.

  Local Lemma U_binds3 b' : b' <> b -> binds u !! b' = binds s3 !! b'.
  Proof.
    intros Hne. rewrite (is_binds _ _ Hsame). destruct (c_fields _ _ _ _ C8) as (E & _). rewrite E.
    unfold s7. apply (binds_s7_ne b x s3 root b' Hne).
  Qed.

  Local Lemma S1'_binds b' : b' <> b -> binds s1' !! b' = binds s !! b'.
  Proof. intros Hne. unfold s1', updb. cbn. rewrite lookup_alter_ne by congruence. reflexivity. Qed.

  Local Lemma U_binds b' : b' <> b -> is_Some (binds s !! b') -> binds u !! b' = binds s !! b'.
  Proof.
    intros Hne Hs. rewrite (U_binds3 b' Hne). destruct (if_bd _ _ _ (proj1 IF) b' Hne) as [E|[E _]].
    - rewrite E. apply S1'_binds, Hne.
    - rewrite (S1'_binds b' Hne) in E. rewrite E in Hs. destruct Hs; discriminate.
  Qed.

  Local Lemma U_bdb : b_lhs (bd u b) = b_lhs r0 /\ b_cases (bd u b) = b_cases r0 /\ b_rhs (bd u b) = root.
  Proof.
    destruct Hrec as (r & Hr & Er0).
    assert (E1 : bd s1' b = set b_rhsNodes (fun _ => []) r).
    { unfold s1', updb, bd. cbn. rewrite lookup_alter. change (binds s1) with (binds s). rewrite Hr. reflexivity. }
    assert (Hs1 : is_Some (binds s1' !! b)).
    { unfold s1', updb. cbn. rewrite lookup_alter. change (binds s1) with (binds s). rewrite Hr. eauto. }
    destruct (if_bdb _ _ _ (proj1 IF)) as (L3 & R3 & C3 & _ & _ & S3).
    destruct (bd_s7 b x s3 root (proj2 S3 Hs1)) as (L7 & C7 & R7').
    assert (Eb : bd u b = bd s7 b).
    { unfold bd. rewrite (is_binds _ _ Hsame). destruct (c_fields _ _ _ _ C8) as (E & _). rewrite E. reflexivity. }
    rewrite Eb. unfold s7. rewrite L7, C7, R7', L3, C3, E1, Er0. auto.
  Qed.

  Local Lemma Hx : x = valueOf s (b_lhs r0).
  Proof. unfold x, s1'. rewrite valueOf_updb. unfold s1. apply valueOf_stamped. intros y. repeat split. Qed.

  Local Lemma Hnextu : next u = next s3.
  Proof. rewrite (is_next _ _ Hsame). destruct (c_fields _ _ _ _ C8) as (_ & E & _). rewrite E. reflexivity. Qed.

  Local Lemma Hhaslhs : has s (b_lhs r0).
  Proof.
    destruct Hrec as (r & Hr & Er0). apply (io_decl _ (p_ids _ P) b).
    rewrite (bw_decl_lhs _ _ _ (p_binds _ P b r Hr)), Er0. left.
  Qed.

  Local Lemma U_read3 b' : b_cases (bd u b') = b_cases (bd s3 b') /\ b_main (bd u b') = b_main (bd s3 b') /\
                           b_lhs (bd u b') = b_lhs (bd s3 b').
  Proof.
    destruct (decide (b' = b)) as [->|Hne].
    - assert (Eb : bd u b = bd s7 b).
      { unfold bd. rewrite (is_binds _ _ Hsame). destruct (c_fields _ _ _ _ C8) as (E & _). rewrite E. reflexivity. }
      rewrite Eb. unfold s7. rewrite (bd_s7_main b x s3 root).
      destruct Hrec as (r & Hr & Er0).
      assert (Hs1 : is_Some (binds s1' !! b)).
      { unfold s1', updb. cbn. rewrite lookup_alter. change (binds s1) with (binds s). rewrite Hr. eauto. }
      destruct (if_bdb _ _ _ (proj1 IF)) as (_ & _ & _ & _ & _ & S3).
      destruct (bd_s7 b x s3 root (proj2 S3 Hs1)) as (L7 & C7 & _). auto.
    - unfold bd. rewrite (U_binds3 b' Hne). auto.
  Qed.

  Local Lemma U_match : matchesOK u b = true.
  Proof.
    unfold matchesOK. destruct U_bdb as (E1 & E2 & E3). rewrite E1, E2, E3. rewrite (U_valueOf _ Hhaslhs), <- Hx.
    pose proof (inst_size b x _ true s1' s3 root Hcase Einst) as Hsz.
    apply (matches_transport b x _ root s3 u _ Hcase).
    - refine (opt_match_impl root _ _ _ _ _ _ (proj2 IF)); [auto|intros [E _]; exact E].
    - rewrite Hnextu. lia.
    - intros m. destruct (U_from3 m) as (A1&A2&_). auto.
    - intros m Hkm. destruct (U_from3 m) as (_&_&_&A4). apply A4. intros ->.
      destruct (S3_static (S b) Hhasmain) as (K3 & _). rewrite K3, Hkmain in Hkm. discriminate.
    - intros m. apply (U_from3 m).
    - apply U_read3.
  Qed.

  Local Lemma U_kind m : nkind (nd u m) = nkind (nd s7 m).
  Proof. destruct (is_node _ _ Hsame m) as (->&_). apply (c_static _ _ _ _ C8 m). Qed.

  Local Lemma U_newq m : inGraph (nd s m) = false -> inGraph (nd u m) = true -> m <> b ->
    recomputedAt (nd s m) = 0 -> staleK (nkind (nd u m)) = true -> inHeap u m = true.
  Proof.
    intros H1 H2 Hmb Hr Hk'. rewrite U_heap. apply (c_newq _ _ _ _ C8 m).
    - rewrite S7_ingraph. exact H1.
    - rewrite <- U_ingraph. exact H2.
    - rewrite (proj1 (S7_stamps m Hmb)). exact Hr.
    - pose proof (t_valid _ _ _ (p_t _ PU) m H2) as Hvu. destruct (Hval m) as [E|[E _]]; [|congruence].
      destruct (c_static _ _ _ _ C8 m) as (_&_&_&Ev&_). congruence.
    - rewrite <- U_kind. exact Hk'.
  Qed.
  (** ** the tail *)
  Local Lemma Hku : stabNum u = k.
  Proof.
    rewrite (is_stabNum _ _ Hsame). destruct (c_fields _ _ _ _ C8) as (_ & _ & E). rewrite E.
    change (stabNum s3 = k). destruct (if_fields _ _ _ (proj1 IF)) as (_&_&_&_&_&E'&_). rewrite E'. reflexivity.
  Qed.

  Local Lemma IU : HeapSpec.inv (heap u). Proof. exact (proj1 (PInv_heap u PU)). Qed.

  Local Lemma TPs : tailPost u b s' imm.
  Proof. exact (proj2 (tailR_spec u b s' None imm IU Htail)). Qed.

  Local Lemma Hbu : has u b.
  Proof. apply has_inGraph. apply U_b. Qed.

  Local Lemma S'nd m : m <> b -> nd s' m = nd u m.
  Proof.
    intros Hm. destruct (tp_shape _ _ _ _ TPs) as (w & h & E). rewrite E.
    change (nd (upd u b (set changedAt (fun _ => stabNum u))) m = nd u m). apply nd_upd_ne, Hm.
  Qed.

  Local Lemma S'b : nd s' b = nd u b <| changedAt := k |>.
  Proof.
    destruct (tp_shape _ _ _ _ TPs) as (w & h & E). rewrite E.
    change (nd (upd u b (set changedAt (fun _ => stabNum u))) b = nd u b <| changedAt := k |>).
    rewrite nd_upd_eq by exact Hbu. rewrite Hku. reflexivity.
  Qed.

  Local Lemma S'proj {A} (g : node -> A) : (forall y f, g (set changedAt f y) = g y) -> forall m, g (nd s' m) = g (nd u m).
  Proof.
    intros Hg' m. destruct (decide (m = b)) as [->|Hm]; [rewrite S'b; apply Hg'|rewrite (S'nd m Hm); reflexivity].
  Qed.

  Local Lemma S'fields : binds s' = binds u /\ next s' = next u /\ stabNum s' = k /\
                        setDuring s' = setDuring u /\ setRemoved s' = setRemoved u.
  Proof. destruct (tp_shape _ _ _ _ TPs) as (w & h & E). rewrite E. cbn. rewrite Hku. auto. Qed.

  Local Lemma S'has m : has s' m <-> has u m.
  Proof. destruct (tp_shape _ _ _ _ TPs) as (w & h & E). rewrite E. unfold has. cbn. apply has_upd. Qed.

  Local Lemma HSU : Struct u. Proof. exact (PInv_Struct u PU). Qed.
  Local Lemma HS' : Struct s'. Proof. exact (PInv_Struct s' P'). Qed.

  Local Lemma Hkbu : nkind (nd u b) = KBindLhs b.
  Proof. rewrite U_kind. exact Hkb7. Qed.

  (* the only dependent of a lhs-change node is its main node *)
  Local Lemma Hchildren c : c ∈ children (nd u b) -> c = S b.
  Proof.
    intros Hc. assert (Hgc : inGraph (nd u c) = true) by (apply (child_reg u HSU b c Hc)).
    assert (Hp : b ∈ parents (nd u c)) by (apply (st_edge _ HSU); exact Hc).
    apply (st_par _ HSU c b Hgc) in Hp.
    exact (sc_lhs _ (p_scoping _ PU) c b b Hp Hkbu).
  Qed.

  Local Lemma Himm : imm = None.
  Proof.
    apply option_none_of. intros c Ei.
    destruct (tp_imm _ _ _ _ TPs c Ei) as [Hnq Hcan].
    assert (Hc : c ∈ children (nd u b)).
    { destruct (proj1 (tp_mem _ _ _ _ TPs c) (or_intror Ei)) as [Hq|[Hc _]]; [|exact Hc].
      exfalso. apply Hnq, (tp_mono _ _ _ _ TPs), Hq. }
    pose proof (Hchildren c Hc) as ->.
    unfold canRecomputeImmediately in Hcan.
    assert (Hkm : nkind (nd s' (S b)) = KBindMain b).
    { rewrite (S'proj nkind) by reflexivity. destruct (U_old (S b) Hhasmain) as (E&_). rewrite E. exact Hkmain. }
    rewrite Hkm in Hcan. discriminate.
  Qed.
  Local Lemma IS' : HeapSpec.inv (heap s'). Proof. exact (proj1 (PInv_heap s' P')). Qed.

  Local Lemma S'heap y : y ∈ Heap.ids (heap s') <->
    y ∈ Heap.ids (heap u) \/ (y ∈ children (nd u b) /\ owedC s' y = true).
  Proof.
    rewrite <- (tp_mem _ _ _ _ TPs y). split; [auto|]. intros [H|H]; [exact H|]. rewrite Himm in H. discriminate.
  Qed.

  Local Lemma S'heap_fwd m : inHeap u m = true -> inHeap s' m = true.
  Proof. intros H. apply (inHeap_iff0 s' m IS'), S'heap. left. apply (inHeap_iff0 u m IU), H. Qed.

  Local Lemma S'heap_rev m : inHeap s' m = true -> inHeap u m = true \/ m = S b.
  Proof.
    intros H. apply (inHeap_iff0 s' m IS'), S'heap in H as [H|[H _]].
    - left. apply (inHeap_iff0 u m IU), H.
    - right. apply Hchildren, H.
  Qed.

  Local Lemma S'ingraph m : inGraph (nd s' m) = inGraph (nd u m).
  Proof. apply (S'proj inGraph). reflexivity. Qed.

  Local Lemma keep_valid m : inGraph (nd s' m) = true -> valid (nd u m) = true /\ valid (nd s m) = true.
  Proof.
    rewrite S'ingraph. intros Hgm. pose proof (t_valid _ _ _ (p_t _ PU) m Hgm) as Hv. split; [exact Hv|].
    destruct (U_valid m) as [E|[E _]]; congruence.
  Qed.

  Local Lemma keep_stamps m : m <> b -> inGraph (nd s' m) = true ->
    recomputedAt (nd s' m) = recomputedAt (nd s m) /\ changedAt (nd s' m) = changedAt (nd s m).
  Proof.
    intros Hm Hgm. rewrite (S'nd m Hm). destruct (keep_valid m Hgm) as [Hv _]. rewrite S'ingraph in Hgm.
    destruct (U_stamps m Hm) as [(A&B&_)|[(A&_)|(A&_)]]; [auto|congruence|congruence].
  Qed.

  Local Lemma Hkpos : 1 <= k. Proof. apply (st_num s (p_stamps s P)). Qed.

  Local Lemma Hstamps_s n : 0 <= changedAt (nd s n) <= k /\ 0 <= recomputedAt (nd s n) <= k /\
                            (changedAt (nd s n) = k -> recomputedAt (nd s n) = k).
  Proof. apply stamps_node_false, (lc_stamps _ _ L). Qed.

  (* old registered nodes keep their declared inputs, hence their incoming edges *)
  Local Lemma S'decl m : has s m -> m <> S b -> decl (nd s' m) = decl (nd s m).
  Proof. intros Hm Hne. rewrite (S'proj decl) by reflexivity. apply (U_old m Hm), Hne. Qed.

  Local Lemma S'parents c p : inGraph (nd s c) = true -> inGraph (nd s' c) = true -> c <> S b ->
    (p ∈ parents (nd s' c) <-> p ∈ parents (nd s c)).
  Proof.
    intros H1 H2 Hne. rewrite (st_par _ HS' c p H2), (st_par _ HS c p H1), (S'decl c (has_inGraph _ _ H1) Hne). reflexivity.
  Qed.

  Local Lemma back_edge a c : edge s' a c -> inGraph (nd s c) = true -> c <> S b -> edge s a c.
  Proof.
    intros He Hgc Hne. destruct (edge_reg s' HS' _ _ He) as [_ Hgc'].
    apply (st_edge _ HS). apply (S'parents c a Hgc Hgc' Hne). apply (st_edge _ HS'). exact He.
  Qed.

  Local Lemma path_back w n : reach s' w n -> inGraph (nd s n) = true -> reach s w n \/ reach s (S b) n.
  Proof.
    unfold reach. intros Hr. revert n Hr.
    apply (rtc_ind_r (fun n => inGraph (nd s n) = true -> rtc (edge s) w n \/ rtc (edge s) (S b) n)).
    - intros _. left. apply rtc_refl.
    - intros a n Hwa Han IH Hgn.
      destruct (decide (n = S b)) as [->|Hne]; [right; apply rtc_refl|].
      pose proof (back_edge a n Han Hgn Hne) as He. destruct (edge_reg s HS _ _ He) as [Hga _].
      destruct (IH Hga) as [H|H]; [left|right]; eapply rtc_r; eauto.
  Qed.

  Local Lemma Hgmain : inGraph (nd s (S b)) = true.
  Proof. rewrite <- S7_ingraph. exact Hmain7. Qed.

  Local Lemma Hedge_bmain : edge s b (S b).
  Proof. apply (decl_parent s HS _ _ Hgmain). rewrite Hdeclmain. left. Qed.
  Local Lemma S'k : stabNum s' = k. Proof. apply S'fields. Qed.

  (** ** the clauses *)
  Local Lemma C_stamps n : stamps_node s' false n = true.
  Proof.
    destruct (st_le s' (p_stamps s' P') n) as (Hr & Hc & _). rewrite S'k in Hr, Hc.
    apply stamps_node_false_intro; rewrite ?S'k; try assumption.
    intros Ec. destruct (decide (n = b)) as [->|Hne].
    - rewrite S'b. cbn. apply U_b.
    - rewrite (S'nd n Hne) in *. destruct (U_stamps n Hne) as [(A&B&_)|[(_&A&B)|(_&A)]].
      + rewrite A. apply (Hstamps_s n). congruence.
      + pose proof Hkpos. lia.
      + congruence.
  Qed.

  Local Lemma S'done_b : isDone s' b = true.
  Proof. apply isDone_iff. rewrite S'k, S'b. cbn. apply U_b. Qed.

  (* a node other than [b] that is done after the step was registered and done before it, or is out of the graph *)
  Local Lemma done_old n : n <> b -> isDone s' n = true ->
    inGraph (nd s' n) = false \/ (inGraph (nd s n) = true /\ isDone s n = true).
  Proof.
    intros Hne Hd. apply isDone_iff in Hd. rewrite S'k in Hd.
    destruct (inGraph (nd s' n)) eqn:Eg; [right|left; reflexivity].
    destruct (keep_stamps n Hne Eg) as [Er _]. destruct (keep_valid n Eg) as [_ Hvs].
    assert (Hds : isDone s n = true) by (apply isDone_iff; fold k; congruence).
    split; [|exact Hds]. destruct (inGraph (nd s n)) eqn:Egs; [reflexivity|exfalso].
    destruct (lc_unreg _ _ L n Egs Hvs) as [E0 _]. apply isDone_iff in Hds. fold k in Hds. pose proof Hkpos. lia.
  Qed.

  Local Lemma queued_cases w : inHeap s' w = true -> inHeap s w = true \/ w = S b \/ inGraph (nd s w) = false.
  Proof. intros Hq. destruct (S'heap_rev w Hq) as [Hu| ->]; [apply U_rev, Hu|auto]. Qed.

  Local Lemma no_reach_unreg w n : inGraph (nd s w) = false -> reach s w n -> w = n.
  Proof.
    intros Hgw Hr. destruct Hr as [|w a n Hwa _]; [reflexivity|exfalso].
    destruct (edge_reg s HS _ _ Hwa) as [E _]. congruence.
  Qed.

  Local Lemma C_B w n : inW s' None w = true -> reach s' w n -> isDone s' n = false.
  Proof.
    intros Hw Hr. unfold inW in Hw. rewrite orb_false_r in Hw.
    destruct (isDone s' n) eqn:Hd; [exfalso|reflexivity].
    assert (Hgw' : inGraph (nd s' w) = true) by (apply (proj2 (PInv_heap s' P') w), (inHeap_iff0 s' w IS'), Hw).
    assert (HbW : inW s (Some b) b = true) by (apply inW_iff; [apply (PInv_heap s P)|right; reflexivity]).
    (* the end of the path is registered after the step *)
    assert (Hgn' : inGraph (nd s' n) = true) by (apply (reach_reg s' HS' w n Hr Hgw')).
    assert (Hgn : inGraph (nd s n) = true /\ (n = b \/ isDone s n = true)).
    { destruct (decide (n = b)) as [->|Hne]; [split; [exact Hg|left; reflexivity]|].
      destruct (done_old n Hne Hd) as [E|[E1 E2]]; [congruence|auto]. }
    destruct Hgn as [Hgn Hdn].
    assert (Hmain_case : reach s (S b) n -> False).
    { intros Hm. assert (Hbn : reach s b n) by (eapply rtc_l; [exact Hedge_bmain|exact Hm]).
      destruct Hdn as [->|Hdn].
      - exact (parent_not_reach s HS (S b) b ltac:(apply (st_edge _ HS); exact Hedge_bmain) Hm).
      - pose proof (lc_B _ _ L b n HbW Hbn). congruence. }
    destruct (path_back w n Hr Hgn) as [Hwn|Hm]; [|exact (Hmain_case Hm)].
    destruct (queued_cases w Hw) as [Hq|[->|Hgw]].
    - destruct Hdn as [->|Hdn].
      + apply (lc_M _ _ L b w eq_refl); [apply (inHeap_iff0 s w (proj1 (PInv_heap s P))), Hq|exact Hwn].
      + pose proof (lc_B _ _ L w n ltac:(unfold inW; rewrite Hq; reflexivity) Hwn). congruence.
    - exact (Hmain_case Hwn).
    - pose proof (no_reach_unreg w n Hgw Hwn) as ->. congruence.
  Qed.
  Local Lemma U_declmain : decl (nd u (S b)) = b :: option_list root.
  Proof.
    destruct (is_node _ _ Hsame (S b)) as (_ & -> & _). destruct (c_static _ _ _ _ C8 (S b)) as (_ & -> & _).
    unfold s7, s7_of. rewrite nd_upd_eq; [reflexivity|].
    change (has s3 (S b)). unfold has. rewrite (if_old _ _ _ (proj1 IF) (S b)) by (left; apply (Hlts _ Hhasmain)).
    unfold s1'. rewrite <- (has_updb s1 b (set b_rhsNodes (fun _ => [])) (S b)). unfold s1. apply has_upd. exact Hhasmain.
  Qed.

  Local Lemma S'edge_bmain : edge s' b (S b).
  Proof.
    assert (Hgm : inGraph (nd s' (S b)) = true) by (rewrite S'ingraph; exact U_main).
    apply (decl_parent s' HS' _ _ Hgm). rewrite (S'proj decl) by reflexivity. rewrite U_declmain. left.
  Qed.

  Local Lemma Hmain_notdone : recomputedAt (nd s (S b)) < k.
  Proof.
    assert (HbW : inW s (Some b) b = true) by (apply inW_iff; [apply (PInv_heap s P)|right; reflexivity]).
    pose proof (lc_B _ _ L b (S b) HbW (rtc_once _ _ Hedge_bmain)) as Hd. unfold isDone in Hd. apply Z.eqb_neq in Hd.
    fold k in Hd. pose proof (Hstamps_s (S b)). lia.
  Qed.

  Local Lemma Hne_bmain : S b <> b. Proof. lia. Qed.

  Local Lemma S'kind_main : nkind (nd s' (S b)) = KBindMain b.
  Proof. rewrite (S'proj nkind) by reflexivity. destruct (U_old (S b) Hhasmain) as (E&_). rewrite E. exact Hkmain. Qed.

  Local Lemma S'stale_main : isStale s' (S b) = true.
  Proof.
    assert (Hgm : inGraph (nd s' (S b)) = true) by (rewrite S'ingraph; exact U_main).
    unfold isStale. rewrite (S'proj valid) by reflexivity. rewrite (proj1 (keep_valid (S b) Hgm)), S'kind_main. simpl.
    apply orb_true_iff. right. unfold staleWrtParents. apply existsb_elem. exists b. split.
    - apply (st_edge _ HS'). exact S'edge_bmain.
    - apply Z.gtb_lt. rewrite S'b. cbn. destruct (keep_stamps (S b) Hne_bmain Hgm) as [-> _]. exact Hmain_notdone.
  Qed.

  Local Lemma S'main_q : inHeap s' (S b) = true.
  Proof.
    apply (inHeap_iff0 s' _ IS'), S'heap.
    destruct (decide (S b ∈ Heap.ids (heap u))) as [Hin|Hnin]; [left; exact Hin|right].
    assert (Hgm : inGraph (nd s' (S b)) = true) by (rewrite S'ingraph; exact U_main).
    split.
    - apply (st_edge _ HSU). apply (st_par _ HSU (S b) b U_main). rewrite U_declmain. left.
    - unfold owedC. rewrite <- (st_nec _ HS'), Hgm. rewrite (S'proj valid) by reflexivity.
      rewrite (proj1 (keep_valid (S b) Hgm)), S'kind_main. simpl. exact S'stale_main.
  Qed.

  (* in [s], the only dependent of [b] is the main node *)
  Local Lemma parent_b_main n : inGraph (nd s n) = true -> b ∈ parents (nd s n) -> n = S b.
  Proof. intros Hgn Hp. apply (st_par _ HS n b Hgn) in Hp. exact (sc_lhs _ (p_scoping _ P) n b b Hp Hk). Qed.

  Local Lemma stale_same n : inGraph (nd s n) = true -> inGraph (nd s' n) = true -> n <> b -> n <> S b ->
    isStale s' n = isStale s n.
  Proof.
    intros H1 H2 Hb1 Hb2. destruct (keep_stamps n Hb1 H2) as [Er Ec]. destruct (keep_valid n H2) as [Hvu Hvs].
    unfold isStale. rewrite (S'proj valid) by reflexivity. rewrite Hvu, Hvs, Er.
    rewrite (S'proj nkind) by reflexivity. destruct (U_old n (has_inGraph _ _ H1)) as (Ek&_). rewrite Ek.
    assert (Hsw : staleWrtParents s' (nd s' n) = staleWrtParents s (nd s n)).
    { unfold staleWrtParents. apply eq_true_iff_eq. rewrite !existsb_elem. rewrite Er.
      split; intros (p & Hp & Hc).
      - apply (S'parents n p H1 H2 Hb2) in Hp. exists p. split; [exact Hp|].
        assert (Hpb : p <> b) by (intros ->; apply Hb2, (parent_b_main n H1 Hp)).
        assert (Hgp' : inGraph (nd s' p) = true).
        { apply (edge_reg s' HS' p n). apply (st_edge _ HS'). apply (S'parents n p H1 H2 Hb2). exact Hp. }
        destruct (keep_stamps p Hpb Hgp') as [_ Ecq]. rewrite <- Ecq. exact Hc.
      - assert (Hpb : p <> b) by (intros ->; apply Hb2, (parent_b_main n H1 Hp)).
        assert (Hp' : p ∈ parents (nd s' n)) by (apply (S'parents n p H1 H2 Hb2); exact Hp).
        exists p. split; [exact Hp'|].
        assert (Hgp' : inGraph (nd s' p) = true) by (apply (edge_reg s' HS' p n), (st_edge _ HS'), Hp').
        destruct (keep_stamps p Hpb Hgp') as [_ Ecq]. rewrite Ecq. exact Hc. }
    rewrite Hsw. reflexivity.
  Qed.

  Local Lemma newly_reg_zero n : inGraph (nd s n) = false -> inGraph (nd s' n) = true -> recomputedAt (nd s n) = 0.
  Proof. intros H1 H2. destruct (keep_valid n H2) as [_ Hvs]. apply (lc_unreg _ _ L n H1 Hvs). Qed.

  Local Lemma C_owed n : inGraph (nd s' n) = true -> isDone s' n = false -> isStale s' n = true ->
    inW s' None n = true.
  Proof.
    intros Hgn Hd Hs. unfold inW. rewrite orb_false_r.
    assert (Hnb : n <> b) by (intros ->; rewrite S'done_b in Hd; discriminate).
    destruct (decide (n = S b)) as [->|Hnm]; [exact S'main_q|].
    assert (Hgu : inGraph (nd u n) = true) by (rewrite <- S'ingraph; exact Hgn).
    destruct (inGraph (nd s n)) eqn:Egs.
    - rewrite (stale_same n Egs Hgn Hnb Hnm) in Hs.
      assert (Hds : isDone s n = false).
      { unfold isDone in *. destruct (keep_stamps n Hnb Hgn) as [Er _]. rewrite S'k, Er in Hd. exact Hd. }
      pose proof (lc_owed _ _ L n Egs Hds Hs) as Hw. unfold inW in Hw. apply orb_true_iff in Hw as [Hq|Hq].
      + apply S'heap_fwd, (U_fwd n Hgu Hq).
      + apply bool_decide_eq_true in Hq. congruence.
    - apply S'heap_fwd. apply (U_newq n Egs Hgu Hnb (newly_reg_zero n Egs Hgn)).
      unfold isStale in Hs. rewrite (S'nd n Hnb) in Hs. destruct (nkind (nd u n)); try reflexivity.
      rewrite andb_false_r in Hs. discriminate.
  Qed.
  Local Lemma S'old m : has s m ->
    nkind (nd s' m) = nkind (nd s m) /\ scope (nd s' m) = scope (nd s m) /\ value (nd s' m) = value (nd s m) /\
    (m <> S b -> decl (nd s' m) = decl (nd s m)).
  Proof.
    intros Hm. rewrite (S'proj nkind), (S'proj scope), (S'proj value), (S'proj decl) by reflexivity. apply (U_old m Hm).
  Qed.

  Local Lemma S'valueOf p : has s p -> valueOf s' p = valueOf s p.
  Proof.
    intros Hp. rewrite <- (U_valueOf p Hp). apply valueOf_ext. intros n.
    rewrite (S'proj nkind), (S'proj decl), (S'proj value) by reflexivity. auto.
  Qed.

  Local Lemma S'bd b' : b' <> b -> is_Some (binds s !! b') -> bd s' b' = bd s b'.
  Proof. intros Hne Hs. unfold bd. rewrite (proj1 S'fields), (U_binds b' Hne Hs). reflexivity. Qed.

  Local Lemma S'read b1 : is_Some (binds s !! b1) ->
    b_cases (bd s' b1) = b_cases (bd s b1) /\ b_main (bd s' b1) = b_main (bd s b1) /\ b_lhs (bd s' b1) = b_lhs (bd s b1).
  Proof.
    intros Hs. destruct (decide (b1 = b)) as [->|Hne]; [|rewrite (S'bd b1 Hne Hs); auto].
    assert (E0 : bd s' b = bd u b) by (unfold bd; rewrite (proj1 S'fields); reflexivity). rewrite E0.
    destruct (U_read3 b) as (A1 & A2 & A3). destruct (if_bdb _ _ _ (proj1 IF)) as (L3 & _ & C3 & _ & M3 & _).
    destruct Hrec as (r & Hr & Er0).
    assert (E1 : bd s1' b = set b_rhsNodes (fun _ => []) (bd s b)).
    { unfold s1', updb, bd. cbn. rewrite lookup_alter. change (binds s1) with (binds s). rewrite Hr. reflexivity. }
    rewrite A1, A2, A3, C3, M3, L3, E1. auto.
  Qed.

  Local Lemma cvB_same n v : has s n -> n <> S b -> consistent_valB s' n v = consistent_valB s n v.
  Proof.
    intros Hn Hne. destruct (S'old n Hn) as (Ek & _ & _ & Ed). specialize (Ed Hne).
    assert (Hv : forall p, p ∈ decl (nd s n) -> valueOf s' p = valueOf s p).
    { intros p Hp. apply S'valueOf. apply (io_decl _ (p_ids _ P) n p Hp). }
    unfold consistent_valB. rewrite Ek, Ed. destruct (nkind (nd s n)) eqn:K; try reflexivity.
    - destruct (decl (nd s n)) as [|a [|]]; try reflexivity. rewrite Hv by left. reflexivity.
    - destruct (decl (nd s n)) as [|a [|c [|]]]; try reflexivity. rewrite (Hv a), (Hv c) by (repeat constructor). reflexivity.
    - f_equal. f_equal. apply map_ext_in. intros p Hp. apply Hv, elem_of_list_In, Hp.
    - destruct (decl (nd s n)) as [|a [|]]; try reflexivity. rewrite Hv by left. reflexivity.
    - destruct (bb_main _ HB n b0 K) as (En & _ & _).
      assert (Hb0 : b0 <> b) by (intros ->; apply Hne; exact En).
      assert (Hs0 : is_Some (binds s !! b0)).
      { pose proof (p_kinds s P n Hn) as Kk. rewrite K in Kk. apply Kk. }
      rewrite (S'bd b0 Hb0 Hs0). destruct (b_rhs (bd s b0)) as [r|] eqn:Er; [|reflexivity].
      rewrite Hv; [reflexivity|]. apply (bb_rhs_decl s HB n b0 r K Er).
  Qed.

  Local Lemma Hnext_le : (next s <= next s')%nat.
  Proof. rewrite (proj1 (proj2 S'fields)), Hnextu. apply (if_next _ _ _ (proj1 IF)). Qed.

  Local Lemma lhs_match_same b' : b' <> b -> nkind (nd s b') = KBindLhs b' -> has s b' ->
    matchesOK s b' = true -> matchesOK s' b' = true.
  Proof.
    intros Hne Kb Hb' Hm. unfold matchesOK in *.
    assert (Hsb' : is_Some (binds s !! b')).
    { pose proof (p_kinds s P b' Hb') as Kk. rewrite Kb in Kk. apply Kk. }
    rewrite (S'bd b' Hne Hsb').
    assert (Hl : has s (b_lhs (bd s b'))).
    { apply (io_decl _ (p_ids _ P) b'). destruct (bb_lhs _ HB b' b' Kb) as [_ ->]. left. }
    rewrite (S'valueOf _ Hl).
    pose proof (p_kinds s P b' Hb') as Kk. rewrite Kb in Kk. destruct Kk as [_ [r Hr]].
    assert (Hp : tplain true (select (b_cases (bd s b')) (valueOf s (b_lhs (bd s b')))) = true).
    { apply select_tplain. unfold bd. rewrite Hr. apply (TP b' r Hr). }
    apply (matches_mono (next s + 64)); [pose proof Hnext_le; lia|].
    apply (matches_old _ s s' b' _ _ _ true Hp); [| |exact Hm].
    - intros m Hmm _. destruct (S'old m Hmm) as (A1&A2&A3&A4). repeat split; try assumption.
      intros Hbk. apply A4. intros ->. rewrite Hkmain in Hbk. discriminate.
    - intros m b1 Hmm Km. apply S'read. pose proof (p_kinds s P m Hmm) as Kk. rewrite Km in Kk. apply Kk.
  Qed.
  Local Lemma S'match_b : matchesOK s' b = true.
  Proof.
    rewrite <- U_match. destruct S'fields as (Eb & En & _).
    apply matchesOK_ext; try assumption.
    - intros m. rewrite (S'proj nkind), (S'proj decl), (S'proj scope) by reflexivity. auto.
    - intros m _. apply (S'proj value). reflexivity.
    - apply valueOf_ext. intros m. rewrite (S'proj nkind), (S'proj decl), (S'proj value) by reflexivity. auto.
  Qed.

  Local Lemma C_clean n : inGraph (nd s' n) = true -> inW s' None n = false -> guarded s' None n = true ->
    clean_ok s' n = true.
  Proof.
    intros Hgn Hw Hgd. unfold inW in Hw. rewrite orb_false_r in Hw.
    destruct (decide (n = b)) as [->|Hnb].
    - unfold clean_ok. assert (Ekb : nkind (nd s' b) = KBindLhs b) by (rewrite (S'proj nkind) by reflexivity; exact Hkbu).
      unfold consistent_valB. rewrite Ekb. simpl. rewrite S'match_b. rewrite !orb_true_r. reflexivity.
    - destruct (decide (n = S b)) as [->|Hnm]; [rewrite S'main_q in Hw; discriminate|].
      assert (Hgu : inGraph (nd u n) = true) by (rewrite <- S'ingraph; exact Hgn).
      destruct (inGraph (nd s n)) eqn:Egs.
      + (* registered before and after *)
        assert (Hn : has s n) by (apply has_inGraph; exact Egs).
        destruct (keep_stamps n Hnb Hgn) as [Ern _].
        assert (Hqs : inHeap s n = false).
        { destruct (inHeap s n) eqn:E; [|reflexivity]. rewrite (S'heap_fwd n (U_fwd n Hgu E)) in Hw. discriminate. }
        assert (Hgd0 : guarded s (Some b) n = true).
        { unfold guarded in *. apply forallb_intro. intros p Hp.
          assert (Hp' : p ∈ parents (nd s' n)) by (apply (S'parents n p Egs Hgn Hnm); exact Hp).
          pose proof (forallb_elem _ _ _ Hgd Hp') as Hb'. cbv beta in Hb'. apply andb_true_iff in Hb' as [H1 H2].
          assert (Hpb : p <> b) by (intros ->; apply Hnm, (parent_b_main n Egs Hp)).
          assert (Hgp' : inGraph (nd s' p) = true) by (apply (edge_reg s' HS' p n), (st_edge _ HS'), Hp').
          destruct (keep_stamps p Hpb Hgp') as [Erp Ecp']. rewrite Ecp', Ern in H1.
          apply andb_true_iff. split; [exact H1|]. apply negb_true_iff in H2. apply negb_true_iff.
          assert (Hhp : has s p) by (apply has_inGraph, (edge_reg s HS p n), (parent_edge s HS), Hp).
          unfold volq in *. destruct (S'old p Hhp) as (Ekp & _). rewrite Ekp in H2.
          destruct (nkind (nd s p)); try reflexivity.
          * unfold inW in *. rewrite orb_false_r in H2. apply orb_false_iff. split.
            -- destruct (inHeap s p) eqn:E; [|reflexivity].
               assert (Hgpu : inGraph (nd u p) = true) by (rewrite <- S'ingraph; exact Hgp').
               rewrite (S'heap_fwd p (U_fwd p Hgpu E)) in H2. discriminate.
            -- apply bool_decide_eq_false. congruence.
          * rewrite Erp, S'k in H2. exact H2. }
        assert (Hw0 : inW s (Some b) n = false).
        { unfold inW. rewrite Hqs. apply bool_decide_eq_false. congruence. }
        pose proof (lc_clean _ _ L n Egs Hw0 Hgd0) as Hc. unfold clean_ok in *.
        apply andb_true_iff in Hc as [Hc1 Hc2]. destruct (S'old n Hn) as (Ekn & _ & Evn & _).
        rewrite Evn, (cvB_same n _ Hn Hnm), Hc1, Ekn. simpl.
        destruct (nkind (nd s n)) eqn:Kn; try reflexivity.
        pose proof (p_kinds s P n Hn) as Kk. rewrite Kn in Kk. destruct Kk as [-> _].
        assert (Hgm0 : inGraph (nd s (S b0)) = true) by (apply (lhs_main_reg_P s b0 P Kn Egs)).
        pose proof (p_kinds s P b0 Hn) as Kk. rewrite Kn in Kk. destruct Kk as [_ [r Hr]].
        pose proof (bw_kind_main _ _ _ (p_binds _ P b0 r Hr)) as Kmain.
        rewrite Hgm0, Kmain in Hc2. rewrite !bool_decide_eq_true_2 in Hc2 by reflexivity. simpl in Hc2.
        rewrite (lhs_match_same b0 Hnb Kn Hn Hc2). rewrite !orb_true_r. reflexivity.
      + (* newly registered: a var (anything else is queued) *)
        assert (Hku' : nkind (nd s' n) = nkind (nd u n)) by (apply (S'proj nkind); reflexivity).
        destruct (staleK (nkind (nd u n))) eqn:Est.
        * rewrite (S'heap_fwd n (U_newq n Egs Hgu Hnb (newly_reg_zero n Egs Hgn) Est)) in Hw. discriminate.
        * unfold clean_ok, consistent_valB. rewrite Hku'. destruct (nkind (nd u n)); try discriminate Est. reflexivity.
  Qed.

  Local Lemma C_unreg n : inGraph (nd s' n) = false -> valid (nd s' n) = true ->
    recomputedAt (nd s' n) = 0 /\ changedAt (nd s' n) = 0.
  Proof.
    intros Hgn Hv.
    assert (Hnb : n <> b) by (intros ->; rewrite S'ingraph in Hgn; destruct U_b as (_&_&E); congruence).
    rewrite (S'nd n Hnb) in *.
    assert (Hvs : valid (nd s n) = true) by (destruct (U_valid n) as [E|[E _]]; congruence).
    destruct (U_stamps n Hnb) as [(A&B&C)|[(_&A&B)|(A&_)]]; [|auto|congruence].
    rewrite A, B. apply (lc_unreg _ _ L n); [|exact Hvs].
    destruct (inGraph (nd s n)) eqn:E; [|reflexivity]. rewrite (C eq_refl) in Hgn. discriminate.
  Qed.

  Local Lemma C_quiet : setDuring s' = [] /\ setRemoved s' = [].
  Proof.
    destruct S'fields as (_ & _ & _ & -> & ->). rewrite (is_setDuring _ _ Hsame), (is_setRemoved _ _ Hsame).
    apply (c_quiet _ _ _ _ C8).
    - change (setDuring s3 = []). destruct (if_fields _ _ _ (proj1 IF)) as (_&_&_&_&_&_&_&_&E&_). rewrite E. apply (lc_quiet _ _ L).
    - change (setRemoved s3 = []). destruct (if_fields _ _ _ (proj1 IF)) as (_&_&_&_&_&_&_&_&_&E&_). rewrite E. apply (lc_quiet _ _ L).
  Qed.
  Local Lemma U_has m : has u m <-> has s3 m.
  Proof. rewrite (is_has _ _ Hsame m), (c_has _ _ _ _ C8 m). unfold s7, s7_of. rewrite has_upd. reflexivity. Qed.

  Local Lemma C_shape : Shape s'.
  Proof.
    intros n y E. rewrite <- (nd_lookup _ _ _ E). assert (Hn' : has s' n) by (exists y; exact E).
    apply S'has, U_has in Hn'.
    destruct (decide (has s n)) as [Hn|Hn].
    - destruct (S'old n Hn) as (Ek & _ & Ev & Ed).
      destruct (decide (n = S b)) as [->|Hne].
      + unfold shape_node, arity_ok, cutalways_zero, always_lt. rewrite Ek, Hkmain. reflexivity.
      + rewrite (shape_node_ext n (nd s n) (nd s' n) Ek (Ed Hne) Ev). apply (lc_shape _ _ L n _ (has_lookup _ _ Hn)).
    - destruct IF as [F _].
      assert (Hnew : (next s1' <= n < next s3)%nat).
      { destruct (decide (next s1' <= n < next s3)%nat) as [|Hold]; [assumption|exfalso].
        unfold has in Hn'. rewrite (if_old _ _ _ F n) in Hn' by lia. apply Hn.
        change (has s1' n) in Hn'. unfold s1' in Hn'. rewrite has_updb in Hn'. unfold s1 in Hn'. rewrite has_upd in Hn'. exact Hn'. }
      destruct (if_new _ _ _ F n Hnew) as (k0 & d & v & E3 & _ & Hsh & _).
      assert (Hne : n <> S b) by (intros ->; apply Hn, Hhasmain).
      destruct (U_from3 n) as (A1 & _ & A3 & A4). rewrite (nd_lookup _ _ _ E3) in A1, A3, A4.
      rewrite (shape_node_ext n (fresh_node k0 d (Some b) v) (nd s' n)); [exact Hsh|..].
      + rewrite (S'proj nkind) by reflexivity. exact A1.
      + rewrite (S'proj decl) by reflexivity. apply A4, Hne.
      + rewrite (S'proj value) by reflexivity. exact A3.
  Qed.

  Local Lemma C_cases : CF s s'.
  Proof.
    intros Q HQ HA b' r' Hr. rewrite (proj1 S'fields) in Hr. destruct (decide (b' = b)) as [->|Hne].
    - destruct U_bdb as (_ & Ec & _). unfold bd in Ec. rewrite Hr in Ec. cbn in Ec. rewrite Ec.
      destruct Hrec as (r1 & Hr1 & ->). apply (HA b r1 Hr1).
    - rewrite (U_binds3 b' Hne) in Hr. destruct (if_bd _ _ _ (proj1 IF) b' Hne) as [E|[E _]].
      + rewrite E, (S1'_binds b' Hne) in Hr. apply (HA b' r' Hr).
      + destruct IF3 as (_ & NQ & M).
        destruct (nth_in_or_default (Z.to_nat (x mod Z.of_nat (length (b_cases r0)))) (b_cases r0) TNil) as [Hin|Hd].
        * apply (NQ Q HQ) with (b1 := b'); [|exact Hne|exact Hr|exact E]. unfold select.
          destruct Hrec as (r1 & Hr1 & Er). pose proof (HA b r1 Hr1) as Hall. rewrite Er in Hin.
          rewrite forallb_forall in Hall. rewrite Er. apply Hall, Hin.
        * (* the default case [TNil]: nothing was built *)
          exfalso. assert (Es : select (b_cases r0) x = TNil) by exact Hd.
          assert (E3 : s3 = s1').
          { pose proof Einst as Ei. rewrite Es in Ei. cbn in Ei. injection Ei as <- _. reflexivity. }
          rewrite E3 in Hr. congruence.
  Qed.

  Local Lemma C_tplain : Tplain s'.
  Proof. exact (Tplain_CF s s' C_cases TP). Qed.

  Local Lemma C_done y : isDone s' y = true -> inGraph (nd s' y) = true -> y <> b ->
    has s y /\ isDone s y = true /\ inGraph (nd s y) = true /\ nkind (nd s' y) = nkind (nd s y).
  Proof.
    intros Hd Hgy Hyb. destruct (done_old y Hyb Hd) as [E|[E1 E2]]; [congruence|].
    assert (Hy : has s y) by (apply has_inGraph, E1). split; [exact Hy|]. split; [exact E2|]. split; [exact E1|].
    apply (S'old y Hy).
  Qed.

  Local Lemma C_log : LQ s s'.
  Proof.
    assert (G7 : LQ s s7).
    { exists [EvBindFn b x root]. split; [|constructor; [reflexivity|constructor]].
      change (EvBindFn b x root :: log s3 = [EvBindFn b x root] ++ log s).
      destruct (if_fields _ _ _ (proj1 IF)) as (_&_&_&_&_&_&_&_&_&_&_&_&->). reflexivity. }
    eapply LQ_trans; [exact G7|]. eapply LQ_trans; [exact (LQ_changeParent _ _ _ _ _ _ _ Ecp)|].
    eapply LQ_trans; [exact (inval_opt_LQ fuel _ _ _ _ Eiv)|].
    apply LQ_eq. destruct (tp_shape _ _ _ _ TPs) as (w & h & E). rewrite E. reflexivity.
  Qed.

  Local Lemma C_h7 : handlers s7 = handlers s.
  Proof.
    change (handlers s3 = handlers s). destruct (if_fields _ _ _ (proj1 IF)) as (_&_&_&_&_&_&_&_&_&_&->&_). reflexivity.
  Qed.
  Local Lemma C_cp :
    (forall k, k ∈ handlers t8 -> k ∈ handlers s7 /\ (inGraph (nd s7 k) = true -> inGraph (nd t8 k) = true)) /\
    (forall k, k ∈ handlers s7 -> (inGraph (nd s7 k) = true /\ inGraph (nd t8 k) = true) \/ ~ has s7 k -> k ∈ handlers t8).
  Proof. exact (changeParent_handlers fuel s7 (S b) (b_rhs r0) root t8 Hvc7 (match_opt_intro root _ Hvroot) Hinvq7 Ecp). Qed.
  Local Lemma C_hu : handlers u = handlers t8. Proof. apply (is_handlers _ _ Hsame). Qed.
  Local Lemma C_tail :
    b ∈ handlers s' /\ (forall o, o ∈ observers (nd s' b) -> o ∈ handlers s') /\
    (forall k, k ∈ handlers u -> k ∈ handlers s') /\
    (forall k, k ∈ handlers s' -> k ∈ handlers u \/ k = b \/ k ∈ observers (nd u b)).
  Proof. exact (EngineLocal.C13_changed_node_is_queued_for_handler u b s' None imm Htail). Qed.

  Lemma assemble_frame : bfr s b s'.
  Proof.
    constructor.
    - exact S'k.
    - intros m Hm. apply S'has, U_has.
      assert (Hm1 : has s1' m) by (unfold s1'; rewrite has_updb; unfold s1; rewrite has_upd; exact Hm).
      unfold has. rewrite (if_old _ _ _ (proj1 IF) m) by (left; apply Hlt1, Hm1). exact Hm1.
    - intros m Hm. destruct (S'old m Hm) as (A & _ & B & C). auto.
    - exact S'valueOf.
    - intros m Hm. rewrite (S'nd m Hm). apply (U_stamps m Hm).
    - destruct U_b as (A & _ & B). split; [rewrite S'b; exact A|rewrite S'ingraph; exact B].
    - exact Hedge_bmain.
    - exact C_log.
    - rewrite S'b. reflexivity.
    - intros m Hm. apply (keep_valid m Hm).
    - intros h Hhk. destruct C_tail as (A1 & A2 & A3 & A4). destruct (A4 h Hhk) as [Hu|[->|Ho]]; [|auto|].
      + right. right. rewrite C_hu in Hu. destruct (proj1 C_cp h Hu) as [H7 Hr]. rewrite C_h7 in H7. split; [exact H7|].
        intros Hg'. rewrite S'ingraph, U_ingraph. apply Hr. rewrite S7_ingraph. exact Hg'.
      + right. left. rewrite (S'proj observers) by reflexivity. exact Ho.
    - intros h Hhk Hc. destruct C_tail as (A1 & A2 & A3 & A4). apply A3. rewrite C_hu. apply (proj2 C_cp h).
      + rewrite C_h7. exact Hhk.
      + destruct Hc as [[H1 H2]|[H1 H2]].
        * left. rewrite S7_ingraph. split; [exact H1|]. rewrite <- U_ingraph, <- S'ingraph. exact H2.
        * right. intros H7. apply H1. unfold s7, s7_of in H7. rewrite has_upd in H7.
          change (has s3 h) in H7. unfold has in H7. rewrite (if_old _ _ _ (proj1 IF) h) in H7 by (left; exact H2).
          change (has s1' h) in H7. unfold s1' in H7. rewrite has_updb in H7. unfold s1 in H7. rewrite has_upd in H7. exact H7.
    - destruct C_tail as (A1 & A2 & _). split; [exact A1|exact A2].
    - exact queued_cases.
    - exact done_old.
    - exact S'parents.
    - assert (Hgm : inGraph (nd s' (S b)) = true) by (rewrite S'ingraph; exact U_main).
      split; [exact Hgm|]. apply (st_par _ HS' (S b) b Hgm).
      rewrite (S'proj decl) by reflexivity. destruct (U_from3 (S b)) as (_ & _ & _ & _).
      assert (Hd : decl (nd u (S b)) = b :: option_list root).
      { destruct (is_node _ _ Hsame (S b)) as (_ & -> & _). destruct (c_static _ _ _ _ C8 (S b)) as (_ & -> & _).
        unfold s7, s7_of. rewrite nd_upd_eq; [reflexivity|]. change (has s3 (S b)).
        unfold has. rewrite (if_old _ _ _ (proj1 IF) (S b)) by (left; apply Hlt1; unfold s1'; rewrite has_updb; unfold s1; rewrite has_upd; exact Hhasmain).
        change (has s1' (S b)). unfold s1'. rewrite has_updb. unfold s1. rewrite has_upd. exact Hhasmain. }
      rewrite Hd. left.
  Qed.

  Lemma assemble : (LInvC s' imm /\ Tplain s') /\ imm = None /\ stabNum s' = stabNum s /\ CF s s' /\
    (forall y, isDone s' y = true -> inGraph (nd s' y) = true -> isAlways (nkind (nd s' y)) = true ->
               isDone s y = true /\ inGraph (nd s y) = true /\ isAlways (nkind (nd s y)) = true).
  Proof.
    split; [|split; [exact Himm|split; [exact S'k|split; [exact C_cases|]]]].
    2:{ intros y Hd Hgy Ha. destruct (decide (y = b)) as [->|Hne].
        - rewrite (S'proj nkind) in Ha by reflexivity. rewrite Hkbu in Ha. discriminate.
        - destruct (C_done y Hd Hgy Hne) as (_ & A & B & C). rewrite C in Ha. auto. }
    split; [|exact C_tplain]. rewrite Himm. constructor.
    - exact C_shape.
    - exact C_stamps.
    - exact C_B.
    - discriminate.
    - exact C_owed.
    - exact C_clean.
    - exact C_unreg.
    - exact C_quiet.
  Qed.
End Assemble.

(** the step: the recompute of a lhs-change node of a bind with plain templates preserves [LInvC] *)
Theorem bind_step_full fuel s b s' imm :
  Tplain s -> PInv s -> LInvC s (Some b) -> inGraph (nd s b) = true -> nkind (nd s b) = KBindLhs b ->
  recomputeNodeSerial fuel [] s b = Ok (s', None, imm) -> PInv s' ->
  (LInvC s' imm /\ Tplain s') /\ imm = None /\ stabNum s' = stabNum s /\ CF s s' /\
  (forall x, isDone s' x = true -> inGraph (nd s' x) = true -> isAlways (nkind (nd s' x)) = true ->
             isDone s x = true /\ inGraph (nd s x) = true /\ isAlways (nkind (nd s x)) = true).
Proof.
  intros TP P L Hg Hk H P'. destruct (rns_lhs fuel s b s' imm Hk H) as (u & Hbind & Htail).
  destruct (stages fuel s b u P Hg Hk Hbind) as (s3 & root & t8 & Einst & FP & Ecp & T8 & F8 & Eiv & Hsame & Hval & PU).
  eapply (assemble fuel s b u s' imm); eassumption.
Qed.

Theorem bind_step fuel s b s' imm :
  Tplain s -> PInv s -> LInvC s (Some b) -> inGraph (nd s b) = true -> nkind (nd s b) = KBindLhs b ->
  recomputeNodeSerial fuel [] s b = Ok (s', None, imm) -> PInv s' -> LInvC s' imm /\ Tplain s'.
Proof. intros TP P L Hg Hk H P'. apply (bind_step_full fuel s b s' imm TP P L Hg Hk H P'). Qed.

Theorem bind_step_frame fuel s b s' imm :
  Tplain s -> PInv s -> LInvC s (Some b) -> inGraph (nd s b) = true -> nkind (nd s b) = KBindLhs b ->
  recomputeNodeSerial fuel [] s b = Ok (s', None, imm) -> PInv s' -> bfr s b s'.
Proof.
  intros TP P L Hg Hk H P'. destruct (rns_lhs fuel s b s' imm Hk H) as (u & Hbind & Htail).
  destruct (stages fuel s b u P Hg Hk Hbind) as (s3 & root & t8 & Einst & FP & Ecp & T8 & F8 & Eiv & Hsame & Hval & PU).
  eapply (assemble_frame fuel s b u s' imm); eassumption.
Qed.

(** * 5. The pass: binds with plain templates may swap *)
Lemma Tplain_binds s s' : binds s' = binds s -> Tplain s -> Tplain s'.
Proof. intros E H b r Hr. rewrite E in Hr. apply (H b r Hr). Qed.

Lemma rnsT fuel s m s' imm :
  Tplain s -> PInv s -> LInvC s (Some m) -> inGraph (nd s m) = true ->
  recomputeNodeSerial fuel [] s m = Ok (s', None, imm) ->
  Tplain s' /\ PInv s' /\ LInvC s' imm /\ stabNum s' = stabNum s /\ (forall c, imm = Some c -> inGraph (nd s' c) = true) /\
  CF s s'.
Proof.
  intros TP P L Hg H.
  destruct (recomputeNodeSerial_spec PT PT_struct bind_spec_holds fuel [] s m s' None imm Logic.I P eq_refl Hg H)
    as [[Hr|Hr]|[(P' & _ & Hk & _) Himm]]; try discriminate.
  destruct (isLhs (nkind (nd s m))) eqn:El.
  - destruct (nkind (nd s m)) eqn:K; try discriminate El.
    pose proof (p_kinds _ P m (has_inGraph _ _ Hg)) as Hkk. rewrite K in Hkk. destruct Hkk as [-> _].
    destruct (bind_step_full fuel s b s' imm TP P L Hg K H P') as ([L' TP'] & _ & _ & HC & _). auto 10.
  - pose proof (PInv_BFB s P (lc_shape _ _ L)) as HB.
    destruct (rns_stepB fuel s m s' None imm HB (has_inGraph _ _ Hg) (proj1 (PInv_heap s P)) El H) as [_ PP].
    pose proof (sf_binds _ _ (stepPostB_sframe _ _ _ _ PP)) as Eb.
    split; [apply (Tplain_binds s s' Eb TP)|]. split; [exact P'|].
    split; [exact (step_LInvC s m s' imm (PInv_Struct s P) HB (PInv_heap s P) L Hg El PP)|].
    split; [exact Hk|]. split; [exact Himm|apply CF_binds, Eb].
Qed.

Lemma chainT fuel : forall s n s' at_,
  Tplain s -> PInv s -> LInvC s (Some n) -> inGraph (nd s n) = true ->
  recomputeChain fuel [] s n = Ok (s', None, at_) ->
  Tplain s' /\ PInv s' /\ LInvC s' None /\ stabNum s' = stabNum s /\ CF s s'.
Proof.
  induction fuel as [|fuel IH]; intros s n s' at_ TP P L Hg H; [discriminate|].
  cbn [recomputeChain] in H.
  destruct (recomputeNodeSerial fuel [] s n) as [[[s1 e1] imm]| |] eqn:E1; simpl in H; try discriminate.
  destruct e1 as [e1|]; [destruct imm; injection H as _ ? _; discriminate|].
  destruct (rnsT fuel s n s1 imm TP P L Hg E1) as (TP1 & P1 & L1 & Hk1 & Himm & C1).
  destruct imm as [c|].
  - destruct (IH s1 c s' at_ TP1 P1 L1 (Himm c eq_refl) H) as (TP' & P' & L' & Hk' & C').
    split; [exact TP'|]. split; [exact P'|]. split; [exact L'|]. split; [congruence|eapply CF_trans; eauto].
  - injection H as <- _. auto 10.
Qed.

Lemma loopT fuel : forall s always s' at_ always',
  Tplain s -> PInv s -> LInvC s None ->
  passLoop fuel [] s always = Ok (s', None, at_, always') ->
  Tplain s' /\ PInv s' /\ LInvC s' None /\ Heap.ids (heap s') = [] /\ stabNum s' = stabNum s /\ CF s s'.
Proof.
  induction fuel as [|fuel IH]; intros s always s' at_ always' TP P L H; [discriminate|].
  cbn [passLoop] in H. destruct (PInv_heap s P) as [I _].
  destruct (Z.leb_spec (Heap.cnt (heap s)) 0) as [Hc|Hc].
  { injection H as <- _ _. split; [exact TP|]. split; [exact P|]. split; [exact L|]. split; [apply cnt_zero_ids; assumption|].
    split; [reflexivity|apply CF_binds; reflexivity]. }
  destruct (Heap.removeMin (heap s)) as [[n w]|] eqn:Erm; [|discriminate].
  set (s2 := s <| heap := w |>) in *.
  destruct (recomputeChain fuel [] s2 n) as [[[s3 e3] at3]| |] eqn:E3; simpl in H; try discriminate.
  destruct e3 as [e3|]; [injection H as _ ? _ _; discriminate|].
  destruct (pop_LInvC s n w P L Erm) as (L2 & P2 & Hgn). fold s2 in L2, P2.
  destruct (chainT fuel s2 n s3 at3 (Tplain_binds s s2 eq_refl TP) P2 L2 Hgn E3) as (TP3 & P3 & L3 & Hk3 & C3).
  destruct (IH s3 _ s' at_ always' TP3 P3 L3 H) as (TP' & P' & L' & Hemp & Hk' & C').
  split; [exact TP'|]. split; [exact P'|]. split; [exact L'|]. split; [exact Hemp|].
  split; [rewrite Hk', Hk3; reflexivity|]. apply (CF_trans s s3 s'); [|exact C'].
  apply (CF_trans s s2 s3); [apply CF_binds; reflexivity|exact C3].
Qed.

(** C01 for every serial pass without a plan on a graph whose binds have plain templates (no
    nested bind): binds may swap *)
Theorem passS_consistent s s' :
  Inv s -> ValInvB s -> Tplain s -> stabilize [] false s = Ok (s', None) ->
  consistent s' = true /\ Inv s' /\ wfb s' = true /\ Shape s'.
Proof.
  intros IV V TP H. pose proof (Inv_wfb s IV) as Hwf.
  destruct (wfb_transients _ Hwf) as (Hst & Hsd & Hsr & Hh).
  destruct (stabilize_nil_inv s s' Hst Hsd Hsr H) as (sL & at_ & always & sR & hev & EL & ER & Es & Hhev).
  fold (passStart s) in EL. set (s1 := passStart s) in *.
  pose proof (LInvC_start s IV V) as L1. fold s1 in L1.
  pose proof (Inv_PInv_start s IV) as P1. fold (passStart s) in P1. fold s1 in P1.
  destruct (loopT _ s1 [] sL at_ always (Tplain_binds s s1 eq_refl TP) P1 L1 EL) as (_ & PL & LL & Hemp & _ & _).
  specialize (Es (proj1 (lc_quiet _ _ LL)) (proj2 (lc_quiet _ _ LL))).
  pose proof (requeue_only_heap _ _ _ ER) as OR.
  assert (Hn : nodes s' = nodes sL) by (rewrite Es; cbn; apply (oh_nodes _ _ OR)).
  assert (Hb : binds s' = binds sL) by (rewrite Es; cbn; apply (oh_binds _ _ OR)).
  assert (Hx : next s' = next sL) by (rewrite Es; cbn; apply (oh_next _ _ OR)).
  split; [exact (endC_consistent sL PL LL Hemp s' Hn Hb Hx)|].
  destruct (passB_Inv s s' IV H) as [I' Hwf']. split; [exact I'|]. split; [exact Hwf'|].
  intros n y E. rewrite Hn in E. exact (lc_shape _ _ LL n y E).
Qed.

From incr Require Import SpecProofs.

Theorem passS_observers_agree s s' :
  Inv s -> ValInvB s -> Tplain s -> stabilize [] false s = Ok (s', None) -> templates_ok s' = true ->
  consistent s' = true /\ observers_agree s' = true /\ Inv s' /\ wfb s' = true.
Proof.
  intros IV V TP H Ht. destruct (passS_consistent s s' IV V TP H) as (Hc & I' & Hwf' & HSh).
  split; [exact Hc|]. split; [|auto].
  exact (C01_observers_agree_proof s' Hwf' (Inv_closed s' I' HSh) Ht Hc).
Qed.

(** * 6. Checker for [Tplain], and the example *)
Definition tplain_b (s : state) : bool :=
  forallb (fun '(b, r) => forallb (tplain true) (b_cases r)) (map_to_list (binds s)).

Lemma tplain_b_sound s : tplain_b s = true -> Tplain s.
Proof.
  intros H b r Hr. apply elem_of_map_to_list in Hr. exact (forallb_elem _ _ _ H Hr).
Qed.

Lemma exS_pre_run : run_clean (init 64) (take 5 exB_ops) = Some exS_pre.
Proof.
  assert (H : match run_clean (init 64) (take 5 exB_ops) with Some _ => true | None => false end = true)
    by (vm_compute; reflexivity).
  unfold exS_pre. destruct (run_clean (init 64) (take 5 exB_ops)) as [s|]; [reflexivity|discriminate H].
Qed.

Lemma exS_pre_hyps : Inv exS_pre /\ ValInvB exS_pre /\ Tplain exS_pre.
Proof.
  assert (IV : Inv exS_pre) by (apply (Inv_run_clean 64 (take 5 exB_ops)); [lia|exact exS_pre_run]).
  split; [exact IV|]. split; [apply (valinvB_b_sound _ IV); vm_compute; reflexivity|].
  apply tplain_b_sound. vm_compute. reflexivity.
Qed.

(** * 7. The quiescent invariant after a pass in which binds swap *)
Definition AW (s : state) (always : list nid) : Prop :=
  forall y, isAlways (nkind (nd s y)) = true -> isDone s y = true -> inGraph (nd s y) = true -> y ∈ always.

Lemma rnsT2 fuel s m s' imm :
  Tplain s -> PInv s -> LInvC s (Some m) -> inGraph (nd s m) = true ->
  recomputeNodeSerial fuel [] s m = Ok (s', None, imm) ->
  (forall y, isDone s' y = true -> inGraph (nd s' y) = true -> isAlways (nkind (nd s' y)) = true ->
     (isDone s y = true /\ inGraph (nd s y) = true /\ isAlways (nkind (nd s y)) = true) \/
     (y = m /\ isAlways (nkind (nd s m)) = true)) /\
  (forall c, imm = Some c -> isAlways (nkind (nd s' c)) = false).
Proof.
  intros TP P L Hg H.
  destruct (recomputeNodeSerial_spec PT PT_struct bind_spec_holds fuel [] s m s' None imm Logic.I P eq_refl Hg H)
    as [[Hr|Hr]|[(P' & _ & Hk & _) Himm]]; try discriminate.
  destruct (isLhs (nkind (nd s m))) eqn:El.
  - destruct (nkind (nd s m)) eqn:K; try discriminate El.
    pose proof (p_kinds _ P m (has_inGraph _ _ Hg)) as Hkk. rewrite K in Hkk. destruct Hkk as [-> _].
    destruct (bind_step_full fuel s b s' imm TP P L Hg K H P') as (_ & Ei & _ & _ & Hd).
    split; [intros y A B C; left; apply (Hd y A B C)|]. intros c Ec. congruence.
  - pose proof (PInv_BFB s P (lc_shape _ _ L)) as HB.
    destruct (rns_stepB fuel s m s' None imm HB (has_inGraph _ _ Hg) (proj1 (PInv_heap s P)) El H) as [_ PP].
    pose proof (stepPostB_sframe _ _ _ _ PP) as F. split.
    + intros y A B C. apply (PassBindSwapProofs.done'_iff s m s' imm PP) in A as [A| ->].
      * left. rewrite <- (sf_inGraph _ _ F), <- (sf_nkind _ _ F). auto.
      * right. split; [reflexivity|]. rewrite <- (sf_nkind _ _ F). exact C.
    + intros c Ec. destruct (sq_case _ _ _ _ PP) as [C|R]; [pose proof (cp_imm _ _ _ _ C); congruence|].
      destruct (rq_imm _ _ _ _ R c Ec) as [_ Hcan]. unfold canRecomputeImmediately in Hcan.
      destruct (isAlways (nkind (nd s' c))); [discriminate|reflexivity].
Qed.

Lemma chainT2 fuel : forall s n s' at_ always,
  Tplain s -> PInv s -> LInvC s (Some n) -> inGraph (nd s n) = true ->
  AW s always -> (isAlways (nkind (nd s n)) = true -> n ∈ always) ->
  recomputeChain fuel [] s n = Ok (s', None, at_) -> AW s' always.
Proof.
  induction fuel as [|fuel IH]; intros s n s' at_ always TP P L Hg HA Hn H; [discriminate|].
  cbn [recomputeChain] in H.
  destruct (recomputeNodeSerial fuel [] s n) as [[[s1 e1] imm]| |] eqn:E1; simpl in H; try discriminate.
  destruct e1 as [e1|]; [destruct imm; injection H as _ ? _; discriminate|].
  destruct (rnsT fuel s n s1 imm TP P L Hg E1) as (TP1 & P1 & L1 & Hk1 & Himm & _).
  destruct (rnsT2 fuel s n s1 imm TP P L Hg E1) as (Hd & Hna).
  assert (HA1 : AW s1 always).
  { intros y A B C. destruct (Hd y B C A) as [(X1 & X2 & X3)|[-> X]]; [apply (HA y X3 X1 X2)|apply Hn, X]. }
  destruct imm as [c|].
  - apply (IH s1 c s' at_ always TP1 P1 L1 (Himm c eq_refl) HA1); [|exact H].
    intros Hc. rewrite (Hna c eq_refl) in Hc. discriminate.
  - injection H as <- _. exact HA1.
Qed.

Lemma loopT2 fuel : forall s always s' at_ always',
  Tplain s -> PInv s -> LInvC s None -> AW s always ->
  passLoop fuel [] s always = Ok (s', None, at_, always') -> AW s' always'.
Proof.
  induction fuel as [|fuel IH]; intros s always s' at_ always' TP P L HA H; [discriminate|].
  cbn [passLoop] in H.
  destruct (Z.leb_spec (Heap.cnt (heap s)) 0) as [Hc|Hc]; [injection H as <- _ <-; exact HA|].
  destruct (Heap.removeMin (heap s)) as [[n w]|] eqn:Erm; [|discriminate].
  set (s2 := s <| heap := w |>) in *.
  set (always2 := if isAlways (nkind (nd s2 n)) then always ++ [n] else always) in *.
  destruct (recomputeChain fuel [] s2 n) as [[[s3 e3] at3]| |] eqn:E3; simpl in H; try discriminate.
  destruct e3 as [e3|]; [injection H as _ ? _ _; discriminate|].
  destruct (pop_LInvC s n w P L Erm) as (L2 & P2 & Hgn). fold s2 in L2, P2.
  pose proof (Tplain_binds s s2 eq_refl TP) as TP2.
  destruct (chainT fuel s2 n s3 at3 TP2 P2 L2 Hgn E3) as (TP3 & P3 & L3 & Hk3 & _).
  assert (HA2 : AW s2 always2).
  { intros y A B C. unfold always2. destruct (isAlways (nkind (nd s2 n))); [apply elem_of_app; left|]; apply (HA y A B C). }
  assert (Hn2 : isAlways (nkind (nd s2 n)) = true -> n ∈ always2).
  { intros E. unfold always2. rewrite E. apply elem_of_app. right. left. }
  pose proof (chainT2 fuel s2 n s3 at3 always2 TP2 P2 L2 Hgn HA2 Hn2 E3) as HA3.
  apply (IH s3 always2 s' at_ always' TP3 P3 L3 HA3 H).
Qed.

Lemma requeue_mem always : forall s sR,
  HeapSpec.inv (heap s) -> requeueAlways always s = Ok sR ->
  HeapSpec.inv (heap sR) /\
  (forall y, y ∈ Heap.ids (heap s) -> y ∈ Heap.ids (heap sR)) /\
  (forall y, y ∈ always -> height (nd s y) <> unset -> y ∈ Heap.ids (heap sR)).
Proof.
  induction always as [|a l IH]; intros s sR I H; unfold requeueAlways in H.
  - injection H as <-. split; [exact I|]. split; [auto|]. intros y Hy. inv Hy.
  - rewrite rfold_cons in H. destruct (Z.eqb_spec (height (nd s a)) unset) as [E|E].
    + destruct (IH s sR I H) as (I' & M & A). split; [exact I'|]. split; [exact M|].
      intros y Hy Hh. apply elem_of_cons in Hy as [->|Hy]; [contradiction|apply A; assumption].
    + destruct (heapAddIfNotPresent s a) as [s1| |] eqn:E1; simpl in H; try discriminate.
      unfold heapAddIfNotPresent in E1. destruct (inHeap s a) eqn:Ea.
      * injection E1 as <-. destruct (IH s sR I H) as (I' & M & A). split; [exact I'|]. split; [exact M|].
        intros y Hy Hh. apply elem_of_cons in Hy as [->|Hy]; [|apply A; assumption].
        apply M, (inHeap_iff0 s a I), Ea.
      * assert (Hh0 : 0 <= height (nd s a)) by (apply (heapAdd_ok_nonneg _ _ _ E1)).
        assert (E1' : heapAddIfNotPresent s a = Ok s1) by (unfold heapAddIfNotPresent; rewrite Ea; exact E1).
        destruct (heapAddIfNotPresent_spec0 s a s1 I Hh0 E1') as (O1 & I1 & M1 & _).
        assert (Hnd1 : forall y, nd s1 y = nd s y) by (intros; apply (oh_nd _ _ O1)).
        destruct (IH s1 sR I1 H) as (I' & M & A). split; [exact I'|]. split.
        -- intros y Hy. apply M, M1. right. exact Hy.
        -- intros y Hy Hh. apply elem_of_cons in Hy as [->|Hy].
           ++ apply M, M1. left. reflexivity.
           ++ apply A; [exact Hy|]. rewrite Hnd1. exact Hh.
Qed.

Lemma endC_stale_always sL : PInv sL -> LInvC sL None -> Heap.ids (heap sL) = [] ->
  forall n, inGraph (nd sL n) = true -> isStale sL n = true -> nkind (nd sL n) = KAlways /\ isDone sL n = true.
Proof.
  intros PL LL Hemp n Hg Hs. pose proof (proj1 (PInv_heap sL PL)) as IL.
  assert (Hd : isDone sL n = true).
  { destruct (isDone sL n) eqn:Ed; [reflexivity|exfalso].
    pose proof (lc_owed _ _ LL n Hg Ed Hs) as Hw. apply (inW_iff sL None n IL) in Hw as [Hw|?]; [|discriminate].
    rewrite Hemp in Hw. inv Hw. }
  split; [|exact Hd]. apply isDone_iff in Hd. pose proof (st_num sL (p_stamps sL PL)) as Hk.
  unfold isStale in Hs. rewrite (t_valid _ _ _ (p_t _ PL) n Hg) in Hs. simpl in Hs.
  assert (Hsw : staleWrtParents sL (nd sL n) = false).
  { unfold staleWrtParents. destruct (existsb _ _) eqn:Ex; [|reflexivity].
    apply existsb_elem in Ex as (p & _ & Hp). apply Z.gtb_lt in Hp.
    pose proof (stamps_node_false _ _ (lc_stamps _ _ LL p)). lia. }
  assert (H0 : (recomputedAt (nd sL n) =? 0) = false) by (apply Z.eqb_neq; lia).
  destruct (nkind (nd sL n)) eqn:K; try reflexivity; try discriminate Hs; rewrite ?H0, ?Hsw in Hs; discriminate Hs.
Qed.

(** the quiescent invariant again, also after a pass in which binds swap: passes chain *)
Theorem passS_ValInvB s s' :
  Inv s -> ValInvB s -> Tplain s -> stabilize [] false s = Ok (s', None) -> ValInvB s' /\ Tplain s' /\ CF s s'.
Proof.
  intros IV V TP H. pose proof (Inv_wfb s IV) as Hwf.
  destruct (wfb_transients _ Hwf) as (Hst & Hsd & Hsr & Hh).
  destruct (stabilize_nil_inv s s' Hst Hsd Hsr H) as (sL & at_ & always & sR & hev & EL & ER & Es & Hhev).
  fold (passStart s) in EL. set (s1 := passStart s) in *.
  pose proof (LInvC_start s IV V) as L1. fold s1 in L1.
  pose proof (Inv_PInv_start s IV) as P1. fold (passStart s) in P1. fold s1 in P1.
  pose proof (Tplain_binds s s1 eq_refl TP) as TP1.
  destruct (loopT _ s1 [] sL at_ always TP1 P1 L1 EL) as (TPL & PL & LL & Hemp & HkL & CL).
  assert (HA1 : AW s1 []).
  { intros y _ Hd _. exfalso. pose proof (stamps_node_true _ _ (vb_stamps _ V y)). unfold isDone in Hd. apply Z.eqb_eq in Hd.
    change (recomputedAt (nd s y) = stabNum s) in Hd. lia. }
  pose proof (loopT2 _ s1 [] sL at_ always TP1 P1 L1 HA1 EL) as HAL.
  specialize (Es (proj1 (lc_quiet _ _ LL)) (proj2 (lc_quiet _ _ LL))).
  pose proof (requeue_only_heap _ _ _ ER) as OR.
  destruct (PInv_heap sL PL) as [IL HqL].
  destruct (requeue_mem always sL sR IL ER) as (IR & MR & AR).
  assert (Hn : nodes s' = nodes sL) by (rewrite Es; cbn; apply (oh_nodes _ _ OR)).
  assert (Hb : binds s' = binds sL) by (rewrite Es; cbn; apply (oh_binds _ _ OR)).
  assert (Hx : next s' = next sL) by (rewrite Es; cbn; apply (oh_next _ _ OR)).
  assert (Hk' : stabNum s' = stabNum s + 1).
  { rewrite Es. cbn. rewrite (oh_stabNum _ _ OR), HkL. reflexivity. }
  assert (Hheap : heap s' = heap sR) by (rewrite Es; reflexivity).
  pose proof (nodes_eq_nd _ _ Hn) as Hnd.
  pose proof (PInv_Struct sL PL) as HSL. pose proof (PInv_BFB sL PL (lc_shape _ _ LL)) as HBL.
  assert (HkLs : stabNum sL = stabNum s) by exact HkL.
  split.
  2:{ split; [apply (Tplain_binds sL s' Hb); exact TPL|].
      apply (CF_trans s sL s'); [|apply CF_binds, Hb]. apply (CF_trans s s1 sL); [apply CF_binds; reflexivity|exact CL]. }
  constructor.
  - intros n y E. rewrite Hn in E. exact (lc_shape _ _ LL n y E).
  - intros n. unfold stamps_node. rewrite Hnd, Hk'. pose proof (stamps_node_false _ _ (lc_stamps _ _ LL n)) as Hs.
    rewrite HkLs in Hs. rewrite !andb_true_iff, !Z.leb_le, !Z.ltb_lt. lia.
  - intros n Hg Hv. rewrite Hnd in *. apply (lc_unreg _ _ LL n Hg Hv).
  - intros n Hg Hs. rewrite Hnd in Hg. rewrite (isStale_nodes sL s' n Hn) in Hs.
    destruct (endC_stale_always sL PL LL Hemp n Hg Hs) as [Ka Hd].
    apply (inHeap_iff0 s' n); [rewrite Hheap; exact IR|]. rewrite Hheap. apply AR.
    + apply (HAL n); [rewrite Ka; reflexivity|exact Hd|exact Hg].
    + pose proof (st_hnonneg _ HSL n Hg). unfold unset. lia.
  - intros n Hg _ _. rewrite Hnd in *.
    rewrite (consistent_valB_nodes sL s' n _ Hn Hb).
    pose proof (endC_clean sL PL LL Hemp n Hg) as Hc. unfold clean_ok in Hc. apply andb_true_iff in Hc as [Hc _]. exact Hc.
  - intros b Hg K _ _. rewrite Hnd in *. rewrite (matchesOK_nodes sL s' b Hn Hb Hx).
    destruct (bb_main _ HBL _ _ K) as (_ & KL & Hd).
    assert (E1 : edge sL b (S b)) by (apply (decl_parent sL HSL _ _ Hg); rewrite Hd; left).
    destruct (edge_reg sL HSL _ _ E1) as [HgL _].
    pose proof (endC_clean sL PL LL Hemp b HgL) as HcL. unfold clean_ok in HcL. apply andb_true_iff in HcL as [_ HcL].
    rewrite KL, Hg, K in HcL. rewrite !bool_decide_eq_true_2 in HcL by reflexivity. exact HcL.
Qed.
